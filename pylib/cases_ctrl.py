"""Case generators and oracles for the control-flow properties C01, C02, C03, C05, C11."""
import itertools, re
from proto import compile_line
from gen import G, base_cfg, script_src, p_cond, p_block, body_stats, cond_leaves, FLAGS, VARS, TRAINERS
import sem

class Case:
    """One generated case: a protocol line for impl and model plus what the oracle needs."""
    def __init__(self, line, src, cfg, meta=None, group=None):
        self.line = line; self.src = src; self.cfg = cfg; self.meta = meta or {}; self.group = group
    def describe(self):
        return {"src": self.src, "cfg": self.cfg.text() if self.cfg is not None else None}

def ctrl_case(body, labels, opt, cfg0=None, name="S", tag=None):
    src = script_src(name, body)
    cfg = (cfg0 or base_cfg()).copy(optimize=opt)
    return Case(compile_line(cfg, src), src, cfg, {"body": body, "labels": labels, "name": name, "opt": opt, "tag": tag})

# ---------------- C01 ----------------
def nested_loops(g):
    """Two or three loops inside each other (optionally with a switch layer), each with its own
    conditional break / continue: every jump must bind to the innermost enclosing loop / switch."""
    r = g.r
    def jump(kinds): return ("if", [(g.cond(0, 1), [(r.choice(kinds),)])], None)
    def loop(body):
        k = r.choice(["while", "while", "do", "inf"])
        if k == "while": return ("while", g.cond(0, 1), body)
        if k == "do": return ("do", body, g.cond(0, 1))
        return ("while", None, body[:1] + [jump(["break"])] + body[1:])
    inner = [g.cmd(), jump(["continue", "continue", "break"]), g.cmd()]
    if r.random() < 0.3: inner.append(("continue",))
    cur = loop(inner)
    for _ in range(r.choice([1, 1, 2])):
        mid = [g.cmd(), cur, g.cmd()]
        labelled = r.random() < 0.4      # a label directly in front of the inner loop (an entry point, not a name for the loop)
        if labelled: mid.insert(1, ("label", "%sL%d" % (g.prefix, g.nlab + 1), None))
        if r.random() < 0.5: mid.insert(r.choice([0, 1, 2, 3] if not labelled else [0, 1, 3, 4]), jump(["continue", "break"]))
        if r.random() < 0.35:
            # a switch between the loops: break leaves the switch, also from its default case
            cases = [(1, [g.cmd()]), (None, [g.cmd(), jump(["break"]), g.cmd()]), (2, [cur, jump(["break"]), g.cmd()])]
            r.shuffle(cases)
            mid = [g.cmd(), ("switch", ("var", "VAR_A"), cases), g.cmd()]; labelled = False
        if labelled: g.nlab += 1; g.labels.append("%sL%d" % (g.prefix, g.nlab))
        cur = loop(mid)
    return [g.cmd(), cur, g.cmd()]

def gen_C01(rnd, n, tier):
    out = []
    for i in range(n):
        g = G(rnd, maxdepth=3 if tier == "quick" else 4)
        body = nested_loops(g) if i % 5 == 4 else g.body()
        for opt in (True, False): out.append(ctrl_case(body, list(g.labels), opt))
    return out

TEXT_LABEL = re.compile(r"\w+_Text_\d+")
def norm_text_labels(line): return TEXT_LABEL.sub("<T>", line)

def oracle_ctrl(case, res, seeds=(1, 2, 3, 4, 5, 6)):
    """Behavioural oracle: implementation assembly vs reference semantics."""
    if res["kind"] != "OK":
        return "accepted program was rejected or crashed: %s %s" % (res["kind"], res.get("msg", ""))
    m = case.meta
    return sem.compare_runs(m["body"], m["labels"], res["text"], m["name"], [s * 7919 + len(case.src) for s in seeds],
                            norm=norm_text_labels if m.get("textleaves") else None)

def dist_ctrl(cases):
    tot = {}
    for c in cases:
        if "body" in c.meta:
            for k, v in body_stats(c.meta["body"]).items():
                if k == "depth": tot["maxdepth"] = max(tot.get("maxdepth", 0), v)
                else: tot[k] = tot.get(k, 0) + v
    return tot

# ---------------- C02 ----------------
def gen_C02(rnd, n, tier):
    out = []
    for i in range(n):
        g = G(rnd, autovar=(i % 4 == 0))
        c = g.cond(0, maxd=rnd.choice([1, 2, 3, 3, 4] if tier == "quick" else [2, 3, 4, 5]))
        form = rnd.choice(["if", "if", "ifelse", "while", "do", "elif", "iflast", "chain"])
        if form == "if" and i % 5 == 0: body = [("if", [(c, [("cmd", "call(Common_Reward)", "call Common_Reward")])], None), ("cmd", "after", "after")]     # a body that is one call
        elif form == "if": body = [("if", [(c, [("cmd", "yes", "yes")])], None), ("cmd", "after", "after")]
        elif form == "iflast": body = [("cmd", "before", "before"), ("if", [(c, [("cmd", "yes", "yes")])], None)]   # a false condition returns
        elif form == "ifelse": body = [("if", [(c, [("cmd", "yes", "yes")])], [("cmd", "no", "no")])]
        elif form == "elif":
            c2 = g.cond(0, maxd=2)
            body = [("if", [(c2, [("cmd", "first", "first")]), (c, [("cmd", "yes", "yes")])], [("cmd", "no", "no")])]
        elif form == "while": body = [("while", c, [("cmd", "body", "body")]), ("cmd", "after", "after")]
        elif form == "chain":
            # if / elif / elif / else that looks like a jump table over one var - except for one arm
            v = rnd.choice(["VAR_A", "VAR_B"]); o = "VAR_B" if v == "VAR_A" else "VAR_A"
            arms = [("leaf", ("var", v, "op", "==", k)) for k in (1, 2, 3)]
            dev = rnd.choice([("leaf", ("var", v, "op", "!=", 2)), ("leaf", ("var", o, "op", "==", 2)), ("leaf", ("var", v, "opv", "==", 2)), ("leaf", ("flag", "FLAG_A", "")), ("leaf", ("var", v, "op", ">=", 2)), arms[1]])
            arms[rnd.choice([0, 1, 1, 1, 2])] = dev
            c = ("and", arms[0], ("and", arms[1], arms[2]))
            body = [("if", [(arms[0], [("cmd", "first", "first")]), (arms[1], [("cmd", "second", "second")]), (arms[2], [("cmd", "third", "third")])],
                     [("cmd", "other", "other")] if rnd.random() < 0.7 else None), ("cmd", "after", "after")]
        else: body = [("do", [("cmd", "body", "body")], c), ("cmd", "after", "after")]
        opt = rnd.random() < 0.5
        cs = ctrl_case(body, [], opt, tag=form)
        cs.meta["cond"] = c
        out.append(cs)
    return out

def table_worlds(cond, rnd, cap=64):
    """Truth assignments over the leaves of a condition: exhaustive when small, else sampled."""
    leaves = cond_leaves(cond)
    fl = sorted({l[1] for l in leaves if l[0] == "flag"}); tr = sorted({l[1] for l in leaves if l[0] == "defeated"})
    vs = sorted({(l[1] if l[0] == "var" else l[3]) for l in leaves if l[0] in ("var", "auto")})
    total = (2 ** (len(fl) + len(tr))) * (4 ** len(vs))
    worlds = []
    if total <= cap:
        for bits in itertools.product([False, True], repeat=len(fl) + len(tr)):
            for vals in itertools.product([0, 1, 2, 3], repeat=len(vs)):
                worlds.append(sem.TableWorld(dict(zip(fl, bits[:len(fl)])), dict(zip(tr, bits[len(fl):])), dict(zip(vs, vals))))
        return worlds, True
    for _ in range(cap):
        worlds.append(sem.TableWorld({f: rnd.random() < 0.5 for f in fl}, {t: rnd.random() < 0.5 for t in tr}, {v: rnd.randint(0, 3) for v in vs}))
    return worlds, False

def oracle_C02(case, res, rnd):
    if res["kind"] != "OK":
        return "accepted program was rejected or crashed: %s %s" % (res["kind"], res.get("msg", ""))
    m = case.meta
    worlds, _ = table_worlds(m["cond"], rnd)
    r = sem.compare_runs(m["body"], [], res["text"], m["name"], worlds, limit=12)
    if r: return r
    return sem.compare_runs(m["body"], [], res["text"], m["name"], [11, 12, 13], limit=12)

# ---------------- C03 ----------------
def switch_shapes(maxn):
    """All arrangements of <= maxn cases: each entry empty / non-empty, at most one default."""
    for n in range(1, maxn + 1):
        for bodies in itertools.product([False, True], repeat=n):
            for dpos in [None] + list(range(n)):
                yield bodies, dpos

def switch_stmt(bodies, dpos, tagn, with_break=None):
    cases = []; v = 1
    for i, has in enumerate(bodies):
        b = [("cmd", "b%d_%d" % (tagn, i), "b%d_%d" % (tagn, i))] if has else []
        if has and with_break == i: b = [("cmd", "pre%d" % i, "pre%d" % i), ("break",), ("cmd", "dead%d" % i, "dead%d" % i)]
        if dpos == i: cases.append((None, b))
        else: cases.append((v, b)); v += 1
    return ("switch", ("var", "VAR_A"), cases)

def in_context(sw, ctx):
    if ctx == "top": return [("cmd", "before", "before"), sw, ("cmd", "after", "after")]
    if ctx == "last": return [("cmd", "before", "before"), sw]
    if ctx == "loop":
        return [("while", ("leaf", ("flag", "FLAG_A", "")), [sw, ("cmd", "inloop", "inloop")]), ("cmd", "after", "after")]
    if ctx == "switch":
        outer = ("switch", ("var", "VAR_B"), [(1, [sw, ("cmd", "o1", "o1")]), (None, [("cmd", "od", "od")])])
        return [outer, ("cmd", "after", "after")]
    raise Exception(ctx)

def gen_C03(rnd, n, tier):
    out = []
    maxn = 4 if tier == "quick" else 6
    k = 0
    for bodies, dpos in switch_shapes(maxn):
        for ctx in ("top", "last", "loop", "switch"):
            if tier == "quick" and len(bodies) == 4 and ctx in ("loop", "switch") and (k % 3): k += 1; continue
            k += 1
            brk = None
            if any(bodies) and rnd.random() < 0.3: brk = rnd.choice([i for i, b in enumerate(bodies) if b])
            body = in_context(switch_stmt(bodies, dpos, 0, brk), ctx)
            out.append(ctrl_case(body, [], rnd.random() < 0.5, tag="shape %s d=%s %s" % ("".join("X" if b else "_" for b in bodies), dpos, ctx)))
    for i in range(n):
        g = G(rnd, maxdepth=3)
        sw = g.switch(0, False, ncases=rnd.randint(1, 7 if tier == "quick" else 9))
        body = in_context(sw, rnd.choice(["top", "last", "loop", "switch"]))
        g.patch_gotos(body)
        out.append(ctrl_case(body, list(g.labels), rnd.random() < 0.5, tag="random"))
    # a third of the cases: other layout (several cases / statements on one source line, comments)
    # and line markers on - the behaviour of the switch does not depend on either
    from gen import relayout
    for c in out:
        if rnd.random() < 0.33:
            c.src = relayout(c.src, rnd); c.cfg = c.cfg.copy(lm=True, path="f.pory")
            c.line = compile_line(c.cfg, c.src)
    return out

def oracle_C03(case, res, rnd):
    if res["kind"] != "OK":
        return "accepted program was rejected or crashed: %s %s" % (res["kind"], res.get("msg", ""))
    m = case.meta
    worlds = []
    for va in range(0, 13):
        for vb in (1, 2):
            for fa in (False, True):
                worlds.append(sem.TableWorld({f: fa for f in FLAGS}, {t: fa for t in TRAINERS}, {"VAR_A": va, "VAR_B": vb, "VAR_RESULT": va}))
    r = sem.compare_runs(m["body"], m["labels"], res["text"], m["name"], worlds, limit=30)
    if r: return r
    return sem.compare_runs(m["body"], m["labels"], res["text"], m["name"], [21, 22, 23, 24], limit=40)

# ---------------- C05 ----------------
import re
def gen_C05(rnd, n, tier):
    out = []
    for i in range(n):
        g = G(rnd, maxdepth=3 if tier == "quick" else 4)
        body = g.body()
        a = ctrl_case(body, list(g.labels), True); b = ctrl_case(body, list(g.labels), False)
        a.group = b.group = i
        out += [a, b]
        if i % 4 == 0:
            # whole files with hoisted data (repeated contents under several string types, movements,
            # marts, map scripts): both orders must define the same data under the same labels
            from cases_data import TopGen
            tg = TopGen(rnd, tier); src = tg.gen(rnd.randint(2, 5))
            for opt in (True, False):
                cfg = base_cfg(optimize=opt)
                out.append(Case(compile_line(cfg, src), src, cfg, {"top": tg, "opt": opt}, group=("t", i)))
    return out

def data_blocks(text):
    """label line -> the directive lines that follow it, for every block that is data (texts,
    movements, marts, map script headers and tables, raw data)."""
    blocks = {}; pending = []; cur = None
    for ln in text.split("\n"):
        if ln.startswith("# "): continue
        if re.match(r"^[^\s:]+::?$", ln):
            pending.append(ln); continue
        if pending:
            cur = []
            for l in pending: blocks[l] = cur      # stacked labels denote the same block
            pending = []
        if ln.startswith("\t") and cur is not None: cur.append(ln)
        elif not ln.strip(): cur = None
    return {k: v for k, v in blocks.items() if v and all(re.match(r"^\t(\.|map_script|walk_|face_|delay_|step_end)", x) for x in v)}

def goto_next_or_orphan(text, name):
    """Textual half of C05: no generated goto to the label on the very next line, no generated
    sub-label that nothing refers to."""
    lines = [l for l in text.split("\n")]
    gen_label = re.compile(r"^(%s_\d+):$" % re.escape(name))
    refs = set()
    for l in lines:
        if l.startswith("\t"):
            for tok in re.findall(r"%s_\d+" % re.escape(name), l): refs.add(tok)
    nonblank = [l for l in lines if l.strip() and not l.startswith("# ")]
    for i, l in enumerate(nonblank):
        m = re.match(r"^\tgoto (\S+)$", l)
        if m and i + 1 < len(nonblank) and nonblank[i + 1] in (m.group(1) + ":", m.group(1) + "::") and gen_label.match(nonblank[i + 1]):
            return "goto %s is followed by its own label" % m.group(1)
        g = gen_label.match(l)
        if g and g.group(1) not in refs: return "generated label %s is never referenced" % g.group(1)
    return None

def oracle_C05_pair(ca, ra, cb, rb):
    if ra["kind"] != rb["kind"]: return "optimized and unoptimized disagree on acceptance: %s vs %s" % (ra["kind"], rb["kind"])
    if ra["kind"] != "OK": return None
    if "top" in ca.meta:
        da = data_blocks(ra["text"]); db = data_blocks(rb["text"])
        if da != db:
            diff = sorted(k for k in set(da) | set(db) if da.get(k) != db.get(k))
            return "optimized and unoptimized output define different data under %s" % ", ".join(diff[:3])
        return None
    for c, r in ((ca, ra), (cb, rb)):
        e = goto_next_or_orphan(r["text"], c.meta["name"])
        if e: return ("optimize=%s: " % c.meta["opt"]) + e
        e = oracle_ctrl(c, r, seeds=(31, 32, 33))
        if e: return ("optimize=%s: " % c.meta["opt"]) + e
    # same user labels and same data
    def labelset(t): return sorted(l for l in t.split("\n") if re.match(r"^[A-Za-z_]\w*::?$", l) and not re.match(r"^%s_\d+:" % ca.meta["name"], l))
    if labelset(ra["text"]) != labelset(rb["text"]): return "user-visible labels differ between optimized and unoptimized output"
    return None

# ---------------- C11 ----------------
def gen_C11(rnd, n, tier):
    out = []
    for i in range(n):
        g = G(rnd, autovar=True, labels=False, maxdepth=2)
        # force autovar leaves: regenerate condition until it has one
        for _ in range(20):
            c = g.cond(0, maxd=3)
            if any(l[0] == "auto" for l in cond_leaves(c)): break
        textleaves = (i % 3 == 0)
        if textleaves:
            # auto-var commands whose argument is an inline text: rendered with the hoisted label
            cnt = [0]
            def retext(x):
                if x[0] == "leaf":
                    l = x[1]
                    if l[0] == "auto" or rnd.random() < 0.3:
                        cnt[0] += 1
                        form, op, val = (l[4], l[5], l[6]) if l[0] == "auto" else ("op", "==", 1)
                        return ("leaf", ("auto", 'avtext(%d, "ask %d")' % (cnt[0], cnt[0]), "avtext %d, <T>" % cnt[0], "VAR_RESULT", form, op, val))
                    return x
                if x[0] in ("paren", "not"): return (x[0], retext(x[1]))
                return (x[0], retext(x[1]), retext(x[2]))
            c = retext(c)
        form = rnd.choice(["if", "while", "do", "switch", "elifsame"])
        if i % 7 == 3:
            # an `if` whose first body is only another `if`, followed by an `elif` with the AutoVar condition and no
            # `else` (a compiler that folds nested ifs must keep the elif for the case "outer holds, inner fails")
            form = "nestelif"
            fo = ("leaf", ("flag", "FLAG_OUT", "")); fi = ("leaf", ("flag", "FLAG_IN", "")) if i % 2 else c
            body = [("if", [(fo, [("if", [(fi, [("cmd", "yes", "yes")])], None)]), (c, [("cmd", "maybe", "maybe")])], None), ("cmd", "after", "after")]
        elif form == "elifsame":
            k = rnd.randint(2, 4); cmdsrc, cmdasm = "random(%d)" % k, "random %d" % k
            a1 = ("leaf", ("auto", cmdsrc, cmdasm, "VAR_RESULT", "op", "==", 0)); a2 = ("leaf", ("auto", cmdsrc, cmdasm, "VAR_RESULT", "op", rnd.choice(["==", "!=", ">"]), 1))
            c = ("and", a1, a2)
            body = [("if", [(a1, [("cmd", "jackpot", "jackpot")]), (a2, [("cmd", "consolation", "consolation")])], [("cmd", "nothing", "nothing")]), ("cmd", "after", "after")]
        elif form == "if": body = [("if", [(c, [("cmd", "yes", "yes")])], [("cmd", "no", "no")]), ("cmd", "after", "after")]
        elif form == "while" and i % 3 == 1:
            # a condition-less loop whose exit test is an if with an AutoVar condition around a lone break
            body = [("while", None, [("if", [(c, [("break",)])], None), ("cmd", "body", "body")]), ("cmd", "after", "after")]
        elif form == "while" and i % 3 == 0:
            inner = ("while", c, [("cmd", "body", "body"), ("if", [(("leaf", ("flag", "FLAG_Q", "")), [("continue",)])], None), ("cmd", "rest", "rest")])
            body = [("while", ("leaf", ("var", "VAR_W", "op", "<", 2)), [("cmd", "outer", "outer"), ("label", "Reroll", None), inner, ("cmd", "endround", "endround")]), ("cmd", "after", "after")]
        elif form == "while": body = [("while", c, [("cmd", "body", "body")]), ("cmd", "after", "after")]
        elif form == "do": body = [("do", [("cmd", "body", "body")], c), ("cmd", "after", "after")]
        else:
            sw = g.switch(0, False)
            nn = rnd.randint(2, 5); which = rnd.random()
            if which < 0.5: opnd = ("auto", "random(%d)" % nn, "random %d" % nn, "VAR_RESULT")
            else: opnd = ("auto", "specialvar(VAR_Y, %d)" % nn, "specialvar VAR_Y, %d" % nn, "VAR_Y")
            body = [("cmd", "before", "before"), ("switch", opnd, sw[2]), ("cmd", "after", "after")]
        cs = ctrl_case(body, [], rnd.random() < 0.5, tag=form)
        cs.meta["textleaves"] = textleaves
        if i % 4 == 1:
            # the statement with the AutoVar condition is the selected case of a poryswitch, as the single
            # statement of a `key:` case or inside a `key { }` case (an AutoVar switch is TWO statements for the parser)
            k = 1 if form == "switch" else 0
            if rnd.random() < 0.6: wrapped = "  poryswitch(V) {\n    B: never\n    A: %s    _: other\n  }\n" % p_block([body[k]], 2).lstrip()
            else: wrapped = "  poryswitch(V) {\n    A {\n%s    }\n    _ { other }\n  }\n" % p_block([body[k]], 3)
            cs.src = "script S {\n%s%s%s}\n" % (p_block(body[:k], 1), wrapped, p_block(body[k + 1:], 1))
            cs.cfg = cs.cfg.copy(switches={"V": "A"}); cs.line = compile_line(cs.cfg, cs.src)
        if i % 5 == 2:
            # constants named like the configured result variable / like nothing in the program
            pre = rnd.choice(["const VAR_RESULT = VAR_TEMP_1\n", "const VAR_TEMP_9 = VAR_RESULT\nconst VAR_RESULT = VAR_TEMP_9\n", "const UNUSED = 3\n"])
            cs.src = pre + cs.src; cs.line = compile_line(cs.cfg, cs.src)
        out.append(cs)
    # round 15 (appended, fixed): an AutoVar command whose result variable is an ARGUMENT, written with several tokens -
    # the comparison / switch that follows tests the whole argument
    for vsrc, vasm in (("VAR_Y + 1", "VAR_Y + 1"), ("(VAR_Y)", "( VAR_Y )"), ("VAR_BASE+VAR_OFS - 2", "VAR_BASE + VAR_OFS - 2")):
        for form in ("and", "switch", "while", "stmt"):
            leaf = ("leaf", ("auto", "specialvar(%s, GetThing)" % vsrc, "specialvar %s, GetThing" % vasm, vasm, "op", "==", 2))
            if form == "and": body = [("if", [(("and", ("leaf", ("flag", "FLAG_A", "")), leaf), [("cmd", "hit", "hit")])], [("cmd", "miss", "miss")]), ("cmd", "after", "after")]
            elif form == "switch": body = [("cmd", "before", "before"), ("switch", ("auto", "specialvar(%s, GetThing)" % vsrc, "specialvar %s, GetThing" % vasm, vasm), [(1, [("cmd", "one", "one")]), (2, [("cmd", "two", "two")]), (None, [("cmd", "dflt", "dflt")])]), ("cmd", "after", "after")]
            elif form == "while": body = [("while", leaf, [("cmd", "body", "body")]), ("cmd", "after", "after")]
            else: body = [("if", [(leaf, [("cmd", "yes", "yes")])], None), ("cmd", "after", "after")]
            for opt in (True, False):
                cs = ctrl_case(body, [], opt, tag="argvar-" + form); cs.meta["textleaves"] = False
                out.append(cs)
    return out
