"""The repository's own command and font configuration as a Cfg."""
import json
from proto import Cfg

def repo_cfg(**kw):
    cc = json.load(open("/repo/command_config.json"))
    fc = json.load(open("/repo/font_config.json"))
    autovars = {}
    for k, v in cc.get("autovar_commands", {}).items():
        autovars[k] = (v.get("var_name", ""), v.get("var_name_arg_position"))
    fonts = {}
    for fid, f in fc["fonts"].items():
        fonts[fid] = {"maxLineLength": f.get("maxLineLength", 0), "numLines": f.get("numLines", 0),
                      "cursorOverlapWidth": f.get("cursorOverlapWidth", 0), "widths": f.get("widths", {})}
    c = Cfg(autovars=autovars, fontdefault=fc.get("defaultFontId", ""), fonts=fonts)
    for k, v in kw.items(): setattr(c, k, v)
    return c
