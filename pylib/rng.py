"""One PRNG for everything: splitmix64 seeded from VERIF_SEED; case i of seed s is reproducible."""

MASK = (1 << 64) - 1

class Rng:
    def __init__(self, seed):
        self.s = (seed * 0x9E3779B97F4A7C15 + 0x1234567) & MASK
    def u64(self):
        self.s = (self.s + 0x9E3779B97F4A7C15) & MASK
        z = self.s
        z = ((z ^ (z >> 30)) * 0xBF58476D1CE4E5B9) & MASK
        z = ((z ^ (z >> 27)) * 0x94D049BB133111EB) & MASK
        return z ^ (z >> 31)
    def random(self):
        return (self.u64() >> 11) / float(1 << 53)
    def randint(self, a, b):
        return a + self.u64() % (b - a + 1)
    def randrange(self, n):
        return self.u64() % n
    def choice(self, seq):
        return seq[self.u64() % len(seq)]
    def shuffle(self, xs):
        for i in range(len(xs) - 1, 0, -1):
            j = self.u64() % (i + 1)
            xs[i], xs[j] = xs[j], xs[i]
    def sample(self, seq, k):
        xs = list(seq); self.shuffle(xs); return xs[:k]
    def fork(self, tag):
        return Rng((self.u64() ^ (hash_str(tag))) & MASK)

def hash_str(s):
    h = 1469598103934665603
    for ch in s.encode():
        h = ((h ^ ch) * 1099511628211) & MASK
    return h
