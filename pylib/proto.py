"""Line protocol helpers shared by the check driver, generators and oracles."""
import binascii, os, subprocess, sys, json

VERIF = os.path.dirname(os.path.dirname(os.path.abspath(__file__)))
WORK = os.path.join(VERIF, ".work")

def hx(s):
    if isinstance(s, str): s = s.encode("utf-8")
    return binascii.hexlify(s).decode() if s else "-"

def unhx(h):
    return b"" if h == "-" else binascii.unhexlify(h)

class Cfg:
    """Options + environment of one compilation (see harness/README.md)."""
    def __init__(s, optimize=True, lm=False, lint=False, path="", deffont="", maxlen=0,
                 switches=None, autovars=None, fontdefault="", fonts=None, nofc=False):
        s.optimize = optimize; s.lm = lm; s.lint = lint; s.path = path; s.deffont = deffont
        s.maxlen = maxlen; s.switches = dict(switches or {}); s.autovars = dict(autovars or {})
        s.fontdefault = fontdefault; s.fonts = fonts or {}
        s.nofc = nofc      # the font config file is missing: the model sees an empty font table
        if nofc: s.fontdefault = ""; s.fonts = {}
    def text(s):
        out = ["opt %d" % s.optimize, "lm %d" % s.lm, "lint %d" % s.lint, "path " + hx(s.path),
               "deffont " + hx(s.deffont), "maxlen %d" % s.maxlen]
        for k, v in s.switches.items(): out.append("sw %s %s" % (hx(k), hx(v)))
        for k, (vn, pos) in s.autovars.items():
            out.append("autovar %s %s %s" % (hx(k), hx(vn), "-" if pos is None else str(pos)))
        if s.nofc: out.append("nofc 1")
        out.append("fontdefault " + hx(s.fontdefault))
        for fid, f in s.fonts.items():
            out.append("font %s %d %d %d" % (hx(fid), f.get("maxLineLength", 0), f.get("numLines", 0), f.get("cursorOverlapWidth", 0)))
            for k, w in f.get("widths", {}).items(): out.append("width %s %s %d" % (hx(fid), hx(k), w))
        return "\n".join(out)
    def hex(s): return hx(s.text())
    def copy(s, **kw):
        c = Cfg(s.optimize, s.lm, s.lint, s.path, s.deffont, s.maxlen, s.switches, s.autovars, s.fontdefault, s.fonts, s.nofc)
        for k, v in kw.items(): setattr(c, k, v)
        return c

def compile_line(cfg, src): return "COMPILE %s %s" % (cfg.hex(), hx(src))
def lex_line(src): return "LEX " + hx(src)
def fmt_line(cfg, text, maxw, overlap, fontid, numlines):
    return "FMT %s %s %d %d %s %d" % (cfg.hex(), hx(text), maxw, overlap, hx(fontid), numlines)

def run_lines(cmd, lines, env=None, timeout=3600):
    """Feed case lines to a line-protocol process; returns the result lines (padded with CRASH
    if the process died before answering everything)."""
    data = ("\n".join(lines) + "\n").encode()
    e = dict(os.environ); e.update(env or {})
    p = subprocess.run(cmd, input=data, stdout=subprocess.PIPE, stderr=subprocess.PIPE, env=e, timeout=timeout)
    out = p.stdout.decode("utf-8", "replace").split("\n")
    if out and out[-1] == "": out.pop()
    return out, p.returncode, p.stderr.decode("utf-8", "replace")

def run_robust(cmd, lines, env=None, timeout=3600):
    """Like run_lines, but restarts the process after a case that killed it (result CRASH)."""
    results = []
    todo = list(lines)
    while todo:
        out, rc, err = run_lines(cmd, todo, env, timeout)
        results.extend(out[:len(todo)])
        if len(out) >= len(todo): break
        results.append("CRASH rc=%s %s" % (rc, err.strip().split("\n")[-1][:200] if err.strip() else ""))
        todo = todo[len(out) + 1:]
    return results

def decode_result(r):
    """Result line -> dict for humans / oracles."""
    f = r.split(" ")
    if f[0] == "OK": return {"kind": "OK", "text": unhx(f[1]).decode("utf-8", "replace")}
    if f[0] == "PERR":
        return {"kind": "PERR", "lineStart": int(f[1]), "lineEnd": int(f[2]), "charStart": int(f[3]), "utf8Start": int(f[4]),
                "charEnd": int(f[5]), "utf8End": int(f[6]), "msg": unhx(f[7]).decode("utf-8", "replace")}
    if f[0] in ("EERR", "ERR", "PANIC", "TWINDIFF", "EMIT2DIFF"): return {"kind": f[0], "msg": unhx(f[1]).decode("utf-8", "replace") if len(f) > 1 else ""}
    if f[0] == "TOKS":
        toks = []
        body = r[5:]
        if body:
            for t in body.split(";"):
                p = t.split("/")
                toks.append({"type": p[0], "lit": unhx(p[1]).decode("utf-8", "replace"), "line": int(p[2]), "endLine": int(p[3]),
                             "startChar": int(p[4]), "endChar": int(p[5]), "startUtf8": int(p[6]), "endUtf8": int(p[7])})
        return {"kind": "TOKS", "toks": toks}
    return {"kind": f[0], "raw": r}

def run_parallel(cmd, lines, env=None, timeout=3600, jobs=None, min_chunk=400):
    """run_robust on contiguous chunks of the case list in parallel worker processes (one
    line-protocol process per chunk); results come back in the original order."""
    import concurrent.futures
    jobs = jobs or int(os.environ.get("VERIF_JOBS", "8"))
    n = len(lines)
    k = max(1, min(jobs, n // min_chunk))
    if k == 1: return run_robust(cmd, lines, env, timeout)
    size = (n + k - 1) // k
    chunks = [lines[i:i + size] for i in range(0, n, size)]
    def envfor(i):
        e = dict(env or {})
        if "PVH_WORKDIR" in e: e["PVH_WORKDIR"] = e["PVH_WORKDIR"] + "_%d" % i     # font files are written per process
        return e
    with concurrent.futures.ThreadPoolExecutor(max_workers=len(chunks)) as ex:
        parts = list(ex.map(lambda ic: run_robust(cmd, ic[1], envfor(ic[0]), timeout), list(enumerate(chunks))))
    out = []
    for pr in parts: out.extend(pr)
    return out
