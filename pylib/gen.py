"""Grammar-directed generators. Every random choice comes from the Rng passed in.

Script bodies are Python trees (tuples) that the reference semantics in sem.py interprets:
  ("cmd", src, asm)            command; asm = expected rendered line (without the tab)
  ("end",) ("return",) ("break",) ("continue",)
  ("label", name, scope)       scope in (None, "global", "local")
  ("goto", name)
  ("if", [(cond, block), ...], else_block | None)
  ("while", cond | None, block)   ("do", block, cond)
  ("switch", operand, [(value | None, block), ...])   value None = default
operand: ("var", name) | ("auto", src, asm, varname)
cond: ("leaf", leaf) | ("and", a, b) | ("or", a, b) | ("paren", c) | ("not", c)
leaf: ("flag"|"defeated", name, form) | ("var", name, form, op, val) | ("auto", src, asm, var, form, op, val)
"""
from proto import Cfg

OPS = ["==", "!=", "<", "<=", ">", ">="]
FLAGS = ["FLAG_A", "FLAG_B", "FLAG_C"]
VARS = ["VAR_A", "VAR_B"]
TRAINERS = ["TRAINER_A", "TRAINER_B"]

# AutoVar configuration used by the generators: one fixed-name command, one positional.
AUTOVARS = {"random": ("VAR_RESULT", None), "specialvar": ("", 0), "checkitem": ("VAR_RESULT", None),
            "avtext": ("VAR_RESULT", None), "choosemon": ("VAR_0x8004", None), "lastarg": ("", 2)}

def base_cfg(**kw):
    c = Cfg(autovars=AUTOVARS)
    for k, v in kw.items(): setattr(c, k, v)
    return c

class G:
    """Generator of script bodies."""
    def __init__(self, rnd, maxdepth=3, labels=True, switches=True, autovar=True, loops=True,
                 scoped_labels=False, prefix=""):
        self.r = rnd; self.maxdepth = maxdepth; self.use_labels = labels; self.use_switch = switches
        self.use_autovar = autovar; self.use_loops = loops; self.scoped_labels = scoped_labels
        self.nlab = 0; self.labels = []; self.ncmd = 0; self.prefix = prefix

    # ---- conditions ----
    def leaf(self):
        r = self.r; x = r.random()
        if x < 0.3:
            return ("flag", r.choice(FLAGS), r.choice(["", "!", "==T", "==F", "!=T", "!=F"]))
        if x < 0.45:
            return ("defeated", r.choice(TRAINERS), r.choice(["", "!", "==T", "==F", "!=T", "!=F"]))
        if x < 0.85 or not self.use_autovar:
            return ("var", r.choice(VARS), r.choice(["", "!", "op", "op", "opv"]), r.choice(OPS), r.randint(0, 2))
        form = r.choice(["", "!", "op", "opv"])
        if r.random() < 0.5:
            n = r.randint(2, 4)
            return ("auto", "random(%d)" % n, "random %d" % n, "VAR_RESULT", form, r.choice(OPS), r.randint(0, 2))
        if r.random() < 0.25:     # a configured result var with lower-case characters; a var named by the LAST argument
            if r.random() < 0.5: return ("auto", "choosemon", "choosemon", "VAR_0x8004", form, r.choice(OPS), r.randint(0, 2))
            v = r.choice(["VAR_X", "VAR_Y"])
            return ("auto", "lastarg(1, TWO, %s)" % v, "lastarg 1, TWO, %s" % v, v, form, r.choice(OPS), r.randint(0, 2))
        v = r.choice(["VAR_X", "VAR_Y"])
        return ("auto", "specialvar(%s, 7)" % v, "specialvar %s, 7" % v, v, form, r.choice(OPS), r.randint(0, 2))

    def cond(self, d=0, maxd=3):
        r = self.r; x = r.random()
        if d >= maxd or x < 0.38: return ("leaf", self.leaf())
        if x < 0.62: return ("and", self.cond(d + 1, maxd), self.cond(d + 1, maxd))
        if x < 0.84: return ("or", self.cond(d + 1, maxd), self.cond(d + 1, maxd))
        if x < 0.92: return ("paren", self.cond(d + 1, maxd))
        return ("not", self.cond(d + 1, maxd))

    # ---- statements ----
    def cmd(self):
        self.ncmd += 1
        n = "%sc%d" % (self.prefix, self.ncmd)
        x = self.r.random()
        if x < 0.6: return ("cmd", n, n)
        if x < 0.8: return ("cmd", "%s(%d)" % (n, self.ncmd), "%s %d" % (n, self.ncmd))
        return ("cmd", "%s(VAR_A, %d)" % (n, self.ncmd), "%s VAR_A, %d" % (n, self.ncmd))

    def block(self, d, inloop, insw, minlen=0):
        n = self.r.choice([0, 1, 1, 2, 2, 3])
        n = max(n, minlen)
        return [self.stmt(d, inloop, insw, last=(i == n - 1)) for i in range(n)]

    def stmt(self, d, inloop, insw, last):
        r = self.r; x = r.random()
        if d >= self.maxdepth or x < 0.28: return self.cmd()
        if x < 0.33: return ("end",) if r.random() < 0.5 else ("return",)
        if x < 0.40:
            if not self.use_labels: return self.cmd()
            self.nlab += 1; nm = "%sL%d" % (self.prefix, self.nlab); self.labels.append(nm)
            sc = r.choice([None, None, "global", "local"]) if self.scoped_labels else None
            return ("label", nm, sc)
        if x < 0.45:
            if not self.use_labels: return self.cmd()
            return ("goto", None)
        if x < 0.60:
            arms = [(self.cond(), self.block(d + 1, inloop, insw))]
            for _ in range(r.choice([0, 0, 1, 2])): arms.append((self.cond(), self.block(d + 1, inloop, insw)))
            els = self.block(d + 1, inloop, insw) if r.random() < 0.5 else None
            return ("if", arms, els)
        if not self.use_loops and x < 0.85: return self.cmd()
        if x < 0.68: return ("while", self.cond(), self.block(d + 1, True, False))
        if x < 0.72: return ("while", None, self.block(d + 1, True, False))
        if x < 0.79: return ("do", self.block(d + 1, True, False), self.cond())
        if x < 0.85:
            return ("break",) if (inloop or insw) else self.cmd()
        if x < 0.88:
            return ("continue",) if (inloop and last and not insw) else self.cmd()
        if x < 0.98 and self.use_switch:
            return self.switch(d, inloop)
        return self.cmd()

    def switch(self, d, inloop, ncases=None):
        r = self.r
        vals = list(range(0, 12)); r.shuffle(vals); cases = []; hasdef = False
        for _ in range(ncases or r.randint(1, 4)):
            body = self.block(d + 1, inloop, True) if r.random() < 0.6 else []
            if not hasdef and r.random() < 0.25: hasdef = True; cases.append((None, body))
            else: cases.append((vals.pop(), body))
        if not hasdef and r.random() < 0.12:
            # no default and every case body leaves on its own: only the switch itself continues after it
            cases = [(v, (b + [r.choice([("end",), ("return",)])]) if b else b) for v, b in cases]
            if cases and not cases[-1][1]: cases[-1] = (cases[-1][0], [self.cmd(), ("end",)])
        if self.use_autovar and r.random() < 0.15:
            n = r.randint(2, 5); operand = ("auto", "random(%d)" % n, "random %d" % n, "VAR_RESULT")
        else: operand = ("var", r.choice(VARS))
        return ("switch", operand, cases)

    def patch_gotos(self, ss, extern=("EXT",)):
        for i, st in enumerate(ss):
            k = st[0]
            if k == "goto": ss[i] = ("goto", self.r.choice(self.labels + list(extern)))
            elif k == "if":
                for _, b in st[1]: self.patch_gotos(b, extern)
                if st[2] is not None: self.patch_gotos(st[2], extern)
            elif k == "while": self.patch_gotos(st[2], extern)
            elif k == "do": self.patch_gotos(st[1], extern)
            elif k == "switch":
                for _, b in st[2]: self.patch_gotos(b, extern)

    def body(self, minlen=1):
        b = self.block(0, False, False, minlen=minlen)
        self.patch_gotos(b)
        return b

# ---------- printer ----------
def p_leaf(l, r=None):
    k = l[0]
    T = "TRUE"; F = "FALSE"
    if r is not None:
        T = r.choice(["TRUE", "true"]); F = r.choice(["FALSE", "false"])
    if k in ("flag", "defeated"):
        base = "%s(%s)" % (k, l[1]); f = l[2]
        return {"": base, "!": "!" + base, "==T": base + " == " + T, "==F": base + " == " + F,
                "!=T": base + " != " + T, "!=F": base + " != " + F}[f]
    if k == "var": base = "var(%s)" % l[1]; f, op, val = l[2], l[3], l[4]
    else: base = l[1]; f, op, val = l[4], l[5], l[6]
    if f == "": return base
    if f == "!": return "!" + base
    if f == "op": return "%s %s %d" % (base, op, val)
    return "%s %s value(%d)" % (base, op, val)

def p_cond(c, r=None):
    k = c[0]
    if k == "leaf": return p_leaf(c[1], r)
    if k == "paren": return "(" + p_cond(c[1], r) + ")"
    if k == "not": return "!(" + p_cond(c[1], r) + ")"
    a, b = c[1], c[2]
    def wrap(x):
        s = p_cond(x, r)
        # an 'or' under 'and' must be parenthesised to keep the tree's meaning
        if x[0] == "or": return "(" + s + ")"
        return s
    if k == "and": return wrap(a) + " && " + wrap(b)
    # or: right operand that is itself an 'or' would re-associate harmlessly; keep plain
    return p_cond(a, r) + " || " + p_cond(b, r)

def p_block(ss, ind, r=None):
    return "".join(p_stmt(s, ind, r) for s in ss)

def p_stmt(s, ind, r=None):
    t = "  " * ind; k = s[0]
    if k == "cmd": return t + s[1] + "\n"
    if k in ("end", "return", "break", "continue"): return t + k + "\n"
    if k == "label": return t + s[1] + ("(%s)" % s[2] if s[2] else "") + ":\n"
    if k == "goto": return t + "goto(%s)\n" % s[1]
    if k == "if":
        out = ""
        for i, (c, b) in enumerate(s[1]):
            out += t + ("if" if i == 0 else "} elif") + " (" + p_cond(c, r) + ") {\n" + p_block(b, ind + 1, r)
        if s[2] is not None: out += t + "} else {\n" + p_block(s[2], ind + 1, r)
        return out + t + "}\n"
    if k == "while":
        hd = "while (%s) {\n" % p_cond(s[1], r) if s[1] is not None else "while {\n"
        return t + hd + p_block(s[2], ind + 1, r) + t + "}\n"
    if k == "do": return t + "do {\n" + p_block(s[1], ind + 1, r) + t + "} while (%s)\n" % p_cond(s[2], r)
    if k == "switch":
        opnd = "var(%s)" % s[1][1] if s[1][0] == "var" else s[1][1]
        out = t + "switch (%s) {\n" % opnd
        for v, b in s[2]:
            out += t + (" default:\n" if v is None else " case %d:\n" % v) + p_block(b, ind + 2, r)
        return out + t + "}\n"
    if k == "raw": return s[1]
    raise Exception(k)

def script_src(name, body, scope=None, r=None):
    return "script%s %s {\n%s}\n" % ("(%s)" % scope if scope else "", name, p_block(body, 1, r))

def cond_leaves(c, out=None):
    if out is None: out = []
    if c[0] == "leaf": out.append(c[1])
    elif c[0] in ("paren", "not"): cond_leaves(c[1], out)
    else: cond_leaves(c[1], out); cond_leaves(c[2], out)
    return out

def body_stats(ss, st=None, d=0):
    """construct histogram + max depth for the evidence distribution"""
    if st is None: st = {"depth": 0}
    st["depth"] = max(st["depth"], d)
    for s in ss:
        st[s[0]] = st.get(s[0], 0) + 1
        if s[0] == "if":
            for _, b in s[1]: body_stats(b, st, d + 1)
            if s[2] is not None: body_stats(s[2], st, d + 1)
        elif s[0] == "while": body_stats(s[2], st, d + 1)
        elif s[0] == "do": body_stats(s[1], st, d + 1)
        elif s[0] == "switch":
            for _, b in s[2]: body_stats(b, st, d + 1)
    return st

# ---------- re-layout: spread tokens of a source over lines without changing the tokens ----------
import re
TOKEN_RE = re.compile(r'[A-Za-z_]\w*"[^"]*"|"[^"]*"|`[^`]*`|&&|\|\||==|!=|<=|>=|-?\w+|\S')

def relayout(src, r, comments=True):
    toks = TOKEN_RE.findall(src)
    out = ""
    for i, t in enumerate(toks):
        out += t
        nxt = toks[i + 1] if i + 1 < len(toks) else ""
        x = r.random()
        wordy = bool(re.match(r"\w", t[-1])) and bool(re.match(r"[\w\-\"]", nxt[:1] or "x"))
        strs = t.endswith('"') and nxt.startswith('"')
        if strs: out += r.choice([" ", "\n  ", "  "])   # parts of one multi-part literal: whitespace only
        elif x < 0.22: out += "\n" + " " * r.randint(0, 4)
        elif x < 0.27 and comments: out += r.choice([" # c\n", " // c if (\n", "\t#\n", " # see maps/*/x.pory /* y\n", " // */ end of it\n", " # 2 potions below\n", " #1 \"f\"\n"])
        elif x < 0.31: out += "\r\n"
        elif wordy or x < 0.7: out += r.choice([" ", " ", "  ", "\t"])
        elif t in ("|", "+", "^", "~", "*") and nxt == "~": out += r.choice(["", "", " "])       # operator characters may touch
        elif t in "=!<>&|/" or nxt[:1] in "=&|/" or (t == "-" ) or (nxt[:1].isdigit() and t[-1] == "-"): out += " "
    return out
