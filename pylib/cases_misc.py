"""Case generators and oracles for C07 (format), C17 (determinism), C18 (totality),
C19 (lexer), C20 (rejections)."""
import re
from proto import compile_line, lex_line, fmt_line, Cfg
from gen import G, base_cfg, script_src, p_block, relayout
from cases_ctrl import Case
from cases_data import TopGen, top_case
from stdcfg import repo_cfg

# ---------------- C07 ----------------
ALPH = ["a", "b", "c", "W", "i", "é", "ñ", "1", ".", "!"]
CODES = ["{PLAYER}", "{PK}", "{A B}", "{}"]
BREAKS = ["\\n", "\\l", "\\p", "\\N"]

def gen_fmt_text(r):
    toks = []
    for _ in range(r.randint(0, 14)):
        x = r.random()
        if x < 0.7:
            w = "".join(r.choice(ALPH) for _ in range(r.randint(1, 7)))
            if r.random() < 0.15: w += r.choice(CODES)
            if r.random() < 0.1: w = r.choice(CODES) + w
            if r.random() < 0.04: w = w + r.choice(["}", "}}", "{x", "}{"])       # unbalanced braces
            toks.append(("w", w))
        elif x < 0.8: toks.append(("w", r.choice(CODES)))
        else: toks.append(("b", r.choice(BREAKS)))
    s = ""
    for i, (k, t) in enumerate(toks):
        if k == "w":
            if i > 0 and toks[i - 1][0] == "w": s += " " * r.choice([1, 1, 1, 2, 3])
            elif r.random() < 0.3: s += " " * r.randint(0, 2)
            s += t
        else:
            if r.random() < 0.2: s += " "
            s += t
            if r.random() < 0.2: s += r.choice([" ", "\n"])
    if r.random() < 0.1: s = " " + s
    if r.random() < 0.1: s += " "
    return s

def spec_tokens(s):
    """word / break tokens; braces group; break codes only outside braces"""
    toks = []; cur = ""; depth = 0; i = 0
    while i < len(s):
        ch = s[i]
        if depth == 0 and ch == "\\" and i + 1 < len(s) and s[i + 1] in "lnpN":
            if cur: toks.append(("w", cur)); cur = ""
            toks.append(("b", s[i:i + 2])); i += 2; continue
        if ch in " \n" and depth == 0:
            if cur: toks.append(("w", cur)); cur = ""
            i += 1; continue
        if ch == "{": depth += 1
        elif ch == "}" and depth > 0: depth -= 1
        cur += ch; i += 1
    if cur: toks.append(("w", cur))
    return toks

def width(word, widths):
    total = 0
    for m in re.finditer(r"\{[^}]*\}", word):
        # the built-in TEST font gives every control code the same width
        total += widths["__code__"] if "__code__" in widths else widths.get(m.group(0), widths.get("default", 0))
    rest = re.sub(r"\{[^}]*\}", "", word)
    for ch in rest: total += widths.get(ch, widths.get("default", 0))
    return total

def check_format(text, mx, ov, nl, widths, out):
    """W1 (content), W2 (width), W3 (greedy), W4 (break discipline); None if all hold."""
    tin = spec_tokens(text.replace("\n", " "))      # a newline in the source text is a space
    lines = out.split("\n"); tout = []
    for li, ln in enumerate(lines):
        lt = spec_tokens(ln)
        if "  " in ln and "{" not in ln: return "double space in output line %r" % ln
        for j, t in enumerate(lt):
            if t[0] == "b" and j != len(lt) - 1: return "break code not at end of line %r" % ln
        if li < len(lines) - 1 and (not lt or lt[-1][0] != "b"): return "line without break code %r" % ln
        tout.append(lt)
    flat = [(t, li) for li, lt in enumerate(tout) for t in lt]
    i = 0; auto = set()
    for fi, (t, li) in enumerate(flat):
        if i < len(tin) and t == tin[i]: i += 1; continue
        if i < len(tin) and tin[i] == ("b", "\\N") and t[0] == "b" and t[1] in ("\\n", "\\l"): i += 1; auto.add(("N", fi)); continue
        if t[0] == "b" and t[1] in ("\\n", "\\l"): auto.add(("A", fi)); continue
        return "W1 content mismatch at output token %r (expected %r)" % (t, tin[i] if i < len(tin) else None)
    if i != len(tin): return "W1 input tokens lost: %r" % (tin[i:],)
    sp = widths.get(" ", widths.get("default", 0))
    idx = 0; fi = 0
    for li, lt in enumerate(tout):
        words = [t[1] for t in lt if t[0] == "w"]; brk = lt[-1][1] if lt and lt[-1][0] == "b" else None
        wd = sum(width(w, widths) for w in words) + sp * max(0, len(words) - 1)
        more_after = any(t for l2 in tout[li + 1:] for t in l2)
        has_next_token = brk is not None or more_after
        prompt = has_next_token and (idx >= nl - 1 or brk == "\\p")
        if len(words) >= 2 and wd + (ov if prompt else 0) > mx:
            return "W2 line %d too wide: %d (+%d) > %d : %r" % (li, wd, ov if prompt else 0, mx, lt)
        bfi = fi + len(lt) - 1
        if brk is not None and (("A", bfi) in auto or ("N", bfi) in auto):
            want = "\\n" if idx < nl - 1 else "\\l"
            if brk != want: return "W4 wrong break %s at line %d idx %d (want %s)" % (brk, li, idx, want)
        if brk is not None and ("A", bfi) in auto:
            nxt = tout[li + 1] if li + 1 < len(tout) else []
            if not nxt or nxt[0][0] != "w": return "W3 inserted break not followed by a word"
            w = nxt[0][1]
            after = [t for t in nxt[1:]] + [t for l2 in tout[li + 2:] for t in l2]
            cond = bool(after) and (idx >= nl - 1 or after[0] == ("b", "\\p"))
            if not words: return "W3 inserted break after an empty line"
            if not (wd + sp + width(w, widths) + (ov if cond else 0) > mx):
                return "W3 unnecessary break before %r at line %d" % (w, li)
        if brk == "\\p": idx = 0
        elif brk is not None: idx += 1
        fi += len(lt)
    return None

F15_CLASS = re.compile(r"(^|[ \n])\\\\")   # a word starting with two backslashes

def gen_C07(rnd, n, tier):
    out = []
    for i in range(n):
        widths = {"default": rnd.choice([0, 4, 6]), " ": rnd.choice([0, 3, 5])}
        for ch in ALPH:
            if rnd.random() < 0.6: widths[ch] = rnd.randint(0, 9)
        for c in CODES:
            if rnd.random() < 0.6: widths[c] = rnd.randint(0, 40)
        if rnd.random() < 0.3:      # entries for character PAIRS (the shipped table has "LV"): never used for the letters of a word
            for _ in range(rnd.randint(1, 3)): widths[rnd.choice(ALPH) + rnd.choice(ALPH)] = rnd.choice([0, 1, 2, 30])
        text = gen_fmt_text(rnd)
        if i % 97 == 5: text = "aa \\\\n bb"          # the recorded finding F15, kept in the stream
        mx = rnd.choice([0, 10, 20, 35, 50, 80]); ov = rnd.choice([0, 0, 5, 10, 30]); nl = rnd.choice([1, 2, 2, 3])
        fid = rnd.choice(["F1", "F1", "F1", "TEST", ""])
        cfg = Cfg(fonts={"F1": {"widths": widths}, "F2": {"widths": {}}})
        if i % 50 == 7: fid = "NOPE"
        out.append(Case(fmt_line(cfg, text, mx, ov, fid, nl), text, cfg,
                        {"text": text, "mx": mx, "ov": ov, "nl": nl, "fid": fid, "widths": widths}))
    # parameter resolution through the parser (positional / named / font config)
    fonts = {"F1": {"maxLineLength": 40, "numLines": 2, "cursorOverlapWidth": 6, "widths": {"default": 5, " ": 3}},
             "F2": {"maxLineLength": 70, "numLines": 3, "cursorOverlapWidth": 0, "widths": {"default": 4}},
             "F0": {"widths": {"default": 6}}}
    for i in range(max(20, n // 10)):
        text = " ".join("".join(rnd.choice("abcWi") for _ in range(rnd.randint(1, 6))) for _ in range(rnd.randint(3, 12)))
        form = rnd.choice(["none", "font", "len", "font,len", "len,font", "named", "font+named", "len+named", "allnamed", "zero", "hexlen", "hexnamed", "octlen", "f0", "f0"])
        params = {"none": "", "font": ', "F2"', "len": ", 55", "font,len": ', "F2", 33', "len,font": ', 33, "F2"',
                  "named": ", numLines=3", "font+named": ', "F2", cursorOverlapWidth=7, numLines=1', "len+named": ", 44, fontId=\"F2\"",
                  "allnamed": ', fontId="F0", maxLineLength=30, numLines=2, cursorOverlapWidth=4', "zero": ", 0, numLines=0",
                  "f0": ', "F0", 30', "hexlen": ', "F2", 0x21', "hexnamed": ', fontId="F2", maxLineLength=0x2C, numLines=0x1, cursorOverlapWidth=0x7', "octlen": ", 050"}[form]
        src = 'text T {\n  format("%s"%s)\n}\n' % (text, params)
        cfg = Cfg(fontdefault="F1", fonts=fonts, maxlen=rnd.choice([0, 0, 60]), deffont=rnd.choice(["", "", "F2"]))
        want = None
        meta = {"params": form}
        # number literals are read like Go literals (0x.., leading 0 = octal): the resolved geometry
        expect = {"hexlen": ("F2", 33, 3, 0), "hexnamed": ("F2", 44, 1, 7), "octlen": (None, 40, None, None), "f0": ("F0", 30, 2, 0)}.get(form)      # F0 has no numLines: 2
        if expect is not None:
            fid = expect[0] or (cfg.deffont or "F1"); f = fonts[fid]
            meta["geom"] = (text, expect[1], expect[3] if expect[3] is not None else f.get("cursorOverlapWidth", 0),
                            expect[2] if expect[2] is not None else (f.get("numLines", 0) or 2), f["widths"])
        out.append(Case(compile_line(cfg, src), src, cfg, meta))
    # several format() calls under different fonts in one file (one font configuration object serves
    # the whole parse): every text must be laid out with the widths of its own font
    for i in range(max(20, n // 10)):
        fonts = {}
        for f in ("F1", "F2", "F3"):
            widths = {"default": rnd.choice([0, 4, 6]), " ": rnd.choice([0, 3, 5])}
            for ch in ALPH:
                if rnd.random() < 0.6: widths[ch] = rnd.randint(0, 9)
            for c in CODES: widths[c] = rnd.randint(0, 40)
            fonts[f] = {"maxLineLength": rnd.choice([20, 35, 50, 80]), "numLines": rnd.choice([1, 2, 3]), "cursorOverlapWidth": rnd.choice([0, 5, 10]), "widths": widths}
        multi = []; src = ""
        shared = gen_fmt_text(rnd).replace("\n", " ")
        for k in range(rnd.randint(2, 4)):
            f = rnd.choice(["F1", "F2", "F3"]); text = shared if rnd.random() < 0.5 else gen_fmt_text(rnd).replace("\n", " ")
            multi.append(("T%d" % k, text, f)); src += 'text T%d {\n  format("%s", "%s")\n}\n' % (k, text, f)
        cfg = Cfg(fontdefault="F1", fonts=fonts)
        out.append(Case(compile_line(cfg, src), src, cfg, {"multi": multi, "fonts": fonts}))
    return out

def oracle_C07(case, res):
    m = case.meta
    if "multi" in m:
        if res["kind"] != "OK": return "valid format() texts rejected: %s" % res.get("msg")
        from cases_data import text_blocks
        texts, _ = text_blocks(res["text"])
        for lab, text, f in m["multi"]:
            got = texts.get(lab)
            if not got: return "text %s missing from the output" % lab
            outv = "\n".join(c for _, c in got)
            if not outv.endswith("$"): return "text %s lost its terminator" % lab
            fc = m["fonts"][f]
            e = check_format(text, fc["maxLineLength"], fc["cursorOverlapWidth"], fc["numLines"], fc["widths"], outv[:-1])
            if e: return "text %s (font %s): %s" % (lab, f, e)
        return None
    if "text" not in m:
        if res["kind"] != "OK": return "valid format() parameters rejected: %s" % res.get("msg")
        if "geom" in m:
            from cases_data import text_blocks
            texts, _ = text_blocks(res["text"]); got = texts.get("T") or []
            outv = "\n".join(c for _, c in got); text, mx, ov, nl, widths = m["geom"]
            e = check_format(text, mx, ov, nl, widths, outv[:-1] if outv.endswith("$") else outv)
            if e: return "format() parameters %s: laid out for other values than written (%d px, overlap %d, %d lines): %s" % (m["params"], mx, ov, nl, e)
        return None
    if m["fid"] == "NOPE":
        if res["kind"] != "ERR": return "unknown font accepted"
        return None
    if res["kind"] != "OK": return "FormatText failed: %r" % res
    widths = m["widths"] if m["fid"] == "F1" else ({"default": 10, "__code__": 100} if m["fid"] == "TEST" else {})
    return check_format(m["text"], m["mx"], m["ov"], m["nl"], widths, res["text"])

# ---------------- C17 ----------------
def gen_C17(rnd, n, tier):
    """Histories: each input is compiled several times, interleaved with the others, in one
    process. Besides whole generated files the stream holds inputs chosen to expose process state
    and map-order dependence: the same format() text under different -f / -l settings sharing one
    font config file, several simultaneous name clashes (which one is reported?), an unknown font
    with many fonts configured."""
    base = []
    for i in range(n):
        base.append((top_case(rnd, tier, {"optimize": rnd.random() < 0.5}), 1))
    fmt_src = 'text T { format("aaaa aaa aa aaa aa aaa aa aaa aa aaa aa aaa aaaa aa aaa aa aaa aa aaa aa aaa") }\nscript S { msgbox(format("bb bbb bb bbb bbbb bb bbb bb bbb bbbb bb bbb bb bbb bbbb")) }\n'
    for deffont in ["", "1_latin_frlg", "", "1_latin_rse"]:
        for maxlen in [0, 120]:
            cfg = repo_cfg(deffont=deffont, maxlen=maxlen)
            base.append((Case(compile_line(cfg, fmt_src), fmt_src, cfg, {}), 2))
    clash = 'text Foo { "first foo$" }\ntext Bar { "first bar$" }\ntext Baz { "z$" }\ntext Foo { "second foo$" }\ntext Bar { "second bar$" }\ntext Baz { "zz$" }\n'
    base.append((Case(compile_line(base_cfg(), clash), clash, base_cfg(), {}), 8))
    mclash = "movement A { walk_up }\nmovement B { walk_up }\nmovement C { walk_up }\nmovement A { walk_down }\nmovement B { walk_down }\nmovement C { walk_down }\n"
    base.append((Case(compile_line(base_cfg(), mclash), mclash, base_cfg(), {}), 8))
    src = 'script S {\n  msgbox(format("aa bb", "NOPE"))\n}\n'
    base.append((Case(compile_line(repo_cfg(), src), src, repo_cfg(), {}), 6))
    # no default font id anywhere, several fonts with different metrics, format() without a font id
    nodef = Cfg(fonts={"narrow": {"maxLineLength": 60, "widths": {"default": 2}}, "wide": {"maxLineLength": 60, "widths": {"default": 10}},
                       "mid": {"maxLineLength": 60, "widths": {"default": 5}}, "huge": {"maxLineLength": 60, "widths": {"default": 30}}})
    src_nd = 'text Greeting { format("Hello there traveller how are you today my friend") }\n'
    base.append((Case(compile_line(nodef, src_nd), src_nd, nodef, {}), 8))
    for bad in ["script Bad { special(DoBadThing)\n Bad_1:\n if (flag(FLAG_B)) { setvar(VAR_0x8004, 7) } }\n",
                'script Bad2 { lock msgbox("x")\n Bad2_Text_0:\n release }\n', "script G { lock if (flag(FLAG_A)) { a } release end }\n"]:
        base.append((Case(compile_line(base_cfg(), bad), bad, base_cfg(), {}), 6))
    for q, pth in enumerate(["data\\maps\\Route1\\scripts.pory", "data\\maps\\Route2\\scripts.pory", "Route3/scripts.pory"]):
        srcp = "script Route%d_Sign {\n  lock\n  msgbox(\"sign %d\")\n  release\n}\n" % (q, q)
        cp = base_cfg(lm=True, path=pth); base.append((Case(compile_line(cp, srcp), srcp, cp, {}), 3))
    # two scripts of one file that both fail in the emitter: always the first one's error
    two = "script First {\n  lock\n  if (flag(A)) {\n    a\n  } elif (flag(B)) {\n    b\n  }\n  switch (var(V)) {\n    case 1: c\n  }\nFirst_1:\n  end\n}\nscript Second {\n  if (flag(C)) {\n    nop\n  }\nSecond_1:\n  end\n}\n"
    for o in (True, False):
        c2f = base_cfg(optimize=o); base.append((Case(compile_line(c2f, two), two, c2f, {}), 8))
    # an AutoVar entry that has both a var name and an argument position
    cboth = base_cfg(); cboth.autovars = dict(cboth.autovars, both=("VAR_RESULT", 0))
    sboth = "script Gambler {\n  lock\n  if (both(VAR_TEMP_1) >= 50) {\n    x\n  }\n  release\n}\n"
    base.append((Case(compile_line(cboth, sboth), sboth, cboth, {}), 4))
    srcln = "script Berries {\n  if (countberries(3) == 0) {\n    a\n  } else {\n    b\n  }\n  switch (countthings(1)) {\n    case 1: c\n  }\n}\n"
    for lint in (False, True, False):
        cl = base_cfg(lint=lint); base.append((Case(compile_line(cl, srcln), srcln, cl, {}), 3))
    srcenv = 'script S {\n  poryswitch(GAME) { RUBY: r _: o }\n  poryswitch(LANG) { DE { d } _ { e } }\n}\n'
    cenv = base_cfg(switches={"GAME": "RUBY"}); base.append((Case(compile_line(cenv, srcenv), srcenv, cenv, {}), 4))
    # two label clashes in different chunks of one script: always the same one is reported
    for bad in ["script Sign {\n  lock\nSign_1:\n  if (flag(FLAG_READ)) {\nSign_2:\n    msgbox(\"Nothing new.\")\n  }\n  release\n}\n",
                "script W {\n  while (flag(F)) {\nW_Text_0:\n    msgbox(\"x\")\nW_3:\n    a\n  }\nW_1:\n  b\n}\n"]:
        for o in (True, False):
            cb = base_cfg(optimize=o); base.append((Case(compile_line(cb, bad), bad, cb, {}), 8))
    many = Cfg(fonts={("F%d" % k): {"widths": {}} for k in range(8)})
    base.append((Case(compile_line(many, src), src, many, {}), 6))
    src2 = 'text T { poryswitch(V) { A: "x" } }\nscript S { poryswitch(W) { Q: a } }\n'
    c2 = base_cfg(switches={"V": "Q", "W": "1", "X": "2", "Y": "3"})
    base.append((Case(compile_line(c2, src2), src2, c2, {}), 4))
    # independence: a file of statements without hoisted data compiles to the concatenation of what
    # its statements compile to alone; user labels spelled like another script's generated labels
    indep = []
    for i in range(n):
        tg = TopGen(rnd, tier, plain=True); tg.gen(rnd.randint(2, 4)); srcs = list(tg.srcs)
        names = [it[1] for it in tg.items if it[0] == "script"]
        if names and rnd.random() < 0.6:
            other = rnd.choice(names); bait = "%s_%d" % (other, rnd.randint(1, 6))
            srcs.insert(rnd.randint(0, len(srcs)), "script Bait%d {\n  lock\n%s:\n  release\n}\n" % (i, bait))
        if len(names) >= 2 and rnd.random() < 0.4:
            # ... ends in a goto to the script that happens to follow it
            for k in range(len(srcs) - 1):
                m1 = re.match(r"script(\([a-z]+\))? (\w+) \{", srcs[k]); m2 = re.match(r"script(\([a-z]+\))? (\w+) \{", srcs[k + 1])
                if m1 and m2 and srcs[k].rstrip().endswith("}"):
                    srcs[k] = srcs[k].rstrip()[:-1] + "  goto(%s)\n}\n" % m2.group(2); break
        cfg = base_cfg(optimize=rnd.random() < 0.5)
        whole = "\n".join(srcs)
        indep.append(Case(compile_line(cfg, whole), whole, cfg, {"indep": i, "role": "whole"}))
        for k, sp in enumerate(srcs): indep.append(Case(compile_line(cfg, sp), sp, cfg, {"indep": i, "role": k}))
    # the same construct in very many scripts of one file (past 32 / 64): per-file counters and caps
    REP = ["if ((flag(FLAG_A) || defeated(TRAINER_%d)) && flag(FLAG_B)) { a%d } elif (!(var(VAR_A) == 1 && flag(FLAG_C)) || flag(FLAG_D)) { b%d }",
           "while ((flag(FLAG_A) || flag(FLAG_%d)) && !flag(FLAG_B)) { a%d if (flag(FLAG_Q)) { continue } b%d }",
           "switch (var(VAR_A)) { case %d: a%d case 1000: b%d break default: }",
           "do { a%d if (random(%d) == 1) { break } } while (!(flag(FLAG_A)) || specialvar(VAR_X, %d) == TRUE)",
           "L%d: a%d goto(L%d)"]
    for q, nrep in enumerate([34, 40, 70] if tier == "quick" else [34, 40, 70, 130, 260]):
        f = REP[q % len(REP)] if tier == "quick" else rnd.choice(REP)
        if q == 0: f = REP[0]
        srcs = ["script Rep%d_%d {\n  %s\n}\n" % (q, k, f % (k, k, k)) for k in range(nrep)]
        cfg = base_cfg(optimize=rnd.random() < 0.5); whole = "\n".join(srcs); gid = "rep%d" % q
        indep.append(Case(compile_line(cfg, whole), whole, cfg, {"indep": gid, "role": "whole"}))
        for k, sp in enumerate(srcs): indep.append(Case(compile_line(cfg, sp), sp, cfg, {"indep": gid, "role": k}))
    # round 16 (fixed): a mapscripts statement that only REFERS to labels, among them label statements written inside a
    # script of the same file - both orders; the file compiles to the concatenation of its statements compiled alone
    msr = "mapscripts MyMap_MapScripts {\n  MAP_SCRIPT_ON_TRANSITION: MyMap_OnTransition\n  MAP_SCRIPT_ON_FRAME_TABLE [\n    VAR_TEMP_0, 0: MyMap_OnFrame\n    VAR_TEMP_0, 1: MyMap_Inner\n  ]\n}\n"
    scr = "script MyMap_OnFrame {\n  lockall\n  setvar(VAR_TEMP_0, 1)\nMyMap_OnTransition:\n  setflag(FLAG_VISITED_MY_MAP)\n  if (flag(FLAG_X)) {\n  MyMap_Inner(global):\n    nop\n  }\n  end\n}\n"
    for q, parts in enumerate([[msr, scr], [scr, msr], [scr, "movement MyMap_OnTransition_M { walk_up }\n", msr]]):
        for o in (True, False):
            cfg = base_cfg(optimize=o); whole = "\n".join(parts); gid = "msref%d%s" % (q, o)
            indep.append(Case(compile_line(cfg, whole), whole, cfg, {"indep": gid, "role": "whole"}))
            for k, sp in enumerate(parts): indep.append(Case(compile_line(cfg, sp), sp, cfg, {"indep": gid, "role": k}))
    fontsK = {"FA": {"maxLineLength": 208, "numLines": 2, "cursorOverlapWidth": 0, "widths": {"default": 6, " ": 3, "{KYOGRE}": 0, "{HERO}": 4}},
              "FB": {"maxLineLength": 208, "numLines": 2, "cursorOverlapWidth": 0, "widths": {"default": 6, " ": 3, "{KYOGRE}": 36, "{HERO}": 60}}}
    for i in range(max(6, n // 8)):
        code = rnd.choice(["{KYOGRE}", "{HERO}"]); cnt = rnd.randint(14, 20)
        guide = 'script Guide%d { msgbox(format("Ask %s about it", "%s")) }\n' % (i, code, rnd.choice(["FA", "FB"]))
        sign = 'script Sign%d { msgbox(format("%s %s", "%s")) }\n' % (i, code, " ".join(["aaa"] * cnt), rnd.choice(["FA", "FB"]))
        cfg = Cfg(fontdefault="FA", fonts=fontsK, optimize=rnd.random() < 0.5)
        for role, src in (("both", guide + sign), ("both2", sign + guide), ("alone", sign)):
            indep.append(Case(compile_line(cfg, src), src, cfg, {"fmtindep": i, "role": role, "label": "Sign%d_Text_0" % i}))
    reps = 4 if tier == "quick" else 12
    seq = []
    for k in range(reps * 8):
        order = [j for j in range(len(base)) if k < reps * base[j][1]]
        rnd.shuffle(order)
        for j in order:
            c = base[j][0]; seq.append(Case(c.line, c.src, c.cfg, {"orig": j, "rep": k}))
    # round 15 (appended, fixed order): a program WITH texts followed by a program without any whose label statements
    # are spelled like the first one's text labels (and the other way round); repeated so that some A -> B step lies
    # inside one harness process whatever the chunking
    pa = 'script Shop {\n  lock\n  msgbox("Welcome!")\n  release\n}\ntext Done {\n  "All done."\n}\nmovement Walk { walk_up }\n'
    pb = "script Quest {\n  lock\n  goto_if_set(FLAG_QUEST, Done)\n  setflag(FLAG_QUEST)\nDone:\n  release\nShop_Text_0:\n  applymovement(1, Walk)\nWalk:\n  end\n}\n"
    pc = "script Shop {\n  if (flag(FLAG_A)) {\n    a\n  }\nQuest_Text_0:\n  b\n}\n"
    pd = 'script Quest {\n  msgbox("q")\n}\nscript Shop_1 {\n  end\n}\n'
    tail = []
    for k in range(5):
        for j, s in enumerate([pa, pb, pb, pd, pc, pa, pc, pb]):
            cfg = base_cfg(optimize=(k % 2 == 0)); tail.append(Case(compile_line(cfg, s), s, cfg, {"orig": 5000 + 2 * "abcd".index("abbdcacb"[j]) + k % 2, "rep": k * 8 + j}))
    return seq + indep + tail

def oracle_C17_all(cases, rawresults):
    from proto import decode_result
    first = {}; groups = {}; fgroups = {}
    for c, r in zip(cases, rawresults):
        if "fmtindep" in c.meta:
            fgroups.setdefault(c.meta["fmtindep"], []).append((c, decode_result(r))); continue
        if "indep" in c.meta:
            groups.setdefault(c.meta["indep"], []).append((c, decode_result(r))); continue
        j = c.meta["orig"]
        if j not in first: first[j] = r
        elif first[j] != r: return (c, "compilation %d of the same input differs from the first one" % (c.meta["rep"] + 1))
    from cases_data import text_blocks
    for g, lst in fgroups.items():
        blocks = []
        for c, r in lst:
            if r["kind"] != "OK": return (c, "a valid format() program was rejected: %s" % r.get("msg"))
            blocks.append(text_blocks(r["text"])[0].get(c.meta["label"]))
        if any(b != blocks[0] for b in blocks):
            return (lst[0][0], "the hoisted text %s is laid out differently depending on which other scripts are in the file" % lst[0][0].meta["label"])
    for g, lst in groups.items():
        whole = [x for x in lst if x[0].meta["role"] == "whole"][0]
        parts = sorted([x for x in lst if x[0].meta["role"] != "whole"], key=lambda x: x[0].meta["role"])
        if any(p[1]["kind"] != "OK" for p in parts):
            if whole[1]["kind"] == "OK": return (whole[0], "a statement that is rejected alone is accepted next to other statements")
            continue
        if whole[1]["kind"] != "OK":
            return (whole[0], "every statement compiles alone, but the file is rejected: %s" % whole[1].get("msg"))
        if whole[1]["text"] != "\n".join(p[1]["text"] for p in parts):
            return (whole[0], "the output of the file is not the concatenation of the outputs of its statements")
    return None

# ---------------- C18 ----------------
JUNK = ["'", "~", "٣", "１２", "x٣", "x", "(", ")", "{", "}", "&&", "||", "!", "==", ",", ":", "*", "0", '"s"', "if", "case", "default", "poryswitch", "format", "moves", "`r`", "€", "&", "\u0000", "�", "[", "]", "value", "var", "flag"]

def mutate(src, rnd):
    from gen import TOKEN_RE
    toks = TOKEN_RE.findall(src)
    if not toks: return src
    k = rnd.randrange(len(toks)); op = rnd.choice(["del", "dup", "swap", "junk", "trunc", "junk", "del"])
    if op == "del": toks = toks[:k] + toks[k + 1:]
    elif op == "dup": toks = toks[:k] + [toks[k]] + toks[k:]
    elif op == "swap" and k + 1 < len(toks): toks[k], toks[k + 1] = toks[k + 1], toks[k]
    elif op == "junk": toks = toks[:k] + [rnd.choice(JUNK)] + toks[k:]
    elif op == "trunc": toks = toks[:k]
    return " ".join(toks)

SOUP = ["script", "S", "{", "}", "(", ")", "if", "flag", "var", "&&", "||", "!", "==", "1", "x", ":", "case", "switch", "while", "do",
        "break", "continue", "poryswitch", '"t"', "moves", "format", ",", "text", "const", "=", "mapscripts", "[", "]", "elif", "else", "default", "value"]

F22_SRC = 'script S { poryswitch(V) { A: nop  _: msgbox("hi") } }\ntext S_Text_0 {"x"}\n'

def gen_C18(rnd, n, tier):
    out = []
    # the recorded finding F22 stays in the stream: the lint parser always takes the '_' case, whose inline
    # text clashes with a user text; with -s V=A the program is fine
    c22 = base_cfg(switches={"V": "A"})
    out.append(Case(compile_line(c22, F22_SRC), F22_SRC, c22, {"mode": "normal"}, group="F22"))
    out.append(Case(compile_line(c22.copy(lint=True), F22_SRC), F22_SRC, c22.copy(lint=True), {"mode": "lint"}, group="F22"))
    if tier == "thorough":
        import itertools
        base = base_cfg(switches={"V": "A"})
        k = 0
        for pre in ("", "script S { ", "script S { if ("):
            for ln in (1, 2, 3) if pre else (1, 2):
                for tup in itertools.product(SOUP, repeat=ln):
                    if ln == 3 and (k % 4): k += 1; continue       # a quarter of the triples
                    src = pre + " ".join(tup); k += 1
                    out.append(Case(compile_line(base, src), src, base, {"mode": "normal"}, group=("x", k)))
                    out.append(Case(compile_line(base.copy(lint=True), src), src, base.copy(lint=True), {"mode": "lint"}, group=("x", k)))
    for i in range(n):
        x = rnd.random()
        if x < 0.53:
            tg = TopGen(rnd, tier); src = tg.gen(rnd.randint(1, 3))
            for _ in range(rnd.choice([0, 0, 1, 1, 2, 3])): src = mutate(src, rnd)     # well-formed programs are inputs too
        elif x < 0.57:
            src = rnd.choice(["const FLAG_DONE = FLAG_DONE\n\nscript S {\n\tsetflag(FLAG_DONE)\n}", "const OBJ_A = OBJ_B\nconst OBJ_B = OBJ_A\nscript S { turn(OBJ_A, OBJ_B) if (var(OBJ_B) == OBJ_A) { x } }",
                              "const K = K + 1\nmart M { K }\nscript S { switch (var(K)) { case K: a } }", "const A = B\nconst B = C\nconst C = A\nmapscripts M { T [ A, B: C ] }",
                              "movement M { walk_up * 9223372036854775807 }", "script S { a(moves(walk_up * 0x7fffffffffffffff)) }", "movement M { face_down walk_up * 9000000000000000000 }",
                              "movement M { walk_up * 4294967296 walk_down * 65536 }",
                              "script Idle {\n while {\n  w\n  if (flag(D)) {\n   break\n  }\n }\n}\nscript Other {\n lock\n if (flag(A)) {\n  continue\n }\n}",
                              "script A { while { while { break } break } if (flag(F)) { break } }", "script A { do { switch (var(V)) { case 1: continue } } while (flag(F)) continue }",
                              'text T { ascii"\\0" }', 'script S { debugprint(ascii"\\\\\\0") msgbox("$") msgbox(braille"$") }', 'text T { ascii"\\\\\\\\\\0" }\ntext U { "$" }\ntext V { format(ascii"\\0") }', 'text T { "\\" }\ntext U { ascii"\\" }',
                              "script S {\n\tlock\n}'\n", "script S {\n\tlock\n'}", "script S { a('x') }'", "'", "''", "'a", "a'b'",
                              "script S { switch (var(V)) { case 1:\n case 2", "script S { switch (var(V)) { case", "script S { switch (var(V)) { case 1 2 3", "script S { switch (var(V)) { default", "script S { applymovement(0, moves()) }", "script S { applymovement(0, moves( poryswitch(V) { A: walk_up } )) }"])
        elif x < 0.7:
            from cases_data import Pory
            src = Pory(rnd).program()[0]
            for _ in range(rnd.choice([0, 1, 1, 2])): src = mutate(src, rnd)
        elif x < 0.85:
            src = " ".join(rnd.choice(JUNK + ["script", "S", "text", "movement", "mart", "mapscripts", "const", "raw", "while", "do", "switch", "break", "continue", "elif", "else"]) for _ in range(rnd.randint(0, 25)))
        elif x < 0.95:
            src = "".join(rnd.choice([chr(rnd.randint(0, 127)), chr(rnd.randint(128, 0x2fff)), "\n", " ", '"', "(", "#"]) for _ in range(rnd.randint(0, 60)))
            src = src.encode("utf-8", "ignore").decode("utf-8", "ignore")
        else:
            d = rnd.randint(50, 400 if tier == "quick" else 3000)
            kind = rnd.choice(["paren", "brace", "not", "if"])
            if kind == "paren": src = "script S { if (" + "(" * d + "flag(A)" + ")" * d + ") { a } }"
            elif kind == "brace": src = "script S { " + "if (flag(A)) { " * d + "x " + "} " * d + "}"
            elif kind == "not": src = "script S { if (" + "!(" * d + "flag(A)" + ")" * d + ") { a } }"
            else: src = "script S { foo(" + "(" * d + "1" + ")" * (d - rnd.randint(0, 1)) + ") }"
        if rnd.random() < 0.15: src += rnd.choice([" # unfinished", "\n// TODO", " //", "\n#"])    # file ends inside a comment
        sw = rnd.choice([{}, {"V": "A"}, {"V": "B", "GAME": "RUBY"}])
        cfgn = repo_cfg(switches=sw, optimize=rnd.random() < 0.5, lm=rnd.random() < 0.5, path=rnd.choice(["", "f.pory"]),
                        deffont=rnd.choice(["", "", "1_latin_frlg", "NOPE"]))
        cfgl = cfgn.copy(lint=True)
        out.append(Case(compile_line(cfgn, src), src, cfgn, {"mode": "normal"}, group=i))
        out.append(Case(compile_line(cfgl, src), src, cfgl, {"mode": "lint"}, group=i))
    # format() texts made of brace, backslash and multi-byte fragments (appended, so the stream above keeps its
    # draws): the formatter's word scanner and width measurement must answer on half-typed control codes too
    FRAG = ["a", "bb", " ", "  ", "{", "}", "{PLAYER", "{PLAYER}", "{COLOR RED}", "\\n", "\\p", "\\l", "\\\\", "é", "上", "$", "{}", "}{", "\\N", "!"]
    for i in range(40 if tier == "quick" else 600):
        body = "".join(rnd.choice(FRAG) for _ in range(rnd.randint(1, 9)))
        src = rnd.choice(['script S {\n\tlock\n\tmsgbox(format("%s"))\n\trelease\n}', 'text T {\n\tformat("%s")\n}', 'script S { msgbox(format("%s", "1_latin_frlg", 40)) }',
                          'text T { format("x"\n  "%s") }', 'script S { msgbox(format(ascii"%s")) }']) % body
        cfgn = repo_cfg(switches={}, optimize=rnd.random() < 0.5, lm=False, path="", deffont=rnd.choice(["", "1_latin_frlg"]))
        cfgl = cfgn.copy(lint=True)
        out.append(Case(compile_line(cfgn, src), src, cfgn, {"mode": "normal"}, group=("f", i)))
        out.append(Case(compile_line(cfgl, src), src, cfgl, {"mode": "lint"}, group=("f", i)))
    # round 15 (appended, fixed): numbers the integer conversion rejects, at every place a number is read
    BADNUM = ["99999999999999999999", "0x", "9223372036854775808", "0xFFFFFFFFFFFFFFFFF", "0b", "00000000000000000000000000000012"]
    NUMSITES = ['script Main {\n\tmsgbox(format("Hello there", %s))\n}\n', 'script Main {\n\tmsgbox(format("Hello there", numLines=%s))\n}\n', 'text T {\n\tformat("Hello there friend", "1_latin_frlg", %s)\n}\n',
                'text T { format("Hello there friend", maxLineLength=%s, fontId="1_latin_frlg") }\n', 'movement M {\n\twalk_up * %s\n}\n', 'script S { a(moves(walk_up\n * %s)) }\n',
                'script S { if (var(VAR_A) == %s) { a } switch (var(VAR_B)) { case %s: b } }\n', 'mart M { %s }\nmapscripts MS { T [ VAR_T, %s: L ] }\n']
    for q, site in enumerate(NUMSITES):
        for w, num in enumerate(BADNUM):
            src = site.replace("%s", num)
            cfgn = repo_cfg(switches={}, optimize=(q + w) % 2 == 0, lm=False, path="", deffont=""); cfgl = cfgn.copy(lint=True)
            out.append(Case(compile_line(cfgn, src), src, cfgn, {"mode": "normal"}, group=("num", q, w)))
            out.append(Case(compile_line(cfgl, src), src, cfgl, {"mode": "lint"}, group=("num", q, w)))
    return out

ENV_MSG = re.compile(r"poryswitch used, but no compile switches|no poryswitch for '|no poryswitch case found for|unknown fontID")

def check_result_total(case, res):
    k = res["kind"]
    if k in ("PANIC", "HANG", "CRASH"): return "%s: %s" % (k, res.get("msg", res.get("raw", "")))
    if k == "EERR": return "error without a location: %s" % res.get("msg")
    if k == "PERR":
        nlines = case.src.count("\n") + 1
        if not (1 <= res["lineStart"] <= res["lineEnd"] <= nlines):
            return "error range lines %d..%d outside 1..%d (%s)" % (res["lineStart"], res["lineEnd"], nlines, res["msg"])
        if (res["lineStart"], res["charStart"]) > (res["lineEnd"], res["charEnd"]):
            return "error range starts after it ends: (%d,%d) > (%d,%d) (%s)" % (res["lineStart"], res["charStart"], res["lineEnd"], res["charEnd"], res["msg"])
    return None

def oracle_C18_pair(cn, rn, cl, rl):
    for c, r in ((cn, rn), (cl, rl)):
        e = check_result_total(c, r)
        if e: return "%s mode: %s" % (c.meta["mode"], e)
    if rn["kind"] == "OK" and rl["kind"] != "OK": return "lint mode rejects a program normal mode accepts: %s" % rl.get("msg")
    if rl["kind"] == "PERR" and ENV_MSG.search(rl["msg"]): return "lint mode failed because of missing switches / fonts: %s" % rl["msg"]
    return None

# ---------------- C19 ----------------
IDENTS = ["foo", "é", "naïve_1", "_x", "script", "if", "TRUE", "value", "ünï", "𝒳x", "VAR_𝒳"]
NUMS = ["0", "7", "42", "-3", "0x1F", "007", "0x", "0x1f", "0xdeadBEEF", "0xa", "-0", "٣٤", "1２"]
PUNCT = ["(", ")", "{", "}", "[", "]", ",", ":", "*", "=", "==", "!=", "!", "<", "<=", ">", ">=", "&&", "||"]
ILLEGAL = ["+", "€", "&", "|", "-", "@", "/", "😀", "'", "~", "“", "×"]
STRS = ['"hi"', '"héllo wörld"', '""', '"a\\pb$"', '"𠮷野$"', '"😀 ok"']
TYPED = ['ascii"x"', 'braille"é"']
RAW = ['`raw é\n  text`', '``', '`.byte 0`', '`é € x`']

def lexeme(r):
    x = r.random()
    if x < 0.3: return ("id", r.choice(IDENTS))
    if x < 0.45: return ("num", r.choice(NUMS))
    if x < 0.75: return ("p", r.choice(PUNCT))
    if x < 0.82: return ("ill", r.choice(ILLEGAL))
    if x < 0.86: return ("str", r.choice(STRS))
    if x < 0.92: return ("mstr", r.choice([['"Hello\\n"', '"World"'], ['"a"', '"b"', '"c$"'], ['"One\\p"', '"Two"']]))
    if x < 0.96: return ("typed", r.choice(TYPED))
    return ("raw", r.choice(RAW))

def sep(r, force):
    parts = []
    n = r.choice([0, 1, 1, 2, 3]) if not force else r.choice([1, 1, 2, 3])
    for _ in range(n):
        x = r.random()
        if x < 0.5: parts.append(" " * r.randint(1, 3))
        elif x < 0.6: parts.append("\t")
        elif x < 0.75: parts.append("\n")
        elif x < 0.8: parts.append("\r\n")
        elif x < 0.9: parts.append("# cömment " + r.choice(["x", "€", "if (", "a \x00 b", "C:\\dir\\", "40 steps", "1"]) + "\n")
        else: parts.append(r.choice(["// c\n", "// c\n", "// path\\\n", "#1 x\n", "# maps/*/x /* y\n", "// */ z\n", "# 2 potions\n", "//*\n", "#/* \"q\n"]))
    return "".join(parts)

def needs_sep(a, b):
    (ka, ta), (kb, tb) = a, b
    if kb == "num" and tb.startswith("-") and ka in ("id", "num") or (kb == "num" and tb.startswith("-") and ta == ")"): return False   # BASE-1 is BASE, -1
    if ka == "p" and ta in "(){}[],:*" and kb == "p" and tb in "(){}[],:*": return False
    if ka == "num" and kb == "id" and tb.startswith("_") and ta != "0x": return False        # 2_x is 2, _x
    return True

def render_lexemes(ls, r):
    s = sep(r, False); offs = []
    for i, l in enumerate(ls):
        offs.append(len(s.encode()))
        if l[0] == "mstr":      # parts of one literal, separated by blanks only (any mix incl. CRLF): one token
            s += "".join(pt + (r.choice([" ", "\n  ", "\r\n\t", "  ", "\t\r\n"]) if k + 1 < len(l[1]) else "") for k, pt in enumerate(l[1]))
        else: s += l[1]
        if i + 1 < len(ls):
            if l[0] in ("str", "typed", "mstr") and ls[i + 1][0] in ("str", "mstr"): s += " # c\n"
            else:
                sp = sep(r, needs_sep(l, ls[i + 1]))
                if l[0] != "mstr" and l[1].endswith("/") and sp.startswith("/"): sp = " " + sp   # '/' + '// c' would read as a comment
                s += sp
        else:
            sp = sep(r, False)
            if r.random() < 0.25: sp += r.choice(["# end", "//", "// c", " #", "\t//x"])    # a comment that ends the file without a newline
            if l[0] != "mstr" and l[1].endswith("/") and sp.startswith("/"): sp = " " + sp
            s += sp
    return s, offs

def gen_C19(rnd, n, tier):
    out = []
    for i in range(n):
        ls = [lexeme(rnd) for _ in range(rnd.randint(1, 12))]
        for k in range(2 if tier == "quick" else 3):
            s, offs = render_lexemes(ls, rnd)
            out.append(Case(lex_line(s), s, None, {"ls": ls, "offs": offs}, group=i))
    if tier == "thorough":
        # small scope, exhaustively: every string of length <= 4 over a 14-character alphabet
        # (correspondence only: lexer vs model on all of them)
        import itertools
        alpha = ["a", "0", " ", "\n", "#", "/", '"', "=", "&", "x", "-", "é", "`", "!"]
        k = 0
        for ln in range(1, 5):
            for tup in itertools.product(alpha, repeat=ln):
                src = "".join(tup); out.append(Case(lex_line(src), src, None, {"exh": True}, group=("exh", k))); k += 1
    # the repaired finding F16 stays in the stream: a NUL inside a comment is part of the comment
    ls = [("id", "lock"), ("id", "foo")]
    out.append(Case(lex_line("lock # c \x00 bar\nfoo"), "lock # c \x00 bar\nfoo", None, {"ls": ls, "offs": [0, 15]}, group="F16"))
    out.append(Case(lex_line("lock foo"), "lock foo", None, {"ls": ls, "offs": [0, 5]}, group="F16"))
    # compiled output is layout independent: operator characters that touch or not, values continued on the next line
    LAY = [["script S { setvar(VAR_MASK, FLAG_A|~FLAG_B) setvar(V, BASE--OFFSET, X<-1) }", "script S { setvar(VAR_MASK, FLAG_A | ~ FLAG_B) setvar(V, BASE - -OFFSET, X < -1) }", "script S {\n setvar(VAR_MASK, FLAG_A |// c\n ~FLAG_B)\n setvar(V, BASE -\n -OFFSET, X <\n-1) }"],
           ["const T = W * H\nconst U = A < B > C\nscript S { setvar(V, T, U) }", "const T = W *\n   H\nconst U = A <\n B >\n C\nscript S { setvar(V, T, U) }", "const T = W\n * H\nconst U = A\n  < B\n  > C\nscript S { setvar(V, T, U) }", "const T = W * // c\n H\r\nconst U = A < B\r\n > C\r\nscript S { setvar(V, T, U) }"],
           ["const N = 5\nconst M = N -\n 1\nscript S { if (var(A) == M) { x } }", "const N = 5 const M = N - 1 script S { if (var(A) == M) { x } }"],
           ["script S { msgbox(\"a \" \"b\") msgbox(\"x\"\n \"y\") }", "script S {\n msgbox(\"a \"   \"b\")\n msgbox(\"x\" \"y\") }"]]
    LAYL = [["script S { poryswitch(G) { SAPPHIRE: a(\"s\") RUBY: b(\"r\") } }\nmovement M { walk_up poryswitch(G) { Z: zz A: aa } }",
             "script S {\n poryswitch(G) {\n  SAPPHIRE: a(\"s\")\n  RUBY: b(\"r\")\n }\n}\nmovement M {\n walk_up\n poryswitch(G) {\n  Z: zz\n  A: aa\n }\n}"]]
    for q, grp in enumerate(LAYL):
        cfg = base_cfg(lint=True)
        for k, sq in enumerate(grp): out.append(Case(compile_line(cfg, sq), sq, cfg, {"layout": k}, group=("layl", q)))
    for q, grp in enumerate(LAY):
        cfg = base_cfg(optimize=(q % 2 == 0))
        for k, sq in enumerate(grp): out.append(Case(compile_line(cfg, sq), sq, cfg, {"layout": k}, group=("lay", q)))
    for i in range(max(10, n // 10)):
        tg = TopGen(rnd, tier, porywrap=(i % 3 == 0)); src0 = tg.gen(rnd.randint(1, 3))
        cfg = base_cfg(optimize=rnd.random() < 0.5, lint=(i % 4 == 1), switches={"V": "ZZ"})
        out.append(Case(compile_line(cfg, src0), src0, cfg, {"layout": 0}, group=("c", i)))
        for k in range(2):
            s = relayout(src0, rnd)
            out.append(Case(compile_line(cfg, s), s, cfg, {"layout": k + 1}, group=("c", i)))
    # identifiers made of multi-byte LETTERS whose low byte is an ASCII character the lexer treats specially (blank,
    # tab, line break, quote, '#', '/', '(', '`', '_', NUL, digit): a table-driven or byte-wise fast path must not see them
    LOW = [0x20, 0x09, 0x0A, 0x0D, 0x22, 0x23, 0x2F, 0x28, 0x29, 0x60, 0x5F, 0x00, 0x30, 0x39, 0x2C, 0x3A, 0x7B, 0x7D, 0x41, 0x61]
    def wide_ident(r):
        s = "".join(chr(r.choice([0x100, 0x400, 0x4E00, 0x4F00]) + r.choice(LOW)) if r.random() < 0.7 else r.choice(["a", "_", "x1", "é"]) for _ in range(r.randint(1, 4)))
        return s if not s[0].isdigit() else "w" + s
    for i in range(max(20, n // 20)):
        ls = [("id", wide_ident(rnd)) if rnd.random() < 0.6 else lexeme(rnd) for _ in range(rnd.randint(1, 8))]
        for k in range(2 if tier == "quick" else 3):
            s, offs = render_lexemes(ls, rnd)
            out.append(Case(lex_line(s), s, None, {"ls": ls, "offs": offs}, group=("wide", i)))
    return out

def oracle_C19_group(cases, results):
    if cases[0].meta.get("exh"): return None
    if cases[0].cfg is not None:
        if any(r != results[0] for r in results):
            # errors carry positions, which legitimately differ between layouts
            if all(r["kind"] == "OK" for r in results) or len({r["kind"] for r in results}) > 1:
                return "compiled output depends on layout"
        return None
    seqs = []
    for c, r in zip(cases, results):
        if r["kind"] != "TOKS": return "lexer failed: %r" % r
        toks = r["toks"]; s = c.src; b = s.encode(); ls = c.meta["ls"]; offs = c.meta["offs"]
        seqs.append([(t["type"], t["lit"]) for t in toks])
        exp = []
        for l, o in zip(ls, offs):
            exp.append(o)
            if l[0] == "typed": exp.append(o + len(l[1][:l[1].index('"')].encode()))
        body = [t for t in toks if t["type"] != "EOF"]
        for t in toks:
            if t["type"] == "EOF" and t["line"] != b.count(b"\n") + 1:
                return "EOF token on line %d, the input has %d lines (%r)" % (t["line"], b.count(b"\n") + 1, s)
        if len(body) != len(exp): return "token count %d, expected %d for %r" % (len(body), len(exp), s)
        for t, o in zip(body, exp):
            pre = b[:o]; ln = pre.count(b"\n") + 1; col = len(pre) - (pre.rfind(b"\n") + 1)
            ucol = len(pre[pre.rfind(b"\n") + 1:].decode())
            if t["line"] != ln: return "token %r: line %d, true line %d" % (t, t["line"], ln)
            if t["startChar"] != col: return "token %r: start byte column %d, true %d" % (t, t["startChar"], col)
            if t["startUtf8"] != ucol: return "token %r: start char column %d, true %d" % (t, t["startUtf8"], ucol)
            if t["type"] != "RAWSTRING" and t["line"] == t["endLine"] and "\n" not in t["lit"]:
                extra = 2 if t["type"] == "STRING" else 0
                if t["endChar"] != t["startChar"] + len(t["lit"].encode()) + extra: return "token %r: end byte column is not start + length" % (t,)
                if t["endUtf8"] != t["startUtf8"] + len(t["lit"]) + extra: return "token %r: end char column is not start + length" % (t,)
    for sq in seqs[1:]:
        if sq != seqs[0]: return "token sequence depends on layout: %r vs %r" % (cases[0].src, cases[1].src)
    return None

# ---------------- C20 ----------------
def plain_body(rnd, depth=2):
    g = G(rnd, maxdepth=depth, loops=False, switches=False, labels=False)
    return g.body()

def gen_C20(rnd, n, tier):
    out = []
    kinds = ["break_outside", "continue_outside", "continue_not_last", "dup_case", "two_defaults", "const_redef",
             "text_clash", "movement_clash", "label_clash", "label_text_clash", "continue_in_switch_only",
             "continue_after_loop_in_switch", "break_after_closed_loop", "continue_after_closed_loop",
             "dup_case_const", "dup_case_const_rev", "dup_case_multi", "dup_case_many", "label_clash_own", "label_clash_forward", "continue_not_last_in_case", "label_clash_nested", "continue_after_inf_loop", "dup_case_nested_switch", "label_clash_probe"]
    for i in range(n):
        kind = kinds[i % len(kinds)]
        pre = p_block(plain_body(rnd), 1)      # statements before, inside script S
        npre = pre.count("\n")
        head = ["script Other {", "  nop", "}"] if rnd.random() < 0.5 else []
        if rnd.random() < 0.3: head = head + [rnd.choice(["# 2 potions for the player", "#1 first choice", "# 100 \"f.pory\"", "// 7 x", "# see maps/*/x /* y"])]
        # where the offending script body sits: a plain script, the selected (or fallback) case of a
        # statement poryswitch, an inline map script, an inline script of a map script table row
        wrap = "plain"
        if kind not in ("label_clash_probe", "dup_case_const", "dup_case_const_rev", "dup_case_multi", "const_redef", "text_clash", "movement_clash"):
            wrap = rnd.choice(["plain", "plain", "pory", "poryd", "mapinline", "maptable"])
        WR = {"plain": (["script S {"], ["}"], "S"),
              "pory": (["script S {", "  poryswitch(V) {", "    A {"], ["    }", "    _ { zzz }", "  }", "}"], "S"),
              "poryd": (["script S {", "  poryswitch(V) {", "    B { zzz }", "    _ {"], ["    }", "  }", "}"], "S"),
              "mapinline": (["mapscripts M {", "  MAP_SCRIPT_ON_LOAD {"], ["  }", "}"], "M_MAP_SCRIPT_ON_LOAD"),
              "maptable": (["mapscripts M {", "  MAP_SCRIPT_ON_FRAME_TABLE [", "    VAR_T, 1 {"], ["    }", "  ]", "}"], "M_MAP_SCRIPT_ON_FRAME_TABLE_0")}[wrap]
        woff = len(WR[0]) - 1
        def assemble(lines_before_script, body_lines, after=()):
            body_lines = [re.sub(r"\bS_", WR[2] + "_", l).replace("@OWN@", WR[2]) for l in body_lines]
            lines = list(lines_before_script) + WR[0] + body_lines + WR[1] + list(after)
            return "\n".join(lines) + "\n"
        bl = pre.rstrip("\n").split("\n") if pre.strip() else []
        if kind == "break_outside":
            wrap = rnd.choice(["", "if"])
            if wrap == "if": body = bl + ["  if (flag(A)) {", "    break", "  }"]; line = len(head) + 1 + len(bl) + 2
            else: body = bl + ["  break"]; line = len(head) + 1 + len(bl) + 1
            src = assemble(head, body)
        elif kind == "continue_outside":
            body = bl + ["  if (flag(A)) {", "    continue", "  }"]; line = len(head) + 1 + len(bl) + 2
            src = assemble(head, body)
        elif kind == "continue_in_switch_only":
            body = bl + ["  switch (var(V)) {", "    case 1:", "      if (flag(A)) {", "        continue", "      }", "  }"]; line = len(head) + 1 + len(bl) + 4
            src = assemble(head, body)
        elif kind == "continue_after_loop_in_switch":
            inner = rnd.choice([["      while (flag(L)) {", "        foo", "      }"], ["      do {", "        foo", "      } while (flag(L))"]])
            body = bl + ["  switch (var(V)) {", "    case 1:"] + inner + ["      continue", "  }"]; line = len(head) + 1 + len(bl) + 2 + len(inner) + 1
            src = assemble(head, body)
        elif kind in ("break_after_closed_loop", "continue_after_closed_loop"):
            closed = rnd.choice([["  while (flag(L)) {", "    foo", "  }"], ["  switch (var(W)) {", "    case 1: a", "  }"],
                                 ["  do {", "    if (flag(Q)) {", "      break", "    }", "  } while (flag(L))"]])
            kw = "break" if kind.startswith("break") else "continue"
            body = bl + closed + ["  if (flag(A)) {", "    " + kw, "  }"]; line = len(head) + 1 + len(bl) + len(closed) + 2
            src = assemble(head, body)
        elif kind in ("dup_case_const", "dup_case_const_rev", "dup_case_multi"):
            if kind == "dup_case_const": c1, c2 = "K_YES", "K_YES"
            elif kind == "dup_case_const_rev": c1, c2 = "1", "K_YES"
            else: c1, c2 = "FLAG_A | FLAG_B", "FLAG_A | FLAG_B"
            body = bl + ["  switch (var(V)) {", "    case %s: a" % c1, "    case 2:", "    case %s: b" % c2, "  }"]
            lines = ["const K_YES = 1"] + head + ["script S {"] + body + ["}"]
            src = "\n".join(lines) + "\n"; line = 1 + len(head) + 1 + len(bl) + 4
        elif kind == "label_clash_own":
            # a label spelled like the script's own (possibly generated) name: the entry label is a generated label too
            mid = rnd.choice([["  if (flag(A)) {", "    a", "  }"], ["  a"], []])
            body = ["  lock"] + mid + ["  @OWN@%s:" % rnd.choice(["", "", "(global)", "(local)"]), "  release"]; line = len(head) + 1 + 1 + len(mid) + 1
            src = assemble(head, body)
        elif kind == "dup_case_many":
            # a long switch: the k-th of N distinct values is repeated at the end (every k, every position matters)
            N = rnd.choice([9, 10, 13, 17, 33]); k = rnd.choice([x for x in (1, 2, 7, 8, 9, 10, 15, 16, 17, 18, 31, 32, 33, N - 1, N) if 1 <= x <= N])     # around the usual small-array thresholds
            body = bl + ["  switch (var(V)) {"] + ["    case %d: c%d" % (j, j) for j in range(1, N + 1)] + ["    case %d: again" % k, "  }"]
            line = len(head) + 1 + len(bl) + 1 + N + 1
            src = assemble(head, body)
        elif kind == "continue_not_last":
            loop = rnd.choice(["while (flag(A)) {", "do {", "while {"])
            close = "  } while (flag(B))" if loop == "do {" else "  }"
            body = bl + ["  " + loop, "    first", "    continue", "    " + rnd.choice(["second", "skip:", "skip:", "skip(global):", "second(1)", "break"]), close]; line = len(head) + 1 + len(bl) + 3
            src = assemble(head, body)
        elif kind == "dup_case":
            ctx_open, ctx_close = rnd.choice([([], []), (["  while (flag(L)) {"], ["  }"])])
            last = rnd.choice(["    case 1: b", "    case 1: b", "    case 1:", "    case 1:"])
            tailc = rnd.choice([[], [], ["    default: d"], ["    case 3:"]]) if last.endswith(":") else []
            body = bl + ctx_open + ["  switch (var(V)) {", "    case 1: a", "    case 2:", last] + tailc + ["  }"] + ctx_close
            line = len(head) + 1 + len(bl) + len(ctx_open) + 4
            src = assemble(head, body)
        elif kind == "two_defaults":
            first = rnd.choice(["    default: a", "    default:", "    default: a", "    default:"])
            body = bl + ["  switch (var(V)) {", first, rnd.choice(["    case 2: c", "    case 2:"]), "    default: b", "  }"]; line = len(head) + 1 + len(bl) + 4
            src = assemble(head, body)
        elif kind == "const_redef":
            second = rnd.choice(["const K = 2", "const K = 1", "const J = 1 + 1", "const J = K + 1"])      # also with the very same value
            lines = ["const K = 1", "const J = K + 1"] + head + [second, "script S {"] + bl + ["}"]
            src = "\n".join(lines) + "\n"; line = 2 + len(head) + 1
        elif kind == "text_clash":
            lines = head + ["script S {"] + bl + ['  msgbox("hi")', "}", "text S_Text_0 {", '  "clash"', "}"]
            src = "\n".join(lines) + "\n"; line = len(head) + 1 + len(bl) + 3
        elif kind == "movement_clash":
            lines = head + ["movement S_Movement_0 {", "  walk_up", "}", "script S {"] + bl + ["  applymovement(1, moves(walk_down))", "}"]
            src = "\n".join(lines) + "\n"; line = len(head) + 1
        elif kind == "label_clash_forward":
            # the label copies the generated label of a part of the script that is emitted later
            k = rnd.choice([1, 2]) if rnd.random() < 0.5 else rnd.choice([1, 2, 3])
            tail = rnd.choice([["  if (flag(A)) {", "    a", "  }", "  b"], ["  while (flag(A)) {", "    a", "  }", "  b"]]) if k < 3 else ["  while (flag(A)) {", "    a", "  }", "  b"]
            body = ["  first", "  S_%d%s:" % (k, rnd.choice(["", "", "(global)", "(local)"])), "  second"] + tail; line = len(head) + 1 + 2
            src = assemble(head, body)
        elif kind == "continue_not_last_in_case":
            cs = rnd.choice(["    case 1:", "    default:"])
            body = bl + ["  while (flag(L)) {", "    switch (var(V)) {", cs, "      continue", "      " + rnd.choice(["second", "skip:", "second(1)"]), "    case 2:", "      c", "    }", "  }"]
            line = len(head) + 1 + len(bl) + 4
            src = assemble(head, body)
        elif kind == "continue_after_inf_loop":
            # an infinite loop earlier in the file (also in another script) must not keep `continue` legal
            inf = rnd.choice([["script Idle {", "  while {", "    w", "    if (flag(D)) {", "      break", "    }", "  }", "}"],
                              ["script Idle {", "  while {", "    while {", "      break", "    }", "    break", "  }", "}"]])
            same = rnd.random() < 0.4
            if same:
                body = inf[1:-1] + ["  if (flag(A)) {", "    continue", "  }"]; line = len(head) + 1 + len(inf) - 2 + 2
                src = assemble(head, body)
            else:
                body = bl + ["  if (flag(A)) {", "    continue", "  }"]; line = len(head) + len(inf) + 1 + len(bl) + 2
                src = assemble(head + inf, body)
        elif kind == "dup_case_nested_switch":
            body = bl + ["  switch (var(V)) {", "    case 1: a", "    case 2:", "      switch (var(W)) {", "        case 1: inner", "      }", "    case 1: b", "  }"]
            line = len(head) + 1 + len(bl) + 7
            src = assemble(head, body)
        elif kind == "label_clash_probe":
            # a label S_k in front of a random body: must be rejected whenever the same body without the
            # label emits S_k: itself (the base program of the group comes first in the stream)
            g = G(rnd, maxdepth=2, labels=False); b2 = p_block(g.body(), 1).rstrip("\n").split("\n")
            src = assemble(head, b2); gid = "probe%d" % i
            out.append(Case(compile_line(base_cfg(optimize=False), src), src, base_cfg(optimize=False), {"kind": "probe_base", "gid": gid, "line": 0}))
            for k in range(1, 10):
                srck = assemble(head, ["  S_%d:" % k] + b2)
                cfgk = base_cfg(optimize=rnd.random() < 0.5)
                out.append(Case(compile_line(cfgk, srck), srck, cfgk, {"kind": "probe", "gid": gid, "label": "S_%d" % k, "line": len(head) + 2}))
            continue
        elif kind == "label_clash_nested":
            # the clashing label sits inside the body of a do-while / while / switch case / else block
            lab = rnd.choice(["S_1", "S_2", "S_Text_0"])
            inner = ["      x", "      %s%s:" % (lab, rnd.choice(["", "", "(global)", "(local)"])), "      y"]
            opn, cls = rnd.choice([(["  do {"], ["  } while (flag(L))"]), (["  while (flag(L)) {"], ["  }"]), (["  switch (var(V)) {", "    case 1:"], ["  }"]),
                                   (["  if (flag(A)) {", "    a", "  } else {"], ["  }"]), (["  while (flag(M)) {", "    do {"], ["    } while (flag(L))", "  }"])])
            pre2 = ['  msgbox("hi")'] if lab == "S_Text_0" else []
            body = pre2 + opn + inner + cls + ["  z"]; line = len(head) + 1 + len(pre2) + len(opn) + 2
            src = assemble(head, body)
        elif kind == "label_clash":
            body = ["  if (flag(A)) {", "    a", "  }", "  S_1%s:" % rnd.choice(["", "(global)", "(local)"]), "  b"]; line = len(head) + 1 + 4
            src = assemble(head, body)
        else:  # label_text_clash
            body = bl + ['  msgbox("hi")', "  S_Text_0%s:" % rnd.choice(["", "(global)", "(local)"]), "  b"]; line = len(head) + 1 + len(bl) + 2
            src = assemble(head, body)
        cfg = base_cfg(optimize=rnd.random() < 0.5, switches={"V": "A"})
        out.append(Case(compile_line(cfg, src), src, cfg, {"kind": kind, "line": line + woff, "wrap": wrap}))
        # the same program without the violation must be accepted (sanity of the generator)
    # round 15 (appended, fixed): clashes with the generated text / movement label of a script whose OWN name contains
    # `_Text_` / `_Movement_` / digits, the statement before or after the script, several inline items
    for sname in ["Sign_Text_Reader", "Rival_Movement_Intro", "A_Text_0", "B_Movement_1_Text_2", "X_Text_", "Text_", "_Text_0_Text_0"]:
        for kindx in ("text", "movement"):
            for first in (False, True):
                for idx in (0, 1):
                    if kindx == "text":
                        scr = ["script %s {" % sname] + ['  msgbox("t%d")' % q for q in range(idx + 1)] + ["}"]
                        stmt = ["text %s_Text_%d {" % (sname, idx), '  "Other"', "}"]
                    else:
                        scr = ["script %s {" % sname] + ["  applymovement(%d, moves(walk_up * %d))" % (q, q + 1) for q in range(idx + 1)] + ["}"]
                        stmt = ["movement %s_Movement_%d {" % (sname, idx), "  walk_down", "}"]
                    lines = (stmt + scr) if first else (scr + stmt)
                    src = "\n".join(lines) + "\n"; line = 1 if first else len(scr) + 1
                    cfg = base_cfg(optimize=(idx == 0), switches={"V": "A"})
                    out.append(Case(compile_line(cfg, src), src, cfg, {"kind": kindx + "_clash_named", "line": line, "wrap": None}))
    # round 16 (appended, fixed): a constant defined as itself / through a cycle cannot be redefined either
    for pre, line in ((["const FLAG_DOOR = FLAG_DOOR"], 2), (["const PA = PB", "const PB = PA"], 3), (["const K = 1", "const J = J", "const L = K"], 4)):
        for second in ("= 0x21", "= K2 + 1", "= %s" % pre[-1].split()[1]):
            nm = pre[-1].split()[1] if len(pre) < 3 else "J"
            lines = pre + ["const %s %s" % (nm, second), "script S {", "  setflag(%s)" % nm, "}"]
            src = "\n".join(lines) + "\n"; cfg = base_cfg(switches={"V": "A"})
            out.append(Case(compile_line(cfg, src), src, cfg, {"kind": "const_redef_self", "line": line, "wrap": None}))
    return out

PROBE = {}
def oracle_C20(case, res):
    m = case.meta
    if m["kind"] == "probe_base":
        PROBE[m["gid"]] = set(re.findall(r"^(S_\d+):$", res.get("text", ""), re.M)) if res["kind"] == "OK" else None
        return None
    if m["kind"] == "probe":
        labs = PROBE.get(m["gid"])
        if labs is None or m["label"] not in labs: return None          # not a generated label of this body: nothing to demand
        if res["kind"] != "PERR": return "label %s equals a generated label of the script but was not rejected (%s)" % (m["label"], res["kind"])
        if res["lineStart"] != m["line"]: return "label clash %s reported on line %d, the label is on line %d" % (m["label"], res["lineStart"], m["line"])
        return None
    if res["kind"] != "PERR": return "%s was not rejected (%s)" % (m["kind"], res["kind"])
    if res["lineStart"] != m["line"]:
        return "%s reported on line %d, the offending construct is on line %d (%s)" % (m["kind"], res["lineStart"], m["line"], res["msg"])
    return None
