"""Reference semantics of script bodies (source machine) and an interpreter for the emitted
assembly, used only to *search for failing inputs* (oracles of C01, C02, C03, C05, C11).
Worlds answer every test as a function of (seed, kind, name, number of commands so far)."""
import hashlib, re

class World:
    def __init__(s, seed): s.seed = seed
    def _h(s, *k): return int(hashlib.md5(repr((s.seed,) + k).encode()).hexdigest()[:8], 16)
    def flag(s, f, n): return s._h("f", f, n) % 2 == 0
    def trainer(s, t, n): return s._h("t", t, n) % 2 == 0
    def var(s, v, n): return s._h("v", v, n) % 4

class TableWorld(World):
    """World given by an explicit truth assignment to leaf keys (history independent)."""
    def __init__(s, flags, trainers, vars_): s.f = flags; s.t = trainers; s.v = vars_
    def flag(s, f, n): return s.f.get(f, False)
    def trainer(s, t, n): return s.t.get(t, False)
    def var(s, v, n): return s.v.get(v, 0)

def cmpop(op, a, b):
    return {"==": a == b, "!=": a != b, "<": a < b, "<=": a <= b, ">": a > b, ">=": a >= b}[op]

FLAGFORM = {"": True, "!": False, "==T": True, "==F": False, "!=T": False, "!=F": True}

def eval_leaf(l, w, hist):
    k = l[0]
    if k == "flag":
        v = w.flag(l[1], len(hist)); return v == FLAGFORM[l[2]]
    if k == "defeated":
        v = w.trainer(l[1], len(hist)); return v == FLAGFORM[l[2]]
    if k == "auto":
        hist.append(l[2]); x = w.var(l[3], len(hist)); f, op, val = l[4], l[5], l[6]
    else:
        x = w.var(l[1], len(hist)); f, op, val = l[2], l[3], l[4]
    if f == "": return x != 0
    if f == "!": return x == 0
    return cmpop(op, x, val)

def eval_cond(c, w, hist):
    k = c[0]
    if k == "leaf": return eval_leaf(c[1], w, hist)
    if k == "paren": return eval_cond(c[1], w, hist)
    if k == "not": return not eval_cond(c[1], w, hist)
    if k == "and": return eval_cond(c[1], w, hist) and eval_cond(c[2], w, hist)
    return eval_cond(c[1], w, hist) or eval_cond(c[2], w, hist)

def label_conts(body):
    """label -> (rest of its block, enclosing frames): the static continuation of a label."""
    conts = {}
    def walk(ss, K):
        for i, st in enumerate(ss):
            rest = ss[i + 1:]
            Kin = ([("seq", rest)] + K) if rest else K
            k = st[0]
            if k == "label": conts[st[1]] = (rest, K)
            elif k == "if":
                for _, b in st[1]: walk(b, Kin)
                if st[2] is not None: walk(st[2], Kin)
            elif k == "while": walk(st[2], [("while", st)] + Kin)
            elif k == "do": walk(st[1], [("do", st)] + Kin)
            elif k == "switch":
                for _, b in st[2]: walk(b, [("switch", st)] + Kin)
    walk(body, [])
    return conts

def run_src(body, conts, entry, w, limit):
    """Returns (history, outcome); outcome in return / end / jump X / LIMIT."""
    hist = []
    if entry is None: cur, K = body, []
    else: cur, K = conts[entry]
    cur = list(cur); K = list(K); steps = 0
    while True:
        steps += 1
        if steps > limit * 4 or len(hist) > limit: return hist, "LIMIT"
        if not cur:
            if not K: return hist, "return"
            fr = K[0]; K = K[1:]
            if fr[0] == "seq": cur = list(fr[1])
            elif fr[0] == "while":
                st = fr[1]
                if st[1] is None or eval_cond(st[1], w, hist): cur = list(st[2]); K = [fr] + K
            elif fr[0] == "do":
                st = fr[1]
                if eval_cond(st[2], w, hist): cur = list(st[1]); K = [fr] + K
            # a finished switch frame simply pops
            continue
        st = cur[0]; rest = cur[1:]; k = st[0]
        Kin = ([("seq", rest)] + K) if rest else K
        if k == "cmd": hist.append(st[2]); cur = rest
        elif k == "label": cur = rest
        elif k == "end": return hist, "end"
        elif k == "return": return hist, "return"
        elif k == "goto": return hist, "jump " + st[1]
        elif k == "if":
            taken = None
            for c, b in st[1]:
                if eval_cond(c, w, hist): taken = b; break
            if taken is None: taken = st[2]
            if taken is None: cur = rest
            else: cur = list(taken); K = Kin
        elif k == "while": K = [("while", st)] + Kin; cur = []
        elif k == "do": K = [("do", st)] + Kin; cur = list(st[1])
        elif k == "break":
            while K[0][0] == "seq": K = K[1:]
            K = K[1:]; cur = []
        elif k == "continue":
            while K[0][0] in ("seq", "switch"): K = K[1:]
            fr = K[0]
            if fr[0] == "do": cur = list(fr[1][1])   # documented: back to the start of the loop
            else: cur = []
        elif k == "switch":
            opnd = st[1]
            if opnd[0] == "auto":
                hist.append(opnd[2]); x = w.var(opnd[3], len(hist))
            else: x = w.var(opnd[1], len(hist))
            cases = st[2]; idx = None
            for i, (v, b) in enumerate(cases):
                if v is not None and v == x: idx = i; break
            if idx is None:
                for i, (v, b) in enumerate(cases):
                    if v is None: idx = i
            body_ = []
            if idx is not None:
                for j in range(idx, len(cases)):
                    if cases[j][1]: body_ = cases[j][1]; break
            K = [("switch", st)] + Kin; cur = list(body_)
        else: raise Exception(k)

# ---------- assembly machine ----------
class AsmError(Exception): pass

LABEL_RE = re.compile(r"^(\S+?)(::?)$")

def parse_asm(text):
    """-> (instruction lines, label -> index, list of (label, colons) in order)."""
    lines = []; labels = {}; deflist = []
    for ln in text.split("\n"):
        if not ln.strip(): continue
        if ln.startswith("# "): continue          # line markers
        m = LABEL_RE.match(ln)
        if m and not ln.startswith("\t"):
            if m.group(1) in labels: raise AsmError("DUPLICATE LABEL " + m.group(1))
            labels[m.group(1)] = len(lines); deflist.append((m.group(1), m.group(2))); continue
        lines.append(ln.strip())
    return lines, labels, deflist

def run_asm(lines, labels, entry, w, limit, stop_labels=()):
    """Runs from label `entry`. A goto to a label in stop_labels (user labels, i.e. the end of a
    segment) or to an undefined label finishes with `jump L`."""
    if entry not in labels: raise AsmError("entry label %s undefined" % entry)
    hist = []; pc = labels[entry]; cmpv = None; sw = None; steps = 0
    while True:
        steps += 1
        if steps > limit * 40 or len(hist) > limit: return hist, "LIMIT"
        if pc >= len(lines): return hist, "RUNOFF"
        ln = lines[pc]; pc += 1
        parts = ln.split(None, 1); op = parts[0]
        args = [a.strip() for a in parts[1].split(",")] if len(parts) > 1 else []
        def jump(l):
            nonlocal pc
            if l not in labels: raise AsmError("jump to undefined label %s in %r" % (l, ln))
            pc = labels[l]
        if op == "goto":
            if args[0] in stop_labels or args[0] not in labels: return hist, "jump " + args[0]
            jump(args[0])
        elif op == "goto_if_set":
            if w.flag(args[0], len(hist)): jump(args[1])
        elif op == "goto_if_unset":
            if not w.flag(args[0], len(hist)): jump(args[1])
        elif op in ("compare", "compare_var_to_value"):
            cmpv = (w.var(args[0], len(hist)), int(args[1]))
        elif op in ("goto_if_eq", "goto_if_ne", "goto_if_lt", "goto_if_le", "goto_if_gt", "goto_if_ge"):
            o = {"eq": "==", "ne": "!=", "lt": "<", "le": "<=", "gt": ">", "ge": ">="}[op[8:]]
            if cmpv is None: raise AsmError("conditional jump without compare")
            if cmpop(o, cmpv[0], cmpv[1]): jump(args[0])
        elif op == "checktrainerflag": cmpv = w.trainer(args[0], len(hist))
        elif op == "goto_if":
            if cmpv == (args[0] == "1"): jump(args[1])
        elif op == "switch": sw = w.var(args[0], len(hist))
        elif op == "case":
            if sw == int(args[0]): jump(args[1])
        elif op == "return": return hist, "return"
        elif op == "end": return hist, "end"
        else: hist.append(ln)

def compare_runs(body, labels_user, text, name, seeds, limit=60, norm=None):
    """Compare source and assembly from every entry point under the given worlds.
    Returns None or a description of the first difference."""
    try:
        lines, labels, _ = parse_asm(text)
    except AsmError as ex:
        return str(ex)
    conts = label_conts(body)
    for e in [None] + list(labels_user):
        for ws in seeds:
            w = ws if isinstance(ws, World) else World(ws)
            hs, os_ = run_src(body, conts, e, w, limit)
            try:
                ha, oa = run_asm(lines, labels, name if e is None else e, w, limit, stop_labels=set(labels_user))
            except AsmError as ex:
                return "entry=%s: %s" % (e, ex)
            if norm is not None: ha = [norm(x) for x in ha]
            n = min(len(hs), len(ha))
            ok = hs[:n] == ha[:n] and (os_ == oa or "LIMIT" in (os_, oa)) and ("LIMIT" in (os_, oa) or len(hs) == len(ha))
            if not ok:
                return "entry=%s world=%r\n source: %s -> %s\n asm:    %s -> %s" % (e, getattr(w, "seed", "table"), hs, os_, ha, oa)
    return None
