"""Proof-obligation side of a check: build the property's theorem module with lake (the Lean
kernel re-checks every theorem against the regenerated facts), audit axioms and forbidden
constructs, optionally re-check the compiled module with the independent leanchecker."""
import os, re

ALLOWED_AXIOMS = {"propext", "Classical.choice", "Quot.sound"}
FORBIDDEN = re.compile(r"\b(sorry|admit|native_decide|bv_decide|implemented_by|unsafe)\b|^axiom\s|maxHeartbeats\s+0")

TRUSTED_BASE = [
    "Lean 4.33.0 kernel (thorough tier: also leanchecker on the compiled property module)",
    "axioms limited to propext, Classical.choice, Quot.sound (audited per theorem with #print axioms)",
    "the statements in lean/PoryProofs/Properties/*.lean and the definitions of the specification they mention",
    "tools/factgen: the Lean tables it prints are the Go tables it read",
    "correspondence harness (harness/run, lean/Main.lean, lean/PoryModel/AstDump.lean, pylib): model = implementation (compiled text, error values, parser AST) only on the generated cases",
    "not modelled in Lean: Go runtime (map order, stack, memory), encoding/json, log output, main.go (flag parsing, file I/O) - main.go is tied to the library calls by the CLI correspondence on a slice of the cases",
]
ASSUMPTIONS = [
    "Go int does not overflow (inputs, widths and parameters below 2^31)",
    "the assembler reads each rendered line as the structured line it came from (user names do not imitate generated names)",
    "inputs are valid UTF-8",
]

def strip_comments(src):
    src = re.sub(r"/-.*?-/", "", src, flags=re.S)
    return "\n".join(l.split("--")[0] for l in src.split("\n"))

def theorem_names(path):
    src = strip_comments(open(path, encoding="utf-8").read())
    ns = re.search(r"^namespace\s+(\S+)", src, re.M)
    prefix = ns.group(1) + "." if ns else ""
    return [prefix + m.group(1) for m in re.finditer(r"^theorem\s+(\S+)", src, re.M)]

def import_closure(lean_dir, roots):
    """Project modules (PoryModel / PorySpec / PoryProofs) transitively imported by `roots`."""
    seen = set(); todo = list(roots)
    while todo:
        m = todo.pop()
        if m in seen: continue
        p = os.path.join(lean_dir, *m.split(".")) + ".lean"
        if not os.path.exists(p): continue
        seen.add(m)
        for mm in re.findall(r"^import\s+(Pory\S+)", open(p, encoding="utf-8").read(), re.M): todo.append(mm)
    return seen

def forbidden_hits(lean_dir, roots):
    """Forbidden constructs in the modules the property's theorems depend on (comments ignored)."""
    hits = []
    for m in sorted(import_closure(lean_dir, roots)):
        p = os.path.join(lean_dir, *m.split(".")) + ".lean"
        for i, l in enumerate(strip_comments(open(p, encoding="utf-8").read()).split("\n")):
            if FORBIDDEN.search(l): hits.append("%s:%d: %s" % (os.path.relpath(p, lean_dir), i + 1, l.strip()[:80]))
    return hits

# theorem modules that serve a second property as well (still only when registered)
ALSO = {"C20": ["C03b", "C18d", "P1", "P1b", "P1c"], "C08": ["C15b", "P2b"], "C10": ["C06b", "P1", "P1b"], "C12": ["C14b", "P1", "P1b", "P1c", "P2c", "P2d", "P2e"],
        "C04": ["C05c", "C15d"], "C06": ["P1"], "C03": ["P1"], "C11": ["C02Q", "C10d"], "C17": ["P2", "P2b", "P2d", "P2e", "P2f", "L2"], "C13": ["C10b", "P2", "P2c"], "C19": ["L1", "L2"], "C14": ["P2d", "P1c", "P2e"], "C02": ["L1"]}

def property_modules(prop, lean_dir):
    """Properties/Cxx.lean plus companion modules Properties/Cxx<letters>.lean (e.g. C02P, C05b) —
    only those registered in the root module lean/PoryProofs.lean (work in progress is not)."""
    root = os.path.join(lean_dir, "PoryProofs.lean")
    out = []
    if os.path.exists(root):
        for m in re.findall(r"^import\s+PoryProofs\.Properties\.(\S+)", open(root, encoding="utf-8").read(), re.M):
            if re.match(r"^%s[A-Za-z]*$" % re.escape(prop), m) or m in ALSO.get(prop, []): out.append(m)
    return sorted(set(out))

def check_proofs(prop, lean_dir, sh, thorough=False):
    mods = property_modules(prop, lean_dir)
    full = ["PoryProofs.Properties." + m for m in mods]
    rep = {"ok": True, "failed": [], "obligations": 0, "discharged": 0, "theorems": [], "axioms": {},
           "checker_cmd": "cd lean && lake build %s && lake env lean .audit/%s.lean   (#print axioms per theorem)%s" % (
               " ".join(full), prop, " && lake env leanchecker " + " ".join(full) if thorough else "")}
    if not mods:
        rep["ok"] = False; rep["failed"].append("no theorem module for " + prop); return rep
    names = []
    for m in mods:
        names += theorem_names(os.path.join(lean_dir, "PoryProofs", "Properties", m + ".lean"))
    rep["theorems"] = names; rep["obligations"] = len(names)
    rc, out = sh(["lake", "build"] + full, cwd=lean_dir)
    if rc != 0:
        rep["ok"] = False
        errs = [l for l in out.split("\n") if "error" in l.lower()][:8]
        rep["failed"].append("lake build %s failed: %s" % (" ".join(full), " | ".join(errs) or out[-800:]))
        return rep
    hits = forbidden_hits(lean_dir, full)
    if hits:
        rep["ok"] = False; rep["failed"].append("forbidden constructs: " + "; ".join(hits[:5]))
    os.makedirs(os.path.join(lean_dir, ".audit"), exist_ok=True)
    ap = os.path.join(lean_dir, ".audit", prop + ".lean")
    open(ap, "w").write("".join("import %s\n" % m for m in full) + "".join("#print axioms %s\n" % n for n in names))
    rc, out = sh(["lake", "env", "lean", ap], cwd=lean_dir)
    if rc != 0:
        rep["ok"] = False; rep["failed"].append("axiom audit failed: " + out[-600:]); return rep
    flat = re.sub(r"\s+", " ", out)
    for n in names:
        m = re.search(r"'%s' depends on axioms: \[([^\]]*)\]" % re.escape(n), flat)
        if m: axs = [a.strip() for a in m.group(1).split(",") if a.strip()]
        elif re.search(r"'%s' does not depend on any axioms" % re.escape(n), flat): axs = []
        else:
            rep["ok"] = False; rep["failed"].append("no axiom report for " + n); continue
        rep["axioms"][n] = axs
        bad = [a for a in axs if a not in ALLOWED_AXIOMS]
        if bad:
            rep["ok"] = False; rep["failed"].append("%s depends on %s" % (n, bad))
        else: rep["discharged"] += 1
    if thorough and rep["ok"]:
        for mod in full:
            rc, out = sh(["lake", "env", "leanchecker", mod], cwd=lean_dir, timeout=3600)
            if rc != 0:
                rep["ok"] = False; rep["failed"].append("leanchecker rejected %s: %s" % (mod, out[-400:]))
    return rep
