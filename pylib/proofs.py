"""Proof-obligation side of a check: build the property's theorem module with lake (the Lean
kernel re-checks every theorem against the regenerated facts), audit axioms and forbidden
constructs, optionally re-check the compiled module with the independent leanchecker."""
import os, re

ALLOWED_AXIOMS = {"propext", "Classical.choice", "Quot.sound"}
FORBIDDEN = re.compile(r"\b(sorry|admit|native_decide|bv_decide|implemented_by|unsafe)\b|^axiom\s|maxHeartbeats\s+0")

TRUSTED_BASE = [
    "Lean 4.33.0 kernel (thorough tier: also leanchecker on the compiled property module)",
    "axioms limited to propext, Classical.choice, Quot.sound (audited per theorem with #print axioms)",
    "the statements in lean/PoryProofs/Properties/*.lean and the definitions of the specification they mention",
    "tools/factgen: the Lean tables it prints are the Go tables it read",
    "correspondence harness (harness/run, lean/Main.lean, pylib): model = implementation only on the generated cases",
    "not modelled: Go runtime (map order, stack, memory), encoding/json, flag parsing and file I/O of main.go, log output",
]
ASSUMPTIONS = [
    "Go int does not overflow (inputs, widths and parameters below 2^31)",
    "the assembler reads each rendered line as the structured line it came from (user names do not imitate generated names)",
    "inputs are valid UTF-8",
]

def strip_comments(src):
    src = re.sub(r"/-.*?-/", "", src, flags=re.S)
    return "\n".join(l.split("--")[0] for l in src.split("\n"))

def theorem_names(path):
    src = strip_comments(open(path, encoding="utf-8").read())
    ns = re.search(r"^namespace\s+(\S+)", src, re.M)
    prefix = ns.group(1) + "." if ns else ""
    return [prefix + m.group(1) for m in re.finditer(r"^theorem\s+(\S+)", src, re.M)]

def forbidden_hits(lean_dir):
    hits = []
    for sub in ("PoryModel", "PorySpec", "PoryProofs"):
        for root, _, files in os.walk(os.path.join(lean_dir, sub)):
            for f in files:
                if not f.endswith(".lean"): continue
                p = os.path.join(root, f)
                for i, l in enumerate(strip_comments(open(p, encoding="utf-8").read()).split("\n")):
                    if FORBIDDEN.search(l): hits.append("%s:%d: %s" % (os.path.relpath(p, lean_dir), i + 1, l.strip()[:80]))
    if os.path.exists(os.path.join(lean_dir, "Main.lean")):
        pass
    return hits

def check_proofs(prop, lean_dir, sh, thorough=False):
    mod = "PoryProofs.Properties." + prop
    path = os.path.join(lean_dir, "PoryProofs", "Properties", prop + ".lean")
    rep = {"ok": True, "failed": [], "obligations": 0, "discharged": 0, "theorems": [], "axioms": {},
           "checker_cmd": "cd lean && lake build %s && lake env lean .audit/%s.lean   (#print axioms per theorem)%s" % (
               mod, prop, " && lake env leanchecker " + mod if thorough else "")}
    if not os.path.exists(path):
        rep["ok"] = False; rep["failed"].append("no theorem module for " + prop); return rep
    names = theorem_names(path)
    rep["theorems"] = names; rep["obligations"] = len(names)
    rc, out = sh(["lake", "build", mod], cwd=lean_dir)
    if rc != 0:
        rep["ok"] = False
        errs = [l for l in out.split("\n") if "error" in l.lower()][:8]
        rep["failed"].append("lake build %s failed: %s" % (mod, " | ".join(errs) or out[-800:]))
        return rep
    hits = forbidden_hits(lean_dir)
    if hits:
        rep["ok"] = False; rep["failed"].append("forbidden constructs: " + "; ".join(hits[:5]))
    os.makedirs(os.path.join(lean_dir, ".audit"), exist_ok=True)
    ap = os.path.join(lean_dir, ".audit", prop + ".lean")
    open(ap, "w").write("import %s\n" % mod + "".join("#print axioms %s\n" % n for n in names))
    rc, out = sh(["lake", "env", "lean", ap], cwd=lean_dir)
    if rc != 0:
        rep["ok"] = False; rep["failed"].append("axiom audit failed: " + out[-600:]); return rep
    # parse "'name' depends on axioms: [a, b]" / "'name' does not depend on any axioms"
    flat = re.sub(r"\s+", " ", out)
    for n in names:
        m = re.search(r"'%s' depends on axioms: \[([^\]]*)\]" % re.escape(n), flat)
        if m: axs = [a.strip() for a in m.group(1).split(",") if a.strip()]
        elif re.search(r"'%s' does not depend on any axioms" % re.escape(n), flat): axs = []
        else:
            rep["ok"] = False; rep["failed"].append("no axiom report for " + n); continue
        rep["axioms"][n] = axs
        bad = [a for a in axs if a not in ALLOWED_AXIOMS]
        if bad:
            rep["ok"] = False; rep["failed"].append("%s depends on %s" % (n, bad))
        else: rep["discharged"] += 1
    if thorough and rep["ok"]:
        rc, out = sh(["lake", "env", "leanchecker", mod], cwd=lean_dir, timeout=1800)
        if rc != 0:
            rep["ok"] = False; rep["failed"].append("leanchecker rejected %s: %s" % (mod, out[-400:]))
    return rep
