"""The "mix" stream: whole files that combine as many language features and option settings as
possible. No oracle looks at these cases - they only widen the differential correspondence
(implementation vs Lean model, compiled text and parser AST), which is a universal oracle for any
change of behaviour. Every check runs its own slice of the stream (own seed)."""
from proto import compile_line, Cfg
from gen import base_cfg, relayout, AUTOVARS
from cases_ctrl import Case
from cases_data import TopGen, Pory, FMT_FONT
from stdcfg import repo_cfg

CONST_NAMES = ["VAR_A", "VAR_B", "FLAG_A", "FLAG_C", "TRAINER_A", "ITEM_A", "ITEM_B", "walk_up", "K_ONE", "K_HEX", "ÉTAGE", "VAR_RESULT",
               "A", "B", "ZZ", "V", "MSGBOX_X", "face_left", "SELF", "K_MULTI", "lock"]
CONST_VALUES = ["1", "0x1f", "0xAB", "010", "-3", "VAR_TEMP_1", "FLAG_TEMP", "ITEM_NONE", "ITEM_Z", "BASE + 2", "( BASE + 1 ) * 2", "K_ONE", "K_ONE + K_HEX",
                "SELF", "walk_down", "OTHER | FLAG", "7 8", "W *\n  H", "A <\n  B", "X\n  * Y", "1 <<\n  4", "N -\n  1", "BASE +\n    NUM - 1", "0x10", "0"]

def const_preamble(r):
    lines = []; used = set()
    for _ in range(r.randint(1, 5)):
        n = r.choice(CONST_NAMES)
        if n in used and r.random() < 0.9: continue      # now and then a redefinition (an error)
        used.add(n); lines.append("const %s = %s" % (n, r.choice(CONST_VALUES)))
    return "\n".join(lines) + "\n"

TEXTS = ["Hello there", "100% sure %s %d", "ROUTE 1 \u3000PALLET \u00a0TOWN", "aaaa aaa aa aaa aa aaa aa aaa aa aaa", "Price: 100$", "é ñ ü 𠮷野 😀", "{PLAYER} got {STR_VAR_1}!", "a\\nb\\lc\\pd", "x{y z}w }", "", "$", "ends\\0",
         "tab\\there", "many   spaces   here", "LV. 50", "K_ONE", "VAR_A", "A", "lock", "Our #1 shop", "see //this one", "a /* b", "x */ y", "{K_ONE}: hi {VAR_A 15}", "Total: \\0", "a \\h b \\0", "\\0 \\x", "\\0", "\\\\\\0", "$", "\\"]
TYPES = ["", "", "ascii", "braille", "custom", "jp", "JPN", "fixedString"]

def lit(r, t=None):
    t = r.choice(TEXTS) if t is None else t
    ty = r.choice(TYPES)
    if r.random() < 0.2 and " " in t:                      # multi-part / continued literal
        k = t.index(" ")
        return ty + ('"%s" %s"%s"' % (t[:k], r.choice(["", "\n   ", "\r\n  "]), t[k + 1:]) if r.random() < 0.5 else '"%s%s   %s"' % (t[:k], r.choice(["\n", "\r\n"]), t[k + 1:]))
    return ty + '"%s"' % t

def fmt_call(r):
    t = r.choice(TEXTS[:5] + ["bb bbb bb bbb bbbb bb bbb bb bbb bbbb", "Our #1 shop is //open /*now", "voted the #1 MART by */ many"])
    if " " in t and r.random() < 0.25:        # the literal continues on the next source line (which may start like a comment)
        k = r.choice([i for i, ch in enumerate(t) if ch == " "]); t = t[:k] + r.choice(["\n", "\r\n"]) + "        " + t[k + 1:]
    ps = []
    x = r.random()
    if x < 0.25: ps.append(r.choice(['"1_latin_rse"', '"1_latin_frlg"', '"F1"', '"TEST"', '"NOPE"']))
    elif x < 0.4: ps.append(r.choice(["100", "0x40", "050", "0", "-5"]))
    if ps and r.random() < 0.4: ps.append(r.choice(["80", "0x30", '"F2"', '"1_latin_frlg"']))
    for nm in r.sample(["fontId", "maxLineLength", "numLines", "cursorOverlapWidth"], r.randint(0, 3)):
        v = r.choice(['"F1"', '"1_latin_rse"', '"TEST"']) if nm == "fontId" else r.choice(["1", "2", "3", "0x3", "40", "0", "12"])
        ps.append("%s=%s" % (nm, v))
    ty = r.choice(["", "", "ascii", "braille"])
    return 'format(%s"%s"%s)' % (ty, t, "".join(", " + p for p in ps))

def script_cmds(r, k):
    return ["msgbox(%s)" % lit(r), "msgbox(%s, MSGBOX_X)" % fmt_call(r), "applymovement(1, moves(walk_up * 2 face_left))", "setvar(VAR_A, 0x1f)", "cmd(global)", "cmd(local)",
            "goto_if_set(FLAG_A, X%d_L)" % k, "getpricereduction(POKENEWS_LILYCOVE)", "warpmuted(MAP_X, 1, 2)", "cmdD8", "checkmonobedience(VAR_0x8004)", "setmonobedient(VAR_0x8004)", "mossdeepgym1(2)", "faceplayer", "waitstate", "closemessage", "playse(SE_DOOR)", "call(Common_Reward)", "goto(Ext_L)", "random(3)", "special(Foo)", "call(X%d_0)" % k, "two(%s, %s)" % (lit(r), lit(r)), "price(PRICE_OF(ITEM_A, 2), %s)" % lit(r), "mv(OBJ(1, MAP_X), moves(walk_up * 2 face_left))",
            "goto_if_unset(FLAG_B, Ext_L)", "setvar(VAR_A, BASE-1)", "addvar(VAR_A, 10-3)", "setvar(VAR_MASK, FLAG_A|~FLAG_B)", "setvar(VAR_MASK, FLAG_A | ~FLAG_B)", "setvar(V, BASE--OFFSET)", "setvar(V, BASE - -OFFSET)", "setvar(V, 1<<4, A>>B, X<-1)", "debuglog(\"Welcome!\" ascii\"shop: welcome\") msgbox(\"Welcome!\")", "applymovement(2, moves(walk_up * 2) moves(face_down)) applymovement(3, moves(walk_up * 2))", "END", "Return(5)", "loadword(0, \"shared\" + 2)", "loadword(0, \"Welcome!\" + 2) msgbox(\"Welcome!\")",
            "setobjectxyperm(LOCALID, 7 -3)", "loadbytes(TABLE_BASE -2 -1 4, (ROW) -1)", "setshopkind(mart, 2)", "initshop(mart(SHOP_ID), text, 1)", "multichoice(0, 0, 2_OPTIONS, 1)", "setvar(VAR_A, 0x10_MASK)", "addvar(VAR_A, -3_STEPS, 1_000)", "setvar(VAR_A, K_ONE (K_HEX + 1))", "addvar(K_HEX(3), (VAR_A) K_ONE 5)",
            'two(ascii"REX", "Is that ok?") msgbox("Is that ok?")', 'sign(braille"ABC", "ABC$", %s)' % lit(r)]

SCRIPT_CONDS = ["flag(FLAG_A)", "!defeated(TRAINER_A)", "var(VAR_A) >= value(0x4001)", "random(4) == 2 && flag(FLAG_A) || specialvar(VAR_X, 7) != 0", "checkitem(ITEM_A)", "var(VAR_B) != K_ONE", "var(VAR_A) == TRUE", "var(VAR_B) != false", "!(var(VAR_A) != TRUE) && random(3) == FALSE",
                "flag(FLAG_A) && flag(FLAG_K) || flag(FLAG_B) && flag(FLAG_K)", "random(10) == 0 || random(10) == 0", "checkitem(ITEM_A) && flag(FLAG_A)", "getpricereduction(POKENEWS_LILYCOVE) == 1", "both(VAR_TEMP_1, 2) >= 50", "flag(FLAG_A) || checkmonobedience(VAR_0x8004)", "var(VAR_A) == 0x8004", "var(VAR_B) >= 16500 || var(VAR_A) < 0x4000", "flag(FLAG_A) && var(VAR_A) != 32770"]

def script_wraps(k):
    return ["{cmd}", "if ({cond}) {{ {cmd} }}", "while ({cond}) {{ {cmd} }}", "do {{ {cmd} }} while ({cond})",
            "switch (var(VAR_A)) {{ case 1: case K_ONE + 1: {cmd} default: x case 0x3: }}", "X%d_L(global): {cmd} goto(X%d_L)" % (k, k)]

def extras(r, k):
    out = []
    for j in range(r.randint(1, 4)):
        x = r.random(); sc = r.choice(["", "", "(global)", "(local)"]); nm = "X%d_%d" % (k, j)
        if x < 0.2: out.append("text%s %s {\n  %s\n}" % (sc, nm, r.choice([lit(r), fmt_call(r)])))
        elif x < 0.3: out.append("text %s { poryswitch(%s) { A: %s B { %s } _: %s } }" % (nm, r.choice(["V", "GAME", "W"]), lit(r), fmt_call(r), lit(r)))
        elif x < 0.45:
            steps = []
            for _ in range(r.randint(0, 6)):
                st = r.choice(["walk_up", "walk_down", "face_left", "step_end", "delay_16", "delay_1", "K_ONE", "walk_up"])
                if r.random() < 0.35: st += " * " + r.choice(["2", "1", "0x3", "010", "16", "9999", "0", "10000", "-1", "-0x3", "K_ONE", "65537", "4294967297", "9223372036854775807"])
                steps.append(st)
                if r.random() < 0.2: steps.append(",")
                if r.random() < 0.1: steps.append("poryswitch(V) { A: jump_a B {} _ { jump_b * 2 step_end } }")
            out.append("movement%s %s {\n  %s\n}" % (sc, nm, " ".join(steps)))
        elif x < 0.6:
            items = [r.choice(["ITEM_A", "ITEM_B", "ITEM_NONE", "K_ONE", "ITEM_C", "poryswitch(V) { A {} B: ITEM_X _ { ITEM_Y ITEM_NONE } }"]) for _ in range(r.randint(0, 5))]
            out.append("mart%s %s {\n  %s\n}" % (sc, nm, " ".join(items)))
        elif x < 0.75:
            ents = []
            for typ in r.sample(["MAP_SCRIPT_ON_LOAD", "MAP_SCRIPT_ON_TRANSITION", "MAP_SCRIPT_ON_RESUME", "MAP_SCRIPT_ON_FRAME_TABLE", "MAP_SCRIPT_ON_WARP_INTO_MAP_TABLE"], r.randint(0, 3)):
                y = r.random()
                if y < 0.3: ents.append("%s: %s" % (typ, r.choice(["Ext_%s" % typ, "Ext_%s" % typ, "%s_MAP_SCRIPT_ON_LOAD" % nm, "%s_MAP_SCRIPT_ON_FRAME_TABLE_1" % nm, "%s_MAP_SCRIPT_ON_RESUME" % nm])))
                elif y < 0.6: ents.append("%s { lock msgbox(%s) %s release }" % (typ, lit(r), r.choice(["", "end", "if (flag(FLAG_A)) { a }", "while (var(VAR_A) < 3) { if (flag(FLAG_B)) { break } }"])))
                else:
                    rows = []
                    for q in range(r.randint(0, 3) if r.random() < 0.85 else r.randint(10, 13)):
                        rows.append("%s, %s%s" % (r.choice(["VAR_T", "VAR_A", "VAR_A + 1", "VAR_A + K_ONE % 2"]), r.choice(["0", "K_ONE", "K_ONE + 1", "0x2", "6 % 4", "%d"]),
                                                    r.choice([": Ext_row%d" % q, " { lock msgbox(%s) release }" % lit(r), " { }", ": %s_%s_%d" % (nm, typ, r.randint(0, 2)), ": %s_MAP_SCRIPT_ON_LOAD" % nm])))
                    ents.append("%s [\n    %s\n  ]" % (typ, "\n    ".join(rows)))
            out.append("mapscripts%s %s {\n  %s\n}" % (sc, nm, "\n  ".join(ents)))
        elif x < 0.85:
            out.append("raw `\n%s\n`" % r.choice(["X%d_raw:\n\tnop\n\tend" % k, "@ é 😀 comment", "", "\t.byte 1, 2\n\n\t.byte 3"]))
        else:
            cmd = r.choice(script_cmds(r, k))
            cond = r.choice(SCRIPT_CONDS)
            wrap = r.choice(script_wraps(k))
            b = wrap.format(cmd=cmd, cond=cond)
            out.append("script%s %s {\n  %s\n}" % (sc, nm, b))
    return "\n".join(out) + "\n"

def mix_cfg(r):
    x = r.random()
    kw = dict(optimize=r.random() < 0.5, lm=r.random() < 0.4, path=r.choice(["", "in.pory", "dir\\sub\\f.pory", "a b.pory", "a%20b.pory", "%d%s.pory", "Script1_2.pory", "Script1_1 Script2_3 Script1_3.pory"]),
              switches=r.choice([{}, {"V": "A", "GAME": "RUBY", "W": "1"}, {"V": "B", "GAME": "RUBY", "W": "A"}, {"V": "ZZ", "W": "1", "GAME": "B"},
                                 {"V": "A", "GAME": "A", "W": "B"}, {"V": "A"}, {"V": "", "GAME": "RUBY", "W": "1"}, {"V": "A", "W": "", "GAME": ""}, {"V": "A=B", "GAME": "RUBY=EU", "W": "="}, {"V": "A B", "W": "1"}]), lint=r.random() < 0.1)
    if x < 0.3:
        c = repo_cfg(deffont=r.choice(["", "", "1_latin_frlg", "NOPE"]), maxlen=r.choice([0, 0, 120, 40]), **kw)
    else:
        fonts = {"F1": dict(FMT_FONT), "F2": {"maxLineLength": 90, "numLines": 3, "cursorOverlapWidth": 0, "widths": {"default": 4, "a": 7, " ": 2, "{PLAYER}": 30}},
                 "1_latin_rse": {"maxLineLength": 208, "numLines": 2, "cursorOverlapWidth": 10, "widths": {"default": 6, " ": 3, "a": 6, "b": 6}},
                 "1_latin_frlg": {"maxLineLength": 0, "numLines": 0, "cursorOverlapWidth": 0, "widths": {"default": 8, "{PLAYER}": 0, "$": 0}}}
        c = base_cfg(fontdefault=r.choice(["F1", "F1", "F2", "", "NOPE"]), fonts=fonts, deffont=r.choice(["", "", "F2"]), maxlen=r.choice([0, 0, 70]), **kw)
    c.autovars = dict(AUTOVARS, getpricereduction=("VAR_RESULT", None), checkmonobedience=("VAR_RESULT", None), both=("VAR_RESULT", 0))
    if r.random() < 0.2: c.autovars["special"] = ("VAR_SPECIAL", None)
    if r.random() < 0.1: c.autovars["specialvar"] = ("", r.choice([0, 1, 5, -1]))
    return c

def gen_mix(rnd, n, tier="quick"):
    out = []
    for i in range(n):
        parts = []
        if rnd.random() < 0.5: parts.append(const_preamble(rnd))
        tg = TopGen(rnd, tier, clash=rnd.random() < 0.1, porywrap=rnd.random() < 0.3, fmt=rnd.random() < 0.5, tconsts=rnd.random() < 0.5)
        parts.append(tg.gen(rnd.randint(1, 3)))
        if rnd.random() < 0.35: parts.append(Pory(rnd).program()[0])
        if rnd.random() < 0.7: parts.append(extras(rnd, i))
        if rnd.random() < 0.15: rnd.shuffle(parts)
        src = "\n".join(parts)
        if rnd.random() < 0.35: src = relayout(src, rnd)
        if rnd.random() < 0.1: src += rnd.choice(["# end", "//", " // x", "\n#"])
        if rnd.random() < 0.12: src = rnd.choice(["# see data/maps/*/scripts.pory /* y\n", "// 2 */ potions\n", "# 3 potions\n", "#line 9 \"x\"\n"]) + src
        cfg = mix_cfg(rnd)
        out.append(Case(compile_line(cfg, src), src, cfg, {"mix": True}))
    return out

# ---------------------------------------------------------------------------------------------
# boundary shapes: counts 0 / 1 / 10+ (two-digit numbering), adjacency of equal statement kinds,
# first / last positions, empty constructs, extreme number literals, awkward characters
NUMS = ["0", "1", "9", "10", "11", "99", "100", "255", "256", "9999", "10000", "65535", "65536", "2147483647", "2147483648", "4294967296",
        "9223372036854775807", "9223372036854775808", "0x0", "0xFF", "0xff", "0x10000", "0x7fffffffffffffff", "00", "07", "010", "08", "-1", "-0", "-9999", "1_000", "٣", "1２3", "-٣"]
CHARS = ["%", "%s", "%%", "\\\\", "$", "$$", "{", "}", "{}", "{A}", "'", "é", "\u3000", "\u00a0", "😀", "\\n", "\\p\\p", "\\0", ";", "`", "#not", "//not", "\t"]

def boundary_program(r, k):
    p = "B%d" % k; out = []
    def txt(): return "w%s %s x" % (r.choice(NUMS[:8]), r.choice(CHARS))
    shape = r.choice(["manytexts", "manymoves", "longlists", "adjacent", "empties", "numbers", "elifs", "cases", "names", "edges", "manyscripts", "repeats", "repeats", "nested", "constsites", "constsites", "keys"])
    if shape == "manytexts":
        n = r.choice([10, 11, 12, 21])
        out.append("script %s {\n%s\n}" % (p, "\n".join('  msgbox("t%d %s")' % (i, r.choice(CHARS)) for i in range(n))))
        out.append("script %s_b { msgbox(\"t%d %%\") msgbox(\"t3 x\") }" % (p, n - 1))
    elif shape == "manymoves":
        n = r.choice([10, 11, 13])
        out.append("script %s {\n%s\n}" % (p, "\n".join("  applymovement(%d, moves(walk_up * %d face_left))" % (i, i + 1) for i in range(n))))
    elif shape == "longlists":
        n = r.choice([10, 11, 16])
        out.append("movement %s_m { %s }" % (p, " ".join(r.choice(["walk_up", "delay_1", "step_%d" % i]) for i in range(n))))
        out.append("mart %s_a { %s }" % (p, " ".join("ITEM_%d" % i for i in range(n))))
        out.append("mapscripts %s_ms { MAP_SCRIPT_ON_FRAME_TABLE [\n%s\n] }" % (p, "\n".join("  VAR_T, %d%s" % (i, r.choice([": Ext_%d" % i, " { lock msgbox(\"r%d\") }" % i])) for i in range(n))))
    elif shape == "adjacent":
        kind = r.choice(["mart", "movement", "text", "raw", "script", "mapscripts", "const"])
        for i in range(r.choice([2, 3])):
            if kind == "mart": out.append("mart%s %s_%d { ITEM_A %s }" % (r.choice(["", "(global)"]), p, i, r.choice(["", "ITEM_NONE", "ITEM_B"])))
            elif kind == "movement": out.append("movement %s_%d { walk_up %s }" % (p, i, r.choice(["", "* 2", "step_end"])))
            elif kind == "text": out.append('text%s %s_%d { "%s" }' % (r.choice(["", "(local)"]), p, i, txt()))
            elif kind == "raw": out.append("raw `\n%s_%d:\n\t.byte %d\n`" % (p, i, i))
            elif kind == "script": out.append("script%s %s_%d { %s }" % (r.choice(["", "(local)"]), p, i, r.choice(["", "lock", "end", 'msgbox("same")'])))
            elif kind == "mapscripts": out.append("mapscripts %s_%d { MAP_SCRIPT_ON_LOAD { lock } }" % (p, i))
            else: out.append("const %s_%d = %s" % (p, i, r.choice(NUMS)))
        out.append("script %s_use { cmd(%s_0, %s_1) }" % (p, p, p))
    elif shape == "empties":
        out.append("script %s { }" % p)
        out.append("script %s_b { if (flag(F)) { } elif (flag(G)) { } else { } while (flag(H)) { } do { } while (flag(I)) switch (var(V)) { case 1: case 2: default: } after }" % p)
        out.append("script %s_c { lock if (flag(F)) { } }" % p)
        out.append("script %s_d { if (flag(F)) { } else { x } }" % p)
        out.append("mart %s_m { }" % p); out.append("movement %s_v { }" % p); out.append("mapscripts %s_s { }" % p)
        out.append("mapscripts %s_t { MAP_SCRIPT_ON_FRAME_TABLE [ ] MAP_SCRIPT_ON_LOAD { } }" % p)
        out.append('text %s_x { "" }' % p); out.append("raw ``"); out.append('script %s_e { msgbox("") applymovement(1, moves()) msgbox(format("")) }' % p)
    elif shape == "numbers":
        a, b, c = r.choice(NUMS), r.choice(NUMS), r.choice(NUMS)
        out.append("const %s_K = %s" % (p, a))
        out.append("movement %s_m { walk_up * %s walk_down * %s }" % (p, b, r.choice(["1", "2", "%s_K" % p])))
        out.append('script %s { setvar(VAR_A, %s) if (var(VAR_A) >= %s) { a } switch (var(VAR_B)) { case %s: x case %s: y } msgbox(format("aa bb cc dd", "TEST", %s, numLines=%s)) }' % (p, a, b, c, a if r.random() < 0.2 else "77", r.choice(NUMS), r.choice(NUMS[:12])))
        out.append("mapscripts %s_s { MAP_SCRIPT_ON_FRAME_TABLE [ VAR_T, %s: Ext ] }" % (p, c))
    elif shape == "elifs":
        n = r.choice([9, 10, 12])
        out.append("script %s { if (flag(F0)) { c0 }%s else { z } after }" % (p, "".join(" elif (var(V) == %d) { c%d }" % (i, i) for i in range(1, n))))
    elif shape == "cases":
        n = r.choice([10, 12, 17])
        out.append("script %s { switch (var(V)) {%s } after }" % (p, "".join(" case %d:%s" % (i, r.choice(["", " b%d" % i, " b%d break" % i, " break"])) for i in range(n)) + r.choice(["", " default: d", " default:"])))
    elif shape == "names":
        out.append('script %s_Text { if (flag(F)) { lock } msgbox("x") release }' % p)
        out.append('script %s { msgbox("a") msgbox("b") %s_9: x goto(%s_9) }' % (p, p, p))
        out.append("script %s_1x { é_cmd(ÑAME, 𝒳) end_x returnx }" % p)
        out.append("movement %s_Movement { walk_up }" % p)
    elif shape == "edges":
        first = r.choice(["mart E_m { ITEM_A }", 'text E_t { "x" }', "movement E_v { walk_up }", "raw `x`", "const E_K = 1", "# c", "mapscripts E_s { }", ""])
        out.append(first); out.append("script %s { lock }" % p)
        out.append(r.choice(["mart %s_m { ITEM_A }" % p, 'text %s_t { "x%%" }' % p, "movement %s_v { walk_up }" % p, "raw `y`", "const %s_K = 2" % p, "// end", "script %s_z { end }" % p]))
    elif shape == "keys":
        # hoisted items whose sharing keys nearly collide: equal only after concatenation / run-length / type stripping
        ml = r.sample([["delay_1"] * 6, ["delay_16"], ["delay_1", "delay_16"], ["delay_11", "delay_6"], ["walk_up", "walk_down"], ["walk_upwalk_down"], ["walk_up"] * 2, ["walk_up2"], ["walk_up", "walk_up", "walk_up"], ["walk_up"] * 12], 4)
        def ms(l):
            if len(set(l)) == 1 and len(l) > 1 and r.random() < 0.7: return "%s * %d" % (l[0], len(l))
            return " ".join(l)
        for i, l in enumerate(ml): out.append("script %s_m%d { applymovement(%d, moves(%s)) }" % (p, i, i, ms(l)))
        tl = r.sample(['"ab"', '"a" "b"', '"a\\nb"', 'ascii"ab"', '"ab$"', '"ab\\0"', 'ascii"ab\\0"', 'braille"ab"', '"a b"', '"a  b"', 'format("a b")', 'format("a  b")', '"AB"', '"ab "'], 5)
        for i, t in enumerate(tl): out.append("script %s_t%d { msgbox(%s) }" % (p, i, t))
        out.append("script %s_both { two(%s, %s) applymovement(9, moves(%s)) }" % (p, tl[0], tl[1], ms(ml[0])))
    elif shape == "constsites":
        # constants (short, 31 / 32 / 40-byte and non-ASCII names; plain, multi-token and %-values) at every site where a
        # constant is substituted, and at the places where it must NOT be (names, labels, steps, text, map script targets,
        # statements written BEFORE the definition)
        names = ["K", "K_" + "A" * 29, "K_" + "B" * 30, "FLAG_HIDE_LITTLEROOT_TOWN_RIVAL_BEDROOM_X", "ÉTAGE_" + "é" * 14, "VAR_RESULT", "Ext_Target", "walk_up"]
        vals = ["3", "FLAG_TEMP_1", "BASE + 2", "ITEM_X", "D % 5", "( N + 1 ) * 2", "VAR_TEMP_9", "0x1F"]
        k1, k2, k3 = r.sample(names, 3); v1, v2, v3 = r.choice(vals), r.choice(vals), r.choice(vals)
        out.append("mart %s_early { ITEM_A %s ITEM_B }" % (p, k1))
        out.append("script %s_early { setvar(%s, %s) if (flag(%s)) { a } }" % (p, k1, k2, k3))
        out.append("const %s = %s\nconst %s = %s\nconst %s = %s %s" % (k1, v1, k2, v2, k3, k1, r.choice(["", "+ 1", k2])))
        out.append("script %s_av { if (specialvar(%s, GetX) == %s) { q } switch (specialvar(%s, 7)) { case %s: s } }" % (p, k1, k2, k3, k1))
        out.append("script %s {\n  cmd(%s, %s + 1, (%s))\n  if (flag(%s) && !defeated(TRAINER_BASE + %s) || var(VAR_BASE + %s) >= %s + 1) { a }\n"
                   "  if (var(%s) == value(%s)) { b }\n  while (checkitem(%s, %s) == %s) { c }\n  switch (var(%s)) { case %s: d case %s + 1: e }\n  switch (random(%s)) { case 0: f }\n"
                   "  %s: g goto(%s)\n  applymovement(%s, moves(walk_up * 2 %s))\n  msgbox(\"%s\")\n}" % (p, k1, k2, k3, k1, k2, k3, k1, k2, k3, k1, k2, k3, k1, k2, k3, k1, p + "_lab", p + "_lab", k1, k2 if k2 == "walk_up" else "face_left", k1))
        out.append("mart %s_m { ITEM_A %s %s ITEM_B }" % (p, k1, k2))
        out.append("mapscripts %s_ms { MAP_SCRIPT_ON_LOAD: %s MAP_SCRIPT_ON_FRAME_TABLE [ %s, %s: %s  VAR_T + %s, %s + 1 { lock } ] }" % (p, r.choice([k1, "Ext_Target"]), k1, k2, r.choice([k3, "Ext_Target"]), k1, k2))
        out.append("movement %s_mv { walk_up * 2 %s }" % (p, "walk_up" if "walk_up" in (k1, k2, k3) else "face_left"))
        out.append('text %s_t { "%s %s" }' % (p, k1, k2))
        out.append('text %s_u { "{%s}: hi {%s 15}" }\nscript %s_v { msgbox(format("{%s} x {%s}")) }' % (p, k1, k2, p, k1, k3))
    elif shape == "repeats":
        # one construct many times in one file (past 32 / 64 / 128): per-file counters, caps, leaks
        n = r.choice([17, 33, 34, 40, 65, 70, 130])
        forms = ["if ((flag(FLAG_A) || defeated(TRAINER_%d)) && flag(FLAG_B)) { a%d } elif (!(var(VAR_A) == 1 && flag(FLAG_C)) || flag(FLAG_D)) { b%d }",
                 "while ((flag(FLAG_A) || flag(FLAG_%d)) && !flag(FLAG_B)) { a%d if (flag(FLAG_Q)) { continue } b%d }",
                 "switch (var(VAR_A)) { case %d: a%d case 1000: b%d break default: }",
                 "do { a%d if (random(%d) == 1) { break } } while (!(flag(FLAG_A)) || checkitem(ITEM_%d) == TRUE)",
                 'msgbox("text %d") msgbox("shared") applymovement(%d, moves(walk_up * %d))',
                 "poryswitch(V) { A { a%d } B: b%d _ { c%d } }",
                 "L%d: a%d goto(L%d)",
                 'msgbox(format("aa bb cc dd ee %d", "F1", %d)) msgbox(format("%d aa"))']
        f = r.choice(forms)
        if r.random() < 0.2:
            # many poryswitch statements of the list / text kind in one file, then one in a script
            kind = r.choice(["text", "movement", "mart"])
            for i in range(n):
                if kind == "text": out.append('text %s_%d { poryswitch(V) { A: "a%d" B { "b%d" } _: "other%d" } }' % (p, i, i, i, i))
                elif kind == "movement": out.append("movement %s_%d { walk_up poryswitch(V) { A: face_left B { walk_down * 2 } _: step_%d } }" % (p, i, i))
                else: out.append("mart %s_%d { ITEM_A poryswitch(V) { A: ITEM_B B { ITEM_C } _: ITEM_%d } }" % (p, i, i))
            out.append("script %s_last { poryswitch(V) { A: a B { b } _: c } }" % p)
            f = None
        if f is None: pass
        elif r.random() < 0.5:
            for i in range(n): out.append("script %s_%d { %s }" % (p, i, f % (i, i, i)))
        else:
            out.append("script %s {\n%s\n}" % (p, "\n".join("  " + f % (i, i, i) for i in range(n))))
        if f is not None and r.random() < 0.3: out.append("mapscripts %s_ms { MAP_SCRIPT_ON_FRAME_TABLE [ %s ] }" % (p, " ".join("VAR_T, %d { %s }" % (i, f % (i, i, i)) for i in range(n // 4))))
    elif shape == "nested":
        # deep nesting of one or two constructs
        d = r.choice([5, 9, 17, 33]); inner = "core"
        kinds = r.sample(["if", "while", "do", "switch", "paren", "pory", "else", "dswitch", "dswitch"], r.choice([1, 2]))
        if "dswitch" in kinds: out.append("movement %s_mv { walk_up * 2 }" % p)
        for i in range(d):
            k = kinds[i % len(kinds)]
            if k == "if": inner = "if (flag(FLAG_%d)) { a%d %s b%d }" % (i, i, inner, i)
            elif k == "else": inner = "if (flag(FLAG_%d)) { a%d } elif (flag(FLAG_X)) { } else { %s }" % (i, i, inner)
            elif k == "while": inner = "while (var(VAR_A) < %d) { %s if (flag(FLAG_Q)) { %s } }" % (i, inner, r.choice(["continue", "break"]))
            elif k == "do": inner = "do { %s } while (flag(FLAG_%d))" % (inner, i)
            elif k == "switch": inner = "switch (var(VAR_%d)) { case 1: %s break default: d%d if (flag(FLAG_Q)) { break } e%d }" % (i, inner, i, i)
            elif k == "dswitch": inner = "switch (var(VAR_%d)) { case 1: d%d default: %s }" % (i, i, inner)
            elif k == "pory": inner = "poryswitch(V) { A { %s } _ { %s } }" % (inner, inner if i < 3 else "z")
            else: inner = "if (%sflag(FLAG_A) && var(VAR_B) == %d%s || flag(FLAG_C)) { %s }" % ("(" * (i + 1), i, ")" * (i + 1), inner)
        out.append("script %s { lock %s release }" % (p, inner))
    else:
        n = r.choice([10, 12])
        for i in range(n): out.append("script %s_%d { %s }" % (p, i, r.choice(["lock", 'msgbox("shared")', "if (flag(F)) { a }", "applymovement(1, moves(walk_up))"])))
    glue = "\n"
    if r.random() < 0.2 and not any(o.startswith("#") or o.startswith("//") for o in out): glue = r.choice([" ", "  ", "\t"])     # everything on one line
    return glue.join(out) + r.choice(["\n", "", "\n\n"])

def gen_boundary(rnd, n):
    out = []
    for i in range(n):
        src = boundary_program(rnd, i)
        if rnd.random() < 0.25: src = relayout(src, rnd)
        cfg = mix_cfg(rnd)
        out.append(Case(compile_line(cfg, src), src, cfg, {"mix": True}))
    return out

_gen_mix_plain = gen_mix
def gen_mix(rnd, n, tier="quick"):
    k = n // 3
    return _gen_mix_plain(rnd, n - k, tier) + gen_boundary(rnd, k) + gen_catalogue(rnd)

def gen_catalogue(rnd):
    """Every directed command spelling and every directed condition of the feature soup ONCE per run,
    whatever the seed (the soup picks them at random, so a spelling added for one seeded change could
    drop out of the quick stream again when the stream shifted - the full re-run of all kept changes
    lost two that way). The wrapper and the partner rotate with the seed."""
    out = []; off = rnd.randint(0, 1000)
    cmds = script_cmds(rnd, 7); conds = SCRIPT_CONDS; wraps = script_wraps(7)
    cwraps = [w for w in wraps if "{cond}" in w]
    plan = [(cmds[j], conds[(j + off) % len(conds)], wraps[(j + off) % len(wraps)]) for j in range(len(cmds))]
    plan += [(cmds[(j * 7 + off) % len(cmds)], conds[j], cwraps[(j + off) % len(cwraps)]) for j in range(len(conds))]
    for j, (cmd, cond, wrap) in enumerate(plan):
        src = "script X7 {\n  %s\n}\n" % wrap.format(cmd=cmd, cond=cond)
        if j % 4 == 1: src = const_preamble(rnd) + "\n" + src
        cfg = mix_cfg(rnd)
        out.append(Case(compile_line(cfg, src), src, cfg, {"mix": True}))
    # whole programs: shapes that showed a seeded change (round 14 and the full re-run of the kept changes) and that no
    # random stream should be trusted to draw; each under both -optimize settings
    # one construct nested 25 deep, every construct once (work and memory must stay linear in the depth)
    for kind in ["if", "else", "while", "do", "switch", "dswitch", "pory", "paren"]:
        inner = "core"; d = 25
        for i in range(d):
            if kind == "if": inner = "if (flag(FLAG_%d)) { a%d %s b%d }" % (i, i, inner, i)
            elif kind == "else": inner = "if (flag(FLAG_%d)) { a%d } elif (flag(FLAG_X)) { } else { %s }" % (i, i, inner)
            elif kind == "while": inner = "while (var(VAR_A) < %d) { %s if (flag(FLAG_Q)) { %s } }" % (i, inner, ["continue", "break"][i % 2])
            elif kind == "do": inner = "do { %s } while (flag(FLAG_%d))" % (inner, i)
            elif kind == "switch": inner = "switch (var(VAR_%d)) { case 1: %s break default: d%d if (flag(FLAG_Q)) { break } e%d }" % (i, inner, i, i)
            elif kind == "dswitch": inner = "switch (var(VAR_%d)) { case 1: d%d default: %s }" % (i, i, inner)
            elif kind == "pory": inner = "poryswitch(V) { A { %s } _ { %s } }" % (inner, inner if i < 3 else "z")
            else: inner = "if (%sflag(FLAG_A) && var(VAR_B) == %d%s || flag(FLAG_C)) { %s }" % ("(" * (i + 1), i, ")" * (i + 1), inner)
        src = "movement(local) Deep_mv { walk_up * 2 }\nmart(local) Deep_mart { ITEM_A }\ntext(local) Deep_text { \"t\" }\nscript Deep { lock %s release }\n" % inner
        cfg = mix_cfg(rnd); cfg.switches = {"V": "A", "GAME": "RUBY", "W": "1"}; cfg.lint = False
        out.append(Case(compile_line(cfg, src), src, cfg, {"mix": True}))
    for j, src in enumerate(CATALOGUE_PROGRAMS):
        for _ in range(12):
            cfg = mix_cfg(rnd)
            if cfg.fontdefault not in ("", "NOPE") and cfg.deffont != "NOPE": break      # format() must get as far as formatting
        cfg.switches = {"V": "A", "GAME": "RUBY", "W": "1"}; cfg.lint = False
        if "format(" in src: cfg.lm = True; cfg.path = cfg.path or "in.pory"       # markers next to formatted texts
        for opt in (True, False):
            c2 = cfg.copy(optimize=opt)
            out.append(Case(compile_line(c2, src), src, c2, {"mix": True}))
    return out

CATALOGUE_PROGRAMS = [
    # two inline movements with the same steps in mirrored order (content keys must be exact, not hashed)
    "script Guards {\n  applymovement(1, moves(walk_left walk_right walk_right walk_left))\n  applymovement(2, moves(walk_right walk_left walk_left walk_right))\n"
    "  applymovement(3, moves(walk_left walk_right * 2 walk_left))\n  applymovement(4, moves(face_up walk_right walk_left walk_left walk_right))\n  applymovement(5, moves(face_up walk_left walk_right walk_right walk_left))\n  waitmovement(0)\n}\n",
    # format() of adjacent literals without any blank or backslash; of blank texts; of an unclosed / stray brace
    'text Warning {\n  format("Attention!" "Intruders!")\n}\nscript S {\n  msgbox(format("Attention!"\n    "Intruders!" "Again!"))\n  msgbox(format(""))\n  message(format(ascii"  "))\n}\ntext Blank { format("   ") }\ntext BlankB { format(braille"") }\n',
    'script S {\n  lock\n  msgbox(format("Thanks, {PLAYER"))\n  release\n}\n',
    'script S {\n  msgbox(format("a }{ b"))\n  msgbox(format("a {b c"))\n  msgbox(format("{"))\n}\ntext T { format("x {COLOR RED}y {z") }\n',
    # inline map scripts whose only control flow sits in the selected case of a poryswitch
    "mapscripts Town_MapScripts {\n  MAP_SCRIPT_ON_RESUME: Town_OnResume\n  MAP_SCRIPT_ON_LOAD {\n    setmetatile(1, 2, METATILE_A, FALSE)\n    poryswitch(V) {\n      A { if (flag(FLAG_BADGE01_GET)) { setmetatile(3, 4, METATILE_B, TRUE) } }\n      _: setmetatile(5, 6, METATILE_C, TRUE)\n    }\n    special(DrawWholeMapView)\n  }\n"
    "  MAP_SCRIPT_ON_FRAME_TABLE [\n    VAR_TEMP_0, 0: Town_OnFrame0\n    VAR_TEMP_0, 1 {\n      lockall\n      poryswitch(GAME) {\n        SAPPHIRE: setvar(VAR_TEMP_1, 9)\n        _ { while (var(VAR_TEMP_1) < 3) { addvar(VAR_TEMP_1, 1) } }\n      }\n      releaseall\n      end\n    }\n  ]\n}\n",
    # several branching inline scripts in ONE mapscripts statement
    "mapscripts MyMap_MapScripts {\n  MAP_SCRIPT_ON_TRANSITION { if (flag(FLAG_RAINING)) { setweather(WEATHER_RAIN) } doweather }\n  MAP_SCRIPT_ON_LOAD { if (flag(FLAG_DOOR_OPENED)) { setmetatile(5, 5, METATILE_DOOR_OPEN, FALSE) } Redraw: special(DrawWholeMapView) }\n"
    "  MAP_SCRIPT_ON_FRAME_TABLE [\n    VAR_T, 0 { while (flag(FLAG_X)) { a } }\n    VAR_T, 1 { switch (var(VAR_Q)) { case 1: b case 2: c } d }\n  ]\n}\n",
    # a constant defined from a constant that was already used; a name used before its const
    "const BASE = VAR_TEMP_0 + 2\nscript First { setvar(BASE, 1) }\nconst NEXT = BASE + 1\nconst ALIAS = BASE\nscript Second { setvar(NEXT, 7) if (var(NEXT) == 4) { release } giveitem(ALIAS) }\nmart Items { NEXT ALIAS }\n",
    "script ShowLimit { buffernumberstring(STR_VAR_1, LIMIT) msgbox(gText_Limit) end }\nconst LIMIT = 5\nscript CheckLimit {\n  setvar(VAR_TEMP_1, LIMIT)\n  if (var(VAR_TEMP_0) >= LIMIT) { addvar(VAR_TEMP_1, LIMIT + 1) }\n  release\n  end\n}\n",
    # identifiers and continuation lines that start with a character whose low byte looks like a blank
    "script Main {\n  goto(\u010dern\u00fd)\n  call(\u0420\u044b\u0431\u0430) // done\n  \u4e0a(\u4e0d, \u0120x)\n  msgbox(\"\u5317\u3078\\n\"\n\t\t\"\u4e0a\u308b$\")\n  msgbox(\"a\"\u300d)\n}\n",
    # more than 16 texts in one file, exported and local text statements among the first sixteen
    "".join("text%s T%d { \"t%d\" }\n" % (["", "(local)", "(global)"][q % 3], q, q) for q in range(19)) + "script S { msgbox(\"inline\") msgbox(T3) }\n",
    # a label spelled like the chunk label of an EARLIER script, which is also a text's name
    "script Intro {\n  if (flag(FLAG_MET_RIVAL)) {\n    msgbox(Intro_2)\n  }\n}\nscript Outro {\n  lock\nIntro_2:\n  release\n}\ntext Intro_2 {\n  \"Hello$\"\n}\n",
    "text Intro_2 {\n  \"Hello$\"\n}\nscript Intro {\n  if (flag(FLAG_MET_RIVAL)) {\n    msgbox(Intro_2)\n  }\n}\nscript Outro {\n  lock\nIntro_2:\n  release\n}\n",
    # the same sentence formatted twice with the same parameters: in a text statement, inline, and with another string type
    'text Sign {\n  format("Welcome to the big city of signs")\n}\nscript S {\n  lock\n  msgbox(format("Welcome to the big city of signs"))\n  msgbox(format(ascii"Welcome to the big city of signs"))\n\n  msgbox(format("Welcome to the big city of signs"))\n  release\n}\ntext Sign2 {\n  format("Welcome to the big city of signs")\n}\n',
    # the same command name with and without arguments; the same var leaf with and without value()
    "script Demo {\n  lock\n  waitmovement\n  applymovement(OBJ_EVENT_ID_PLAYER, Demo_Moves)\n  waitmovement(0)\n  fadescreen\n  delay(16)\n  fadescreen(FADE_FROM_BLACK)\n  fadescreen()\n  release\n  end\n}\n",
    # round 15: reserved words as case values / comparison values / arguments; compound constants next to * / %; an
    # argument-position AutoVar whose variable is written with several tokens; unconvertible numbers in format()
    "script S {\n  switch (var(VAR_RESULT)) {\n    case TRUE: yes()\n    case FALSE:\n      no()\n    case value: v case local: l case global: g case format: f case true: t case moves: m case poryswitch: p case end: e\n    default: other()\n  }\n  after()\n}\n",
    "script S { if (var(VAR_A) == TRUE) { a } elif (var(VAR_A) != FALSE || flag(FLAG_X) == false) { b } setvar(VAR_B, TRUE) c(value, local, global, format, const) }\nmapscripts M { T [ VAR_T, TRUE: L  VAR_U, FALSE { x } ] }\n",
    "const BASE = 10\nconst STRIDE = BASE + 2\nconst AREA = STRIDE * 2\nconst Q = 3 % STRIDE / STRIDE\nscript Demo {\n  setvar(VAR_0x8002, STRIDE * 3)\n  addvar(VAR_0x8003, 2 * STRIDE, STRIDE)\n  x(STRIDE / 2, 7 % STRIDE, AREA, Q)\n  if (var(VAR_C) == 3 * STRIDE - 1) { a }\n  switch (var(VAR_D)) { case AREA: b case STRIDE * 3: c }\n}\nmart M { AREA }\n",
    "script S {\n  if (flag(FLAG_A) && specialvar(VAR_OBJ_GFX_ID_0 + 1, GetThing) == 2) { hit }\n  switch (specialvar(VAR_OBJ_GFX_ID_0 + 1, GetThing)) { case 1: a }\n  while (specialvar((VAR_X), GetThing) != 0) { b }\n  specialvar(VAR_Z + 2, GetThing)\n}\n",
    'script Main {\n  msgbox(format("Hello there", 99999999999999999999))\n  msgbox(format("Hello there", numLines=99999999999999999999))\n  msgbox(format("Hello there friend", "1_latin_frlg", 0x))\n}\n',
    # empty literals of a string type that gets no terminator, inline and in a text poryswitch next to a `_` case
    'script Demo {\n  lock\n  bufferstring(STR_VAR_1, custom"")\n  msgbox("Hello")\n  msgbox(format(custom"  "))\n  release\n}\ntext Greeting {\n  poryswitch(GAME) {\n    EN: "Hello"\n    RUBY: utf8""\n    _: "Fallback"\n  }\n}\ntext Empty { custom"" }\n',
    # table rows: label row between inline rows, `{` of an inline row on a later line than its condition
    "mapscripts MyMap_MapScripts {\n  MAP_SCRIPT_ON_FRAME_TABLE [\n    VAR_TEMP_0, 0 { lock  setvar(VAR_TEMP_0, 1)  release }\n    VAR_TEMP_0, 1: MyMap_OnFrame_Shared\n    VAR_TEMP_0, 2 { lockall  setvar(VAR_TEMP_0, 3)  releaseall }\n    // the body of the next entry opens on a line of its own\n    VAR_TEMP_2, 2\n    {\n      release\n    }\n  ]\n}\nscript MyMap_OnFrame_Shared { end }\n",
    # a body-less case directly before a mid-switch default with a body; trailing body-less cases with and without a default body, followed by another switch
    "script MyScript {\n  switch (var(VAR_X)) {\n    case 1:\n    default:\n      isdefault\n    case 2:\n      istwo\n  }\n  after\n}\nscript Two {\n  switch (var(VAR_KIND)) { case 1: first  case 2: }\n  switch (var(VAR_OTHER)) { case 5: five  case 6: six }\n}\nscript Three {\n  lock\n  switch (var(VAR_RESULT)) {\n    case 0:\n      msgbox(\"Zero\")\n    default:\n      msgbox(\"Other\")\n    case 7:\n    case 8:\n  }\n  release\n}\n",
    # a negated group whose first operand is a negated group, followed by further operands
    "script Demo { if (!(!(flag(FLAG_A)) && flag(FLAG_B))) { setflag(FLAG_HIT) } if (!(!(flag(FLAG_A)) || flag(FLAG_B) && !(var(VAR_C) == 1))) { x } }\n",
    # a statement poryswitch nested directly in a selected brace case that so far holds inline movements only
    "script Main {\n  lock\n  poryswitch(GAME) {\n    RUBY {\n      applymovement(1, moves(walk_up * 2, face_down))\n      poryswitch(V) { DE: msgbox(\"Hallo\")  _: msgbox(\"Hello\") }\n      waitmovement(0)\n    }\n    _: nop\n  }\n  release\n}\n",
    # an explicit step_end inside the selected case of a list poryswitch, with further steps behind the poryswitch
    "movement MyMovement {\n  walk_up\n  poryswitch(GAME) {\n    RUBY { walk_left step_end }\n    _ { walk_right }\n  }\n  walk_down\n  walk_down * 3\n}\nscript S { a(moves(face_up poryswitch(GAME) { RUBY { jump_left step_end } _: jump_right } face_down * 2)) }\n",
    # exported / local text statements whose body is format()
    'text FormattedDefault { format("Hello there") }\ntext(global) FormattedGlobal { format("Hello again") }\ntext(local) FormattedLocal { format("Bye") }\nscript S { msgbox(format("Hello there")) }\n',
    # round 16: case values with leading zeros and numerically equal values in different spellings (each keeps its spelling and its
    # body, labels included); a label repeated across the cases of a statement poryswitch with different scope flags, the selected case
    # not being the first; a multi-line argument list whose continuation line starts with a keyword; moves() with several steps in a
    # colon-form case; a repeated poryswitch case value whose bodies differ in their inline data; `!autovar("text")`
    "script MyScript { switch (var(VAR_MODE)) { case 7: seven  case 010: eight  case 0x10: sixteen  case 10: ten case 00: zero case 8: realeight default: other }  after }\n",
    "script Demo {\n  switch (var(VAR_RESULT)) {\n    case 1:\n      msgbox(\"one\")\n    case 0x1:\n    Demo_Retry:\n      msgbox(\"again\")\n    case 01:\n    Demo_Third(global):\n      third\n    case 2:\n      goto(Demo_Retry)\n  }\n  release\n  end\n}\n",
    "script MyScript {\n  lock\n  poryswitch(GAME) {\n    SAPPHIRE {\n      goto(MyScript_Entry)\n    MyScript_Entry:\n      msgbox(\"sapphire\")\n    }\n    RUBY {\n      goto(MyScript_Entry)\n    MyScript_Entry(global):\n      msgbox(\"ruby\")\n    }\n    _ {\n    MyScript_Entry(local):\n      msgbox(\"other\")\n    }\n  }\n  poryswitch(V) { B { Again(global): b } A { Again: a } }\n  release\n}\n",
    "script S {\n  first\n  setfoo(VAR_A,\n    switch, 3)\n  setbar(\n    if, while\n    , do,\n    break, continue (\n    poryswitch ))\n  last(1)\n}\n",
    "script Walk {\n  lock\n  poryswitch(GAME) {\n    RUBY: applymovement(2, moves(walk_up * 2 face_down))\n    _: applymovement(2, moves(walk_left))\n  }\n  poryswitch(V) { A: msgbox(\"a\" \"b\") _: nop }\n  waitmovement(0)\n  release\n}\n",
    "script S {\n  poryswitch(GAME) {\n    RUBY { msgbox(\"first\") }\n    SAPPHIRE { msgbox(\"other\") }\n    RUBY: lock\n  }\n  msgbox(\"tail\")\n  poryswitch(V) {\n    A: lock\n    B { x }\n    A { msgbox(\"second\") applymovement(1, moves(walk_up)) }\n  }\n}\n",
    "script MyScript {\n  if (!askplayer(\"Do you want it?\\n\"\n      \"Say yes or no.\")) { msgbox(\"Too bad.\") }\n  if (askplayer(ascii\"Again?\")) { msgbox(\"Fine.\") }\n  while (!checkitem(ITEM_A, 1)) { w }\n}\n",
    "script CheckSlot { if (var(VAR_CHOICE) == 0x4000) { a } }\nscript CheckRaw { if (var(VAR_CHOICE) == value(0x4000)) { b } if (var(VAR_SEL) == VAR_TEMP_2 || var(VAR_SEL) == value(VAR_TEMP_2)) { c } }\n",
]

# ---------------------------------------------------------------------------------------------
# glue stream: small programs under the option / file-shape combinations that only main.go sees
# (line endings, first / last bytes of the file, stdin vs -i, -o, paths, -s values, -f / -l against
# per-font settings). Every case of this stream is ALWAYS part of the command line correspondence
# of every check, and goes through the ordinary correspondences like any other case.
GLUE_BODIES = [
    'script Main {\n\tlock\n\tmsgbox("Hi %d%% there")\n\trelease\n\tend\n}\n',
    'script Main {\n\tlock\n\tbreak\n}\n',
    'script Main {\n\tsetvar(VAR_A, N % 4)\n\taddvar(VAR_B, (S %d) % L, 1)\n}\n\nscript Other {\n\tif (flag(FLAG_A)) {\n\t\tcontinue\n\t}\n}\n',
    'text T {\n\tformat("aaaa bbbb cccc dddd", "sign")\n}\n\ntext U {\n\tformat("aaaa bbbb cccc dddd")\n}\n',
    'script S {\n\tmsgbox(format("aaaa bbbb cccc dddd eeee", fontId="sign"))\n\tmsgbox(format("aaaa bbbb cccc dddd eeee", "dialog", 30))\n}\n',
    'movement M {\n\tporyswitch(V) {\n\t\tA: walk_left\n\t\t_: walk_right\n\t}\n}\n\nmart Shop {\n\tITEM_A\n\tporyswitch(GAME) { RUBY { ITEM_R } _ { ITEM_X } }\n}\n',
    'script S {\n\tporyswitch(V) {\n\t\tA { msgbox("a") }\n\t\t_ { msgbox("other") }\n\t}\n}\n',
    'raw `\n\t.byte 1\n\t.byte 2\n`\n\nscript After {\n\tnop\n}\n',
    'const K = 3\nscript S {\n\tswitch (var(VAR_A)) {\n\t\tcase K: a\n\t\tcase 3: b\n\t}\n}\n',
    'mapscripts M {\n\tMAP_SCRIPT_ON_LOAD {\n\t\tlock\n\t}\n\tMAP_SCRIPT_ON_FRAME_TABLE [\n\t\tVAR_T, 1 { end }\n\t]\n}\n',
    'script S {\n\tif (checkitem(ITEM_A, 1) == TRUE) {\n\t\tyes\n\t}\n\tS_1:\n\tno\n}\n',
    'script Quiz {\n\tif (checkitem(ITEM_T) && msgbox(Quiz_Ready, MSGBOX_YESNO, VAR_TEMP_1) == YES) {\n\t\ta\n\t}\n\tdo {\n\t\tb\n\t} while (msgbox(Quiz_Again, MSGBOX_YESNO, VAR_TEMP_2) == YES)\n\tif (choosemon == 0xFF) {\n\t\tc\n\t}\n}\n',
    'script Coins {\n\tif (checkcoins(50) == TRUE) {\n\t\ta\n\t}\n\twhile (flag(F) && specialvar(VAR_TEMP_1, GetX) != 0) {\n\t\tb\n\t}\n\tswitch (random(9)) {\n\t\tcase 1: c\n\t}\n}\n',
    '', 'script', '# only a comment', 'script S {\n\tmsgbox("unterminated)\n}\n',
]
def gen_cli(rnd, n):
    out = []
    fonts = {"dialog": {"maxLineLength": 100, "numLines": 2, "cursorOverlapWidth": 0, "widths": {"default": 10}},
             "sign": {"maxLineLength": 50, "numLines": 3, "cursorOverlapWidth": 10, "widths": {"default": 10, " ": 5}}}
    for i in range(n):
        src = GLUE_BODIES[i % len(GLUE_BODIES)] if i < 2 * len(GLUE_BODIES) else rnd.choice(GLUE_BODIES)
        nl = rnd.choice(["\n", "\n", "\r\n", "\r\n", "\r", "\n\r"])
        if nl != "\n": src = src.replace("\n", nl)
        x = rnd.random()
        if x < 0.15: src = src.rstrip("\r\n")                       # no final line break
        elif x < 0.3: src = src.rstrip("\r\n") + "\r"               # cut between CR and LF
        elif x < 0.4: src = src + rnd.choice(["\n\n", "\r\n\r\n", " ", "\t\n", "\x00", "\x1a"])
        y = rnd.random()
        if y < 0.15: src = rnd.choice(["\n\n", "\r\n", "  ", "\t", "﻿", "\n \n"]) + src   # the file starts with blanks / a BOM
        sw = rnd.choice([{"V": "A", "GAME": "RUBY"}, {"V": "A=B", "GAME": "RUBY=EU"}, {"V": "", "GAME": "RUBY"}, {"V": "B", "GAME": ""}, {"V": "A B", "GAME": "=RUBY"}, {}, {"V": "A"}])
        # the bodies that look at a switch meet the unusual values in their two fixed passes, whatever the seed
        if "poryswitch(" in src and i < 2 * len(GLUE_BODIES):
            # (pass 0: V is cut wrongly at a second '=', GAME selects a named case, so a repeated -s must let the LAST
            # value win - the harness passes a decoy value first when the length of the source is a multiple of three)
            sw = [{"V": "A=B", "GAME": "RUBY"}, {"V": "A", "GAME": "RUBY=EU"}][i // len(GLUE_BODIES)]
            while len(src.encode("utf-8")) % 3: src += " "
        cfg = Cfg(optimize=rnd.random() < 0.5, lm=rnd.random() < 0.6, lint=False,
                  path=rnd.choice(["", "", "in.pory", "a b.pory", "Route%20101.pory", "%s%d.pory", "./x.pory", "d1/d2//y.pory", "é.pory", "dir\\sub\\f.pory"]),
                  deffont=rnd.choice(["", "", "sign", "dialog", "nope"]), maxlen=rnd.choice([0, 0, 0, 40, 1000]), switches=sw,
                  autovars=dict(AUTOVARS, msgbox=("", 2), yesnobox=("VAR_0x8005", None), **({"specialvar": ("VAR_RESULT", None), "checkcoins": ("VAR_RESULT", None)} if i % 3 == 0 else {"checkcoins": ("", 0), "random": ("", 0)} if i % 3 == 1 else {})), fontdefault=rnd.choice(["dialog", "dialog", "sign", ""]), fonts=fonts, nofc=rnd.random() < 0.12)
        out.append(Case(compile_line(cfg, src), src, cfg, {"mix": True, "glue": True}))
    return out
