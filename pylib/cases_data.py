"""Case generators and oracles for the data / front-end properties
C04 C06 C08 C09 C10 C12 C13 C14 C15 C16."""
import re
from proto import compile_line
from gen import G, base_cfg, script_src, p_block, relayout, AUTOVARS
from cases_ctrl import Case, goto_next_or_orphan
from stdcfg import repo_cfg
import sem

TEXT_TYPES = ["", "", "ascii", "braille", "custom", "JPN", "fixedString"]
SUFFIX = {"": "$", "ascii": "\\0", "braille": "$"}
WORDS = ["Hello", "world", "é", "ñandú", "{PLAYER}", "It's", "a", "b", "…", "Go!", "50%", "%s", "100%!"]

def terminated(content, typ):
    suf = SUFFIX.get(typ)
    if suf is None or content.endswith(suf): return content
    return content + suf

def gen_content(rnd, multiline=True):
    n = rnd.randint(0, 4)
    parts = [rnd.choice(WORDS) for _ in range(n)]
    s = " ".join(parts)
    if rnd.random() < 0.2: s += rnd.choice(["$", "\\0", "\\p", "\\n"])
    elif rnd.random() < 0.15: s += rnd.choice([" 110", "0", " LV. 50", "\\", "0$", "$0", " \\0", " \\h x"])   # look-alikes of terminators
    return s

def string_lit(rnd, content, typ, multipart=True):
    """Source form of a string with the given content (content lines separated by \\n become parts)."""
    return typ + " ".join('"%s"' % p for p in content.split("\n"))

def join_parts(parts):
    """The lexer joins the parts of a multi-part literal with a newline, but only once the text so
    far is non-empty."""
    value = ""
    for v in parts:
        if len(value) > 0: value += "\n"
        value += v
    return value

FMT_TEXTS = ["aaaa aaa aa aaa aa aaa aa aaa aa aaa aa aaa", "bb bbb bb bbb bbbb bb bbb bb bbb bbbb bb", "c cc ccc cccc ccccc cccccc ccccccc cc"]
FMT_FONT = {"maxLineLength": 60, "numLines": 2, "cursorOverlapWidth": 5, "widths": {"default": 5, " ": 3}}

class TopGen:
    """Whole files: scripts with inline texts / moves, texts, movements, marts, mapscripts, raw."""
    def __init__(self, rnd, tier="quick", clash=False, porywrap=False, plain=False, fmt=False, tconsts=False):
        self.clash = clash; self.porywrap = porywrap; self.expect_clash = None; self.plain = plain; self.srcs = []
        self.fmt = fmt; self.fmtcmds = {}; self.tconsts = tconsts; self.used_consts = False
        self.r = rnd; self.n = 0; self.textcmds = []   # (owner, cmdname, content, typ) in source order
        self.movecmds = []                               # (owner, cmdname, steps)
        self.items = []                                  # (kind, name, scope, payload)
        self.tier = tier
    def fresh(self, p):
        self.n += 1; return "%s%d" % (p, self.n)
    def decorate(self, body, owner):
        """Replace some plain commands by commands with inline text / moves() arguments."""
        r = self.r
        for i, st in enumerate(body):
            k = st[0]
            if k == "cmd" and r.random() < 0.35:
                name = self.fresh("tc")
                if self.fmt and r.random() < 0.3:
                    # format() of one of a few long texts under varying box parameters: the hoisted
                    # text is the text laid out for exactly these parameters
                    text = r.choice(FMT_TEXTS); nl = r.choice([None, None, 1, 2, 3]); ov = r.choice([None, None, 0, 12]); mx = r.choice([None, None, 40, 0x28, 75])
                    params = "".join([", numLines=%d" % nl if nl is not None else "", ", cursorOverlapWidth=%d" % ov if ov is not None else "",
                                      ", maxLineLength=%s" % r.choice([str(mx), hex(mx)]) if mx is not None else ""])
                    body[i] = ("cmd", '%s(format("%s"%s))' % (name, text, params), None)
                    self.textcmds.append((owner, name, None, ""))
                    self.fmtcmds[name] = (text, mx if mx else FMT_FONT["maxLineLength"], ov if ov else FMT_FONT["cursorOverlapWidth"], nl if nl else FMT_FONT["numLines"])
                elif r.random() < 0.7:
                    pool = ["shared text", "other", "x"] + (["KT_BASE", "KT_VAR"] if self.tconsts else [])
                    content = r.choice(pool) if r.random() < 0.5 else gen_content(r)
                    if content.startswith("KT_"): self.used_consts = True       # the text spells a constant's name: still text
                    if r.random() < 0.15 and content: content += "\nsecond line"
                    cont = None
                    if r.random() < 0.08:
                        w2 = r.choice(["#1 shop", "// not a comment", "/* nor this", "#", "*/ x"]); content = "Our%d %s" % (self.n, w2)
                        cont = '"Our%d\n          %s"' % (self.n, w2)
                    typ = r.choice(TEXT_TYPES)
                    pre_arg = "F(1, 2), " if r.random() < 0.2 else ""       # a comma inside parentheses before the text
                    body[i] = ("cmd", "%s(%s%s)" % (name, pre_arg, (typ + cont) if cont else string_lit(r, content, typ)), None)
                    self.textcmds.append((owner, name, terminated(content, typ), typ))
                else:
                    steps = [r.choice(["walk_up", "walk_down", "face_left"]) for _ in range(r.randint(0, 3))]
                    if r.random() < 0.2:      # step names ending in digits, runs that spell another step's name
                        steps = r.choice([["delay_1"] * 6, ["delay_16"], ["delay_1"] * 2, ["delay_12"], ["delay_1", "delay_16"], ["walk_up", "delay_1", "delay_1"]])
                    # near-duplicates of earlier lists: same list, or last step repeated once more / once less
                    if self.movecmds and r.random() < 0.5:
                        base = list(r.choice(self.movecmds)[2]); x = r.random()
                        if x < 0.3: steps = base
                        elif x < 0.65 and base: steps = base + [base[-1]]
                        elif base: steps = base[:-1]
                    src_steps = []
                    i2 = 0
                    while i2 < len(steps):          # print runs with a multiplier now and then
                        j = i2
                        while j + 1 < len(steps) and steps[j + 1] == steps[i2]: j += 1
                        if j > i2 and r.random() < 0.5: src_steps.append("%s * %d" % (steps[i2], j - i2 + 1))
                        else: src_steps += steps[i2:j + 1]
                        i2 = j + 1
                    body[i] = ("cmd", "%s(1, moves(%s))" % (name, " ".join(src_steps)), None)
                    self.movecmds.append((owner, name, steps))
            elif k == "if":
                arms = []
                for c, b in st[1]:
                    c2 = self.decorate_cond(c, owner)      # hoisting order: condition first, then body
                    self.decorate(b, owner); arms.append((c2, b))
                if st[2] is not None: self.decorate(st[2], owner)
                body[i] = ("if", arms, st[2])
            elif k == "while":
                c2 = self.decorate_cond(st[1], owner) if st[1] is not None else None
                self.decorate(st[2], owner); body[i] = ("while", c2, st[2])
            elif k == "do":
                self.decorate(st[1], owner); body[i] = ("do", st[1], self.decorate_cond(st[2], owner))
            elif k == "switch":
                for _, b in st[2]: self.decorate(b, owner)
    def decorate_cond(self, c, owner):
        """Sometimes turn a leaf into an auto-var command with an inline text argument (its text is
        hoisted like any other, in source order), wrapped in parentheses or not."""
        r = self.r; k = c[0]
        if k == "leaf":
            if r.random() < 0.12:
                self.n += 1; key = self.n
                content = r.choice(["shared text", "cond text", gen_content(r)]); typ = r.choice(TEXT_TYPES)
                self.textcmds.append((owner, "avtext:%d" % key, terminated(content, typ), typ))
                leaf = ("auto", "avtext(%d, %s)" % (key, string_lit(r, content, typ)), None, "VAR_RESULT", r.choice(["", "!", "op"]), r.choice(["==", "!=", "<"]), r.randint(0, 2))
                return ("paren", ("leaf", leaf)) if r.random() < 0.5 else ("leaf", leaf)
            return c
        if k in ("paren", "not"): return (k, self.decorate_cond(c[1], owner))
        return (k, self.decorate_cond(c[1], owner), self.decorate_cond(c[2], owner))
    def script(self, name=None, scope=None, inline=False):
        r = self.r
        name = name or self.fresh("Script")
        g = G(r, maxdepth=(2 if r.random() < 0.5 else 3) if self.tier == "quick" else 3, prefix=name + "_", scoped_labels=True)
        body = g.body()
        if r.random() < 0.2:
            # a body that ends in a loop left by break: the break returns from the script
            lp = rnd_loop = ("while", g.cond(0, 1), [g.cmd(), ("if", [(g.cond(0, 1), [("break",)])], None)])
            if r.random() < 0.5: lp = ("do", [g.cmd(), ("if", [(g.cond(0, 1), [("break",)])], None)], g.cond(0, 1))
            body.append(lp)
        if not self.plain: self.decorate(body, name)
        return name, scope, body, g.labels
    def gen(self, ntop=None):
        r = self.r; src = []
        for _ in range(ntop or r.randint(1, 5)):
            x = r.random(); scope = r.choice([None, None, "global", "local"]); sc = "(%s)" % scope if scope else ""
            if x < 0.45:
                name, _, body, labels = self.script()
                self.items.append(("script", name, scope, (body, labels)))
                inner = p_block(body, 1); w = r.random() if self.porywrap else 1.0
                # a statement-level poryswitch splices the selected case into the block (switch V=ZZ)
                if w < 0.2: inner = "  poryswitch(V) { A { other(\"never\") } _ {\n%s  } }\n" % inner
                elif w < 0.3: inner = "  poryswitch(V) { _: skip ZZ {\n%s  } }\n" % inner
                elif w < 0.45: inner = "  poryswitch(V) { _ { ph(\"phantom %d\") applymovement(9, moves(face_up jump_%d)) } ZZ {\n%s  } A { ph2(\"never\") } }\n" % (self.n, self.n, inner)
                src.append("script%s %s {\n%s}\n" % (sc, name, inner))
            elif x < 0.6 and not self.plain:
                name = self.fresh("Text"); typ = r.choice(TEXT_TYPES); content = gen_content(r)
                self.items.append(("text", name, scope, (terminated(content, typ), typ)))
                if r.random() < 0.25:       # the same text as the selected case of a poryswitch body (switch V=ZZ)
                    src.append("text%s %s {\n  poryswitch(V) { A: \"other\" ZZ { %s } _: \"fallback\" }\n}\n" % (sc, name, string_lit(r, content, typ)))
                else:
                    src.append("text%s %s {\n  %s\n}\n" % (sc, name, string_lit(r, content, typ)))
            elif x < 0.7:
                name = self.fresh("Move"); steps = [r.choice(["walk_up", "walk_down * 2", "face_left", "step_end"]) for _ in range(r.randint(0, 4))]
                self.items.append(("movement", name, scope, steps))
                src.append("movement%s %s {\n  %s\n}\n" % (sc, name, " ".join(steps)))
            elif x < 0.8:
                name = self.fresh("Mart"); its = [r.choice(["ITEM_A", "ITEM_B", "ITEM_NONE", "ITEM_C"]) for _ in range(r.randint(0, 4))]
                self.items.append(("mart", name, scope, its))
                src.append("mart%s %s {\n  %s\n}\n" % (sc, name, " ".join(its)))
            elif x < 0.9:
                name = self.fresh("Map") + ("_MapScripts" if r.random() < 0.4 else ""); ents = []; s = "mapscripts%s %s {\n" % (sc, name); used = set()
                for _ in range(r.randint(0, 3)):
                    typ = r.choice(["MAP_SCRIPT_ON_LOAD", "MAP_SCRIPT_ON_TRANSITION", "MAP_SCRIPT_ON_RESUME", "MAP_SCRIPT_ON_FRAME_TABLE", "MAP_SCRIPT_ON_WARP"])
                    if typ in used: continue
                    used.add(typ); y = r.random()
                    if y < 0.35:
                        tgt = "Ext_" + typ if r.random() < 0.7 else "Ext_shared"      # two entries may name the same script
                        inl = [e[2] for e in ents if e[0] == "inline"] + [rw[3] for e in ents if e[0] == "table" for rw in e[3] if rw[0] == "inline"]
                        if inl and r.random() < 0.5: tgt = r.choice(inl)     # ... or an inline script of this very statement, through its generated name
                        prev = [it[1] for it in self.items if it[0] == "script"]
                        if prev and r.random() < 0.3: tgt = r.choice(prev)   # ... or a script statement of this file (which keeps its own scope)
                        ents.append(("plain", typ, tgt)); s += "  %s: %s\n" % (typ, tgt)
                    elif y < 0.7:
                        owner = "%s_%s" % (name, typ); _, _, body, labels = self.script(name=owner)
                        ents.append(("inline", typ, owner, body, labels)); s += "  %s {\n%s  }\n" % (typ, p_block(body, 2))
                    else:
                        rows = []; s += "  %s [\n" % typ
                        for j in range(r.randint(0, 3) if r.random() < 0.9 else r.randint(11, 14)):      # now and then a long table
                            vsrc, vexp, csrc, cexp = "VAR_T", "VAR_T", str(j), str(j)
                            if self.tconsts and r.random() < 0.5:
                                # constants inside (multi-token) table variables and values
                                vsrc, vexp = r.choice([("KT_VAR", "VAR_T5"), ("KT_VAR + 1", "VAR_T5 + 1"), ("VAR_T", "VAR_T")])
                                csrc, cexp = r.choice([("KT_BASE + %d" % j, "10 + %d" % j), ("KT_BASE", "10"), ("( KT_BASE + 2 ) * %d" % j, "( 10 + 2 ) * %d" % j)])
                                self.used_consts = True
                            elif r.random() < 0.15:
                                vsrc, vexp, csrc, cexp = r.choice([("VAR_T", "VAR_T", "MAX(A, %d)" % j, "MAX ( A , %d )" % j), ("VAR_T", "VAR_T", "CLAMP(S, 1, (3))", "CLAMP ( S , 1 , ( 3 ) )"), ("VAR_T", "VAR_T", "%d %% 4" % (j + 5), "%d %% 4" % (j + 5)), ("VAR_T + S % 2", "VAR_T + S % 2", str(j), str(j)), ("VAR_T", "VAR_T", "%d", "% d")])
                            if r.random() < 0.5:
                                rtgt = "Ext_row%d" % j
                                inl = [e[2] for e in ents if e[0] == "inline"] + [rw[3] for rw in rows if rw[0] == "inline"]
                                if inl and r.random() < 0.4: rtgt = r.choice(inl)      # the generated name of an inline script of this statement
                                prev = [it[1] for it in self.items if it[0] == "script"]
                                if prev and r.random() < 0.2: rtgt = r.choice(prev)
                                rows.append(("plain", vexp, cexp, rtgt)); s += "    %s, %s: %s\n" % (vsrc, csrc, rtgt)
                            else:
                                owner = "%s_%s_%d" % (name, typ, j); _, _, body, labels = self.script(name=owner)
                                rows.append(("inline", vexp, cexp, owner, body, labels)); s += "    %s, %s {\n%s    }\n" % (vsrc, csrc, p_block(body, 3))
                        s += "  ]\n"; ents.append(("table", typ, "%s_%s" % (name, typ), rows))
                self.items.append(("mapscripts", name, scope, ents)); src.append(s + "}\n")
            else:
                self.n += 1
                txt = r.choice(["Raw_%d:\n\tnop\n\tend" % self.n, "@ just a comment", "RawData_%d:\n\t.byte 1" % self.n])
                self.items.append(("raw", None, None, txt)); src.append("raw `\n%s\n`\n" % txt)
        if self.clash and r.random() < 0.2:
            # a user-defined text / movement named like a generated label, before or after its script,
            # with other or with the very same content: always a compile error
            tl, ml = self.generated_labels()
            cands = [("text", l, c, t) for l, (c, t) in tl.items()] + [("movement", l, st, None) for l, st in ml.items()]
            if cands:
                kind, lab, payload, typ = r.choice(cands)
                if kind == "text":
                    content = payload if r.random() < 0.4 else "clash"
                    stmt = "text%s %s {\n  %s\n}\n" % (r.choice(["", "(global)", "(local)"]), lab, string_lit(r, content, typ if r.random() < 0.7 else ""))
                else:
                    steps = list(payload) if r.random() < 0.4 else ["walk_up"]
                    stmt = "movement %s {\n  %s\n}\n" % (lab, " ".join(steps))
                src.insert(r.randrange(len(src) + 1), stmt); self.expect_clash = lab
        if self.used_consts: src.insert(0, "const KT_VAR = VAR_T5\nconst KT_BASE = 10\nconst Ext_shared = 7\nconst Ext_row1 = 8\n")
        self.srcs = src
        return "\n".join(src)
    def generated_labels(self):
        """The hoisted labels this file must produce: label -> (content, type) / label -> steps."""
        counts = {}; assigned = {}; tl = {}
        fowners = {o for o, _, c, _ in self.textcmds if c is None}     # owners of format() texts: their numbering
        for owner, name, content, typ in self.textcmds:                 # depends on the formatted output, left out here
            if content is None or (content, typ) in assigned: continue
            assigned[(content, typ)] = True
            if owner in fowners: continue
            lab = "%s_Text_%d" % (owner, counts.get(owner, 0)); counts[owner] = counts.get(owner, 0) + 1
            tl[lab] = (content, typ)
        mcounts = {}; massigned = {}; ml = {}
        for owner, name, steps in self.movecmds:
            if tuple(steps) in massigned: continue
            lab = "%s_Movement_%d" % (owner, mcounts.get(owner, 0)); mcounts[owner] = mcounts.get(owner, 0) + 1
            massigned[tuple(steps)] = lab; ml[lab] = steps
        return tl, ml

def top_case(rnd, tier, cfgkw=None, ntop=None, clash=False, porywrap=False, fmt=False, tconsts=False):
    tg = TopGen(rnd, tier, clash=clash, porywrap=porywrap, fmt=fmt, tconsts=tconsts); src = tg.gen(ntop)
    cfgkw = dict(cfgkw or {})
    cfgkw.setdefault("switches", {"V": "ZZ"})
    if fmt: cfgkw.update(fontdefault="F1", fonts={"F1": FMT_FONT})
    if porywrap: cfgkw["switches"] = {"V": "ZZ"}
    cfg = base_cfg(**cfgkw)
    return Case(compile_line(cfg, src), src, cfg, {"top": tg})

# ---------------- C04 ----------------
F23_SRCS = ["script A { x }\nscript A { y }\n", "script A { x }\nmovement A { walk_up }\n", "mart A { ITEM_X }\nmart A { ITEM_Y }\n",
            "mapscripts M { MAP_SCRIPT_ON_LOAD { a } MAP_SCRIPT_ON_LOAD { b } }\n",
            'script A { msgbox("a") msgbox("b") }\nscript A_Text { if (flag(F)) { lock } release }\n']

# F25 (found by proving C15d.duplicate_label_statement): one label name written twice in a script body
F25_SRCS = ["script S { a L: b L: c }\n", "script S {\n a\n L:\n b\n if (flag(FLAG_1)) {\n L(global):\n c\n }\n}\n"]

def gen_C04(rnd, n, tier):
    out = [top_case(rnd, tier, {"optimize": rnd.random() < 0.5}) for _ in range(n)]
    # the recorded finding F23 stays in the stream: equal user names / a map script type used twice
    for src in F23_SRCS + F25_SRCS:
        tg = TopGen(rnd, tier); cfg = base_cfg()
        out.append(Case(compile_line(cfg, src), src, cfg, {"top": tg}))
    # a selected poryswitch case may end in `continue` / `break`: what follows the poryswitch in the
    # loop body (labels included) is still emitted
    for k in range(12):
        kw = rnd.choice(["continue", "break", "continue", "end", "return"]); sel = rnd.choice(["ZZ", "A"])
        loop = rnd.choice(["while (var(VAR_S) < 10) {", "do {", "while {"]); close = "} while (flag(FLAG_Q))" if loop == "do {" else "}"
        src = ("script Patrol%d {\n  %s\n    addvar(VAR_S, 1)\n    poryswitch(V) { %s { %s } _ { special(Check) } }\n  ReportIn%d:\n    msgbox(\"Nothing\")\n  %s\n  release\n}\n"
               "script Captain%d {\n  lock\n  goto(ReportIn%d)\n}\n") % (k, loop, sel, kw, k, close, k, k)
        cfg = base_cfg(switches={"V": "ZZ"}, optimize=rnd.random() < 0.5)
        out.append(Case(compile_line(cfg, src), src, cfg, {"top": TopGen(rnd, tier), "must_define": "ReportIn%d" % k}))
    return out

LABEL_DEF = re.compile(r"^([^\s:]+)(::?)$")

def asm_labels(text):
    defs = []; refs = []
    for ln in text.split("\n"):
        m = LABEL_DEF.match(ln)
        if m and not ln.startswith("\t"): defs.append(m.group(1)); continue
    return defs

def oracle_C04(case, res):
    if "must_define" in case.meta:
        if res["kind"] != "OK": return "valid program rejected: %s" % res.get("msg")
        n = res["text"].split("\n").count(case.meta["must_define"] + ":")
        if n != 1: return "label %s written in the script is defined %d times in the output" % (case.meta["must_define"], n)
    if res["kind"] != "OK": return None       # rejection of a generated program is C20/C18 business
    text = res["text"]; tg = case.meta["top"]
    defs = asm_labels(text)
    seen = set()
    for d in defs:
        if d in seen: return "label %s defined twice" % d
        seen.add(d)
    # generated references must resolve
    lines = text.split("\n")
    for ln in lines:
        m = re.match(r"^\t(goto|goto_if_eq|goto_if_ne|goto_if_lt|goto_if_le|goto_if_gt|goto_if_ge) (\S+)$", ln)
        tgt = None
        if m: tgt = m.group(2)
        m = re.match(r"^\t(goto_if_set|goto_if_unset|goto_if|case|map_script) [^,]+, (\S+)$", ln)
        if m: tgt = m.group(2)
        m = re.match(r"^\tmap_script_2 [^,]+, [^,]+, (\S+)$", ln)
        if m: tgt = m.group(1)
        if tgt is not None and tgt not in seen and not tgt.startswith("Ext_") and tgt != "EXT":
            return "reference to undefined label %s in %r" % (tgt, ln)
        m = re.match(r"^\ttc\d+ .*?(\w+_(Text|Movement)_\d+)$", ln)
        if m and m.group(1) not in seen: return "hoisted label %s undefined" % m.group(1)
    # user labels inside scripts still there exactly once
    def labels_of(item):
        k = item[0]
        if k == "script": return item[3][1]
        if k == "mapscripts":
            out = []
            for e in item[3]:
                if e[0] == "inline": out += e[4]
                if e[0] == "table":
                    for row in e[3]:
                        if row[0] == "inline": out += row[5]
            return out
        return []
    for it in tg.items:
        for l in labels_of(it):
            if defs.count(l) != 1: return "user label %s occurs %d times" % (l, defs.count(l))
    # no run-off: the last instruction before every following top-level label/data must not fall through
    e = runoff(text, tg)
    if e: return e
    return None

TERMINAL = re.compile(r"^\t(return|end|goto \S+)$")
def script_names(tg):
    names = []
    for it in tg.items:
        if it[0] == "script": names.append(it[1])
        if it[0] == "mapscripts":
            for e in it[3]:
                if e[0] == "inline": names.append(e[2])
                if e[0] == "table":
                    for row in e[3]:
                        if row[0] == "inline": names.append(row[3])
    return names

def runoff(text, tg):
    """Execution must not run past the end of a script: when a new script entry, a data label or
    a data directive begins, the last instruction of the preceding script code must be
    return / end / goto."""
    entries = set(script_names(tg)); incode = False; last = None
    users = set()
    for it in tg.items:
        if it[0] == "script": users |= set(it[3][1])
        if it[0] == "mapscripts":
            for e in it[3]:
                if e[0] == "inline": users |= set(e[4])
                if e[0] == "table":
                    for row in e[3]:
                        if row[0] == "inline": users |= set(row[5])
    for ln in text.split("\n"):
        if ln.startswith("# ") or not ln.strip(): continue
        m = LABEL_DEF.match(ln) if not ln.startswith("\t") else None
        if m:
            name = m.group(1)
            is_entry = name in entries or name.startswith("Raw_")
            is_sub = any(re.match(r"^%s_\d+$" % re.escape(e), name) for e in entries)
            is_user = name in users
            if is_entry or not (is_sub or is_user):
                if incode and last is not None and not TERMINAL.match(last):
                    return "execution can run past the end of a script: %r is followed by %r" % (last, ln)
                incode = is_entry; last = None
            continue
        if incode:
            if ln.startswith("\t.") or ln.startswith("\tmap_script"):
                if last is not None and not TERMINAL.match(last):
                    return "execution can run past the end of a script into data: %r is followed by %r" % (last, ln)
                incode = False; last = None
            elif ln.startswith("\t"): last = ln
    if incode and last is not None and not TERMINAL.match(last):
        return "execution can run past the end of the output after %r" % last
    return None

# ---------------- C06 ----------------
def gen_C06(rnd, n, tier):
    out = []
    for _ in range(n):
        c = top_case(rnd, tier, {"optimize": rnd.random() < 0.5}, ntop=rnd.randint(2, 5), clash=True, porywrap=True, fmt=True)
        out.append(c)
    return out

def text_blocks(text):
    """label -> (colons, [(directive, content)]) for every text-like block; movement blocks: label -> steps."""
    lines = text.split("\n"); texts = {}; moves = {}; cur = None
    for ln in lines:
        if ln.startswith("# "): continue
        m = LABEL_DEF.match(ln)
        if m and not ln.startswith("\t"):
            cur = m.group(1); continue
        m = re.match(r'^\t\.(\w+) "(.*)"$', ln)
        if m and cur is not None and m.group(1) not in ("byte", "2byte", "align"):
            texts.setdefault(cur, []).append((m.group(1), m.group(2))); continue
        if cur is not None and re.match(r"^\t(walk_\w+|face_\w+|delay_\d+|step_end)$", ln):
            moves.setdefault(cur, []).append(ln.strip()); continue
        if not ln.strip(): cur = None
    return texts, moves

def clash_verdict(case, res):
    tg = case.meta["top"]
    if tg.expect_clash is not None and res["kind"] == "OK":
        return "user-defined name %s equals a generated label, but the program was accepted" % tg.expect_clash
    return None

def oracle_C06(case, res):
    e = clash_verdict(case, res)
    if e: return e
    if res["kind"] != "OK": return None
    text = res["text"]; tg = case.meta["top"]
    texts, moves = text_blocks(text)
    ref = {}
    for ln in text.split("\n"):
        m = re.match(r"^\t(tc\d+) (?:1, |F \( 1, 2 \), )?(\S+)$", ln)
        if m: ref[m.group(1)] = m.group(2)
        m = re.match(r"^\tavtext (\d+), (\S*)$", ln)
        if m: ref["avtext:" + m.group(1)] = m.group(2)
    defs = asm_labels(text)
    counts = {}; assigned = {}
    for owner, name, content, typ in tg.textcmds:
        if name not in ref: continue          # command sits in code that is legitimately absent? never: report
        lab = ref[name]
        if content is None:
            # a format() text: its content is whatever the label holds - checked against the layout
            # rules for the parameters of THIS call; sharing / numbering then work on that content
            got = texts.get(lab, [])
            content = "\n".join(c for _, c in got)
            ftext, mx, ov, nl = tg.fmtcmds[name]
            if not content.endswith("$"): return "format() text of %s lost its terminator" % name
            from cases_misc import check_format
            e = check_format(ftext, mx, ov, nl, FMT_FONT["widths"], content[:-1])
            if e: return "format() text of %s (maxLineLength %d, cursorOverlapWidth %d, numLines %d): %s" % (name, mx, ov, nl, e)
        key = (content, typ)
        if key in assigned:
            if assigned[key] != lab: return "same text %r has two labels %s / %s" % (key, assigned[key], lab)
        else:
            if lab in assigned.values(): return "label %s shared by different contents" % lab
            want = "%s_Text_%d" % (owner, counts.get(owner, 0)); counts[owner] = counts.get(owner, 0) + 1
            if lab != want: return "text of %s got label %s, expected %s" % (name, lab, want)
            assigned[key] = lab
        if defs.count(lab) != 1: return "hoisted label %s defined %d times" % (lab, defs.count(lab))
        got = texts.get(lab, [])
        directive = typ if typ else "string"
        want_lines = [(directive, l) for l in content.split("\n")]
        if got != want_lines: return "label %s holds %r, expected %r" % (lab, got, want_lines)
    for owner, name, content, typ in tg.textcmds:
        if name not in ref: return "command %s with inline text vanished from the output" % name
    mcounts = {}; massigned = {}
    for owner, name, steps in tg.movecmds:
        if name not in ref: return "command %s with moves() vanished from the output" % name
        lab = ref[name]; key = tuple(steps)
        if key in massigned:
            if massigned[key] != lab: return "same movement has two labels"
        else:
            want = "%s_Movement_%d" % (owner, mcounts.get(owner, 0)); mcounts[owner] = mcounts.get(owner, 0) + 1
            if lab != want: return "moves of %s got label %s, expected %s" % (name, lab, want)
            massigned[key] = lab
        got = moves.get(lab, [])
        if got != list(steps) + ["step_end"]: return "movement %s holds %r, expected %r" % (lab, got, list(steps) + ["step_end"])
        if (lab + ":") not in text.split("\n"): return "hoisted movement label %s is not local" % lab
    return None

# ---------------- C08 ----------------
def gen_C08(rnd, n, tier):
    out = []
    for _ in range(n):
        tg = TopGen(rnd, tier)
        # force a mapscripts item: regenerate until there is one
        for _ in range(30):
            tg = TopGen(rnd, tier, tconsts=True); src = tg.gen(rnd.randint(1, 3))
            if any(i[0] == "mapscripts" for i in tg.items): break
        cfg = base_cfg(optimize=rnd.random() < 0.5)
        out.append(Case(compile_line(cfg, src), src, cfg, {"top": tg}))
    return out

def oracle_C08(case, res):
    if res["kind"] != "OK": return None
    text = res["text"]; tg = case.meta["top"]; lines = text.split("\n")
    defs = asm_labels(text)
    for it in tg.items:
        if it[0] != "mapscripts": continue
        name, scope, ents = it[1], it[2], it[3]
        head = name + (":" if scope == "local" else "::")
        if head not in lines: return "mapscripts header label %r missing" % head
        i = lines.index(head) + 1
        want = [("\tmap_script %s, %s" % (e[1], e[2])) for e in ents if e[0] in ("plain", "inline")]
        want += [("\tmap_script %s, %s" % (e[1], e[2])) for e in ents if e[0] == "table"]
        got = []
        while i < len(lines) and lines[i].startswith("\tmap_script "): got.append(lines[i]); i += 1
        if got != want: return "header of %s lists %r, expected %r" % (name, got, want)
        if lines[i] != "\t.byte 0": return "header of %s not terminated by .byte 0" % name
        for e in ents:
            if e[0] == "inline" and defs.count(e[2]) != 1: return "inline script %s emitted %d times" % (e[2], defs.count(e[2]))
            if e[0] == "inline" and (e[2] + ":") not in lines: return "inline script %s is not a local label" % e[2]
            if e[0] == "table":
                if (e[2] + ":") not in lines: return "table %s missing / not local" % e[2]
                j = lines.index(e[2] + ":") + 1; gotr = []
                while j < len(lines) and lines[j].startswith("\tmap_script_2 "): gotr.append(lines[j]); j += 1
                wantr = ["\tmap_script_2 %s, %s, %s" % (row[1], row[2], row[3]) for row in e[3]]
                if gotr != wantr: return "table %s lists %r, expected %r" % (e[2], gotr, wantr)
                if lines[j] != "\t.2byte 0": return "table %s not terminated by .2byte 0" % e[2]
                for row in e[3]:
                    if row[0] == "inline" and defs.count(row[3]) != 1: return "inline table script %s emitted %d times" % (row[3], defs.count(row[3]))
    return None

# ---------------- C09 ----------------
def gen_C09(rnd, n, tier):
    out = []
    for i in range(n):
        typ = rnd.choice(TEXT_TYPES + ["ascii", "braille"])
        nparts = rnd.choice([1, 1, 1, 2, 3])
        parts = []
        for _ in range(nparts):
            p = gen_content(rnd)
            if rnd.random() < 0.1: p = ""
            elif rnd.random() < 0.08: p = rnd.choice(["YES", "K_1", "FLAG_X", "Hello$", "msgbox"])
            elif rnd.random() < 0.12: p += rnd.choice([" ", "  ", "\t", " \t"])        # a part that ends in blanks
            parts.append(p)
        # newline + indentation inside a part becomes one space
        srcparts = []; vals = []
        for p in parts:
            if " " in p and p[p.index(" ") + 1:p.index(" ") + 2] not in ("", " ", "\t") and rnd.random() < 0.2:       # (blanks that start the continuation line are indentation)
                k = p.index(" "); ub = rnd.choice(["", "", "\u3000", "\u00a0"])      # a Unicode blank that starts the continuation line is text
                srcparts.append('"%s%s     %s%s"' % (p[:k], rnd.choice(["\n", "\n", "\r\n"]), ub, p[k + 1:])); vals.append(p[:k] + " " + ub + p[k + 1:])
            else: srcparts.append('"%s"' % p); vals.append(p)
        # Go joins parts with "\n" only when the text so far is non-empty
        value = ""
        for v in vals:
            if len(value) > 0: value += "\n"
            value += v
        lit = typ + rnd.choice([" ", "\n  ", "  "]).join(srcparts)
        origin = rnd.choice(["stmt", "inline", "pory", "pory_", "pair", "pair1", "format", "format"])
        cfg = base_cfg(switches={"V": "A"})
        # (format() normalises blanks: only texts that are already single-spaced come out unchanged)
        if origin == "format" and nparts > 1 and all(pt and "\\" not in pt and pt == " ".join(pt.split()) and sp == '"%s"' % pt for pt, sp in zip(parts, srcparts)):
            value = " ".join(parts)          # format() turns the line breaks between the parts into blanks
        elif origin == "format" and (nparts != 1 or "\\" in parts[0].replace("\\0", "").replace("\\h", "") or srcparts[0] != '"%s"' % parts[0] or parts[0] != " ".join(parts[0].split())): origin = "stmt"
        if origin == "format":
            # format() of a text that fits on one line leaves it alone; the terminator is still the type's
            cfg = base_cfg(switches={"V": "A"}, fontdefault="F1", fonts={"F1": {"maxLineLength": 100000, "numLines": 2, "cursorOverlapWidth": 0, "widths": {"default": 1}}})
            if rnd.random() < 0.5: src = "text T {\n  format(%s)\n}\n" % lit; label = "T"
            else: src = "script S {\n  msgbox(format(%s))\n}\n" % lit; label = "S_Text_0"
        elif origin == "pair1":
            # the same content under another string type earlier in the SAME command
            other = rnd.choice([t for t in ["", "ascii", "braille", "custom"] if t != typ])
            olit = other + " ".join(srcparts)
            src = "script S {\n  msgbox2(%s, %s)\n}\n" % (olit, lit); label = "S_Text_1"
        elif origin == "pair":
            # the same content under another string type earlier in the file must not capture this text
            other = rnd.choice([t for t in ["", "ascii", "braille", "custom"] if t != typ])
            olit = other + " ".join(srcparts)
            src = "script S {\n  first(%s)\n  msgbox(%s)\n}\n" % (olit, lit)
            label = "S_Text_1" if terminated(value, other) != terminated(value, typ) or other != typ else "S_Text_0"
            label = "S_Text_1"
        elif origin == "stmt": src = "text T {\n  %s\n}\n" % lit; label = "T"
        elif origin == "inline": src = "script S {\n  msgbox(%s)\n}\n" % lit; label = "S_Text_0"
        elif origin == "pory": src = "text T {\n  poryswitch(V) { A: %s _: \"other\" }\n}\n" % lit; label = "T"
        else: src = "text T {\n  poryswitch(V) { Q: \"other\" _ { %s } }\n}\n" % lit; label = "T"
        if re.fullmatch(r"[A-Za-z_]\w*\$?", value) and rnd.random() < 0.7:
            src = "const %s = %s\n" % (value.rstrip("$"), rnd.choice(["1", "VAR_9", "2 + 3"])) + src       # the text spells a constant's name: still text
        out.append(Case(compile_line(cfg, src), src, cfg, {"value": terminated(value, typ), "typ": typ, "label": label, "origin": origin}))
    return out

def oracle_C09(case, res):
    if res["kind"] != "OK": return "valid text rejected: %s" % res.get("msg")
    m = case.meta; texts, _ = text_blocks(res["text"])
    got = texts.get(m["label"])
    directive = m["typ"] if m["typ"] else "string"
    want = [(directive, l) for l in m["value"].split("\n")]
    if got != want: return "text %s emitted as %r, expected %r" % (m["label"], got, want)
    return None

# ---------------- C10 ----------------
ARG_ATOMS = ["VAR_A", "7", "-3", "0x1F", "FLAG_X", "+", "|", "TRUE", "var", "if", "*", "=", "0x1f", "0xdeadBEEF", "0xa", "VAR_0x8004", "global", "local", "%",
             "mart", "text", "script", "movement", "const", "switch", "case", "while", "do", "break", "continue", "elif", "else", "raw", "default", "mapscripts", "flag", "defeated", "value", "true", "FALSE", "~", "<=", "[", "]", "{", "}", ":", "!"]
def gen_arg(rnd, depth=0):
    n = rnd.randint(1, 3); toks = []
    for _ in range(n):
        if depth < 2 and rnd.random() < 0.2:
            inner = gen_arg(rnd, depth + 1); toks += ["("] + inner + [")"]
        else: toks.append(rnd.choice(ARG_ATOMS[:41]))
    return toks

F21_SRC = 'script S {\n  mixarg(FOO "a")\n  mixarg("a" ascii"b", 1)\n}\n'

def gen_C10(rnd, n, tier):
    out = []
    # the recorded finding F21 stays in the stream: an argument that mixes an inline text with other tokens
    cfg0 = base_cfg()
    out.append(Case(compile_line(cfg0, F21_SRC), F21_SRC, cfg0, {"want": ["\tmixarg FOO S_Text_0", "\tmixarg S_Text_0 S_Text_1, 1"], "texts": []}))
    for i in range(n):
        ncmd = rnd.randint(1, 5); stmts = []; want = []
        consts = {}
        pre = ""
        if rnd.random() < 0.3:
            consts = {"K_ONE": ["1"], "K_SUM": ["BASE", "+", "2"], "K_ALIAS": ["1"], "K_ALIAS2": ["1", "+", "1"]}
            pre = "const K_ONE = 1\nconst K_SUM = BASE + 2\nconst K_ALIAS = K_ONE\nconst K_ALIAS2 = K_ALIAS + K_ONE\n"
        ntext = 0; texts = []
        for j in range(ncmd):
            name = rnd.choice(["lock", "setvar", "c%d" % j, "giveitem", "end_x", "returnx", "END", "Return", "End", "GOTO", "Lock"])
            form = rnd.random()
            if form < 0.2: stmts.append(name); want.append("\t" + name)
            elif form < 0.3: stmts.append(name + "()"); want.append("\t" + name)
            else:
                args = [gen_arg(rnd) for _ in range(rnd.randint(1, 3))]
                if consts and rnd.random() < 0.5: args[0] = [rnd.choice(list(consts))]
                # a macro-like argument with a comma inside parentheses: the compiler splits at every comma
                if rnd.random() < 0.25: args.insert(rnd.randrange(len(args) + 1), ["MAKE", "(", "1", ",", "2", ")"])
                # an inline text argument (alone in its argument): replaced by its label
                tpos = None
                if rnd.random() < 0.35:
                    tpos = rnd.randrange(len(args) + 1); args.insert(tpos, None)
                sp = lambda ts: rnd.choice([" ", "  ", "\t", "\n    "]).join(ts)
                srcargs = []
                for a in args:
                    if a is None:
                        content = "text %d of %d" % (ntext, i); srcargs.append('"%s"' % content)
                    else: srcargs.append(sp(a))
                stmts.append("%s(%s)" % (name, rnd.choice([",", ", ", " ,\n "]).join(srcargs)))
                exp = []
                for a in args:
                    if a is None:
                        exp.append("S_Text_%d" % ntext); texts.append("text %d of %d$" % (ntext, i)); ntext += 1; continue
                    cur = []
                    for t in a:
                        if t == ",": exp.append(" ".join(cur)); cur = []
                        else: cur += consts.get(t, [t])
                    exp.append(" ".join(cur))
                want.append("\t%s %s" % (name, ", ".join(exp)))
        body = "\n  ".join(stmts)
        wrap = rnd.random()
        cfg = base_cfg(switches={"V": "ZZ"})
        if wrap < 0.15: body = "poryswitch(V) { A { other(1) } _ {\n  %s\n  } }" % body       # the '_' case is selected
        elif wrap < 0.25: body = "poryswitch(V) { _: skip ZZ {\n  %s\n  } }" % body
        src = pre + "script S {\n  " + body + "\n}\n"
        out.append(Case(compile_line(cfg, src), src, cfg, {"want": want, "texts": texts}))
        if i % 5 == 0 and len(stmts) >= 2 and not texts:
            # the same commands spread around jumps: every one of them is emitted exactly once, also
            # the ones written after a break / continue-free jump or behind a label
            k = rnd.randint(1, len(stmts) - 1); a, b = stmts[:k], stmts[k:]
            shape = rnd.choice(["break", "switchbreak", "goto", "ifelse"])
            if shape == "break": body2 = "while (flag(F)) {\n  %s\n  break\n  %s\n}" % (a[0], "\n  ".join(a[1:] + b[:1])) + "\n  " + "\n  ".join(b[1:])
            elif shape == "switchbreak": body2 = "switch (var(VX)) {\n case 1:\n  %s\n  break\n  %s\n Lbl:\n  %s\n}" % ("\n  ".join(a), b[0], "\n  ".join(b[1:]))
            elif shape == "goto": body2 = "%s\n  goto(Lbl)\n  %s\n Lbl:\n  %s" % ("\n  ".join(a), b[0], "\n  ".join(b[1:]))
            else: body2 = "if (flag(F)) {\n  %s\n  end\n  %s\n} else {\n  %s\n}" % ("\n  ".join(a), b[0], "\n  ".join(b[1:]))
            src2 = pre + "script S {\n  " + body2 + "\n}\n"
            out.append(Case(compile_line(cfg, src2), src2, cfg, {"want": want, "texts": [], "scattered": shape}))
    # round 15 (appended, fixed): a constant whose value has several tokens, written next to a multiplicative operator,
    # is substituted token by token like everywhere else - no parentheses appear that nobody wrote
    pre = "const BASE = 10\nconst STRIDE = BASE + 2\nconst TWICE = STRIDE * 2\n"
    for op in ("*", "/", "%"):
        src = pre + "script S {\n  setvar(VAR_0x8002, STRIDE %s 3)\n  addvar(VAR_0x8003, 2 %s STRIDE, STRIDE)\n  x((STRIDE) %s STRIDE, TWICE %s TWICE)\n  y(1 + STRIDE %s 2 - STRIDE)\n}\n" % (op, op, op, op, op)
        want = ["\tsetvar VAR_0x8002, 10 + 2 %s 3" % op, "\taddvar VAR_0x8003, 2 %s 10 + 2, 10 + 2" % op, "\tx ( 10 + 2 ) %s 10 + 2, 10 + 2 * 2 %s 10 + 2 * 2" % (op, op), "\ty 1 + 10 + 2 %s 2 - 10 + 2" % op]
        cfg = base_cfg(switches={"V": "ZZ"})
        out.append(Case(compile_line(cfg, src), src, cfg, {"want": want, "texts": []}))
    return out

def oracle_C10(case, res):
    if res["kind"] != "OK": return "valid commands rejected: %s" % res.get("msg")
    lines = res["text"].split("\n")
    if "scattered" in case.meta:
        for w in set(case.meta["want"]):
            if lines.count(w) != case.meta["want"].count(w):
                return "command line %r occurs %d times in the output, %d times in the source" % (w, lines.count(w), case.meta["want"].count(w))
        return None
    want = ["S::"] + case.meta["want"] + ["\treturn", ""]
    if lines[:len(want)] != want: return "commands emitted as %r, expected %r" % (lines[:len(want)], want)
    texts, _ = text_blocks(res["text"])
    for k, t in enumerate(case.meta.get("texts", [])):
        if texts.get("S_Text_%d" % k) != [("string", t)]: return "inline text %d emitted as %r, expected %r" % (k, texts.get("S_Text_%d" % k), t)
    return None

# ---------------- C14 ----------------
def gen_C14(rnd, n, tier):
    out = []
    for i in range(n):
        if i % 8 == 3:
            # several moves() operands in one file, step names ending in digits, runs written with and
            # without a multiplier: every command gets a block holding exactly its own steps
            lists = []; cmds = []
            for k in range(rnd.randint(2, 4)):
                base = rnd.choice(["delay_1", "delay_16", "delay_11", "walk_up", "d", "d2"])
                steps = []; src = []
                for _ in range(rnd.randint(1, 3)):
                    nm = rnd.choice([base, base, "delay_1", "delay_16", "d"]); cnt = rnd.choice([1, 1, 2, 6, 11, 16])
                    if cnt > 1 and rnd.random() < 0.7: src.append("%s * %d" % (nm, cnt))
                    else: src += [nm] * cnt
                    steps += [nm] * cnt
                lists.append(steps); cmds.append("applymovement(%d, moves(%s))" % (k, " ".join(src)))
            if rnd.random() < 0.6:
                # a run whose name and count spell the name of another step, in otherwise equal lists
                nm = rnd.choice(["delay_1", "d", "walk_1"]); cnt = rnd.choice([2, 6, 16]); pre_ = rnd.choice([[], ["walk_up"], ["d"] * 2]); post = rnd.choice([[], ["face_left"]])
                la = pre_ + [nm] * cnt + post; lb = pre_ + ["%s%d" % (nm, cnt)] + post
                pr = lambda l: " ".join(l)
                sa = pr(pre_) + " %s * %d " % (nm, cnt) + pr(post)
                pair = [(la, sa), (lb, pr(lb))]
                if rnd.random() < 0.5: pair.reverse()
                for l, sr in pair:
                    cmds.append("applymovement(%d, moves(%s))" % (len(lists), sr)); lists.append(l)
            s = "script S {\n  %s\n}\n" % "\n  ".join(cmds)
            cfg = base_cfg(switches={"V": "A"})
            out.append(Case(compile_line(cfg, s), s, cfg, {"kind": "moves2", "lists": lists, "err": None}))
            continue
        if rnd.random() < 0.6:
            steps = []; src = []; err = None
            for _ in range(rnd.randint(0, 6)):
                st = rnd.choice(["walk_up", "walk_down", "face_left", "step_end", "delay_16"])
                if rnd.random() < 0.12:
                    # poryswitch-selected part; switch value is A: an explicitly empty selected case
                    # contributes nothing, a colon case one step, a brace case all its steps
                    kind = rnd.choice(["empty", "colon", "brace", "dup", "num"])
                    if kind == "dup": src.append("poryswitch(V) { A: walk_left B: walk_right * 2 A { dup_down * 2 face_left } 7: x }"); steps += ["dup_down", "dup_down", "face_left"]; src.append(rnd.choice(["", ","])); continue   # a repeated case: the later one counts
                    if kind == "num": src.append("poryswitch(N) { 1 { walk_left * 3 } 2 { num_down * 2 } _ { } }"); steps += ["num_down", "num_down"]; continue
                    if kind == "empty": src.append("poryswitch(V) { A {} B { walk_left * 3 } _ { walk_right * 2, delay_16 } }")
                    elif kind == "colon": src.append("poryswitch(V) { B: walk_left A: jump_up _: walk_right }"); steps.append("jump_up")
                    else: src.append("poryswitch(V) { _ { walk_right } A { jump_a jump_b * 2 } }"); steps += ["jump_a", "jump_b", "jump_b"]
                    if rnd.random() < 0.3: src.append(",")
                    continue
                if rnd.random() < 0.4:
                    mult, val = rnd.choice([("2", 2), ("1", 1), ("0x3", 3), ("010", 8), ("9999", 9999), ("0", None), ("10000", None), ("-2", None), ("0x", None), ("09", None), ("3", 3),
                                                  ("-0x3", None), ("-0x0", None), ("-1", None), ("0X3", None), ("+2", None), ("65536", None), ("65537", None), ("0x10001", None), ("75535", None), ("4294967297", None), ("9223372036854775807", None), ("0x7fffffffffffffff", None)])
                    src.append("%s * %s" % (st, mult))
                    if val is None:
                        if err is None: err = mult
                    else: steps += [st] * val
                else: src.append(st); steps.append(st)
                if rnd.random() < 0.3: src.append(",")
            inline = rnd.random() < 0.4
            if inline: s = "script S {\n  applymovement(1, moves(%s))\n}\n" % " ".join(src); label = "S_Movement_0"
            else: s = "movement M {\n  %s\n}\n" % " ".join(src); label = "M"
            exp = []
            for st in steps:
                exp.append(st)
                if st == "step_end": break
            if not exp or exp[-1] != "step_end": exp.append("step_end")
            cfg = base_cfg(switches={"V": "A", "N": "2"})
            out.append(Case(compile_line(cfg, s), s, cfg, {"kind": "movement", "label": label, "want": exp, "err": err}))
        else:
            items = [rnd.choice(["ITEM_A", "ITEM_B", "ITEM_NONE", "ITEM_C", "K_ITEM", "K_END", "PS_EMPTY", "PS_TWO", "K_MOD", "K_FMT", "PS_MOD"]) for _ in range(rnd.randint(0, 6))]
            srcitem = {"PS_EMPTY": "poryswitch(V) { A {} B { ITEM_X } _ { ITEM_Y ITEM_NONE } }",
                       "PS_TWO": "poryswitch(V) { B: ITEM_X _ { ITEM_P ITEM_Q } }", "PS_MOD": "poryswitch(V) { A: K_MOD _: ITEM_Z }"}
            s = "const K_ITEM = ITEM_K\nconst K_NONE = ITEM_NONE\nconst K_END = K_NONE\nconst K_MOD = ITEM_A + D % 5\nconst K_FMT = %d %s\nmart M {\n  " + " ".join(srcitem.get(i, i) for i in items) + "\n}\n"
            exp = []; flat = []
            for it in items:
                if it == "PS_EMPTY": continue            # switch value A selects the empty brace case
                if it == "PS_TWO": flat += ["ITEM_P", "ITEM_Q"]
                elif it == "PS_MOD": flat.append("ITEM_A + D % 5")
                else: flat.append({"K_ITEM": "ITEM_K", "K_END": "ITEM_NONE", "K_MOD": "ITEM_A + D % 5", "K_FMT": "% d % s"}.get(it, it))
            for it in flat:
                if it == "ITEM_NONE": break
                exp.append(it)
            exp.append("ITEM_NONE")
            cfg = base_cfg(switches={"V": "A"})
            out.append(Case(compile_line(cfg, s), s, cfg, {"kind": "mart", "label": "M", "want": exp, "err": None}))
    return out

def oracle_C14(case, res):
    m = case.meta
    if m["err"] is not None:
        if res["kind"] != "PERR": return "multiplier %s outside 1..9999 / unparsable was accepted" % m["err"]
        return None
    if res["kind"] != "OK": return "valid list rejected: %s" % res.get("msg")
    lines = res["text"].split("\n")
    if m["kind"] == "moves2":
        seen = {}
        for k, steps in enumerate(m["lists"]):
            refs = [l for l in lines if l.startswith("\tapplymovement %d, " % k)]
            if len(refs) != 1: return "command %d emitted %d times" % (k, len(refs))
            lab = refs[0].split(", ")[1]
            if (lab + ":") not in lines: return "movement label %s not defined" % lab
            i = lines.index(lab + ":") + 1; got = []
            while i < len(lines) and lines[i].startswith("\t"): got.append(lines[i][1:]); i += 1
            if got != steps + ["step_end"]: return "moves() of command %d emitted as %r, expected %r" % (k, got, steps + ["step_end"])
            if seen.setdefault(lab, steps) != steps: return "different step lists share %s" % lab
        return None
    if m["kind"] == "movement":
        i = lines.index(m["label"] + ":") + 1; got = []
        while i < len(lines) and lines[i].startswith("\t"): got.append(lines[i][1:]); i += 1
        if got != m["want"]: return "movement emitted as %r, expected %r" % (got, m["want"])
    else:
        i = lines.index("M:")
        if i == 0 or lines[i - 1] != "\t.align 2": return "mart not preceded by .align 2"
        got = []; i += 1
        while i < len(lines) and lines[i].startswith("\t.2byte "): got.append(lines[i][8:]); i += 1
        if got != m["want"]: return "mart emitted as %r, expected %r" % (got, m["want"])
    return None

# ---------------- C15 ----------------
DEFAULT_GLOBAL = {"script": True, "text": True, "mapscripts": True, "movement": False, "mart": False}
def gen_C15(rnd, n, tier):
    return [top_case(rnd, tier, {"optimize": rnd.random() < 0.5}, ntop=rnd.randint(2, 6), clash=True) for _ in range(n)]

def oracle_C15(case, res):
    e = clash_verdict(case, res)      # an accepted clash would emit a name under the wrong scope
    if e: return e
    if res["kind"] != "OK": return None
    tg = case.meta["top"]; text = res["text"]; colons = {}
    for ln in text.split("\n"):
        m = LABEL_DEF.match(ln)
        if m and not ln.startswith("\t"): colons[m.group(1)] = m.group(2)
    def user_label_scopes(body, out):
        for st in body:
            if st[0] == "label": out[st[1]] = st[2]
            elif st[0] == "if":
                for _, b in st[1]: user_label_scopes(b, out)
                if st[2] is not None: user_label_scopes(st[2], out)
            elif st[0] == "while": user_label_scopes(st[2], out)
            elif st[0] == "do": user_label_scopes(st[1], out)
            elif st[0] == "switch":
                for _, b in st[2]: user_label_scopes(b, out)
    expected = {}
    for kind, name, scope, payload in tg.items:
        if kind == "raw": continue
        g = DEFAULT_GLOBAL[kind] if scope is None else (scope == "global")
        expected[name] = "::" if g else ":"
        bodies = []
        if kind == "script": bodies.append(payload[0])
        if kind == "mapscripts":
            for e in payload:
                if e[0] == "inline": expected[e[2]] = ":"; bodies.append(e[3])
                if e[0] == "table":
                    expected[e[2]] = ":"
                    for row in e[3]:
                        if row[0] == "inline": expected[row[3]] = ":"; bodies.append(row[4])
        for b in bodies:
            ul = {}; user_label_scopes(b, ul)
            for l, sc in ul.items(): expected[l] = "::" if sc == "global" else ":"
    for name, col in expected.items():
        if name in colons and colons[name] != col: return "label %s emitted with %r, expected %r" % (name, colons[name], col)
        if name not in colons: return "label %s missing" % name
    for name, col in colons.items():
        if name not in expected and not name.startswith("Raw_") and col != ":":
            return "generated label %s is exported" % name
    return None

# ---------------- C16 ----------------
def gen_C16(rnd, n, tier):
    out = []
    for i in range(n):
        tg = TopGen(rnd, tier); src0 = tg.gen(rnd.randint(1, 4))
        src = relayout(src0, rnd) if rnd.random() < 0.8 else src0
        if rnd.random() < 0.3: src = rnd.choice(["\n\n", "  \n", "\r\n", "\t", "# header\n\n", " ", "# 7 potions are handed out below\n", "# 100 percent\n\n", "#1 \"x.pory\"\n", "// 3 x\n"]) + src     # the file may start with blank lines / comments
        if rnd.random() < 0.2: src = src + rnd.choice(["\n\n\n", "  ", "\n# eof"])
        path = rnd.choice(["in.pory", "dir\\sub\\file.pory", "a b.pory", "", "Script1_2.pory", "data/Script2_1/Script1_3.pory", "Script1_1 Script1_4.pory", "Route%20101.pory", "%d_%s\\x.pory", "é \"q\".pory"])
        opt = rnd.random() < 0.5
        grp = []
        for lm in (True, False):
            cfg = base_cfg(optimize=opt, lm=lm, path=path)
            grp.append(Case(compile_line(cfg, src), src, cfg, {"lm": lm, "path": path}, group=i))
        out += grp
    return out

def oracle_C16_pair(con, ron, coff, roff):
    if ron["kind"] != roff["kind"]: return "line markers change acceptance: %s vs %s" % (ron["kind"], roff["kind"])
    if ron["kind"] != "OK": return None
    path = con.meta["path"]; esc = path.replace("\\", "\\\\")
    mk = re.compile(r'^# (\d+) "%s"$' % re.escape(esc))
    a = ron["text"].split("\n")
    if path == "":
        if ron["text"] != roff["text"]: return "markers emitted although no input path was given"
        return None
    stripped = "\n".join(l for l in a if not mk.match(l))
    if stripped != roff["text"]: return "removing the marker lines does not give the -lm=false output"
    srclines = con.src.split("\n"); nlines = len(srclines)
    for i, l in enumerate(a):
        m = mk.match(l)
        if not m: continue
        n = int(m.group(1)); nxt = a[i + 1] if i + 1 < len(a) else ""
        if not (1 <= n <= nlines): return "marker names line %d outside 1..%d (before %r)" % (n, nlines, nxt)
        sl = srclines[n - 1]; key = None
        mm = re.match(r"^\t(\S+)(?: (.*))?$", nxt)
        if mm:
            op, args = mm.group(1), (mm.group(2) or "")
            if op in ("goto_if_set", "goto_if_unset", "compare", "compare_var_to_value", "checktrainerflag", "switch", "case", "map_script", "map_script_2", ".2byte"):
                key = args.split(",")[0].strip().split(" ")[0]
            elif op.startswith("."): key = None
            else: key = op
        else:
            lm_ = re.match(r"^([^\s:]+)::?$", nxt)
            if lm_: key = None if re.search(r"_(Text|Movement)_\d+$", lm_.group(1)) else None
        if key in ("VAR_RESULT",): key = None
        if mm and mm.group(1) in ("compare", "compare_var_to_value", "switch") and re.search(r"\b(random|specialvar|checkitem|lastarg|choosemon|avtext)\b", sl): key = None      # an AutoVar operand carries the position of its command
        if key is not None and not re.search(r"(?<![\w])" + re.escape(key) + r"(?![\w])", sl):
            return "marker %d precedes %r, but source line %d is %r" % (n, nxt, n, sl)
    return None

# ---------------- C12 (poryswitch metamorphic) ----------------
VALS = ["A", "B", "C9", "7", "de"]
class Pory:
    def __init__(s, rnd): s.r = rnd; s.ncmd = 0
    def pory(s, kind, depth, gen_item, joiner):
        r = s.r
        cases = r.sample(VALS, r.randint(1, 3)); has_def = r.random() < 0.7
        keys = cases + (["_"] if has_def else []); r.shuffle(keys)
        if r.random() < 0.2: keys.append(r.choice(keys))        # a repeated case label: the later one counts
        parts = []; sel = {}
        for k in keys:
            brace = r.random() < 0.5
            n = (1 if kind == "text" else r.randint(0, 3)) if brace else 1
            items = [gen_item(depth + 1) for _ in range(n)]
            parts.append(("%s { %s }" if brace else "%s: %s") % (k, joiner.join(i[0] for i in items)))
            sel[k] = items
        w = "poryswitch(V) { %s }" % " ".join(parts)
        def selected(sw):
            items = sel.get(sw, sel.get("_"))
            if items is None: return None
            outs = [i[1](sw) for i in items]
            if any(o is None for o in outs): return None
            return joiner.join(outs)
        return w, selected
    def stmt_item(s, depth):
        r = s.r; x = r.random()
        if depth < 2 and x < 0.3: return s.pory("stmt", depth, s.stmt_item, " ")
        if x < 0.4:
            t = 'msgbox("t%d")' % r.randint(0, 3); return (t, lambda sw, t=t: t)
        if x < 0.5:
            t = 'msgbox(format("aaaa aaa aa aaa aa aaa aa aaa aa aaa", "1_latin_rse", 60%s))' % r.choice(["", ", numLines=3", ", numLines=1", ", cursorOverlapWidth=20"]); return (t, lambda sw, t=t: t)
        if x < 0.6:
            w, sl = s.pory("move", depth, s.move_item, " ")
            return ("applymovement(1, moves(a %s b))" % w, lambda sw, sl=sl: (None if sl(sw) is None else "applymovement(1, moves(a %s b))" % sl(sw)))
        if x < 0.7:
            b, bs = s.stmt_item(depth + 1)
            return ("if (flag(F)) { %s }" % b, lambda sw, bs=bs: (None if bs(sw) is None else "if (flag(F)) { %s }" % bs(sw)))
        if x < 0.78:
            t = "PL%s:" % r.choice("abc"); return (t, lambda sw, t=t: t)       # a label statement (also the only statement of a case; the same name in several cases)
        if x < 0.82:
            # a statement that the parser expands to two (auto-var command + switch), also as the single statement of a `key:` case
            t = r.choice(["switch (random(3)) { case 0: z0 case 1: z1 }", "switch (checkitem(ITEM_A, 1)) { case 1: z2 }", "if (checkitem(ITEM_B, 1)) { z3 }", "while (random(2) == 1) { z4 }"])
            return (t, lambda sw, t=t: t)
        if x < 0.86 and depth < 2:
            w = "switch (var(VAR_Q)) { case 0: poryswitch(V) { A: m0 B { } _: } case 1: m1 case 2: poryswitch(V) { A { } _: m2 } default: m3 }"
            return (w, lambda sw: "switch (var(VAR_Q)) { case 0: %s case 1: m1 case 2: %s default: m3 }" % ("m0" if sw == "A" else "", "" if sw == "A" else "m2"))
        if x < 0.87 and depth < 2:
            lp = r.choice(["while (flag(L)) { a %s }", "switch (var(VAR_Q)) { case 1: %s q1 case 2: q2 }"])
            w = lp % "poryswitch(V) { A: break 7: x7 de: x8 _: y9 }"
            return (w, lambda sw, lp=lp: lp % {"A": "break", "7": "x7", "de": "x8"}.get(sw, "y9"))
        if x < 0.88 and depth == 0:
            # `continue` / `break` spliced in by a case: followed by further statements of that case (invalid for A), or last (valid)
            kw = r.choice(["continue", "break"]); lp = r.choice(["while (flag(L)) { a %s }", "do { a %s } while (flag(L))"])
            w = lp % ("poryswitch(V) { A { %s after_a } B: b _ { %s } }" % (kw, kw))
            # (every case is parsed, so this program is rejected under every switch value - `None` = "must not compile";
            # for A the hand-selected program is rejected as well, and the oracle demands that both are)
            # (statements after a `break` are legal dead code: plain selection there)
            if kw == "break": return (w, lambda sw, lp=lp: lp % ({"A": "break after_a", "B": "b"}.get(sw, "break")))
            return (w, lambda sw, lp=lp, kw=kw: (lp % ("%s after_a" % kw)) if sw == "A" else None)
        s.ncmd += 1; t = "c%d(x, 1)" % s.ncmd; return (t, lambda sw, t=t: t)
    def move_item(s, depth):
        r = s.r
        if depth < 2 and r.random() < 0.25: return s.pory("move", depth, s.move_item, " ")
        t = r.choice(["walk_up", "walk_down * 2", "face_left"]); return (t, lambda sw, t=t: t)
    def mart_item(s, depth):
        r = s.r
        if depth < 2 and r.random() < 0.25: return s.pory("mart", depth, s.mart_item, " ")
        t = r.choice(["ITEM_A", "ITEM_B", "ITEM_NONE", "ITEM_C"]); return (t, lambda sw, t=t: t)
    def text_item(s, depth):
        t = s.r.choice(['"hello"', 'ascii"abc"', 'format("aa bb cc", "1_latin_rse", 20)', 'braille"x"', 'custom"zz"',
                        'format("aaaa aaa aa aaa aa aaa aa aaa aa aaa", "1_latin_rse", 60)', 'format("aaaa aaa aa aaa aa aaa aa aaa aa aaa", "1_latin_rse", 60, numLines=3)',
                        'format("aaaa aaa aa aaa aa aaa aa aaa aa aaa", "1_latin_rse", 60, numLines=1, cursorOverlapWidth=20)']); return (t, lambda sw, t=t: t)
    def program(s):
        r = s.r; tops_w = []; tops_s = []
        for _ in range(r.randint(1, 3)):
            x = r.random(); name = "N%d" % r.randint(0, 999)
            if x < 0.4:
                items = [s.stmt_item(0) for _ in range(r.randint(1, 3))]; fmtw = "script %s { %s }"
            elif x < 0.6:
                items = [s.move_item(0) for _ in range(r.randint(1, 3))]; fmtw = "movement %s { %s }"
            elif x < 0.8:
                items = [s.mart_item(0) for _ in range(r.randint(1, 3))]; fmtw = "mart %s { %s }"
            else:
                items = [s.pory("text", 0, s.text_item, " ")]; fmtw = "text %s { %s }"
            tops_w.append(fmtw % (name, " ".join(i[0] for i in items)))
            tops_s.append(lambda sw, items=items, name=name, fmtw=fmtw: None if any(i[1](sw) is None for i in items) else fmtw % (name, " ".join(i[1](sw) for i in items)))
        return "\n".join(tops_w), tops_s

F18_SRC = "script S { poryswitch(GAME) { RUBY { poryswitch(LANG) { GERMAN: msgbox(\"Hallo\") } } SAPPHIRE { msgbox(\"Hi\") } } }"
F18_SEL = "script S { msgbox(\"Hi\") }"

def gen_C12(rnd, n, tier):
    out = []
    cfg = repo_cfg(switches={"GAME": "SAPPHIRE", "LANG": "ENGLISH"}, optimize=True)
    out.append(Case(compile_line(cfg, F18_SRC), F18_SRC, cfg, {"role": "with", "sw": "SAPPHIRE", "unmatched": False}, group="F18"))
    out.append(Case(compile_line(cfg, F18_SEL), F18_SEL, cfg, {"role": "selected", "sw": "SAPPHIRE"}, group="F18"))
    for q, cnt in enumerate([33, 40, 70]):
        for sw in ["A", "ZZ"]:
            w = "".join('text T%d { poryswitch(V) { A: "a%d" B { "b%d" } _: "other%d" } }\n' % (k, k, k, k) for k in range(cnt)) + "script Last { poryswitch(V) { A: a _ { c } } }\n"
            sl = "".join('text T%d { "%s%d" }\n' % (k, "a" if sw == "A" else "other", k) for k in range(cnt)) + "script Last { %s }\n" % ("a" if sw == "A" else "c")
            cfg = repo_cfg(switches={"V": sw}, optimize=True)
            out.append(Case(compile_line(cfg, w), w, cfg, {"role": "with", "sw": sw, "unmatched": False}, group=("many", q, sw)))
            out.append(Case(compile_line(cfg, sl), sl, cfg, {"role": "selected", "sw": sw}, group=("many", q, sw)))
    for i in range(n):
        p = Pory(rnd); src_w, tops_s = p.program()
        # constants named like case labels or like the switch value: they never take part in case selection
        pre = rnd.choice(["", "", "const A = 1\nconst B = ZZ\n", "const ZZ = A\nconst C9 = B\n", "const V = B\n"])
        src_w = pre + src_w
        for sw in ["A", "B", "ZZ"] + ([""] if i % 3 == 0 else []) + (["de"] if i % 3 == 1 else []):
            sel = [f(sw) for f in tops_s]
            if pre and not any(x is None for x in sel): sel = [pre.rstrip("\n")] + sel
            cfg = repo_cfg(switches={"V": sw}, optimize=True)
            a = Case(compile_line(cfg, src_w), src_w, cfg, {"role": "with", "sw": sw, "unmatched": any(x is None for x in sel)}, group=(i, sw))
            out.append(a)
            if not a.meta["unmatched"]:
                s2 = "\n".join(sel)
                out.append(Case(compile_line(cfg, s2), s2, cfg, {"role": "selected", "sw": sw}, group=(i, sw)))
    return out

def oracle_C12_group(cases, results):
    w = [(c, r) for c, r in zip(cases, results) if c.meta["role"] == "with"][0]
    if w[0].meta["unmatched"]:
        if w[1]["kind"] == "OK": return "no case matches %s and there is no '_', but compilation succeeded" % w[0].meta["sw"]
        return None
    s = [(c, r) for c, r in zip(cases, results) if c.meta["role"] == "selected"][0]
    if s[1]["kind"] != "OK":
        # the hand-selected program is itself invalid. Numbering-dependent clashes aside there is nothing to compare -
        # but a misplaced continue / break is structural: the program with the poryswitch must be rejected as well
        if s[1]["kind"] == "PERR" and re.search(r"must be the last statement|outside of any", s[1].get("msg", "")) and w[1]["kind"] == "OK":
            return "the selected program is rejected (%s) but the program with the poryswitch compiles (switch V=%s)" % (s[1].get("msg"), w[0].meta["sw"])
        return None
    if w[1] != s[1]:
        return "output with poryswitch differs from output of the selected program (switch V=%s): %s" % (w[0].meta["sw"], w[1].get("msg", "texts differ"))
    return None

# ---------------- C13 (const metamorphic) ----------------
F24 = [("const K = 1 , 2\nscript S { setvar(K) }\n", "script S { setvar(1 , 2) }\n"),
       ("const K = ( 1 )\nscript S { switch (var(K)) { case 1: a } }\n", "script S { switch (var(( 1 ))) { case 1: a } }\n")]

def gen_C13(rnd, n, tier):
    out = []
    # the recorded finding F24 stays in the stream: constant values that contain a comma / a parenthesis
    for k, (a, b) in enumerate(F24):
        cfg = base_cfg()
        out.append(Case(compile_line(cfg, a), a, cfg, {"role": "const"}, group=("F24", k)))
        out.append(Case(compile_line(cfg, b), b, cfg, {"role": "expanded"}, group=("F24", k)))
    for it in range(n):
        pool = ["K%d" % i for i in range(4)]
        if it % 4 == 1: pool = ["ÉTAGE", "K1", "ñ_k", "K3"]          # names that start with a non-ASCII letter
        if it % 4 == 2: pool = ["K_" + "A" * 29, "K_" + "B" * 30, "FLAG_HIDE_LITTLEROOT_TOWN_RIVAL_BEDROOM", "K" * 64]     # 31, 32, 39, 64 bytes
        names = pool[:rnd.randint(1, 4)]
        defs = {}; deflines = []
        for i, nme in enumerate(names):
            x = rnd.random()
            if x < 0.4: val = [str(rnd.randint(0, 9))]
            elif x < 0.6: val = ["FLAG_X%d" % i]
            elif x < 0.7 and i > 0: val = [rnd.choice(names[:i]), "+", "1"]
            elif x < 0.85 and i > 0: val = [rnd.choice(names[:i])]            # a pure alias of an earlier constant
            elif x < 0.93 and i + 1 < len(names): val = [rnd.choice(names[i + 1:]), "+", "1"]   # mentions a name that is only defined LATER: stays as written
            else: val = ["BASE", "+", "0x1%d" % i]
            deflines.append("const %s = %s" % (nme, " ".join(val)))
            exp = []
            for t in val: exp += defs.get(t, [t])
            defs[nme] = exp
        u = lambda: rnd.choice(names)
        tmpl = [
            lambda: "setvar(%s, %s)" % (u(), u()),
            lambda: "if (flag(%s)) { a }" % u(),
            lambda: "if (var(%s) == %s) { a }" % (u(), u()),
            lambda: "if (var(VX) >= value(%s)) { a }" % u(),
            lambda: "if (defeated(%s) && !flag(%s)) { a }" % (u(), u()),
            lambda: "while (var(%s) < %s + 1) { b }" % (u(), u()),
            lambda: "switch (var(%s)) { case %s: x case 99: y }" % (u(), u()),
            lambda: "if (random(%s) == %s) { r }" % (u(), u()),
            lambda: "applymovement(%s, moves(walk_up))" % u(),
            lambda: "foo((%s + 2) * %s)" % (u(), u()),
            lambda: "foo(%s (%s + 1), %s(3))" % (u(), u(), u()),
            lambda: "if (specialvar(%s, GetX) == %s) { q }" % (u(), u()),
            lambda: "switch (specialvar(%s, 7)) { case %s: s }" % (u(), u()),
            lambda: "bar(VAR_X, (%s) + %s 5)" % (u(), u()),
            lambda: "if (flag(FLAG_BASE + %s)) { a }" % u(),
            lambda: "if (var(VAR_BASE + %s) == %s) { a }" % (u(), u()),
            lambda: "if (!defeated(%s + 1) || flag(%s - BASE)) { a }" % (u(), u()),
            lambda: "switch (var(VAR_BASE + %s)) { case %s + 1: x }" % (u(), u()),
            # case values that coincide only after expansion: rejected with or without constants
            (lambda: (lambda k: "switch (var(VZ)) { case %s: x case 77: y case %s: z }" % (k, " ".join(defs[k])))(u())),
            (lambda: (lambda k: "switch (var(VZ)) { case %s: x case %s: z }" % (" ".join(defs[k]), k))(u())),
        ]
        stmts = [rnd.choice(tmpl)() for _ in range(rnd.randint(1, 5))]
        tops = ["script S { %s }" % " ".join(stmts)]
        single = [nme for nme in names if len(defs[nme]) == 1 and not defs[nme][0].isdigit()]
        if single and rnd.random() < 0.5: tops.append("mart M { ITEM_A %s ITEM_B }" % rnd.choice(single))
        if rnd.random() < 0.2:
            deflines.append("const K8 = ITEM_NONE"); defs["K8"] = ["ITEM_NONE"]
            tops.append("mart M2 { ITEM_A K8 ITEM_B }")
        if rnd.random() < 0.5: tops.append("mapscripts MS { T [ %s, %s: L1  %s + 1, 2 { z } ] }" % (u(), u(), u()))
        early = []
        if rnd.random() < 0.4:      # written BEFORE the definitions: not uses, stay as written
            early = [rnd.choice(["mart Early { ITEM_A %s ITEM_B }" % u(), "script EarlyS { setvar(%s, 1) if (flag(%s)) { a } }" % (u(), u()), "mapscripts EarlyM { T [ %s, 1: L0 ] }" % u()])]
        prog = "\n".join(early + deflines + tops)
        name_re = re.compile(r"(?<![\w])(%s)(?![\w])" % "|".join(re.escape(x) for x in sorted(defs, key=len, reverse=True)))
        expand = lambda s: name_re.sub(lambda m: " ".join(defs[m.group(0)]), s)
        prog2 = "\n".join(early + [expand(t) for t in tops])
        cfg = base_cfg()
        out.append(Case(compile_line(cfg, prog), prog, cfg, {"role": "const"}, group=it))
        out.append(Case(compile_line(cfg, prog2), prog2, cfg, {"role": "expanded"}, group=it))
        # non-sites
        k = names[0]
        prog3 = "\n".join(deflines + ["script %s { %s  %sx: goto(%s) }" % (k, k, k, k), "movement Mv { %s * 2 }" % k, 'text %s_t { "%s" }' % (k, k), 'text %s_u { "{%s}: hi {%s 15} {%s}$" }\nscript Sx { msgbox("{%s}") msgbox(format("{%s} x")) }' % (k, k, k, k, k, k)])
        out.append(Case(compile_line(cfg, prog3), prog3, cfg, {"role": "nonsite", "k": k}, group=(it, "n")))
        if it % 10 == 0:
            prog4 = "\n".join(deflines + ["const %s = 5" % k, "script S { a }"])
            out.append(Case(compile_line(cfg, prog4), prog4, cfg, {"role": "redef"}, group=(it, "r")))
        if it % 10 == 5:
            # a constant defined as itself (or two defined from each other) is legal, is not expanded
            # any further, never hangs - and cannot be redefined either
            idc = rnd.choice(["const SELF = SELF", "const PA = PB\nconst PB = PA"]); nm = "SELF" if "SELF" in idc else "PB"
            prog5 = idc + "\nscript S { setvar(VAR_X, %s) }" % nm
            out.append(Case(compile_line(cfg, prog5), prog5, cfg, {"role": "selfref", "want": "\tsetvar VAR_X, %s\n" % ("SELF" if nm == "SELF" else "PB")}, group=(it, "s")))
            prog6 = idc + "\nconst %s = 3\nscript S { setvar(VAR_X, %s) }" % (nm, nm)
            out.append(Case(compile_line(cfg, prog6), prog6, cfg, {"role": "redef"}, group=(it, "r2")))
    # round 15 (appended, own random stream): constants composed with multiplicative operators - in the definition of
    # another constant and at the use sites - expand token by token like sums do
    r2 = rnd.fork("c13mul")
    for it in range(max(9, n // 6)):
        op = ["*", "/", "%"][it % 3]; op2 = r2.choice(["*", "/", "%", "-"])
        defs = {"B0": [str(r2.randint(2, 9))]}; defs["S1"] = defs["B0"] + ["+", str(r2.randint(1, 5))]
        form = [["S1", op, "2"], ["3", op, "S1"], ["S1", op, "S1"]][(it // 3) % 3]      # no parentheses in values: F24
        exp = []
        for tk in form: exp += defs.get(tk, [tk])
        defs["A2"] = exp
        deflines = ["const B0 = %s" % defs["B0"][0], "const S1 = B0 + %s" % defs["S1"][2], "const A2 = %s" % " ".join(form)]
        tm = ["setvar(VAR_B, A2)", "addvar(VAR_C, S1 %s 3, S1)" % op2, "foo(2 %s S1, A2 %s A2)" % (op2, op), "if (var(VAR_C) == 3 %s S1 - 1) { a }" % op2,
              "switch (var(VAR_D)) { case A2: b case S1 %s 7: c }" % op2, "while (var(VAR_E) < S1 %s 2) { w }" % op, "if (flag(FLAG_BASE + A2)) { f }",
              "switch (specialvar(VAR_F, A2)) { case 1: s }", "if (var(VAR_G) >= value(A2)) { v }",
              # round 16: constants at a non-first position of a multi-token case value / comparison value / argument
              "switch (var(VAR_H)) { case B0: p case 1 + S1: q case B0 + A2: r case 2 %s B0 + B0: u }" % op2, "if (var(VAR_I) == 1 + B0 - S1) { i }", "bar(1 + B0, VAR_J + S1 + B0, (3) B0)"]
        k0 = r2.randint(0, len(tm) - 1); stmts = [tm[(k0 + j * 2) % len(tm)] for j in range(r2.randint(2, 5))]
        tops = ["script S { %s }" % " ".join(stmts), "mapscripts MS { T [ VAR_T, A2: L1  VAR_U, S1 %s 2 { z } ] }" % op]
        name_re = re.compile(r"(?<![\w])(B0|S1|A2)(?![\w])")
        prog = "\n".join(deflines + tops); prog2 = "\n".join(name_re.sub(lambda m: " ".join(defs[m.group(0)]), tp) for tp in tops)
        cfg = base_cfg()
        out.append(Case(compile_line(cfg, prog), prog, cfg, {"role": "const"}, group=("mul", it)))
        out.append(Case(compile_line(cfg, prog2), prog2, cfg, {"role": "expanded"}, group=("mul", it)))
    return out

def oracle_C13_group(cases, results):
    roles = {c.meta["role"]: (c, r) for c, r in zip(cases, results)}
    if "const" in roles:
        a = roles["const"][1]; b = roles["expanded"][1]
        if b["kind"] == "OK" and a != b: return "program with constants and its hand-expanded form compile differently"
        if b["kind"] == "PERR" and a["kind"] == "OK": return "the hand-expanded form is rejected (%s) but the program with constants is accepted" % b.get("msg")
    if "nonsite" in roles:
        c, r = roles["nonsite"]; k = c.meta["k"]
        if r["kind"] != "OK": return "non-site program rejected: %s" % r.get("msg")
        t = r["text"]
        if not re.search(r"^%s::" % k, t, re.M) or ("\t%s\n" % k) not in t or ('"%s$"' % k) not in t or ("%sx:" % k) not in t or ('"{%s}: hi {%s 15} {%s}$"' % (k, k, k)) not in t or ('"{%s}$"' % k) not in t or ('"{%s} x$"' % k) not in t:
            return "a constant rewrote a script name, command name, label, movement step or text"
    if "redef" in roles:
        if roles["redef"][1]["kind"] != "PERR": return "redefinition of a constant was accepted"
    if "selfref" in roles:
        c, r = roles["selfref"]
        if r["kind"] != "OK": return "a self-referential constant was rejected or did not terminate: %s %s" % (r["kind"], r.get("msg", ""))
        if c.meta["want"] not in r["text"]: return "a self-referential constant was expanded to something else: %r" % r["text"][:200]
    return None
