import PoryModel.Compile
/-
Specification layer, part 1: game-state worlds and the documented meaning of condition leaves.
-/
namespace Pory.Spec
open Pory

/-- History = the command lines executed so far (rendered text of each command). -/
abbrev Hist := List String

/-- A world answers every test after every history: an arbitrary function, i.e. "every outcome
of every flag / var / trainer test, chosen afresh after every command". -/
structure World where
  flag : Hist → String → Bool
  trainer : Hist → String → Bool
  /-- outcome of comparing var `v` with the (textual) value `x` : negative, zero, positive -/
  cmp : Hist → String → String → Int

/-- Documented meaning of a comparison operator on the sign of `var - value`. -/
def cmpHolds (op : TT) (d : Int) : Bool :=
  match op with
  | .EQ => d == 0
  | .NEQ => d != 0
  | .LT => d < 0
  | .LTE => d ≤ 0
  | .GT => d > 0
  | .GTE => d ≥ 0
  | _ => false

def isCmpOp (op : TT) : Bool :=
  op == .EQ || op == .NEQ || op == .LT || op == .LTE || op == .GT || op == .GTE

/-- Documented meaning of a leaf (`OpExpr` as the parser builds it): flag()/defeated() compare
with TRUE/FALSE, var() uses the written operator. -/
def leafHolds (w : World) (h : Hist) (e : OpExpr) : Bool :=
  match e.type with
  | .FLAG =>
    let v := w.flag h e.operand.lit
    let wantTrue := e.cmpValue == TT.TRUE.str
    if e.operator == .EQ then v == wantTrue else v != wantTrue
  | .DEFEATED =>
    let v := w.trainer h e.operand.lit
    let wantTrue := e.cmpValue == TT.TRUE.str
    if e.operator == .EQ then v == wantTrue else v != wantTrue
  | .VAR => cmpHolds e.operator (w.cmp h e.operand.lit e.cmpValue)
  | _ => false

end Pory.Spec
