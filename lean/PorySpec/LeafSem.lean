import PorySpec.Basic
/-
Meaning of the instructions a leaf test is rendered to (the engine's documented behaviour):
`goto_if_set/unset`, `compare` + `goto_if_xx`, `checktrainerflag` + `goto_if 0/1`.
-/
namespace Pory.Spec
open Pory Pory.Emit

/-- Registers the test instructions communicate through. -/
structure Regs where
  cmp : Int := 0              -- sign of the last `compare`
  trainer : Bool := false     -- result of the last `checktrainerflag`

/-- Run straight-line test lines; `some l` = a jump to `l` was taken, `none` = fell through. -/
def execTest (w : World) (h : Hist) : List Line → Regs → Option String
  | [], _ => none
  | .gotoIfSet f l :: r, g => if w.flag h f then some l else execTest w h r g
  | .gotoIfUnset f l :: r, g => if !w.flag h f then some l else execTest w h r g
  | .compare _ v x :: r, g => execTest w h r { g with cmp := w.cmp h v x }
  | .gotoIfCmp op l :: r, g => if cmpHolds op g.cmp then some l else execTest w h r g
  | .checkTrainerFlag t :: r, g => execTest w h r { g with trainer := w.trainer h t }
  | .gotoIfTrainer set l :: r, g => if g.trainer == set then some l else execTest w h r g
  | _ :: r, g => execTest w h r g

/-- What the engine's conditional-jump mnemonics mean (GBA script command reference). -/
def mnemonicMeaning : String → Option TT
  | "goto_if_eq" => some .EQ
  | "goto_if_ne" => some .NEQ
  | "goto_if_lt" => some .LT
  | "goto_if_le" => some .LTE
  | "goto_if_gt" => some .GT
  | "goto_if_ge" => some .GTE
  | _ => none

/-- A leaf as the parser can build it. -/
def WellFormedLeaf (e : OpExpr) : Prop :=
  (e.type = .VAR ∧ isCmpOp e.operator = true) ∨
  ((e.type = .FLAG ∨ e.type = .DEFEATED) ∧ (e.operator = .EQ ∨ e.operator = .NEQ) ∧
    (e.cmpValue = TT.TRUE.str ∨ e.cmpValue = TT.FALSE.str))

end Pory.Spec
