import PoryModel.Compile
/-
Specification layer, part 2: behaviour.

* `SWorld` — the most general game state: an arbitrary answer to every condition leaf and every
  `case` comparison after every history of executed commands ("every outcome of every test,
  chosen afresh after every command").
* the *source machine* `sstep` over the structured AST: the documented meaning of if / elif /
  else, while, condition-less while, do…while, break, continue, switch (shared, empty and
  default cases), early end / return, labels and gotos (a `goto` ends the current segment with
  outcome `jump`; every label is an entry point of its own segment);
* the *chunk-graph machine* `gstep` over the emitter's chunk table.
Commands are uninterpreted: executing one appends it to the history.
-/
namespace Pory.Sem
open Pory Pory.Emit

abbrev Hist := List Cmd

structure SWorld where
  /-- value of a condition leaf after a history -/
  test : Hist → OpExpr → Bool
  /-- does the switched operand equal this case value after a history -/
  caseEq : Hist → Tok → Tok → Bool

inductive Outcome
  | ret
  | end_
  | jump (args : List String)     -- a `goto(...)` command: leaves the segment
  | stuck (why : String)          -- ill-formed input (never reached from accepted programs)
  deriving Repr, DecidableEq

inductive Res (α : Type)
  | next (c : α)
  | fin (o : Outcome) (h : Hist)

/-- Commands that end execution of the segment. -/
def specialCmd (c : Cmd) : Option Outcome :=
  if c.name == "end" then some .end_
  else if c.name == "return" then some .ret
  else if c.name == "goto" then some (.jump c.args)
  else none

def runPre (h : Hist) : Option Cmd → Hist
  | none => h
  | some c => h ++ [c]

/-- Left-to-right short-circuit evaluation; an AutoVar leaf runs its command (one event)
immediately before its test. -/
def evalCond (w : SWorld) (h : Hist) : BoolExpr → Hist × Bool
  | .leaf e => let h' := runPre h e.preamble; (h', w.test h' e)
  | .bin l op r =>
    if op == .AND then
      match evalCond w h l with
      | (h1, true) => evalCond w h1 r
      | (h1, false) => (h1, false)
    else
      match evalCond w h l with
      | (h1, true) => (h1, true)
      | (h1, false) => evalCond w h1 r

def evalOpt (w : SWorld) (h : Hist) : Option BoolExpr → Hist × Bool
  | none => (h, true)
  | some c => evalCond w h c

inductive Frame
  | seq (rest : List Stmt)
  | whileF (sid : Nat) (c : Option BoolExpr) (b : List Stmt)
  | doF (sid : Nat) (c : BoolExpr) (b : List Stmt)
  | switchF (sid : Nat)

structure SCfg where
  cur : List Stmt
  K : List Frame
  h : Hist

def pushSeq (rest : List Stmt) (K : List Frame) : List Frame :=
  match rest with
  | [] => K
  | _ :: _ => .seq rest :: K

/-- The current block is exhausted. -/
def popK (w : SWorld) (h : Hist) : List Frame → Res SCfg
  | [] => .fin .ret h
  | .seq rest :: K => .next ⟨rest, K, h⟩
  | .whileF sid c b :: K =>
    match evalOpt w h c with
    | (h', true) => .next ⟨b, .whileF sid c b :: K, h'⟩
    | (h', false) => popK w h' K
  | .doF sid c b :: K =>
    match evalCond w h c with
    | (h', true) => .next ⟨b, .doF sid c b :: K, h'⟩
    | (h', false) => popK w h' K
  | .switchF _ :: K => popK w h K

def contRest (w : SWorld) (h : Hist) (rest : List Stmt) (K : List Frame) : Res SCfg :=
  match rest with
  | [] => popK w h K
  | _ :: _ => .next ⟨rest, K, h⟩

/-- Frames below the innermost frame with scope id `sid` (for `break`). -/
def unwindBreak (sid : Nat) : List Frame → Option (List Frame)
  | [] => none
  | .seq _ :: K => unwindBreak sid K
  | .whileF s c b :: K => if s = sid then some K else unwindBreak sid K
  | .doF s c b :: K => if s = sid then some K else unwindBreak sid K
  | .switchF s :: K => if s = sid then some K else unwindBreak sid K

/-- The loop frame with scope id `sid` and the frames below it (for `continue`). -/
def unwindContinue (sid : Nat) : List Frame → Option (Frame × List Frame)
  | [] => none
  | .seq _ :: K => unwindContinue sid K
  | .whileF s c b :: K => if s = sid then some (.whileF s c b, K) else unwindContinue sid K
  | .doF s c b :: K => if s = sid then some (.doF s c b, K) else unwindContinue sid K
  | .switchF _ :: K => unwindContinue sid K

/-- First arm of an elif chain whose condition holds (conditions evaluated in order). -/
def evalElifs (w : SWorld) (h : Hist) : List (BoolExpr × List Stmt) → Hist × Option (List Stmt)
  | [] => (h, none)
  | (c, b) :: r =>
    match evalCond w h c with
    | (h', true) => (h', some b)
    | (h', false) => evalElifs w h' r

/-- Body shared forward: the body of the first case from here on that has one. -/
def sharedBody : List SwitchCase → List Stmt
  | [] => []
  | (_, _, b) :: r => if b.length > 0 then b else sharedBody r

/-- Cases from the first non-default case whose value matches. -/
def matchCase (w : SWorld) (h : Hist) (operand : Tok) : List SwitchCase → Option (List SwitchCase)
  | [] => none
  | (v, isDefault, b) :: r =>
    if !isDefault && w.caseEq h operand v then some ((v, isDefault, b) :: r) else matchCase w h operand r

/-- Cases from the default case on. -/
def fromDefault : List SwitchCase → Option (List SwitchCase)
  | [] => none
  | (v, isDefault, b) :: r => if isDefault then some ((v, isDefault, b) :: r) else fromDefault r

/-- The body a switch runs. -/
def switchBody (w : SWorld) (h : Hist) (operand : Tok) (cases : List SwitchCase) : List Stmt :=
  match matchCase w h operand cases with
  | some cs => sharedBody cs
  | none =>
    match fromDefault cases with
    | some cs => sharedBody cs
    | none => []

/-- One step of the source machine. -/
def sstep (w : SWorld) (s : SCfg) : Res SCfg :=
  match s.cur with
  | [] => popK w s.h s.K
  | .cmd c :: rest =>
    match specialCmd c with
    | some o => .fin o s.h
    | none => .next ⟨rest, s.K, s.h ++ [c]⟩
  | .label .. :: rest => .next ⟨rest, s.K, s.h⟩
  | .ite _ c t elifs els :: rest =>
    match evalCond w s.h c with
    | (h', true) => .next ⟨t, pushSeq rest s.K, h'⟩
    | (h', false) =>
      match evalElifs w h' elifs with
      | (h'', some b) => .next ⟨b, pushSeq rest s.K, h''⟩
      | (h'', none) =>
        match els with
        | some eb => .next ⟨eb, pushSeq rest s.K, h''⟩
        | none => contRest w h'' rest s.K
  | .while_ _ sid c b :: rest =>
    match evalOpt w s.h c with
    | (h', true) => .next ⟨b, .whileF sid c b :: pushSeq rest s.K, h'⟩
    | (h', false) => contRest w h' rest s.K
  | .doWhile _ sid c b :: rest => .next ⟨b, .doF sid c b :: pushSeq rest s.K, s.h⟩
  | .brk _ sid :: _ =>
    match unwindBreak sid s.K with
    | none => .fin (.stuck "break outside its scope") s.h
    | some K' => popK w s.h K'
  | .cont _ sid :: _ =>
    match unwindContinue sid s.K with
    | none => .fin (.stuck "continue outside its loop") s.h
    | some (.doF s' c b, K') => .next ⟨b, .doF s' c b :: K', s.h⟩   -- back to the start of the loop
    | some (f, K') => popK w s.h (f :: K')
  | .switch_ _ sid operand cases :: rest =>
    match switchBody w s.h operand cases with
    | [] => contRest w s.h rest s.K
    | b :: bs => .next ⟨b :: bs, .switchF sid :: pushSeq rest s.K, s.h⟩

def siter (w : SWorld) : Nat → SCfg → Res SCfg
  | 0, s => .next s
  | n + 1, s =>
    match sstep w s with
    | .next s' => siter w n s'
    | .fin o h => .fin o h

/-! ### Chunk-graph machine -/

structure GCfg where
  k : Nat
  o : Nat
  h : Hist

def goto (d : Option Nat) (h : Hist) : Res GCfg :=
  match d with
  | none => .fin .ret h
  | some k => .next ⟨k, 0, h⟩

/-- First listed case whose value matches. -/
def firstCase (w : SWorld) (h : Hist) (operand : Tok) : List SwitchCaseBranch → Option Nat
  | [] => none
  | c :: r => if w.caseEq h operand c.value then some c.dest else firstCase w h operand r

def gstep (w : SWorld) (G : List Chunk) (g : GCfg) : Res GCfg :=
  match findChunk G g.k with
  | none => .fin (.stuck "no such chunk") g.h
  | some ch =>
    match ch.statements[g.o]? with
    | some (.cmd c) =>
      match specialCmd c with
      | some o => .fin o g.h
      | none => .next ⟨g.k, g.o + 1, g.h ++ [c]⟩
    | some (.label ..) => .next ⟨g.k, g.o + 1, g.h⟩
    | some _ => .fin (.stuck "compound statement inside a chunk") g.h
    | none =>
      match ch.branch with
      | .none =>
        match ch.returnID with
        | none => .fin (if ch.useEndTerminator then .end_ else .ret) g.h
        | some r => .next ⟨r, 0, g.h⟩
      | .jump d => .next ⟨d, 0, g.h⟩
      | .breakCtx d => goto d g.h
      | .leaf t e f =>
        let h' := runPre g.h e.preamble
        if w.test h' e then .next ⟨t, 0, h'⟩ else goto f h'
      | .switch_ operand cases dflt dest =>
        match firstCase w g.h operand cases with
        | some d => .next ⟨d, 0, g.h⟩
        | none =>
          match dflt with
          | some d => .next ⟨d, 0, g.h⟩
          | none => goto dest g.h

def giter (w : SWorld) (G : List Chunk) : Nat → GCfg → Res GCfg
  | 0, g => .next g
  | n + 1, g =>
    match gstep w G g with
    | .next g' => giter w G n g'
    | .fin o h => .fin o h

end Pory.Sem
