import PorySpec.Sem
/-
Specification layer, part 3: the compilation relation (CompCert `tr_stmt` style).

`Impl G cx k o ss ret` — in chunk table `G`, chunk `k` *from statement offset `o`* implements the
statement list `ss` and continues at return id `ret` (`none` = Go's −1), where `cx` gives the
break / continue target of every scope id. It mentions neither the worklist nor how ids were
chosen. `KImpl` relates a return id to a source continuation stack; `R` is the simulation
relation between source and graph configurations.
-/
namespace Pory.Sem
open Pory Pory.Emit

structure Ctx where
  brk : Nat → Option Nat      -- where `break` of scope `sid` goes (`none` = return)
  cont : Nat → Option Nat     -- where `continue` of loop `sid` goes

/-- Chunk `k` is an empty chunk that jumps to `d`. -/
def jumpChunk (G : List Chunk) (k d : Nat) : Prop :=
  ∃ ch, findChunk G k = some ch ∧ ch.statements = [] ∧ ch.branch = .jump d

/-- The chain of one-test chunks starting at `e` implements condition `c`: control reaches
`t` when it holds and `f` when it does not. -/
def ImplCond (G : List Chunk) : Nat → BoolExpr → Nat → Option Nat → Prop
  | e, .leaf x, t, f => ∃ ch, findChunk G e = some ch ∧ ch.statements = [] ∧ ch.branch = .leaf t x f
  | e, .bin a op b, t, f =>
    (op = .AND ∧ ∃ s eb, ImplCond G e a s f ∧ jumpChunk G s eb ∧ ImplCond G eb b t f) ∨
    (op = .OR ∧ ∃ fc eb, ImplCond G e a t (some fc) ∧ jumpChunk G fc eb ∧ ImplCond G eb b t f)

/-- Where the code after a compound statement lives: the return id itself when the statement
is last in its block, else a fresh chunk `p`. -/
structure PostOK (rest : List Stmt) (ret post : Option Nat) (p : Nat) : Prop where
  last : rest = [] → post = ret
  more : rest ≠ [] → post = some p

/-- Failure target of arm `i` of an if / elif chain: the entry of the next arm, or `elseTarget`. -/
def armFail (entries : List Nat) (elseTarget : Option Nat) (i : Nat) : Option Nat :=
  match entries[i + 1]? with
  | some e => some e
  | none => elseTarget

inductive Impl (G : List Chunk) (cx : Ctx) : Nat → Nat → List Stmt → Option Nat → Prop
  /-- block exhausted: the chunk ends here, no branch, continues at `ret` -/
  | nil {k o ret ch} :
      findChunk G k = some ch → ch.statements.length = o → ch.branch = .none → ch.returnID = ret →
      ch.useEndTerminator = false →
      Impl G cx k o [] ret
  /-- `end` / `return` as the last statement: the chunk was finalised with that terminator -/
  | endLast {k o ret ch c} :
      findChunk G k = some ch → ch.statements.length = o → ch.branch = .none → ch.returnID = none →
      (c.name = "end" ∨ c.name = "return") → ch.useEndTerminator = (c.name == "end") →
      Impl G cx k o [.cmd c] ret
  | cmd {k o c rest ret ch} :
      findChunk G k = some ch → ch.statements[o]? = some (.cmd c) →
      Impl G cx k (o + 1) rest ret → Impl G cx k o (.cmd c :: rest) ret
  | label {k o tok n g rest ret ch} :
      findChunk G k = some ch → ch.statements[o]? = some (.label tok n g) →
      Impl G cx k (o + 1) rest ret → Impl G cx k o (.label tok n g :: rest) ret
  /-- if / elif* / else?: `arms` = the conditional arms in order, `entries[i]` the entry chunk of
  arm i's condition, `bodies[i]` the chunk of its body -/
  | ite {k o tok c t elifs els rest ret ch post p} {entries bodies : List Nat} {elseId : Nat} {elseTarget : Option Nat} :
      findChunk G k = some ch → ch.statements.length = o → PostOK rest ret post p →
      (rest ≠ [] → Impl G cx p 0 rest ret) →
      entries.length = ((c, t) :: elifs).length → bodies.length = ((c, t) :: elifs).length →
      ch.branch = .jump (entries.headD 0) →
      (∀ i (hi : i < ((c, t) :: elifs).length), ∀ e b,
          entries[i]? = some e → bodies[i]? = some b →
          ImplCond G e (((c, t) :: elifs)[i]).1 b (armFail entries elseTarget i)) →
      (∀ i (hi : i < ((c, t) :: elifs).length), ∀ b,
          bodies[i]? = some b → Impl G cx b 0 (((c, t) :: elifs)[i]).2 post) →
      (els = none → elseTarget = post) →
      (∀ eb, els = some eb → elseTarget = some elseId) →
      (∀ eb, els = some eb → Impl G cx elseId 0 eb post) →
      Impl G cx k o (.ite tok c t elifs els :: rest) ret
  | whileInf {k o tok sid b rest ret ch hd post bId p} :
      findChunk G k = some ch → ch.statements.length = o → ch.branch = .jump hd →
      PostOK rest ret post p → (rest ≠ [] → Impl G cx p 0 rest ret) →
      cx.brk sid = post → cx.cont sid = some hd →
      Impl G cx bId 0 b (some hd) → jumpChunk G hd bId →
      Impl G cx k o (.while_ tok sid none b :: rest) ret
  | while_ {k o tok sid cc b rest ret ch hd post bId e0 p} :
      findChunk G k = some ch → ch.statements.length = o → ch.branch = .jump hd →
      PostOK rest ret post p → (rest ≠ [] → Impl G cx p 0 rest ret) →
      cx.brk sid = post → cx.cont sid = some hd →
      Impl G cx bId 0 b (some hd) → jumpChunk G hd e0 → ImplCond G e0 cc bId post →
      Impl G cx k o (.while_ tok sid (some cc) b :: rest) ret
  /-- do…while: enter the body first; `continue` goes to the body (start of the loop) -/
  | doWhile {k o tok sid cc b rest ret ch hd post bId e0 p} :
      findChunk G k = some ch → ch.statements.length = o → ch.branch = .jump bId →
      PostOK rest ret post p → (rest ≠ [] → Impl G cx p 0 rest ret) →
      cx.brk sid = post → cx.cont sid = some bId →
      Impl G cx bId 0 b (some hd) → jumpChunk G hd e0 → ImplCond G e0 cc bId post →
      Impl G cx k o (.doWhile tok sid cc b :: rest) ret
  | brk {k o tok sid rest ret ch p} :
      findChunk G k = some ch → ch.statements.length = o → ch.branch = .breakCtx (cx.brk sid) →
      (rest ≠ [] → Impl G cx p 0 rest ret) →
      Impl G cx k o (.brk tok sid :: rest) ret
  | cont {k o tok sid rest ret ch p} :
      findChunk G k = some ch → ch.statements.length = o → ch.branch = .breakCtx (cx.cont sid) →
      (rest ≠ [] → Impl G cx p 0 rest ret) →
      Impl G cx k o (.cont tok sid :: rest) ret
  /-- switch whose cases all have empty bodies: the switch chunk is an empty pass-through -/
  | switchEmpty {k o tok sid operand} {cases : List SwitchCase} {rest ret ch post swId sw p} :
      findChunk G k = some ch → ch.statements.length = o → ch.branch = .jump swId →
      PostOK rest ret post p → (rest ≠ [] → Impl G cx p 0 rest ret) →
      cx.brk sid = post →
      (∀ c ∈ cases, c.2.2 = []) →
      findChunk G swId = some sw → sw.statements = [] → sw.branch = .none → sw.returnID = post →
      sw.useEndTerminator = false →
      Impl G cx k o (.switch_ tok sid operand cases :: rest) ret
  /-- switch: `bodyIds0[i]` is the chunk of case i's own body (`none` iff it has none); the
  switch chunk's branch is the one the pure function `switchBranchOf` computes from them -/
  | switch_ {k o tok sid operand} {cases : List SwitchCase} {rest ret ch post swId sw} {bodyIds0 : List (Option Nat)} {emptyId p} :
      findChunk G k = some ch → ch.statements.length = o → ch.branch = .jump swId →
      PostOK rest ret post p → (rest ≠ [] → Impl G cx p 0 rest ret) →
      cx.brk sid = post →
      bodyIds0.length = cases.length →
      (∀ i (hi : i < cases.length), (bodyIds0[i]? = some none ↔ (cases[i]).2.2 = [])) →
      (∀ i (hi : i < cases.length), ∀ b, bodyIds0[i]? = some (some b) → Impl G cx b 0 (cases[i]).2.2 post) →
      (∃ c ∈ cases, c.2.2 ≠ []) →
      (cases.filter (·.2.1)).length ≤ 1 →          -- at most one `default` (the parser rejects two)
      (switchNeedsEmpty cases (propagateBack bodyIds0) = true → Impl G cx emptyId 0 [] post) →
      findChunk G swId = some sw → sw.statements = [] →
      sw.branch = switchBranchOf operand cases (propagateBack bodyIds0) emptyId post →
      Impl G cx k o (.switch_ tok sid operand cases :: rest) ret

/-- Header chunk `hd` tests the loop condition `c`: body chunk `bId` when it holds, `post` when not. -/
def HeaderOK (G : List Chunk) (hd : Nat) (c : Option BoolExpr) (bId : Nat) (post : Option Nat) : Prop :=
  match c with
  | none => jumpChunk G hd bId
  | some cc => ∃ e0, jumpChunk G hd e0 ∧ ImplCond G e0 cc bId post

/-- The return id `ret` implements the continuation stack `K`. -/
def KImpl (G : List Chunk) (cx : Ctx) : Option Nat → List Frame → Prop
  | ret, [] => ret = none
  | ret, .seq rest :: K => ∃ p ret', ret = some p ∧ Impl G cx p 0 rest ret' ∧ KImpl G cx ret' K
  | ret, .whileF sid c b :: K =>
    ∃ hd post bId, ret = some hd ∧ cx.brk sid = post ∧ cx.cont sid = some hd ∧
      Impl G cx bId 0 b (some hd) ∧ HeaderOK G hd c bId post ∧ KImpl G cx post K
  | ret, .doF sid c b :: K =>
    ∃ hd post bId, ret = some hd ∧ cx.brk sid = post ∧ cx.cont sid = some bId ∧
      Impl G cx bId 0 b (some hd) ∧ HeaderOK G hd (some c) bId post ∧ KImpl G cx post K
  | ret, .switchF sid :: K => cx.brk sid = ret ∧ KImpl G cx ret K

/-- The simulation relation. -/
def R (G : List Chunk) (cx : Ctx) (s : SCfg) (g : GCfg) : Prop :=
  s.h = g.h ∧ ∃ ret, Impl G cx g.k g.o s.cur ret ∧ KImpl G cx ret s.K

/-- Zero or more graph steps, on results. -/
inductive Star (w : SWorld) (G : List Chunk) : Res GCfg → Res GCfg → Prop
  | refl (r) : Star w G r r
  | step {g r} : Star w G (gstep w G g) r → Star w G (.next g) r

/-- One or more graph steps. -/
def Plus (w : SWorld) (G : List Chunk) (g : GCfg) (r : Res GCfg) : Prop := Star w G (gstep w G g) r

/-- Results match: both continue in related configurations, or both finish the same way with
the same history. -/
def Match (G : List Chunk) (cx : Ctx) : Res SCfg → Res GCfg → Prop
  | .next s, .next g => R G cx s g
  | .fin o h, .fin o' h' => o = o' ∧ h = h'
  | _, _ => False

end Pory.Sem
