import PoryModel.Compile
