import PoryModel.Compile
import PoryModel.AstDump
/-
Line-protocol driver for the model: one case per input line, one result per output line.
See harness/README.md for the protocol.
-/
open Pory Pory.Parser Pory.Emit

def hexDigit (n : Nat) : Char := if n < 10 then Char.ofNat (48 + n) else Char.ofNat (87 + n)

def hexEncode (s : String) : String :=
  let bs := s.toUTF8
  if bs.size == 0 then "-" else
  String.ofList (bs.toList.flatMap fun b => [hexDigit (b.toNat / 16), hexDigit (b.toNat % 16)])

def hexVal (c : Char) : Nat :=
  if '0' ≤ c && c ≤ '9' then c.toNat - 48
  else if 'a' ≤ c && c ≤ 'f' then c.toNat - 87
  else if 'A' ≤ c && c ≤ 'F' then c.toNat - 55 else 0

def hexDecodeBytes : List Char → ByteArray → ByteArray
  | a :: b :: r, acc => hexDecodeBytes r (acc.push (UInt8.ofNat (hexVal a * 16 + hexVal b)))
  | _, acc => acc

def hexDecode (h : String) : Option String :=
  if h == "-" then some "" else String.fromUTF8? (hexDecodeBytes h.toList ByteArray.empty)

structure Cfg where
  env : Env := {}
  opts : Opts := {}

def parseIntD (s : String) : Int := s.toInt?.getD 0

def addWidth (fonts : List (String × Fmt.Font)) (id key : String) (w : Int) : List (String × Fmt.Font) :=
  fonts.map fun (n, f) => if n == id then (n, { f with widths := f.widths ++ [(key, w)] }) else (n, f)

def applyCfgLine (c : Cfg) (line : String) : Cfg :=
  let d (h : String) : String := (hexDecode h).getD ""
  match line.splitOn " " with
  | ["opt", v] => { c with opts := { c.opts with optimize := v == "1" } }
  | ["lm", v] => { c with opts := { c.opts with lineMarkers := v == "1" } }
  | ["lint", v] => { c with env := { c.env with envErrors := v != "1" } }
  | ["path", h] => { c with opts := { c.opts with inputPath := d h } }
  | ["deffont", h] => { c with env := { c.env with defaultFontID := d h } }
  | ["maxlen", v] => { c with env := { c.env with maxLineLength := parseIntD v } }
  | ["sw", k, v] => { c with env := { c.env with switches := c.env.switches ++ [(d k, d v)] } }
  | ["autovar", n, vn, pos] =>
    let av : AutoVar := { varName := d vn, argPos := if pos == "-" then none else some (parseIntD pos) }
    { c with env := { c.env with autoVars := c.env.autoVars ++ [(d n, av)] } }
  | ["fontdefault", h] => { c with env := { c.env with fonts := { c.env.fonts with defaultFontID := d h } } }
  | ["font", id, mll, nl, cow] =>
    let f : Fmt.Font := { maxLineLength := parseIntD mll, numLines := parseIntD nl, cursorOverlapWidth := parseIntD cow }
    { c with env := { c.env with fonts := { c.env.fonts with fonts := c.env.fonts.fonts ++ [(d id, f)] } } }
  | ["width", id, k, w] =>
    { c with env := { c.env with fonts := { c.env.fonts with fonts := addWidth c.env.fonts.fonts (d id) (d k) (parseIntD w) } } }
  | _ => c

def parseCfg (hex : String) : Cfg :=
  match hexDecode hex with
  | none => {}
  | some txt => (txt.splitOn "\n").foldl applyCfgLine {}

def tokDump (t : Tok) : String :=
  s!"{t.type.str}/{hexEncode t.lit}/{t.line}/{t.endLine}/{t.startChar}/{t.endChar}/{t.startUtf8}/{t.endUtf8}"

/-- Keep one token of the final run of identical EOF tokens (see harness `lexCase`). -/
def trimFinalRun (ts : List Tok) : List Tok :=
  match ts.reverse with
  | [] => []
  | last :: rest => (last :: rest.dropWhile (· == last)).reverse

def resultLine : Result → String
  | .ok text => "OK " ++ hexEncode text
  | .parseError e =>
    s!"PERR {e.lineStart} {e.lineEnd} {e.charStart} {e.utf8Start} {e.charEnd} {e.utf8End} {hexEncode e.msg}"
  | .plainError msg => "EERR " ++ hexEncode msg
  | .outOfFuel w => "FUEL " ++ w
  | .panic w => "PANIC " ++ hexEncode w

def processLine (cache : String × Cfg) (line : String) : String × (String × Cfg) :=
  let getCfg (hc : String) : Cfg × (String × Cfg) :=
    if hc == cache.1 then (cache.2, cache) else let c := parseCfg hc; (c, (hc, c))
  match line.splitOn " " with
  | ["LEX", h] =>
    match hexDecode h with
    | none => ("BADINPUT", cache)
    | some src => ("TOKS " ++ ";".intercalate ((trimFinalRun (Lexer.lexAll src.toList)).map tokDump), cache)
  | ["FMT", hc, ht, mw, ov, hf, nl] =>
    match hexDecode ht, hexDecode hf with
    | some text, some fontID =>
      let (cfg, cache) := getCfg hc
      match Fmt.formatText cfg.env.fonts text.toList (parseIntD mw) (parseIntD ov) fontID (parseIntD nl) with
      | .ok out => ("OK " ++ hexEncode (String.ofList out), cache)
      | .error msg => ("ERR " ++ hexEncode msg, cache)
    | _, _ => ("BADINPUT", cache)
  | ["COMPILE", hc, hs] =>
    match hexDecode hs with
    | none => ("BADINPUT", cache)
    | some src =>
      let (cfg, cache) := getCfg hc
      let env := if cfg.env.envErrors then cfg.env else lintEnv cfg.env
      (resultLine (compile env cfg.opts src.toList), cache)
  | ["PARSE", hc, hs] =>
    match hexDecode hs with
    | none => ("BADINPUT", cache)
    | some src =>
      let (cfg, cache) := getCfg hc
      let env := if cfg.env.envErrors then cfg.env else lintEnv cfg.env
      match parseTokens env (Lexer.lexAll src.toList) with
      | .ok prog => ("AST " ++ hexEncode (AstDump.program prog), cache)
      | .error (.err e) => (resultLine (.parseError e), cache)
      | .error .outOfFuel => (resultLine (.outOfFuel "parser"), cache)
      | .error (.panic w) => (resultLine (.panic w), cache)
  | _ => ("BADLINE", cache)

partial def loop (hIn : IO.FS.Stream) (hOut : IO.FS.Stream) (cache : String × Cfg) : IO Unit := do
  let line ← hIn.getLine
  if line.isEmpty then return ()
  let line := String.ofList ((line.toList.reverse.dropWhile (fun c => c == '\n' || c == '\r')).reverse)
  let (res, cache) := processLine cache line
  hOut.putStrLn res
  loop hIn hOut cache

def main : IO Unit := do
  let hIn ← IO.getStdin
  let hOut ← IO.getStdout
  loop hIn hOut ("", {})
  hOut.flush
