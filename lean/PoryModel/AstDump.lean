import PoryModel.Compile
/-
Canonical dump of a parsed `Program` for the PARSE operation of the line protocol; the Go harness
(`harness/run/astdump.go`) prints the `ast.Program` of the real parser in the same format.
Scope ids (`sid`) are replaced by the pre-order number of the loop / switch statement inside its
script, exactly as the harness replaces pointers; command arguments are printed after the parser's
label patching (`patchedArgs`), which the Go parser performs in place.
Only the driver uses this file (no theorem mentions it).
-/
open Pory Pory.Parser Pory.Emit

namespace AstDump

def hexDigit (n : Nat) : Char := if n < 10 then Char.ofNat (48 + n) else Char.ofNat (87 + n)

def hx (s : String) : String :=
  let bs := s.toUTF8
  if bs.size == 0 then "-" else
  String.ofList (bs.toList.flatMap fun b => [hexDigit (b.toNat / 16), hexDigit (b.toNat % 16)])

def tok (t : Tok) : String :=
  s!"<{t.type.str}/{hx t.lit}/{t.line}/{t.endLine}/{t.startChar}/{t.endChar}/{t.startUtf8}/{t.endUtf8}>"

def toks (ts : List Tok) : String := "[" ++ String.join (ts.map tok) ++ "]"
def strs (ss : List String) : String := "[" ++ ",".intercalate (ss.map hx) ++ "]"
def b01 (b : Bool) : String := if b then "1" else "0"

abbrev Patches := List ((Nat × Nat) × String)

def cmd (ps : Patches) (c : Cmd) : String :=
  s!"c({tok c.tok},{hx c.name},{strs (patchedArgs ps c)})"

partial def cond (ps : Patches) : BoolExpr → String
  | .leaf e =>
    let pre := match e.preamble with | some p => cmd ps p | none => "-"
    s!"L({tok e.operand},{e.operator.str},{hx e.cmpValue},{b01 e.strict},{e.type.str},{pre})"
  | .bin l op r => s!"B({cond ps l},{op.str},{cond ps r})"

/-- state: (sid ↦ number) and the next number -/
abbrev DM := StateM (List (Nat × Nat) × Nat)

def enter (sid : Nat) : DM Nat := do
  let (m, n) ← get
  set ((sid, n) :: m, n + 1)
  pure n

def target (sid : Nat) : DM String := do
  let (m, _) ← get
  pure (match m.lookup sid with | some k => toString k | none => "?")

mutual
partial def block (ps : Patches) (b : List Stmt) : DM String := do
  let mut s := "{"
  for st in b do
    s := s ++ (← stmt ps st)
  pure (s ++ "}")

partial def stmt (ps : Patches) : Stmt → DM String
  | .cmd c => pure (cmd ps c)
  | .label t name g => pure s!"l({tok t},{hx name},{b01 g})"
  | .ite t c body elifs els => do
    let b ← block ps body
    let mut es := ""
    for (ec, eb) in elifs do
      es := es ++ s!"e({cond ps ec},{← block ps eb})"
    let el ← match els with | some e => block ps e | none => pure "-"
    pure s!"i({tok t},{cond ps c},{b},[{es}],{el})"
  | .while_ t sid c body => do
    let k ← enter sid
    let cs := match c with | some c => cond ps c | none => "-"
    pure s!"w({k},{tok t},{cs},{← block ps body})"
  | .doWhile t sid c body => do
    let k ← enter sid
    pure s!"d({k},{tok t},{cond ps c},{← block ps body})"
  | .brk t sid => do pure s!"b({tok t},{← target sid})"
  | .cont t sid => do pure s!"n({tok t},{← target sid})"
  | .switch_ t sid operand cases => do
    let k ← enter sid
    let mut cs := ""
    for (v, isDef, body) in cases do
      let vs := if isDef then "" else tok v
      cs := cs ++ s!"k({b01 isDef},{vs},{← block ps body})"
    pure s!"s({k},{tok t},{tok operand},[{cs}])"
end

def script (ps : Patches) (s : Script) : String :=
  let (b, _) := (block ps s.body).run ([], 0)
  s!"S({hx s.name},{s.scope.str},{b})"

def optScript (ps : Patches) : Option Script → String
  | some s => script ps s
  | none => "-"

def top (ps : Patches) : Top → String
  | .script s => s!"TS({tok s.tok},{script ps s})"
  | .raw t v value => s!"TR({tok t},{tok v},{hx value})"
  | .text t => s!"TT({tok t.tok},{hx t.name},{hx t.value},{hx t.stringType},{b01 t.isGlobal})"
  | .movement m => s!"TM({tok m.tok},{hx m.name},{m.scope.str},{toks m.cmds})"
  | .mart t name tis items scope => s!"TA({tok t},{hx name},{scope.str},{toks tis},{strs items})"
  | .mapscripts m =>
    let ms := String.join (m.mapScripts.map fun x => s!"m({tok x.type},{hx x.name},{optScript ps x.script})")
    let ts := String.join (m.tables.map fun t =>
      let es := String.join (t.entries.map fun e =>
        s!"e({tok e.condition},{hx e.comparison},{hx e.name},{optScript ps e.script})")
      s!"t({tok t.type},{hx t.name},[{es}])")
    s!"TP({tok m.tok},{hx m.name},{m.scope.str},[{ms}],[{ts}])"

def program (p : Program) : String :=
  let tops := String.join (p.tops.map (top p.patches))
  let texts := String.join (p.texts.map fun t =>
    s!"X({hx t.name},{hx t.value},{hx t.stringType},{b01 t.isGlobal},{tok t.tok})")
  s!"P[{tops}][{texts}]"

end AstDump
