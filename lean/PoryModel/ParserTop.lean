import PoryModel.ParserStmts
/-
Parser model, part 4: top-level statements and `ParseProgram`.
-/
namespace Pory.Parser
open Pory

def defaultScopeOf (fn : String) : TT := (Facts.defaultScope.lookup fn).getD .GLOBAL

/-- `parseScriptStatement` -/
def parseScriptStatement (env : Env) (fuel : Nat) : PM (Script × ImpData) := do
  let tok ← cur
  let scope ← parseScopeModifier (defaultScopeOf "parseScriptStatement")
  if !(← expectPeek .IDENT) then
    fail (newRangeParseError (← cur) (← peek) "missing name for script")
  let nameTok ← cur
  if !(← expectPeek .LBRACE) then
    fail (newRangeParseError tok (← peek) s!"missing opening curly brace for script '{nameTok.lit}'")
  let braceToken ← cur
  nextToken
  let (body, imp) ← parseBlockStatement env nameTok.lit braceToken fuel [] {}
  return ({ tok := tok, name := nameTok.lit, body := body, scope := scope }, imp)

/-- `parseRawStatement` -/
def parseRawStatement : PM Top := do
  let tok ← cur
  if !(← expectPeek .RAWSTRING) then
    fail (newRangeParseError (← cur) (← peek) "raw statement must begin with a backtick character '`'")
  let v ← cur
  return .raw tok v v.lit

/-- `parseTextStatement` -/
def parseTextStatement (env : Env) (fuel : Nat) : PM Top := do
  let tok ← cur
  let scope ← parseScopeModifier (defaultScopeOf "parseTextStatement")
  if !(← expectPeek .IDENT) then
    fail (newRangeParseError tok (← peek) "missing name for text statement")
  let nameTok ← cur
  if !(← expectPeek .LBRACE) then
    fail (newRangeParseError tok (← peek) s!"missing opening curly brace for text '{nameTok.lit}'")
  nextToken
  let (strValue, strType) ←
    if (← curIs .PORYSWITCH) then parsePoryswitchTextStatement env fuel
    else parseTextValue env fuel
  let t : Text := { name := nameTok.lit, value := strValue, stringType := strType,
                    isGlobal := scope == .GLOBAL, tok := tok }
  modify fun s => { s with textStatements := s.textStatements ++ [t] }
  if !(← expectPeek .RBRACE) then
    let pk ← peek
    fail (newParseError pk s!"expected closing curly brace for text. Got '{pk.lit}' instead")
  return .text t

/-- `parseMovementStatement` -/
def parseMovementStatement (env : Env) (fuel : Nat) : PM Top := do
  let tok ← cur
  let scope ← parseScopeModifier (defaultScopeOf "parseMovementStatement")
  if !(← expectPeek .IDENT) then
    fail (newRangeParseError tok (← peek) "missing name for movement statement")
  let nameTok ← cur
  if !(← expectPeek .LBRACE) then
    fail (newRangeParseError tok (← peek) s!"missing opening curly brace for movement '{nameTok.lit}'")
  nextToken
  let cmds ← parseListValue env (.movement .RBRACE) true fuel []
  return .movement { tok := tok, name := nameTok.lit, cmds := cmds, scope := scope }

/-- `parseMartStatement` -/
def parseMartStatement (env : Env) (fuel : Nat) : PM Top := do
  let tok ← cur
  let scope ← parseScopeModifier (defaultScopeOf "parseMartStatement")
  if !(← expectPeek .IDENT) then
    fail (newRangeParseError tok (← peek) "missing name for mart statement")
  let nameTok ← cur
  if !(← expectPeek .LBRACE) then
    fail (newRangeParseError tok (← peek) s!"missing opening curly brace for mart '{nameTok.lit}'")
  nextToken
  let tokenItems ← parseListValue env .mart true fuel []
  let items ← tokenItems.mapM fun t => tryReplaceWithConstant t.lit
  return .mart tok nameTok.lit tokenItems items scope

/-- `sb` accumulation with single spaces (`if sb.Len() != 0 { sb.WriteByte(' ') }`). -/
def sbAdd (acc : String) (x : String) : String := (if acc.isEmpty then acc else acc ++ " ") ++ x

/-- Inner loops of a table entry: accumulate until `stop`, EOF check after each advance. -/
def tableCollect (stop : Tok → Bool) (onEOF : PFail) : Nat → String → PM String
  | 0, _ => fail .outOfFuel
  | n + 1, acc => do
    let c ← cur
    if stop c then return acc
    let v ← tryReplaceWithConstant c.lit
    nextToken
    if (← curIs .EOF) then fail onEOF
    tableCollect stop onEOF n (sbAdd acc v)

/-- Entries of one table map script: the `for p.curToken.Type != token.RBRACKET` loop. -/
def parseTableEntries (env : Env) (msName typeLit : String) :
    Nat → Nat → List TableEntry → ImpData → PM (List TableEntry × ImpData)
  | 0, _, _, _ => fail .outOfFuel
  | n + 1, i, acc, imp => do
    if (← curIs .RBRACKET) then return (acc, imp)
    let startToken ← cur
    let conditionValue ← tableCollect (fun t => t.type == .COMMA)
      (newParseError startToken "missing ',' to specify map script table entry comparison value") n ""
    if conditionValue.isEmpty then
      fail (newParseError startToken "expected condition for map script table entry, but it was empty")
    nextToken
    let endToken ← cur
    let comparisonValue ← tableCollect (fun t => t.type == .COLON || t.type == .LBRACE)
      (newRangeParseError startToken endToken "missing ':' or '{' to specify map script table entry") n ""
    let c ← cur
    if comparisonValue.isEmpty then
      fail (newRangeParseError startToken c "expected comparison value for map script table entry, but it was empty")
    let conditionToken := { startToken with lit := conditionValue }
    if c.type == .COLON then
      if !(← expectPeek .IDENT) then
        let pk ← peek
        fail (newParseError pk s!"expected map script label after ':', but got '{pk.lit}' instead")
      let e : TableEntry := { condition := conditionToken, comparison := comparisonValue,
                              name := (← cur).lit, script := none }
      nextToken
      parseTableEntries env msName typeLit n (i + 1) (acc ++ [e]) imp
    else
      -- LBRACE
      let braceToken := c
      nextToken
      let scriptName := s!"{msName}_{typeLit}_{i}"
      let (body, bimp) ← parseBlockStatement env scriptName braceToken n [] {}
      let e : TableEntry := { condition := conditionToken, comparison := comparisonValue,
                              name := scriptName,
                              script := some { tok := {}, name := scriptName, body := body, scope := .LOCAL } }
      nextToken
      parseTableEntries env msName typeLit n (i + 1) (acc ++ [e]) (imp.add bimp)

/-- The main loop of `parseMapscriptsStatement`. -/
def parseMapScriptEntries (env : Env) (msName : String) :
    Nat → List MapScript → List TableMapScript → ImpData →
    PM (List MapScript × List TableMapScript × ImpData)
  | 0, _, _, _ => fail .outOfFuel
  | n + 1, mss, tables, imp => do
    let c ← cur
    if c.type == .RBRACE then return (mss, tables, imp)
    if c.type != .IDENT then
      fail (newParseError c s!"expected map script type, but got '{c.lit}' instead")
    let typeTok := c
    nextToken
    let c ← cur
    if c.type == .COLON then
      if !(← expectPeek .IDENT) then
        let pk ← peek
        fail (newParseError pk s!"expected map script label after ':', but got '{pk.lit}' instead")
      let ms : MapScript := { type := typeTok, name := (← cur).lit, script := none }
      nextToken
      parseMapScriptEntries env msName n (mss ++ [ms]) tables imp
    else if c.type == .LBRACE then
      let braceToken := c
      nextToken
      let scriptName := s!"{msName}_{typeTok.lit}"
      let (body, bimp) ← parseBlockStatement env scriptName braceToken n [] {}
      let ms : MapScript := { type := typeTok, name := scriptName,
                              script := some { tok := {}, name := scriptName, body := body, scope := .LOCAL } }
      nextToken
      parseMapScriptEntries env msName n (mss ++ [ms]) tables (imp.add bimp)
    else if c.type == .LBRACKET then
      nextToken
      let (entries, eimp) ← parseTableEntries env msName typeTok.lit n 0 [] {}
      let t : TableMapScript := { type := typeTok, name := s!"{msName}_{typeTok.lit}", entries := entries }
      nextToken
      parseMapScriptEntries env msName n mss (tables ++ [t]) (imp.add eimp)
    else
      fail (newParseError c s!"expected ':', '[', or '\{' after map script type '{typeTok.lit}', but got '{c.lit}' instead")

/-- `parseMapscriptsStatement` -/
def parseMapscriptsStatement (env : Env) (fuel : Nat) : PM (MapScripts × ImpData) := do
  let scope ← parseScopeModifier (defaultScopeOf "parseMapscriptsStatement")
  let mapscriptsToken ← cur
  if !(← expectPeek .IDENT) then
    fail (newRangeParseError (← cur) (← peek) "missing name for mapscripts statement")
  let nameTok ← cur
  if !(← expectPeek .LBRACE) then
    fail (newRangeParseError mapscriptsToken (← peek) s!"missing opening curly brace for mapscripts '{nameTok.lit}'")
  nextToken
  let (mss, tables, imp) ← parseMapScriptEntries env nameTok.lit fuel [] [] {}
  return ({ tok := nameTok, name := nameTok.lit, mapScripts := mss, tables := tables, scope := scope }, imp)

/-- The value loop of `parseConstant`. -/
def constLoop : Nat → String → PM String
  | 0, _ => fail .outOfFuel
  | n + 1, acc => do
    let pk ← peek
    if Facts.topLevelTokens.contains pk.type || (← curIs .EOF) then return acc
    nextToken
    let v ← tryReplaceWithConstant (← cur).lit
    constLoop n (sbAdd acc v)

/-- `parseConstant` -/
def parseConstant (fuel : Nat) : PM Unit := do
  let initialToken ← cur
  if !(← expectPeek .IDENT) then
    let pk ← peek
    fail (newParseError pk s!"expected identifier after const, but got '{pk.lit}' instead")
  let nameTok ← cur
  let constName := nameTok.lit
  if ((← get).constants.lookup constName).isSome then
    fail (newParseError nameTok s!"duplicate const '{constName}'. Must use unique const names")
  if !(← expectPeek .ASSIGN) then
    fail (newParseError (← cur) s!"missing equals sign after const name '{constName}'")
  let equalsToken ← cur
  let value ← constLoop fuel ""
  if value.isEmpty then
    fail (newRangeParseError initialToken equalsToken s!"missing value for const '{constName}'")
  modify fun s => { s with constants := (constName, value) :: s.constants }

/-- `parseTopLevelStatement` -/
def parseTopLevelStatement (env : Env) (fuel : Nat) : PM (Option Top) := do
  let c ← cur
  match c.type with
  | .SCRIPT =>
    let (s, imp) ← parseScriptStatement env fuel
    addImplicitData imp
    return some (.script s)
  | .RAW => return some (← parseRawStatement)
  | .TEXT => return some (← parseTextStatement env fuel)
  | .MOVEMENT => return some (← parseMovementStatement env fuel)
  | .MART => return some (← parseMartStatement env fuel)
  | .MAPSCRIPTS =>
    let (m, imp) ← parseMapscriptsStatement env fuel
    addImplicitData imp
    return some (.mapscripts m)
  | .CONST =>
    parseConstant fuel
    return none
  | _ => fail (newParseError c s!"could not parse top-level statement for '{c.lit}'")

def topLoop (env : Env) (fuel : Nat) : Nat → List Top → PM (List Top)
  | 0, _ => fail .outOfFuel
  | n + 1, acc => do
    if (← curIs .EOF) then return acc
    let st ← parseTopLevelStatement env fuel
    nextToken
    topLoop env fuel n (match st with | some t => acc ++ [t] | none => acc)

/-- First text whose name already occurred earlier in the list. -/
def firstDuplicateText : List Text → List String → Option Text
  | [], _ => none
  | t :: r, seen => if seen.contains t.name then some t else firstDuplicateText r (t.name :: seen)

/-- Movement duplicate check: the error is reported at the *earlier* statement's token. -/
def firstDuplicateMovement : List Top → List (String × Tok) → Option (Tok × String)
  | [], _ => none
  | .movement m :: r, seen =>
    match seen.lookup m.name with
    | some t => some (t, m.name)
    | none => firstDuplicateMovement r ((m.name, m.tok) :: seen)
  | _ :: r, seen => firstDuplicateMovement r seen

/-- `ParseProgram` -/
def parseProgramM (env : Env) (fuel : Nat) : PM Program := do
  let tops ← topLoop env fuel fuel []
  let s ← get
  let texts := s.inlineTexts ++ s.textStatements
  match firstDuplicateText texts [] with
  | some t =>
    fail (newParseError t.tok s!"duplicate text label '{t.name}'. Choose a unique label that won't clash with the auto-generated text labels")
  | none => pure ()
  let tops := tops ++ s.inlineMovements.map Top.movement
  match firstDuplicateMovement tops [] with
  | some (tok, name) =>
    fail (newParseError tok s!"duplicate movement label '{name}'. Choose a unique label that won't clash with the auto-generated movement labels")
  | none => pure ()
  return { tops := tops, texts := texts, patches := s.patches }

/-- Run the parser on a token list (which ends with the lexer's final EOF token). -/
def parseTokens (env : Env) (toks : List Tok) : Except PFail Program :=
  let eof := toks.getLastD { type := .EOF }
  let fuel := 4 * toks.length + 50
  (parseProgramM env fuel).run' { toks := toks, eof := eof }

end Pory.Parser
