import PoryModel.EmitRender
/-
Structured lines → assembly text, exactly as the Go `Sprintf`s write it.
-/
namespace Pory.Emit
open Pory

def cmpOpcode (op : TT) : String := (Facts.varCompareOpcode.lookup op).getD ""

/-- `strings.ReplaceAll(path, "\\", "\\\\")` -/
def escapeBackslashes (s : String) : String :=
  String.ofList (s.toList.flatMap fun c => if c == '\\' then ['\\', '\\'] else [c])

def Line.render : Line → String
  | .labelDef n g => if g then n ++ "::\n" else n ++ ":\n"
  | .command n args => "\t" ++ n ++ (if args.length > 0 then " " ++ ", ".intercalate args else "") ++ "\n"
  | .goto_ l => "\tgoto " ++ l ++ "\n"
  | .gotoIfSet f l => "\tgoto_if_set " ++ f ++ ", " ++ l ++ "\n"
  | .gotoIfUnset f l => "\tgoto_if_unset " ++ f ++ ", " ++ l ++ "\n"
  | .compare strict v x =>
    "\t" ++ (if strict then Facts.compareStrictCommand else Facts.compareCommand) ++ " " ++ v ++ ", " ++ x ++ "\n"
  | .gotoIfCmp op l => "\t" ++ cmpOpcode op ++ " " ++ l ++ "\n"
  | .checkTrainerFlag t => "\tchecktrainerflag " ++ t ++ "\n"
  | .gotoIfTrainer set l => (if set then "\tgoto_if 1, " else "\tgoto_if 0, ") ++ l ++ "\n"
  | .switch_ o => "\tswitch " ++ o ++ "\n"
  | .case_ v l => "\tcase " ++ v ++ ", " ++ l ++ "\n"
  | .terminator isEnd => if isEnd then "\tend\n" else "\treturn\n"
  | .marker n f => "# " ++ toString n ++ " \"" ++ escapeBackslashes f ++ "\"\n"
  | .blank => "\n"
  | .raw t => t ++ "\n"
  | .mapScript t n => "\tmap_script " ++ t ++ ", " ++ n ++ "\n"
  | .mapScript2 c v n => "\tmap_script_2 " ++ c ++ ", " ++ v ++ ", " ++ n ++ "\n"
  | .byte0 => "\t.byte 0\n\n"
  | .twoByte0 => "\t.2byte 0\n\n"
  | .align2 => "\t.align 2\n"
  | .twoByte i => "\t.2byte " ++ i ++ "\n"
  | .step c => "\t" ++ c ++ "\n"
  | .textLine d c => "\t." ++ d ++ " \"" ++ c ++ "\"\n"

def render (ls : List Line) : String := String.join (ls.map Line.render)

end Pory.Emit
