import PoryModel.Token
/-
Model of `parser/formattext.go`.

Texts are lists of characters; Go's byte offsets (always at rune boundaries there) become
character counts.  Font tables are association lists; widths and parameters are `Int`
(Go `int`, assumed not to overflow).
-/
namespace Pory.Fmt
open Pory

structure Font where
  widths : List (String × Int) := []
  cursorOverlapWidth : Int := 0
  maxLineLength : Int := 0
  numLines : Int := 0
  deriving Repr, Inhabited

structure FontConfig where
  defaultFontID : String := ""
  fonts : List (String × Font) := []
  deriving Repr, Inhabited

def FontConfig.font (fc : FontConfig) (id : String) : Font :=
  (fc.fonts.lookup id).getD {}

def FontConfig.isFontIDValid (fc : FontConfig) (id : String) : Bool :=
  (fc.fonts.lookup id).isSome

/-- `getWidth` -/
def getWidth (fc : FontConfig) (value : String) (fontID : String) : Int :=
  match fc.fonts.lookup fontID with
  | none => Facts.fallbackWidth
  | some font =>
    match font.widths.lookup value with
    | some w => w
    | none =>
      match font.widths.lookup "default" with
      | some w => w
      | none => Facts.fallbackWidth

def getRunePixelWidth (fc : FontConfig) (r : Char) (fontID : String) : Int :=
  if fontID == Facts.testFontID then Facts.testRuneWidth else getWidth fc (String.singleton r) fontID

def getControlCodePixelWidth (fc : FontConfig) (code : List Char) (fontID : String) : Int :=
  if fontID == Facts.testFontID then Facts.testControlCodeWidth
  else getWidth fc (String.ofList code) fontID

/-- Split at the first `}`: characters before it, characters after it. -/
def splitAtClose : List Char → Option (List Char × List Char)
  | [] => none
  | c :: r =>
    if c == '}' then some ([], r)
    else match splitAtClose r with
      | some (a, b) => some (c :: a, b)
      | none => none

/-- `processControlCodes`: the matches of the regexp `{[^}]*}` (leftmost, non-overlapping)
and the word with them removed. Fuel = length of the word. -/
def processControlCodes : Nat → List Char → List (List Char) × List Char
  | 0, cs => ([], cs)
  | _ + 1, [] => ([], [])
  | n + 1, c :: r =>
    if c == '{' then
      match splitAtClose r with
      | some (inside, after) =>
        let (codes, stripped) := processControlCodes n after
        ((('{' :: inside) ++ ['}']) :: codes, stripped)
      | none => ([], c :: r)
    else
      let (codes, stripped) := processControlCodes n r
      (codes, c :: stripped)

def getWordPixelWidth (fc : FontConfig) (word : List Char) (fontID : String) : Int :=
  let (codes, stripped) := processControlCodes word.length word
  let w0 := codes.foldl (fun acc code => acc + getControlCodePixelWidth fc code fontID) 0
  stripped.foldl (fun acc r => acc + getRunePixelWidth fc r fontID) w0

def isLineBreak (w : List Char) : Bool :=
  w == ['\\', 'n'] || w == ['\\', 'l'] || w == ['\\', 'p'] || w == ['\\', 'N']
def isAutoLineBreak (w : List Char) : Bool := w == ['\\', 'N']
def isParagraphBreak (w : List Char) : Bool := w == ['\\', 'p']

/-- State of the scanning loop of `getNextWord`. -/
structure WS where
  escape : Bool := false
  endPos : Nat := 0
  startPos : Nat := 0
  foundNonSpace : Bool := false
  foundRegularRune : Bool := false
  endOnNext : Bool := false
  level : Nat := 0

def slice (text : List Char) (a b : Nat) : List Char := (text.drop a).take (b - a)

/-- The `for pos, char := range text` loop of `getNextWord`; `pos` counts characters. -/
def nextWordLoop (text : List Char) : List Char → Nat → WS → Nat × List Char
  | [], _, st =>
    if !st.foundNonSpace then (text.length, []) else (text.length, text.drop st.startPos)
  | c :: r, pos, st =>
    if st.endOnNext then (pos, slice text st.startPos pos)
    else if st.escape && (c == 'l' || c == 'n' || c == 'p' || c == 'N') then
      if st.foundRegularRune then (st.endPos, slice text st.startPos st.endPos)
      else nextWordLoop text r (pos + 1) { st with endOnNext := true }
    else if c == '\\' && st.level == 0 then
      -- a backslash that follows a backslash makes the previous one an ordinary character
      let fr := st.foundRegularRune || st.escape
      nextWordLoop text r (pos + 1)
        { st with escape := true, foundRegularRune := fr,
                  startPos := if !fr then pos else st.startPos,
                  foundNonSpace := true, endPos := pos }
    else if c == ' ' then
      if st.foundNonSpace && st.level == 0 then (pos, slice text st.startPos pos)
      else nextWordLoop text r (pos + 1) { st with escape := false }
    else
      let st1 := { st with startPos := if !st.foundNonSpace then pos else st.startPos,
                           foundRegularRune := true, foundNonSpace := true }
      let st2 := if c == '{' then { st1 with level := st1.level + 1 }
                 else if c == '}' then (if st1.level > 0 then { st1 with level := st1.level - 1 } else st1)
                 else st1
      nextWordLoop text r (pos + 1) { st2 with escape := false }

/-- `getNextWord`: number of characters consumed and the word. -/
def getNextWord (text : List Char) : Nat × List Char := nextWordLoop text text 0 {}

structure FS where
  formatted : List Char := []
  curLine : List Char := []
  curWidth : Int := 0
  curLineNum : Int := 0
  isFirstWord : Bool := true

/-- One iteration of the main loop of `FormatText` for `word` with look-ahead `nextWord`. -/
def formatStep (fc : FontConfig) (fontID : String) (maxWidth overlap numLines spaceW : Int)
    (word nextWord : List Char) (st : FS) : FS :=
  if isLineBreak word then
    let brk : List Char :=
      if isAutoLineBreak word then
        (if st.curLineNum < numLines - 1 then ['\\', 'n'] else ['\\', 'l'])
      else word
    { formatted := st.formatted ++ st.curLine ++ brk ++ ['\n'],
      curLine := [], curWidth := 0,
      curLineNum := if isParagraphBreak word then 0 else st.curLineNum + 1,
      isFirstWord := true }
  else
    let wordWidth := getWordPixelWidth fc word fontID
    let nextWordWidth := if !st.isFirstWord then wordWidth + spaceW else wordWidth
    let nextWidth0 := st.curWidth + nextWordWidth
    let nextWidth :=
      if nextWord.length > 0 && (st.curLineNum ≥ numLines - 1 || isParagraphBreak nextWord)
      then nextWidth0 + overlap else nextWidth0
    if nextWidth > maxWidth && st.curLine.length > 0 then
      let brk : List Char := if st.curLineNum ≥ numLines - 1 then ['\\', 'l'] else ['\\', 'n']
      { formatted := st.formatted ++ st.curLine ++ brk ++ ['\n'],
        curLine := word, curWidth := wordWidth, curLineNum := st.curLineNum + 1,
        isFirstWord := false }
    else
      { st with curWidth := st.curWidth + nextWordWidth,
                curLine := (if !st.isFirstWord then st.curLine ++ [' '] else st.curLine) ++ word,
                isFirstWord := false }

def formatLoop (fc : FontConfig) (fontID : String) (maxWidth overlap numLines spaceW : Int) :
    Nat → List Char → List Char → FS → FS
  | 0, _, _, st => st
  | n + 1, rest, word, st =>
    if word.length == 0 then st
    else
      let (endPos, nextWord) := getNextWord rest
      let st' := formatStep fc fontID maxWidth overlap numLines spaceW word nextWord st
      formatLoop fc fontID maxWidth overlap numLines spaceW n (rest.drop endPos) nextWord st'

/-- `"[a b c]"`: Go's `%s` of a `[]string`. -/
def goStringSlice (xs : List String) : String := "[" ++ " ".intercalate xs ++ "]"

def insertSorted (x : String) : List String → List String
  | [] => [x]
  | y :: ys => if x < y then x :: y :: ys else y :: insertSorted x ys

def sortStrings (xs : List String) : List String := xs.foldr insertSorted []

/-- `FontConfig.FormatText`. -/
def formatText (fc : FontConfig) (text : List Char) (maxWidth overlap : Int) (fontID : String)
    (numLines : Int) : Except String (List Char) :=
  if !fc.isFontIDValid fontID && fontID.length > 0 && fontID != Facts.testFontID then
    .error s!"unknown fontID '{fontID}' used in format(). List of valid fontIDs are '{goStringSlice (sortStrings (fc.fonts.map (·.1)))}'"
  else
    let text := text.map fun c => if c == '\n' then ' ' else c
    let spaceW := getRunePixelWidth fc ' ' fontID
    let (pos, word) := getNextWord text
    if word.length == 0 then .ok []
    else
      let st := formatLoop fc fontID maxWidth overlap numLines spaceW (text.length + 1)
        (text.drop pos) word {}
      .ok (st.formatted ++ st.curLine)

end Pory.Fmt
