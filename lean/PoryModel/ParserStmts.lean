import PoryModel.ParserLists
/-
Parser model, part 3: conditions, statements, top-level statements, `ParseProgram`.
-/
namespace Pory.Parser
open Pory

/-- `getNegatedBooleanOperator` (table regenerated from the Go `switch`). -/
def getNegatedBooleanOperator (op : TT) : TT := (Facts.negatedOperator.lookup op).getD op

/-- `expectPeekVarOrAutoVar`: `none` for `var(`, otherwise operand, preamble, implicit data. -/
def expectPeekVarOrAutoVar (env : Env) (scriptName : String) (fuel : Nat) :
    PM (Option (String × Cmd × ImpData)) := do
  if (← peekIs .VAR) then
    nextToken
    if !(← expectPeek .LPAREN) then
      let pk ← peek
      fail (newRangeParseError (← cur) pk s!"missing '(' after var operator. Got '{pk.lit}` instead")
    return none
  let pk ← peek
  let cmdName := pk.lit
  match env.autoVars.lookup cmdName with
  | some av =>
    nextToken
    let commandToken ← cur
    let (cmd, imp) ← parseCommandStatement env scriptName fuel
    match av.argPos with
    | none => return some (av.varName, cmd, imp)
    | some pos =>
      if pos < 0 || pos > (cmd.args.length : Int) - 1 then
        fail (newRangeParseError commandToken (← cur)
          s!"auto-var command {cmdName} has an arg position of {pos}, but only {cmd.args.length} arguments were provided")
      return some (cmd.args.getD pos.toNat "", cmd, imp)
  | none =>
    fail (newParseError pk s!"expected next token to be '{TT.VAR.str}' or auto-var command, got '{pk.lit}' instead")

/-- `peekTokenIsAutoVar` -/
def peekTokenIsAutoVar (env : Env) : PM Bool := do
  let pk ← peek
  if pk.type != .IDENT then return false
  return (env.autoVars.lookup pk.lit).isSome

/-- Collect literals (constants substituted) until `stop`; EOF check *after* each advance. -/
def collectUntil (stop : Tok → Bool) (onEOF : PFail) : Nat → List String → PM (List String)
  | 0, _ => fail .outOfFuel
  | n + 1, parts => do
    let c ← cur
    if stop c then return parts
    let v ← tryReplaceWithConstant c.lit
    nextToken
    if (← curIs .EOF) then fail onEOF
    collectUntil stop onEOF n (parts ++ [v])

/-- The `for { … }` loop of the `value(...)` form in `parseConditionVarOperator`. -/
def valueLoop (valueToken : Tok) : Nat → Nat → List String → PM (List String)
  | 0, _, _ => fail .outOfFuel
  | n + 1, numOpenParens, parts => do
    let c ← cur
    if c.type == .RPAREN && numOpenParens == 0 then
      nextToken
      if (joinSp parts).toList.contains ' ' then return ["("] ++ parts ++ [")"]
      return parts
    let numOpenParens :=
      if c.type == .LPAREN then numOpenParens + 1
      else if c.type == .RPAREN then numOpenParens - 1
      else numOpenParens
    let v ← tryReplaceWithConstant c.lit
    nextToken
    if (← curIs .EOF) then fail (newParseError valueToken "missing ')' when evaluating 'value'")
    valueLoop valueToken n numOpenParens (parts ++ [v])

/-- `parseConditionVarOperator` -/
def parseConditionVarOperator (e : OpExpr) (fuel : Nat) : PM OpExpr := do
  let c ← cur
  if c.type != .GT && c.type != .GTE && c.type != .LT && c.type != .LTE && c.type != .EQ && c.type != .NEQ then
    return { e with operator := .NEQ, cmpValue := "0" }
  let operatorToken := c
  let e := { e with operator := operatorToken.type }
  nextToken
  let c ← cur
  if c.type == .RPAREN then
    fail (newRangeParseError operatorToken c "missing comparison value for var operator")
  if c.type == .VALUE then
    let valueToken := c
    expectPeekErr .LPAREN
    nextToken
    let parts ← valueLoop valueToken fuel 0 []
    return { e with strict := true, cmpValue := joinSp parts }
  else
    let startToken := c
    let parts ← collectUntilRange startToken fuel []
    return { e with cmpValue := joinSp parts }
where
  /-- `for cur != RPAREN && cur != AND && cur != OR`, EOF error ranges to the current token. -/
  collectUntilRange (startToken : Tok) : Nat → List String → PM (List String)
    | 0, _ => fail .outOfFuel
    | n + 1, parts => do
      let c ← cur
      if c.type == .RPAREN || c.type == .AND || c.type == .OR then return parts
      let v ← tryReplaceWithConstant c.lit
      nextToken
      let c ← cur
      if c.type == .EOF then
        fail (newRangeParseError startToken c "missing ')', '&&' or '||' when evaluating 'var' operator")
      collectUntilRange startToken n (parts ++ [v])

/-- `parseConditionFlagLikeOperator` -/
def parseConditionFlagLikeOperator (e : OpExpr) (operatorName : String) : PM OpExpr := do
  let c ← cur
  if c.type != .EQ && c.type != .NEQ then
    return { e with operator := .EQ, cmpValue := TT.TRUE.str }
  let operatorToken := c
  let e := { e with operator := operatorToken.type }
  nextToken
  let c ← cur
  if c.type == .RPAREN then
    fail (newRangeParseError operatorToken c s!"missing comparison value for {operatorName} operator")
  if c.type != .TRUE && c.type != .FALSE then
    fail (newParseError c s!"invalid {operatorName} comparison value '{c.lit}'. Only TRUE and FALSE are allowed")
  nextToken
  return { e with cmpValue := c.type.str }

/-- `parseLeafBooleanExpression` -/
def parseLeafBooleanExpression (env : Env) (scriptName : String) (fuel : Nat) : PM (OpExpr × ImpData) := do
  let mut usedNotOperator := false
  let mut e : OpExpr := {}
  if (← peekIs .NOT) then
    e := { e with operator := .EQ }
    nextToken
    usedNotOperator := true
  let isAutoVar ← peekTokenIsAutoVar env
  let pk ← peek
  if pk.type != .VAR && !isAutoVar && pk.type != .FLAG && pk.type != .DEFEATED then
    fail (newParseError pk s!"left side of binary expression must be var(), flag(), defeated(), or autovar command. Instead, found '{pk.lit}'")
  let mut imp : ImpData := {}
  if !isAutoVar then
    nextToken
    let operatorToken ← cur
    e := { e with type := operatorToken.type }
    if !(← expectPeek .LPAREN) then
      fail (newRangeParseError operatorToken (← peek) s!"missing opening parenthesis for condition operator '{e.type.str}'")
    let pk ← peek
    if pk.type == .RPAREN then
      fail (newRangeParseError operatorToken pk s!"missing value for condition operator '{e.type.str}'")
    nextToken
    let operandToken ← cur
    let parts ← collectUntil (fun t => t.type == .RPAREN)
      (newParseError operatorToken "missing closing ')' for condition operator value") fuel []
    e := { e with operand := { operandToken with lit := joinSp parts } }
  else
    match ← expectPeekVarOrAutoVar env scriptName fuel with
    | none => fail (.panic "nil autoVarOperand dereference in parseLeafBooleanExpression")
    | some (operand, preamble, autoImp) =>
      e := { e with type := .VAR, operand := { preamble.tok with type := .IDENT, lit := operand },
                    preamble := some preamble }
      imp := imp.add autoImp
  nextToken
  if usedNotOperator then
    if e.type == .VAR then e := { e with cmpValue := "0" }
    else if e.type == .FLAG || e.type == .DEFEATED then e := { e with cmpValue := TT.FALSE.str }
  else
    if e.type == .VAR then e ← parseConditionVarOperator e fuel
    else if e.type == .FLAG then e ← parseConditionFlagLikeOperator e "flag"
    else if e.type == .DEFEATED then e ← parseConditionFlagLikeOperator e "defeated"
  return (e, imp)

mutual
/-- `parseBooleanExpression` -/
def parseBooleanExpression (env : Env) (scriptName : String) (single negated : Bool) :
    Nat → PM (BoolExpr × ImpData)
  | 0 => fail .outOfFuel
  | n + 1 => do
    let nested ← peekIs .LPAREN
    let negatedNested0 := (← peekIs .NOT) && (← peek2Is .LPAREN)
    if nested || negatedNested0 then
      nextToken
      let openToken ← cur
      let mut negatedNested := negatedNested0
      if nested then
        negatedNested := negated
      else if negatedNested0 then
        nextToken
        negatedNested := !negated
      let (nestedExpression, imp) ← parseBooleanExpression env scriptName false negatedNested n
      let c ← cur
      if c.type != .RPAREN then
        fail (newRangeParseError openToken c "missing closing ')' for nested boolean expression")
      let pk ← peek
      if !single && (pk.type == .AND || pk.type == .OR) then
        nextToken
        let (right, rimp) ← parseRightSideExpression env scriptName nestedExpression single negated n
        return (right, imp.add rimp)
      nextToken
      return (nestedExpression, imp)
    let (leaf, imp) ← parseLeafBooleanExpression env scriptName n
    let leaf := if negated then { leaf with operator := getNegatedBooleanOperator leaf.operator } else leaf
    if single then return (.leaf leaf, imp)
    let (right, rimp) ← parseRightSideExpression env scriptName (.leaf leaf) single negated n
    return (right, imp.add rimp)

/-- `parseRightSideExpression` -/
def parseRightSideExpression (env : Env) (scriptName : String) (left : BoolExpr) (single negated : Bool) :
    Nat → PM (BoolExpr × ImpData)
  | 0 => fail .outOfFuel
  | n + 1 => do
    let c ← cur
    let curTokenType := if negated then getNegatedBooleanOperator c.type else c.type
    if c.type == .AND then
      let (right, imp) ← parseBooleanExpression env scriptName true negated n
      let grouped := BoolExpr.bin left curTokenType right
      let (rest, rimp) ← parseRightSideExpression env scriptName grouped single negated n
      return (rest, imp.add rimp)
    else if c.type == .OR then
      let (right, imp) ← parseBooleanExpression env scriptName false negated n
      return (.bin left curTokenType right, imp)
    else
      return (left, {})
end

/-- `tryParseLabelStatement` -/
def tryParseLabelStatement : PM (Option Stmt) := do
  let c ← cur
  let p1 ← peek
  let p2 ← peek2
  let p3 ← peek3
  let p4 ← peek4
  if p1.type == .COLON then
    nextToken
    return some (.label c c.lit false)
  else if p1.type == .LPAREN && (p2.type == .GLOBAL || p2.type == .LOCAL) && p3.type == .RPAREN && p4.type == .COLON then
    nextToken; nextToken; nextToken; nextToken
    return some (.label c c.lit (p2.type == .GLOBAL))
  return none

def newSid : PM Nat := do
  let s ← get
  set { s with nextSid := s.nextSid + 1 }
  return s.nextSid

def pushBreak (sid : Nat) : PM Unit := modify fun s => { s with breakStack := sid :: s.breakStack }
def popBreak : PM Unit := modify fun s => { s with breakStack := s.breakStack.tail }
def pushContinue (sid : Nat) : PM Unit := modify fun s => { s with continueStack := sid :: s.continueStack }
def popContinue : PM Unit := modify fun s => { s with continueStack := s.continueStack.tail }

/-- Selection among parsed poryswitch statement cases (newest entry for a key wins). -/
def selectCase {α} (env : Env) (cases : List (String × α)) (switchValue : String) : Option α :=
  match cases.lookup switchValue with
  | some x => some x
  | none => cases.lookup "_"

mutual
/-- `parseBlockStatement` (cur = first token after `{`; returns with cur = `}`) -/
def parseBlockStatement (env : Env) (scriptName : String) (startToken : Tok) :
    Nat → List Stmt → ImpData → PM (List Stmt × ImpData)
  | 0, _, _ => fail .outOfFuel
  | n + 1, acc, imp => do
    let c ← cur
    if c.type == .RBRACE then return (acc, imp)
    if c.type == .EOF then
      fail (newParseError startToken "missing closing curly brace for block statement")
    let (stmts, simp) ← parseStatement env scriptName n
    nextToken
    parseBlockStatement env scriptName startToken n (acc ++ stmts) (imp.add simp)

/-- `parseSwitchBlockStatement` -/
def parseSwitchBlockStatement (env : Env) (scriptName : String) (startToken : Tok) :
    Nat → List Stmt → ImpData → PM (List Stmt × ImpData)
  | 0, _, _ => fail .outOfFuel
  | n + 1, acc, imp => do
    let c ← cur
    if c.type == .RBRACE || c.type == .CASE || c.type == .DEFAULT then return (acc, imp)
    if c.type == .EOF then
      fail (newRangeParseError startToken c "missing end for switch case body")
    let (stmts, simp) ← parseStatement env scriptName n
    nextToken
    parseSwitchBlockStatement env scriptName startToken n (acc ++ stmts) (imp.add simp)

/-- `parseStatement` -/
def parseStatement (env : Env) (scriptName : String) : Nat → PM (List Stmt × ImpData)
  | 0 => fail .outOfFuel
  | n + 1 => do
    let c ← cur
    match c.type with
    | .IDENT =>
      match ← tryParseLabelStatement with
      | some l => return ([l], {})
      | none =>
        let (cmd, imp) ← parseCommandStatement env scriptName n
        return ([.cmd cmd], imp)
    | .IF => parseIfStatement env scriptName n
    | .WHILE => parseWhileStatement env scriptName n
    | .DO => parseDoWhileStatement env scriptName n
    | .BREAK =>
      match (← get).breakStack with
      | [] => fail (newParseError c "'break' statement outside of any break-able scope")
      | sid :: _ => return ([.brk c sid], {})
    | .CONTINUE =>
      match (← get).continueStack with
      | [] => fail (newParseError c "'continue' statement outside of any continue-able scope")
      | sid :: _ =>
        if (← peek).type != .RBRACE then
          fail (newParseError c "'continue' must be the last statement in block scope")
        return ([.cont c sid], {})
    | .SWITCH => parseSwitchStatement env scriptName n
    | .PORYSWITCH => parsePoryswitchStatement env scriptName n
    | _ => fail (newParseError c s!"could not parse statement for '{c.lit}'")

/-- `parseConditionExpression` -/
def parseConditionExpression (env : Env) (scriptName : String) (requireExpression : Bool) :
    Nat → PM (Option BoolExpr × List Stmt × ImpData)
  | 0 => fail .outOfFuel
  | n + 1 => do
    let mut cond : Option BoolExpr := none
    let mut imp : ImpData := {}
    if requireExpression || !(← peekIs .LBRACE) then
      if !(← expectPeek .LPAREN) then
        fail (newRangeParseError (← cur) (← peek) "missing '(' to start boolean expression")
      let (e, eimp) ← parseBooleanExpression env scriptName false false n
      imp := imp.add eimp
      cond := some e
    expectPeekErr .LBRACE
    let braceToken ← cur
    nextToken
    let (body, bimp) ← parseBlockStatement env scriptName braceToken n [] {}
    return (cond, body, imp.add bimp)

/-- the `for p.peekToken.Type == token.ELSEIF` loop -/
def parseElifs (env : Env) (scriptName : String) :
    Nat → List (BoolExpr × List Stmt) → ImpData → PM (List (BoolExpr × List Stmt) × ImpData)
  | 0, _, _ => fail .outOfFuel
  | n + 1, acc, imp => do
    if (← peek).type != .ELSEIF then return (acc, imp)
    nextToken
    let (cond, body, cimp) ← parseConditionExpression env scriptName true n
    match cond with
    | none => fail (.panic "elif without expression")
    | some e => parseElifs env scriptName n (acc ++ [(e, body)]) (imp.add cimp)

/-- `parseIfStatement` -/
def parseIfStatement (env : Env) (scriptName : String) : Nat → PM (List Stmt × ImpData)
  | 0 => fail .outOfFuel
  | n + 1 => do
    let tok ← cur
    let (cond, body, imp) ← parseConditionExpression env scriptName true n
    let some cond := cond | fail (.panic "if without expression")
    let (elifs, imp) ← parseElifs env scriptName n [] imp
    if (← peek).type == .ELSE then
      nextToken
      if !(← expectPeek .LBRACE) then
        fail (newRangeParseError (← cur) (← peek) "missing opening curly brace of else statement")
      let braceToken ← cur
      nextToken
      let (els, eimp) ← parseBlockStatement env scriptName braceToken n [] {}
      return ([.ite tok cond body elifs (some els)], imp.add eimp)
    return ([.ite tok cond body elifs none], imp)

/-- `parseWhileStatement` -/
def parseWhileStatement (env : Env) (scriptName : String) : Nat → PM (List Stmt × ImpData)
  | 0 => fail .outOfFuel
  | n + 1 => do
    let tok ← cur
    let sid ← newSid
    pushBreak sid
    pushContinue sid
    let (cond, body, imp) ← parseConditionExpression env scriptName false n
    popBreak
    popContinue
    return ([.while_ tok sid cond body], imp)

/-- `parseDoWhileStatement` -/
def parseDoWhileStatement (env : Env) (scriptName : String) : Nat → PM (List Stmt × ImpData)
  | 0 => fail .outOfFuel
  | n + 1 => do
    let tok ← cur
    let sid ← newSid
    pushBreak sid
    pushContinue sid
    if !(← expectPeek .LBRACE) then
      fail (newRangeParseError (← cur) (← peek) "missing opening curly brace of do...while statement")
    let braceToken ← cur
    nextToken
    let (body, imp) ← parseBlockStatement env scriptName braceToken n [] {}
    popBreak
    popContinue
    if !(← expectPeek .WHILE) then
      fail (newRangeParseError (← cur) (← peek) "missing 'while' after body of do...while statement")
    if !(← expectPeek .LPAREN) then
      fail (newRangeParseError (← cur) (← peek) "missing '(' to start condition for do...while statement")
    let (cond, cimp) ← parseBooleanExpression env scriptName false false n
    return ([.doWhile tok sid cond body], imp.add cimp)

/-- The case loop of `parseSwitchStatement`. -/
def parseSwitchCases (env : Env) (scriptName : String) (braceToken : Tok) :
    Nat → List SwitchCase → List String → Bool → ImpData → PM (List SwitchCase × Bool × ImpData)
  | 0, _, _, _, _ => fail .outOfFuel
  | n + 1, cases, caseValues, hasDefault, imp => do
    let c ← cur
    if c.type == .RBRACE then return (cases, hasDefault, imp)
    if c.type == .CASE then
      let caseToken := c
      nextToken
      let caseValueToken ← cur
      let parts ← collectUntil (fun t => t.type == .COLON) (newParseError caseToken "missing `:` after 'case'") n []
      let caseValue := joinSp parts
      if caseValues.contains caseValue then
        fail (newRangeParseError caseToken (← cur) s!"duplicate switch cases detected for case '{caseValue}'")
      nextToken
      let (body, bimp) ← parseSwitchBlockStatement env scriptName braceToken n [] {}
      parseSwitchCases env scriptName braceToken n
        (cases ++ [({ caseValueToken with lit := caseValue }, false, body)]) (caseValue :: caseValues)
        hasDefault (imp.add bimp)
    else if c.type == .DEFAULT then
      if hasDefault then
        fail (newParseError c "multiple `default` cases found in switch statement. Only one `default` case is allowed")
      if !(← expectPeek .COLON) then
        fail (newParseError (← cur) "missing `:` after default")
      nextToken
      let (body, bimp) ← parseSwitchBlockStatement env scriptName braceToken n [] {}
      parseSwitchCases env scriptName braceToken n (cases ++ [(({} : Tok), true, body)]) caseValues true
        (imp.add bimp)
    else
      fail (newParseError c s!"invalid start of switch case '{c.lit}'. Expected 'case' or 'default'")

/-- `parseSwitchStatement`: the preamble command (auto-var) precedes the switch statement. -/
def parseSwitchStatement (env : Env) (scriptName : String) : Nat → PM (List Stmt × ImpData)
  | 0 => fail .outOfFuel
  | n + 1 => do
    let tok ← cur
    let sid ← newSid
    pushBreak sid
    let originalToken := tok
    if !(← expectPeek .LPAREN) then
      fail (newRangeParseError (← cur) (← peek) "missing opening parenthesis of switch statement operand")
    let auto ← expectPeekVarOrAutoVar env scriptName n
    let mut imp : ImpData := {}
    let mut operand : Tok := {}
    let mut preamble : List Stmt := []
    match auto with
    | none =>
      nextToken
      let operandToken ← cur
      let parts ← switchOperandLoop originalToken n []
      nextToken
      operand := { operandToken with lit := joinSp parts }
    | some (name, cmd, aimp) =>
      imp := imp.add aimp
      operand := { cmd.tok with type := .IDENT, lit := name }
      preamble := [.cmd cmd]
      if !(← expectPeek .RPAREN) then
        fail (newParseError originalToken "missing closing parenthesis of switch statement value")
    if !(← expectPeek .LBRACE) then
      fail (newRangeParseError (← cur) (← peek) "missing opening curly brace of switch statement")
    let braceToken ← cur
    nextToken
    let (cases, _, cimp) ← parseSwitchCases env scriptName braceToken n [] [] false {}
    popBreak
    if cases.isEmpty then
      fail (newRangeParseError tok (← cur) "switch statement has no cases or default case")
    return (preamble ++ [.switch_ tok sid operand cases], imp.add cimp)
where
  /-- `for cur != RPAREN { EOF check first }` -/
  switchOperandLoop (originalToken : Tok) : Nat → List String → PM (List String)
    | 0, _ => fail .outOfFuel
    | n + 1, parts => do
      let c ← cur
      if c.type == .RPAREN then return parts
      if c.type == .EOF then
        fail (newParseError originalToken "missing closing parenthesis of switch statement value")
      let v ← tryReplaceWithConstant c.lit
      nextToken
      switchOperandLoop originalToken n (parts ++ [v])

/-- `parsePoryswitchStatement` -/
def parsePoryswitchStatement (env : Env) (scriptName : String) : Nat → PM (List Stmt × ImpData)
  | 0 => fail .outOfFuel
  | n + 1 => do
    let startToken ← cur
    let (switchCase, switchValue) ← parsePoryswitchHeader env
    let cases ← parsePoryswitchStatementCases env scriptName (← cur) n []
    match selectCase env cases switchValue with
    | some r => return r
    | none =>
      if env.envErrors then
        fail (newParseError startToken s!"no poryswitch case found for '{switchCase}={switchValue}', which was specified with the '-s' option")
      else return ([], {})

/-- `parsePoryswitchStatementCases` -/
def parsePoryswitchStatementCases (env : Env) (scriptName : String) (startToken : Tok) :
    Nat → List (String × List Stmt × ImpData) → PM (List (String × List Stmt × ImpData))
  | 0, _ => fail .outOfFuel
  | n + 1, acc => do
    let c ← cur
    if c.type == .RBRACE then return acc
    if c.type == .EOF then
      fail (newParseError startToken "missing closing curly braces for poryswitch statement")
    if c.type != .IDENT && c.type != .INT then
      fail (newParseError c s!"invalid poryswitch case '{c.lit}'. Expected a simple identifier")
    let caseToken := c
    nextToken
    let c ← cur
    if c.type == .COLON || c.type == .LBRACE then
      let usedBrace := c.type == .LBRACE
      nextToken
      let (stmts, simp) ← parsePoryswitchStatements env scriptName usedBrace n [] {}
      if usedBrace then
        if !(← curIs .RBRACE) then
          fail (newParseError caseToken s!"missing closing curly brace for poryswitch case '{caseToken.lit}'")
        nextToken
      parsePoryswitchStatementCases env scriptName startToken n ((caseToken.lit, stmts, simp) :: acc)
    else
      fail (newParseError c s!"invalid token '{c.lit}' after poryswitch case '{caseToken.lit}'. Expected ':' or '\{'")

/-- `parsePoryswitchStatements` -/
def parsePoryswitchStatements (env : Env) (scriptName : String) (allowMultiple : Bool) :
    Nat → List Stmt → ImpData → PM (List Stmt × ImpData)
  | 0, _, _ => fail .outOfFuel
  | n + 1, acc, imp => do
    let c ← cur
    if c.type == .RBRACE then return (acc, imp)
    let (stmts, simp) ←
      if c.type == .PORYSWITCH then parsePoryswitchStatement env scriptName n
      else parseStatement env scriptName n
    nextToken
    if !allowMultiple then return (acc ++ stmts, imp.add simp)
    parsePoryswitchStatements env scriptName allowMultiple n (acc ++ stmts) (imp.add simp)
end

end Pory.Parser
