import PoryModel.Lexer
import PoryModel.ParserTop
import PoryModel.Render
/-
The whole pipeline, as `main.go` composes it: lexer → parser → emitter.
-/
namespace Pory
open Pory.Parser Pory.Emit

inductive Result
  | ok (text : String)
  | parseError (e : PErr)              -- from the parser or the emitter (label clashes)
  | plainError (msg : String)          -- `errors.New` paths of the emitter
  | outOfFuel (where_ : String)
  | panic (what : String)
  deriving Repr, Inhabited

def tokErr (tok : Tok) (msg : String) : PErr :=
  { lineStart := tok.line, lineEnd := tok.endLine, charStart := tok.startChar,
    utf8Start := tok.startUtf8, charEnd := tok.endChar, utf8End := tok.endUtf8, msg := msg }

/-- `NewLintParser`: no fonts, no default font, no line length, no switches, no environment errors. -/
def lintEnv (env : Env) : Env := { autoVars := env.autoVars, envErrors := false }

def compileLines (env : Env) (o : Opts) (src : List Char) : Except Result (List Line) :=
  match parseTokens env (Lexer.lexAll src) with
  | .error (.err e) => .error (.parseError e)
  | .error .outOfFuel => .error (.outOfFuel "parser")
  | .error (.panic w) => .error (.panic w)
  | .ok prog =>
    match emitProgram o prog with
    | .ok ls => .ok ls
    | .error (.perr tok msg) => .error (.parseError (tokErr tok msg))
    | .error (.plain msg) => .error (.plainError msg)
    | .error .outOfFuel => .error (.outOfFuel "emitter")
    | .error (.panic w) => .error (.panic w)

def compile (env : Env) (o : Opts) (src : List Char) : Result :=
  match compileLines env o src with
  | .ok ls => .ok (render ls)
  | .error r => r

end Pory
