import PoryModel.Token
/-
Model of `ast/ast.go`.

Pointer identity in the Go AST is replaced by numbers:
* every `CommandStatement` gets a unique `id` (allocation order of the parser); the
  post-hoc patching `command.Args[argPos] = label` becomes an entry of `Program.patches`;
* `BreakStatement.ScopeStatment` / `ContinueStatement.LoopStatment` become the scope id
  (`sid`) of the loop or switch they point to.
-/
namespace Pory

structure Cmd where
  id : Nat := 0
  tok : Tok := {}
  name : String := ""
  args : List String := []
  deriving Repr, Inhabited, DecidableEq

/-- `ast.OperatorExpression` -/
structure OpExpr where
  operand : Tok := {}
  operator : TT := .ILLEGAL
  cmpValue : String := ""
  strict : Bool := false           -- ComparisonValueType == StrictValueComparison
  type : TT := .ILLEGAL            -- VAR / FLAG / DEFEATED
  preamble : Option Cmd := none
  deriving Repr, Inhabited, DecidableEq

inductive BoolExpr
  | leaf (e : OpExpr)
  | bin (l : BoolExpr) (op : TT) (r : BoolExpr)
  deriving Repr, Inhabited

inductive Stmt
  | cmd (c : Cmd)
  | label (tok : Tok) (name : String) (isGlobal : Bool)
  | ite (tok : Tok) (cond : BoolExpr) (body : List Stmt)
        (elifs : List (BoolExpr × List Stmt)) (els : Option (List Stmt))
  | while_ (tok : Tok) (sid : Nat) (cond : Option BoolExpr) (body : List Stmt)
  | doWhile (tok : Tok) (sid : Nat) (cond : BoolExpr) (body : List Stmt)
  | brk (tok : Tok) (sid : Nat)
  | cont (tok : Tok) (sid : Nat)
  /-- cases: (value token, isDefault, body) in source order -/
  | switch_ (tok : Tok) (sid : Nat) (operand : Tok) (cases : List (Tok × Bool × List Stmt))
  deriving Inhabited

abbrev SwitchCase := Tok × Bool × List Stmt

structure Script where
  tok : Tok := {}
  name : String := ""
  body : List Stmt := []
  scope : TT := .GLOBAL
  deriving Inhabited

structure Text where
  name : String := ""
  value : String := ""
  stringType : String := ""
  isGlobal : Bool := false
  tok : Tok := {}
  deriving Repr, Inhabited, DecidableEq

structure MovementStmt where
  tok : Tok := {}
  name : String := ""
  cmds : List Tok := []
  scope : TT := .LOCAL
  deriving Repr, Inhabited

structure MapScript where
  type : Tok
  name : String
  script : Option Script

structure TableEntry where
  condition : Tok
  comparison : String
  name : String
  script : Option Script

structure TableMapScript where
  type : Tok
  name : String
  entries : List TableEntry

structure MapScripts where
  tok : Tok
  name : String
  mapScripts : List MapScript
  tables : List TableMapScript
  scope : TT

inductive Top
  | script (s : Script)
  | raw (tok : Tok) (valueTok : Tok) (value : String)
  | text (t : Text)                    -- a `text` statement (rendered through `Program.texts`)
  | movement (m : MovementStmt)
  | mart (tok : Tok) (name : String) (tokenItems : List Tok) (items : List String) (scope : TT)
  | mapscripts (m : MapScripts)

structure Program where
  tops : List Top := []
  texts : List Text := []
  /-- (command id, argument position) ↦ label, in the order the Go code patches them -/
  patches : List ((Nat × Nat) × String) := []

end Pory
