import PoryModel.Emitter
/-
Model of `renderChunks`, `optimizeChunkOrder`, the `render…` methods of chunks and branch
behaviours, and the top-level `Emit`.
-/
namespace Pory.Emit
open Pory

/-- Arguments of a command after the parser's label patching. -/
def patchedArgs (patches : List ((Nat × Nat) × String)) (c : Cmd) : List String :=
  let ps := patches.filter fun p => p.1.1 == c.id
  if ps.isEmpty then c.args
  else (List.range c.args.length).map fun i =>
    match (ps.filter fun p => p.1.2 == i).getLast? with
    | some p => p.2
    | none => c.args.getD i ""

/-- `renderCommandStatement` -/
def renderCommand (patches : List ((Nat × Nat) × String)) (c : Cmd) : Line :=
  .command c.name (patchedArgs patches c)

def findChunk (chunks : List Chunk) (id : Nat) : Option Chunk := chunks.find? (·.id == id)

/-- `getTailChunkID` / `returnID` as used by `optimizeChunkOrder`. -/
def tailId (c : Chunk) : Option Nat :=
  match c.branch with
  | .none => c.returnID
  | .jump d => some d
  | .breakCtx d => d
  | .leaf _ _ f => f
  | .switch_ _ _ (some d) _ => some d
  | .switch_ _ _ none d => d

/-- The inner `for i < len(chunks)` scan. Returns the chosen id (if any) and the new `i`. -/
def scanUnvisited (unvisited : List Nat) (total : Nat) : Nat → Nat → Option Nat × Nat
  | 0, i => (none, i)
  | n + 1, i =>
    if i < total then
      if unvisited.contains i then (some i, i) else scanUnvisited unvisited total n (i + 1)
    else (none, i)

def optimizeLoop (chunks : List Chunk) (total : Nat) :
    Nat → List Nat → List Nat → Nat → Except EFail (List Nat)
  | 0, _, _, _ => .error .outOfFuel
  | n + 1, order, unvisited, i =>
    if order.length < total then
      match order.getLast? with
      | none => .error (.panic "empty order")
      | some last =>
        match findChunk chunks last with
        | none => .error (.panic "nil chunk dereference in optimizeChunkOrder")
        | some cur =>
          let next := tailId cur
          match next with
          | some nx =>
            if unvisited.contains nx then
              optimizeLoop chunks total n (order ++ [nx]) (unvisited.erase nx) i
            else pick n order unvisited i
          | none => pick n order unvisited i
    else .ok order
where
  pick (n : Nat) (order unvisited : List Nat) (i : Nat) : Except EFail (List Nat) :=
    match scanUnvisited unvisited total (total + 1) i with
    | (some j, i') => optimizeLoop chunks total n (order ++ [j]) (unvisited.erase j) i'
    | (none, _) => .error .outOfFuel   -- the Go loop would spin forever here

/-- `optimizeChunkOrder` -/
def optimizeChunkOrder (chunks : List Chunk) : Except EFail (List Nat) :=
  if chunks.isEmpty then .ok []
  else
    let ids := chunks.map (·.id)
    optimizeLoop chunks chunks.length (2 * chunks.length + 2) [0] (ids.erase 0) 1

def insertNat (x : Nat) : List Nat → List Nat
  | [] => [x]
  | y :: ys => if x ≤ y then x :: y :: ys else y :: insertNat x ys

def sortNat (xs : List Nat) : List Nat := xs.foldr insertNat []

/-- `renderBranchComparison` -/
def renderBranchComparison (o : Opts) (scriptName : String) (truthy : Nat) (e : OpExpr) : List Line :=
  let lbl := jumpLabel scriptName truthy
  let isSet := (e.operator == .EQ && e.cmpValue == TT.TRUE.str) ||
               (e.operator == .NEQ && e.cmpValue == TT.FALSE.str)
  marker o e.operand ++
  (match e.type with
   | .FLAG => [if isSet then .gotoIfSet e.operand.lit lbl else .gotoIfUnset e.operand.lit lbl]
   | .VAR =>
     [.compare e.strict e.operand.lit e.cmpValue] ++
       (if (Facts.varCompareOpcode.lookup e.operator).isSome then [.gotoIfCmp e.operator lbl] else [])
   | .DEFEATED => [.checkTrainerFlag e.operand.lit, .gotoIfTrainer isSet lbl]
   | _ => [])

/-- `renderBranching`: lines, chunk ids registered as jump targets, fall-through flag. -/
def renderBranching (o : Opts) (patches : List ((Nat × Nat) × String)) (scriptName : String)
    (c : Chunk) (next : Option Nat) : List Line × List Nat × Bool :=
  let gotoOr (dest : Option Nat) (pre : List Line) (reg : List Nat) : List Line × List Nat × Bool :=
    match dest with
    | none => (pre ++ [.terminator false], reg, false)
    | some d =>
      if some d != next then (pre ++ [.goto_ (jumpLabel scriptName d)], reg ++ [d], false)
      else (pre, reg, true)
  match c.branch with
  | .none =>
    match c.returnID with
    | none => ([.terminator c.useEndTerminator], [], false)
    | some r =>
      if some r != next then ([.goto_ (jumpLabel scriptName r)], [r], false) else ([], [], true)
  | .jump d =>
    if some d != next then ([.goto_ (jumpLabel scriptName d)], [d], false) else ([], [], true)
  | .breakCtx d => gotoOr d [] []
  | .leaf truthy e falsey =>
    let pre := (match e.preamble with | some p => [renderCommand patches p] | none => []) ++
               renderBranchComparison o scriptName truthy e
    gotoOr falsey pre [truthy]
  | .switch_ operand cases dflt dest =>
    let head := marker o operand ++ [.switch_ operand.lit]
    let caseLines := cases.flatMap fun sc =>
      marker o sc.value ++ [.case_ sc.value.lit (jumpLabel scriptName sc.dest)]
    let reg := cases.map (·.dest)
    match dflt with
    | some d =>
      if some d != next then
        (head ++ caseLines ++ [.goto_ (jumpLabel scriptName d)], reg ++ [d], false)
      else (head ++ caseLines, reg, true)
    | none =>
      if dest != next then
        match dest with
        | none => (head ++ caseLines ++ [.terminator false], reg, false)
        | some d => (head ++ caseLines ++ [.goto_ (jumpLabel scriptName d)], reg ++ [d], false)
      else (head ++ caseLines, reg, true)

/-- `renderStatements` -/
def renderStatements (o : Opts) (patches : List ((Nat × Nat) × String))
    (chunkLabels textLabels : List String) : List Stmt → Except EFail (List Line)
  | [] => .ok []
  | .cmd c :: rest =>
    match renderStatements o patches chunkLabels textLabels rest with
    | .error e => .error e
    | .ok ls => .ok (marker o c.tok ++ [renderCommand patches c] ++ ls)
  | .label tok name isGlobal :: rest =>
    if chunkLabels.contains name then
      .error (.perr tok s!"duplicate script label '{name}'. Choose a unique label that won't clash with the auto-generated script labels")
    else if textLabels.contains name then
      .error (.perr tok s!"duplicate text label '{name}'. Choose a unique label that won't clash with the auto-generated text labels")
    else
      match renderStatements o patches chunkLabels textLabels rest with
      | .error e => .error e
      | .ok ls => .ok (marker o tok ++ [.labelDef name isGlobal] ++ ls)
  | _ :: _ => .error (.plain "could not render chunk statement because it is not a command or label statement")

/-- Bodies of all chunks in `order`: (id, lines incl. trailing blank) and registered jump ids. -/
def renderBodies (o : Opts) (patches : List ((Nat × Nat) × String)) (scriptName : String)
    (chunks : List Chunk) (chunkLabels textLabels : List String) :
    List Nat → Except EFail (List (Nat × List Line) × List Nat)
  | [] => .ok ([], [])
  | id :: rest =>
    match findChunk chunks id with
    | none => .error (.panic "nil chunk dereference in renderChunks")
    | some c =>
      match renderStatements o patches chunkLabels textLabels c.statements with
      | .error e => .error e
      | .ok stmtLines =>
        let (brLines, reg, fall) := renderBranching o patches scriptName c rest.head?
        match renderBodies o patches scriptName chunks chunkLabels textLabels rest with
        | .error e => .error e
        | .ok (bodies, regs) =>
          .ok ((id, stmtLines ++ brLines ++ (if fall then [] else [.blank])) :: bodies, reg ++ regs)

/-- `renderChunks` -/
def renderChunks (o : Opts) (patches : List ((Nat × Nat) × String)) (chunks : List Chunk)
    (scriptName : String) (isGlobal : Bool) (textLabels : List String) : Except EFail (List Line) :=
  let orderE := if o.optimize then optimizeChunkOrder chunks else .ok (sortNat (chunks.map (·.id)))
  match orderE with
  | .error e => .error e
  | .ok order =>
    let chunkLabels := chunks.map fun c => chunkLabel scriptName c.id
    match renderBodies o patches scriptName chunks chunkLabels textLabels order with
    | .error e => .error e
    | .ok (bodies, jumpChunks) =>
      .ok (bodies.flatMap fun (id, ls) =>
        (if id == 0 || jumpChunks.contains id then
          [Line.labelDef (chunkLabel scriptName id) (id == 0 && isGlobal)] else []) ++ ls)

/-- `emitScriptStatement` -/
def emitScript (o : Opts) (patches : List ((Nat × Nat) × String)) (textLabels : List String)
    (s : Script) : Except EFail (List Line) :=
  match scriptChunks s.body with
  | .error e => .error e
  | .ok chunks => renderChunks o patches chunks s.name (s.scope == .GLOBAL) textLabels

/-- `strings.Split(s, "\n")` on characters. -/
def splitLines : List Char → List (List Char)
  | [] => [[]]
  | c :: r =>
    match splitLines r with
    | [] => [[c]]     -- unreachable: the result is never empty
    | l :: ls => if c == '\n' then [] :: l :: ls else (c :: l) :: ls

/-- `emitText` -/
def emitText (o : Opts) (t : Text) : List Line :=
  let directive := if t.stringType.length > 0 then t.stringType else "string"
  [.labelDef t.name t.isGlobal] ++ marker o t.tok ++
    (splitLines t.value.toList).map fun l => .textLine directive (String.ofList l)

/-- `emitRawStatement` (always one `raw` line per source line; the text is the same). -/
def emitRaw (o : Opts) (valueTok : Tok) (value : String) : List Line :=
  let lines := splitLines value.toList
  (List.range lines.length).flatMap fun i =>
    (if o.markers then [Line.marker (valueTok.line + i) o.inputPath] else []) ++
      [.raw (String.ofList (lines.getD i []))]

/-- `emitMovementStatement` -/
def emitMovement (o : Opts) (m : MovementStmt) : List Line :=
  marker o m.tok ++ [.labelDef m.name (m.scope == .GLOBAL)] ++ steps m.cmds
where
  steps : List Tok → List Line
    | [] => [.step Facts.movementTerminator]
    | c :: r =>
      marker o c ++ [.step c.lit] ++ (if c.lit == Facts.movementTerminator then [] else steps r)

/-- `emitMartStatement` -/
def emitMart (o : Opts) (tok : Tok) (name : String) (tokenItems : List Tok) (items : List String)
    (scope : TT) : List Line :=
  [.align2] ++ marker o tok ++ [.labelDef name (scope == .GLOBAL)] ++ go tokenItems items
where
  go : List Tok → List String → List Line
    | _, [] => [.twoByte Facts.martTerminator]
    | ts, item :: r =>
      if item == Facts.martTerminator then [.twoByte Facts.martTerminator]
      else marker o (ts.headD {}) ++ [.twoByte item] ++ go ts.tail r

def emitScripts (o : Opts) (patches : List ((Nat × Nat) × String)) (textLabels : List String) :
    List (Option Script) → Except EFail (List Line)
  | [] => .ok []
  | none :: r => emitScripts o patches textLabels r
  | some s :: r =>
    match emitScript o patches textLabels s with
    | .error e => .error e
    | .ok ls =>
      match emitScripts o patches textLabels r with
      | .error e => .error e
      | .ok ls' => .ok (ls ++ ls')

def emitTables (o : Opts) (patches : List ((Nat × Nat) × String)) (textLabels : List String) :
    List TableMapScript → Except EFail (List Line)
  | [] => .ok []
  | t :: r =>
    let head : List Line := [.labelDef t.name false] ++
      (t.entries.flatMap fun e => marker o e.condition ++ [.mapScript2 e.condition.lit e.comparison e.name]) ++
      [.twoByte0]
    match emitScripts o patches textLabels (t.entries.map (·.script)) with
    | .error e => .error e
    | .ok ls =>
      match emitTables o patches textLabels r with
      | .error e => .error e
      | .ok ls' => .ok (head ++ ls ++ ls')

/-- `emitMapScriptStatement` -/
def emitMapScripts (o : Opts) (patches : List ((Nat × Nat) × String)) (textLabels : List String)
    (m : MapScripts) : Except EFail (List Line) :=
  let head : List Line := [.labelDef m.name (m.scope == .GLOBAL)] ++
    (m.mapScripts.flatMap fun ms => marker o ms.type ++ [.mapScript ms.type.lit ms.name]) ++
    (m.tables.flatMap fun t => marker o t.type ++ [.mapScript t.type.lit t.name]) ++
    [.byte0]
  match emitScripts o patches textLabels (m.mapScripts.map (·.script)) with
  | .error e => .error e
  | .ok ls =>
    match emitTables o patches textLabels m.tables with
    | .error e => .error e
    | .ok ls' => .ok (head ++ ls ++ ls')

/-- The loop over top-level statements of `Emit`; `i` counts rendered statements. -/
def emitTops (o : Opts) (patches : List ((Nat × Nat) × String)) (textLabels : List String) :
    List Top → Nat → Except EFail (List Line × Nat)
  | [], i => .ok ([], i)
  | .text _ :: r, i => emitTops o patches textLabels r i
  | t :: r, i =>
    let sep : List Line := if i > 0 then [.blank] else []
    let this : Except EFail (List Line) :=
      match t with
      | .mapscripts m => emitMapScripts o patches textLabels m
      | .script s => emitScript o patches textLabels s
      | .raw _ vtok v => .ok (emitRaw o vtok v)
      | .movement m => .ok (emitMovement o m)
      | .mart tok name tis items scope => .ok (emitMart o tok name tis items scope)
      | .text _ => .ok []
    match this with
    | .error e => .error e
    | .ok ls =>
      match emitTops o patches textLabels r (i + 1) with
      | .error e => .error e
      | .ok (ls', n) => .ok (sep ++ ls ++ ls', n)

/-- `Emitter.Emit` as structured lines. -/
def emitProgram (o : Opts) (p : Program) : Except EFail (List Line) :=
  let textLabels := p.texts.map (·.name)
  match emitTops o p.patches textLabels p.tops 0 with
  | .error e => .error e
  | .ok (ls, i) =>
    let texts := (List.range p.texts.length).flatMap fun j =>
      (if i + j > 0 then [Line.blank] else []) ++ emitText o (p.texts.getD j {})
    .ok (ls ++ texts)

end Pory.Emit
