import PoryModel.Generated.Facts
/-
`token.Token`: type, literal and the six position fields.
-/
namespace Pory

structure Tok where
  type : TT := .ILLEGAL
  lit : String := ""
  line : Nat := 0          -- LineNumber
  startChar : Nat := 0     -- StartCharIndex (bytes)
  startUtf8 : Nat := 0     -- StartUtf8CharIndex (characters)
  endLine : Nat := 0       -- EndLineNumber
  endChar : Nat := 0       -- EndCharIndex
  endUtf8 : Nat := 0       -- EndUtf8CharIndex
  deriving DecidableEq, Repr, Inhabited

/-- `string(tokenType)` in Go. -/
def TT.str (t : TT) : String := Facts.ttString t

/-- `token.GetIdentType`. -/
def getIdentType (ident : String) : TT :=
  match Facts.keywords.lookup ident with
  | some t => t
  | none => .IDENT

end Pory
