import PoryModel.Token
/-
Model of `lexer/lexer.go`.

The Go lexer keeps a byte offset into the input, the current rune `ch` (0 at end of input *and*
for a NUL character), and five counters.  Here the input is the list of characters from the
current character on (`[]` = end of input) and `Pos` holds the counters.  Every Go method is one
function; loops that consume one character per iteration are structural recursions over the
list, loops whose body consumes a variable number of characters take a fuel argument equal to
the remaining length (+1).
-/
namespace Pory.Lexer
open Pory

def inRanges (tab : Array (Nat × Nat × Nat)) (n : Nat) : Bool :=
  tab.any fun (lo, hi, stride) => lo ≤ n && n ≤ hi && (n - lo) % stride == 0

/-- `unicode.IsLetter(ch) || ch == '_'` -/
def isLetter (c : Char) : Bool := inRanges Facts.unicodeLetter c.toNat || c == '_'
/-- `unicode.IsDigit` -/
def isDigit (c : Char) : Bool := inRanges Facts.unicodeDigit c.toNat
/-- `unicode.IsSpace` -/
def isSpace (c : Char) : Bool := inRanges Facts.unicodeSpace c.toNat
def isHexDigit (c : Char) : Bool :=
  ('0' ≤ c && c ≤ '9') || ('a' ≤ c && c ≤ 'f') || ('A' ≤ c && c ≤ 'F')

def NUL : Char := Char.ofNat 0
def RuneError : Char := Char.ofNat 0xFFFD

/-- The lexer's counters: `lineNumber, prevCharNumber, charNumber, prevUtf8CharNumber,
utf8CharNumber`. -/
structure Pos where
  line : Nat := 1
  prevCol : Nat := 0
  col : Nat := 0
  prevUcol : Nat := 0
  ucol : Nat := 0
  deriving Repr, DecidableEq, Inhabited

/-- Lexer state: characters from the current one on, and the counters. -/
structure LS where
  inp : List Char
  p : Pos
  deriving Repr, DecidableEq, Inhabited

/-- `l.ch` -/
def ch (inp : List Char) : Char := inp.headD NUL

def nextSize : List Char → Nat
  | [] => 0
  | c :: _ => c.utf8Size

/-- Counter update of `readChar` when leaving character `c` with `r` following. -/
def adv (c : Char) (r : List Char) (p : Pos) : Pos :=
  let sz := nextSize r
  if c == '\n' then
    { line := p.line + 1, prevCol := 0, col := sz, prevUcol := 0, ucol := 1 }
  else
    { line := p.line, prevCol := p.col, col := p.col + sz, prevUcol := p.ucol,
      ucol := p.ucol + (if sz > 0 then 1 else 0) }

/-- `readChar` at end of input. -/
def advEOF (p : Pos) : Pos := { p with prevCol := p.col, prevUcol := p.ucol }

def readChar (s : LS) : LS :=
  match s.inp with
  | [] => ⟨[], advEOF s.p⟩
  | c :: r => ⟨r, adv c r s.p⟩

/-- `lexer.New`: line 1, then one `readChar`. -/
def initLS (input : List Char) : LS :=
  ⟨input, { line := 1, prevCol := 0, col := nextSize input, prevUcol := 0,
            ucol := if input.isEmpty then 0 else 1 }⟩

/-- `peekChar` (returns 0 for U+FFFD, as the Go code does). -/
def peekChar (inp : List Char) : Char :=
  match inp with
  | _ :: d :: _ => if d == RuneError then NUL else d
  | _ => NUL

def isWs (c : Char) : Bool := c == ' ' || c == '\t' || c == '\n' || c == '\r'

def skipWhitespace : List Char → Pos → LS
  | [], p => ⟨[], p⟩
  | c :: r, p => if isWs c then skipWhitespace r (adv c r p) else ⟨c :: r, p⟩

def skipToNextLine : List Char → Pos → LS
  | [], p => readChar ⟨[], p⟩
  | c :: r, p =>
    if c != '\n' then skipToNextLine r (adv c r p) else readChar ⟨c :: r, p⟩

def isCommentStart (inp : List Char) : Bool :=
  ch inp == '#' || (ch inp == '/' && peekChar inp == '/')

def skipComments : Nat → LS → LS
  | 0, s => s
  | n + 1, s =>
    if isCommentStart s.inp then
      let t := skipToNextLine s.inp s.p
      skipComments n (skipWhitespace t.inp t.p)
    else s

/-- `skipNewlineWhitespace`: returns whether anything was skipped. -/
def skipNewlineWs : List Char → Pos → Bool → Bool × LS
  | [], p, b => (b, ⟨[], p⟩)
  | c :: r, p, b =>
    if c == '\n' || c == '\r' then skipNewlineWs r (adv c r p) true else (b, ⟨c :: r, p⟩)

def newSingleCharToken (t : TT) (c : Char) (p : Pos) : Tok :=
  { type := t, lit := String.singleton c, line := p.line, endLine := p.line,
    startChar := p.col - 1, startUtf8 := p.ucol - 1, endChar := p.col, endUtf8 := p.ucol }

/-- Two-character operator; `p` are the counters after the `readChar` onto the second char. -/
def twoCharToken (t : TT) (c d : Char) (p : Pos) : Tok :=
  { type := t, lit := String.ofList [c, d], line := p.line, endLine := p.line,
    startChar := p.col - 2, startUtf8 := p.ucol - 2, endChar := p.col, endUtf8 := p.ucol }

/-- `readNumber`: `for unicode.IsDigit(l.ch) { l.readChar() }` -/
def readNumber : List Char → Pos → List Char × LS
  | [], p => ([], ⟨[], p⟩)
  | c :: r, p =>
    if isDigit c then
      let (ds, s) := readNumber r (adv c r p)
      (c :: ds, s)
    else ([], ⟨c :: r, p⟩)

def readHexNumber : List Char → Pos → List Char × LS
  | [], p => ([], ⟨[], p⟩)
  | c :: r, p =>
    if isHexDigit c then
      let (ds, s) := readHexNumber r (adv c r p)
      (c :: ds, s)
    else ([], ⟨c :: r, p⟩)

/-- `readIdentifier` after its first character (which the caller knows to be a letter). -/
def readIdentRest : List Char → Pos → List Char × LS
  | [], p => ([], ⟨[], p⟩)
  | c :: r, p =>
    if isLetter c || isDigit c then
      let (cs, s) := readIdentRest r (adv c r p)
      (c :: cs, s)
    else ([], ⟨c :: r, p⟩)

/-- Inner loop of `readString`: content of one part up to the closing quote / NUL / end. -/
def strBody : Nat → LS → List Char × LS
  | 0, s => ([], s)
  | n + 1, s =>
    match s.inp with
    | [] => ([], s)
    | c :: r =>
      if c == '"' || c == NUL then ([], s)
      else
        let (skipped, s1) := skipNewlineWs s.inp s.p false
        if skipped then
          let s2 := skipWhitespace s1.inp s1.p
          let (rest, s3) := strBody n s2
          (' ' :: rest, s3)
        else
          let (rest, s3) := strBody n ⟨r, adv c r s.p⟩
          (c :: rest, s3)

/-- `readString`: all adjacent parts; returns content, (endLine, endChar, endUtf8), state. -/
def readString : Nat → LS → List Char → Nat × Nat × Nat → List Char × (Nat × Nat × Nat) × LS
  | 0, s, sb, e => (sb, e, s)
  | n + 1, s, sb, e =>
    if ch s.inp == '"' then
      let sb1 := if sb.isEmpty then sb else sb ++ ['\n']
      let s1 := readChar s
      let (body, s2) := strBody (s1.inp.length + 1) s1
      let s3 := readChar s2
      let e' := (s3.p.line, s3.p.prevCol, s3.p.prevUcol)
      let s4 := skipWhitespace s3.inp s3.p
      readString n s4 (sb1 ++ body) e'
    else (sb, e, s)

def readStringToken (s : LS) : Tok × LS :=
  let (lit, (el, ec, eu), s') := readString (s.inp.length + 1) s [] (0, 0, 0)
  ({ type := .STRING, lit := String.ofList lit, line := s.p.line, startChar := s.p.prevCol,
     startUtf8 := s.p.prevUcol, endLine := el, endChar := ec, endUtf8 := eu }, s')

/-- loop of `readRaw` -/
def rawBody : List Char → Pos → List Char × LS
  | [], p => ([], ⟨[], p⟩)
  | c :: r, p =>
    if c != '`' && c != NUL then
      let (cs, s) := rawBody r (adv c r p)
      (c :: cs, s)
    else ([], ⟨c :: r, p⟩)

/-- `strings.TrimRightFunc(s, unicode.IsSpace)` -/
def trimRightSpace (cs : List Char) : List Char :=
  (cs.reverse.dropWhile isSpace).reverse

def eofToken (p : Pos) : Tok :=
  { type := .EOF, lit := "", line := p.line, endLine := p.line, startChar := p.col,
    startUtf8 := p.ucol, endChar := p.col, endUtf8 := p.ucol }

/-- `NextToken` (without the queue: a STRINGTYPE and its STRING are returned together).
The Boolean is true when the real end of input was reached. -/
def nextToken (s0 : LS) : List Tok × LS × Bool :=
  let s1 := skipWhitespace s0.inp s0.p
  let s := skipComments (s1.inp.length + 1) s1
  let p := s.p
  match s.inp with
  | [] => ([eofToken p], readChar s, true)
  | c :: _ =>
    let pk := peekChar s.inp
    let one (t : TT) : List Tok × LS × Bool := ([newSingleCharToken t c p], readChar s, false)
    let two (t : TT) : List Tok × LS × Bool :=
      let s' := readChar s
      ([twoCharToken t c (ch s'.inp) s'.p], readChar s', false)
    if c == '*' then one .MUL
    else if c == '=' then (if pk == '=' then two .EQ else one .ASSIGN)
    else if c == '!' then (if pk == '=' then two .NEQ else one .NOT)
    else if c == '<' then (if pk == '=' then two .LTE else one .LT)
    else if c == '>' then (if pk == '=' then two .GTE else one .GT)
    else if c == '&' then (if pk == '&' then two .AND else one .ILLEGAL)
    else if c == '|' then (if pk == '|' then two .OR else one .ILLEGAL)
    else if c == '(' then one .LPAREN
    else if c == ')' then one .RPAREN
    else if c == '[' then one .LBRACKET
    else if c == ']' then one .RBRACKET
    else if c == ',' then one .COMMA
    else if c == ':' then one .COLON
    else if c == '"' then
      let (t, s') := readStringToken s
      ([t], s', false)
    else if c == '`' then
      let s' := readChar s
      let (body, s2) := rawBody s'.inp s'.p
      let s3 := readChar s2
      ([{ type := .RAWSTRING, lit := String.ofList (trimRightSpace body), line := p.line,
          startChar := p.col - 1, startUtf8 := p.ucol - 1, endLine := s3.p.line,
          endChar := s3.p.col, endUtf8 := s3.p.ucol }], s3, false)
    else if c == '{' then one .LBRACE
    else if c == '}' then one .RBRACE
    else if c == '0' then
      if pk == 'x' then
        let s' := readChar (readChar s)
        let (ds, s2) := readHexNumber s'.inp s'.p
        ([{ type := .INT, lit := String.ofList ('0' :: 'x' :: ds), line := p.line,
            startChar := p.col - 1, startUtf8 := p.ucol - 1, endLine := s2.p.line,
            endChar := s2.p.prevCol, endUtf8 := s2.p.prevUcol }], s2, false)
      else
        let (ds, s2) := readNumber s.inp s.p
        ([{ type := .INT, lit := String.ofList ds, line := p.line,
            startChar := p.col - 1, startUtf8 := p.ucol - 1, endLine := s2.p.line,
            endChar := s2.p.prevCol, endUtf8 := s2.p.prevUcol }], s2, false)
    else if c == NUL then ([eofToken p], readChar s, false)
    else if isLetter c then
      let s' := readChar s
      let (cs, s2) := readIdentRest s'.inp s'.p
      let lit := String.ofList (c :: cs)
      let tok : Tok := { type := getIdentType lit, lit := lit, line := p.line,
                         startChar := p.prevCol, startUtf8 := p.prevUcol, endLine := s2.p.line,
                         endChar := s2.p.prevCol, endUtf8 := s2.p.prevUcol }
      if ch s2.inp == '"' then
        let (st, s3) := readStringToken s2
        ([{ tok with type := .STRINGTYPE }, st], s3, false)
      else ([tok], s2, false)
    else if isDigit c || (c == '-' && isDigit pk) then
      if c == '-' then
        let s' := readChar s
        let (ds, s2) := readNumber s'.inp s'.p
        ([{ type := .INT, lit := String.ofList ('-' :: ds), line := p.line,
            startChar := p.prevCol, startUtf8 := p.prevUcol, endLine := s2.p.line,
            endChar := s2.p.prevCol, endUtf8 := s2.p.prevUcol }], s2, false)
      else
        let (ds, s2) := readNumber s.inp s.p
        ([{ type := .INT, lit := String.ofList ds, line := p.line,
            startChar := p.prevCol, startUtf8 := p.prevUcol, endLine := s2.p.line,
            endChar := s2.p.prevCol, endUtf8 := s2.p.prevUcol }], s2, false)
    else
      ([{ newSingleCharToken .ILLEGAL c p with startChar := p.prevCol }], readChar s, false)

def lexLoop : Nat → LS → List Tok
  | 0, _ => []
  | n + 1, s =>
    let (ts, s', done) := nextToken s
    if done then ts else ts ++ lexLoop n s'

/-- All tokens of an input, ending with the EOF token that the Go lexer keeps returning. -/
def lexAll (input : List Char) : List Tok :=
  lexLoop (input.length + 2) (initLS input)

end Pory.Lexer
