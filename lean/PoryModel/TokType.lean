/-
Token types of `token/token.go`. Go's `token.Type` is a string; the string value of every
constant is regenerated into `Generated/Facts.lean` (`Facts.ttString`) on every run.
-/
namespace Pory

inductive TT
  | ILLEGAL | EOF | IDENT | INT | STRING | RAWSTRING | STRINGTYPE
  | ASSIGN | EQ | NEQ | LT | GT | LTE | GTE | AND | OR | NOT | MUL
  | COMMA | COLON | LPAREN | RPAREN | LBRACE | RBRACE | LBRACKET | RBRACKET
  | SCRIPT | RAW | TEXT | MOVEMENT | MART | MAPSCRIPTS | FORMAT | VAR | FLAG | DEFEATED
  | TRUE | FALSE | IF | ELSE | ELSEIF | DO | WHILE | BREAK | CONTINUE | SWITCH | CASE
  | DEFAULT | GLOBAL | LOCAL | PORYSWITCH | CONST | VALUE | MOVES
  deriving DecidableEq, Repr, Inhabited

end Pory
