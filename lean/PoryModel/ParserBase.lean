import PoryModel.Ast
import PoryModel.FormatText
/-
Parser model, part 1: state, monad, token window, errors, helpers
(`parser/parser.go`, `parser/parse_error.go`).
-/
namespace Pory.Parser
open Pory

/-- `parser.ParseError` -/
structure PErr where
  lineStart : Nat
  lineEnd : Nat
  charStart : Nat
  utf8Start : Nat
  charEnd : Nat
  utf8End : Nat
  msg : String
  deriving Repr, DecidableEq, Inhabited

/-- Ways a model run can end without a result. `outOfFuel` and `panic` are distinct from every
result the Go code can return; theorems show they are unreachable. -/
inductive PFail
  | err (e : PErr)
  | outOfFuel
  | panic (what : String)
  deriving Repr, DecidableEq, Inhabited

def newParseError (tok : Tok) (msg : String) : PFail :=
  .err { lineStart := tok.line, lineEnd := tok.endLine, charStart := tok.startChar,
         utf8Start := tok.startUtf8, charEnd := tok.endChar, utf8End := tok.endUtf8, msg := msg }

def newRangeParseError (t1 t2 : Tok) (msg : String) : PFail :=
  .err { lineStart := t1.line, lineEnd := t2.endLine, charStart := t1.startChar,
         utf8Start := t1.startUtf8, charEnd := t2.endChar, utf8End := t2.endUtf8, msg := msg }

/-- `AutoVarCommand` -/
structure AutoVar where
  varName : String := ""
  argPos : Option Int := none
  deriving Repr, Inhabited

/-- Everything the parser reads but never writes. -/
structure Env where
  autoVars : List (String × AutoVar) := []
  fonts : Fmt.FontConfig := {}
  defaultFontID : String := ""
  maxLineLength : Int := 0
  switches : List (String × String) := []
  envErrors : Bool := true          -- enableEnvironmentErrors (false = lint parser)
  deriving Inhabited

structure ImpText where
  cmdId : Nat
  argPos : Nat
  text : Tok
  stringType : String
  scriptName : String
  deriving Repr, Inhabited

structure ImpMovement where
  cmdId : Nat
  cmdTok : Tok
  argPos : Nat
  movements : List Tok
  scriptName : String
  deriving Repr, Inhabited

structure ImpData where
  texts : List ImpText := []
  movements : List ImpMovement := []
  deriving Repr, Inhabited

def ImpData.add (a b : ImpData) : ImpData :=
  { texts := a.texts ++ b.texts, movements := a.movements ++ b.movements }

structure PState where
  toks : List Tok                 -- head = curToken, then peekToken, peek2Token, …
  eof : Tok                       -- what the lexer keeps returning at end of input
  constants : List (String × String) := []
  breakStack : List Nat := []
  continueStack : List Nat := []
  nextSid : Nat := 0
  nextCmdId : Nat := 0
  inlineTexts : List Text := []                               -- in order of creation
  inlineTextsSet : List ((String × String) × String) := []    -- (value, type) ↦ label
  inlineTextCounts : List (String × Nat) := []
  inlineMovements : List MovementStmt := []
  inlineMovementsSet : List (String × String) := []
  inlineMovementCounts : List (String × Nat) := []
  textStatements : List Text := []
  patches : List ((Nat × Nat) × String) := []
  deriving Inhabited

abbrev PM := StateT PState (Except PFail)

def cur : PM Tok := do let s ← get; pure (s.toks.headD s.eof)
def peekAt (n : Nat) : PM Tok := do let s ← get; pure (s.toks.getD n s.eof)
def peek : PM Tok := peekAt 1
def peek2 : PM Tok := peekAt 2
def peek3 : PM Tok := peekAt 3
def peek4 : PM Tok := peekAt 4
def nextToken : PM Unit := modify fun s => { s with toks := s.toks.tail }
def curIs (t : TT) : PM Bool := do pure ((← cur).type == t)
def peekIs (t : TT) : PM Bool := do pure ((← peek).type == t)
def peek2Is (t : TT) : PM Bool := do pure ((← peek2).type == t)
def fail {α} (e : PFail) : PM α := throw e

/-- `expectPeek`: on failure returns the generic error (callers usually replace it). -/
def expectPeek (t : TT) : PM Bool := do
  if (← peekIs t) then nextToken; pure true else pure false

def expectPeekErr (t : TT) : PM Unit := do
  let pk ← peek
  if pk.type == t then nextToken
  else fail (newParseError pk s!"expected next token to be '{t.str}', got '{pk.lit}' instead")

def lookupD (m : List (String × Nat)) (k : String) : Nat := (m.lookup k).getD 0

def setCount (m : List (String × Nat)) (k : String) (v : Nat) : List (String × Nat) :=
  (k, v) :: m.filter (fun e => e.1 != k)

/-- `tryReplaceWithConstant` -/
def tryReplaceWithConstant (value : String) : PM String := do
  let s ← get
  pure ((s.constants.lookup value).getD value)

/-- `strings.Join(parts, " ")` -/
def joinSp (parts : List String) : String := " ".intercalate parts

/-- `strings.HasSuffix` on character lists. -/
def hasSuffix (text suffix : List Char) : Bool := suffix.reverse.isPrefixOf text.reverse

/-- `formatTextTerminator` -/
def formatTextTerminator (text : String) (strType : String) : String :=
  match Facts.textSuffixes.lookup strType with
  | none => text
  | some suffix => if hasSuffix text.toList suffix.toList then text else text ++ suffix

def getImplicitTextLabel (scriptName : String) (i : Nat) : String := s!"{scriptName}_Text_{i}"
def getImplicitMovementLabel (scriptName : String) (i : Nat) : String := s!"{scriptName}_Movement_{i}"

/-- `getMovementsKey` -/
def getMovementsKey (ms : List Tok) : String := String.join (ms.map fun m => m.lit ++ ":")

/-- One iteration of `addImplicitTexts`. -/
def addTextStep (s : PState) (t : ImpText) : PState :=
  let key := (t.text.lit, t.stringType)
  match s.inlineTextsSet.lookup key with
  | some label => { s with patches := s.patches ++ [((t.cmdId, t.argPos), label)] }
  | none =>
    let n := lookupD s.inlineTextCounts t.scriptName
    let label := getImplicitTextLabel t.scriptName n
    { s with patches := s.patches ++ [((t.cmdId, t.argPos), label)],
             inlineTextCounts := setCount s.inlineTextCounts t.scriptName (n + 1),
             inlineTextsSet := (key, label) :: s.inlineTextsSet,
             inlineTexts := s.inlineTexts ++
               [{ name := label, value := t.text.lit, tok := t.text, stringType := t.stringType,
                  isGlobal := false }] }

/-- `addImplicitTexts` -/
def addImplicitTexts (texts : List ImpText) : PM Unit :=
  modify fun s => texts.foldl addTextStep s

/-- One iteration of `addImplicitMovements`. -/
def addMovementStep (s : PState) (m : ImpMovement) : PState :=
  let key := getMovementsKey m.movements
  match s.inlineMovementsSet.lookup key with
  | some label => { s with patches := s.patches ++ [((m.cmdId, m.argPos), label)] }
  | none =>
    let n := lookupD s.inlineMovementCounts m.scriptName
    let label := getImplicitMovementLabel m.scriptName n
    { s with patches := s.patches ++ [((m.cmdId, m.argPos), label)],
             inlineMovementCounts := setCount s.inlineMovementCounts m.scriptName (n + 1),
             inlineMovementsSet := (key, label) :: s.inlineMovementsSet,
             inlineMovements := s.inlineMovements ++
               [{ tok := m.cmdTok, name := label, cmds := m.movements, scope := .LOCAL }] }

/-- `addImplicitMovements` -/
def addImplicitMovements (ms : List ImpMovement) : PM Unit :=
  modify fun s => ms.foldl addMovementStep s

def addImplicitData (d : ImpData) : PM Unit := do
  addImplicitTexts d.texts
  addImplicitMovements d.movements

/-! ### `strconv.ParseInt(s, 0, 64)` -/

inductive IntErr | syntax | range
  deriving Repr, DecidableEq

def lowerAscii (c : Char) : Char := if 'A' ≤ c && c ≤ 'Z' then Char.ofNat (c.toNat + 32) else c

def digitVal (c : Char) : Option Nat :=
  if '0' ≤ c && c ≤ '9' then some (c.toNat - '0'.toNat)
  else
    let l := lowerAscii c
    if 'a' ≤ l && l ≤ 'z' then some (l.toNat - 'a'.toNat + 10) else none

def parseDigits (base : Nat) : List Char → Nat → Except IntErr Nat
  | [], acc => .ok acc
  | c :: r, acc =>
    match digitVal c with
    | some d =>
      if d < base then
        -- Go stops with a range error at the first digit that overflows 64 bits
        if acc * base + d ≥ 2 ^ 64 then .error .range else parseDigits base r (acc * base + d)
      else .error .syntax
    | none => .error .syntax

/-- Unsigned part with base prefix detection (base 0). Underscores never occur in literals the
lexer produces (`_` is not a digit: syntax error, as in Go for a misplaced underscore). -/
def parseUintBase0 (s : List Char) : Except IntErr Nat :=
  match s with
  | [] => .error .syntax
  | '0' :: r =>
    match r with
    | c :: r2 =>
      if r2.length ≥ 1 && lowerAscii c == 'b' then parseDigits 2 r2 0
      else if r2.length ≥ 1 && lowerAscii c == 'o' then parseDigits 8 r2 0
      else if r2.length ≥ 1 && lowerAscii c == 'x' then parseDigits 16 r2 0
      else parseDigits 8 r 0
    | [] => .ok 0
  | _ => parseDigits 10 s 0

/-- Value and error of `strconv.ParseInt(s, 0, 64)` (on a range error Go returns the clamped
value together with the error). -/
def parseInt (s : String) : Int × Option IntErr :=
  let cs := s.toList
  match cs with
  | [] => (0, some .syntax)
  | c :: r =>
    let (neg, body) := if c == '+' then (false, r) else if c == '-' then (true, r) else (false, cs)
    let cutoff : Nat := 2 ^ 63
    let clamp : Int × Option IntErr :=
      if neg then (-(Int.ofNat cutoff), some .range) else (Int.ofNat (cutoff - 1), some .range)
    match parseUintBase0 body with
    | .error .syntax => (0, some .syntax)
    | .error .range => clamp
    | .ok un =>
      if !neg && un ≥ cutoff then clamp
      else if neg && un > cutoff then clamp
      else (if neg then -(Int.ofNat un) else Int.ofNat un, none)

/-- `err.Error()` of the `*strconv.NumError`. -/
def parseIntErrMsg (s : String) (e : IntErr) : String :=
  let what := match e with | .syntax => "invalid syntax" | .range => "value out of range"
  "strconv.ParseInt: parsing \"" ++ s ++ "\": " ++ what

end Pory.Parser
