import PoryModel.Ast
/-
Model of `emitter/emitter.go`, `emitter/chunk.go`, `emitter/branch.go`.

The same FIFO worklist as the Go code (so chunk ids coincide), producing *structured lines*;
`Render.lean` turns them into the text.  Go's `-1` ids are `none`.
-/
namespace Pory.Emit
open Pory

/-- One output line (or, for `raw`, one raw block). -/
inductive Line
  | labelDef (name : String) (isGlobal : Bool)
  | command (name : String) (args : List String)
  | goto_ (label : String)
  | gotoIfSet (flag label : String)
  | gotoIfUnset (flag label : String)
  | compare (strict : Bool) (var value : String)
  | gotoIfCmp (op : TT) (label : String)
  | checkTrainerFlag (trainer : String)
  | gotoIfTrainer (set : Bool) (label : String)
  | switch_ (operand : String)
  | case_ (value label : String)
  | terminator (isEnd : Bool)                 -- `end` / `return`
  | marker (line : Nat) (file : String)
  | blank
  | raw (text : String)
  | mapScript (type name : String)
  | mapScript2 (cond cmp name : String)
  | byte0                                     -- `\t.byte 0` followed by an empty line
  | twoByte0                                  -- `\t.2byte 0` followed by an empty line
  | align2
  | twoByte (item : String)
  | step (cmd : String)
  | textLine (directive content : String)
  deriving Repr, DecidableEq, Inhabited

structure SwitchCaseBranch where
  value : Tok
  dest : Nat
  deriving Repr, Inhabited

/-- `brancher` implementations. -/
inductive Branch
  | none
  | jump (dest : Nat)
  | breakCtx (dest : Option Nat)
  | leaf (truthy : Nat) (e : OpExpr) (falsey : Option Nat)
  | switch_ (operand : Tok) (cases : List SwitchCaseBranch) (default : Option Nat) (dest : Option Nat)
  deriving Inhabited

structure Chunk where
  id : Nat
  returnID : Option Nat := Option.none
  useEndTerminator : Bool := false
  statements : List Stmt := []
  branch : Branch := .none
  deriving Inhabited

/-- Ways the emitter model can stop without output. -/
inductive EFail
  | perr (tok : Tok) (msg : String)       -- a `parser.ParseError` (label clashes)
  | plain (msg : String)                  -- `errors.New` / `fmt.Errorf`
  | outOfFuel
  | panic (what : String)
  deriving Repr, Inhabited

structure Opts where
  optimize : Bool := true
  lineMarkers : Bool := true
  inputPath : String := ""
  deriving Repr, Inhabited

def Opts.markers (o : Opts) : Bool := o.lineMarkers && o.inputPath.length > 0

/-- `tryEmitLineMarker` -/
def marker (o : Opts) (tok : Tok) : List Line :=
  if o.markers then [.marker tok.line o.inputPath] else []

/-- `chunk.getLabel` -/
def chunkLabel (scriptName : String) (id : Nat) : String :=
  if id == 0 then scriptName else s!"{scriptName}_{id}"

/-- generated jump target `"%s_%d"` (no special case for 0, as in the Go `Sprintf`s) -/
def jumpLabel (scriptName : String) (id : Nat) : String := s!"{scriptName}_{id}"

/-- Worklist state of `emitScriptStatement`. -/
structure WS where
  counter : Nat := 0
  final : List Chunk := []                      -- `finalChunks`, newest binding first
  queue : List Chunk := []                      -- `remainingChunks`
  brk : List (Nat × Option Nat) := []           -- `breakStatementReturnChunks`
  cont : List (Nat × Nat) := []                 -- `breakStatementOriginChunks`
  deriving Inhabited

def WS.setFinal (s : WS) (c : Chunk) : WS := { s with final := c :: s.final.filter (·.id != c.id) }

/-- `splitChunkForBranch`: queue the statements after index `i` as a new chunk if there are
any; returns the return id of the branch statement (and the updated state). -/
def splitChunkForBranch (c : Chunk) (i : Nat) (s : WS) : WS × Option Nat :=
  if i + 1 == c.statements.length then (s, c.returnID)
  else
    let id := s.counter + 1
    let nc : Chunk := { id := id, returnID := c.returnID, statements := c.statements.drop (i + 1) }
    ({ s with counter := id, queue := s.queue ++ [nc] }, some id)

/-- `keepStatementsAfterJump` -/
def keepStatementsAfterJump (c : Chunk) (i : Nat) (s : WS) : WS :=
  if i + 1 == c.statements.length then s
  else
    let id := s.counter + 1
    { s with counter := id,
             queue := s.queue ++ [{ id := id, returnID := c.returnID, statements := c.statements.drop (i + 1) }] }

/-- `splitBooleanExpressionChunks`: returns state, id of the (leftmost) entry chunk. -/
def splitBool : BoolExpr → Nat → Option Nat → WS → Except EFail (WS × Nat)
  | .leaf e, succ, failure, s =>
    let id := s.counter + 1
    let c : Chunk := { id := id, branch := .leaf succ e failure }
    .ok ({ s with counter := id, queue := s.queue ++ [c] }, id)
  | .bin l op r, succ, failure, s =>
    if op == .AND then
      let sid := s.counter + 1
      let s := { s with counter := sid }
      match splitBool l sid failure s with
      | .error e => .error e
      | .ok (s, lEntry) =>
        match splitBool r succ failure s with
        | .error e => .error e
        | .ok (s, rEntry) =>
          .ok ({ s with queue := s.queue ++ [{ id := sid, branch := .jump rEntry }] }, lEntry)
    else if op == .OR then
      let fid := s.counter + 1
      let s := { s with counter := fid }
      match splitBool l succ (some fid) s with
      | .error e => .error e
      | .ok (s, lEntry) =>
        match splitBool r succ failure s with
        | .error e => .error e
        | .ok (s, rEntry) =>
          .ok ({ s with queue := s.queue ++ [{ id := fid, branch := .jump rEntry }] }, lEntry)
    else .error (.panic "nil chunk dereference: binary expression with an operator other than && / ||")

def alloc (s : WS) : WS × Nat := ({ s with counter := s.counter + 1 }, s.counter + 1)

/-- elif chain of `createIfStatementChunks`, processed from the last elif to the first;
`ids` are the elif body chunk ids. Returns the entry of the first elif. -/
def splitElifs (elifs : List (BoolExpr × List Stmt)) (ids : List Nat) (lastFail : Option Nat) (s : WS) :
    Except EFail (WS × Option Nat) :=
  match elifs, ids with
  | (e, _) :: restE, id :: restI =>
    match splitElifs restE restI lastFail s with
    | .error err => .error err
    | .ok (s, nextEntry) =>
      -- `nextEntry` is the entry of the following elif, or `lastFail` for the last one
      match splitBool e id nextEntry s with
      | .error err => .error err
      | .ok (s, entry) => .ok (s, some entry)
  | _, _ => .ok (s, lastFail)

/-- `createIfStatementChunks` -/
def createIf (cond : BoolExpr) (body : List Stmt) (elifs : List (BoolExpr × List Stmt))
    (els : Option (List Stmt)) (c : Chunk) (i : Nat) (s : WS) : Except EFail (WS × Branch × Option Nat) :=
  let (s, returnID) := splitChunkForBranch c i s
  let (s, consId) := alloc s
  let s := { s with queue := s.queue ++ [{ id := consId, returnID := returnID, statements := body }] }
  let (s, elifIds) := elifs.foldl (fun (acc : WS × List Nat) e =>
      let (s, id) := alloc acc.1
      ({ s with queue := s.queue ++ [{ id := id, returnID := returnID, statements := e.2 }] }, acc.2 ++ [id]))
    (s, [])
  let (s, elseId) : WS × Option Nat := match els with
    | some st =>
      let (s, id) := alloc s
      ({ s with queue := s.queue ++ [{ id := id, returnID := returnID, statements := st }] }, some id)
    | none => (s, none)
  let lastFail : Option Nat := match elseId with | some id => some id | none => returnID
  match splitElifs elifs elifIds lastFail s with
  | .error e => .error e
  | .ok (s, afterCons) =>
    match splitBool cond consId afterCons s with
    | .error e => .error e
    | .ok (s, entry) => .ok (s, .jump entry, returnID)

/-- `createWhileStatementChunks`: (state, branch, returnID, continue target) -/
def createWhile (cond : Option BoolExpr) (body : List Stmt) (c : Chunk) (i : Nat) (s : WS) :
    Except EFail (WS × Branch × Option Nat × Nat) :=
  let (s, returnID) := splitChunkForBranch c i s
  let (s, headerId) := alloc s
  let (s, consId) := alloc s
  let cons : Chunk := { id := consId, returnID := some headerId, statements := body }
  match cond with
  | none =>
    let header : Chunk := { id := headerId, returnID := returnID, branch := .jump consId }
    .ok ({ s with queue := s.queue ++ [cons, header] }, .jump headerId, returnID, headerId)
  | some e =>
    match splitBool e consId returnID s with
    | .error err => .error err
    | .ok (s, entry) =>
      let header : Chunk := { id := headerId, returnID := returnID, branch := .jump entry }
      .ok ({ s with queue := s.queue ++ [cons, header] }, .jump headerId, returnID, headerId)

/-- `createDoWhileStatementChunks` -/
def createDoWhile (cond : BoolExpr) (body : List Stmt) (c : Chunk) (i : Nat) (s : WS) :
    Except EFail (WS × Branch × Option Nat × Nat) :=
  let (s, returnID) := splitChunkForBranch c i s
  let (s, headerId) := alloc s
  let (s, consId) := alloc s
  let cons : Chunk := { id := consId, returnID := some headerId, statements := body }
  match splitBool cond consId returnID s with
  | .error err => .error err
  | .ok (s, entry) =>
    let header : Chunk := { id := headerId, returnID := returnID, branch := .jump entry }
    .ok ({ s with queue := s.queue ++ [cons, header] }, .jump consId, returnID, consId)

/-- Body chunk ids of the cases: one new chunk per non-empty body, in source order. -/
def switchBodies (returnID : Option Nat) : List SwitchCase → WS → WS × List (Option Nat)
  | [], s => (s, [])
  | (_, _, body) :: rest, s =>
    if body.length > 0 then
      let (s, id) := alloc s
      let s := { s with queue := s.queue ++ [{ id := id, returnID := returnID, statements := body }] }
      let (s, ids) := switchBodies returnID rest s
      (s, some id :: ids)
    else
      let (s, ids) := switchBodies returnID rest s
      (s, none :: ids)

/-- A case without a body shares the body of the next case that has one. -/
def propagateBack : List (Option Nat) → List (Option Nat)
  | [] => []
  | x :: rest =>
    let rest' := propagateBack rest
    match x with
    | some i => some i :: rest'
    | none => (rest'.head?.getD none) :: rest'

/-- Destination of `default`: the (propagated) body chunk of the default case, if any. -/
def switchDefaultDest (cases : List SwitchCase) (bodyIds : List (Option Nat)) : Option Nat :=
  (cases.zip bodyIds).foldl (fun acc (cb : SwitchCase × Option Nat) =>
    if cb.1.2.1 then (match cb.2 with | some d => some d | none => acc) else acc) none

/-- `case` lines for the non-default cases that have a (propagated) body, in source order. -/
def switchBranchCases (cases : List SwitchCase) (bodyIds : List (Option Nat)) : List SwitchCaseBranch :=
  (cases.zip bodyIds).filterMap fun (cb : SwitchCase × Option Nat) =>
    if cb.1.2.1 then none else cb.2.map fun d => { value := cb.1.1, dest := d }

/-- Non-default cases without any body after them. -/
def switchTrailing (cases : List SwitchCase) (bodyIds : List (Option Nat)) : List SwitchCase :=
  ((cases.zip bodyIds).filter fun (cb : SwitchCase × Option Nat) => !cb.1.2.1 && cb.2.isNone).map (·.1)

/-- Whether the extra empty chunk for trailing body-less cases is needed. -/
def switchNeedsEmpty (cases : List SwitchCase) (bodyIds : List (Option Nat)) : Bool :=
  (switchDefaultDest cases bodyIds).isSome && (switchTrailing cases bodyIds).length > 0

/-- The branch behaviour of the switch chunk, from the propagated body ids and the id of the
empty chunk (used only when `switchNeedsEmpty`). -/
def switchBranchOf (operand : Tok) (cases : List SwitchCase) (bodyIds : List (Option Nat))
    (emptyId : Nat) (returnID : Option Nat) : Branch :=
  let dflt := switchDefaultDest cases bodyIds
  let bcs := switchBranchCases cases bodyIds
  let bcs := if switchNeedsEmpty cases bodyIds then
      bcs ++ (switchTrailing cases bodyIds).map fun (sc : SwitchCase) => { value := sc.1, dest := emptyId }
    else bcs
  .switch_ operand bcs dflt (if dflt.isNone then returnID else none)

/-- `createSwitchStatementChunks`: (state, branch, returnID, switch chunk id) -/
def createSwitch (operand : Tok) (cases : List SwitchCase) (c : Chunk) (i : Nat) (s : WS) :
    WS × Branch × Option Nat × Nat :=
  let (s, returnID) := splitChunkForBranch c i s
  let (s, switchId) := alloc s
  -- the switch chunk is appended now; its branch behaviour is filled in below
  let qlen := s.queue.length
  let s := { s with queue := s.queue ++ [{ id := switchId, returnID := returnID }] }
  let (s, bodyIds0) := switchBodies returnID cases s
  if bodyIds0.all (·.isNone) then (s, .jump switchId, returnID, switchId)
  else
    let bodyIds := propagateBack bodyIds0
    let (s, eid) :=
      if switchNeedsEmpty cases bodyIds then
        let (s, eid) := alloc s
        ({ s with queue := s.queue ++ [{ id := eid, returnID := returnID }] }, eid)
      else (s, 0)
    let br := switchBranchOf operand cases bodyIds eid returnID
    let s := { s with queue := s.queue.modify qlen fun ch => { ch with branch := br } }
    (s, .jump switchId, returnID, switchId)

/-- Index of the first statement that is neither a label nor a command; `done` is set when
the last statement is an `end` / `return` command. Mirrors the scanning loop. -/
def scanSimple : List Stmt → Nat → Nat → Nat × Option Bool
  | [], i, _ => (i, none)
  | .label .. :: rest, i, len => scanSimple rest (i + 1) len
  | .cmd c :: rest, i, len =>
    if i + 1 == len && (c.name == "end" || c.name == "return") then (i, some (c.name == "end"))
    else scanSimple rest (i + 1) len
  | _ :: _, i, _ => (i, none)

/-- One iteration of the worklist loop of `emitScriptStatement`. -/
def processChunk (cur : Chunk) (s : WS) : Except EFail WS :=
  let (i, fin) := scanSimple cur.statements 0 cur.statements.length
  match fin with
  | some isEnd =>
    .ok (s.setFinal { id := cur.id, returnID := none, useEndTerminator := isEnd,
                      statements := cur.statements.take i })
  | none =>
    if i == cur.statements.length then .ok (s.setFinal cur)
    else
      let pre := cur.statements.take i
      match cur.statements[i]? with
      | some (.ite _ cond body elifs els) =>
        match createIf cond body elifs els cur i s with
        | .error e => .error e
        | .ok (s, br, returnID) =>
          -- completeChunk.returnID = curChunk.returnID *after* splitChunkForBranch updated it
          .ok (s.setFinal { id := cur.id, returnID := returnID, statements := pre, branch := br })
      | some (.while_ _ sid cond body) =>
        match createWhile cond body cur i s with
        | .error e => .error e
        | .ok (s1, br, returnID, contId) =>
          let s1 := s1.setFinal { id := cur.id, returnID := returnID, statements := pre, branch := br }
          .ok { s1 with brk := (sid, returnID) :: s1.brk, cont := (sid, contId) :: s1.cont }
      | some (.doWhile _ sid cond body) =>
        match createDoWhile cond body cur i s with
        | .error e => .error e
        | .ok (s1, br, returnID, contId) =>
          let s1 := s1.setFinal { id := cur.id, returnID := returnID, statements := pre, branch := br }
          .ok { s1 with brk := (sid, returnID) :: s1.brk, cont := (sid, contId) :: s1.cont }
      | some (.brk _ sid) =>
        match s.brk.lookup sid with
        | none => .error (.plain "could not emit 'break' statement because its return point is unknown")
        | some dest =>
          let s := keepStatementsAfterJump cur i s
          .ok (s.setFinal { id := cur.id, returnID := cur.returnID, statements := pre, branch := .breakCtx dest })
      | some (.cont _ sid) =>
        match s.cont.lookup sid with
        | none => .error (.plain "could not emit 'continue' statement because its return point is unknown")
        | some dest =>
          let s := keepStatementsAfterJump cur i s
          .ok (s.setFinal { id := cur.id, returnID := cur.returnID, statements := pre, branch := .breakCtx (some dest) })
      | some (.switch_ _ sid operand cases) =>
        let (s1, br, returnID, swId) := createSwitch operand cases cur i s
        let s1 := s1.setFinal { id := cur.id, returnID := returnID, statements := pre, branch := br }
        .ok { s1 with brk := (sid, returnID) :: s1.brk, cont := (sid, swId) :: s1.cont }
      | _ => .ok (s.setFinal { id := cur.id, returnID := cur.returnID, statements := pre })

/-- The worklist loop. -/
def runWorklist : Nat → WS → Except EFail WS
  | 0, _ => .error .outOfFuel
  | n + 1, s =>
    match s.queue with
    | [] => .ok s
    | cur :: rest =>
      match processChunk cur { s with queue := rest } with
      | .error e => .error e
      | .ok s' => runWorklist n s'

/-- Weighted size of a statement list: an upper bound on the worklist steps it causes. -/
def condSize : BoolExpr → Nat
  | .leaf _ => 1
  | .bin l _ r => condSize l + condSize r + 1

mutual
def stmtSize : Stmt → Nat
  | .cmd _ => 1
  | .label .. => 1
  | .ite _ c b es e => 3 + condSize c + stmtsSize b + elifsSize es + (match e with | some l => stmtsSize l + 1 | none => 0)
  | .while_ _ _ c b => 4 + (match c with | some e => condSize e | none => 0) + stmtsSize b
  | .doWhile _ _ c b => 4 + condSize c + stmtsSize b
  | .brk .. => 2
  | .cont .. => 2
  | .switch_ _ _ _ cs => 4 + casesSize cs
def stmtsSize : List Stmt → Nat
  | [] => 0
  | s :: r => stmtSize s + stmtsSize r
def elifsSize : List (BoolExpr × List Stmt) → Nat
  | [] => 0
  | (c, b) :: r => 2 + condSize c + stmtsSize b + elifsSize r
def casesSize : List SwitchCase → Nat
  | [] => 0
  | (_, _, b) :: r => 2 + stmtsSize b + casesSize r
end

/-- `emitScriptStatement` up to `renderChunks`: the final chunk table. -/
def scriptChunks (body : List Stmt) : Except EFail (List Chunk) :=
  match runWorklist (2 * stmtsSize body + 4) { queue := [{ id := 0, statements := body }] } with
  | .error e => .error e
  | .ok s => .ok s.final

end Pory.Emit
