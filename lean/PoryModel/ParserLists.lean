import PoryModel.ParserBase
/-
Parser model, part 2: scope modifiers, poryswitch header, format(), text values,
movement / mart lists (with their poryswitch form), command statements.
-/
namespace Pory.Parser
open Pory

/-- `parseScopeModifier` -/
def parseScopeModifier (defaultScope : TT) : PM TT := do
  if !(← peekIs .LPAREN) then return defaultScope
  nextToken
  let pk ← peek
  if pk.type != .GLOBAL && pk.type != .LOCAL then
    fail (newParseError pk s!"scope modifier must be 'global' or 'local', but got '{pk.lit}' instead")
  nextToken
  let pk ← peek
  if pk.type != .RPAREN then
    fail (newParseError (← cur) s!"missing ')' after scope modifier. Got '{pk.lit}' instead")
  let scope := (← cur).type
  nextToken
  return scope

/-- `parsePoryswitchHeader`: returns (switchCase, switchValue). -/
def parsePoryswitchHeader (env : Env) : PM (String × String) := do
  if env.switches.isEmpty && env.envErrors then
    fail (newParseError (← cur) "poryswitch used, but no compile switches were specified with the '-s' option")
  if !(← expectPeek .LPAREN) then
    let pk ← peek
    fail (newParseError pk s!"expected opening parenthesis for poryswitch value. Got '{pk.lit}' instead")
  if !(← expectPeek .IDENT) then
    let pk ← peek
    fail (newParseError pk s!"expected poryswitch identifier value. Got '{pk.lit}' instead")
  let c ← cur
  let switchCase := c.lit
  let (switchValue, ok) := match env.switches.lookup switchCase with
    | some v => (v, true)
    | none => ("", false)
  if env.envErrors && !ok then
    fail (newParseError c s!"no poryswitch for '{switchCase}' was specified with the '-s' option")
  if !(← expectPeek .RPAREN) then
    let pk ← peek
    fail (newParseError pk s!"expected closing parenthesis for poryswitch value. Got '{pk.lit}' instead")
  if !(← expectPeek .LBRACE) then
    let pk ← peek
    fail (newParseError pk s!"expected opening curly brace for poryswitch statement. Got '{pk.lit}' instead")
  nextToken
  return (switchCase, switchValue)

/-! ### format() -/

structure FmtParams where
  fontID : String
  fontIdToken : Tok := {}
  maxLineLength : Int
  numLines : Int := -1
  cursorOverlapWidth : Int := -1
  specified : List String := []
  hadParam : Bool := false

def parseIntVal (s : String) : Int := (parseInt s).1

/-- The `for p.peekTokenIs(token.IDENT)` loop over named parameters. -/
def formatNamedParams : Nat → FmtParams → PM FmtParams
  | 0, _ => fail .outOfFuel
  | n + 1, fp => do
    if !(← peekIs .IDENT) then return fp
    let fp := { fp with hadParam := true }
    nextToken
    let paramToken ← cur
    let paramName := paramToken.lit
    if !Facts.namedParameters.contains paramName then
      fail (newParseError paramToken s!"invalid format() named parameter '{paramName}'")
    if !(← expectPeek .ASSIGN) then
      fail (newParseError (← peek) s!"missing '=' after format() named parameter '{paramName}'")
    if fp.specified.contains paramName then
      fail (newParseError paramToken s!"duplicate parameter '{paramName}'")
    let fp := { fp with specified := paramName :: fp.specified }
    let fp ←
      if paramName == Facts.formatParamFontId then do
        if !(← expectPeek .STRING) then
          let pk ← peek
          fail (newParseError pk s!"invalid {Facts.formatParamFontId} '{pk.lit}'. Expected string")
        let c ← cur
        pure { fp with fontID := c.lit, fontIdToken := c }
      else if paramName == Facts.formatParamMaxLineLength then do
        if !(← expectPeek .INT) then
          let pk ← peek
          fail (newParseError pk s!"invalid {Facts.formatParamMaxLineLength} '{pk.lit}'. Expected integer")
        pure { fp with maxLineLength := parseIntVal (← cur).lit }
      else if paramName == Facts.formatParamNumLines then do
        if !(← expectPeek .INT) then
          let pk ← peek
          fail (newParseError pk s!"invalid {Facts.formatParamNumLines} '{pk.lit}'. Expected integer")
        pure { fp with numLines := parseIntVal (← cur).lit }
      else if paramName == Facts.formatParamCursorOverlapWidth then do
        if !(← expectPeek .INT) then
          let pk ← peek
          fail (newParseError pk s!"invalid {Facts.formatParamCursorOverlapWidth} '{pk.lit}'. Expected integer")
        pure { fp with cursorOverlapWidth := parseIntVal (← cur).lit }
      else pure fp
    if (← peekIs .COMMA) then
      nextToken
      let pk ← peek
      if !(pk.type == .IDENT || pk.type == .RPAREN) then
        fail (newParseError pk s!"invalid parameter '{pk.lit}'. Expected named parameter")
    formatNamedParams n fp

/-- `parseFormatStringOperator`: (text token, formatted text, string type). -/
def parseFormatStringOperator (env : Env) (fuel : Nat) : PM (Tok × String × String) := do
  if !(← expectPeek .LPAREN) then
    fail (newRangeParseError (← cur) (← peek) "format operator must begin with an open parenthesis '('")
  let mut stringType := ""
  if (← peekIs .STRINGTYPE) then
    nextToken
    stringType := (← cur).lit
  if !(← expectPeek .STRING) then
    let pk ← peek
    fail (newParseError pk s!"invalid format() argument '{pk.lit}'. Expected a string literal")
  let textToken ← cur
  let fontID0 := if env.defaultFontID != "" then env.defaultFontID else env.fonts.defaultFontID
  let mut fp : FmtParams := { fontID := fontID0, maxLineLength := env.maxLineLength }
  if (← peekIs .COMMA) then
    nextToken
    let mut expectingNamedParam := true
    let pk ← peek
    if pk.type == .INT || pk.type == .STRING then
      fp := { fp with hadParam := true }
      if pk.type == .STRING then
        nextToken
        let c ← cur
        fp := { fp with fontID := c.lit, fontIdToken := c, specified := Facts.formatParamFontId :: fp.specified }
        if (← peekIs .COMMA) && !(← peek2Is .IDENT) then
          nextToken
          if !(← expectPeek .INT) then
            let pk ← peek
            fail (newParseError pk s!"invalid format() maxLineLength '{pk.lit}'. Expected integer")
          fp := { fp with maxLineLength := parseIntVal (← cur).lit }
      else
        nextToken
        fp := { fp with maxLineLength := parseIntVal (← cur).lit,
                        specified := Facts.formatParamMaxLineLength :: fp.specified }
        if (← peekIs .COMMA) && !(← peek2Is .IDENT) then
          nextToken
          if !(← expectPeek .STRING) then
            let pk ← peek
            fail (newParseError pk s!"invalid format() fontId '{pk.lit}'. Expected string")
          let c ← cur
          fp := { fp with fontID := c.lit, fontIdToken := c }
      expectingNamedParam := (← peekIs .COMMA)
      if expectingNamedParam then nextToken
    if expectingNamedParam then
      fp ← formatNamedParams fuel fp
    if !fp.hadParam then
      let pk ← peek
      fail (newParseError pk s!"invalid format() parameter '{pk.lit}'")
  if !(← expectPeek .RPAREN) then
    fail (newParseError (← peek) "missing closing parenthesis ')' for format()")
  let font := env.fonts.font fp.fontID
  let maxLineLength := if fp.maxLineLength ≤ 0 then font.maxLineLength else fp.maxLineLength
  let numLines :=
    if fp.numLines ≤ 0 then (if font.numLines ≤ 0 then 2 else font.numLines) else fp.numLines
  let overlap := if fp.cursorOverlapWidth ≤ 0 then font.cursorOverlapWidth else fp.cursorOverlapWidth
  match Fmt.formatText env.fonts textToken.lit.toList maxLineLength overlap fp.fontID numLines with
  | .ok formatted => return (textToken, String.ofList formatted, stringType)
  | .error msg =>
    if env.envErrors then
      let t := if fp.fontIdToken.type != .STRING then textToken else fp.fontIdToken
      fail (newParseError t msg)
    else return (textToken, "", stringType)

/-- `parseTextValue`: (value with terminator, string type). -/
def parseTextValue (env : Env) (fuel : Nat) : PM (String × String) := do
  let c ← cur
  if c.type == .FORMAT then
    let (_, strValue, stringType) ← parseFormatStringOperator env fuel
    return (formatTextTerminator strValue stringType, stringType)
  else if c.type == .STRING then
    return (formatTextTerminator c.lit "", "")
  else if c.type == .STRINGTYPE then
    let stringType := c.lit
    nextToken
    let c ← cur
    if c.type != .STRING then
      fail (newParseError c s!"expected a string literal after string type '{stringType}'. Got '{c.lit}' instead")
    return (formatTextTerminator c.lit stringType, stringType)
  else
    fail (newParseError c s!"body of text statement must be a string or formatted string. Got '{c.lit}' instead")

/-- The case loop of `parsePoryswitchTextCases`; later cases with the same key override earlier
ones (entries are prepended, `lookup` finds the newest). -/
def poryswitchTextCases (env : Env) (startToken : Tok) :
    Nat → List (String × String × String) → PM (List (String × String × String))
  | 0, _ => fail .outOfFuel
  | n + 1, acc => do
    let c ← cur
    if c.type == .RBRACE then return acc
    if c.type == .EOF then
      fail (newParseError startToken "missing closing curly brace for poryswitch statement")
    if c.type != .IDENT && c.type != .INT then
      fail (newParseError c s!"invalid poryswitch case '{c.lit}'. Expected a simple identifier")
    let caseValue := c.lit
    nextToken
    let c ← cur
    if c.type == .COLON || c.type == .LBRACE then
      let usedBrace := c.type == .LBRACE
      nextToken
      let (strValue, strType) ← parseTextValue env n
      nextToken
      if usedBrace then
        if !(← curIs .RBRACE) then
          fail (newParseError startToken s!"missing closing curly brace for poryswitch case '{caseValue}'")
        nextToken
      poryswitchTextCases env startToken n ((caseValue, strValue, strType) :: acc)
    else
      fail (newParseError c s!"invalid token '{c.lit}' after poryswitch case '{caseValue}'. Expected ':' or '\{'")

/-- `parsePoryswitchTextStatement` -/
def parsePoryswitchTextStatement (env : Env) (fuel : Nat) : PM (String × String) := do
  let startToken ← cur
  let (switchCase, switchValue) ← parsePoryswitchHeader env
  let cases ← poryswitchTextCases env (← cur) fuel []
  match cases.lookup switchValue with
  | some (v, t) => return (v, t)
  | none =>
    match cases.lookup "_" with
    | some (v, t) => return (v, t)
    | none =>
      if env.envErrors then
        fail (newParseError startToken s!"no poryswitch case found for '{switchCase}={switchValue}', which was specified with the '-s' option")
      else return ("", "")

/-! ### movement and mart lists -/

inductive ListKind
  | movement (closing : TT)
  | mart
  deriving Repr, DecidableEq

def ListKind.closing : ListKind → TT
  | .movement c => c
  | .mart => .RBRACE

/-- The kind used for the cases of a poryswitch nested in a list of this kind
(movement lists nested in `moves(...)` end at their own closing brace). -/
def ListKind.nested : ListKind → ListKind
  | .movement _ => .movement .RBRACE
  | .mart => .mart

mutual
/-- `parseMovementValue` / `parseMartValue`. -/
def parseListValue (env : Env) (kind : ListKind) (allowMultiple : Bool) :
    Nat → List Tok → PM (List Tok)
  | 0, _ => fail .outOfFuel
  | n + 1, acc => do
    let c ← cur
    if c.type == kind.closing then return acc
    let acc' ←
      if c.type == .PORYSWITCH then do
        let items ← parsePoryswitchListStatement env kind n
        pure (acc ++ items)
      else if c.type == .IDENT then do
        nextToken
        match kind with
        | .mart => pure (acc ++ [c])
        | .movement _ =>
          if (← curIs .MUL) then
            nextToken
            let m ← cur
            if m.type != .INT then
              fail (newParseError m s!"expected mulplier number for movement command, but got '{m.lit}' instead")
            let (num, err) := parseInt m.lit
            match err with
            | some e =>
              fail (newParseError m s!"invalid movement mulplier integer '{m.lit}': {parseIntErrMsg m.lit e}")
            | none =>
              if num ≤ 0 then
                fail (newParseError m s!"movement mulplier must be a positive integer, but got '{m.lit}' instead")
              if num > Int.ofNat Facts.multiplierMax then
                fail (newParseError m s!"movement mulplier '{m.lit}' is too large. Maximum is {Facts.multiplierMax}")
              nextToken
              pure (acc ++ List.replicate num.toNat c)
          else pure (acc ++ [c])
      else if c.type == .COMMA && kind != .mart then do
        nextToken
        pure acc
      else
        match kind with
        | .mart => fail (newParseError c s!"expected mart item, but got '{c.lit}' instead")
        | .movement _ => fail (newParseError c s!"expected movement command, but got '{c.lit}' instead")
    if !allowMultiple then return acc'
    parseListValue env kind allowMultiple n acc'

/-- `parsePoryswitchListStatement` -/
def parsePoryswitchListStatement (env : Env) (kind : ListKind) : Nat → PM (List Tok)
  | 0 => fail .outOfFuel
  | n + 1 => do
    let startToken ← cur
    let (switchCase, switchValue) ← parsePoryswitchHeader env
    let cases ← parsePoryswitchListCases env kind (← cur) n []
    let items ←
      match cases.lookup switchValue with
      | some items => pure items
      | none =>
        match cases.lookup "_" with
        | some items => pure items
        | none =>
          if env.envErrors then
            fail (newParseError startToken s!"no poryswitch case found for '{switchCase}={switchValue}', which was specified with the '-s' option")
          else pure []
    nextToken
    return items

/-- `parsePoryswitchListCases` -/
def parsePoryswitchListCases (env : Env) (kind : ListKind) (startToken : Tok) :
    Nat → List (String × List Tok) → PM (List (String × List Tok))
  | 0, _ => fail .outOfFuel
  | n + 1, acc => do
    let c ← cur
    if c.type == .RBRACE then return acc
    if c.type == .EOF then
      fail (newParseError startToken "missing closing curly braces for poryswitch statement")
    if c.type != .IDENT && c.type != .INT then
      fail (newParseError c s!"invalid poryswitch case '{c.lit}'. Expected a simple identifier")
    let caseValue := c.lit
    nextToken
    let c ← cur
    if c.type == .COLON || c.type == .LBRACE then
      let usedBrace := c.type == .LBRACE
      nextToken
      let items ← parseListValue env kind.nested usedBrace n []
      if usedBrace then
        let c ← cur
        if c.type != .RBRACE then
          fail (newParseError c s!"missing closing curly brace for poryswitch case '{caseValue}'")
        nextToken
      parsePoryswitchListCases env kind startToken n ((caseValue, items) :: acc)
    else
      fail (newParseError c s!"invalid token '{c.lit}' after poryswitch case '{caseValue}'. Expected ':' or '\{'")
end

/-- `parseMovesOperator` -/
def parseMovesOperator (env : Env) (fuel : Nat) : PM (List Tok) := do
  if !(← expectPeek .LPAREN) then
    fail (newParseError (← cur) "moves operator must begin with an open parenthesis '('")
  nextToken
  parseListValue env (.movement .RPAREN) true fuel []

/-! ### command statements -/

structure CmdAcc where
  args : List String := []
  argParts : List String := []
  numOpenParens : Nat := 0
  imp : ImpData := {}

/-- The argument loop of `parseCommandStatement`. -/
def cmdArgsLoop (env : Env) (scriptName : String) (cmdId : Nat) (cmdTok : Tok) :
    Nat → CmdAcc → PM CmdAcc
  | 0, _ => fail .outOfFuel
  | n + 1, a => do
    let c ← cur
    if c.type == .RPAREN && a.numOpenParens == 0 then return a
    if c.type == .EOF then
      fail (newParseError cmdTok s!"missing closing parenthesis for command '{cmdTok.lit}'")
    let a' ←
      if c.type == .COMMA then
        pure { a with args := a.args ++ [joinSp a.argParts], argParts := [] }
      else if c.type == .LPAREN then
        pure { a with numOpenParens := a.numOpenParens + 1, argParts := a.argParts ++ [c.lit] }
      else if c.type == .RPAREN then
        pure { a with numOpenParens := a.numOpenParens - 1, argParts := a.argParts ++ [c.lit] }
      else if c.type == .FORMAT then do
        let (strToken, strValue, strType) ← parseFormatStringOperator env n
        let strToken := { strToken with lit := formatTextTerminator strValue strType }
        pure { a with
          imp := { a.imp with texts := a.imp.texts ++
            [{ cmdId := cmdId, argPos := a.args.length, text := strToken, stringType := strType,
               scriptName := scriptName }] },
          argParts := a.argParts ++ [""] }
      else if c.type == .STRING then
        let strToken := { c with lit := formatTextTerminator c.lit "" }
        pure { a with
          imp := { a.imp with texts := a.imp.texts ++
            [{ cmdId := cmdId, argPos := a.args.length, text := strToken, stringType := "",
               scriptName := scriptName }] },
          argParts := a.argParts ++ [""] }
      else if c.type == .STRINGTYPE then do
        let stringType := c.lit
        nextToken
        let c ← cur
        if c.type != .STRING then
          fail (newParseError c s!"expected a string literal after string type '{stringType}'. Got '{c.lit}' instead")
        let strToken := { c with lit := formatTextTerminator c.lit stringType }
        pure { a with
          imp := { a.imp with texts := a.imp.texts ++
            [{ cmdId := cmdId, argPos := a.args.length, text := strToken, stringType := stringType,
               scriptName := scriptName }] },
          argParts := a.argParts ++ [""] }
      else if c.type == .MOVES then do
        let movements ← parseMovesOperator env n
        pure { a with
          imp := { a.imp with movements := a.imp.movements ++
            [{ cmdId := cmdId, cmdTok := cmdTok, argPos := a.args.length, movements := movements,
               scriptName := scriptName }] },
          argParts := a.argParts ++ [""] }
      else do
        let v ← tryReplaceWithConstant c.lit
        pure { a with argParts := a.argParts ++ [v] }
    nextToken
    cmdArgsLoop env scriptName cmdId cmdTok n a'

/-- `parseCommandStatement` -/
def parseCommandStatement (env : Env) (scriptName : String) (fuel : Nat) : PM (Cmd × ImpData) := do
  let tok ← cur
  let id := (← get).nextCmdId
  modify fun s => { s with nextCmdId := s.nextCmdId + 1 }
  if (← peekIs .LPAREN) then
    nextToken
    nextToken
    let a ← cmdArgsLoop env scriptName id tok fuel {}
    let args := if a.argParts.length > 0 then a.args ++ [joinSp a.argParts] else a.args
    return ({ id := id, tok := tok, name := tok.lit, args := args }, a.imp)
  return ({ id := id, tok := tok, name := tok.lit, args := [] }, {})

end Pory.Parser
