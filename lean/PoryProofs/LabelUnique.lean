import PoryProofs.Properties.C04c
import PoryProofs.Properties.C15d
/-
Helpers for property C04d (C04's uniqueness clause in SOURCE vocabulary).

§1  `scriptDeclaredSrc`, `topDeclaredSrc`, `declaredNamesSrc`: what the author wrote — the names of the
    top-level statements, of the inline map scripts and tables, and `labelStmtsOf s.body` of every script —
    no chunk table involved.
§2  `declaredNames_perm`: when every script of the program has a chunk table (true of every accepted program:
    `chunksOk_of_accepted`), C04c's `declaredNames p` (label statements as they sit in the chunk tables) is a
    permutation of `declaredNamesSrc p` (census of C15d).
§3  `nodup_fst_unique`: in a list of pairs with duplicate-free first components, the first component
    determines the second.
§4  `count_programLabels_eq` / `programLabels_perm`: the census of an accepted program is EXACTLY (with
    multiplicity) the written names, the registered generated sub-labels and the text names — the equality
    version of C04c's `count_programLabels_le`, from C15d's `script_label_lines_perm`.
-/
namespace Pory.C04d
open Pory Pory.Emit Pory.RenderSim Pory.C04c Pory.C15c Pory.C15d

/-! ### 1. the declared names, read off the source -/

/-- What the author of a script declares: its name and the names of ALL label statements of its body (any
depth, dead code included), in source order. -/
def scriptDeclaredSrc (s : Script) : List String := s.name :: (labelStmtsOf s.body).map (·.1)

/-- `C04c.topDeclared` with the label statements read off the source. -/
def topDeclaredSrc : Top → List String
  | .script s => scriptDeclaredSrc s
  | .raw _ _ _ => []
  | .text _ => []
  | .movement m => [m.name]
  | .mart _ name _ _ _ => [name]
  | .mapscripts m =>
    m.name :: ((optScripts (m.mapScripts.map (·.script))).flatMap scriptDeclaredSrc ++
      m.tables.flatMap fun t => t.name :: (optScripts (t.entries.map (·.script))).flatMap scriptDeclaredSrc)

def declaredNamesSrc (p : Program) : List String := p.tops.flatMap topDeclaredSrc

/-! ### 2. chunk-table vocabulary = source vocabulary -/

/-- Every script of the program (top-level or inline) has a chunk table. -/
def ChunksOk (p : Program) : Prop := ∀ s ∈ scriptsOf p, ∃ G, scriptChunks s.body = .ok G

theorem chunksOk_of_accepted (o : Opts) (p : Program) (ls : List Line) (h : emitProgram o p = .ok ls) :
    ChunksOk p := by
  intro s hs
  obtain ⟨l, hl, _⟩ := script_accepted o p ls h s hs
  obtain ⟨G, _, hc, _⟩ := accepted_chunks o p.patches _ s l hl
  exact ⟨G, hc⟩

theorem scriptDeclared_perm (s : Script) (G : List Chunk) (h : scriptChunks s.body = .ok G) :
    (scriptDeclared s).Perm (scriptDeclaredSrc s) :=
  (label_names_census s G h).cons s.name

theorem flatMap_perm_of {α β : Type} {f g : α → List β} : ∀ (l : List α),
    (∀ a ∈ l, (f a).Perm (g a)) → (l.flatMap f).Perm (l.flatMap g)
  | [], _ => List.Perm.refl _
  | a :: r, h => by
    rw [List.flatMap_cons, List.flatMap_cons]
    exact (h a (by simp)).append (flatMap_perm_of r fun x hx => h x (by simp [hx]))

theorem topDeclared_perm (t : Top) (h : ∀ s ∈ topScripts t, ∃ G, scriptChunks s.body = .ok G) :
    (topDeclared t).Perm (topDeclaredSrc t) := by
  cases t with
  | script s =>
    obtain ⟨G, hG⟩ := h s (by simp [topScripts])
    exact scriptDeclared_perm s G hG
  | raw _ _ _ => exact List.Perm.refl _
  | text _ => exact List.Perm.refl _
  | movement m => exact List.Perm.refl _
  | mart _ name _ _ _ => exact List.Perm.refl _
  | mapscripts m =>
    simp only [topDeclared, topDeclaredSrc]
    refine List.Perm.cons _ (List.Perm.append ?_ ?_)
    · apply flatMap_perm_of
      intro s hs
      obtain ⟨G, hG⟩ := h s (by simp only [topScripts, List.mem_append]; exact .inl hs)
      exact scriptDeclared_perm s G hG
    · apply flatMap_perm_of
      intro t ht
      refine List.Perm.cons _ ?_
      apply flatMap_perm_of
      intro s hs
      obtain ⟨G, hG⟩ := h s (by
        simp only [topScripts, List.mem_append, List.mem_flatMap]; exact .inr ⟨t, ht, hs⟩)
      exact scriptDeclared_perm s G hG

/-- **declaredNames_perm**: C04c's declared names are, as a multiset, the names the author wrote. -/
theorem declaredNames_perm (p : Program) (h : ChunksOk p) :
    (declaredNames p).Perm (declaredNamesSrc p) := by
  unfold declaredNames declaredNamesSrc
  apply flatMap_perm_of
  intro t ht
  exact topDeclared_perm t fun s hs => h s (List.mem_flatMap.2 ⟨t, ht, hs⟩)

theorem declaredAll_perm (p : Program) (h : ChunksOk p) :
    (declaredNames p ++ textNames p).Perm (declaredNamesSrc p ++ textNames p) :=
  (declaredNames_perm p h).append_right _

/-! ### 3. a list fact -/

theorem nodup_fst_unique {α β : Type} : ∀ (l : List (α × β)), (l.map (·.1)).Nodup →
    ∀ a b b', (a, b) ∈ l → (a, b') ∈ l → b = b'
  | [], _, _, _, _, h, _ => by cases h
  | x :: r, hn, a, b, b', h1, h2 => by
    rw [List.map_cons, List.nodup_cons] at hn
    rcases List.mem_cons.1 h1 with e1 | h1
    · rcases List.mem_cons.1 h2 with e2 | h2
      · rw [← e1] at e2; exact (Prod.mk.inj e2).2.symm ▸ rfl
      · exact absurd (List.mem_map.2 ⟨(a, b'), h2, by rw [← e1]⟩) hn.1
    · rcases List.mem_cons.1 h2 with e2 | h2
      · exact absurd (List.mem_map.2 ⟨(a, b), h1, by rw [← e2]⟩) hn.1
      · exact nodup_fst_unique r hn.2 a b b' h1 h2

/-! ### 4. the census of an accepted program, exactly (with multiplicity) -/

theorem count_flatMap_eq {α : Type} (a : String) (f g h : α → List String) (l : List α)
    (H : ∀ x ∈ l, (f x).count a = (g x).count a + (h x).count a) :
    (l.flatMap f).count a = (l.flatMap g).count a + (l.flatMap h).count a := by
  induction l with
  | nil => simp
  | cons x r ih =>
    have h1 := H x (by simp)
    have h2 := ih (fun y hy => H y (by simp [hy]))
    simp only [List.flatMap_cons, List.count_append]
    omega

/-- The census of an accepted script is, with multiplicity: its name, its label statements (source
vocabulary) and its registered sub-labels. -/
theorem count_scriptNames_eq (o : Opts) (patches : List ((Nat × Nat) × String)) (tl : List String)
    (s : Script) (l : List Line) (h : emitScript o patches tl s = .ok l) (a : String) :
    (scriptNames o patches s).count a =
      (scriptDeclaredSrc s).count a + (subLabelsOf o patches s).count a := by
  unfold scriptNames scriptDeclaredSrc
  rw [← labelsOf_emitScript o patches tl s l h,
    ((script_label_lines_perm o patches tl s l h).map (·.1)).count_eq a]
  have e : ((subLabelsOf o patches s).map (·, false)).map (·.1) = subLabelsOf o patches s := by
    rw [List.map_map]
    exact List.map_id'' (fun _ => rfl) _
  rw [List.map_cons, List.map_append, e]
  simp only [List.count_cons, List.count_append]
  omega

/-- every script of the list is accepted by `emitScript` (for some text-label list) -/
def ScriptsOk (o : Opts) (patches : List ((Nat × Nat) × String)) (l : List Script) : Prop :=
  ∀ s ∈ l, ∃ tl ls, emitScript o patches tl s = .ok ls

theorem count_scripts_eq (o : Opts) (patches : List ((Nat × Nat) × String)) (a : String) (l : List Script)
    (h : ScriptsOk o patches l) :
    (l.flatMap (scriptNames o patches)).count a =
      (l.flatMap scriptDeclaredSrc).count a + (l.flatMap (subLabelsOf o patches)).count a :=
  count_flatMap_eq a _ _ _ l (fun s hs => by
    obtain ⟨tl, ls, hl⟩ := h s hs
    exact count_scriptNames_eq o patches tl s ls hl a)

theorem count_topNames_eq (o : Opts) (patches : List ((Nat × Nat) × String)) (a : String) (t : Top)
    (h : ScriptsOk o patches (topScripts t)) :
    ((topDefs o patches t).map (·.1)).count a =
      (topDeclaredSrc t).count a + ((topScripts t).flatMap (subLabelsOf o patches)).count a := by
  cases t with
  | script s =>
    simp only [topDefs, topDeclaredSrc, topScripts, List.flatMap_cons, List.flatMap_nil, List.append_nil]
    obtain ⟨tl, ls, hl⟩ := h s (by simp [topScripts])
    exact count_scriptNames_eq o patches tl s ls hl a
  | raw _ _ _ => simp [topDefs, topDeclaredSrc, topScripts]
  | text _ => simp [topDefs, topDeclaredSrc, topScripts]
  | movement m => simp [topDefs, topDeclaredSrc, topScripts]
  | mart _ name _ _ _ => simp [topDefs, topDeclaredSrc, topScripts]
  | mapscripts m =>
    have hA : ScriptsOk o patches (optScripts (m.mapScripts.map (·.script))) := by
      intro s hs
      exact h s (by simp only [topScripts, List.mem_append]; exact .inl hs)
    have hB : ∀ t ∈ m.tables, ScriptsOk o patches (optScripts (t.entries.map (·.script))) := by
      intro t ht s hs
      exact h s (by simp only [topScripts, List.mem_append, List.mem_flatMap]; exact .inr ⟨t, ht, hs⟩)
    simp only [topDefs, topDeclaredSrc, topScripts, mapScriptsDefs, List.map_cons, List.map_append,
      scriptsDefs_eq, tablesDefs_eq, List.flatMap_append, List.flatMap_assoc]
    have h1 := count_scripts_eq o patches a (optScripts (m.mapScripts.map (·.script))) hA
    have h2 := count_flatMap_eq a
      (fun t : TableMapScript => t.name :: (optScripts (t.entries.map (·.script))).flatMap (scriptNames o patches))
      (fun t => t.name :: (optScripts (t.entries.map (·.script))).flatMap scriptDeclaredSrc)
      (fun t => (optScripts (t.entries.map (·.script))).flatMap (subLabelsOf o patches)) m.tables
      (by
        intro t ht
        have := count_scripts_eq o patches a (optScripts (t.entries.map (·.script))) (hB t ht)
        simp only [List.count_cons]
        omega)
    simp only [List.count_cons, List.count_append]
    omega

/-- **The census of an accepted program, exactly**: every name occurs among the label lines as often as among
the written names, the registered generated sub-labels and the text names together. -/
theorem count_programLabels_eq (o : Opts) (p : Program) (ls : List Line) (hp : emitProgram o p = .ok ls)
    (a : String) :
    (programLabels o p).count a =
      (declaredNamesSrc p).count a + (programSubLabels o p).count a + (textNames p).count a := by
  unfold programLabels programLabelDefs declaredNamesSrc programSubLabels textNames scriptsOf
  rw [List.map_append, List.map_flatMap, List.map_map, List.count_append, List.flatMap_assoc]
  have h := count_flatMap_eq a (fun t => (topDefs o p.patches t).map (·.1)) topDeclaredSrc
    (fun t => (topScripts t).flatMap (subLabelsOf o p.patches)) p.tops
    (fun t ht => count_topNames_eq o p.patches a t (fun s hs => by
      obtain ⟨l, hl, _⟩ := script_accepted o p ls hp s (List.mem_flatMap.2 ⟨t, ht, hs⟩)
      exact ⟨_, l, hl⟩))
  have he : ((fun x : String × Bool => x.1) ∘ fun t : Text => (t.name, t.isGlobal)) = fun t => t.name := rfl
  rw [he]
  omega

theorem programLabels_perm (o : Opts) (p : Program) (ls : List Line) (hp : emitProgram o p = .ok ls) :
    (programLabels o p).Perm (declaredNamesSrc p ++ programSubLabels o p ++ textNames p) := by
  rw [List.perm_iff_count]
  intro a
  rw [count_programLabels_eq o p ls hp a, List.count_append, List.count_append]

end Pory.C04d
