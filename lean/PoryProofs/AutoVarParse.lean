import PoryProofs.Properties.C10b
/-
Helpers for C11 (parser half): a condition leaf that calls a configured AutoVar command
(`parseLeafBooleanExpression` → `peekTokenIsAutoVar` → `expectPeekVarOrAutoVar` →
`parseCommandStatement`, then `parseConditionVarOperator`).

* `epv_auto`        : `expectPeekVarOrAutoVar` on `pre name …` with `name` a configured command =
                      `parseCommandStatement` on `name …` followed by `autoFinish` (the choice of the
                      compared variable / the bad-position error);
* `leaf_auto`, `leaf_auto_not` : `parseLeafBooleanExpression` on `pre name …` / `pre ! name …` =
                      `expectPeekVarOrAutoVar` followed by `leafFinish` / `leafFinishNot`;
* `operandName`, `PosOK`, `autoFinish_ok`, `autoFinish_bad`;
* `Form` (nothing / `op N` / leading `!` around the command), `autoLeafT` (the resulting `OpExpr`),
  `autoLeafT_eq_varLeaf` (same operator / value as the `var(X)` leaf of BoolParseLeaf.lean);
* `leaf_of_cmd`, `leaf_of_cmd_bad` : the leaf theorems relative to ANY successful run of
  `parseCommandStatement` on the tokens after the command name (instantiated with
  `C10b.parse_command` etc. in `PoryProofs/Properties/C11b.lean`);
* `leaf_reject`, `leaf_reject_not` : a leaf that starts with anything else is rejected.
-/
namespace Pory.C11b
open Pory Pory.Parser Pory.C02P Pory.C10b

/-- The message of the "bad argument position" error of `expectPeekVarOrAutoVar`. -/
def badPosMsg (cmdName : String) (pos : Int) (nargs : Nat) : String :=
  s!"auto-var command {cmdName} has an arg position of {pos}, but only {nargs} arguments were provided"

/-- What `expectPeekVarOrAutoVar` does after the command has been parsed. -/
def autoFinish (av : AutoVar) (name : Tok) (r : (Cmd × ImpData) × PState) :
    Except PFail (Option (String × Cmd × ImpData) × PState) :=
  match av.argPos with
  | none => .ok (some (av.varName, r.1.1, r.1.2), r.2)
  | some pos =>
    if pos < 0 || pos > (r.1.1.args.length : Int) - 1 then
      .error (newRangeParseError name (r.2.toks.headD r.2.eof) (badPosMsg name.lit pos r.1.1.args.length))
    else .ok (some (r.1.1.args.getD pos.toNat "", r.1.1, r.1.2), r.2)

theorem epv_auto (env : Env) (sn : String) (fuel : Nat) (s : PState) (pre name : Tok) (tl : List Tok)
    (av : AutoVar) (hname : name.type ≠ .VAR) (hav : env.autoVars.lookup name.lit = some av) :
    (expectPeekVarOrAutoVar env sn fuel).run (st s (pre :: name :: tl)) =
      match (parseCommandStatement env sn fuel).run (st s (name :: tl)) with
      | .error e => .error e
      | .ok r => autoFinish av name r := by
  unfold expectPeekVarOrAutoVar
  have hb : (name.type == TT.VAR) = false := beq_eq_false_iff_ne.mpr hname
  simp only [StateT.run_bind, run_peekIs, ex_bind_ok, st_toks, getD_one, hb, Bool.false_eq_true,
    if_false, run_peek, st_eof, hav, run_nextToken, List.tail_cons, st_st, run_cur, List.headD_cons]
  generalize (parseCommandStatement env sn fuel).run (st s (name :: tl)) = X
  cases X with
  | error e => rfl
  | ok r =>
    obtain ⟨⟨cmd, imp⟩, s'⟩ := r
    simp only [ex_bind_ok, autoFinish]
    cases av.argPos with
    | none => rfl
    | some pos =>
      simp only
      by_cases h : (pos < 0 || pos > (cmd.args.length : Int) - 1) = true
      · simp only [h, if_true]
        rfl
      · simp only [h]
        rfl

/-- The leaf built around an auto-var command: the fields set by `parseLeafBooleanExpression`. -/
def autoE (e0 : OpExpr) (operand : String) (cmd : Cmd) : OpExpr :=
  { e0 with type := .VAR, operand := { cmd.tok with type := .IDENT, lit := operand },
            preamble := some cmd }

theorem nil_add (imp : ImpData) : ({} : ImpData).add imp = imp := by
  cases imp; simp [ImpData.add]

/-- What `parseLeafBooleanExpression` does (without a leading `!`) once `expectPeekVarOrAutoVar`
has returned. -/
def leafFinish (fuel : Nat) (r : Option (String × Cmd × ImpData) × PState) :
    Except PFail ((OpExpr × ImpData) × PState) :=
  match r.1 with
  | none => .error (.panic "nil autoVarOperand dereference in parseLeafBooleanExpression")
  | some (operand, cmd, imp) =>
    match (parseConditionVarOperator (autoE {} operand cmd) fuel).run (st r.2 r.2.toks.tail) with
    | .error e => .error e
    | .ok (e, s'') => .ok ((e, imp), s'')

theorem run_ptia (env : Env) (s : PState) :
    (peekTokenIsAutoVar env).run s =
      .ok ((s.toks.getD 1 s.eof).type == .IDENT &&
            (env.autoVars.lookup (s.toks.getD 1 s.eof).lit).isSome, s) := by
  unfold peekTokenIsAutoVar
  simp only [StateT.run_bind, run_peek, ex_bind_ok]
  generalize s.toks.getD 1 s.eof = pk
  by_cases h : pk.type = .IDENT
  · simp [h]
  · simp [h]

theorem leaf_auto (env : Env) (sn : String) (fuel : Nat) (s : PState) (pre name : Tok) (tl : List Tok)
    (av : AutoVar) (hname : name.type = .IDENT) (hav : env.autoVars.lookup name.lit = some av) :
    (parseLeafBooleanExpression env sn fuel).run (st s (pre :: name :: tl)) =
      match (expectPeekVarOrAutoVar env sn fuel).run (st s (pre :: name :: tl)) with
      | .error e => .error e
      | .ok r => leafFinish fuel r := by
  unfold parseLeafBooleanExpression
  simp [run_ptia, hname, hav]
  generalize (expectPeekVarOrAutoVar env sn fuel).run (st s (pre :: name :: tl)) = X
  cases X with
  | error e => rfl
  | ok r =>
    obtain ⟨o, s'⟩ := r
    cases o with
    | none => rfl
    | some t =>
      obtain ⟨operand, cmd, imp⟩ := t
      simp [leafFinish, autoE, nil_add]
      generalize StateT.run (parseConditionVarOperator _ fuel) (st s' s'.toks.tail) = Y
      cases Y with
      | error e => rfl
      | ok q => rfl

/-- … with a leading `!`: no comparison is parsed, the leaf is `operand == 0`. -/
def leafFinishNot (r : Option (String × Cmd × ImpData) × PState) :
    Except PFail ((OpExpr × ImpData) × PState) :=
  match r.1 with
  | none => .error (.panic "nil autoVarOperand dereference in parseLeafBooleanExpression")
  | some (operand, cmd, imp) =>
    .ok (({ autoE { operator := .EQ } operand cmd with cmpValue := "0" }, imp), st r.2 r.2.toks.tail)

theorem leaf_auto_not (env : Env) (sn : String) (fuel : Nat) (s : PState) (pre nt name : Tok)
    (tl : List Tok) (av : AutoVar) (hnt : nt.type = .NOT) (hname : name.type = .IDENT)
    (hav : env.autoVars.lookup name.lit = some av) :
    (parseLeafBooleanExpression env sn fuel).run (st s (pre :: nt :: name :: tl)) =
      match (expectPeekVarOrAutoVar env sn fuel).run (st s (nt :: name :: tl)) with
      | .error e => .error e
      | .ok r => leafFinishNot r := by
  unfold parseLeafBooleanExpression
  simp [run_ptia, hname, hav, hnt]
  generalize (expectPeekVarOrAutoVar env sn fuel).run (st s (nt :: name :: tl)) = X
  cases X with
  | error e => rfl
  | ok r =>
    obtain ⟨o, s'⟩ := r
    cases o with
    | none => rfl
    | some t =>
      obtain ⟨operand, cmd, imp⟩ := t
      simp [leafFinishNot, autoE, nil_add]

/-! ### the compared variable -/

/-- The variable an auto-var leaf compares: the configured name, or the argument at the configured
position. -/
def operandName (av : AutoVar) (args : List String) : String :=
  match av.argPos with
  | none => av.varName
  | some pos => args.getD pos.toNat ""

/-- The configured position (if any) addresses one of `n` arguments. -/
def PosOK (av : AutoVar) (n : Nat) : Prop := ∀ pos, av.argPos = some pos → 0 ≤ pos ∧ pos < (n : Int)

instance (av : AutoVar) (n : Nat) : Decidable (PosOK av n) :=
  match h : av.argPos with
  | none => isTrue (fun pos hp => by simp [h] at hp)
  | some p =>
    if hp : 0 ≤ p ∧ p < (n : Int) then isTrue (fun pos hq => by simp [h] at hq; subst hq; exact hp)
    else isFalse (fun hq => hp (hq p h))

theorem operandName_none (av : AutoVar) (args : List String) (h : av.argPos = none) :
    operandName av args = av.varName := by simp [operandName, h]

theorem operandName_pos (av : AutoVar) (args : List String) (k : Nat) (h : av.argPos = some (k : Int))
    (hk : k < args.length) : operandName av args = args[k] := by
  simp [operandName, h, hk]

theorem autoFinish_ok (av : AutoVar) (name : Tok) (cmd : Cmd) (imp : ImpData) (s' : PState)
    (h : PosOK av cmd.args.length) :
    autoFinish av name ((cmd, imp), s') = .ok (some (operandName av cmd.args, cmd, imp), s') := by
  unfold autoFinish operandName
  cases hp : av.argPos with
  | none => rfl
  | some pos =>
    obtain ⟨h1, h2⟩ := h pos hp
    have : (pos < 0 || pos > (cmd.args.length : Int) - 1) = false := by
      simp only [Bool.or_eq_false_iff, decide_eq_false_iff_not]; omega
    simp only [this]
    rfl

theorem autoFinish_bad (av : AutoVar) (name : Tok) (cmd : Cmd) (imp : ImpData) (s' : PState) (pos : Int)
    (hp : av.argPos = some pos) (h : pos < 0 ∨ pos ≥ (cmd.args.length : Int)) :
    autoFinish av name ((cmd, imp), s') =
      .error (newRangeParseError name (s'.toks.headD s'.eof) (badPosMsg name.lit pos cmd.args.length)) := by
  unfold autoFinish
  have : (pos < 0 || pos > (cmd.args.length : Int) - 1) = true := by
    simp only [Bool.or_eq_true, decide_eq_true_eq]; omega
  simp only [hp, this, if_true]

/-! ### leaf forms -/

/-- What surrounds the command in an auto-var leaf: nothing (`cmd(…)`), a comparison
(`cmd(…) op N`), or a leading `!` (`!cmd(…)`). -/
inductive Form
  | bare
  | cmp (p1 p2 : TPos) (l1 : String) (op : CmpOp) (v : Val)
  | neg (p : TPos) (l : String)

/-- tokens before the command -/
def Form.pre : Form → List Tok
  | .neg p l => [tkp p .NOT l]
  | _ => []

/-- tokens after the command's closing parenthesis -/
def Form.post : Form → List Tok
  | .cmp p1 p2 l1 op v => [tkp p1 op.tt l1, v.tok p2]
  | _ => []

/-- What must follow the leaf: `&&`, `||` or `)` — nothing is required after a `!` leaf (the
parser does not look). -/
def Form.RestOK : Form → List Tok → Prop
  | .neg _ _, _ => True
  | _, rest => Follow rest

def Form.operator : Form → TT
  | .bare => .NEQ
  | .cmp _ _ _ op _ => op.tt
  | .neg _ _ => .EQ

def Form.cmpValue (σ : String → String) : Form → String
  | .cmp _ _ _ _ v => σ v.lit
  | _ => "0"

/-- The `var(X)` leaf of `PoryProofs/BoolParseLeaf.lean` written with the same surroundings. -/
def Form.varLeaf (ps : Nat → TPos) (x : String) : Form → Leaf
  | .bare => .varBare ps x
  | .cmp _ _ _ op v => .varCmp ps x op v
  | .neg _ _ => .varNot ps x

/-- The `OpExpr` of an auto-var leaf. -/
def autoLeafT (σ : String → String) (fm : Form) (operand : String) (cmd : Cmd) : OpExpr :=
  { type := .VAR, operand := { cmd.tok with type := .IDENT, lit := operand }, preamble := some cmd,
    operator := fm.operator, cmpValue := fm.cmpValue σ }

/-- Operator, comparison value, strictness and type are those of the `var(X)` leaf with the same
surroundings (`leafT` of `PoryProofs/BoolParseLeaf.lean`); only operand and preamble differ. -/
theorem autoLeafT_eq_varLeaf (σ : String → String) (fm : Form) (operand : String) (cmd : Cmd)
    (ps : Nat → TPos) (x : String) :
    autoLeafT σ fm operand cmd =
      { leafT σ (fm.varLeaf ps x) with
        operand := { cmd.tok with type := .IDENT, lit := operand }, preamble := some cmd } := by
  cases fm <;> rfl

/-- Generic form: whatever command syntax `parseCommandStatement` accepts after the name. -/
theorem leaf_of_cmd (env : Env) (sn : String) (fuel : Nat) (s s' : PState) (pre name last : Tok)
    (tl rest : List Tok) (av : AutoVar) (fm : Form) (cmd : Cmd) (imp : ImpData)
    (hname : name.type = .IDENT) (hav : env.autoVars.lookup name.lit = some av)
    (hcmd : (parseCommandStatement env sn fuel).run (st s (name :: tl)) =
      .ok ((cmd, imp), st s' (last :: (fm.post ++ rest))))
    (hpos : PosOK av cmd.args.length) (hrest : fm.RestOK rest) (hfuel : 2 ≤ fuel) :
    (parseLeafBooleanExpression env sn fuel).run (st s (pre :: (fm.pre ++ name :: tl))) =
      .ok ((autoLeafT (substC s'.constants) fm (operandName av cmd.args) cmd, imp), st s' rest) := by
  have hnv : name.type ≠ .VAR := by simp [hname]
  obtain ⟨f, rfl⟩ : ∃ f, fuel = f + 2 := ⟨fuel - 2, by omega⟩
  cases fm with
  | bare =>
    simp only [Form.pre, Form.post, List.nil_append] at hcmd ⊢
    rw [leaf_auto env sn _ s pre name tl av hname hav, epv_auto env sn _ s pre name tl av hnv hav, hcmd]
    simp only [autoFinish_ok av name cmd imp _ hpos, leafFinish, st_toks, List.tail_cons, st_st,
      varOp_bare _ _ _ _ hrest]
    rfl
  | cmp p1 p2 l1 op v =>
    simp only [Form.pre, Form.post, List.nil_append] at hcmd ⊢
    rw [leaf_auto env sn _ s pre name tl av hname hav, epv_auto env sn _ s pre name tl av hnv hav, hcmd]
    simp only [autoFinish_ok av name cmd imp _ hpos, leafFinish, st_toks, List.tail_cons, st_st,
      List.cons_append, List.nil_append, varOp_cmp _ _ _ _ _ _ _ _ _ hrest]
    rfl
  | neg p l =>
    simp only [Form.pre, Form.post, List.nil_append, List.cons_append] at hcmd ⊢
    rw [leaf_auto_not env sn _ s pre _ name tl av rfl hname hav,
      epv_auto env sn _ s _ name tl av hnv hav, hcmd]
    simp only [autoFinish_ok av name cmd imp _ hpos, leafFinishNot, st_toks, List.tail_cons, st_st]
    rfl

/-- Generic form of the rejection: the configured position does not address an argument. -/
theorem leaf_of_cmd_bad (env : Env) (sn : String) (fuel : Nat) (s s' : PState) (pre name last : Tok)
    (tl after : List Tok) (av : AutoVar) (fm : Form) (cmd : Cmd) (imp : ImpData) (pos : Int)
    (hname : name.type = .IDENT) (hav : env.autoVars.lookup name.lit = some av)
    (hcmd : (parseCommandStatement env sn fuel).run (st s (name :: tl)) =
      .ok ((cmd, imp), st s' (last :: after)))
    (hp : av.argPos = some pos) (hbad : pos < 0 ∨ pos ≥ (cmd.args.length : Int)) :
    (parseLeafBooleanExpression env sn fuel).run (st s (pre :: (fm.pre ++ name :: tl))) =
      .error (newRangeParseError name last (badPosMsg name.lit pos cmd.args.length)) := by
  have hnv : name.type ≠ .VAR := by simp [hname]
  have key : ∀ pre', (expectPeekVarOrAutoVar env sn fuel).run (st s (pre' :: name :: tl)) =
      .error (newRangeParseError name last (badPosMsg name.lit pos cmd.args.length)) := by
    intro pre'
    rw [epv_auto env sn _ s pre' name tl av hnv hav, hcmd]
    simp only [autoFinish_bad av name cmd imp _ pos hp hbad, st_toks, List.headD_cons]
  cases fm with
  | bare =>
    simp only [Form.pre, List.nil_append]
    rw [leaf_auto env sn _ s pre name tl av hname hav, key]
  | cmp p1 p2 l1 op v =>
    simp only [Form.pre, List.nil_append]
    rw [leaf_auto env sn _ s pre name tl av hname hav, key]
  | neg p l =>
    simp only [Form.pre, List.cons_append, List.nil_append]
    rw [leaf_auto_not env sn _ s pre _ name tl av rfl hname hav, key]

/-- The message of the "not a condition operator" error. -/
def leftSideMsg (lit : String) : String :=
  s!"left side of binary expression must be var(), flag(), defeated(), or autovar command. Instead, found '{lit}'"

/-- A token that is neither `var`/`flag`/`defeated` nor a configured auto-var command name. -/
def NotLeafStart (env : Env) (x : Tok) : Prop :=
  x.type ≠ .VAR ∧ x.type ≠ .FLAG ∧ x.type ≠ .DEFEATED ∧
    (x.type = .IDENT → env.autoVars.lookup x.lit = none)

theorem leaf_reject (env : Env) (sn : String) (fuel : Nat) (s : PState) (pre x : Tok) (tl : List Tok)
    (hnot : x.type ≠ .NOT) (hx : NotLeafStart env x) :
    (parseLeafBooleanExpression env sn fuel).run (st s (pre :: x :: tl)) =
      .error (newParseError x (leftSideMsg x.lit)) := by
  obtain ⟨h1, h2, h3, h4⟩ := hx
  unfold parseLeafBooleanExpression
  by_cases hi : x.type = .IDENT
  · simp [run_ptia, hi, h4 hi]
    rfl
  · simp [run_ptia, hnot, h1, h2, h3, hi]
    rfl

theorem leaf_reject_not (env : Env) (sn : String) (fuel : Nat) (s : PState) (pre nt x : Tok)
    (tl : List Tok) (hnt : nt.type = .NOT) (hx : NotLeafStart env x) :
    (parseLeafBooleanExpression env sn fuel).run (st s (pre :: nt :: x :: tl)) =
      .error (newParseError x (leftSideMsg x.lit)) := by
  obtain ⟨h1, h2, h3, h4⟩ := hx
  unfold parseLeafBooleanExpression
  by_cases hi : x.type = .IDENT
  · simp [run_ptia, hnt, hi, h4 hi]
    rfl
  · simp [run_ptia, hnt, h1, h2, h3, hi]
    rfl

end Pory.C11b
