import PoryProofs.BoolParseLeaf
/-
Helpers for C02 (precedence half), part 2: the reference grammar `SOr / SAnd / SUn` (precedence by
construction), its printer, the expected result trees, one-step lemmas for
`parseBooleanExpression` / `parseRightSideExpression`, and the continuation-passing mutual
induction showing that the parser, run on the printed tokens, returns the expected tree.
Then the semantic half: `evalOr` (value of the written expression), `evalTree` (value of the
parser's tree) and `evalOr_ok` (they agree on the expected trees). The property theorems are in
`PoryProofs/Properties/C02P.lean`.
-/
namespace Pory.C02P
open Pory Pory.Parser Pory.Spec

/-! ### reference grammar:
`SOr ::= SAnd | SAnd '||' SOr ; SAnd ::= SUn | SUn '&&' SAnd ; SUn ::= leaf | ['!'] '(' SOr ')'`

The `TPos` arguments are the position records of the operator / parenthesis tokens (a `Leaf`
carries those of its own tokens), so "for every `g : SOr`" includes every assignment of token
positions; no function below other than the printer looks at them. -/
mutual
inductive SOr where
  | one (a : SAnd)
  | more (a : SAnd) (p : TPos) (r : SOr)                 -- `a || r`, `p` = positions of `||`
inductive SAnd where
  | one (u : SUn)
  | more (u : SUn) (p : TPos) (r : SAnd)                 -- `u && r`
inductive SUn where
  | leaf (lf : Leaf)
  | paren (neg : Bool) (pn pl pr : TPos) (e : SOr)       -- `(e)` / `!(e)`; positions of `!`, `(`, `)`
end

mutual
def printOr : SOr → List Tok
  | .one a => printAnd a
  | .more a p r => printAnd a ++ tkp p .OR "||" :: printOr r
def printAnd : SAnd → List Tok
  | .one u => printUn u
  | .more u p r => printUn u ++ tkp p .AND "&&" :: printAnd r
def printUn : SUn → List Tok
  | .leaf lf => printLeaf lf
  | .paren neg pn pl pr e =>
      (if neg then [tkp pn .NOT "!"] else []) ++ tkp pl .LPAREN "(" :: (printOr e ++ [tkp pr .RPAREN ")"])
end

/-! fuel needs (sums, so that `need (…) ≤ f` gives every sub-bound by `omega`) -/
mutual
def needOr : SOr → Nat
  | .one a => 2 + needAnd a
  | .more a _ r => 3 + needAnd a + needOr r
def needAnd : SAnd → Nat
  | .one u => 1 + needUn u
  | .more u _ r => 2 + needUn u + needAnd r
def needUn : SUn → Nat
  | .leaf _ => 3
  | .paren _ _ _ _ e => 1 + needOr e
end

/-! ### expected trees -/
def andOp (neg : Bool) : TT := if neg then .OR else .AND
def orOp (neg : Bool) : TT := if neg then .AND else .OR

/-- What `parseBooleanExpression` does to a leaf under a distributed `!`. -/
def negLeaf (neg : Bool) (e : OpExpr) : OpExpr :=
  if neg then { e with operator := getNegatedBooleanOperator e.operator } else e

mutual
def treeOr (σ : String → String) (neg : Bool) : SOr → BoolExpr
  | .one a => treeAnd σ neg a
  | .more a _ r => .bin (treeAnd σ neg a) (orOp neg) (treeOr σ neg r)
def treeAnd (σ : String → String) (neg : Bool) : SAnd → BoolExpr
  | .one u => treeUn σ neg u
  | .more u _ r => treeAndAcc σ neg (treeUn σ neg u) r
/-- `left && r`, folded to the left -/
def treeAndAcc (σ : String → String) (neg : Bool) : BoolExpr → SAnd → BoolExpr
  | left, .one u => .bin left (andOp neg) (treeUn σ neg u)
  | left, .more u _ r => treeAndAcc σ neg (.bin left (andOp neg) (treeUn σ neg u)) r
def treeUn (σ : String → String) (neg : Bool) : SUn → BoolExpr
  | .leaf lf => .leaf (negLeaf neg (leafT σ lf))
  | .paren n _ _ _ e => treeOr σ (neg != n) e
end

/-! ### one-step lemmas: each unfolds the parser exactly once on a known token pattern -/

@[simp] theorem imp_add_empty : ImpData.add {} {} = {} := rfl

section
variable (env : Env) (sn : String)

theorem pr_stop (left : BoolExpr) (single neg : Bool) (f : Nat) (s : PState) (t : Tok) (tl : List Tok)
    (h1 : t.type ≠ .AND) (h2 : t.type ≠ .OR) :
    (parseRightSideExpression env sn left single neg (f + 1)).run (st s (t :: tl)) =
      .ok ((left, {}), st s (t :: tl)) := by
  rw [parseRightSideExpression]
  simp [h1, h2]

theorem pr_and (left r t : BoolExpr) (single neg : Bool) (f : Nat) (s s1 s2 : PState) (a : Tok)
    (tl : List Tok) (ha : a.type = .AND)
    (h1 : (parseBooleanExpression env sn true neg f).run (st s (a :: tl)) = .ok ((r, {}), s1))
    (h2 : (parseRightSideExpression env sn (.bin left (andOp neg) r) single neg f).run s1 =
      .ok ((t, {}), s2)) :
    (parseRightSideExpression env sn left single neg (f + 1)).run (st s (a :: tl)) =
      .ok ((t, {}), s2) := by
  rw [parseRightSideExpression]
  cases neg <;> simp [h1, ha, andOp, C02.negation_swaps_connectives.1] at h2 ⊢ <;> simp [h2]

theorem pr_or (left r : BoolExpr) (single neg : Bool) (f : Nat) (s s1 : PState) (a : Tok)
    (tl : List Tok) (ha : a.type = .OR)
    (h1 : (parseBooleanExpression env sn false neg f).run (st s (a :: tl)) = .ok ((r, {}), s1)) :
    (parseRightSideExpression env sn left single neg (f + 1)).run (st s (a :: tl)) =
      .ok ((.bin left (orOp neg) r, {}), s1) := by
  rw [parseRightSideExpression]
  cases neg <;> simp [h1, ha, orOp, C02.negation_swaps_connectives.2]

/-- A leaf at the start of an expression, `single` (right operand of `&&`). -/
theorem pb_leaf_single (neg : Bool) (f : Nat) (s s1 : PState) (pre a b : Tok) (tl : List Tok)
    (e : OpExpr)
    (hleaf : (parseLeafBooleanExpression env sn f).run (st s (pre :: a :: b :: tl)) = .ok ((e, {}), s1))
    (ha : a.type ≠ .LPAREN) (hb : a.type = .NOT → b.type ≠ .LPAREN) :
    (parseBooleanExpression env sn true neg (f + 1)).run (st s (pre :: a :: b :: tl)) =
      .ok ((.leaf (negLeaf neg e), {}), s1) := by
  rw [parseBooleanExpression]
  by_cases hn : a.type = .NOT
  · have hb' := hb hn
    cases neg <;> simp [hn, hb', hleaf, negLeaf]
  · cases neg <;> simp [ha, hn, hleaf, negLeaf]

/-- A leaf at the start of an expression, followed by the operator chain. -/
theorem pb_leaf_multi (neg : Bool) (f : Nat) (s s1 s2 : PState) (pre a b : Tok) (tl : List Tok)
    (e : OpExpr) (t : BoolExpr)
    (hleaf : (parseLeafBooleanExpression env sn f).run (st s (pre :: a :: b :: tl)) = .ok ((e, {}), s1))
    (ha : a.type ≠ .LPAREN) (hb : a.type = .NOT → b.type ≠ .LPAREN)
    (hk : (parseRightSideExpression env sn (.leaf (negLeaf neg e)) false neg f).run s1 =
      .ok ((t, {}), s2)) :
    (parseBooleanExpression env sn false neg (f + 1)).run (st s (pre :: a :: b :: tl)) =
      .ok ((t, {}), s2) := by
  rw [parseBooleanExpression]
  by_cases hn : a.type = .NOT
  · have hb' := hb hn
    cases neg <;> simp [hn, hb', hleaf, negLeaf] at hk ⊢ <;> simp [hk]
  · cases neg <;> simp [ha, hn, hleaf, negLeaf] at hk ⊢ <;> simp [hk]

/-- `( … )` / `!( … )` as the right operand of `&&`. -/
theorem pb_paren_single (neg n : Bool) (f : Nat) (s : PState) (pre nt lp c : Tok)
    (inner rest : List Tok) (t : BoolExpr) (hnt : nt.type = .NOT) (hlp : lp.type = .LPAREN)
    (hin : (parseBooleanExpression env sn false (neg != n) f).run (st s (lp :: inner)) =
      .ok ((t, {}), st s (c :: rest)))
    (hc : c.type = .RPAREN) :
    (parseBooleanExpression env sn true neg (f + 1)).run
        (st s (pre :: ((if n then [nt] else []) ++ lp :: inner))) =
      .ok ((t, {}), st s rest) := by
  rw [parseBooleanExpression]
  cases n <;> cases neg <;> simp [hnt, hlp] at hin ⊢ <;> simp [hin, hc]

/-- `( … )` / `!( … )` at the start of an expression, followed by the operator chain. -/
theorem pb_paren_multi (neg n : Bool) (f : Nat) (s s2 : PState) (pre nt lp c : Tok)
    (inner rest : List Tok) (t t' : BoolExpr) (hnt : nt.type = .NOT) (hlp : lp.type = .LPAREN)
    (hin : (parseBooleanExpression env sn false (neg != n) (f + 1)).run (st s (lp :: inner)) =
      .ok ((t, {}), st s (c :: rest)))
    (hc : c.type = .RPAREN) (hfo : Follow rest)
    (hk : (parseRightSideExpression env sn t false neg (f + 1)).run (st s rest) = .ok ((t', {}), s2)) :
    (parseBooleanExpression env sn false neg (f + 2)).run
        (st s (pre :: ((if n then [nt] else []) ++ lp :: inner))) =
      .ok ((t', {}), s2) := by
  obtain ⟨x, tl, rfl, hx⟩ := hfo
  rw [parseBooleanExpression]
  rcases hx with hx | hx | hx
  · cases n <;> cases neg <;> simp [hnt, hlp] at hin ⊢ <;> simp [hin, hc, hx, hk]
  · cases n <;> cases neg <;> simp [hnt, hlp] at hin ⊢ <;> simp [hin, hc, hx, hk]
  · rw [pr_stop env sn t false neg f s x tl (by simp [hx]) (by simp [hx])] at hk
    cases n <;> cases neg <;> simp [hnt, hlp] at hin hk ⊢ <;> simp [hin, hc, hx, hk]

end

/-- Every printed leaf starts with two tokens that are not `(` and not `! (`. -/
theorem printLeaf_shape (lf : Leaf) :
    ∃ a b tl, printLeaf lf = a :: b :: tl ∧ a.type ≠ .LPAREN ∧ (a.type = .NOT → b.type ≠ .LPAREN) := by
  cases lf with
  | flagBare ps d x => cases d <;> exact ⟨_, _, _, rfl, by simp [kindTok], by simp [kindTok]⟩
  | flagNot ps d x => cases d <;> exact ⟨_, _, _, rfl, by simp, by simp [kindTok]⟩
  | flagCmp ps d x eqv tv => cases d <;> exact ⟨_, _, _, rfl, by simp [kindTok], by simp [kindTok]⟩
  | varBare ps x => exact ⟨_, _, _, rfl, by simp, by simp⟩
  | varNot ps x => exact ⟨_, _, _, rfl, by simp, by simp⟩
  | varCmp ps x op n => exact ⟨_, _, _, rfl, by simp, by simp⟩

theorem follow_and (p : TPos) (l : List Tok) : Follow (tkp p .AND "&&" :: l) :=
  follow_cons _ _ (Or.inl rfl)
theorem follow_or (p : TPos) (l : List Tok) : Follow (tkp p .OR "||" :: l) :=
  follow_cons _ _ (Or.inr (Or.inl rfl))
theorem follow_rparen (c : Tok) (l : List Tok) (hc : c.type = .RPAREN) : Follow (c :: l) :=
  follow_cons _ _ (Or.inr (Or.inr hc))

/-! ### the parser on printed expressions (continuation-passing mutual induction) -/
section
variable (env : Env) (sn : String) (s : PState)

local notation "σ" => substC s.constants

mutual
theorem unS (u : SUn) (neg : Bool) (pre : Tok) (rest : List Tok) (f : Nat)
    (hf : needUn u ≤ f) (hfo : Follow rest) :
    (parseBooleanExpression env sn true neg f).run (st s (pre :: (printUn u ++ rest))) =
      .ok ((treeUn σ neg u, {}), st s rest) := by
  cases u with
  | leaf lf =>
    obtain ⟨f, rfl⟩ : ∃ f', f = f' + 3 := ⟨f - 3, by simp [needUn] at hf; omega⟩
    obtain ⟨a, b, tl, hp, ha, hb⟩ := printLeaf_shape lf
    have hl := parseLeaf_print env sn f s pre lf rest hfo
    simp only [printUn, hp, List.cons_append] at hl ⊢
    exact pb_leaf_single env sn neg (f + 2) s _ pre a b _ _ hl ha hb
  | paren n pn pl pr e =>
    obtain ⟨f, rfl⟩ : ∃ f', f = f' + 1 := ⟨f - 1, by simp [needUn] at hf; omega⟩
    have hin := orF e (neg != n) (tkp pl .LPAREN "(") (tkp pr .RPAREN ")") rest f
      (by simp [needUn] at hf; omega) rfl
    have := pb_paren_single env sn neg n f s pre (tkp pn .NOT "!") _ _
      (printOr e ++ tkp pr .RPAREN ")" :: rest) rest _ rfl rfl hin rfl
    simpa [printUn, treeUn] using this
theorem unF (u : SUn) (neg : Bool) (pre : Tok) (rest : List Tok) (f : Nat) (t : BoolExpr) (s2 : PState)
    (hk : (parseRightSideExpression env sn (treeUn σ neg u) false neg f).run (st s rest) =
      .ok ((t, {}), s2))
    (hf : needUn u ≤ f) (hfo : Follow rest) :
    (parseBooleanExpression env sn false neg (f + 1)).run (st s (pre :: (printUn u ++ rest))) =
      .ok ((t, {}), s2) := by
  cases u with
  | leaf lf =>
    obtain ⟨f, rfl⟩ : ∃ f', f = f' + 2 := ⟨f - 2, by simp [needUn] at hf; omega⟩
    obtain ⟨a, b, tl, hp, ha, hb⟩ := printLeaf_shape lf
    have hl := parseLeaf_print env sn f s pre lf rest hfo
    simp only [printUn, hp, List.cons_append] at hl ⊢
    exact pb_leaf_multi env sn neg (f + 2) s _ s2 pre a b _ _ t hl ha hb hk
  | paren n pn pl pr e =>
    obtain ⟨f, rfl⟩ : ∃ f', f = f' + 1 := ⟨f - 1, by simp [needUn] at hf; omega⟩
    have hin := orF e (neg != n) (tkp pl .LPAREN "(") (tkp pr .RPAREN ")") rest (f + 1)
      (by simp [needUn] at hf; omega) rfl
    have := pb_paren_multi env sn neg n f s s2 pre (tkp pn .NOT "!") _ _
      (printOr e ++ tkp pr .RPAREN ")" :: rest) rest _ t rfl rfl hin rfl hfo
      (by simpa [treeUn] using hk)
    simpa [printUn] using this
/-- the `&&`-chain `&& r` after an already parsed `left` -/
theorem andR (r : SAnd) (p : TPos) (neg single : Bool) (left : BoolExpr) (rest : List Tok) (f K : Nat)
    (t : BoolExpr) (s2 : PState)
    (hk : ∀ f', K ≤ f' →
      (parseRightSideExpression env sn (treeAndAcc σ neg left r) single neg f').run (st s rest) =
        .ok ((t, {}), s2))
    (hf : K + needAnd r ≤ f) (hfo : Follow rest) :
    (parseRightSideExpression env sn left single neg f).run
        (st s (tkp p .AND "&&" :: (printAnd r ++ rest))) = .ok ((t, {}), s2) := by
  obtain ⟨f, rfl⟩ : ∃ f', f = f' + 1 := ⟨f - 1, by cases r <;> simp [needAnd] at hf <;> omega⟩
  cases r with
  | one u =>
    have hu := unS u neg (tkp p .AND "&&") rest f (by simp [needAnd] at hf; omega) hfo
    have h2 := hk f (by simp [needAnd] at hf; omega)
    simp only [printAnd, treeAndAcc] at h2 ⊢
    exact pr_and env sn left _ t single neg f s _ s2 _ _ rfl hu h2
  | more u p' r' =>
    have hu := unS u neg (tkp p .AND "&&") (tkp p' .AND "&&" :: (printAnd r' ++ rest)) f
      (by simp [needAnd] at hf; omega) (follow_and _ _)
    have ih := andR r' p' neg single (.bin left (andOp neg) (treeUn σ neg u)) rest f K t s2
      (by simpa [treeAndAcc] using hk) (by simp [needAnd] at hf; omega) hfo
    simp only [printAnd, List.append_assoc, List.cons_append] at hu ⊢
    exact pr_and env sn left _ t single neg f s _ s2 _ _ rfl hu ih
/-- a full `SAnd` at the start of an expression -/
theorem andF (a : SAnd) (neg : Bool) (pre : Tok) (rest : List Tok) (f K : Nat)
    (t : BoolExpr) (s2 : PState)
    (hk : ∀ f', K ≤ f' →
      (parseRightSideExpression env sn (treeAnd σ neg a) false neg f').run (st s rest) =
        .ok ((t, {}), s2))
    (hf : K + needAnd a ≤ f) (hfo : Follow rest) :
    (parseBooleanExpression env sn false neg (f + 1)).run (st s (pre :: (printAnd a ++ rest))) =
      .ok ((t, {}), s2) := by
  cases a with
  | one u =>
    have h2 := hk f (by simp [needAnd] at hf; omega)
    simp only [printAnd, treeAnd] at h2 ⊢
    exact unF u neg pre rest f t s2 h2 (by simp [needAnd] at hf; omega) hfo
  | more u p r =>
    have h2 := andR r p neg false (treeUn σ neg u) rest f K t s2 (by simpa [treeAnd] using hk)
      (by simp [needAnd] at hf; omega) hfo
    have h1 := unF u neg pre (tkp p .AND "&&" :: (printAnd r ++ rest)) f t s2 h2
      (by simp [needAnd] at hf; omega) (follow_and _ _)
    simpa only [printAnd, List.append_assoc, List.cons_append] using h1
theorem orF (g : SOr) (neg : Bool) (pre c : Tok) (tail : List Tok) (f : Nat)
    (hf : needOr g ≤ f) (hc : c.type = .RPAREN) :
    (parseBooleanExpression env sn false neg f).run (st s (pre :: (printOr g ++ c :: tail))) =
      .ok ((treeOr σ neg g, {}), st s (c :: tail)) := by
  obtain ⟨f, rfl⟩ : ∃ f', f = f' + 1 := ⟨f - 1, by cases g <;> simp [needOr] at hf <;> omega⟩
  cases g with
  | one a =>
    have := andF a neg pre (c :: tail) f 1 (treeAnd σ neg a) (st s (c :: tail))
      (by
        intro f' hf'
        obtain ⟨f', rfl⟩ : ∃ k, f' = k + 1 := ⟨f' - 1, by omega⟩
        exact pr_stop env sn _ _ _ f' s c tail (by simp [hc]) (by simp [hc]))
      (by simp [needOr] at hf; omega) (follow_rparen c tail hc)
    simpa only [printOr, treeOr] using this
  | more a p r =>
    have := andF a neg pre (tkp p .OR "||" :: (printOr r ++ c :: tail)) f (1 + needOr r)
      (.bin (treeAnd σ neg a) (orOp neg) (treeOr σ neg r)) (st s (c :: tail))
      (by
        intro f' hf'
        obtain ⟨f', rfl⟩ : ∃ k, f' = k + 1 := ⟨f' - 1, by omega⟩
        have ih := orF r neg (tkp p .OR "||") c tail f' (by omega) hc
        exact pr_or env sn _ _ false neg f' s _ _ _ rfl ih)
      (by simp [needOr] at hf; omega) (follow_or _ _)
    simpa only [printOr, treeOr, List.append_assoc, List.cons_append] using this
end

end

/-! ### the fuel bound is linear in the number of tokens -/
theorem printLeaf_length (lf : Leaf) : 4 ≤ (printLeaf lf).length := by
  cases lf <;> simp [printLeaf, operandToks]

mutual
theorem needOr_le (g : SOr) : needOr g ≤ 2 * (printOr g).length + 1 := by
  cases g with
  | one a => have := needAnd_le a; simp only [needOr, printOr]; omega
  | more a p r =>
    have := needAnd_le a; have := needOr_le r
    simp only [needOr, printOr, List.length_append, List.length_cons]; omega
theorem needAnd_le (a : SAnd) : needAnd a + 1 ≤ 2 * (printAnd a).length := by
  cases a with
  | one u => have := needUn_le u; simp only [needAnd, printAnd]; omega
  | more u p r =>
    have := needUn_le u; have := needAnd_le r
    simp only [needAnd, printAnd, List.length_append, List.length_cons]; omega
theorem needUn_le (u : SUn) : needUn u + 2 ≤ 2 * (printUn u).length := by
  cases u with
  | leaf lf => have := printLeaf_length lf; simp only [needUn, printUn]; omega
  | paren n pn pl pr e =>
    have := needOr_le e
    simp only [needUn, printUn, List.length_append, List.length_cons, List.length_nil]; omega
end

/-! ### semantics: the written expression and the parsed tree -/

/-- `flag(X)` / `defeated(X)` in world `w` after history `h`. -/
def atomVal (w : World) (h : Hist) (defeated : Bool) (x : String) : Bool :=
  if defeated then w.trainer h x else w.flag h x

/-- What the manual says a leaf means (`σ` = constant substitution on operand / value names). -/
def evalLeaf (σ : String → String) (w : World) (h : Hist) : Leaf → Bool
  | .flagBare _ d x => atomVal w h d (σ x)
  | .flagNot _ d x => !atomVal w h d (σ x)
  | .flagCmp _ d x eqv tv =>
      if eqv then atomVal w h d (σ x) == tv else atomVal w h d (σ x) != tv
  | .varBare _ x => w.cmp h (σ x) "0" != 0
  | .varNot _ x => w.cmp h (σ x) "0" == 0
  | .varCmp _ x op n => cmpHolds op.tt (w.cmp h (σ x) (σ n.lit))

/-! Standard truth value: `!` tightest, then `&&`, then `||`, parentheses override. -/
mutual
def evalOr (σ : String → String) (w : World) (h : Hist) : SOr → Bool
  | .one a => evalAnd σ w h a
  | .more a _ r => evalAnd σ w h a || evalOr σ w h r
def evalAnd (σ : String → String) (w : World) (h : Hist) : SAnd → Bool
  | .one u => evalUn σ w h u
  | .more u _ r => evalUn σ w h u && evalAnd σ w h r
def evalUn (σ : String → String) (w : World) (h : Hist) : SUn → Bool
  | .leaf lf => evalLeaf σ w h lf
  | .paren neg _ _ _ e => evalOr σ w h e != neg
end

/-- Value of the parser's result tree: leaves by `Spec.leafHolds`, `.AND` / `.OR` nodes are
conjunction / disjunction (any other operator on a node: `false`). -/
def evalTree (w : World) (h : Hist) : BoolExpr → Bool
  | .leaf e => leafHolds w h e
  | .bin l op r =>
    if op == .AND then evalTree w h l && evalTree w h r
    else if op == .OR then evalTree w h l || evalTree w h r
    else false

theorem cmpOp_isCmp (op : CmpOp) : isCmpOp op.tt = true := by cases op <;> rfl

theorem leaf_sem (σ : String → String) (w : World) (h : Hist) (neg : Bool) (lf : Leaf) :
    leafHolds w h (negLeaf neg (leafT σ lf)) = (evalLeaf σ w h lf != neg) := by
  have b1 : (TT.FALSE.str == TT.TRUE.str) = false := by decide
  obtain ⟨t1, t2, -⟩ := C02.negation_table
  cases lf with
  | flagBare ps d x =>
    cases d <;> cases neg <;> simp [negLeaf, leafT, kindTT, leafHolds, evalLeaf, atomVal, t1]
  | flagNot ps d x =>
    cases d <;> cases neg <;> simp [negLeaf, leafT, kindTT, leafHolds, evalLeaf, atomVal, t1, b1]
  | flagCmp ps d x eqv tv =>
    cases d <;> cases neg <;> cases eqv <;> cases tv <;>
      simp [negLeaf, leafT, kindTT, leafHolds, evalLeaf, atomVal, t1, t2, b1]
  | varBare ps x =>
    cases neg <;> simp [negLeaf, leafT, leafHolds, evalLeaf, t2, cmpHolds, bne]
  | varNot ps x =>
    cases neg <;> simp [negLeaf, leafT, leafHolds, evalLeaf, t1, cmpHolds, bne]
  | varCmp ps x op n =>
    cases neg
    · simp [negLeaf, leafT, leafHolds, evalLeaf]
    · simp [negLeaf, leafT, leafHolds, evalLeaf, C02.negation_sound _ (cmpOp_isCmp op)]

mutual
theorem evalOr_ok (σ : String → String) (w : World) (h : Hist) (neg : Bool) (g : SOr) :
    evalTree w h (treeOr σ neg g) = (evalOr σ w h g != neg) := by
  cases g with
  | one a => simpa [treeOr, evalOr] using evalAnd_ok σ w h neg a
  | more a p r =>
    have h1 := evalAnd_ok σ w h neg a
    have h2 := evalOr_ok σ w h neg r
    cases neg <;> simp [treeOr, evalOr, evalTree, orOp, h1, h2]
theorem evalAnd_ok (σ : String → String) (w : World) (h : Hist) (neg : Bool) (a : SAnd) :
    evalTree w h (treeAnd σ neg a) = (evalAnd σ w h a != neg) := by
  cases a with
  | one u => simpa [treeAnd, evalAnd] using evalUn_ok σ w h neg u
  | more u p r =>
    have h1 := evalUn_ok σ w h neg u
    have h2 := evalAcc_ok σ w h neg (treeUn σ neg u) (evalUn σ w h u) r h1
    simpa [treeAnd, evalAnd] using h2
theorem evalAcc_ok (σ : String → String) (w : World) (h : Hist) (neg : Bool) (left : BoolExpr)
    (bl : Bool) (r : SAnd) (hl : evalTree w h left = (bl != neg)) :
    evalTree w h (treeAndAcc σ neg left r) = ((bl && evalAnd σ w h r) != neg) := by
  cases r with
  | one u =>
    have h1 := evalUn_ok σ w h neg u
    cases neg <;> simp [treeAndAcc, evalAnd, evalTree, andOp, hl, h1]
  | more u p r' =>
    have h1 := evalUn_ok σ w h neg u
    have := evalAcc_ok σ w h neg (.bin left (andOp neg) (treeUn σ neg u)) (bl && evalUn σ w h u) r'
      (by cases neg <;> simp [evalTree, andOp, hl, h1])
    simpa [treeAndAcc, evalAnd, Bool.and_assoc] using this
theorem evalUn_ok (σ : String → String) (w : World) (h : Hist) (neg : Bool) (u : SUn) :
    evalTree w h (treeUn σ neg u) = (evalUn σ w h u != neg) := by
  cases u with
  | leaf lf => simpa [treeUn, evalTree, evalUn] using leaf_sem σ w h neg lf
  | paren n pn pl pr e =>
    have := evalOr_ok σ w h (neg != n) e
    cases neg <;> cases n <;> simp at this <;> simp [treeUn, evalUn, this]
end

end Pory.C02P
