import PoryProofs.Worklist
/-
Command census, part 1 (helper module of PoryProofs/Properties/C10d.lean).

* the commands written in a script body: `blockCmds pick body` (`pick = .all`: every command statement at
  any depth, in source order, incl. the AutoVar preamble commands of condition leaves; `.emitted`: the
  same without the *block-final* `end` / `return` commands, which the emitter turns into the chunk's
  terminator; `.absorbed`: exactly those);
* the commands held by a chunk table (`tableCmds`);
* the worklist accounting: for every command `a`, the number of occurrences of `a` in the final table of
  `scriptChunks body` is its number of occurrences in `blockCmds .emitted body` (`scriptChunks_count`).

Proof: the `WorklistFuel.lean` accounting with `List.count a` in place of the weight, and equalities in
place of `≤`; every builder appends its new chunks to the queue (`CStep`).
-/
namespace Pory.C10d
open Pory Pory.Emit

/-! ## 1. the commands of a body -/

/-- `end` / `return`: as the last statement of a block they become the terminator of the chunk. -/
def isTerm (c : Cmd) : Bool := c.name == "end" || c.name == "return"

/-- Which commands to list. -/
inductive Pick
  | all        -- every command
  | emitted    -- every command but the block-final `end` / `return`
  | absorbed   -- the block-final `end` / `return` commands
  deriving DecidableEq, Repr

/-- the contribution of a command statement; `final`: it is an `end` / `return` closing its block -/
def Pick.take : Pick → Bool → Cmd → List Cmd
  | .all, _, c => [c]
  | .emitted, final, c => if final then [] else [c]
  | .absorbed, final, c => if final then [c] else []

/-- the contribution of condition preambles -/
def Pick.pre : Pick → List Cmd → List Cmd
  | .absorbed, _ => []
  | _, l => l

/-- AutoVar preamble commands of the leaves of a condition, left to right. -/
def condCmds : BoolExpr → List Cmd
  | .leaf e => e.preamble.toList
  | .bin l _ r => condCmds l ++ condCmds r

mutual
/-- `last`: the statement is the last one of its block. -/
def stmtCmds (p : Pick) (last : Bool) : Stmt → List Cmd
  | .cmd c => p.take (last && isTerm c) c
  | .label .. => []
  | .ite _ c b es e =>
    p.pre (condCmds c) ++ blockCmds p b ++ elifsCmds p es ++
      (match e with | some l => blockCmds p l | none => [])
  | .while_ _ _ c b => (match c with | some e => p.pre (condCmds e) | none => []) ++ blockCmds p b
  | .doWhile _ _ c b => blockCmds p b ++ p.pre (condCmds c)
  | .brk .. => []
  | .cont .. => []
  | .switch_ _ _ _ cs => casesCmds p cs
/-- the commands of a block (script body, body of `if` / `elif` / `else` / loop / case), in source order -/
def blockCmds (p : Pick) : List Stmt → List Cmd
  | [] => []
  | s :: r => stmtCmds p r.isEmpty s ++ blockCmds p r
def elifsCmds (p : Pick) : List (BoolExpr × List Stmt) → List Cmd
  | [] => []
  | (c, b) :: r => p.pre (condCmds c) ++ blockCmds p b ++ elifsCmds p r
def casesCmds (p : Pick) : List SwitchCase → List Cmd
  | [] => []
  | (_, _, b) :: r => blockCmds p b ++ casesCmds p r
end

/-- **All command statements of a body**, at any depth, in source order, including the AutoVar preamble
commands of condition leaves (at the place of the condition, leaves left to right). -/
def cmdsOf (body : List Stmt) : List Cmd := blockCmds .all body
/-- The commands the emitter renders as command lines. -/
def emittedCmds (body : List Stmt) : List Cmd := blockCmds .emitted body
/-- The `end` / `return` commands that close a block: rendered as the terminator of their chunk. -/
def absorbedCmds (body : List Stmt) : List Cmd := blockCmds .absorbed body

/-! unfolding lemmas -/
section
variable (p : Pick)
theorem stmtCmds_cmd (b : Bool) (c : Cmd) : stmtCmds p b (.cmd c) = p.take (b && isTerm c) c := by
  rw [stmtCmds]
theorem stmtCmds_label (b : Bool) (t : Tok) (n : String) (g : Bool) : stmtCmds p b (.label t n g) = [] := by
  rw [stmtCmds]
theorem stmtCmds_ite (l : Bool) (t : Tok) (c : BoolExpr) (b : List Stmt) (es : List (BoolExpr × List Stmt))
    (e : Option (List Stmt)) : stmtCmds p l (.ite t c b es e) =
      p.pre (condCmds c) ++ blockCmds p b ++ elifsCmds p es ++
        (match e with | some l => blockCmds p l | none => []) := by
  cases e <;> rw [stmtCmds]
theorem stmtCmds_while (l : Bool) (t : Tok) (sid : Nat) (c : Option BoolExpr) (b : List Stmt) :
    stmtCmds p l (.while_ t sid c b) =
      (match c with | some e => p.pre (condCmds e) | none => []) ++ blockCmds p b := by
  cases c <;> rw [stmtCmds]
theorem stmtCmds_doWhile (l : Bool) (t : Tok) (sid : Nat) (c : BoolExpr) (b : List Stmt) :
    stmtCmds p l (.doWhile t sid c b) = blockCmds p b ++ p.pre (condCmds c) := by rw [stmtCmds]
theorem stmtCmds_brk (l : Bool) (t : Tok) (sid : Nat) : stmtCmds p l (.brk t sid) = [] := by rw [stmtCmds]
theorem stmtCmds_cont (l : Bool) (t : Tok) (sid : Nat) : stmtCmds p l (.cont t sid) = [] := by rw [stmtCmds]
theorem stmtCmds_switch (l : Bool) (t : Tok) (sid : Nat) (o : Tok) (cs : List SwitchCase) :
    stmtCmds p l (.switch_ t sid o cs) = casesCmds p cs := by rw [stmtCmds]
theorem blockCmds_nil : blockCmds p [] = [] := by rw [blockCmds]
theorem blockCmds_cons (s : Stmt) (r : List Stmt) :
    blockCmds p (s :: r) = stmtCmds p r.isEmpty s ++ blockCmds p r := by rw [blockCmds]
theorem elifsCmds_nil : elifsCmds p [] = [] := by rw [elifsCmds]
theorem elifsCmds_cons (c : BoolExpr) (b : List Stmt) (r : List (BoolExpr × List Stmt)) :
    elifsCmds p ((c, b) :: r) = p.pre (condCmds c) ++ blockCmds p b ++ elifsCmds p r := by rw [elifsCmds]
theorem casesCmds_nil : casesCmds p [] = [] := by rw [casesCmds]
theorem casesCmds_cons (v : Tok) (d : Bool) (b : List Stmt) (r : List SwitchCase) :
    casesCmds p ((v, d, b) :: r) = blockCmds p b ++ casesCmds p r := by rw [casesCmds]
end

/-- Commands of a straight-line statement list (what a finalised chunk holds). -/
def flatCmds : List Stmt → List Cmd
  | [] => []
  | .cmd c :: r => c :: flatCmds r
  | _ :: r => flatCmds r

/-- Preamble command of a branch behaviour. -/
def branchCmds : Branch → List Cmd
  | .leaf _ e _ => e.preamble.toList
  | _ => []

/-- The commands a finalised chunk renders: its statements, then the preamble of its leaf test. -/
def chunkCmds (c : Chunk) : List Cmd := flatCmds c.statements ++ branchCmds c.branch

/-- The commands of a chunk table, in table order. -/
def tableCmds (G : List Chunk) : List Cmd := G.flatMap chunkCmds

/-! ## 2. the scanning loop -/

theorem scan_cmds : ∀ (ss : List Stmt) (i0 len : Nat), len = i0 + ss.length →
    ∀ i fin, scanSimple ss i0 len = (i, fin) →
    ∃ pre rest, ss = pre ++ rest ∧ i = i0 + pre.length ∧
      blockCmds .emitted ss = flatCmds pre ++ blockCmds .emitted rest ∧
      ((fin = none ∧ (rest = [] ∨ ∃ x r, rest = x :: r ∧ ¬ IsSimple x)) ∨
       (∃ c b, fin = some b ∧ rest = [.cmd c] ∧ isTerm c = true)) := by
  intro ss
  induction ss with
  | nil =>
    intro i0 len _ i fin h
    simp only [scanSimple, Prod.mk.injEq] at h
    exact ⟨[], [], rfl, by simp [h.1], rfl, .inl ⟨h.2.symm, .inl rfl⟩⟩
  | cons s r ih =>
    intro i0 len hlen i fin h
    have stop : ¬ IsSimple s → (i, fin) = (i0, none) →
        ∃ pre rest, s :: r = pre ++ rest ∧ i = i0 + pre.length ∧
          blockCmds .emitted (s :: r) = flatCmds pre ++ blockCmds .emitted rest ∧
          ((fin = none ∧ (rest = [] ∨ ∃ x r, rest = x :: r ∧ ¬ IsSimple x)) ∨
           (∃ c b, fin = some b ∧ rest = [.cmd c] ∧ isTerm c = true)) := by
      intro hs h'
      simp only [Prod.mk.injEq] at h'
      exact ⟨[], s :: r, rfl, by simp [h'.1], rfl, .inl ⟨h'.2, .inr ⟨s, r, rfl, hs⟩⟩⟩
    cases s with
    | cmd c =>
      rw [scanSimple] at h
      split at h
      · rename_i hc
        simp only [Bool.and_eq_true, beq_iff_eq] at hc
        simp only [Prod.mk.injEq] at h
        have hr : r = [] := by
          have : r.length = 0 := by simp at hlen; omega
          exact List.eq_nil_of_length_eq_zero this
        subst hr
        exact ⟨[], [.cmd c], rfl, by simp [h.1], rfl, .inr ⟨c, _, h.2.symm, rfl, by simpa [isTerm] using hc.2⟩⟩
      · rename_i hc
        obtain ⟨pre, rest, e1, e3, e4, e5⟩ := ih (i0 + 1) len (by simp at hlen; omega) i fin h
        refine ⟨.cmd c :: pre, rest, by simp [e1], by simp [e3]; omega, ?_, e5⟩
        have hflag : (r.isEmpty && isTerm c) = false := by
          cases r with
          | nil =>
            have : i0 + 1 = len := by simp at hlen; omega
            simp only [isTerm, List.isEmpty_nil, Bool.true_and]
            simpa [this] using hc
          | cons x y => rfl
        rw [blockCmds_cons, stmtCmds_cmd, hflag, e4]
        rfl
    | label t n g =>
      rw [scanSimple] at h
      obtain ⟨pre, rest, e1, e3, e4, e5⟩ := ih (i0 + 1) len (by simp at hlen; omega) i fin h
      refine ⟨.label t n g :: pre, rest, by simp [e1], by simp [e3]; omega, ?_, e5⟩
      rw [blockCmds_cons, stmtCmds_label, e4]
      rfl
    | ite => simp only [scanSimple] at h; exact stop (by simp [IsSimple]) h.symm
    | while_ => simp only [scanSimple] at h; exact stop (by simp [IsSimple]) h.symm
    | doWhile => simp only [scanSimple] at h; exact stop (by simp [IsSimple]) h.symm
    | brk => simp only [scanSimple] at h; exact stop (by simp [IsSimple]) h.symm
    | cont => simp only [scanSimple] at h; exact stop (by simp [IsSimple]) h.symm
    | switch_ => simp only [scanSimple] at h; exact stop (by simp [IsSimple]) h.symm

theorem flatCmds_append (a b : List Stmt) : flatCmds (a ++ b) = flatCmds a ++ flatCmds b := by
  induction a with
  | nil => rfl
  | cons s r ih => cases s <;> simp [flatCmds, ih]

/-! ## 3. counting one command through the builders -/

section count
variable (a : Cmd)

/-- occurrences of `a` among the commands a *queued* chunk stands for: its statements as a block, and
the preamble of its branch -/
def qcnt : List Chunk → Nat
  | [] => 0
  | c :: r => ((blockCmds .emitted c.statements).count a + (branchCmds c.branch).count a) + qcnt r

/-- occurrences of `a` among the commands of finalised chunks -/
def fcnt : List Chunk → Nat
  | [] => 0
  | c :: r => (chunkCmds c).count a + fcnt r

theorem qcnt_nil : qcnt a [] = 0 := rfl
theorem qcnt_cons (c : Chunk) (r : List Chunk) :
    qcnt a (c :: r) = ((blockCmds .emitted c.statements).count a + (branchCmds c.branch).count a) + qcnt a r := rfl
theorem qcnt_append (x y : List Chunk) : qcnt a (x ++ y) = qcnt a x + qcnt a y := by
  induction x with
  | nil => simp [qcnt]
  | cons c r ih => simp only [List.cons_append, qcnt_cons, ih]; omega
theorem fcnt_cons (c : Chunk) (r : List Chunk) : fcnt a (c :: r) = (chunkCmds c).count a + fcnt a r := rfl

theorem fcnt_eq (G : List Chunk) : fcnt a G = (tableCmds G).count a := by
  induction G with
  | nil => rfl
  | cons c r ih => simp only [fcnt_cons, tableCmds, List.flatMap_cons, List.count_append] at ih ⊢; rw [ih]

/-- a code chunk (no branch yet) -/
theorem qcnt_code (id : Nat) (ret : Option Nat) (st : List Stmt) :
    qcnt a [{ id := id, returnID := ret, statements := st }] = (blockCmds .emitted st).count a := by
  simp [qcnt, branchCmds]

/-- A builder leaves `final` alone and appends chunks standing for `n` occurrences of `a`. -/
structure CStep (s s' : WS) (n : Nat) : Prop where
  final : s'.final = s.final
  queue : ∃ nw, s'.queue = s.queue ++ nw ∧ qcnt a nw = n

variable {a}

theorem CStep.refl (s : WS) : CStep a s s 0 := ⟨rfl, [], by simp, rfl⟩

theorem CStep.trans {x y z : WS} {n m : Nat} (h1 : CStep a x y n) (h2 : CStep a y z m) :
    CStep a x z (n + m) := by
  obtain ⟨f1, nw1, q1, c1⟩ := h1
  obtain ⟨f2, nw2, q2, c2⟩ := h2
  exact ⟨f2.trans f1, nw1 ++ nw2, by rw [q2, q1, List.append_assoc], by rw [qcnt_append, c1, c2]⟩

theorem CStep.cast {x y : WS} {n m : Nat} (h : CStep a x y n) (e : n = m) : CStep a x y m := e ▸ h

theorem cstep_counter (s : WS) (k : Nat) : CStep a s { s with counter := k } 0 := ⟨rfl, [], by simp, rfl⟩

theorem cstep_push (s : WS) (k : Nat) (c : Chunk) :
    CStep a s { s with counter := k, queue := s.queue ++ [c] } (qcnt a [c]) := ⟨rfl, [c], rfl, rfl⟩

theorem cstep_push' (s : WS) (c : Chunk) :
    CStep a s { s with queue := s.queue ++ [c] } (qcnt a [c]) := ⟨rfl, [c], rfl, rfl⟩

theorem cstep_pushMany (s : WS) (cs : List Chunk) :
    CStep a s { s with queue := s.queue ++ cs } (qcnt a cs) := ⟨rfl, cs, rfl, rfl⟩

theorem splitChunk_cstep (c : Chunk) (i : Nat) (s : WS) :
    CStep a s (splitChunkForBranch c i s).1 ((blockCmds .emitted (c.statements.drop (i + 1))).count a) := by
  unfold splitChunkForBranch
  split
  · rename_i hc
    have hc : i + 1 = c.statements.length := by simpa using hc
    have : c.statements.drop (i + 1) = [] := by rw [List.drop_eq_nil_iff]; omega
    rw [this, blockCmds_nil]
    exact CStep.refl s
  · exact (cstep_push s _ _).cast (qcnt_code a _ _ _)

theorem keep_cstep (c : Chunk) (i : Nat) (s : WS) :
    CStep a s (keepStatementsAfterJump c i s) ((blockCmds .emitted (c.statements.drop (i + 1))).count a) := by
  rw [keepStatementsAfterJump_eq]; exact splitChunk_cstep c i s

theorem qcnt_jump (id : Nat) (d : Nat) : qcnt a [{ id := id, branch := .jump d }] = 0 := by
  simp [qcnt, branchCmds, blockCmds_nil]

theorem splitBool_cstep (e : BoolExpr) : ∀ (succ : Nat) (fail : Option Nat) (s s' : WS) (id : Nat),
    splitBool e succ fail s = .ok (s', id) → CStep a s s' ((condCmds e).count a) := by
  induction e with
  | leaf e =>
    intro succ fail s s' id h
    simp only [splitBool, Except.ok.injEq, Prod.mk.injEq] at h
    rw [← h.1]
    refine (cstep_push s _ _).cast ?_
    simp [qcnt, branchCmds, blockCmds_nil, condCmds]
  | bin l op r ihl ihr =>
    intro succ fail s s' id h
    rw [splitBool] at h
    split at h
    · simp only at h
      split at h
      · simp at h
      · next s1 le h1 =>
        split at h
        · simp at h
        · next s2 re h2 =>
          simp only [Except.ok.injEq, Prod.mk.injEq] at h
          rw [← h.1]
          refine (((cstep_counter s _).trans ((ihl _ _ _ _ _ h1).trans (ihr _ _ _ _ _ h2))).trans
            (cstep_push' _ _)).cast ?_
          rw [qcnt_jump]; simp [condCmds, List.count_append]
    · split at h
      · simp only at h
        split at h
        · simp at h
        · next s1 le h1 =>
          split at h
          · simp at h
          · next s2 re h2 =>
            simp only [Except.ok.injEq, Prod.mk.injEq] at h
            rw [← h.1]
            refine (((cstep_counter s _).trans ((ihl _ _ _ _ _ h1).trans (ihr _ _ _ _ _ h2))).trans
              (cstep_push' _ _)).cast ?_
            rw [qcnt_jump]; simp [condCmds, List.count_append]
      · simp at h

/-- preamble commands of the elif conditions -/
def elifCondCmds : List (BoolExpr × List Stmt) → List Cmd
  | [] => []
  | e :: r => condCmds e.1 ++ elifCondCmds r

/-- commands of the elif bodies -/
def armBodyCmds : List (BoolExpr × List Stmt) → List Cmd
  | [] => []
  | e :: r => blockCmds .emitted e.2 ++ armBodyCmds r

theorem elifsCmds_split : ∀ (es : List (BoolExpr × List Stmt)),
    (elifsCmds .emitted es).count a = (elifCondCmds es).count a + (armBodyCmds es).count a := by
  intro es
  induction es with
  | nil => simp [elifsCmds_nil, elifCondCmds, armBodyCmds]
  | cons e r ih =>
    obtain ⟨c, b⟩ := e
    simp only [elifsCmds_cons, elifCondCmds, armBodyCmds, List.count_append, ih, Pick.pre]
    omega

theorem splitElifs_cstep : ∀ (elifs : List (BoolExpr × List Stmt)) (ids : List Nat)
    (lastFail : Option Nat) (s s' : WS) (r : Option Nat), ids.length = elifs.length →
    splitElifs elifs ids lastFail s = .ok (s', r) → CStep a s s' ((elifCondCmds elifs).count a) := by
  intro elifs
  induction elifs with
  | nil =>
    intro ids lastFail s s' r _ h
    simp [splitElifs] at h
    rw [← h.1]; exact CStep.refl s
  | cons e rest ih =>
    intro ids lastFail s s' r hl h
    obtain ⟨c, b⟩ := e
    cases ids with
    | nil => simp at hl
    | cons id restI =>
      rw [splitElifs] at h
      split at h
      · simp at h
      · next s1 ne h1 =>
        split at h
        · simp at h
        · next s2 en h2 =>
          simp only [Except.ok.injEq, Prod.mk.injEq] at h
          rw [← h.1]
          refine ((ih _ _ _ _ _ (by simpa using hl) h1).trans (splitBool_cstep c _ _ _ _ _ h2)).cast ?_
          simp only [elifCondCmds, List.count_append]; omega

theorem pushNew_cstep (s : WS) (ret : Option Nat) (st : List Stmt) :
    CStep a s (pushNew s ret st) ((blockCmds .emitted st).count a) :=
  (cstep_push s _ _).cast (qcnt_code a _ _ _)

theorem armChunks_qcnt (ret : Option Nat) : ∀ (arms : List (BoolExpr × List Stmt)) (n : Nat),
    qcnt a (armChunks ret n arms) = (armBodyCmds arms).count a := by
  intro arms
  induction arms with
  | nil => intro n; rfl
  | cons e r ih =>
    intro n
    simp only [armChunks, qcnt_cons, armBodyCmds, List.count_append, ih, branchCmds]
    simp

theorem foldl_armStep_cstep (ret : Option Nat) (arms : List (BoolExpr × List Stmt)) (s : WS)
    (acc : List Nat) : CStep a s (arms.foldl (armStep ret) (s, acc)).1 ((armBodyCmds arms).count a) := by
  rw [foldl_armStep]
  exact ⟨rfl, _, rfl, armChunks_qcnt ret arms _⟩

theorem foldl_armStep_ids (ret : Option Nat) (arms : List (BoolExpr × List Stmt)) (s : WS) :
    (arms.foldl (armStep ret) (s, [])).2.length = arms.length := by
  rw [foldl_armStep]
  simp [armChunks_length]

theorem elseStep_cstep (post : Option Nat) (x : WS) (els : Option (List Stmt)) :
    CStep a x (elseStep post x els).1
      ((match els with | some l => blockCmds .emitted l | none => []).count a) := by
  cases els with
  | none => exact CStep.refl x
  | some l => exact pushNew_cstep x post l

theorem createIf_cstep (tok : Tok) (cond : BoolExpr) (body : List Stmt) (elifs : List (BoolExpr × List Stmt))
    (els : Option (List Stmt)) (c : Chunk) (i : Nat) (s s' : WS) (br : Branch) (ret : Option Nat) (l : Bool)
    (h : createIf cond body elifs els c i s = .ok (s', br, ret)) :
    CStep a s s' ((stmtCmds .emitted l (.ite tok cond body elifs els)).count a +
      (blockCmds .emitted (c.statements.drop (i + 1))).count a) ∧ branchCmds br = [] := by
  rw [createIf_eq] at h
  unfold ifTail at h
  split at h
  · simp at h
  · next s1 ac h1 =>
    split at h
    · simp at h
    · next s2 en h2 =>
      simp only [Except.ok.injEq, Prod.mk.injEq] at h
      refine ⟨?_, by rw [← h.2.1]; rfl⟩
      rw [← h.1]
      refine (((((splitChunk_cstep c i s).trans (pushNew_cstep _ _ body)).trans
        (foldl_armStep_cstep _ elifs _ [])).trans (elseStep_cstep _ _ els)).trans
        ((splitElifs_cstep _ _ _ _ _ _ (foldl_armStep_ids _ _ _) h1).trans
          (splitBool_cstep cond _ _ _ _ _ h2))).cast ?_
      rw [stmtCmds_ite]
      simp only [List.count_append, elifsCmds_split, Pick.pre]
      omega

theorem qcnt_two (id1 id2 : Nat) (r1 r2 : Option Nat) (st : List Stmt) (d : Nat) :
    qcnt a [{ id := id1, returnID := r1, statements := st }, { id := id2, returnID := r2, branch := .jump d }] =
      (blockCmds .emitted st).count a := by
  simp [qcnt, branchCmds, blockCmds_nil]

theorem createWhile_cstep (tok : Tok) (sid : Nat) (cond : Option BoolExpr) (body : List Stmt) (c : Chunk)
    (i : Nat) (s s' : WS) (br : Branch) (ret : Option Nat) (cid : Nat) (l : Bool)
    (h : createWhile cond body c i s = .ok (s', br, ret, cid)) :
    CStep a s s' ((stmtCmds .emitted l (.while_ tok sid cond body)).count a +
      (blockCmds .emitted (c.statements.drop (i + 1))).count a) ∧ branchCmds br = [] := by
  unfold createWhile at h
  simp only [alloc] at h
  have h0 := splitChunk_cstep (a := a) c i s
  generalize splitChunkForBranch c i s = sp at h h0
  obtain ⟨s0, ret0⟩ := sp
  simp only at h h0
  cases cond with
  | none =>
    simp only [Except.ok.injEq, Prod.mk.injEq] at h
    refine ⟨?_, by rw [← h.2.1]; rfl⟩
    rw [← h.1]
    refine (h0.trans ((cstep_counter s0 (s0.counter + 1 + 1)).trans (cstep_pushMany _ _))).cast ?_
    rw [qcnt_two, stmtCmds_while]
    simp only [List.count_append, List.count_nil]; omega
  | some e =>
    simp only at h
    split at h
    · simp at h
    · next s1 en h1 =>
      simp only [Except.ok.injEq, Prod.mk.injEq] at h
      refine ⟨?_, by rw [← h.2.1]; rfl⟩
      rw [← h.1]
      refine ((h0.trans ((cstep_counter _ _).trans (splitBool_cstep e _ _ _ _ _ h1))).trans
        (cstep_pushMany _ _)).cast ?_
      rw [qcnt_two, stmtCmds_while]
      simp only [List.count_append, Pick.pre]; omega

theorem createDoWhile_cstep (tok : Tok) (sid : Nat) (cond : BoolExpr) (body : List Stmt) (c : Chunk)
    (i : Nat) (s s' : WS) (br : Branch) (ret : Option Nat) (cid : Nat) (l : Bool)
    (h : createDoWhile cond body c i s = .ok (s', br, ret, cid)) :
    CStep a s s' ((stmtCmds .emitted l (.doWhile tok sid cond body)).count a +
      (blockCmds .emitted (c.statements.drop (i + 1))).count a) ∧ branchCmds br = [] := by
  unfold createDoWhile at h
  simp only [alloc] at h
  have h0 := splitChunk_cstep (a := a) c i s
  generalize splitChunkForBranch c i s = sp at h h0
  obtain ⟨s0, ret0⟩ := sp
  simp only at h h0
  split at h
  · simp at h
  · next s1 en h1 =>
    simp only [Except.ok.injEq, Prod.mk.injEq] at h
    refine ⟨?_, by rw [← h.2.1]; rfl⟩
    rw [← h.1]
    refine ((h0.trans ((cstep_counter _ _).trans (splitBool_cstep cond _ _ _ _ _ h1))).trans
      (cstep_pushMany _ _)).cast ?_
    rw [qcnt_two, stmtCmds_doWhile]
    simp only [List.count_append, Pick.pre]; omega

theorem switchBodies_cstep (ret : Option Nat) : ∀ (cases : List SwitchCase) (s : WS),
    CStep a s (switchBodies ret cases s).1 ((casesCmds .emitted cases).count a) := by
  intro cases
  induction cases with
  | nil => intro s; rw [casesCmds_nil]; exact CStep.refl s
  | cons c r ih =>
    intro s
    obtain ⟨v, d, body⟩ := c
    by_cases hb : body.length > 0
    · rw [switchBodies_cons_pos ret v d body r s hb]
      refine ((pushNew_cstep s ret body).trans (ih _)).cast ?_
      rw [casesCmds_cons, List.count_append]
    · rw [switchBodies_cons_neg ret v d body r s hb]
      have he : body = [] := by
        cases body with
        | nil => rfl
        | cons x y => simp at hb
      subst he
      refine (ih s).cast ?_
      rw [casesCmds_cons, blockCmds_nil]; simp

theorem qcnt_empty (id : Nat) (ret : Option Nat) : qcnt a [{ id := id, returnID := ret }] = 0 := by
  simp [qcnt, branchCmds, blockCmds_nil]

theorem emptyStep_cstep (post : Option Nat) (need : Bool) (s : WS) :
    CStep a s (emptyStep post need s).1 0 := by
  unfold emptyStep
  cases need with
  | false => exact CStep.refl s
  | true => exact (cstep_push s _ _).cast (qcnt_empty _ _)

theorem createSwitch_cstep (tok : Tok) (sid : Nat) (operand : Tok) (cases : List SwitchCase) (c : Chunk)
    (i : Nat) (s : WS) (l : Bool) :
    CStep a s (createSwitch operand cases c i s).1
      ((stmtCmds .emitted l (.switch_ tok sid operand cases)).count a +
        (blockCmds .emitted (c.statements.drop (i + 1))).count a) ∧
    branchCmds (createSwitch operand cases c i s).2.1 = [] := by
  rw [createSwitch_eq]
  have h0 := splitChunk_cstep (a := a) c i s
  generalize splitChunkForBranch c i s = sp at h0 ⊢
  obtain ⟨s0, ret0⟩ := sp
  simp only at h0 ⊢
  have h2 := switchBodies_cstep (a := a) ret0 cases (pushEmpty s0 ret0)
  generalize switchBodies ret0 cases (pushEmpty s0 ret0) = sb at h2 ⊢
  rw [stmtCmds_switch]
  unfold switchTail
  split
  · refine ⟨?_, rfl⟩
    have h1 : CStep a s0 (pushEmpty s0 ret0) 0 := (cstep_push s0 _ _).cast (qcnt_empty _ _)
    exact ((h0.trans h1).trans h2).cast (by omega)
  · refine ⟨?_, rfl⟩
    simp only
    have h3 := emptyStep_cstep (a := a) ret0 (switchNeedsEmpty cases (propagateBack sb.2)) sb.1
    generalize emptyStep ret0 (switchNeedsEmpty cases (propagateBack sb.2)) sb.1 = es at h3 ⊢
    obtain ⟨f2, nb, q2, c2⟩ := h2
    obtain ⟨f3, ne, q3, c3⟩ := h3
    have hq : es.1.queue = s0.queue ++ { id := s0.counter + 1, returnID := ret0 } :: (nb ++ ne) := by
      rw [q3, q2]; simp [pushEmpty]
    refine (h0.trans (m := (casesCmds .emitted cases).count a)
      ⟨by simp only; rw [f3, f2]; rfl,
       { id := s0.counter + 1, returnID := ret0,
         branch := switchBranchOf operand cases (propagateBack sb.2) es.2 ret0 } :: (nb ++ ne), ?_, ?_⟩).cast
      (by omega)
    · simp only
      rw [hq, modify_append_cons]
    · rw [qcnt_cons, qcnt_append, c2, c3]
      simp [branchCmds, switchBranchOf, blockCmds_nil]

/-! ## 4. one worklist step, the whole run -/

theorem setFinal_queue' (s : WS) (c : Chunk) : (s.setFinal c).queue = s.queue := rfl

theorem CStep.total {s s' : WS} {n : Nat} (h : CStep a s s' n) {c : Chunk} (hid : c.id ∉ s.final.map (·.id)) :
    fcnt a (s'.setFinal c).final + qcnt a (s'.setFinal c).queue =
      (chunkCmds c).count a + fcnt a s.final + qcnt a s.queue + n := by
  obtain ⟨hf, nw, hq, hn⟩ := h
  have : (s'.setFinal c).final = c :: s.final := by
    simp only [WS.setFinal, hf]; rw [filter_ne_of_not_mem _ _ hid]
  rw [this, setFinal_queue', hq, qcnt_append, fcnt_cons, hn]
  omega

theorem chunkCmds_count (id : Nat) (ret : Option Nat) (e : Bool) (st : List Stmt) (br : Branch)
    (hb : branchCmds br = []) :
    (chunkCmds { id := id, returnID := ret, useEndTerminator := e, statements := st, branch := br }).count a =
      (flatCmds st).count a := by
  simp [chunkCmds, hb]

/-- **one worklist step keeps the number of occurrences of every command** -/
theorem processChunk_count (p : Chunk) (st0 st1 : WS) (hq : QOK p) (hid : p.id ∉ st0.final.map (·.id))
    (h : processChunk p st0 = .ok st1) :
    fcnt a st1.final + qcnt a st1.queue = fcnt a st0.final + qcnt a st0.queue + qcnt a [p] := by
  unfold processChunk at h
  generalize hscan : scanSimple p.statements 0 p.statements.length = scn at h
  obtain ⟨i, fin⟩ := scn
  obtain ⟨pre, rest, hst, hi, hcmds, hcase⟩ := scan_cmds p.statements 0 _ (by simp) i fin hscan
  simp only [Nat.zero_add] at hi
  subst hi
  simp only at h
  have htake : p.statements.take pre.length = pre := by rw [hst]; simp
  rw [qcnt_cons, qcnt_nil, hcmds, List.count_append]
  rcases hcase with ⟨rfl, hrest⟩ | ⟨c, b, rfl, rfl, hterm⟩
  · simp only at h
    rcases hrest with rfl | ⟨x, r, rfl, hx⟩
    · -- only commands and labels
      have hlen : pre.length = p.statements.length := by rw [hst]; simp
      rw [if_pos (by simp [hlen])] at h
      injection h with h; subst h
      have := (CStep.refl (a := a) st0).total (c := p) hid
      rw [this, blockCmds_nil]
      simp only [chunkCmds, List.count_append, hst, List.append_nil, List.count_nil]
      omega
    · have hne : ¬ ((pre.length == p.statements.length) = true) := by rw [hst]; simp
      have hget : p.statements[pre.length]? = some x := by rw [hst]; simp
      have hdrop : p.statements.drop (pre.length + 1) = r := by rw [hst]; simp
      have hbr : p.branch = .none := branch_none_of_stmts hq (by rw [hst]; simp)
      rw [if_neg hne] at h
      simp only [hget] at h
      rw [hbr, blockCmds_cons]
      simp only [branchCmds, List.count_nil, List.count_append]
      cases x with
      | cmd c => exact absurd trivial hx
      | label t n g => exact absurd trivial hx
      | ite tok cond body elifs els =>
        simp only at h
        split at h
        · cases h
        · rename_i s1 br ret hc
          injection h with h; subst h
          obtain ⟨hs, hb⟩ := createIf_cstep (a := a) tok cond body elifs els p pre.length st0 s1 br ret
            r.isEmpty hc
          rw [hs.total (c := { id := p.id, returnID := ret, statements := List.take pre.length p.statements, branch := br }) hid,
            htake, hdrop, chunkCmds_count _ _ _ _ _ hb]
          omega
      | while_ tok sid cond body =>
        simp only at h
        split at h
        · cases h
        · rename_i s1 br ret contId hc
          injection h with h; subst h
          obtain ⟨hs, hb⟩ := createWhile_cstep (a := a) tok sid cond body p pre.length st0 s1 br ret contId
            r.isEmpty hc
          have := hs.total (c := { id := p.id, returnID := ret, statements := List.take pre.length p.statements, branch := br }) hid
          simp only [WS.setFinal] at this ⊢
          rw [this, htake, hdrop, chunkCmds_count _ _ _ _ _ hb]
          omega
      | doWhile tok sid cond body =>
        simp only at h
        split at h
        · cases h
        · rename_i s1 br ret contId hc
          injection h with h; subst h
          obtain ⟨hs, hb⟩ := createDoWhile_cstep (a := a) tok sid cond body p pre.length st0 s1 br ret contId
            r.isEmpty hc
          have := hs.total (c := { id := p.id, returnID := ret, statements := List.take pre.length p.statements, branch := br }) hid
          simp only [WS.setFinal] at this ⊢
          rw [this, htake, hdrop, chunkCmds_count _ _ _ _ _ hb]
          omega
      | brk tok sid =>
        simp only at h
        split at h
        · cases h
        · rename_i dest hl
          injection h with h; subst h
          rw [(keep_cstep (a := a) p pre.length st0).total (c := { id := p.id, returnID := p.returnID, statements := List.take pre.length p.statements, branch := .breakCtx dest }) hid,
            htake, hdrop, chunkCmds_count _ _ _ _ _ rfl, stmtCmds_brk]
          simp only [List.count_nil]; omega
      | cont tok sid =>
        simp only at h
        split at h
        · cases h
        · rename_i dest hl
          injection h with h; subst h
          rw [(keep_cstep (a := a) p pre.length st0).total (c := { id := p.id, returnID := p.returnID, statements := List.take pre.length p.statements, branch := .breakCtx (some dest) }) hid,
            htake, hdrop, chunkCmds_count _ _ _ _ _ rfl, stmtCmds_cont]
          simp only [List.count_nil]; omega
      | switch_ tok sid operand cases =>
        simp only at h
        obtain ⟨hs, hb⟩ := createSwitch_cstep (a := a) tok sid operand cases p pre.length st0 r.isEmpty
        generalize createSwitch operand cases p pre.length st0 = cs at h hs hb
        obtain ⟨s1, br, ret, swId⟩ := cs
        simp only at h hs hb
        injection h with h; subst h
        have := hs.total (c := { id := p.id, returnID := ret, statements := List.take pre.length p.statements, branch := br }) hid
        simp only [WS.setFinal] at this ⊢
        rw [this, htake, hdrop, chunkCmds_count _ _ _ _ _ hb]
        omega
  · -- a block-final `end` / `return`: it becomes the terminator
    simp only at h
    injection h with h; subst h
    have hbr : p.branch = .none := branch_none_of_stmts hq (by rw [hst]; simp)
    rw [(CStep.refl (a := a) st0).total (c := { id := p.id, returnID := none, useEndTerminator := b, statements := List.take pre.length p.statements }) hid,
      htake, chunkCmds_count _ _ _ _ _ rfl, hbr, blockCmds_cons, stmtCmds_cmd, blockCmds_nil]
    simp only [Pick.take, hterm, branchCmds, List.isEmpty_nil, Bool.and_self, if_true, List.count_nil,
      List.append_nil]
    omega

/-- ids of the table and the queue are distinct and bounded by the counter; queued chunks are `QOK` -/
structure IdInv (st : WS) : Prop where
  nodup : (ids st).Nodup
  le : ∀ i ∈ ids st, i ≤ st.counter
  qok : ∀ p ∈ st.queue, QOK p

theorem IdInv.not_mem {st : WS} {p : Chunk} {q : List Chunk} (hinv : IdInv st) (hq : st.queue = p :: q) :
    p.id ∉ st.final.map (·.id) := by
  intro hk
  have := hinv.nodup
  simp only [ids, hq, List.map_cons] at this
  rw [List.nodup_append] at this
  exact this.2.2 _ hk _ (by simp) rfl

theorem IdInv.step {st st1 : WS} {p : Chunk} {q nw : List Chunk} {ch : Chunk}
    {sc : List (Nat × Option Nat × Nat)} (hinv : IdInv st) (hq : st.queue = p :: q)
    (so : StepOut p { st with queue := q } st1 nw ch sc) : IdInv st1 := by
  have hnm := hinv.not_mem hq
  obtain ⟨hnd, hle, hqok⟩ := hinv
  have hfin : st1.final = ch :: st.final := by
    rw [so.final_eq]; simp only; rw [filter_ne_of_not_mem _ _ hnm]
  have hids1 : ids st1 = p.id :: (st.final.map (·.id) ++ (q.map (·.id) ++ nw.map (·.id))) := by
    simp [ids, hfin, so.queue_eq, so.ch_id]
  have hids : ids st = st.final.map (·.id) ++ p.id :: q.map (·.id) := by simp [ids, hq]
  have hnew : ∀ i ∈ nw.map (·.id), st.counter < i ∧ i ≤ st1.counter := by
    intro i hi; simp only [List.mem_map] at hi; obtain ⟨x, hx, rfl⟩ := hi; exact so.nw_ids x hx
  refine ⟨?_, ?_, ?_⟩
  · rw [hids1]
    have hperm : (p.id :: (st.final.map (·.id) ++ (q.map (·.id) ++ nw.map (·.id)))).Perm
        ((st.final.map (·.id) ++ p.id :: q.map (·.id)) ++ nw.map (·.id)) := by
      rw [← List.append_assoc, ← List.cons_append]
      exact List.Perm.append_right _ (List.perm_middle.symm)
    rw [hperm.nodup_iff, List.nodup_append]
    refine ⟨hids ▸ hnd, so.nw_nodup, ?_⟩
    intro a ha b hb hab
    have h1 := hle a (hids ▸ ha); have h2 := hnew b hb; omega
  · intro i hi
    rw [hids1] at hi
    have hc := so.counter_le
    simp only [List.mem_cons, List.mem_append] at hi
    rcases hi with rfl | hi | hi | hi
    · have := hle p.id (by rw [hids]; simp); simp at hc; omega
    · have := hle i (by rw [hids]; simp [hi]); simp at hc; omega
    · have := hle i (by rw [hids]; simp [hi]); simp at hc; omega
    · exact (hnew i hi).2
  · intro x hx
    rw [so.queue_eq] at hx
    simp only [List.mem_append] at hx
    rcases hx with hx | hx
    · exact hqok x (by rw [hq]; simp [hx])
    · exact so.nw_qok x hx

theorem runWorklist_count : ∀ (f : Nat) (st st' : WS), runWorklist f st = .ok st' → IdInv st →
    fcnt a st'.final = fcnt a st.final + qcnt a st.queue := by
  intro f
  induction f with
  | zero => intro st st' h; simp [runWorklist] at h
  | succ f ih =>
    intro st st' h hinv
    rw [runWorklist_succ] at h
    cases hq : st.queue with
    | nil =>
      simp only [hq] at h
      injection h with h; subst h
      simp [qcnt_nil]
    | cons p q =>
      simp only [hq] at h
      cases hp : processChunk p { st with queue := q } with
      | error e => simp [hp] at h
      | ok st1 =>
        simp only [hp] at h
        have hqok : QOK p := hinv.qok p (by simp [hq])
        obtain ⟨nw, ch, sc, so⟩ := process_spec p _ st1 hqok hp
        have h1 := ih st1 st' h (hinv.step hq so)
        have h2 := processChunk_count (a := a) p { st with queue := q } st1 hqok (hinv.not_mem hq) hp
        simp only at h2
        rw [h1, qcnt_cons a p q]
        rw [qcnt_cons, qcnt_nil] at h2
        omega

end count

/-- **The census of the chunk table**: every command occurs in the table of `scriptChunks body` as often as
in `emittedCmds body`. -/
theorem scriptChunks_count (body : List Stmt) (chunks : List Chunk) (h : scriptChunks body = .ok chunks)
    (a : Cmd) : (tableCmds chunks).count a = (emittedCmds body).count a := by
  unfold scriptChunks at h
  split at h
  · cases h
  · rename_i st hrun
    injection h with h; subst h
    have hinv : IdInv { queue := [{ id := 0, statements := body }] } := by
      refine ⟨by simp [ids], by simp [ids], ?_⟩
      intro p hp
      simp only [List.mem_singleton] at hp
      subst hp
      exact IsCode.qok ⟨rfl, rfl⟩
    have := runWorklist_count (a := a) _ _ st hrun hinv
    rw [← fcnt_eq, this]
    simp [fcnt, qcnt, branchCmds, emittedCmds]

theorem scriptChunks_perm (body : List Stmt) (chunks : List Chunk) (h : scriptChunks body = .ok chunks) :
    (tableCmds chunks).Perm (emittedCmds body) :=
  List.perm_iff_count.2 (scriptChunks_count body chunks h)

end Pory.C10d
