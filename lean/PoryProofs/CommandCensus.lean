import PoryProofs.CensusWeights
/-
Command census, part 1 (helper module of PoryProofs/Properties/C10d.lean).

* the commands written in a script body: `blockCmds pick body` (`pick = .all`: every command statement at
  any depth, in source order, incl. the AutoVar preamble commands of condition leaves; `.emitted`: the
  same without the *block-final* `end` / `return` commands, which the emitter turns into the chunk's
  terminator; `.absorbed`: exactly those);
* the commands held by a chunk table (`tableCmds`);
* the worklist accounting: for every command `a`, the number of occurrences of `a` in the final table of
  `scriptChunks body` is its number of occurrences in `blockCmds .emitted body` (`scriptChunks_count`).

Proof: `Weights.scriptChunks_total` (CensusWeights.lean) for the weights `cmdWeights a` = occurrences of `a`.
-/
namespace Pory.C10d
open Pory Pory.Emit

/-! ## 1. the commands of a body -/

/-- `end` / `return`: as the last statement of a block they become the terminator of the chunk. -/
def isTerm (c : Cmd) : Bool := c.name == "end" || c.name == "return"

/-- Which commands to list. -/
inductive Pick
  | all        -- every command
  | emitted    -- every command but the block-final `end` / `return`
  | absorbed   -- the block-final `end` / `return` commands
  deriving DecidableEq, Repr

/-- the contribution of a command statement; `final`: it is an `end` / `return` closing its block -/
def Pick.take : Pick → Bool → Cmd → List Cmd
  | .all, _, c => [c]
  | .emitted, final, c => if final then [] else [c]
  | .absorbed, final, c => if final then [c] else []

/-- the contribution of condition preambles -/
def Pick.pre : Pick → List Cmd → List Cmd
  | .absorbed, _ => []
  | _, l => l

/-- AutoVar preamble commands of the leaves of a condition, left to right. -/
def condCmds : BoolExpr → List Cmd
  | .leaf e => e.preamble.toList
  | .bin l _ r => condCmds l ++ condCmds r

mutual
/-- `last`: the statement is the last one of its block. -/
def stmtCmds (p : Pick) (last : Bool) : Stmt → List Cmd
  | .cmd c => p.take (last && isTerm c) c
  | .label .. => []
  | .ite _ c b es e =>
    p.pre (condCmds c) ++ blockCmds p b ++ elifsCmds p es ++
      (match e with | some l => blockCmds p l | none => [])
  | .while_ _ _ c b => (match c with | some e => p.pre (condCmds e) | none => []) ++ blockCmds p b
  | .doWhile _ _ c b => blockCmds p b ++ p.pre (condCmds c)
  | .brk .. => []
  | .cont .. => []
  | .switch_ _ _ _ cs => casesCmds p cs
/-- the commands of a block (script body, body of `if` / `elif` / `else` / loop / case), in source order -/
def blockCmds (p : Pick) : List Stmt → List Cmd
  | [] => []
  | s :: r => stmtCmds p r.isEmpty s ++ blockCmds p r
def elifsCmds (p : Pick) : List (BoolExpr × List Stmt) → List Cmd
  | [] => []
  | (c, b) :: r => p.pre (condCmds c) ++ blockCmds p b ++ elifsCmds p r
def casesCmds (p : Pick) : List SwitchCase → List Cmd
  | [] => []
  | (_, _, b) :: r => blockCmds p b ++ casesCmds p r
end

/-- **All command statements of a body**, at any depth, in source order, including the AutoVar preamble
commands of condition leaves (at the place of the condition, leaves left to right). -/
def cmdsOf (body : List Stmt) : List Cmd := blockCmds .all body
/-- The commands the emitter renders as command lines. -/
def emittedCmds (body : List Stmt) : List Cmd := blockCmds .emitted body
/-- The `end` / `return` commands that close a block: rendered as the terminator of their chunk. -/
def absorbedCmds (body : List Stmt) : List Cmd := blockCmds .absorbed body

/-! unfolding lemmas -/
section
variable (p : Pick)
theorem stmtCmds_cmd (b : Bool) (c : Cmd) : stmtCmds p b (.cmd c) = p.take (b && isTerm c) c := by
  rw [stmtCmds]
theorem stmtCmds_label (b : Bool) (t : Tok) (n : String) (g : Bool) : stmtCmds p b (.label t n g) = [] := by
  rw [stmtCmds]
theorem stmtCmds_ite (l : Bool) (t : Tok) (c : BoolExpr) (b : List Stmt) (es : List (BoolExpr × List Stmt))
    (e : Option (List Stmt)) : stmtCmds p l (.ite t c b es e) =
      p.pre (condCmds c) ++ blockCmds p b ++ elifsCmds p es ++
        (match e with | some l => blockCmds p l | none => []) := by
  cases e <;> rw [stmtCmds]
theorem stmtCmds_while (l : Bool) (t : Tok) (sid : Nat) (c : Option BoolExpr) (b : List Stmt) :
    stmtCmds p l (.while_ t sid c b) =
      (match c with | some e => p.pre (condCmds e) | none => []) ++ blockCmds p b := by
  cases c <;> rw [stmtCmds]
theorem stmtCmds_doWhile (l : Bool) (t : Tok) (sid : Nat) (c : BoolExpr) (b : List Stmt) :
    stmtCmds p l (.doWhile t sid c b) = blockCmds p b ++ p.pre (condCmds c) := by rw [stmtCmds]
theorem stmtCmds_brk (l : Bool) (t : Tok) (sid : Nat) : stmtCmds p l (.brk t sid) = [] := by rw [stmtCmds]
theorem stmtCmds_cont (l : Bool) (t : Tok) (sid : Nat) : stmtCmds p l (.cont t sid) = [] := by rw [stmtCmds]
theorem stmtCmds_switch (l : Bool) (t : Tok) (sid : Nat) (o : Tok) (cs : List SwitchCase) :
    stmtCmds p l (.switch_ t sid o cs) = casesCmds p cs := by rw [stmtCmds]
theorem blockCmds_nil : blockCmds p [] = [] := by rw [blockCmds]
theorem blockCmds_cons (s : Stmt) (r : List Stmt) :
    blockCmds p (s :: r) = stmtCmds p r.isEmpty s ++ blockCmds p r := by rw [blockCmds]
theorem elifsCmds_nil : elifsCmds p [] = [] := by rw [elifsCmds]
theorem elifsCmds_cons (c : BoolExpr) (b : List Stmt) (r : List (BoolExpr × List Stmt)) :
    elifsCmds p ((c, b) :: r) = p.pre (condCmds c) ++ blockCmds p b ++ elifsCmds p r := by rw [elifsCmds]
theorem casesCmds_nil : casesCmds p [] = [] := by rw [casesCmds]
theorem casesCmds_cons (v : Tok) (d : Bool) (b : List Stmt) (r : List SwitchCase) :
    casesCmds p ((v, d, b) :: r) = blockCmds p b ++ casesCmds p r := by rw [casesCmds]
end

/-- Commands of a straight-line statement list (what a finalised chunk holds). -/
def flatCmds : List Stmt → List Cmd
  | [] => []
  | .cmd c :: r => c :: flatCmds r
  | _ :: r => flatCmds r

/-- Preamble command of a branch behaviour. -/
def branchCmds : Branch → List Cmd
  | .leaf _ e _ => e.preamble.toList
  | _ => []

/-- The commands a finalised chunk renders: its statements, then the preamble of its leaf test. -/
def chunkCmds (c : Chunk) : List Cmd := flatCmds c.statements ++ branchCmds c.branch

/-- The commands of a chunk table, in table order. -/
def tableCmds (G : List Chunk) : List Cmd := G.flatMap chunkCmds

/-! ## 2. the scanning loop -/

theorem Pick.take_false (p : Pick) (c : Cmd) : p.take false c = p.pre [c] := by cases p <;> rfl
theorem Pick.pre_cons (p : Pick) (c : Cmd) (l : List Cmd) : p.pre (c :: l) = p.pre [c] ++ p.pre l := by
  cases p <;> rfl
theorem Pick.pre_nil (p : Pick) : p.pre [] = [] := by cases p <;> rfl
theorem Pick.pre_append (p : Pick) (a b : List Cmd) : p.pre (a ++ b) = p.pre a ++ p.pre b := by
  cases p <;> rfl

/-- What the scanning loop of `processChunk` sees: a prefix `pre` of commands and labels — none of them a
block-final `end` / `return` — then nothing, a control statement, or the block-final `end` / `return`. -/
theorem scan_cmds (p : Pick) : ∀ (ss : List Stmt) (i0 len : Nat), len = i0 + ss.length →
    ∀ i fin, scanSimple ss i0 len = (i, fin) →
    ∃ pre rest, ss = pre ++ rest ∧ i = i0 + pre.length ∧
      blockCmds p ss = p.pre (flatCmds pre) ++ blockCmds p rest ∧
      ((fin = none ∧ (rest = [] ∨ ∃ x r, rest = x :: r ∧ ¬ IsSimple x)) ∨
       (∃ c, fin = some (c.name == "end") ∧ rest = [.cmd c] ∧ isTerm c = true)) := by
  intro ss
  induction ss with
  | nil =>
    intro i0 len _ i fin h
    simp only [scanSimple, Prod.mk.injEq] at h
    exact ⟨[], [], rfl, by simp [h.1], by simp [flatCmds, Pick.pre_nil], .inl ⟨h.2.symm, .inl rfl⟩⟩
  | cons s r ih =>
    intro i0 len hlen i fin h
    have stop : ¬ IsSimple s → (i, fin) = (i0, none) →
        ∃ pre rest, s :: r = pre ++ rest ∧ i = i0 + pre.length ∧
          blockCmds p (s :: r) = p.pre (flatCmds pre) ++ blockCmds p rest ∧
          ((fin = none ∧ (rest = [] ∨ ∃ x r, rest = x :: r ∧ ¬ IsSimple x)) ∨
           (∃ c, fin = some (c.name == "end") ∧ rest = [.cmd c] ∧ isTerm c = true)) := by
      intro hs h'
      simp only [Prod.mk.injEq] at h'
      exact ⟨[], s :: r, rfl, by simp [h'.1], by simp [flatCmds, Pick.pre_nil],
        .inl ⟨h'.2, .inr ⟨s, r, rfl, hs⟩⟩⟩
    cases s with
    | cmd c =>
      rw [scanSimple] at h
      split at h
      · rename_i hc
        simp only [Bool.and_eq_true, beq_iff_eq] at hc
        simp only [Prod.mk.injEq] at h
        have hr : r = [] := by
          have : r.length = 0 := by simp at hlen; omega
          exact List.eq_nil_of_length_eq_zero this
        subst hr
        exact ⟨[], [.cmd c], rfl, by simp [h.1], by simp [flatCmds, Pick.pre_nil],
          .inr ⟨c, h.2.symm, rfl, by simpa [isTerm] using hc.2⟩⟩
      · rename_i hc
        obtain ⟨pre, rest, e1, e3, e4, e5⟩ := ih (i0 + 1) len (by simp at hlen; omega) i fin h
        refine ⟨.cmd c :: pre, rest, by simp [e1], by simp [e3]; omega, ?_, e5⟩
        have hflag : (r.isEmpty && isTerm c) = false := by
          cases r with
          | nil =>
            have : i0 + 1 = len := by simp at hlen; omega
            simp only [isTerm, List.isEmpty_nil, Bool.true_and]
            simpa [this] using hc
          | cons x y => rfl
        rw [blockCmds_cons, stmtCmds_cmd, hflag, e4, Pick.take_false]
        simp only [flatCmds]
        rw [Pick.pre_cons p c (flatCmds pre), List.append_assoc]
    | label t n g =>
      rw [scanSimple] at h
      obtain ⟨pre, rest, e1, e3, e4, e5⟩ := ih (i0 + 1) len (by simp at hlen; omega) i fin h
      refine ⟨.label t n g :: pre, rest, by simp [e1], by simp [e3]; omega, ?_, e5⟩
      rw [blockCmds_cons, stmtCmds_label, e4]
      rfl
    | ite => simp only [scanSimple] at h; exact stop (by simp [IsSimple]) h.symm
    | while_ => simp only [scanSimple] at h; exact stop (by simp [IsSimple]) h.symm
    | doWhile => simp only [scanSimple] at h; exact stop (by simp [IsSimple]) h.symm
    | brk => simp only [scanSimple] at h; exact stop (by simp [IsSimple]) h.symm
    | cont => simp only [scanSimple] at h; exact stop (by simp [IsSimple]) h.symm
    | switch_ => simp only [scanSimple] at h; exact stop (by simp [IsSimple]) h.symm

/-- `scan_cmds` for the call `processChunk` makes. -/
theorem scan_cmds0 (p : Pick) (ss : List Stmt) (i : Nat) (fin : Option Bool)
    (h : scanSimple ss 0 ss.length = (i, fin)) :
    blockCmds p ss = p.pre (flatCmds (ss.take i)) ++ blockCmds p (ss.drop i) ∧
      ((fin = none ∧ (ss.drop i = [] ∨ ∃ x r, ss.drop i = x :: r ∧ ¬ IsSimple x)) ∨
       (∃ c, fin = some (c.name == "end") ∧ ss.drop i = [.cmd c] ∧ isTerm c = true)) := by
  obtain ⟨pre, rest, e1, e2, e3, e4⟩ := scan_cmds p ss 0 _ (by simp) i fin h
  simp only [Nat.zero_add] at e2
  subst e2
  have ht : ss.take pre.length = pre := by rw [e1]; simp
  have hd : ss.drop pre.length = rest := by rw [e1]; simp
  rw [ht, hd]
  exact ⟨e3, e4⟩

theorem flatCmds_append (a b : List Stmt) : flatCmds (a ++ b) = flatCmds a ++ flatCmds b := by
  induction a with
  | nil => rfl
  | cons s r ih => cases s <;> simp [flatCmds, ih]

/-! ## 3. the weights "occurrences of the command `a`" -/

/-- Occurrences of `a` among the rendered commands: source side `blockCmds .emitted`, table side
`chunkCmds`. -/
def cmdWeights (a : Cmd) : Weights where
  K c := (condCmds c).count a
  S l s := (stmtCmds .emitted l s).count a
  B ss := (blockCmds .emitted ss).count a
  E es := (elifsCmds .emitted es).count a
  C cs := (casesCmds .emitted cs).count a
  Br br := (branchCmds br).count a
  F c := (chunkCmds c).count a
  B_nil := by simp [blockCmds_nil]
  B_cons := by intro x r _; simp [blockCmds_cons]
  S_ite := by
    intro l t c b es e
    rw [stmtCmds_ite]
    cases e <;> simp only [List.count_append, Pick.pre, List.count_nil] <;> omega
  S_while := by
    intro l t sid c b
    rw [stmtCmds_while]
    cases c <;> simp [List.count_append, Pick.pre]
  S_doWhile := by intro l t sid c b; rw [stmtCmds_doWhile]; simp [List.count_append, Pick.pre]
  S_brk := by intro l t sid; simp [stmtCmds_brk]
  S_cont := by intro l t sid; simp [stmtCmds_cont]
  S_switch := by intro l t sid o cs; rw [stmtCmds_switch]
  E_nil := by simp [elifsCmds_nil]
  E_cons := by intro c b r; simp only [elifsCmds_cons, List.count_append, Pick.pre]
  C_nil := by simp [casesCmds_nil]
  C_cons := by intro v d b r; simp [casesCmds_cons, List.count_append]
  K_bin := by intro l op r; simp [condCmds, List.count_append]
  Br_none := rfl
  Br_jump := fun _ => rfl
  Br_breakCtx := fun _ => rfl
  Br_switch := fun _ _ _ _ => rfl
  Br_leaf := fun _ _ _ => rfl
  F_helper := by intro id ret br; simp [chunkCmds, flatCmds]
  F_none := by
    intro ss i h id ret br hb
    obtain ⟨e, _⟩ := scan_cmds0 .emitted ss i none h
    rw [e]
    simp only [chunkCmds, List.count_append, hb, Pick.pre]
    omega
  F_some := by
    intro ss i e h id
    obtain ⟨e1, e2⟩ := scan_cmds0 .emitted ss i (some e) h
    rcases e2 with ⟨h2, _⟩ | ⟨c, _, hd, ht⟩
    · cases h2
    · rw [e1, hd, blockCmds_cons, stmtCmds_cmd, blockCmds_nil]
      simp [chunkCmds, branchCmds, Pick.pre, Pick.take, ht]

theorem fcnt_cmdWeights (a : Cmd) (G : List Chunk) : fcnt (cmdWeights a) G = (tableCmds G).count a := by
  induction G with
  | nil => rfl
  | cons c r ih =>
    rw [fcnt_cons, ih]
    simp [tableCmds, cmdWeights, List.count_append]

/-- **The census of the chunk table**: every command occurs in the table of `scriptChunks body` as often as
in `emittedCmds body`. -/
theorem scriptChunks_count (body : List Stmt) (chunks : List Chunk) (h : scriptChunks body = .ok chunks)
    (a : Cmd) : (tableCmds chunks).count a = (emittedCmds body).count a := by
  rw [← fcnt_cmdWeights, (cmdWeights a).scriptChunks_total body chunks h]
  rfl

theorem scriptChunks_perm (body : List Stmt) (chunks : List Chunk) (h : scriptChunks body = .ok chunks) :
    (tableCmds chunks).Perm (emittedCmds body) :=
  List.perm_iff_count.2 (scriptChunks_count body chunks h)

/-! ## 4. all commands = emitted commands + block-final `end` / `return` -/

theorem take_split (a : Cmd) (b : Bool) (c : Cmd) :
    (Pick.take .all b c).count a = (Pick.take .emitted b c).count a + (Pick.take .absorbed b c).count a := by
  cases b <;> simp [Pick.take]

theorem pre_split (a : Cmd) (l : List Cmd) :
    (Pick.pre .all l).count a = (Pick.pre .emitted l).count a + (Pick.pre .absorbed l).count a := by
  simp [Pick.pre]

mutual
theorem stmt_split (a : Cmd) : ∀ (l : Bool) (s : Stmt),
    (stmtCmds .all l s).count a = (stmtCmds .emitted l s).count a + (stmtCmds .absorbed l s).count a
  | l, .cmd c => by simp only [stmtCmds_cmd]; exact take_split a _ c
  | l, .label .. => by simp [stmtCmds_label]
  | l, .ite t c b es e => by
    simp only [stmtCmds_ite, List.count_append, pre_split a (condCmds c), block_split a b, elifs_split' a es]
    cases e with
    | none => simp only [List.count_nil]; omega
    | some x => simp only [block_split a x]; omega
  | l, .while_ t sid c b => by
    simp only [stmtCmds_while, List.count_append, block_split a b]
    cases c with
    | none => simp only [List.count_nil]; omega
    | some x => simp only [pre_split a (condCmds x)]; omega
  | l, .doWhile t sid c b => by
    simp only [stmtCmds_doWhile, List.count_append, block_split a b, pre_split a (condCmds c)]; omega
  | l, .brk .. => by simp [stmtCmds_brk]
  | l, .cont .. => by simp [stmtCmds_cont]
  | l, .switch_ t sid o cs => by simp only [stmtCmds_switch, cases_split a cs]
theorem block_split (a : Cmd) : ∀ (ss : List Stmt),
    (blockCmds .all ss).count a = (blockCmds .emitted ss).count a + (blockCmds .absorbed ss).count a
  | [] => by simp [blockCmds_nil]
  | s :: r => by
    simp only [blockCmds_cons, List.count_append, stmt_split a _ s, block_split a r]; omega
theorem elifs_split' (a : Cmd) : ∀ (es : List (BoolExpr × List Stmt)),
    (elifsCmds .all es).count a = (elifsCmds .emitted es).count a + (elifsCmds .absorbed es).count a
  | [] => by simp [elifsCmds_nil]
  | (c, b) :: r => by
    simp only [elifsCmds_cons, List.count_append, pre_split a (condCmds c), block_split a b, elifs_split' a r]
    omega
theorem cases_split (a : Cmd) : ∀ (cs : List SwitchCase),
    (casesCmds .all cs).count a = (casesCmds .emitted cs).count a + (casesCmds .absorbed cs).count a
  | [] => by simp [casesCmds_nil]
  | (v, d, b) :: r => by
    simp only [casesCmds_cons, List.count_append, block_split a b, cases_split a r]; omega
end

/-- Every command of the body is either emitted as a command line or a block-final `end` / `return`. -/
theorem cmdsOf_perm (body : List Stmt) : (cmdsOf body).Perm (emittedCmds body ++ absorbedCmds body) := by
  rw [List.perm_iff_count]
  intro a
  rw [List.count_append]
  exact block_split a body

theorem take_sub (b : Bool) (c : Cmd) : (Pick.take .emitted b c).Sublist (Pick.take .all b c) := by
  cases b <;> simp [Pick.take]

mutual
theorem stmt_sub : ∀ (l : Bool) (s : Stmt), (stmtCmds .emitted l s).Sublist (stmtCmds .all l s)
  | l, .cmd c => by simp only [stmtCmds_cmd]; exact take_sub _ c
  | l, .label .. => by simp [stmtCmds_label]
  | l, .ite t c b es e => by
    simp only [stmtCmds_ite]
    refine (((List.Sublist.refl _).append (block_sub b)).append (elifs_sub es)).append ?_
    cases e with
    | none => exact List.Sublist.refl _
    | some x => exact block_sub x
  | l, .while_ t sid c b => by
    simp only [stmtCmds_while]
    exact (by cases c <;> exact List.Sublist.refl _ : List.Sublist _ _).append (block_sub b)
  | l, .doWhile t sid c b => by
    simp only [stmtCmds_doWhile]
    exact (block_sub b).append (List.Sublist.refl _)
  | l, .brk .. => by simp [stmtCmds_brk]
  | l, .cont .. => by simp [stmtCmds_cont]
  | l, .switch_ t sid o cs => by simp only [stmtCmds_switch]; exact cases_sub cs
theorem block_sub : ∀ (ss : List Stmt), (blockCmds .emitted ss).Sublist (blockCmds .all ss)
  | [] => by simp [blockCmds_nil]
  | s :: r => by simp only [blockCmds_cons]; exact (stmt_sub _ s).append (block_sub r)
theorem elifs_sub : ∀ (es : List (BoolExpr × List Stmt)), (elifsCmds .emitted es).Sublist (elifsCmds .all es)
  | [] => by simp [elifsCmds_nil]
  | (c, b) :: r => by
    simp only [elifsCmds_cons]
    exact ((List.Sublist.refl _).append (block_sub b)).append (elifs_sub r)
theorem cases_sub : ∀ (cs : List SwitchCase), (casesCmds .emitted cs).Sublist (casesCmds .all cs)
  | [] => by simp [casesCmds_nil]
  | (v, d, b) :: r => by simp only [casesCmds_cons]; exact (block_sub b).append (cases_sub r)
end

/-- The emitted commands are the commands of the body in source order, with some left out … -/
theorem emittedCmds_sublist (body : List Stmt) : (emittedCmds body).Sublist (cmdsOf body) := block_sub body

theorem take_term (b : Bool) (c x : Cmd) (h : x ∈ Pick.take .absorbed (b && isTerm c) c) : isTerm x = true := by
  simp only [Pick.take] at h
  by_cases hb : (b && isTerm c) = true
  · rw [if_pos hb] at h
    simp only [List.mem_singleton] at h
    subst h
    simp only [Bool.and_eq_true] at hb
    exact hb.2
  · rw [if_neg hb] at h
    cases h

mutual
theorem stmt_term : ∀ (l : Bool) (s : Stmt), ∀ x ∈ stmtCmds .absorbed l s, isTerm x = true
  | l, .cmd c => by simp only [stmtCmds_cmd]; intro x hx; exact take_term _ c x hx
  | l, .label .. => by simp [stmtCmds_label]
  | l, .ite t c b es e => by
    intro x hx
    simp only [stmtCmds_ite, Pick.pre, List.nil_append, List.mem_append] at hx
    rcases hx with (hx | hx) | hx
    · exact block_term b x hx
    · exact elifs_term es x hx
    · cases e with
      | none => cases hx
      | some y => exact block_term y x hx
  | l, .while_ t sid c b => by
    intro x hx
    simp only [stmtCmds_while, List.mem_append] at hx
    rcases hx with hx | hx
    · cases c with
      | none => cases hx
      | some y => cases hx
    · exact block_term b x hx
  | l, .doWhile t sid c b => by
    intro x hx
    simp only [stmtCmds_doWhile, Pick.pre, List.append_nil] at hx
    exact block_term b x hx
  | l, .brk .. => by simp [stmtCmds_brk]
  | l, .cont .. => by simp [stmtCmds_cont]
  | l, .switch_ t sid o cs => by simp only [stmtCmds_switch]; exact cases_term cs
theorem block_term : ∀ (ss : List Stmt), ∀ x ∈ blockCmds .absorbed ss, isTerm x = true
  | [] => by simp [blockCmds_nil]
  | s :: r => by
    intro x hx
    simp only [blockCmds_cons, List.mem_append] at hx
    rcases hx with hx | hx
    · exact stmt_term _ s x hx
    · exact block_term r x hx
theorem elifs_term : ∀ (es : List (BoolExpr × List Stmt)), ∀ x ∈ elifsCmds .absorbed es, isTerm x = true
  | [] => by simp [elifsCmds_nil]
  | (c, b) :: r => by
    intro x hx
    simp only [elifsCmds_cons, Pick.pre, List.nil_append, List.mem_append] at hx
    rcases hx with hx | hx
    · exact block_term b x hx
    · exact elifs_term r x hx
theorem cases_term : ∀ (cs : List SwitchCase), ∀ x ∈ casesCmds .absorbed cs, isTerm x = true
  | [] => by simp [casesCmds_nil]
  | (v, d, b) :: r => by
    intro x hx
    simp only [casesCmds_cons, List.mem_append] at hx
    rcases hx with hx | hx
    · exact block_term b x hx
    · exact cases_term r x hx
end

/-- … and only `end` / `return` commands are left out. -/
theorem absorbedCmds_isTerm (body : List Stmt) : ∀ x ∈ absorbedCmds body, isTerm x = true := block_term body

/-- When no block ends in `end` / `return`, every command is emitted. -/
theorem emittedCmds_eq_cmdsOf (body : List Stmt) (h : absorbedCmds body = []) : emittedCmds body = cmdsOf body := by
  apply (emittedCmds_sublist body).eq_of_length
  have := (cmdsOf_perm body).length_eq
  rw [h, List.append_nil] at this
  exact this.symm

end Pory.C10d
