import PoryProofs.AsmSem
import PoryProofs.EmitLemmas
import PoryProofs.Properties.C05
import PoryProofs.Properties.C02
/-
The last link of the compiler-correctness chain: the chunk-graph machine `Sem.gstep` is simulated
by the assembly machine `Asm.astep` (`PoryProofs/AsmSem.lean`) running the structured lines that
`renderChunks` produces for ONE script — for either chunk order and with or without line markers.
Nothing is `sorry`; nothing is partial (all five branch kinds: `none`, `jump`, `breakCtx`, `leaf`,
`switch_`).

Main results
* `render_sim` (§9): for a chunk table `G` with pairwise distinct ids containing 0, `Closed G`,
  `PreambleOK G`, and `renderChunks o patches G name isGlobal tl = .ok ls`:
  there is the chunk order `order` (`C05.chunkOrder o G = .ok order`) such that
  - every graph configuration `(k, off, h)` has a program counter related to it by `RA`
    (`ra_exists`, lemma (a));
  - under `SwitchNotLast G order` and `Compat o patches name G w aw`:
    the first line leads to the configuration of `(0, 0, [])` (`entry_sim`);
    one `gstep` is matched by ≥ 1 `astep`s reaching a related configuration, or both finish with
    corresponding outcome (`ORel`) and equal history — the only 0-step case being a fall-through
    into the chunk laid out next, with unchanged assembly configuration (`sim_step`);
    a finished graph run is matched by a finished assembly run (`run_sim`), which therefore never
    ends in `runOff` / `stuck` (`no_runoff`).
* `compat_induced` (§8): `Compat` holds for the world induced by an assembly world through the
  documented meaning of leaves, for well-formed leaves (`C02.leaf_rendering_sound`).
* Key lemmas: `renderChunks_ok` (decomposition of the output as `layout`), `renderBranching_eq`
  (all branch kinds leave through one `exitTo` shape), `findLabel_layout` / `land_jump` (lemma (c):
  a registered target's label line exists, is the first line with that name, and lookup arrives at
  the chunk), `exit_sim` (lemma (b): fall-through arrives at the next chunk), `test_block`
  (a rendered leaf block executes as `Spec.execTest`), `case_block` (first matching case jumps),
  `labelsInjective` (`name`, `name_1`, `name_2`, … are pairwise distinct — proved, not assumed).

Hypotheses, and where they come from
* `Closed G`: every id `gstep` can go to from a chunk is the id of a chunk of `G` **and is not 0**.
  (A jump to chunk 0 would be rendered `goto name_0`, but chunk 0's label is the bare `name`;
  the emitter only ever targets freshly allocated ids ≥ 1.)
* `PreambleOK G`: the AutoVar command of a leaf is not named `end` / `return` / `goto`
  (`gstep` appends it unconditionally; the assembly machine would finish on such a line).
* `SwitchNotLast G order` — see the finding below.
* `Compat`: ties the two worlds.
* NOT needed as hypotheses (derived from the successful rendering): chunks contain only
  `cmd` / `label` statements; user labels differ from generated labels (`Hygienic`):
  `renderStatements` checks both (`renderStatements_ok`).  `LabelsInjective` is proved.
* Outcomes: a finishing user `goto` has the *patched* arguments in the assembly
  (`ORel … (.jump c.args) (.jump (patchedArgs patches c))`).

Finding (`no_runoff`, §10 `badG`): `renderBranching`'s `switch_` case with `dflt = none`,
`dest = none`, `next = none` returns fall-through with nothing after it (Go: `else if
s.destChunkID != nextChunkID` compares -1 with -1 and skips the `return`; `breakContext` and the
leaf branch test `== -1` first).  `Closed` does not exclude it (`badG` is closed, renders, and its
assembly runs off the end while the graph returns).  It cannot happen for tables the emitter
builds: a `switch_` chunk always has a body chunk with a larger id, which both orders place after
it (sorted order: larger id; optimised order: the body is nobody's tail, and the scan picks the
smallest unvisited id).  This is the hypothesis `SwitchNotLast`; it is *proved* for both orders
from two facts about the table — "some chunk has a larger id" (`switchNotLast_sorted`, §9b) and
"… and that chunk is nobody's `tailId`" (`switchNotLast_optimized`, `PoryProofs/SwitchNotLast.lean`)
— which the worklist's id allocation guarantees but which are not derived from `scriptChunks`
here.
-/
namespace Pory.RenderSim
open Pory Pory.Emit Pory.Sem Pory.Asm

/-! ### 1. Total versions of the renderers and the decomposition of `renderChunks` -/

section Layout
variable (o : Opts) (patches : List ((Nat × Nat) × String)) (name : String) (G : List Chunk)
  (isGlobal : Bool)

/-- Lines of a straight-line statement list (what `renderStatements` returns when it succeeds). -/
def stmtLines : List Stmt → List Line
  | [] => []
  | .cmd c :: r => marker o c.tok ++ [renderCommand patches c] ++ stmtLines r
  | .label tok n g :: r => marker o tok ++ [.labelDef n g] ++ stmtLines r
  | _ :: r => stmtLines r

def isSimple : Stmt → Bool
  | .cmd _ => true
  | .label .. => true
  | _ => false

theorem renderStatements_ok (cl tl : List String) : ∀ (ss : List Stmt) (ls : List Line),
    renderStatements o patches cl tl ss = .ok ls →
    ls = stmtLines o patches ss ∧ (∀ s ∈ ss, isSimple s = true) ∧
      ∀ n ∈ stmtLabels ss, n.1 ∉ cl := by
  intro ss
  induction ss with
  | nil => intro ls h; simp [renderStatements] at h; subst h; simp [stmtLines, stmtLabels]
  | cons s r ih =>
    intro ls h
    cases s with
    | cmd c =>
      simp only [renderStatements] at h
      split at h
      · simp at h
      · next ls' hr =>
        simp at h; subst h
        obtain ⟨h1, h2, h3⟩ := ih ls' hr
        subst h1
        exact ⟨by simp [stmtLines], by simpa [isSimple] using h2, by simpa [stmtLabels] using h3⟩
    | label tok n g =>
      simp only [renderStatements] at h
      split at h
      · simp at h
      · next hn =>
        split at h
        · simp at h
        · split at h
          · simp at h
          · next ls' hr =>
            simp at h; subst h
            obtain ⟨h1, h2, h3⟩ := ih ls' hr
            subst h1
            refine ⟨by simp [stmtLines], by simpa [isSimple] using h2, ?_⟩
            intro x hx
            simp only [stmtLabels, List.mem_cons] at hx
            rcases hx with rfl | hx
            · simpa using hn
            · exact h3 x hx
    | ite => simp [renderStatements] at h
    | while_ => simp [renderStatements] at h
    | doWhile => simp [renderStatements] at h
    | brk => simp [renderStatements] at h
    | cont => simp [renderStatements] at h
    | switch_ => simp [renderStatements] at h

/-- The chunk with this id (a default chunk if there is none). -/
def chunkOf (id : Nat) : Chunk := (findChunk G id).getD default

/-- Body of a chunk when the chunk laid out after it is `next`. -/
def bodyOf (c : Chunk) (next : Option Nat) : List Line :=
  stmtLines o patches c.statements ++ (renderBranching o patches name c next).1 ++
    (if (renderBranching o patches name c next).2.2 then [] else [.blank])

/-- The label line of a chunk: only for the entry chunk and registered jump targets. -/
def lbl (jumps : List Nat) (id : Nat) : List Line :=
  if id == 0 || jumps.contains id then [Line.labelDef (chunkLabel name id) (id == 0 && isGlobal)] else []

/-- The lines of the chunks with ids `order`, in that order. -/
def layout (jumps : List Nat) : List Nat → List Line
  | [] => []
  | id :: rest =>
    lbl name isGlobal jumps id ++ bodyOf o patches name (chunkOf G id) rest.head? ++ layout jumps rest

theorem layout_cons (jumps : List Nat) (id : Nat) (rest : List Nat) :
    layout o patches name G isGlobal jumps (id :: rest) =
      lbl name isGlobal jumps id ++ bodyOf o patches name (chunkOf G id) rest.head? ++
        layout o patches name G isGlobal jumps rest := rfl

/-- Jump targets registered by the chunks of `order`. -/
def regsOf : List Nat → List Nat
  | [] => []
  | id :: rest => (renderBranching o patches name (chunkOf G id) rest.head?).2.1 ++ regsOf rest

theorem renderBodies_ok (cl tl : List String) (jumps : List Nat) :
    ∀ (order : List Nat) (bodies : List (Nat × List Line)) (regs : List Nat),
      renderBodies o patches name G cl tl order = .ok (bodies, regs) →
      regs = regsOf o patches name G order ∧
      (bodies.flatMap fun (id, ls) =>
        (if id == 0 || jumps.contains id then
          [Line.labelDef (chunkLabel name id) (id == 0 && isGlobal)] else []) ++ ls)
        = layout o patches name G isGlobal jumps order ∧
      ∀ id ∈ order, ∃ c sl, findChunk G id = some c ∧
        renderStatements o patches cl tl c.statements = .ok sl := by
  intro order
  induction order with
  | nil =>
    intro bodies regs h
    simp [renderBodies] at h
    obtain ⟨rfl, rfl⟩ := h
    simp [regsOf, layout]
  | cons id rest ih =>
    intro bodies regs h
    simp only [renderBodies] at h
    split at h
    · simp at h
    · next c hc =>
      split at h
      · simp at h
      · next sl hs =>
        split at h
        · simp at h
        · next bodies' regs' hb =>
          simp at h
          obtain ⟨rfl, rfl⟩ := h
          obtain ⟨ih1, ih2, ih3⟩ := ih bodies' regs' hb
          have hco : chunkOf G id = c := by simp [chunkOf, hc]
          obtain ⟨hsl, _, _⟩ := renderStatements_ok o patches cl tl _ _ hs
          refine ⟨?_, ?_, ?_⟩
          · simp [regsOf, hco, ih1]
          · simp only [List.flatMap_cons, ih2, layout, lbl, bodyOf, hco, hsl, List.append_assoc]
          · intro x hx
            rcases List.mem_cons.1 hx with rfl | hx
            · exact ⟨c, sl, hc, hs⟩
            · exact ih3 x hx

/-- Lemma (a), global form: a successful `renderChunks` is the `layout` of the chunk order, with
the registered targets of that order as label set; every chunk of the order exists and its
statements render. -/
theorem renderChunks_ok (tl : List String) (ls : List Line)
    (h : renderChunks o patches G name isGlobal tl = .ok ls) :
    ∃ order, C05.chunkOrder o G = .ok order ∧
      ls = layout o patches name G isGlobal (regsOf o patches name G order) order ∧
      ∀ id ∈ order, ∃ c sl, findChunk G id = some c ∧
        renderStatements o patches (G.map fun c => chunkLabel name c.id) tl c.statements = .ok sl := by
  rw [C05.renderChunks_eq] at h
  cases ho : C05.chunkOrder o G with
  | error e => simp [ho] at h
  | ok order =>
    simp only [ho] at h
    split at h
    · simp at h
    · next bodies jumps hb =>
      injection h with h
      obtain ⟨h1, h2, h3⟩ := renderBodies_ok o patches name G isGlobal _ tl jumps order bodies jumps hb
      refine ⟨order, rfl, ?_, h3⟩
      rw [← h, ← h1]
      exact h2

/-! ### 2. `renderBranching` through one "exit" shape -/

/-- How a chunk leaves towards `dest` when the chunk laid out next is `next`:
`return`, an explicit `goto`, or nothing (fall through). -/
def exitTo (dest next : Option Nat) : List Line × List Nat × Bool :=
  match dest with
  | none => ([.terminator false], [], false)
  | some d => if some d != next then ([.goto_ (jumpLabel name d)], [d], false) else ([], [], true)

def prepend (pre : List Line) (reg : List Nat) (x : List Line × List Nat × Bool) :
    List Line × List Nat × Bool := (pre ++ x.1, reg ++ x.2.1, x.2.2)

def preambleLines (e : OpExpr) : List Line :=
  match e.preamble with | some p => [renderCommand patches p] | none => []

def caseLines (cases : List SwitchCaseBranch) : List Line :=
  cases.flatMap fun sc => marker o sc.value ++ [.case_ sc.value.lit (jumpLabel name sc.dest)]

theorem renderBranching_eq (c : Chunk) (next : Option Nat) :
    renderBranching o patches name c next =
      match c.branch with
      | .none =>
        (match c.returnID with
         | none => ([.terminator c.useEndTerminator], [], false)
         | some r => exitTo name (some r) next)
      | .jump d => exitTo name (some d) next
      | .breakCtx d => exitTo name d next
      | .leaf t e f =>
        prepend (preambleLines patches e ++ renderBranchComparison o name t e) [t] (exitTo name f next)
      | .switch_ op cases dflt dest =>
        prepend (marker o op ++ [.switch_ op.lit] ++ caseLines o name cases) (cases.map (·.dest))
          (match dflt with
           | some d => exitTo name (some d) next
           | none => if dest = none ∧ next = none then ([], [], true) else exitTo name dest next) := by
  unfold renderBranching
  cases c.branch with
  | none => cases c.returnID <;> simp [exitTo]
  | jump d => simp [exitTo]
  | breakCtx d => cases d <;> simp [exitTo]
  | leaf t e f =>
    cases f with
    | none => simp [exitTo, prepend, preambleLines]; cases e.preamble <;> rfl
    | some d =>
      simp only [exitTo, prepend, preambleLines]
      split <;> simp <;> cases e.preamble <;> rfl
  | switch_ op cases dflt dest =>
    cases dflt with
    | some d =>
      simp only [exitTo, prepend, caseLines]
      split <;> simp
    | none =>
      cases dest with
      | none =>
        cases next with
        | none => simp [prepend, caseLines]
        | some n => simp [exitTo, prepend, caseLines]
      | some d =>
        simp only [exitTo, prepend, caseLines]
        split <;> simp

/-! ### 3. Labels of the layout and label lookup -/

theorem labelsOf_stmtLines (ss : List Stmt) : labelsOf (stmtLines o patches ss) = stmtLabels ss := by
  induction ss with
  | nil => rfl
  | cons s r ih =>
    cases s <;> simp [stmtLines, stmtLabels, labelsOf_cons, labelOf, renderCommand, ih]

theorem labelsOf_bodyOf (c : Chunk) (next : Option Nat) :
    labelsOf (bodyOf o patches name c next) = stmtLabels c.statements := by
  simp only [bodyOf, labelsOf_append, labelsOf_stmtLines, labelsOf_renderBranching]
  split <;> simp [labelsOf, labelOf]

theorem findLabel_append (A B : List Line) (L : String) (h : ∀ g, (L, g) ∉ labelsOf A) :
    findLabel (A ++ B) L = (findLabel B L).map (· + A.length) := by
  induction A with
  | nil => simp
  | cons a A ih =>
    have ih' := ih (fun g hg => h g (by
      rw [labelsOf_cons]; split
      · exact List.mem_cons_of_mem _ hg
      · exact hg))
    have hcomp : (fun x => x + A.length + 1) = (fun x => x + (A.length + 1)) := by
      funext x; omega
    cases a with
    | labelDef n g' =>
      have hn : n ≠ L := by
        intro e; subst e
        exact h g' (by simp)
      simp [findLabel, hn, ih', Option.map_map, Function.comp_def, hcomp]
    | _ => simp [findLabel, ih', Option.map_map, Function.comp_def, hcomp]

theorem drop_append_length_add {α} (A B : List α) (p : Nat) :
    (A ++ B).drop (p + A.length) = B.drop p := by
  rw [Nat.add_comm, ← List.drop_drop]
  simp

/-- Lemma (c), list form: if no chunk laid out before `d` defines `L` and `d`'s label line is
`L`, then looking `L` up finds the start of `d`'s part of the layout. -/
theorem findLabel_layout (jumps : List Nat) (L : String) (g : Bool) (d : Nat) (rest : List Nat)
    (hl : lbl name isGlobal jumps d = [Line.labelDef L g]) :
    ∀ pre : List Nat,
      (∀ x ∈ pre, (∀ g', lbl name isGlobal jumps x ≠ [Line.labelDef L g']) ∧
        ∀ n ∈ stmtLabels (chunkOf G x).statements, n.1 ≠ L) →
      ∃ p, findLabel (layout o patches name G isGlobal jumps (pre ++ d :: rest)) L = some p ∧
        (layout o patches name G isGlobal jumps (pre ++ d :: rest)).drop p =
          layout o patches name G isGlobal jumps (d :: rest) := by
  intro pre
  induction pre with
  | nil =>
    intro _
    refine ⟨0, ?_, rfl⟩
    simp [layout, hl, findLabel]
  | cons x pre ih =>
    intro hx
    obtain ⟨p, hp1, hp2⟩ := ih (fun y hy => hx y (List.mem_cons_of_mem _ hy))
    obtain ⟨hx1, hx2⟩ := hx x (by simp)
    refine ⟨p + (lbl name isGlobal jumps x ++
      bodyOf o patches name (chunkOf G x) (pre ++ d :: rest).head?).length, ?_, ?_⟩
    · rw [List.cons_append, layout_cons, findLabel_append, hp1]
      · rfl
      · intro g' hg'
        rw [labelsOf_append, labelsOf_bodyOf, List.mem_append] at hg'
        rcases hg' with hg' | hg'
        · unfold lbl at hg' hx1
          split at hg'
          · simp [labelsOf_cons, labelOf] at hg'
            rename_i hc
            apply hx1 g'
            rw [if_pos hc, hg'.1, hg'.2]
          · simp at hg'
        · exact hx2 _ hg' rfl
    · rw [List.cons_append, layout_cons, drop_append_length_add, hp2]

end Layout

/-! ### 4. Running the machine over a known stretch of lines -/

section Machine
variable (aw : AWorld) (ls : List Line)

theorem drop_head {α} {l : List α} {pc : Nat} {x : α} {X : List α} (h : l.drop pc = x :: X) :
    l[pc]? = some x ∧ l.drop (pc + 1) = X := by
  constructor
  · have := List.getElem?_drop (xs := l) (i := pc) (j := 0)
    rw [h] at this
    simpa using this.symm
  · rw [← List.drop_drop, h]; rfl

theorem astep_of_drop {c : ACfg} {x : Line} {X : List Line} (h : ls.drop c.pc = x :: X) :
    astep aw ls c = exec aw ls c x := by
  unfold astep
  rw [(drop_head h).1]

theorem astep_runOff {c : ACfg} (h : ls.drop c.pc = []) : astep aw ls c = .fin .runOff c.h := by
  unfold astep
  have : ls.length ≤ c.pc := List.drop_eq_nil_iff.1 h
  rw [List.getElem?_eq_none this]

/-- A line marker (present or not) is skipped. -/
theorem skip_marker (o : Opts) (t : Tok) {c : ACfg} {X : List Line}
    (h : ls.drop c.pc = marker o t ++ X) :
    ∃ pc', AStar aw ls (.next c) (.next { c with pc := pc' }) ∧ ls.drop pc' = X := by
  unfold marker at h
  split at h
  · refine ⟨c.pc + 1, .step ?_, (drop_head h).2⟩
    rw [astep_of_drop aw ls h]
    exact .refl _
  · exact ⟨c.pc, .refl _, h⟩

def isTestLine : Line → Bool
  | .marker .. => true
  | .gotoIfSet .. => true
  | .gotoIfUnset .. => true
  | .compare .. => true
  | .gotoIfCmp .. => true
  | .checkTrainerFlag .. => true
  | .gotoIfTrainer .. => true
  | _ => false

theorem star_cases {c : ACfg} {r : ARes} (h : AStar aw ls (.next c) r) :
    r = .next c ∨ APlus aw ls c r := by
  cases h with
  | refl => exact .inl rfl
  | step h => exact .inr h

theorem star_plus {a c : ACfg} {r : ARes} (h1 : AStar aw ls (.next a) (.next c))
    (h2 : APlus aw ls c r) : APlus aw ls a r := by
  rcases star_cases aw ls h1 with h | h
  · injection h with h; subst h; exact h2
  · exact AStar.trans h h2.star

theorem plus_star {a : ACfg} {r r' : ARes} (h1 : APlus aw ls a r) (h2 : AStar aw ls r r') :
    APlus aw ls a r' := AStar.trans h1 h2

/-- Result of running a block of test lines from `c` (see `test_block`). -/
def TBRes (c : ACfg) (X : List Line) (res : Option String) (r : ARes) : Prop :=
  match res with
  | some l => APlus aw ls c r ∧ ∃ regs', r = jumpTo ls l ⟨0, c.h, regs', c.sw⟩
  | none => AStar aw ls (.next c) r ∧
      ∃ pc' regs', r = .next ⟨pc', c.h, regs', c.sw⟩ ∧ ls.drop pc' = X

theorem tb_wrap {c c' : ACfg} {X : List Line} {res : Option String} {r : ARes}
    (hstep : astep aw ls c = .next c') (hh : c'.h = c.h) (hsw : c'.sw = c.sw)
    (h : TBRes aw ls c' X res r) : TBRes aw ls c X res r := by
  cases res with
  | some l =>
    obtain ⟨h1, regs', h2⟩ := h
    refine ⟨?_, regs', by rw [← hh, ← hsw]; exact h2⟩
    show AStar aw ls (astep aw ls c) r
    rw [hstep]; exact h1.star
  | none =>
    obtain ⟨h1, pc', regs', h2, h3⟩ := h
    exact ⟨.step (by rw [hstep]; exact h1), pc', regs', by rw [← hh, ← hsw]; exact h2, h3⟩

/-- A block of test lines executes as `Spec.execTest` says: either one of its conditional jumps
is taken (after at least one step), or control arrives behind the block; history and switch
register are unchanged. -/
theorem test_block : ∀ (b : List Line) (X : List Line) (c : ACfg), (∀ l ∈ b, isTestLine l = true) →
    ls.drop c.pc = b ++ X →
    ∃ r, TBRes aw ls c X (Spec.execTest (aw.at c.h) [] b c.regs) r := by
  intro b
  induction b with
  | nil =>
    intro X c _ h
    exact ⟨_, .refl _, c.pc, c.regs, rfl, h⟩
  | cons l b ih =>
    intro X c hb h
    have hb' : ∀ l ∈ b, isTestLine l = true := fun l hl => hb l (List.mem_cons_of_mem _ hl)
    have hl := hb l (by simp)
    have hd := drop_head (show ls.drop c.pc = l :: (b ++ X) from h)
    have hs := astep_of_drop aw ls (show ls.drop c.pc = l :: (b ++ X) from h)
    cases l with
    | marker n f =>
      obtain ⟨r, hr⟩ := ih X { c with pc := c.pc + 1 } hb' hd.2
      exact ⟨r, tb_wrap aw ls (c' := { c with pc := c.pc + 1 }) (by rw [hs]; rfl) rfl rfl (by simpa [Spec.execTest] using hr)⟩
    | gotoIfSet f lab =>
      by_cases hf : aw.flag c.h f = true
      · refine ⟨jumpTo ls lab ⟨0, c.h, c.regs, c.sw⟩, ?_⟩
        simp only [Spec.execTest, AWorld.at, hf, if_true]
        exact ⟨by show AStar aw ls (astep aw ls c) _; rw [hs]; simp only [exec, hf, if_true]; exact .refl _,
          c.regs, rfl⟩
      · obtain ⟨r, hr⟩ := ih X { c with pc := c.pc + 1 } hb' hd.2
        refine ⟨r, tb_wrap aw ls (c' := { c with pc := c.pc + 1 }) (by rw [hs]; simp [exec, hf, fallThrough]) rfl rfl ?_⟩
        simpa [Spec.execTest, AWorld.at, hf] using hr
    | gotoIfUnset f lab =>
      by_cases hf : aw.flag c.h f = true
      · obtain ⟨r, hr⟩ := ih X { c with pc := c.pc + 1 } hb' hd.2
        refine ⟨r, tb_wrap aw ls (c' := { c with pc := c.pc + 1 }) (by rw [hs]; simp [exec, hf, fallThrough]) rfl rfl ?_⟩
        simpa [Spec.execTest, AWorld.at, hf] using hr
      · refine ⟨jumpTo ls lab ⟨0, c.h, c.regs, c.sw⟩, ?_⟩
        simp only [Spec.execTest, AWorld.at, hf]
        exact ⟨by show AStar aw ls (astep aw ls c) _; rw [hs]; simp only [exec, hf]; exact .refl _,
          c.regs, rfl⟩
    | compare st v x =>
      obtain ⟨r, hr⟩ := ih X { c with pc := c.pc + 1, regs := { c.regs with cmp := aw.cmp c.h v x } } hb' hd.2
      refine ⟨r, tb_wrap aw ls (c' := { c with pc := c.pc + 1, regs := { c.regs with cmp := aw.cmp c.h v x } }) (by rw [hs]; simp [exec, fallThrough]) rfl rfl ?_⟩
      simpa [Spec.execTest, AWorld.at] using hr
    | gotoIfCmp op lab =>
      by_cases hf : Spec.cmpHolds op c.regs.cmp = true
      · refine ⟨jumpTo ls lab ⟨0, c.h, c.regs, c.sw⟩, ?_⟩
        simp only [Spec.execTest, hf, if_true]
        exact ⟨by show AStar aw ls (astep aw ls c) _; rw [hs]; simp only [exec, hf, if_true]; exact .refl _,
          c.regs, rfl⟩
      · obtain ⟨r, hr⟩ := ih X { c with pc := c.pc + 1 } hb' hd.2
        refine ⟨r, tb_wrap aw ls (c' := { c with pc := c.pc + 1 }) (by rw [hs]; simp [exec, hf, fallThrough]) rfl rfl ?_⟩
        simpa [Spec.execTest, hf] using hr
    | checkTrainerFlag t =>
      obtain ⟨r, hr⟩ := ih X { c with pc := c.pc + 1, regs := { c.regs with trainer := aw.trainer c.h t } } hb' hd.2
      refine ⟨r, tb_wrap aw ls (c' := { c with pc := c.pc + 1, regs := { c.regs with trainer := aw.trainer c.h t } }) (by rw [hs]; simp [exec, fallThrough]) rfl rfl ?_⟩
      simpa [Spec.execTest, AWorld.at] using hr
    | gotoIfTrainer set lab =>
      by_cases hf : (c.regs.trainer == set) = true
      · refine ⟨jumpTo ls lab ⟨0, c.h, c.regs, c.sw⟩, ?_⟩
        simp only [Spec.execTest, hf, if_true]
        exact ⟨by show AStar aw ls (astep aw ls c) _; rw [hs]; simp only [exec, hf, if_true]; exact .refl _,
          c.regs, rfl⟩
      · obtain ⟨r, hr⟩ := ih X { c with pc := c.pc + 1 } hb' hd.2
        refine ⟨r, tb_wrap aw ls (c' := { c with pc := c.pc + 1 }) (by rw [hs]; simp [exec, hf, fallThrough]) rfl rfl ?_⟩
        simpa [Spec.execTest, hf] using hr
    | _ => simp [isTestLine] at hl

end Machine

/-! ### 5. The simulation relation -/

/-- Chunk ids control can go to from a chunk (what `gstep` can produce). -/
def targets (c : Chunk) : List Nat :=
  match c.branch with
  | .none => c.returnID.toList
  | .jump d => [d]
  | .breakCtx d => d.toList
  | .leaf t _ f => t :: f.toList
  | .switch_ _ cases dflt dest => cases.map (·.dest) ++ dflt.toList ++ dest.toList

/-- The chunk table is closed: every target is the id of a chunk of the table, and is not the
entry chunk 0 (the entry's label is the bare script name, generated jumps use `name_<id>`). -/
def Closed (G : List Chunk) : Prop :=
  ∀ c ∈ G, ∀ d ∈ targets c, d ≠ 0 ∧ d ∈ G.map (·.id)

/-- Outcomes correspond; the arguments of a finishing user `goto` are the patched arguments. -/
def ORel (patches : List ((Nat × Nat) × String)) : Outcome → AOutcome → Prop
  | .ret, .ret => True
  | .end_, .end_ => True
  | .jump a, .jump a' => ∃ c : Cmd, a = c.args ∧ a' = patchedArgs patches c
  | _, _ => False

section Sim
variable (o : Opts) (patches : List ((Nat × Nat) × String)) (name : String) (G : List Chunk)
  (isGlobal : Bool) (aw : AWorld) (ls : List Line) (order : List Nat)

/-- The graph history as the assembly machine records it. -/
abbrev rh (h : Hist) : AHist := h.map (renderCommand patches)

/-- What follows the statement lines of chunk `c` when the chunks `rest` are laid out after it. -/
def brTail (c : Chunk) (rest : List Nat) : List Line :=
  (renderBranching o patches name c rest.head?).1 ++
    (if (renderBranching o patches name c rest.head?).2.2 then [] else [.blank]) ++
    layout o patches name G isGlobal (regsOf o patches name G order) rest

/-- Graph configuration `(k, off, h)` ↔ the program counter stands at the first line (marker
included) of statement `off` of chunk `k` — or, when `off` is past the statements, at the first
branching line of the chunk; histories agree up to rendering. -/
def RA (g : GCfg) (a : ACfg) : Prop :=
  a.h = rh patches g.h ∧ ∃ pre rest, order = pre ++ g.k :: rest ∧
    ls.drop a.pc = stmtLines o patches ((chunkOf G g.k).statements.drop g.o) ++
      brTail o patches name G isGlobal order (chunkOf G g.k) rest

def MatchA : Res GCfg → ARes → Prop
  | .next g, .next a => RA o patches name G isGlobal ls order g a
  | .fin oc h, .fin oc' h' => ORel patches oc oc' ∧ h' = rh patches h
  | _, _ => False

variable {o patches name G isGlobal ls order} in
theorem matchA_next {g : GCfg} {a : ACfg} (h : RA o patches name G isGlobal ls order g a) :
    MatchA o patches name G isGlobal ls order (.next g) (.next a) := h

/-- Facts about one successful rendering that the simulation uses (all derived from the
hypotheses of `render_sim` in `setup_of_render`). -/
structure Setup : Prop where
  hls : ls = layout o patches name G isGlobal (regsOf o patches name G order) order
  nodup : order.Nodup
  found : ∀ id ∈ order, findChunk G id = some (chunkOf G id)
  simple : ∀ id ∈ order, ∀ s ∈ (chunkOf G id).statements, isSimple s = true
  hyg : ∀ id ∈ order, ∀ n ∈ stmtLabels (chunkOf G id).statements, ∀ d ∈ order, n.1 ≠ chunkLabel name d
  inj : ∀ i j, chunkLabel name i = chunkLabel name j → i = j
  closed : ∀ id ∈ order, ∀ d ∈ targets (chunkOf G id), d ≠ 0 ∧ d ∈ order

theorem regsOf_mem (k : Nat) (rest : List Nat) : ∀ (pre : List Nat),
    ∀ d ∈ (renderBranching o patches name (chunkOf G k) rest.head?).2.1,
      d ∈ regsOf o patches name G (pre ++ k :: rest) := by
  intro pre
  induction pre with
  | nil => intro d hd; simp [regsOf, hd]
  | cons x pre ih => intro d hd; simp only [List.cons_append, regsOf, List.mem_append]; right; exact ih d hd

variable {o patches name G isGlobal aw ls order}

/-- Arriving at the start of chunk `d`'s part of the layout: skip its label line if it has one. -/
theorem enter {pre rest : List Nat} {d : Nat} (hord : order = pre ++ d :: rest) (c : ACfg) (gh : Hist)
    (hh : c.h = rh patches gh)
    (hdrop : ls.drop c.pc = layout o patches name G isGlobal (regsOf o patches name G order) (d :: rest)) :
    ∃ a', AStar aw ls (.next c) (.next a') ∧ RA o patches name G isGlobal ls order ⟨d, 0, gh⟩ a' := by
  rw [layout_cons] at hdrop
  unfold lbl at hdrop
  split at hdrop
  · simp only [List.cons_append, List.nil_append] at hdrop
    refine ⟨{ c with pc := c.pc + 1 }, .step ?_, hh, pre, rest, hord, ?_⟩
    · rw [astep_of_drop aw ls hdrop]; exact .refl _
    · rw [(drop_head hdrop).2]
      simp [bodyOf, brTail, List.append_assoc]
  · refine ⟨c, .refl _, hh, pre, rest, hord, ?_⟩
    rw [hdrop]
    simp [bodyOf, brTail, List.append_assoc]

/-- Lemma (c): an explicit jump to a registered chunk of the order lands on its label line and
from there at the chunk's first statement. -/
theorem land_jump (S : Setup o patches name G isGlobal ls order) {d : Nat} (hd : d ∈ order)
    (hd0 : d ≠ 0) (hdj : d ∈ regsOf o patches name G order) (c : ACfg) (gh : Hist)
    (hh : c.h = rh patches gh) :
    ∃ a', AStar aw ls (jumpTo ls (jumpLabel name d) c) (.next a') ∧
      RA o patches name G isGlobal ls order ⟨d, 0, gh⟩ a' := by
  obtain ⟨pre, rest, hord⟩ := List.append_of_mem hd
  have hcl : chunkLabel name d = jumpLabel name d := by simp [chunkLabel, jumpLabel, hd0]
  have hl : lbl name isGlobal (regsOf o patches name G order) d =
      [Line.labelDef (jumpLabel name d) (d == 0 && isGlobal)] := by
    simp [lbl, hdj, hcl]
  have hnd := S.nodup
  rw [hord] at hnd
  have hdpre : d ∉ pre := by
    intro hmem
    have := (List.nodup_append.1 hnd).2.2 d hmem d (by simp)
    exact this rfl
  obtain ⟨p, hp1, hp2⟩ := findLabel_layout o patches name G isGlobal (regsOf o patches name G order)
    (jumpLabel name d) _ d rest hl pre (by
      intro x hx
      have hxo : x ∈ order := by rw [hord]; simp [hx]
      refine ⟨?_, ?_⟩
      · intro g' he
        unfold lbl at he
        split at he
        · simp only [List.cons.injEq, Line.labelDef.injEq, and_true] at he
          have := S.inj x d (by rw [hcl]; exact he.1)
          exact hdpre (this ▸ hx)
        · cases he
      · intro n hn
        rw [← hcl]
        exact S.hyg x hxo n hn d hd)
  rw [← hord, ← S.hls] at hp1 hp2
  have hj : jumpTo ls (jumpLabel name d) c = .next { c with pc := p } := by simp [jumpTo, hp1]
  rw [hj]
  exact enter (aw := aw) hord { c with pc := p } gh hh hp2

/-- Leaving a chunk towards `dest` (`return` / explicit `goto` / fall-through, lemma (b)):
matches `Sem.goto dest`. -/
theorem exit_sim (S : Setup o patches name G isGlobal ls order) {pre rest : List Nat} {k : Nat}
    (hord : order = pre ++ k :: rest) (dest : Option Nat)
    (hdest : ∀ d, dest = some d → d ≠ 0 ∧ d ∈ order)
    (hreg : ∀ d ∈ (exitTo name dest rest.head?).2.1, d ∈ regsOf o patches name G order)
    (c : ACfg) (gh : Hist) (hh : c.h = rh patches gh)
    (hdrop : ls.drop c.pc = (exitTo name dest rest.head?).1 ++
      (if (exitTo name dest rest.head?).2.2 then [] else [.blank]) ++
      layout o patches name G isGlobal (regsOf o patches name G order) rest) :
    ∃ ra, MatchA o patches name G isGlobal ls order (goto dest gh) ra ∧
      (APlus aw ls c ra ∨ (ra = .next c ∧ ∃ d, dest = some d ∧ rest.head? = some d)) := by
  cases dest with
  | none =>
    simp only [exitTo] at hdrop
    refine ⟨.fin .ret c.h, ?_, .inl ?_⟩
    · simp [goto, MatchA, ORel, hh]
    · show AStar aw ls (astep aw ls c) _
      rw [astep_of_drop aw ls (by simpa using hdrop)]; exact .refl _
  | some d =>
    obtain ⟨hd0, hdo⟩ := hdest d rfl
    unfold exitTo at hdrop hreg
    simp only at hdrop hreg
    split at hdrop
    · rename_i hne
      rw [if_pos hne] at hreg
      obtain ⟨a', hs, hr⟩ := land_jump (aw := aw) S hdo hd0 (hreg d (by simp)) c gh hh
      refine ⟨.next a', hr, .inl ?_⟩
      show AStar aw ls (astep aw ls c) _
      rw [astep_of_drop aw ls (by simpa using hdrop)]
      exact hs
    · rename_i hne
      have hhead : rest.head? = some d := by
        have : some d = rest.head? := by simpa using hne
        exact this.symm
      obtain ⟨rest', rfl⟩ : ∃ rest', rest = d :: rest' := by
        cases rest with
        | nil => simp at hhead
        | cons x r => simp at hhead; exact ⟨r, by rw [hhead]⟩
      have hord' : order = (pre ++ [k]) ++ d :: rest' := by simp [hord]
      obtain ⟨a', hs, hr⟩ := enter (aw := aw) hord' c gh hh (by simpa using hdrop)
      refine ⟨.next a', hr, ?_⟩
      rcases star_cases aw ls hs with h | h
      · exact .inr ⟨h, d, rfl, rfl⟩
      · exact .inl h

theorem special_none {c : Cmd} (h : specialCmd c = none) (args : List String) :
    specialLine c.name args = none := by
  unfold specialCmd at h
  unfold specialLine
  split at h
  · cases h
  · split at h
    · cases h
    · split at h
      · cases h
      · simp [*]

theorem special_some {c : Cmd} {oc : Outcome} (h : specialCmd c = some oc) :
    ∃ oc', specialLine c.name (patchedArgs patches c) = some oc' ∧ ORel patches oc oc' := by
  unfold specialCmd at h
  unfold specialLine
  split at h
  · injection h with h; subst h; exact ⟨.end_, by simp [*], trivial⟩
  · split at h
    · injection h with h; subst h; exact ⟨.ret, by simp [*], trivial⟩
    · split at h
      · injection h with h; subst h; exact ⟨.jump (patchedArgs patches c), by simp [*], c, rfl, rfl⟩
      · cases h

theorem firstCase_mem (w : SWorld) (h : Hist) (op : Tok) : ∀ (cases : List SwitchCaseBranch) (d : Nat),
    firstCase w h op cases = some d → d ∈ cases.map (·.dest) := by
  intro cases
  induction cases with
  | nil => intro d h; simp [firstCase] at h
  | cons c r ih =>
    intro d h
    rw [firstCase] at h
    split at h
    · injection h with h; simp [h]
    · simp [ih d h]

/-- The `case` lines: the first case whose value matches jumps; otherwise control arrives
behind them. -/
theorem case_block (w : SWorld) (gh : Hist) (op : Tok) : ∀ (cases : List SwitchCaseBranch)
    (X : List Line) (c : ACfg),
    (∀ sc ∈ cases, aw.caseEq (rh patches gh) op.lit sc.value.lit = w.caseEq gh op sc.value) →
    c.h = rh patches gh → c.sw = op.lit → ls.drop c.pc = caseLines o name cases ++ X →
    ∃ r, AStar aw ls (.next c) r ∧
      match firstCase w gh op cases with
      | some d => r = jumpTo ls (jumpLabel name d) ⟨0, c.h, c.regs, c.sw⟩
      | none => ∃ pc', r = .next ⟨pc', c.h, c.regs, c.sw⟩ ∧ ls.drop pc' = X := by
  intro cases
  induction cases with
  | nil =>
    intro X c _ _ _ h
    exact ⟨_, .refl _, by simp only [firstCase]; exact ⟨c.pc, rfl, by simpa [caseLines] using h⟩⟩
  | cons sc r ih =>
    intro X c hce hh hsw h
    simp only [caseLines, List.flatMap_cons, List.append_assoc] at h
    obtain ⟨pc1, hs1, hd1⟩ := skip_marker aw ls o sc.value h
    have hd1' : ls.drop (ACfg.pc { c with pc := pc1 }) =
        Line.case_ sc.value.lit (jumpLabel name sc.dest) :: (caseLines o name r ++ X) := by
      simpa [caseLines] using hd1
    have hst := astep_of_drop aw ls hd1'
    have hv := hce sc (by simp)
    rw [firstCase]
    by_cases hm : w.caseEq gh op sc.value = true
    · have hcond : aw.caseEq c.h c.sw sc.value.lit = true := by rw [hh, hsw, hv]; exact hm
      refine ⟨_, hs1.trans (.step (.refl _)), ?_⟩
      rw [if_pos hm, hst]
      simp only [exec, hcond, if_true]
      rfl
    · obtain ⟨r', hr1, hr2⟩ := ih X { c with pc := pc1 + 1 }
        (fun s hs => hce s (List.mem_cons_of_mem _ hs)) hh hsw (drop_head hd1').2
      have hcond : aw.caseEq c.h c.sw sc.value.lit = false := by rw [hh, hsw, hv]; simpa using hm
      refine ⟨r', hs1.trans (.step ?_), ?_⟩
      · rw [hst]
        simp only [exec, hcond, Bool.false_eq_true, if_false, fallThrough]
        exact hr1
      · rw [if_neg hm]; exact hr2

theorem rbc_test (t : Nat) (e : OpExpr) : ∀ l ∈ renderBranchComparison o name t e, isTestLine l = true := by
  intro l hl
  unfold renderBranchComparison marker at hl
  simp only [List.mem_append] at hl
  rcases hl with hl | hl
  · split at hl
    · simp at hl; subst hl; rfl
    · simp at hl
  · split at hl
    · split at hl <;> (simp at hl; subst hl; rfl)
    · split at hl
      · simp at hl; rcases hl with rfl | rfl <;> rfl
      · simp at hl; subst hl; rfl
    · simp at hl; rcases hl with rfl | rfl <;> rfl
    · simp at hl

variable (o patches name G) in
/-- The graph world `w` and the assembly world `aw` agree on the tests of this chunk table:
the rendered test block of a leaf jumps (to the truthy label) exactly when `w.test` holds, from
any register contents; a `case` comparison on the literals is `w.caseEq`. -/
structure Compat (w : SWorld) (aw : AWorld) : Prop where
  test : ∀ c ∈ G, ∀ t e f, c.branch = .leaf t e f → ∀ (h : Hist) (r : Spec.Regs),
    Spec.execTest (aw.at (rh patches h)) [] (renderBranchComparison o name t e) r =
      if w.test h e then some (jumpLabel name t) else none
  case_ : ∀ c ∈ G, ∀ op cases dflt dest, c.branch = .switch_ op cases dflt dest → ∀ sc ∈ cases,
    ∀ h, aw.caseEq (rh patches h) op.lit sc.value.lit = w.caseEq h op sc.value

/-- The AutoVar command run before a leaf test is an ordinary command (`gstep` appends it
unconditionally). -/
def PreambleOK (G : List Chunk) : Prop :=
  ∀ c ∈ G, ∀ t e f p, c.branch = .leaf t e f → e.preamble = some p → specialCmd p = none

/-- A `switch` chunk without default and without return chunk is not laid out last (otherwise
its lines would fall off the end of the script: see `no_runoff`). -/
def SwitchNotLast (G : List Chunk) (order : List Nat) : Prop :=
  ∀ c ∈ G, ∀ op cases, c.branch = .switch_ op cases none none → order.getLast? ≠ some c.id

theorem preamble_step (e : OpExpr) (hp : ∀ p, e.preamble = some p → specialCmd p = none)
    (c : ACfg) (gh : Hist) (hh : c.h = rh patches gh) (X : List Line)
    (hdrop : ls.drop c.pc = preambleLines patches e ++ X) :
    ∃ c1, AStar aw ls (.next c) (.next c1) ∧ c1.h = rh patches (runPre gh e.preamble) ∧
      ls.drop c1.pc = X := by
  unfold preambleLines at hdrop
  cases hpre : e.preamble with
  | none =>
    rw [hpre] at hdrop
    exact ⟨c, .refl _, by simpa [runPre] using hh, by simpa using hdrop⟩
  | some p =>
    rw [hpre] at hdrop
    have hd : ls.drop c.pc = renderCommand patches p :: X := by simpa using hdrop
    have hn := special_none (hp p hpre) (patchedArgs patches p)
    refine ⟨{ c with pc := c.pc + 1, h := c.h ++ [renderCommand patches p] }, .step ?_, ?_, (drop_head hd).2⟩
    · rw [astep_of_drop aw ls hd]
      simp only [renderCommand, exec, hn]
      exact .refl _
    · simp [runPre, hh, rh]

/-- `d` is laid out directly after `k`. -/
def Succ (order : List Nat) (k d : Nat) : Prop := ∃ pre rest', order = pre ++ k :: d :: rest'

theorem succ_of_head {pre rest : List Nat} {k d : Nat} (hord : order = pre ++ k :: rest)
    (hh : rest.head? = some d) : Succ order k d := by
  cases rest with
  | nil => simp at hh
  | cons x r => simp at hh; subst hh; exact ⟨pre, r, hord⟩

theorem exit_star {c : ACfg} {ra : ARes} {F : Prop}
    (hx : APlus aw ls c ra ∨ (ra = .next c ∧ F)) : AStar aw ls (.next c) ra := by
  rcases hx with h | ⟨h, _⟩
  · exact h.star
  · rw [h]; exact .refl _

theorem adv_of_exit (w : SWorld) {g : GCfg} {a c : ACfg} {ra : ARes} {dest : Option Nat} {h' : Hist}
    {pre rest : List Nat} (hord : order = pre ++ g.k :: rest) (hgs : gstep w G g = goto dest h')
    (hs : AStar aw ls (.next a) (.next c))
    (hx : APlus aw ls c ra ∨ (ra = .next c ∧ ∃ d, dest = some d ∧ rest.head? = some d)) :
    APlus aw ls a ra ∨ (ra = .next a ∧ ∃ g', gstep w G g = .next g' ∧ Succ order g.k g'.k) := by
  rcases hx with h | ⟨h, d, hd, hhead⟩
  · exact .inl (star_plus aw ls hs h)
  · rcases star_cases aw ls hs with h2 | h2
    · injection h2 with h2
      subst h2
      exact .inr ⟨h, ⟨d, 0, h'⟩, by rw [hgs, hd]; rfl, succ_of_head hord hhead⟩
    · exact .inl (by rw [h]; exact h2)

/-- **One graph step is matched by one or more assembly steps**, except for a fall-through into
a chunk without label line, which needs no assembly step: then the assembly configuration is
unchanged and the graph has moved to the chunk laid out next (so this cannot repeat forever:
`Succ` strictly advances in the duplicate-free `order`). -/
theorem sim_step (S : Setup o patches name G isGlobal ls order) (w : SWorld)
    (C : Compat o patches name G w aw) (P : PreambleOK G) (SW : SwitchNotLast G order)
    {g : GCfg} {a : ACfg} (hR : RA o patches name G isGlobal ls order g a) :
    ∃ ra, MatchA o patches name G isGlobal ls order (gstep w G g) ra ∧
      (APlus aw ls a ra ∨ (ra = .next a ∧ ∃ g', gstep w G g = .next g' ∧ Succ order g.k g'.k)) := by
  obtain ⟨k, off, gh⟩ := g
  obtain ⟨hh, pre, rest, hord, hdrop⟩ := hR
  simp only at hh hord hdrop
  have hk : k ∈ order := by rw [hord]; simp
  have hf := S.found k hk
  have hcG : chunkOf G k ∈ G := List.mem_of_find?_eq_some hf
  have hid : (chunkOf G k).id = k := by
    have := List.find?_some hf
    simpa using this
  cases hst : (chunkOf G k).statements[off]? with
  | some st =>
    obtain ⟨hlt, hget⟩ := List.getElem?_eq_some_iff.1 hst
    have hdr := List.drop_eq_getElem_cons hlt
    rw [hget] at hdr
    rw [hdr] at hdrop
    have hsimple := S.simple k hk st (List.mem_of_getElem? hst)
    cases st with
    | cmd cm =>
      simp only [stmtLines, List.append_assoc] at hdrop
      obtain ⟨pc1, hs1, hd1⟩ := skip_marker aw ls o cm.tok hdrop
      have hd1' : ls.drop (ACfg.pc { a with pc := pc1 }) = renderCommand patches cm ::
          (stmtLines o patches ((chunkOf G k).statements.drop (off + 1)) ++
            brTail o patches name G isGlobal order (chunkOf G k) rest) := by simpa using hd1
      have hstep := astep_of_drop aw ls hd1'
      cases hsp : specialCmd cm with
      | some oc =>
        have hgs : gstep w G ⟨k, off, gh⟩ = .fin oc gh := by simp [gstep, hf, hst, hsp]
        rw [hgs]
        obtain ⟨oc', ho1, ho2⟩ := special_some (patches := patches) hsp
        refine ⟨.fin oc' a.h, by simp [MatchA, ho2, hh], .inl (star_plus aw ls hs1 ?_)⟩
        show AStar aw ls (astep aw ls _) _
        rw [hstep]; simp only [renderCommand, exec, ho1]; exact .refl _
      | none =>
        have hgs : gstep w G ⟨k, off, gh⟩ = .next ⟨k, off + 1, gh ++ [cm]⟩ := by
          simp [gstep, hf, hst, hsp]
        rw [hgs]
        have hn := special_none hsp (patchedArgs patches cm)
        refine ⟨.next { a with pc := pc1 + 1, h := a.h ++ [renderCommand patches cm] },
          matchA_next ⟨by simp [hh, rh], pre, rest, hord, (drop_head hd1').2⟩,
          .inl (star_plus aw ls hs1 ?_)⟩
        show AStar aw ls (astep aw ls _) _
        rw [hstep]; simp only [renderCommand, exec, hn]; exact .refl _
    | label tok n gl =>
      have hgs : gstep w G ⟨k, off, gh⟩ = .next ⟨k, off + 1, gh⟩ := by simp [gstep, hf, hst]
      rw [hgs]
      simp only [stmtLines, List.append_assoc] at hdrop
      obtain ⟨pc1, hs1, hd1⟩ := skip_marker aw ls o tok hdrop
      have hd1' : ls.drop (ACfg.pc { a with pc := pc1 }) = Line.labelDef n gl ::
          (stmtLines o patches ((chunkOf G k).statements.drop (off + 1)) ++
            brTail o patches name G isGlobal order (chunkOf G k) rest) := by simpa using hd1
      have hstep := astep_of_drop aw ls hd1'
      refine ⟨.next { a with pc := pc1 + 1 },
        matchA_next ⟨hh, pre, rest, hord, (drop_head hd1').2⟩, .inl (star_plus aw ls hs1 ?_)⟩
      show AStar aw ls (astep aw ls _) _
      rw [hstep]; exact .refl _
    | _ => simp [isSimple] at hsimple
  | none =>
    have hle : (chunkOf G k).statements.length ≤ off := by simpa using hst
    rw [List.drop_eq_nil_of_le hle] at hdrop
    simp only [stmtLines, List.nil_append, brTail] at hdrop
    have hreg := regsOf_mem o patches name G k rest pre
    rw [← hord] at hreg
    have hcl := S.closed k hk
    unfold targets at hcl
    rw [renderBranching_eq] at hdrop hreg
    have hord' : order = pre ++ (GCfg.k ⟨k, off, gh⟩) :: rest := hord
    cases hb : (chunkOf G k).branch with
    | none =>
      rw [hb] at hdrop hreg hcl
      simp only at hdrop hreg hcl
      cases hr : (chunkOf G k).returnID with
      | none =>
        rw [hr] at hdrop
        simp only at hdrop
        have hgs : gstep w G ⟨k, off, gh⟩ =
            .fin (if (chunkOf G k).useEndTerminator then .end_ else .ret) gh := by
          simp [gstep, hf, hst, hb, hr]
        rw [hgs]
        refine ⟨.fin (if (chunkOf G k).useEndTerminator then .end_ else .ret) a.h, ?_, .inl ?_⟩
        · cases (chunkOf G k).useEndTerminator <;> simp [MatchA, ORel, hh]
        · show AStar aw ls (astep aw ls _) _
          rw [astep_of_drop aw ls (by simpa using hdrop)]; exact .refl _
      | some r =>
        rw [hr] at hdrop hreg hcl
        have hgs : gstep w G ⟨k, off, gh⟩ = goto (some r) gh := by simp [gstep, hf, hst, hb, hr, goto]
        obtain ⟨ra, hm, hx⟩ := exit_sim (aw := aw) S hord (some r) (by
          intro d hd; injection hd with hd; subst hd; exact hcl _ (by simp)) hreg a gh hh hdrop
        exact ⟨ra, by rw [hgs]; exact hm, adv_of_exit w hord' hgs (.refl _) hx⟩
    | jump d =>
      rw [hb] at hdrop hreg hcl
      simp only at hdrop hreg hcl
      have hgs : gstep w G ⟨k, off, gh⟩ = goto (some d) gh := by simp [gstep, hf, hst, hb, goto]
      obtain ⟨ra, hm, hx⟩ := exit_sim (aw := aw) S hord (some d) (by
        intro d' hd; injection hd with hd; subst hd; exact hcl _ (by simp)) hreg a gh hh hdrop
      exact ⟨ra, by rw [hgs]; exact hm, adv_of_exit w hord' hgs (.refl _) hx⟩
    | breakCtx d =>
      rw [hb] at hdrop hreg hcl
      simp only at hdrop hreg hcl
      have hgs : gstep w G ⟨k, off, gh⟩ = goto d gh := by simp [gstep, hf, hst, hb]
      obtain ⟨ra, hm, hx⟩ := exit_sim (aw := aw) S hord d (by
        intro d' hd; subst hd; exact hcl _ (by simp)) hreg a gh hh hdrop
      exact ⟨ra, by rw [hgs]; exact hm, adv_of_exit w hord' hgs (.refl _) hx⟩
    | leaf t e f =>
      rw [hb] at hdrop hreg hcl
      simp only [prepend, List.append_assoc] at hdrop hreg hcl
      obtain ⟨c1, hs1, hh1, hd1⟩ := preamble_step (aw := aw) e (fun p hp => P _ hcG t e f p hb hp)
        a gh hh _ hdrop
      obtain ⟨r, hm⟩ := test_block aw ls _ _ c1 (rbc_test t e) hd1
      rw [hh1, C.test _ hcG t e f hb] at hm
      by_cases hw : w.test (runPre gh e.preamble) e = true
      · have hgs : gstep w G ⟨k, off, gh⟩ = .next ⟨t, 0, runPre gh e.preamble⟩ := by
          simp [gstep, hf, hst, hb, hw]
        rw [hgs]
        simp only [hw, if_true, TBRes] at hm
        obtain ⟨hp, regs', rfl⟩ := hm
        obtain ⟨ht0, hto⟩ := hcl t (by simp)
        obtain ⟨a', hs3, hr3⟩ := land_jump (aw := aw) S hto ht0 (hreg t (by simp))
          ⟨0, c1.h, regs', c1.sw⟩ (runPre gh e.preamble) hh1
        exact ⟨.next a', matchA_next hr3, .inl (star_plus aw ls hs1 (plus_star aw ls hp hs3))⟩
      · have hgs : gstep w G ⟨k, off, gh⟩ = goto f (runPre gh e.preamble) := by
          simp [gstep, hf, hst, hb, hw]
        simp only [hw, TBRes] at hm
        obtain ⟨hs2, pc', regs', rfl, hd2⟩ := hm
        obtain ⟨ra, hm3, hx⟩ := exit_sim (aw := aw) S hord f (by
            intro d' hd; subst hd; exact hcl _ (by simp)) (fun d hd => hreg d (by simp [hd]))
          ⟨pc', c1.h, regs', c1.sw⟩ (runPre gh e.preamble) hh1
          (by simpa [List.append_assoc] using hd2)
        exact ⟨ra, by rw [hgs]; exact hm3, adv_of_exit w hord' hgs (hs1.trans hs2) hx⟩
    | switch_ op cases dflt dest =>
      rw [hb] at hdrop hreg hcl
      simp only [prepend, List.append_assoc] at hdrop hreg hcl
      obtain ⟨pc1, hs1, hd1⟩ := skip_marker aw ls o op hdrop
      rw [List.singleton_append] at hd1
      have hstep := astep_of_drop aw ls (c := { a with pc := pc1 }) hd1
      have hp2 : APlus aw ls { a with pc := pc1 } (.next { a with pc := pc1 + 1, sw := op.lit }) := by
        show AStar aw ls (astep aw ls _) _
        rw [hstep]; exact .refl _
      obtain ⟨r, hs3, hm⟩ := case_block (aw := aw) (ls := ls) w gh op cases _
        { a with pc := pc1 + 1, sw := op.lit }
        (fun sc hsc => C.case_ _ hcG op cases dflt dest hb sc hsc gh) hh rfl (drop_head hd1).2
      cases hfc : firstCase w gh op cases with
      | some d =>
        have hgs : gstep w G ⟨k, off, gh⟩ = .next ⟨d, 0, gh⟩ := by simp [gstep, hf, hst, hb, hfc]
        rw [hgs]
        rw [hfc] at hm
        simp only at hm
        subst hm
        have hdm := firstCase_mem w gh op cases d hfc
        obtain ⟨hd0, hdo⟩ := hcl d (by simp [hdm])
        obtain ⟨a', hs4, hr4⟩ := land_jump (aw := aw) S hdo hd0 (hreg d (by simp [hdm]))
          ⟨0, a.h, a.regs, op.lit⟩ gh hh
        exact ⟨.next a', matchA_next hr4,
          .inl (star_plus aw ls hs1 (plus_star aw ls hp2 (hs3.trans hs4)))⟩
      | none =>
        rw [hfc] at hm
        simp only at hm
        obtain ⟨pc', rfl, hd2⟩ := hm
        cases dflt with
        | some d =>
          have hgs : gstep w G ⟨k, off, gh⟩ = goto (some d) gh := by
            simp [gstep, hf, hst, hb, hfc, goto]
          simp only at hd2 hreg
          obtain ⟨ra, hm4, hx⟩ := exit_sim (aw := aw) S hord (some d) (by
              intro d' hd; injection hd with hd; subst hd; exact hcl _ (by simp))
            (fun d hd => hreg d (by simp [hd])) ⟨pc', a.h, a.regs, op.lit⟩ gh hh
            (by simpa [List.append_assoc] using hd2)
          exact ⟨ra, by rw [hgs]; exact hm4,
            .inl (star_plus aw ls hs1 (plus_star aw ls hp2 (hs3.trans (exit_star hx))))⟩
        | none =>
          have hgs : gstep w G ⟨k, off, gh⟩ = goto dest gh := by simp [gstep, hf, hst, hb, hfc]
          simp only at hd2 hreg
          by_cases hlast : dest = none ∧ rest.head? = none
          · exfalso
            obtain ⟨rfl, hrest⟩ := hlast
            have : rest = [] := by cases rest <;> simp_all
            subst this
            exact SW _ hcG op cases hb (by rw [hid, hord]; simp)
          · rw [if_neg hlast] at hd2 hreg
            obtain ⟨ra, hm4, hx⟩ := exit_sim (aw := aw) S hord dest (by
                intro d' hd; subst hd; exact hcl _ (by simp))
              (fun d hd => hreg d (by simp [hd])) ⟨pc', a.h, a.regs, op.lit⟩ gh hh
              (by simpa [List.append_assoc] using hd2)
            exact ⟨ra, by rw [hgs]; exact hm4,
              .inl (star_plus aw ls hs1 (plus_star aw ls hp2 (hs3.trans (exit_star hx))))⟩

/-! ### 6. From the hypotheses about the chunk table to `Setup`; entry; every configuration -/

variable (o patches name G isGlobal ls) in
/-- `renderChunks` succeeded on a closed chunk table with distinct ids containing 0, and chunk
labels of distinct ids are distinct: all facts the simulation needs hold for the chunk order.
(That chunks only contain `cmd` / `label` statements and that user labels do not clash with
generated labels — `Hygienic` — need not be assumed: `renderStatements` checks both.) -/
theorem setup_of_render (tl : List String) (hnd : (G.map (·.id)).Nodup) (h0 : 0 ∈ G.map (·.id))
    (hcl : Closed G) (hinj : ∀ i j, chunkLabel name i = chunkLabel name j → i = j)
    (hr : renderChunks o patches G name isGlobal tl = .ok ls) :
    ∃ order, C05.chunkOrder o G = .ok order ∧ order.head? = some 0 ∧
      Setup o patches name G isGlobal ls order := by
  obtain ⟨order, ho, hls, hall⟩ := renderChunks_ok o patches name G isGlobal tl ls hr
  obtain ⟨hp, hh⟩ := C05.chunkOrder_perm o G order h0 ho
  have hfound : ∀ id ∈ order, findChunk G id = some (chunkOf G id) := by
    intro id hid
    obtain ⟨c, sl, hc, _⟩ := hall id hid
    simp [chunkOf, hc]
  refine ⟨order, ho, hh, ⟨hls, hp.nodup_iff.2 hnd, hfound, ?_, ?_, hinj, ?_⟩⟩
  · intro id hid
    obtain ⟨c, sl, hc, hs⟩ := hall id hid
    have : chunkOf G id = c := by simp [chunkOf, hc]
    rw [this]
    exact (renderStatements_ok o patches _ tl _ _ hs).2.1
  · intro id hid n hn d hd
    obtain ⟨c, sl, hc, hs⟩ := hall id hid
    have hco : chunkOf G id = c := by simp [chunkOf, hc]
    rw [hco] at hn
    have hnot := (renderStatements_ok o patches _ tl _ _ hs).2.2 n hn
    intro he
    apply hnot
    have hdG := hp.mem_iff.1 hd
    obtain ⟨c', hc', hid'⟩ := List.mem_map.1 hdG
    exact List.mem_map.2 ⟨c', hc', by rw [he, ← hid']⟩
  · intro id hid d hd
    have hcG : chunkOf G id ∈ G := List.mem_of_find?_eq_some (hfound id hid)
    obtain ⟨h1, h2⟩ := hcl _ hcG d hd
    exact ⟨h1, hp.mem_iff.2 h2⟩

/-- The entry: from the first line of the script (chunk 0's label) the machine arrives at the
configuration corresponding to `(0, 0, [])`. -/
theorem entry_sim (S : Setup o patches name G isGlobal ls order) (hh : order.head? = some 0)
    (regs : Spec.Regs) (sw : String) :
    ∃ a0, AStar aw ls (.next ⟨0, [], regs, sw⟩) (.next a0) ∧
      RA o patches name G isGlobal ls order ⟨0, 0, []⟩ a0 := by
  obtain ⟨rest, hord⟩ : ∃ rest, order = [] ++ 0 :: rest := by
    cases order with
    | nil => simp at hh
    | cons x r => simp at hh; exact ⟨r, by simp [hh]⟩
  refine enter (aw := aw) hord ⟨0, [], regs, sw⟩ [] rfl ?_
  have := S.hls
  rw [List.drop_zero]
  rw [hord] at this ⊢
  simpa using this

theorem stmtLines_append (a b : List Stmt) :
    stmtLines o patches (a ++ b) = stmtLines o patches a ++ stmtLines o patches b := by
  induction a with
  | nil => rfl
  | cons s r ih => cases s <;> simp [stmtLines, ih]

theorem layout_append (jumps : List Nat) (k : Nat) (rest : List Nat) : ∀ pre : List Nat,
    ∃ P, layout o patches name G isGlobal jumps (pre ++ k :: rest) =
      P ++ layout o patches name G isGlobal jumps (k :: rest) := by
  intro pre
  induction pre with
  | nil => exact ⟨[], rfl⟩
  | cons x pre ih =>
    obtain ⟨P, hP⟩ := ih
    refine ⟨lbl name isGlobal jumps x ++
      bodyOf o patches name (chunkOf G x) (pre ++ k :: rest).head? ++ P, ?_⟩
    rw [List.cons_append, layout_cons, hP]
    simp [List.append_assoc]

/-- Lemma (a): every graph configuration `(k, off, h)` of a chunk of the table has a program
counter in the rendered lines. -/
theorem ra_exists (S : Setup o patches name G isGlobal ls order) {k : Nat} (hk : k ∈ order)
    (off : Nat) (h : Hist) (regs : Spec.Regs) (sw : String) :
    ∃ pc, RA o patches name G isGlobal ls order ⟨k, off, h⟩ ⟨pc, rh patches h, regs, sw⟩ := by
  obtain ⟨pre, rest, hord⟩ := List.append_of_mem hk
  obtain ⟨J, hJ⟩ : ∃ J, J = regsOf o patches name G order := ⟨_, rfl⟩
  have hls : ls = layout o patches name G isGlobal J order := by rw [hJ]; exact S.hls
  obtain ⟨P, hP⟩ := layout_append (o := o) (patches := patches) (name := name) (G := G)
    (isGlobal := isGlobal) J k rest pre
  have hsplit := stmtLines_append (o := o) (patches := patches)
    ((chunkOf G k).statements.take off) ((chunkOf G k).statements.drop off)
  rw [List.take_append_drop] at hsplit
  have hdec : ls = (P ++ lbl name isGlobal J k ++
      stmtLines o patches ((chunkOf G k).statements.take off)) ++
      (stmtLines o patches ((chunkOf G k).statements.drop off) ++
        ((renderBranching o patches name (chunkOf G k) rest.head?).1 ++
          (if (renderBranching o patches name (chunkOf G k) rest.head?).2.2 then [] else [.blank]) ++
          layout o patches name G isGlobal J rest)) := by
    rw [hls, hord, hP, layout_cons, bodyOf, hsplit]
    simp [List.append_assoc]
  refine ⟨(P ++ lbl name isGlobal J k ++
    stmtLines o patches ((chunkOf G k).statements.take off)).length, rfl, pre, rest, hord, ?_⟩
  show ls.drop _ = _
  rw [hdec, List.drop_left, hJ]
  rfl

/-! ### 7. Runs -/

/-- A finished graph run is matched by a finished assembly run with the corresponding outcome
and history; in particular the assembly run never ends in `runOff` or `stuck` (`ORel` relates
neither) — `no_runoff`. -/
theorem run_sim (S : Setup o patches name G isGlobal ls order) (w : SWorld)
    (C : Compat o patches name G w aw) (P : PreambleOK G) (SW : SwitchNotLast G order) :
    ∀ (n : Nat) (g : GCfg) (a : ACfg) (oc : Outcome) (h : Hist),
      RA o patches name G isGlobal ls order g a → giter w G n g = .fin oc h →
      ∃ m oc', aiter aw ls m a = .fin oc' (rh patches h) ∧ ORel patches oc oc' := by
  intro n
  induction n with
  | zero => intro g a oc h _ hg; simp [giter] at hg
  | succ n ih =>
    intro g a oc h hR hg
    obtain ⟨ra, hm, hx⟩ := sim_step (aw := aw) S w C P SW hR
    have hstar : AStar aw ls (.next a) ra := exit_star hx
    rw [giter] at hg
    cases hgs : gstep w G g with
    | next g' =>
      rw [hgs] at hg hm
      cases ra with
      | fin _ _ => simp [MatchA] at hm
      | next a' =>
        obtain ⟨m, oc', hm1, hm2⟩ := ih g' a' oc h hm hg
        have h2 := aiter_star aw ls m a'
        rw [hm1] at h2
        obtain ⟨m', hm'⟩ := star_aiter (hstar.trans h2) a rfl _ _ rfl
        exact ⟨m', oc', hm', hm2⟩
    | fin o' h' =>
      rw [hgs] at hg hm
      injection hg with e1 e2
      subst e1; subst e2
      cases ra with
      | next _ => simp [MatchA] at hm
      | fin oc' ah =>
        obtain ⟨hm1, hm2⟩ := hm
        subst hm2
        obtain ⟨m', hm'⟩ := star_aiter hstar a rfl _ _ rfl
        exact ⟨m', oc', hm', hm1⟩

/-! ### 8. The world induced by an assembly world satisfies `Compat` (C02) -/

/-- The graph-level world an assembly world induces through the documented meaning of leaves. -/
def inducedWorld (patches : List ((Nat × Nat) × String)) (aw : AWorld) : SWorld :=
  { test := fun h e => Spec.leafHolds (aw.at (rh patches h)) [] e
    caseEq := fun h op v => aw.caseEq (rh patches h) op.lit v.lit }

theorem execTest_rbc_regs (w : Spec.World) (h : Spec.Hist) (t : Nat) (e : OpExpr) (r : Spec.Regs) :
    Spec.execTest w h (renderBranchComparison o name t e) r =
      Spec.execTest w h (renderBranchComparison o name t e) {} := by
  unfold renderBranchComparison
  rw [C02.marker_exec, C02.marker_exec]
  split
  · split <;> simp [Spec.execTest]
  · split <;> simp [Spec.execTest]
  · simp [Spec.execTest]
  · simp [Spec.execTest]

variable (o patches name G) in
/-- For well-formed leaves (what the parser builds) the induced world is compatible: this is
`C02.leaf_rendering_sound`. -/
theorem compat_induced (aw : AWorld)
    (hwf : ∀ c ∈ G, ∀ t e f, c.branch = .leaf t e f → Spec.WellFormedLeaf e) :
    Compat o patches name G (inducedWorld patches aw) aw := by
  refine ⟨?_, ?_⟩
  · intro c hc t e f hb h r
    rw [execTest_rbc_regs, C02.leaf_rendering_sound _ _ _ _ _ _ (hwf c hc t e f hb)]
    rfl
  · intro c hc op cases dflt dest hb sc hsc h
    rfl

end Sim

/-! ### 9. The packaged theorem -/

/-- Chunk labels of distinct ids are distinct strings (`name`, `name_1`, `name_2`, …). -/
def LabelsInjective (name : String) : Prop :=
  ∀ i j, chunkLabel name i = chunkLabel name j → i = j

theorem repr_inj {i j : Nat} (h : Nat.repr i = Nat.repr j) : i = j := by
  have h1 := congrArg String.toList h
  simp only [Nat.toList_repr] at h1
  have h2 := congrArg (fun l => Nat.ofDigitChars 10 l 0) h1
  simpa using h2

/-- Proved, so it is not a hypothesis of `render_sim`. -/
theorem labelsInjective (name : String) : LabelsInjective name := by
  intro i j h
  unfold chunkLabel at h
  by_cases hi : i = 0 <;> by_cases hj : j = 0
  · omega
  · exfalso
    subst hi
    have h' : name = name ++ "_" ++ Nat.repr j := by simp [hj] at h; exact h
    have hl := congrArg String.length h'
    simp only [String.length_append] at hl
    have := @Nat.length_repr_pos j
    have h1 : "_".length = 1 := by decide
    omega
  · exfalso
    subst hj
    have h' : name ++ "_" ++ Nat.repr i = name := by simp [hi] at h; exact h
    have hl := congrArg String.length h'
    simp only [String.length_append] at hl
    have := @Nat.length_repr_pos i
    have h1 : "_".length = 1 := by decide
    omega
  · simp [hi, hj] at h
    exact repr_inj h

/-- **The simulation chunk graph → rendered lines.**  For a closed chunk table with pairwise
distinct ids containing 0 whose rendering succeeded (`o.markers` arbitrary, either order):
* every graph configuration `(k, off, h)` has a program counter in `ls` (`RA`);
* the first line of the script leads to the configuration corresponding to `(0, 0, [])`;
* one `gstep` from a configuration related to `a` is matched by one or more `astep`s from `a`
  reaching a related configuration — or both finish with corresponding outcomes and the same
  history; the only zero-step case is a fall-through into the chunk laid out next (`Succ`), which
  leaves `a` unchanged. -/
theorem render_sim (o : Opts) (patches : List ((Nat × Nat) × String)) (name : String)
    (G : List Chunk) (isGlobal : Bool) (tl : List String) (ls : List Line)
    (hnd : (G.map (·.id)).Nodup) (h0 : 0 ∈ G.map (·.id)) (hcl : Closed G) (hpre : PreambleOK G)
    (hr : renderChunks o patches G name isGlobal tl = .ok ls) :
    ∃ order, C05.chunkOrder o G = .ok order ∧
      (∀ k ∈ G.map (·.id), ∀ off h regs sw,
        ∃ pc, RA o patches name G isGlobal ls order ⟨k, off, h⟩ ⟨pc, rh patches h, regs, sw⟩) ∧
      (SwitchNotLast G order → ∀ (w : SWorld) (aw : AWorld), Compat o patches name G w aw →
        (∀ regs sw, ∃ a0, AStar aw ls (.next ⟨0, [], regs, sw⟩) (.next a0) ∧
          RA o patches name G isGlobal ls order ⟨0, 0, []⟩ a0) ∧
        (∀ g a, RA o patches name G isGlobal ls order g a →
          ∃ ra, MatchA o patches name G isGlobal ls order (gstep w G g) ra ∧
            (APlus aw ls a ra ∨
              (ra = .next a ∧ ∃ g', gstep w G g = .next g' ∧ Succ order g.k g'.k))) ∧
        (∀ n g a oc h, RA o patches name G isGlobal ls order g a → giter w G n g = .fin oc h →
          ∃ m oc', aiter aw ls m a = .fin oc' (rh patches h) ∧ ORel patches oc oc')) := by
  obtain ⟨order, ho, hh, S⟩ := setup_of_render o patches name G isGlobal ls tl hnd h0 hcl
    (labelsInjective name) hr
  obtain ⟨hp, _⟩ := C05.chunkOrder_perm o G order h0 ho
  refine ⟨order, ho, ?_, ?_⟩
  · intro k hk off h regs sw
    exact ra_exists S (hp.mem_iff.2 hk) off h regs sw
  · intro SW w aw C
    exact ⟨fun regs sw => entry_sim (aw := aw) S hh regs sw,
      fun g a hR => sim_step (aw := aw) S w C hpre SW hR,
      run_sim (aw := aw) S w C hpre SW⟩

/-! ### 9b. `SwitchNotLast` for the unoptimised order -/

theorem getLast_max : ∀ {l : List Nat}, l.Pairwise (· ≤ ·) → ∀ {m}, l.getLast? = some m →
    ∀ x ∈ l, x ≤ m := by
  intro l
  induction l with
  | nil => intro _ m _ x hx; cases hx
  | cons a t ih =>
    intro hs m hl x hx
    rw [List.pairwise_cons] at hs
    cases t with
    | nil =>
      simp at hl hx
      omega
    | cons b t' =>
      rw [List.getLast?_cons_cons] at hl
      rcases List.mem_cons.1 hx with rfl | hx
      · have hm : m ∈ b :: t' := List.mem_of_getLast? hl
        exact hs.1 m hm
      · exact ih hs.2 hl x hx

/-- In the sorted (unoptimised) order a `switch` chunk is not last as soon as some chunk has a
larger id — for emitter-built tables: its case-body chunks, allocated after it. -/
theorem switchNotLast_sorted (G : List Chunk)
    (h : ∀ c ∈ G, ∀ op cases, c.branch = .switch_ op cases none none →
      ∃ d ∈ G.map (·.id), c.id < d) :
    SwitchNotLast G (sortNat (G.map (·.id))) := by
  intro c hc op cases hb hlast
  obtain ⟨d, hd, hlt⟩ := h c hc op cases hb
  have := getLast_max (C05.sortNat_sorted _) hlast d ((C05.sortNat_perm _).mem_iff.2 hd)
  omega

/-! ### 10. Non-vacuity and the `switch` finding -/

/-- A chunk table with a leaf test, a `switch` with a return chunk, shared continuation chunks. -/
def demoG : List Chunk :=
  [ { id := 0, statements := [.cmd { id := 1, name := "lock" }], branch := .jump 1 },
    { id := 1, branch := .leaf 2 { type := .FLAG, operator := .EQ, cmpValue := "TRUE",
                                   operand := { lit := "F" } } (some 3) },
    { id := 2, statements := [.cmd { id := 2, name := "msgbox" }], returnID := some 3 },
    { id := 3, branch := .switch_ { lit := "VAR_X" } [{ value := { lit := "1" }, dest := 4 }] none (some 5) },
    { id := 4, statements := [.cmd { id := 3, name := "foo" }], returnID := some 5 },
    { id := 5, statements := [.cmd { id := 4, name := "release" }] } ]

def demoLs (optimize : Bool) : List Line :=
  match renderChunks { optimize := optimize } [] demoG "S" true [] with
  | .ok l => l
  | .error _ => []

theorem demoG_closed : Closed demoG := by
  unfold Closed demoG
  simp [targets]

theorem demoG_preamble : PreambleOK demoG := by
  intro c hc t e f p hb hp
  simp [demoG] at hc
  rcases hc with rfl | rfl | rfl | rfl | rfl | rfl <;> simp at hb
  obtain ⟨_, rfl, _⟩ := hb
  simp at hp

theorem demoG_wf : ∀ c ∈ demoG, ∀ t e f, c.branch = .leaf t e f → Spec.WellFormedLeaf e := by
  intro c hc t e f hb
  simp [demoG] at hc
  rcases hc with rfl | rfl | rfl | rfl | rfl | rfl <;> simp at hb
  obtain ⟨_, rfl, _⟩ := hb
  right
  exact ⟨Or.inl rfl, Or.inl rfl, Or.inl (by decide)⟩

theorem demoG_order : C05.chunkOrder { optimize := true } demoG = .ok [0, 1, 3, 5, 2, 4] := by
  simp [C05.chunkOrder, optimizeChunkOrder, demoG, optimizeLoop, optimizeLoop.pick, scanUnvisited,
    findChunk, tailId]

theorem demo_render (b : Bool) :
    renderChunks { optimize := b } [] demoG "S" true [] = .ok (demoLs b) := by
  cases b
  · rfl
  · unfold demoLs
    rw [C05.renderChunks_eq, demoG_order]
    rfl

/-- `render_sim` applies to `demoG` in both orders. -/
example (b : Bool) := render_sim { optimize := b } [] "S" demoG true [] (demoLs b)
  (by decide) (by decide) demoG_closed demoG_preamble (demo_render b)

/-- …and its inner hypotheses are satisfiable: the induced world is compatible. -/
example (aw : AWorld) (b : Bool) : Compat { optimize := b } [] "S" demoG (inducedWorld [] aw) aw :=
  compat_induced _ _ _ _ aw demoG_wf

/-- A `switch` without default and without return chunk that is *not* last: `SwitchNotLast`
holds non-vacuously (both orders are `[0, 1, 2]`), and the switch chunk ends in `return`. -/
def demoSw : List Chunk :=
  [ { id := 0, branch := .jump 1 },
    { id := 1, branch := .switch_ { lit := "VAR_X" } [{ value := { lit := "1" }, dest := 2 }] none none },
    { id := 2, statements := [.cmd { id := 1, name := "foo" }] } ]

example : SwitchNotLast demoSw [0, 1, 2] ∧ SwitchNotLast demoSw (sortNat (demoSw.map (·.id))) ∧
    renderChunks { optimize := false } [] demoSw "S" true [] =
      .ok [.labelDef "S" true, .switch_ "VAR_X", .case_ "1" "S_2", .terminator false, .blank,
           .labelDef "S_2" false, .command "foo" [], .terminator false, .blank] := by
  refine ⟨?_, switchNotLast_sorted _ ?_, rfl⟩
  · intro c hc op cases hb
    simp [demoSw] at hc
    rcases hc with rfl | rfl | rfl <;> simp at hb ⊢
  · intro c hc op cases hb
    simp [demoSw] at hc
    rcases hc with rfl | rfl | rfl <;> simp at hb ⊢
    exact ⟨2, by simp [demoSw], by decide⟩

/-- **Finding (`no_runoff`).**  `Closed` does not exclude a `switch` chunk without default and
without return chunk being laid out last; then `renderBranching` emits neither `return` nor
`goto` (its `dest != next` test compares `none` with `none`) and the assembly runs off the end
of the script, while the graph machine returns.  The emitter never builds such a table (a
`switch` chunk always has a body chunk with a larger id that is laid out after it), which is
what the hypothesis `SwitchNotLast` records. -/
def badG : List Chunk :=
  [ { id := 0, branch := .jump 2 },
    { id := 1, statements := [.cmd { id := 1, name := "foo" }] },
    { id := 2, branch := .switch_ { lit := "VAR_X" } [{ value := { lit := "1" }, dest := 1 }] none none } ]

def badLs : List Line :=
  match renderChunks { optimize := false } [] badG "S" true [] with
  | .ok l => l
  | .error _ => []

def noMatch : AWorld :=
  { flag := fun _ _ => false, trainer := fun _ _ => false, cmp := fun _ _ _ => 0, caseEq := fun _ _ _ => false }

example : Closed badG ∧ PreambleOK badG ∧
    renderChunks { optimize := false } [] badG "S" true [] = .ok badLs ∧
    ¬ SwitchNotLast badG [0, 1, 2] ∧
    (match giter (inducedWorld [] noMatch) badG 5 ⟨0, 0, []⟩ with
      | .fin o _ => some o | .next _ => none) = some .ret ∧
    (match aiter noMatch badLs 10 ⟨0, [], {}, ""⟩ with
      | .fin o _ => some o | .next _ => none) = some .runOff := by
  refine ⟨by unfold Closed badG; simp [targets], ?_, rfl, ?_, by decide, by decide⟩
  · intro c hc t e f p hb hp
    simp [badG] at hc
    rcases hc with rfl | rfl | rfl <;> simp at hb
  · intro h
    exact h _ (by simp [badG]; right; right; rfl) _ _ rfl rfl

end Pory.RenderSim
