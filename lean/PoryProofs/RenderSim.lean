import PoryProofs.AsmSem
import PoryProofs.EmitLemmas
import PoryProofs.Properties.C05
import PoryProofs.Properties.C02
namespace Pory.RenderSim
open Pory Pory.Emit Pory.Sem Pory.Asm

/-! ### 1. Total versions of the renderers and the decomposition of `renderChunks` -/

section Layout
variable (o : Opts) (patches : List ((Nat × Nat) × String)) (name : String) (G : List Chunk)
  (isGlobal : Bool)

/-- Lines of a straight-line statement list (what `renderStatements` returns when it succeeds). -/
def stmtLines : List Stmt → List Line
  | [] => []
  | .cmd c :: r => marker o c.tok ++ [renderCommand patches c] ++ stmtLines r
  | .label tok n g :: r => marker o tok ++ [.labelDef n g] ++ stmtLines r
  | _ :: r => stmtLines r

def isSimple : Stmt → Bool
  | .cmd _ => true
  | .label .. => true
  | _ => false

theorem renderStatements_ok (cl tl : List String) : ∀ (ss : List Stmt) (ls : List Line),
    renderStatements o patches cl tl ss = .ok ls →
    ls = stmtLines o patches ss ∧ (∀ s ∈ ss, isSimple s = true) ∧
      ∀ n ∈ stmtLabels ss, n.1 ∉ cl := by
  intro ss
  induction ss with
  | nil => intro ls h; simp [renderStatements] at h; subst h; simp [stmtLines, stmtLabels]
  | cons s r ih =>
    intro ls h
    cases s with
    | cmd c =>
      simp only [renderStatements] at h
      split at h
      · simp at h
      · next ls' hr =>
        simp at h; subst h
        obtain ⟨h1, h2, h3⟩ := ih ls' hr
        subst h1
        exact ⟨by simp [stmtLines], by simpa [isSimple] using h2, by simpa [stmtLabels] using h3⟩
    | label tok n g =>
      simp only [renderStatements] at h
      split at h
      · simp at h
      · next hn =>
        split at h
        · simp at h
        · split at h
          · simp at h
          · next ls' hr =>
            simp at h; subst h
            obtain ⟨h1, h2, h3⟩ := ih ls' hr
            subst h1
            refine ⟨by simp [stmtLines], by simpa [isSimple] using h2, ?_⟩
            intro x hx
            simp only [stmtLabels, List.mem_cons] at hx
            rcases hx with rfl | hx
            · simpa using hn
            · exact h3 x hx
    | ite => simp [renderStatements] at h
    | while_ => simp [renderStatements] at h
    | doWhile => simp [renderStatements] at h
    | brk => simp [renderStatements] at h
    | cont => simp [renderStatements] at h
    | switch_ => simp [renderStatements] at h

/-- The chunk with this id (a default chunk if there is none). -/
def chunkOf (id : Nat) : Chunk := (findChunk G id).getD default

/-- Body of a chunk when the chunk laid out after it is `next`. -/
def bodyOf (c : Chunk) (next : Option Nat) : List Line :=
  stmtLines o patches c.statements ++ (renderBranching o patches name c next).1 ++
    (if (renderBranching o patches name c next).2.2 then [] else [.blank])

/-- The label line of a chunk: only for the entry chunk and registered jump targets. -/
def lbl (jumps : List Nat) (id : Nat) : List Line :=
  if id == 0 || jumps.contains id then [Line.labelDef (chunkLabel name id) (id == 0 && isGlobal)] else []

/-- The lines of the chunks with ids `order`, in that order. -/
def layout (jumps : List Nat) : List Nat → List Line
  | [] => []
  | id :: rest =>
    lbl name isGlobal jumps id ++ bodyOf o patches name (chunkOf G id) rest.head? ++ layout jumps rest

theorem layout_cons (jumps : List Nat) (id : Nat) (rest : List Nat) :
    layout o patches name G isGlobal jumps (id :: rest) =
      lbl name isGlobal jumps id ++ bodyOf o patches name (chunkOf G id) rest.head? ++
        layout o patches name G isGlobal jumps rest := rfl

/-- Jump targets registered by the chunks of `order`. -/
def regsOf : List Nat → List Nat
  | [] => []
  | id :: rest => (renderBranching o patches name (chunkOf G id) rest.head?).2.1 ++ regsOf rest

theorem renderBodies_ok (cl tl : List String) (jumps : List Nat) :
    ∀ (order : List Nat) (bodies : List (Nat × List Line)) (regs : List Nat),
      renderBodies o patches name G cl tl order = .ok (bodies, regs) →
      regs = regsOf o patches name G order ∧
      (bodies.flatMap fun (id, ls) =>
        (if id == 0 || jumps.contains id then
          [Line.labelDef (chunkLabel name id) (id == 0 && isGlobal)] else []) ++ ls)
        = layout o patches name G isGlobal jumps order ∧
      ∀ id ∈ order, ∃ c sl, findChunk G id = some c ∧
        renderStatements o patches cl tl c.statements = .ok sl := by
  intro order
  induction order with
  | nil =>
    intro bodies regs h
    simp [renderBodies] at h
    obtain ⟨rfl, rfl⟩ := h
    simp [regsOf, layout]
  | cons id rest ih =>
    intro bodies regs h
    simp only [renderBodies] at h
    split at h
    · simp at h
    · next c hc =>
      split at h
      · simp at h
      · next sl hs =>
        split at h
        · simp at h
        · next bodies' regs' hb =>
          simp at h
          obtain ⟨rfl, rfl⟩ := h
          obtain ⟨ih1, ih2, ih3⟩ := ih bodies' regs' hb
          have hco : chunkOf G id = c := by simp [chunkOf, hc]
          obtain ⟨hsl, _, _⟩ := renderStatements_ok o patches cl tl _ _ hs
          refine ⟨?_, ?_, ?_⟩
          · simp [regsOf, hco, ih1]
          · simp only [List.flatMap_cons, ih2, layout, lbl, bodyOf, hco, hsl, List.append_assoc]
          · intro x hx
            rcases List.mem_cons.1 hx with rfl | hx
            · exact ⟨c, sl, hc, hs⟩
            · exact ih3 x hx

/-- Lemma (a), global form: a successful `renderChunks` is the `layout` of the chunk order, with
the registered targets of that order as label set; every chunk of the order exists and its
statements render. -/
theorem renderChunks_ok (tl : List String) (ls : List Line)
    (h : renderChunks o patches G name isGlobal tl = .ok ls) :
    ∃ order, C05.chunkOrder o G = .ok order ∧
      ls = layout o patches name G isGlobal (regsOf o patches name G order) order ∧
      ∀ id ∈ order, ∃ c sl, findChunk G id = some c ∧
        renderStatements o patches (G.map fun c => chunkLabel name c.id) tl c.statements = .ok sl := by
  rw [C05.renderChunks_eq] at h
  cases ho : C05.chunkOrder o G with
  | error e => simp [ho] at h
  | ok order =>
    simp only [ho] at h
    split at h
    · simp at h
    · next bodies jumps hb =>
      injection h with h
      obtain ⟨h1, h2, h3⟩ := renderBodies_ok o patches name G isGlobal _ tl jumps order bodies jumps hb
      refine ⟨order, rfl, ?_, h3⟩
      rw [← h, ← h1]
      exact h2

/-! ### 2. `renderBranching` through one "exit" shape -/

/-- How a chunk leaves towards `dest` when the chunk laid out next is `next`:
`return`, an explicit `goto`, or nothing (fall through). -/
def exitTo (dest next : Option Nat) : List Line × List Nat × Bool :=
  match dest with
  | none => ([.terminator false], [], false)
  | some d => if some d != next then ([.goto_ (jumpLabel name d)], [d], false) else ([], [], true)

def prepend (pre : List Line) (reg : List Nat) (x : List Line × List Nat × Bool) :
    List Line × List Nat × Bool := (pre ++ x.1, reg ++ x.2.1, x.2.2)

def preambleLines (e : OpExpr) : List Line :=
  match e.preamble with | some p => [renderCommand patches p] | none => []

def caseLines (cases : List SwitchCaseBranch) : List Line :=
  cases.flatMap fun sc => marker o sc.value ++ [.case_ sc.value.lit (jumpLabel name sc.dest)]

theorem renderBranching_eq (c : Chunk) (next : Option Nat) :
    renderBranching o patches name c next =
      match c.branch with
      | .none =>
        (match c.returnID with
         | none => ([.terminator c.useEndTerminator], [], false)
         | some r => exitTo name (some r) next)
      | .jump d => exitTo name (some d) next
      | .breakCtx d => exitTo name d next
      | .leaf t e f =>
        prepend (preambleLines patches e ++ renderBranchComparison o name t e) [t] (exitTo name f next)
      | .switch_ op cases dflt dest =>
        prepend (marker o op ++ [.switch_ op.lit] ++ caseLines o name cases) (cases.map (·.dest))
          (match dflt with
           | some d => exitTo name (some d) next
           | none => if dest = none ∧ next = none then ([], [], true) else exitTo name dest next) := by
  unfold renderBranching
  cases c.branch with
  | none => cases c.returnID <;> simp [exitTo]
  | jump d => simp [exitTo]
  | breakCtx d => cases d <;> simp [exitTo]
  | leaf t e f =>
    cases f with
    | none => simp [exitTo, prepend, preambleLines]; cases e.preamble <;> rfl
    | some d =>
      simp only [exitTo, prepend, preambleLines]
      split <;> simp <;> cases e.preamble <;> rfl
  | switch_ op cases dflt dest =>
    cases dflt with
    | some d =>
      simp only [exitTo, prepend, caseLines]
      split <;> simp
    | none =>
      cases dest with
      | none =>
        cases next with
        | none => simp [prepend, caseLines]
        | some n => simp [exitTo, prepend, caseLines]
      | some d =>
        simp only [exitTo, prepend, caseLines]
        split <;> simp

/-! ### 3. Labels of the layout and label lookup -/

theorem labelsOf_stmtLines (ss : List Stmt) : labelsOf (stmtLines o patches ss) = stmtLabels ss := by
  induction ss with
  | nil => rfl
  | cons s r ih =>
    cases s <;> simp [stmtLines, stmtLabels, labelsOf_cons, labelOf, renderCommand, ih]

theorem labelsOf_bodyOf (c : Chunk) (next : Option Nat) :
    labelsOf (bodyOf o patches name c next) = stmtLabels c.statements := by
  simp only [bodyOf, labelsOf_append, labelsOf_stmtLines, labelsOf_renderBranching]
  split <;> simp [labelsOf, labelOf]

theorem findLabel_append (A B : List Line) (L : String) (h : ∀ g, (L, g) ∉ labelsOf A) :
    findLabel (A ++ B) L = (findLabel B L).map (· + A.length) := by
  induction A with
  | nil => simp
  | cons a A ih =>
    have ih' := ih (fun g hg => h g (by
      rw [labelsOf_cons]; split
      · exact List.mem_cons_of_mem _ hg
      · exact hg))
    have hcomp : (fun x => x + A.length + 1) = (fun x => x + (A.length + 1)) := by
      funext x; omega
    cases a with
    | labelDef n g' =>
      have hn : n ≠ L := by
        intro e; subst e
        exact h g' (by simp)
      simp [findLabel, hn, ih', Option.map_map, Function.comp_def, hcomp]
    | _ => simp [findLabel, ih', Option.map_map, Function.comp_def, hcomp]

theorem drop_append_length_add {α} (A B : List α) (p : Nat) :
    (A ++ B).drop (p + A.length) = B.drop p := by
  rw [Nat.add_comm, ← List.drop_drop]
  simp

/-- Lemma (c), list form: if no chunk laid out before `d` defines `L` and `d`'s label line is
`L`, then looking `L` up finds the start of `d`'s part of the layout. -/
theorem findLabel_layout (jumps : List Nat) (L : String) (g : Bool) (d : Nat) (rest : List Nat)
    (hl : lbl name isGlobal jumps d = [Line.labelDef L g]) :
    ∀ pre : List Nat,
      (∀ x ∈ pre, (∀ g', lbl name isGlobal jumps x ≠ [Line.labelDef L g']) ∧
        ∀ n ∈ stmtLabels (chunkOf G x).statements, n.1 ≠ L) →
      ∃ p, findLabel (layout o patches name G isGlobal jumps (pre ++ d :: rest)) L = some p ∧
        (layout o patches name G isGlobal jumps (pre ++ d :: rest)).drop p =
          layout o patches name G isGlobal jumps (d :: rest) := by
  intro pre
  induction pre with
  | nil =>
    intro _
    refine ⟨0, ?_, rfl⟩
    simp [layout, hl, findLabel]
  | cons x pre ih =>
    intro hx
    obtain ⟨p, hp1, hp2⟩ := ih (fun y hy => hx y (List.mem_cons_of_mem _ hy))
    obtain ⟨hx1, hx2⟩ := hx x (by simp)
    refine ⟨p + (lbl name isGlobal jumps x ++
      bodyOf o patches name (chunkOf G x) (pre ++ d :: rest).head?).length, ?_, ?_⟩
    · rw [List.cons_append, layout_cons, findLabel_append, hp1]
      · rfl
      · intro g' hg'
        rw [labelsOf_append, labelsOf_bodyOf, List.mem_append] at hg'
        rcases hg' with hg' | hg'
        · unfold lbl at hg' hx1
          split at hg'
          · simp [labelsOf_cons, labelOf] at hg'
            rename_i hc
            apply hx1 g'
            rw [if_pos hc, hg'.1, hg'.2]
          · simp at hg'
        · exact hx2 _ hg' rfl
    · rw [List.cons_append, layout_cons, drop_append_length_add, hp2]

end Layout

/-! ### 4. Running the machine over a known stretch of lines -/

section Machine
variable (aw : AWorld) (ls : List Line)

theorem drop_head {α} {l : List α} {pc : Nat} {x : α} {X : List α} (h : l.drop pc = x :: X) :
    l[pc]? = some x ∧ l.drop (pc + 1) = X := by
  constructor
  · have := List.getElem?_drop (xs := l) (i := pc) (j := 0)
    rw [h] at this
    simpa using this.symm
  · rw [← List.drop_drop, h]; rfl

theorem astep_of_drop {c : ACfg} {x : Line} {X : List Line} (h : ls.drop c.pc = x :: X) :
    astep aw ls c = exec aw ls c x := by
  unfold astep
  rw [(drop_head h).1]

theorem astep_runOff {c : ACfg} (h : ls.drop c.pc = []) : astep aw ls c = .fin .runOff c.h := by
  unfold astep
  have : ls.length ≤ c.pc := List.drop_eq_nil_iff.1 h
  rw [List.getElem?_eq_none this]

/-- A line marker (present or not) is skipped. -/
theorem skip_marker (o : Opts) (t : Tok) {c : ACfg} {X : List Line}
    (h : ls.drop c.pc = marker o t ++ X) :
    ∃ pc', AStar aw ls (.next c) (.next { c with pc := pc' }) ∧ ls.drop pc' = X := by
  unfold marker at h
  split at h
  · refine ⟨c.pc + 1, .step ?_, (drop_head h).2⟩
    rw [astep_of_drop aw ls h]
    exact .refl _
  · exact ⟨c.pc, .refl _, h⟩

def isTestLine : Line → Bool
  | .marker .. => true
  | .gotoIfSet .. => true
  | .gotoIfUnset .. => true
  | .compare .. => true
  | .gotoIfCmp .. => true
  | .checkTrainerFlag .. => true
  | .gotoIfTrainer .. => true
  | _ => false

/-- A block of test lines executes as `Spec.execTest` says: either one of its conditional jumps
is taken, or control arrives behind the block; history and switch register are unchanged. -/
theorem test_block : ∀ (b : List Line) (X : List Line) (c : ACfg), (∀ l ∈ b, isTestLine l = true) →
    ls.drop c.pc = b ++ X →
    ∃ r, AStar aw ls (.next c) r ∧
      match Spec.execTest (aw.at c.h) [] b c.regs with
      | some l => ∃ regs', r = jumpTo ls l ⟨0, c.h, regs', c.sw⟩
      | none => ∃ pc' regs', r = .next ⟨pc', c.h, regs', c.sw⟩ ∧ ls.drop pc' = X := by
  intro b
  induction b with
  | nil =>
    intro X c _ h
    exact ⟨_, .refl _, by simp only [Spec.execTest]; exact ⟨c.pc, c.regs, rfl, h⟩⟩
  | cons l b ih =>
    intro X c hb h
    have hb' : ∀ l ∈ b, isTestLine l = true := fun l hl => hb l (List.mem_cons_of_mem _ hl)
    have hl := hb l (by simp)
    have hd := drop_head (show ls.drop c.pc = l :: (b ++ X) from h)
    have hs := astep_of_drop aw ls (show ls.drop c.pc = l :: (b ++ X) from h)
    cases l with
    | marker n f =>
      obtain ⟨r, hr1, hr2⟩ := ih X { c with pc := c.pc + 1 } hb' hd.2
      exact ⟨r, .step (by rw [hs]; exact hr1), by simpa [Spec.execTest] using hr2⟩
    | gotoIfSet f lab =>
      by_cases hf : aw.flag c.h f = true
      · refine ⟨_, .step (.refl _), ?_⟩
        simp only [Spec.execTest, AWorld.at, hf, if_true]
        exact ⟨c.regs, by rw [hs]; simp [exec, hf]; rfl⟩
      · obtain ⟨r, hr1, hr2⟩ := ih X { c with pc := c.pc + 1 } hb' hd.2
        refine ⟨r, .step (by rw [hs]; simpa [exec, hf, fallThrough] using hr1), ?_⟩
        simpa [Spec.execTest, AWorld.at, hf] using hr2
    | gotoIfUnset f lab =>
      by_cases hf : aw.flag c.h f = true
      · obtain ⟨r, hr1, hr2⟩ := ih X { c with pc := c.pc + 1 } hb' hd.2
        refine ⟨r, .step (by rw [hs]; simpa [exec, hf, fallThrough] using hr1), ?_⟩
        simpa [Spec.execTest, AWorld.at, hf] using hr2
      · refine ⟨_, .step (.refl _), ?_⟩
        simp only [Spec.execTest, AWorld.at, hf]
        exact ⟨c.regs, by rw [hs]; simp [exec, hf]; rfl⟩
    | compare st v x =>
      obtain ⟨r, hr1, hr2⟩ := ih X { c with pc := c.pc + 1, regs := { c.regs with cmp := aw.cmp c.h v x } } hb' hd.2
      refine ⟨r, .step (by rw [hs]; simpa [exec, fallThrough] using hr1), ?_⟩
      simpa [Spec.execTest, AWorld.at] using hr2
    | gotoIfCmp op lab =>
      by_cases hf : Spec.cmpHolds op c.regs.cmp = true
      · refine ⟨_, .step (.refl _), ?_⟩
        simp only [Spec.execTest, hf, if_true]
        exact ⟨c.regs, by rw [hs]; simp [exec, hf]; rfl⟩
      · obtain ⟨r, hr1, hr2⟩ := ih X { c with pc := c.pc + 1 } hb' hd.2
        refine ⟨r, .step (by rw [hs]; simpa [exec, hf, fallThrough] using hr1), ?_⟩
        simpa [Spec.execTest, hf] using hr2
    | checkTrainerFlag t =>
      obtain ⟨r, hr1, hr2⟩ := ih X { c with pc := c.pc + 1, regs := { c.regs with trainer := aw.trainer c.h t } } hb' hd.2
      refine ⟨r, .step (by rw [hs]; simpa [exec, fallThrough] using hr1), ?_⟩
      simpa [Spec.execTest, AWorld.at] using hr2
    | gotoIfTrainer set lab =>
      by_cases hf : (c.regs.trainer == set) = true
      · refine ⟨_, .step (.refl _), ?_⟩
        simp only [Spec.execTest, hf, if_true]
        exact ⟨c.regs, by rw [hs]; simp [exec, hf]; rfl⟩
      · obtain ⟨r, hr1, hr2⟩ := ih X { c with pc := c.pc + 1 } hb' hd.2
        refine ⟨r, .step (by rw [hs]; simpa [exec, hf, fallThrough] using hr1), ?_⟩
        simpa [Spec.execTest, hf] using hr2
    | _ => simp [isTestLine] at hl

end Machine

/-! ### 5. The simulation relation -/

/-- Chunk ids control can go to from a chunk (what `gstep` can produce). -/
def targets (c : Chunk) : List Nat :=
  match c.branch with
  | .none => c.returnID.toList
  | .jump d => [d]
  | .breakCtx d => d.toList
  | .leaf t _ f => t :: f.toList
  | .switch_ _ cases dflt dest => cases.map (·.dest) ++ dflt.toList ++ dest.toList

/-- The chunk table is closed: every target is the id of a chunk of the table, and is not the
entry chunk 0 (the entry's label is the bare script name, generated jumps use `name_<id>`). -/
def Closed (G : List Chunk) : Prop :=
  ∀ c ∈ G, ∀ d ∈ targets c, d ≠ 0 ∧ d ∈ G.map (·.id)

/-- Outcomes correspond; the arguments of a finishing user `goto` are the patched arguments. -/
def ORel (patches : List ((Nat × Nat) × String)) : Outcome → AOutcome → Prop
  | .ret, .ret => True
  | .end_, .end_ => True
  | .jump a, .jump a' => ∃ c : Cmd, a = c.args ∧ a' = patchedArgs patches c
  | _, _ => False

section Sim
variable (o : Opts) (patches : List ((Nat × Nat) × String)) (name : String) (G : List Chunk)
  (isGlobal : Bool) (aw : AWorld) (ls : List Line) (order : List Nat)

/-- The graph history as the assembly machine records it. -/
abbrev rh (h : Hist) : AHist := h.map (renderCommand patches)

/-- What follows the statement lines of chunk `c` when the chunks `rest` are laid out after it. -/
def brTail (c : Chunk) (rest : List Nat) : List Line :=
  (renderBranching o patches name c rest.head?).1 ++
    (if (renderBranching o patches name c rest.head?).2.2 then [] else [.blank]) ++
    layout o patches name G isGlobal (regsOf o patches name G order) rest

/-- Graph configuration `(k, off, h)` ↔ the program counter stands at the first line (marker
included) of statement `off` of chunk `k` — or, when `off` is past the statements, at the first
branching line of the chunk; histories agree up to rendering. -/
def RA (g : GCfg) (a : ACfg) : Prop :=
  a.h = rh patches g.h ∧ ∃ pre rest, order = pre ++ g.k :: rest ∧
    ls.drop a.pc = stmtLines o patches ((chunkOf G g.k).statements.drop g.o) ++
      brTail o patches name G isGlobal order (chunkOf G g.k) rest

def MatchA : Res GCfg → ARes → Prop
  | .next g, .next a => RA o patches name G isGlobal ls order g a
  | .fin oc h, .fin oc' h' => ORel patches oc oc' ∧ h' = rh patches h
  | _, _ => False

variable {o patches name G isGlobal ls order} in
theorem matchA_next {g : GCfg} {a : ACfg} (h : RA o patches name G isGlobal ls order g a) :
    MatchA o patches name G isGlobal ls order (.next g) (.next a) := h

/-- Facts about one successful rendering that the simulation uses (all derived from the
hypotheses of `render_sim` in `setup_of_render`). -/
structure Setup : Prop where
  hls : ls = layout o patches name G isGlobal (regsOf o patches name G order) order
  nodup : order.Nodup
  found : ∀ id ∈ order, findChunk G id = some (chunkOf G id)
  simple : ∀ id ∈ order, ∀ s ∈ (chunkOf G id).statements, isSimple s = true
  hyg : ∀ id ∈ order, ∀ n ∈ stmtLabels (chunkOf G id).statements, ∀ d ∈ order, n.1 ≠ chunkLabel name d
  inj : ∀ i j, chunkLabel name i = chunkLabel name j → i = j
  closed : ∀ id ∈ order, ∀ d ∈ targets (chunkOf G id), d ≠ 0 ∧ d ∈ order

theorem regsOf_mem (k : Nat) (rest : List Nat) : ∀ (pre : List Nat),
    ∀ d ∈ (renderBranching o patches name (chunkOf G k) rest.head?).2.1,
      d ∈ regsOf o patches name G (pre ++ k :: rest) := by
  intro pre
  induction pre with
  | nil => intro d hd; simp [regsOf, hd]
  | cons x pre ih => intro d hd; simp only [List.cons_append, regsOf, List.mem_append]; right; exact ih d hd

variable {o patches name G isGlobal aw ls order}

/-- Arriving at the start of chunk `d`'s part of the layout: skip its label line if it has one. -/
theorem enter {pre rest : List Nat} {d : Nat} (hord : order = pre ++ d :: rest) (c : ACfg) (gh : Hist)
    (hh : c.h = rh patches gh)
    (hdrop : ls.drop c.pc = layout o patches name G isGlobal (regsOf o patches name G order) (d :: rest)) :
    ∃ a', AStar aw ls (.next c) (.next a') ∧ RA o patches name G isGlobal ls order ⟨d, 0, gh⟩ a' := by
  rw [layout_cons] at hdrop
  unfold lbl at hdrop
  split at hdrop
  · simp only [List.cons_append, List.nil_append, List.append_assoc] at hdrop
    refine ⟨{ c with pc := c.pc + 1 }, .step ?_, hh, pre, rest, hord, ?_⟩
    · rw [astep_of_drop aw ls hdrop]; exact .refl _
    · rw [(drop_head hdrop).2]
      simp [bodyOf, brTail, List.append_assoc]
  · refine ⟨c, .refl _, hh, pre, rest, hord, ?_⟩
    rw [hdrop]
    simp [bodyOf, brTail, List.append_assoc]

/-- Lemma (c): an explicit jump to a registered chunk of the order lands on its label line and
from there at the chunk's first statement. -/
theorem land_jump (S : Setup o patches name G isGlobal ls order) {d : Nat} (hd : d ∈ order)
    (hd0 : d ≠ 0) (hdj : d ∈ regsOf o patches name G order) (c : ACfg) (gh : Hist)
    (hh : c.h = rh patches gh) :
    ∃ a', AStar aw ls (jumpTo ls (jumpLabel name d) c) (.next a') ∧
      RA o patches name G isGlobal ls order ⟨d, 0, gh⟩ a' := by
  obtain ⟨pre, rest, hord⟩ := List.append_of_mem hd
  have hcl : chunkLabel name d = jumpLabel name d := by simp [chunkLabel, jumpLabel, hd0]
  have hl : lbl name isGlobal (regsOf o patches name G order) d =
      [Line.labelDef (jumpLabel name d) (d == 0 && isGlobal)] := by
    simp [lbl, hdj, hcl]
  have hnd := S.nodup
  rw [hord] at hnd
  have hdpre : d ∉ pre := by
    intro hmem
    have := (List.nodup_append.1 hnd).2.2 d hmem d (by simp)
    exact this rfl
  obtain ⟨p, hp1, hp2⟩ := findLabel_layout o patches name G isGlobal (regsOf o patches name G order)
    (jumpLabel name d) _ d rest hl pre (by
      intro x hx
      have hxo : x ∈ order := by rw [hord]; simp [hx]
      refine ⟨?_, ?_⟩
      · intro g' he
        unfold lbl at he
        split at he
        · simp only [List.cons.injEq, Line.labelDef.injEq, and_true] at he
          have := S.inj x d (by rw [hcl]; exact he.1)
          exact hdpre (this ▸ hx)
        · cases he
      · intro n hn
        rw [← hcl]
        exact S.hyg x hxo n hn d hd)
  rw [← hord, ← S.hls] at hp1 hp2
  have hj : jumpTo ls (jumpLabel name d) c = .next { c with pc := p } := by simp [jumpTo, hp1]
  rw [hj]
  exact enter (aw := aw) hord { c with pc := p } gh hh hp2

/-- Leaving a chunk towards `dest` (`return` / explicit `goto` / fall-through, lemma (b)):
matches `Sem.goto dest`. -/
theorem exit_sim (S : Setup o patches name G isGlobal ls order) {pre rest : List Nat} {k : Nat}
    (hord : order = pre ++ k :: rest) (dest : Option Nat)
    (hdest : ∀ d, dest = some d → d ≠ 0 ∧ d ∈ order)
    (hreg : ∀ d ∈ (exitTo name dest rest.head?).2.1, d ∈ regsOf o patches name G order)
    (c : ACfg) (gh : Hist) (hh : c.h = rh patches gh)
    (hdrop : ls.drop c.pc = (exitTo name dest rest.head?).1 ++
      (if (exitTo name dest rest.head?).2.2 then [] else [.blank]) ++
      layout o patches name G isGlobal (regsOf o patches name G order) rest) :
    ∃ ra, AStar aw ls (.next c) ra ∧ MatchA o patches name G isGlobal ls order (goto dest gh) ra := by
  cases dest with
  | none =>
    simp only [exitTo] at hdrop
    refine ⟨.fin .ret c.h, .step ?_, ?_⟩
    · rw [astep_of_drop aw ls (by simpa using hdrop)]; exact .refl _
    · simp [goto, MatchA, ORel, hh]
  | some d =>
    obtain ⟨hd0, hdo⟩ := hdest d rfl
    unfold exitTo at hdrop hreg
    simp only at hdrop hreg
    split at hdrop
    · rename_i hne
      rw [if_pos hne] at hreg
      obtain ⟨a', hs, hr⟩ := land_jump (aw := aw) S hdo hd0 (hreg d (by simp)) c gh hh
      refine ⟨.next a', .step ?_, hr⟩
      rw [astep_of_drop aw ls (by simpa using hdrop)]
      exact hs
    · rename_i hne
      have hhead : rest.head? = some d := by
        have : some d = rest.head? := by simpa using hne
        exact this.symm
      obtain ⟨rest', rfl⟩ : ∃ rest', rest = d :: rest' := by
        cases rest with
        | nil => simp at hhead
        | cons x r => simp at hhead; exact ⟨r, by rw [hhead]⟩
      have hord' : order = (pre ++ [k]) ++ d :: rest' := by simp [hord]
      obtain ⟨a', hs, hr⟩ := enter (aw := aw) hord' c gh hh (by simpa using hdrop)
      exact ⟨.next a', hs, hr⟩

theorem special_none {c : Cmd} (h : specialCmd c = none) (args : List String) :
    specialLine c.name args = none := by
  unfold specialCmd at h
  unfold specialLine
  split at h
  · cases h
  · split at h
    · cases h
    · split at h
      · cases h
      · simp [*]

theorem special_some {c : Cmd} {oc : Outcome} (h : specialCmd c = some oc) :
    ∃ oc', specialLine c.name (patchedArgs patches c) = some oc' ∧ ORel patches oc oc' := by
  unfold specialCmd at h
  unfold specialLine
  split at h
  · injection h with h; subst h; exact ⟨.end_, by simp [*], trivial⟩
  · split at h
    · injection h with h; subst h; exact ⟨.ret, by simp [*], trivial⟩
    · split at h
      · injection h with h; subst h; exact ⟨.jump (patchedArgs patches c), by simp [*], c, rfl, rfl⟩
      · cases h

theorem firstCase_mem (w : SWorld) (h : Hist) (op : Tok) : ∀ (cases : List SwitchCaseBranch) (d : Nat),
    firstCase w h op cases = some d → d ∈ cases.map (·.dest) := by
  intro cases
  induction cases with
  | nil => intro d h; simp [firstCase] at h
  | cons c r ih =>
    intro d h
    rw [firstCase] at h
    split at h
    · injection h with h; simp [h]
    · simp [ih d h]

/-- The `case` lines: the first case whose value matches jumps; otherwise control arrives
behind them. -/
theorem case_block (w : SWorld) (gh : Hist) (op : Tok) : ∀ (cases : List SwitchCaseBranch)
    (X : List Line) (c : ACfg),
    (∀ sc ∈ cases, aw.caseEq (rh patches gh) op.lit sc.value.lit = w.caseEq gh op sc.value) →
    c.h = rh patches gh → c.sw = op.lit → ls.drop c.pc = caseLines o name cases ++ X →
    ∃ r, AStar aw ls (.next c) r ∧
      match firstCase w gh op cases with
      | some d => r = jumpTo ls (jumpLabel name d) ⟨0, c.h, c.regs, c.sw⟩
      | none => ∃ pc', r = .next ⟨pc', c.h, c.regs, c.sw⟩ ∧ ls.drop pc' = X := by
  intro cases
  induction cases with
  | nil =>
    intro X c _ _ _ h
    exact ⟨_, .refl _, by simp only [firstCase]; exact ⟨c.pc, rfl, by simpa [caseLines] using h⟩⟩
  | cons sc r ih =>
    intro X c hce hh hsw h
    simp only [caseLines, List.flatMap_cons, List.append_assoc] at h
    obtain ⟨pc1, hs1, hd1⟩ := skip_marker aw ls o sc.value h
    have hd1' : ls.drop (ACfg.pc { c with pc := pc1 }) =
        Line.case_ sc.value.lit (jumpLabel name sc.dest) :: (caseLines o name r ++ X) := by
      simpa [caseLines] using hd1
    have hst := astep_of_drop aw ls hd1'
    have hv := hce sc (by simp)
    rw [firstCase]
    by_cases hm : w.caseEq gh op sc.value = true
    · have hcond : aw.caseEq c.h c.sw sc.value.lit = true := by rw [hh, hsw, hv]; exact hm
      refine ⟨_, hs1.trans (.step (.refl _)), ?_⟩
      rw [if_pos hm, hst]
      simp only [exec, hcond, if_true]
      rfl
    · obtain ⟨r', hr1, hr2⟩ := ih X { c with pc := pc1 + 1 }
        (fun s hs => hce s (List.mem_cons_of_mem _ hs)) hh hsw (drop_head hd1').2
      have hcond : aw.caseEq c.h c.sw sc.value.lit = false := by rw [hh, hsw, hv]; simpa using hm
      refine ⟨r', hs1.trans (.step ?_), ?_⟩
      · rw [hst]
        simp only [exec, hcond, Bool.false_eq_true, if_false, fallThrough]
        exact hr1
      · rw [if_neg hm]; exact hr2

theorem rbc_test (t : Nat) (e : OpExpr) : ∀ l ∈ renderBranchComparison o name t e, isTestLine l = true := by
  intro l hl
  unfold renderBranchComparison marker at hl
  simp only [List.mem_append] at hl
  rcases hl with hl | hl
  · split at hl
    · simp at hl; subst hl; rfl
    · simp at hl
  · split at hl
    · split at hl <;> (simp at hl; subst hl; rfl)
    · split at hl
      · simp at hl; rcases hl with rfl | rfl <;> rfl
      · simp at hl; subst hl; rfl
    · simp at hl; rcases hl with rfl | rfl <;> rfl
    · simp at hl

variable (o patches name G) in
/-- The graph world `w` and the assembly world `aw` agree on the tests of this chunk table:
the rendered test block of a leaf jumps (to the truthy label) exactly when `w.test` holds, from
any register contents; a `case` comparison on the literals is `w.caseEq`. -/
structure Compat (w : SWorld) (aw : AWorld) : Prop where
  test : ∀ c ∈ G, ∀ t e f, c.branch = .leaf t e f → ∀ (h : Hist) (r : Spec.Regs),
    Spec.execTest (aw.at (rh patches h)) [] (renderBranchComparison o name t e) r =
      if w.test h e then some (jumpLabel name t) else none
  case_ : ∀ c ∈ G, ∀ op cases dflt dest, c.branch = .switch_ op cases dflt dest → ∀ sc ∈ cases,
    ∀ h, aw.caseEq (rh patches h) op.lit sc.value.lit = w.caseEq h op sc.value

/-- The AutoVar command run before a leaf test is an ordinary command (`gstep` appends it
unconditionally). -/
def PreambleOK (G : List Chunk) : Prop :=
  ∀ c ∈ G, ∀ t e f p, c.branch = .leaf t e f → e.preamble = some p → specialCmd p = none

/-- A `switch` chunk without default and without return chunk is not laid out last (otherwise
its lines would fall off the end of the script: see `no_runoff`). -/
def SwitchNotLast (G : List Chunk) (order : List Nat) : Prop :=
  ∀ c ∈ G, ∀ op cases, c.branch = .switch_ op cases none none → order.getLast? ≠ some c.id

theorem preamble_step (e : OpExpr) (hp : ∀ p, e.preamble = some p → specialCmd p = none)
    (c : ACfg) (gh : Hist) (hh : c.h = rh patches gh) (X : List Line)
    (hdrop : ls.drop c.pc = preambleLines patches e ++ X) :
    ∃ c1, AStar aw ls (.next c) (.next c1) ∧ c1.h = rh patches (runPre gh e.preamble) ∧
      ls.drop c1.pc = X := by
  unfold preambleLines at hdrop
  cases hpre : e.preamble with
  | none =>
    rw [hpre] at hdrop
    exact ⟨c, .refl _, by simpa [runPre] using hh, by simpa using hdrop⟩
  | some p =>
    rw [hpre] at hdrop
    have hd : ls.drop c.pc = renderCommand patches p :: X := by simpa using hdrop
    have hn := special_none (hp p hpre) (patchedArgs patches p)
    refine ⟨{ c with pc := c.pc + 1, h := c.h ++ [renderCommand patches p] }, .step ?_, ?_, (drop_head hd).2⟩
    · rw [astep_of_drop aw ls hd]
      simp only [renderCommand, exec, hn]
      exact .refl _
    · simp [runPre, hh, rh]

/-- **One graph step is matched by zero or more assembly steps** (zero only for a fall-through
into a chunk that has no label line; see `sim_step_progress`). -/
theorem sim_step (S : Setup o patches name G isGlobal ls order) (w : SWorld)
    (C : Compat o patches name G w aw) (P : PreambleOK G) (SW : SwitchNotLast G order)
    {g : GCfg} {a : ACfg} (hR : RA o patches name G isGlobal ls order g a) :
    ∃ ra, AStar aw ls (.next a) ra ∧ MatchA o patches name G isGlobal ls order (gstep w G g) ra := by
  obtain ⟨k, off, gh⟩ := g
  obtain ⟨hh, pre, rest, hord, hdrop⟩ := hR
  simp only at hh hord hdrop
  have hk : k ∈ order := by rw [hord]; simp
  have hf := S.found k hk
  have hcG : chunkOf G k ∈ G := List.mem_of_find?_eq_some hf
  have hid : (chunkOf G k).id = k := by
    have := List.find?_some hf
    simpa using this
  unfold gstep
  simp only [hf]
  cases hst : (chunkOf G k).statements[off]? with
  | some st =>
    obtain ⟨hlt, hget⟩ := List.getElem?_eq_some_iff.1 hst
    have hdr := List.drop_eq_getElem_cons hlt
    rw [hget] at hdr
    rw [hdr] at hdrop
    have hsimple := S.simple k hk st (List.mem_of_getElem? hst)
    cases st with
    | cmd cm =>
      dsimp only
      simp only [stmtLines, List.append_assoc] at hdrop
      obtain ⟨pc1, hs1, hd1⟩ := skip_marker aw ls o cm.tok hdrop
      have hd1' : ls.drop (ACfg.pc { a with pc := pc1 }) = renderCommand patches cm ::
          (stmtLines o patches ((chunkOf G k).statements.drop (off + 1)) ++
            brTail o patches name G isGlobal order (chunkOf G k) rest) := by simpa using hd1
      have hstep := astep_of_drop aw ls hd1'
      cases hsp : specialCmd cm with
      | some oc =>
        obtain ⟨oc', ho1, ho2⟩ := special_some (patches := patches) hsp
        refine ⟨.fin oc' a.h, hs1.trans (.step ?_), ?_⟩
        · rw [hstep]; simp only [renderCommand, exec, ho1]; exact .refl _
        · simp [MatchA, ho2, hh]
      | none =>
        have hn := special_none hsp (patchedArgs patches cm)
        refine ⟨.next { a with pc := pc1 + 1, h := a.h ++ [renderCommand patches cm] },
          hs1.trans (.step ?_), ?_⟩
        · rw [hstep]; simp only [renderCommand, exec, hn]; exact .refl _
        · exact matchA_next ⟨by simp [hh, rh], pre, rest, hord, (drop_head hd1').2⟩
    | label tok n gl =>
      dsimp only
      simp only [stmtLines, List.append_assoc] at hdrop
      obtain ⟨pc1, hs1, hd1⟩ := skip_marker aw ls o tok hdrop
      have hd1' : ls.drop (ACfg.pc { a with pc := pc1 }) = Line.labelDef n gl ::
          (stmtLines o patches ((chunkOf G k).statements.drop (off + 1)) ++
            brTail o patches name G isGlobal order (chunkOf G k) rest) := by simpa using hd1
      have hstep := astep_of_drop aw ls hd1'
      refine ⟨.next { a with pc := pc1 + 1 }, hs1.trans (.step ?_), ?_⟩
      · rw [hstep]; exact .refl _
      · exact matchA_next ⟨hh, pre, rest, hord, (drop_head hd1').2⟩
    | _ => simp [isSimple] at hsimple
  | none =>
    have hle : (chunkOf G k).statements.length ≤ off := by simpa using hst
    rw [List.drop_eq_nil_of_le hle] at hdrop
    simp only [stmtLines, List.nil_append, brTail] at hdrop
    have hreg := regsOf_mem o patches name G k rest pre
    rw [← hord] at hreg
    have hcl := S.closed k hk
    unfold targets at hcl
    rw [renderBranching_eq] at hdrop hreg
    cases hb : (chunkOf G k).branch with
    | none =>
      rw [hb] at hdrop hreg hcl
      simp only at hdrop hreg hcl
      cases hr : (chunkOf G k).returnID with
      | none =>
        rw [hr] at hdrop
        simp only at hdrop
        refine ⟨.fin (if (chunkOf G k).useEndTerminator then .end_ else .ret) a.h, .step ?_, ?_⟩
        · rw [astep_of_drop aw ls (by simpa using hdrop)]; exact .refl _
        · cases (chunkOf G k).useEndTerminator <;> simp [MatchA, ORel, hh]
      | some r =>
        rw [hr] at hdrop hreg hcl
        exact exit_sim S hord (some r) (by
          intro d hd; injection hd with hd; subst hd; exact hcl _ (by simp)) hreg a gh hh hdrop
    | jump d =>
      rw [hb] at hdrop hreg hcl
      simp only at hdrop hreg hcl
      exact exit_sim S hord (some d) (by
        intro d' hd; injection hd with hd; subst hd; exact hcl _ (by simp)) hreg a gh hh hdrop
    | breakCtx d =>
      rw [hb] at hdrop hreg hcl
      simp only at hdrop hreg hcl
      exact exit_sim S hord d (by
        intro d' hd; subst hd; exact hcl _ (by simp)) hreg a gh hh hdrop
    | leaf t e f =>
      rw [hb] at hdrop hreg hcl
      simp only [prepend, List.append_assoc] at hdrop hreg hcl
      obtain ⟨c1, hs1, hh1, hd1⟩ := preamble_step (aw := aw) e (fun p hp => P _ hcG t e f p hb hp)
        a gh hh _ hdrop
      obtain ⟨r, hs2, hm⟩ := test_block aw ls _ _ c1 (rbc_test t e) hd1
      rw [hh1, C.test _ hcG t e f hb] at hm
      by_cases hw : w.test (runPre gh e.preamble) e = true
      · simp only [hw, if_true] at hm ⊢
        obtain ⟨regs', rfl⟩ := hm
        obtain ⟨ht0, hto⟩ := hcl t (by simp)
        obtain ⟨a', hs3, hr3⟩ := land_jump (aw := aw) S hto ht0 (hreg t (by simp))
          ⟨0, rh patches (runPre gh e.preamble), regs', c1.sw⟩ (runPre gh e.preamble) rfl
        exact ⟨.next a', hs1.trans (hs2.trans hs3), hr3⟩
      · simp only [hw] at hm ⊢
        obtain ⟨pc', regs', rfl, hd2⟩ := hm
        obtain ⟨ra, hs3, hr3⟩ := exit_sim (aw := aw) S hord f (by
            intro d' hd; subst hd; exact hcl _ (by simp)) (fun d hd => hreg d (by simp [hd]))
          ⟨pc', rh patches (runPre gh e.preamble), regs', c1.sw⟩ (runPre gh e.preamble) rfl
          (by simpa [List.append_assoc] using hd2)
        exact ⟨ra, hs1.trans (hs2.trans hs3), hr3⟩
    | switch_ op cases dflt dest =>
      dsimp only
      rw [hb] at hdrop hreg hcl
      simp only [prepend, List.append_assoc] at hdrop hreg hcl
      obtain ⟨pc1, hs1, hd1⟩ := skip_marker aw ls o op hdrop
      rw [List.singleton_append] at hd1
      have hd1' := hd1
      have hstep := astep_of_drop aw ls (c := { a with pc := pc1 }) hd1'
      have hs2 : AStar aw ls (.next { a with pc := pc1 })
          (.next { a with pc := pc1 + 1, sw := op.lit }) := .step (by rw [hstep]; exact .refl _)
      obtain ⟨r, hs3, hm⟩ := case_block (aw := aw) (ls := ls) w gh op cases _
        { a with pc := pc1 + 1, sw := op.lit }
        (fun sc hsc => C.case_ _ hcG op cases dflt dest hb sc hsc gh) hh rfl (drop_head hd1').2
      cases hfc : firstCase w gh op cases with
      | some d =>
        rw [hfc] at hm
        simp only at hm ⊢
        subst hm
        have hdm := firstCase_mem w gh op cases d hfc
        obtain ⟨hd0, hdo⟩ := hcl d (by simp [hdm])
        obtain ⟨a', hs4, hr4⟩ := land_jump (aw := aw) S hdo hd0 (hreg d (by simp [hdm]))
          ⟨0, a.h, a.regs, op.lit⟩ gh hh
        exact ⟨.next a', hs1.trans (hs2.trans (hs3.trans hs4)), hr4⟩
      | none =>
        rw [hfc] at hm
        simp only at hm ⊢
        obtain ⟨pc', rfl, hd2⟩ := hm
        cases dflt with
        | some d =>
          simp only at hd2 hreg ⊢
          obtain ⟨ra, hs4, hr4⟩ := exit_sim (aw := aw) S hord (some d) (by
              intro d' hd; injection hd with hd; subst hd; exact hcl _ (by simp))
            (fun d hd => hreg d (by simp [hd])) ⟨pc', a.h, a.regs, op.lit⟩ gh hh
            (by simpa [List.append_assoc] using hd2)
          exact ⟨ra, hs1.trans (hs2.trans (hs3.trans hs4)), by simpa [goto] using hr4⟩
        | none =>
          simp only at hd2 hreg ⊢
          by_cases hlast : dest = none ∧ rest.head? = none
          · exfalso
            obtain ⟨rfl, hrest⟩ := hlast
            have : rest = [] := by cases rest <;> simp_all
            subst this
            exact SW _ hcG op cases hb (by rw [hid, hord]; simp)
          · rw [if_neg hlast] at hd2 hreg
            obtain ⟨ra, hs4, hr4⟩ := exit_sim (aw := aw) S hord dest (by
                intro d' hd; subst hd; exact hcl _ (by simp))
              (fun d hd => hreg d (by simp [hd])) ⟨pc', a.h, a.regs, op.lit⟩ gh hh
              (by simpa [List.append_assoc] using hd2)
            exact ⟨ra, hs1.trans (hs2.trans (hs3.trans hs4)), hr4⟩

end Sim

end Pory.RenderSim
