import PoryProofs.ParserLeaves
import PoryProofs.StmtFirstTok
/-
Preambles of condition leaves as the parser builds them.

`AVLeaf env e` : if the leaf `e` carries a preamble command `p` (`e.preamble = some p`) then `p.name` is a key of
`env.autoVars`.  Every `OpExpr` leaf of every condition (`if` / `elif` / `while` / `do…while`) in every script
body the parser produces with environment `env` satisfies `AVLeaf env`.

* `parseCommandStatement_name`   — the `name` of the parsed command is the literal of the current token;
* `expectPeekVarOrAutoVar_name`  — the command returned for an auto-var operand is named by a key of
  `env.autoVars` (the peeked token literal, looked up successfully);
* `varOp_pre`, `flagOp_pre`      — the operator parsers do not touch `preamble`;
* `av_leaf_spec`                 — `parseLeafBooleanExpression`;
* `av_bool_spec` / `av_cond_spec`, `avAll : ∀ n, AvAll n` (13-function mutual induction on fuel, the
  skeleton of `leafAll` in ParserLeaves.lean), the top level `av_…_spec`, and
* `av_program_leaves : parseTokens env toks = .ok prog → ∀ t ∈ prog.tops, AvTop env t`.
Everything is proved for all inputs, all environments and all fuel values; nothing is partial.
-/
namespace Pory.Parser
open Pory Pory.Emit

/-- A condition leaf whose preamble (if any) is a command named by a key of `env.autoVars`. -/
def AVLeaf (env : Env) (e : OpExpr) : Prop :=
  ∀ p, e.preamble = some p → p.name ∈ env.autoVars.map (·.1)

theorem lookup_mem_keys {α} (k : String) : ∀ (l : List (String × α)) (v : α),
    l.lookup k = some v → k ∈ l.map (·.1)
  | [], _, h => by cases h
  | (k', v') :: r, v, h => by
    rw [List.lookup_cons] at h
    by_cases hk : k = k'
    · subst hk; exact List.mem_cons_self
    · have : (k == k') = false := by simpa using hk
      rw [this] at h
      exact List.mem_cons_of_mem _ (lookup_mem_keys k r v h)

theorem parseCommandStatement_name (env : Env) (sn : String) (n : Nat) (s : PState) :
    wp (parseCommandStatement env sn n) s (fun r _ => r.1.name = (curTok s).lit) := by
  unfold parseCommandStatement
  swp [wp_bumpCmdId, wp_run_iff (cmdArgsLoop _ _ _ _ _ _)]

theorem cur_after_next (s : PState) :
    curTok (upd s s.toks.tail s.nextCmdId) = s.toks.getD 1 s.eof := tail_headD _ _

theorem expectPeekVarOrAutoVar_name (env : Env) (sn : String) (n : Nat) (s : PState) :
    wp (expectPeekVarOrAutoVar env sn n) s
      (fun r _ => ∀ x, r = some x → x.2.1.name ∈ env.autoVars.map (·.1)) := by
  unfold expectPeekVarOrAutoVar
  swp [wp_spec (parseCommandStatement_name _ _ _ _)]
  repeat' split
  · intro x hx; cases hx
  · trivial
  · swp [wp_spec (parseCommandStatement_name _ _ _ _)]
    intro a s' _ h x hx
    cases hx
    rw [h, cur_after_next]
    exact lookup_mem_keys _ _ _ (by assumption)
  · swp [wp_spec (parseCommandStatement_name _ _ _ _)]
    intro a s' _ h
    split
    · trivial
    · intro x hx
      cases hx
      rw [h, cur_after_next]
      exact lookup_mem_keys _ _ _ (by assumption)
  · swp

theorem varOp_pre (e : OpExpr) (n : Nat) (s : PState) :
    wp (parseConditionVarOperator e n) s (fun r _ => r.preamble = e.preamble) := by
  unfold parseConditionVarOperator
  wpsimp [(frame_valueLoop _ _ _ _).wp_iff, (frame_collectUntilRange _ _ _).wp_iff]
  repeat' (first | trivial | (intros; split))
  all_goals (intros; trivial)

theorem flagOp_pre (e : OpExpr) (nm : String) (s : PState) :
    wp (parseConditionFlagLikeOperator e nm) s (fun r _ => r.preamble = e.preamble) := by
  unfold parseConditionFlagLikeOperator
  wpsimp
  repeat' (first | trivial | (intros; split))

theorem av_leaf_spec (env : Env) (sn : String) (n : Nat) (s : PState) :
    wp (parseLeafBooleanExpression env sn n) s (fun r _ => AVLeaf env r.1) := by
  unfold parseLeafBooleanExpression
  wpsimp [(frame_peekTokenIsAutoVar _).wp_iff, (frame_collectUntil _ _ _ _).wp_iff,
    wp_spec (expectPeekVarOrAutoVar_name _ _ _ _), wp_spec (varOp_pre _ _ _), wp_spec (flagOp_pre _ _ _)]
  wpfin [wp_spec (varOp_pre _ _ _), wp_spec (flagOp_pre _ _ _)]
  all_goals (intros)
  all_goals (simp_all [AVLeaf])

/-! ### conditions -/

variable {env : Env}

theorem av_negated (e : OpExpr) (h : AVLeaf env e) :
    AVLeaf env { e with operator := getNegatedBooleanOperator e.operator } := h

theorem av_ifneg (e : OpExpr) (b : Bool) (h : AVLeaf env e) :
    AVLeaf env (if b = true then { e with operator := getNegatedBooleanOperator e.operator } else e) := by
  split
  · exact av_negated e h
  · exact h


theorem av_bool_spec (env : Env) (sn : String) : ∀ n : Nat,
    (∀ single negated s, wp (parseBooleanExpression env sn single negated n) s
      (fun r _ => CondLeaves (AVLeaf env) r.1)) ∧
    (∀ left single negated s, CondLeaves (AVLeaf env) left →
      wp (parseRightSideExpression env sn left single negated n) s (fun r _ => CondLeaves (AVLeaf env) r.1)) := by
  intro n
  induction n with
  | zero =>
    refine ⟨?_, ?_⟩
    · intro a b s; rw [parseBooleanExpression]; wpsimp
    · intro l a b s _; rw [parseRightSideExpression]; wpsimp
  | succ n ih =>
    obtain ⟨ih1, ih2⟩ := ih
    refine ⟨?_, ?_⟩
    · intro a b s
      rw [parseBooleanExpression]
      wpsimp [wp_spec (ih1 _ _ _), wp_spec (av_leaf_spec _ _ _ _)]
      repeat' (first | trivial | (intros; split))
      all_goals first
        | assumption
        | (apply ih2; assumption)
        | (apply condLeaves_leaf; assumption)
        | (apply condLeaves_leaf; apply av_negated; assumption)
        | (apply condLeaves_leaf; apply av_ifneg; assumption)
        | (apply ih2; apply condLeaves_leaf; assumption)
        | (apply ih2; apply condLeaves_leaf; apply av_negated; assumption)
        | (apply ih2; apply condLeaves_leaf; apply av_ifneg; assumption)
    · intro l a b s hl
      rw [parseRightSideExpression]
      wpsimp [wp_spec (ih1 _ _ _)]
      repeat' (first | trivial | (intros; split))
      all_goals first
        | assumption
        | (apply ih2; apply condLeaves_bin <;> assumption)
        | (apply condLeaves_bin <;> assumption)

theorem av_cond_spec (env : Env) (sn : String) (single negated : Bool) (n : Nat) (s : PState) :
    wp (parseBooleanExpression env sn single negated n) s (fun r _ => CondLeaves (AVLeaf env) r.1) :=
  (av_bool_spec env sn n).1 single negated s

/-! ### statements -/

abbrev AL (env : Env) (l : List Stmt) : Prop := LeavesL (AVLeaf env) l

theorem AL.nil : AL env [] := trivial

theorem AL.append {a b : List Stmt} (ha : AL env a) (hb : AL env b) : AL env (a ++ b) :=
  (LeavesL_append a b).2 ⟨ha, hb⟩

theorem AL.single {x : Stmt} (h : LeavesS (AVLeaf env) x) : AL env [x] := ⟨h, trivial⟩

theorem av_leavesE_snoc {a : List (BoolExpr × List Stmt)} {c : BoolExpr} {b : List Stmt}
    (ha : LeavesE (AVLeaf env) a) (hc : CondLeaves (AVLeaf env) c) (hb : AL env b) : LeavesE (AVLeaf env) (a ++ [(c, b)]) := by
  induction a with
  | nil => exact ⟨hc, hb, trivial⟩
  | cons x r ih =>
    obtain ⟨c', b'⟩ := x
    rw [List.cons_append, leavesE_cons]
    rw [leavesE_cons] at ha
    exact ⟨ha.1, ha.2.1, ih ha.2.2⟩

theorem av_leavesC_snoc {a : List SwitchCase} {t : Tok} {d : Bool} {b : List Stmt}
    (ha : LeavesC (AVLeaf env) a) (hb : AL env b) : LeavesC (AVLeaf env) (a ++ [(t, d, b)]) := by
  induction a with
  | nil => exact ⟨hb, trivial⟩
  | cons x r ih =>
    obtain ⟨t', d', b'⟩ := x
    rw [List.cons_append, leavesC_cons]
    rw [leavesC_cons] at ha
    exact ⟨ha.1, ih ha.2⟩

/-- postcondition of the statement-level functions -/
abbrev APost (env : Env) : List Stmt × ImpData → PState → Prop := fun r _ => AL env r.1

/-- The leaf invariant of the whole mutual block at fuel `n`. -/
structure AvAll (n : Nat) : Prop where
  block : ∀ env sn tok acc imp s, AL env acc → wp (parseBlockStatement env sn tok n acc imp) s (APost env)
  swblock : ∀ env sn tok acc imp s, AL env acc → wp (parseSwitchBlockStatement env sn tok n acc imp) s (APost env)
  stmt : ∀ env sn s, wp (parseStatement env sn n) s (APost env)
  cond : ∀ env sn req s, wp (parseConditionExpression env sn req n) s
    (fun r _ => (∀ c, r.1 = some c → CondLeaves (AVLeaf env) c) ∧ AL env r.2.1)
  elifs : ∀ env sn acc imp s, LeavesE (AVLeaf env) acc →
    wp (parseElifs env sn n acc imp) s (fun r _ => LeavesE (AVLeaf env) r.1)
  ifs : ∀ env sn s, wp (parseIfStatement env sn n) s (APost env)
  whiles : ∀ env sn s, wp (parseWhileStatement env sn n) s (APost env)
  doWhiles : ∀ env sn s, wp (parseDoWhileStatement env sn n) s (APost env)
  cases : ∀ env sn tok cs vals hd imp s, LeavesC (AVLeaf env) cs →
    wp (parseSwitchCases env sn tok n cs vals hd imp) s (fun r _ => LeavesC (AVLeaf env) r.1)
  switch : ∀ env sn s, wp (parseSwitchStatement env sn n) s (APost env)
  pory : ∀ env sn s, wp (parsePoryswitchStatement env sn n) s (APost env)
  poryCases : ∀ env sn tok acc s, (∀ e ∈ acc, AL env e.2.1) →
    wp (parsePoryswitchStatementCases env sn tok n acc) s (fun r _ => ∀ e ∈ r, AL env e.2.1)
  poryStmts : ∀ env sn am acc imp s, AL env acc → wp (parsePoryswitchStatements env sn am n acc imp) s (APost env)

theorem AL.cmd (c : Cmd) : AL env [.cmd c] := ⟨trivial, trivial⟩
theorem AL.label (t : Tok) (nm : String) (g : Bool) : AL env [.label t nm g] := ⟨trivial, trivial⟩
theorem AL.brk (t : Tok) (sid : Nat) : AL env [.brk t sid] := ⟨trivial, trivial⟩
theorem AL.cont (t : Tok) (sid : Nat) : AL env [.cont t sid] := ⟨trivial, trivial⟩

theorem AL.while_ (t : Tok) (sid : Nat) {o : Option BoolExpr} {b : List Stmt}
    (ho : ∀ c, o = some c → CondLeaves (AVLeaf env) c) (hb : AL env b) : AL env [.while_ t sid o b] := by
  refine ⟨?_, trivial⟩
  rw [leavesS_while]
  cases o with
  | none => exact ⟨trivial, hb⟩
  | some c => exact ⟨ho c rfl, hb⟩

theorem AL.doWhile (t : Tok) (sid : Nat) {c : BoolExpr} {b : List Stmt}
    (hc : CondLeaves (AVLeaf env) c) (hb : AL env b) : AL env [.doWhile t sid c b] := ⟨⟨hc, hb⟩, trivial⟩

theorem AL.switch_ (t : Tok) (sid : Nat) (op : Tok) {cs : List SwitchCase}
    (hc : LeavesC (AVLeaf env) cs) : AL env [.switch_ t sid op cs] := ⟨hc, trivial⟩

theorem AL.ite (tok : Tok) {c : BoolExpr} {t : List Stmt} {el : List (BoolExpr × List Stmt)}
    {els : Option (List Stmt)} (hc : CondLeaves (AVLeaf env) c) (ht : AL env t) (hel : LeavesE (AVLeaf env) el)
    (hels : ∀ e, els = some e → AL env e) : AL env [.ite tok c t el els] := by
  refine ⟨?_, trivial⟩
  rw [leavesS_ite]
  cases els with
  | none => exact ⟨hc, ht, hel, trivial⟩
  | some e => exact ⟨hc, ht, hel, hels e rfl⟩

theorem av_while_step {n : Nat} (ih : AvAll n) (env : Env) (sn : String) (s : PState) :
    wp (parseWhileStatement env sn (n + 1)) s (APost env) := by
  rw [parseWhileStatement]
  swp [wp_spec (ih.cond _ _ _ _)]
  intro a s' _ h
  exact AL.while_ _ _ h.1 h.2

theorem av_doWhile_step {n : Nat} (ih : AvAll n) (env : Env) (sn : String) (s : PState) :
    wp (parseDoWhileStatement env sn (n + 1)) s (APost env) := by
  rw [parseDoWhileStatement]
  swp [wp_spec (ih.block _ _ _ [] _ _ AL.nil), wp_spec (av_cond_spec _ _ _ _ _ _)]
  repeat' (first | trivial | (intros; split))
  all_goals (intros; apply AL.doWhile <;> assumption)

theorem av_stmt_step {n : Nat} (ih : AvAll n) (env : Env) (sn : String) (s : PState) :
    wp (parseStatement env sn (n + 1)) s (APost env) := by
  rw [parseStatement]
  swp
  split
  · -- IDENT
    swp [wp_spec (tryParseLabel_spec _)]
    intro a s' _ h
    obtain ⟨⟨l, k, rfl⟩, hl⟩ := h
    cases a with
    | some st =>
      obtain ⟨t, nm, g, rfl⟩ := hl st rfl
      swp
      exact AL.label _ _ _
    | none =>
      swp [(frame_parseCommandStatement _ _ _).wp_iff]
      intro a l k _
      exact AL.cmd _
  · exact ih.ifs env sn s
  · exact ih.whiles env sn s
  · exact ih.doWhiles env sn s
  · -- BREAK
    swp
    split
    · swp
    · swp
      exact AL.brk _ _
  · -- CONTINUE
    swp
    split
    · swp
    · swp
      split
      · trivial
      · exact AL.cont _ _
  · exact ih.switch env sn s
  · exact ih.pory env sn s
  · swp

theorem av_block_step {n : Nat} (ih : AvAll n) (env : Env) (sn : String) (tok : Tok) (acc : List Stmt)
    (imp : ImpData) (s : PState) (hacc : AL env acc) :
    wp (parseBlockStatement env sn tok (n + 1) acc imp) s (APost env) := by
  rw [parseBlockStatement]
  swp [wp_spec (ih.stmt _ _ _)]
  split
  · exact hacc
  · split
    · trivial
    · intro a s' _ h
      exact ih.block env sn tok (acc ++ a.1) _ _ (hacc.append h)

theorem av_swblock_step {n : Nat} (ih : AvAll n) (env : Env) (sn : String) (tok : Tok) (acc : List Stmt)
    (imp : ImpData) (s : PState) (hacc : AL env acc) :
    wp (parseSwitchBlockStatement env sn tok (n + 1) acc imp) s (APost env) := by
  rw [parseSwitchBlockStatement]
  swp [wp_spec (ih.stmt _ _ _)]
  split
  · exact hacc
  · split
    · trivial
    · intro a s' _ h
      exact ih.swblock env sn tok (acc ++ a.1) _ _ (hacc.append h)

theorem av_cond_step {n : Nat} (ih : AvAll n) (env : Env) (sn : String) (req : Bool) (s : PState) :
    wp (parseConditionExpression env sn req (n + 1)) s
      (fun r _ => (∀ c, r.1 = some c → CondLeaves (AVLeaf env) c) ∧ AL env r.2.1) := by
  rw [parseConditionExpression]
  swp [wp_spec (ih.block _ _ _ [] _ _ AL.nil), wp_spec (av_cond_spec _ _ _ _ _ _)]
  repeat' (first | trivial | (intros; split))
  · intro a s' _ hc _ b s1 _ hb
    exact ⟨fun c hcc => (by cases hcc; exact hc), hb⟩
  · intro _ a s' _ hb
    exact ⟨fun c hcc => (by cases hcc), hb⟩

theorem av_elifs_step {n : Nat} (ih : AvAll n) (env : Env) (sn : String)
    (acc : List (BoolExpr × List Stmt)) (imp : ImpData) (s : PState) (hacc : LeavesE (AVLeaf env) acc) :
    wp (parseElifs env sn (n + 1) acc imp) s (fun r _ => LeavesE (AVLeaf env) r.1) := by
  rw [parseElifs]
  swp [wp_spec (ih.cond _ _ _ _)]
  split
  · exact hacc
  · intro a s' _ h
    split
    · swp
    · rename_i e he
      exact ih.elifs env sn _ _ _ (av_leavesE_snoc hacc (h.1 e he) h.2)

theorem av_if_step {n : Nat} (ih : AvAll n) (env : Env) (sn : String) (s : PState) :
    wp (parseIfStatement env sn (n + 1)) s (APost env) := by
  rw [parseIfStatement]
  swp [wp_spec (ih.cond _ _ _ _)]
  intro a s1 _ h
  split
  · rename_i c hc
    swp [wp_spec (ih.elifs _ _ [] _ _ trivial), wp_spec (ih.block _ _ _ [] _ _ AL.nil)]
    intro b s2 _ hel
    split
    · split
      · intro e s3 _ he
        exact AL.ite _ (h.1 c hc) h.2 hel (fun e' he' => by cases he'; exact he)
      · trivial
    · exact AL.ite _ (h.1 c hc) h.2 hel (fun e' he' => by cases he')
  · swp

theorem av_cases_step {n : Nat} (ih : AvAll n) (env : Env) (sn : String) (tok : Tok)
    (cs : List SwitchCase) (vals : List String) (hd : Bool) (imp : ImpData) (s : PState)
    (hcs : LeavesC (AVLeaf env) cs) :
    wp (parseSwitchCases env sn tok (n + 1) cs vals hd imp) s (fun r _ => LeavesC (AVLeaf env) r.1) := by
  rw [parseSwitchCases]
  swp [(frame_collectUntil _ _ _ _).wp_iff, wp_spec (ih.swblock _ _ _ [] _ _ AL.nil)]
  repeat' (first | trivial | (intros; split))
  all_goals first
    | exact hcs
    | (intros; apply ih.cases; apply av_leavesC_snoc hcs; assumption)

theorem av_switch_step {n : Nat} (ih : AvAll n) (env : Env) (sn : String) (s : PState) :
    wp (parseSwitchStatement env sn (n + 1)) s (APost env) := by
  rw [parseSwitchStatement]
  swp [(frame_expectPeekVarOrAutoVar _ _ _).wp_iff]
  split
  · intro a l k _
    split
    · -- `var(...)` operand
      swp [(frame_switchOperandLoop _ _ _).wp_iff, wp_spec (ih.cases _ _ _ [] [] false _ _ trivial)]
      repeat' (first | trivial | (intros; split))
      all_goals (intros; apply AL.switch_; assumption)
    · -- auto-var operand
      swp [wp_spec (ih.cases _ _ _ [] [] false _ _ trivial)]
      repeat' (first | trivial | (intros; split))
      all_goals (intros; exact (AL.cmd _).append (AL.switch_ _ _ _ (by assumption)))
  · trivial

theorem av_pory_step {n : Nat} (ih : AvAll n) (env : Env) (sn : String) (s : PState) :
    wp (parsePoryswitchStatement env sn (n + 1)) s (APost env) := by
  rw [parsePoryswitchStatement]
  swp [(frame_parsePoryswitchHeader _).wp_iff,
    wp_spec (ih.poryCases _ _ _ [] _ (fun _ he => absurd he List.not_mem_nil))]
  intro hdr l k _ cs s' _ hall
  split
  · rename_i r hr
    swp
    obtain ⟨key, hmem⟩ := selectCase_mem hr
    exact hall _ hmem
  · swp
    split
    · trivial
    · exact AL.nil

theorem av_poryCases_step {n : Nat} (ih : AvAll n) (env : Env) (sn : String) (tok : Tok)
    (acc : List (String × List Stmt × ImpData)) (s : PState) (hacc : ∀ e ∈ acc, AL env e.2.1) :
    wp (parsePoryswitchStatementCases env sn tok (n + 1) acc) s (fun r _ => ∀ e ∈ r, AL env e.2.1) := by
  rw [parsePoryswitchStatementCases]
  swp [wp_spec (ih.poryStmts _ _ _ [] _ _ AL.nil)]
  have hrec : ∀ (lit : String) (a : List Stmt × ImpData) (s'' : PState), AL env a.1 →
      wp (parsePoryswitchStatementCases env sn tok n ((lit, a.1, a.2) :: acc)) s''
        (fun r _ => ∀ e ∈ r, AL env e.2.1) := by
    intro lit a s'' ha
    apply ih.poryCases
    intro e he
    rcases List.mem_cons.1 he with rfl | he
    · exact ha
    · exact hacc e he
  repeat' (first | trivial | (intros; split))
  all_goals first
    | exact hacc
    | (intros; apply hrec; assumption)

theorem av_poryStmts_step {n : Nat} (ih : AvAll n) (env : Env) (sn : String) (am : Bool)
    (acc : List Stmt) (imp : ImpData) (s : PState) (hacc : AL env acc) :
    wp (parsePoryswitchStatements env sn am (n + 1) acc imp) s (APost env) := by
  rw [parsePoryswitchStatements]
  swp [wp_spec (ih.stmt _ _ _), wp_spec (ih.pory _ _ _)]
  repeat' (first | trivial | (intros; split))
  all_goals first
    | exact hacc
    | (intros; apply AL.append hacc; assumption)
    | (intros; apply ih.poryStmts; apply AL.append hacc; assumption)

/-- **The leaf invariant** of the statement block, for every fuel. -/
theorem avAll : ∀ n : Nat, AvAll n
  | 0 =>
    { block := by intros; rw [parseBlockStatement]; swp
      swblock := by intros; rw [parseSwitchBlockStatement]; swp
      stmt := by intros; rw [parseStatement]; swp
      cond := by intros; rw [parseConditionExpression]; swp
      elifs := by intros; rw [parseElifs]; swp
      ifs := by intros; rw [parseIfStatement]; swp
      whiles := by intros; rw [parseWhileStatement]; swp
      doWhiles := by intros; rw [parseDoWhileStatement]; swp
      cases := by intros; rw [parseSwitchCases]; swp
      switch := by intros; rw [parseSwitchStatement]; swp
      pory := by intros; rw [parsePoryswitchStatement]; swp
      poryCases := by intros; rw [parsePoryswitchStatementCases]; swp
      poryStmts := by intros; rw [parsePoryswitchStatements]; swp }
  | n + 1 =>
    have ih := avAll n
    { block := av_block_step ih
      swblock := av_swblock_step ih
      stmt := av_stmt_step ih
      cond := av_cond_step ih
      elifs := av_elifs_step ih
      ifs := av_if_step ih
      whiles := av_while_step ih
      doWhiles := av_doWhile_step ih
      cases := av_cases_step ih
      switch := av_switch_step ih
      pory := av_pory_step ih
      poryCases := av_poryCases_step ih
      poryStmts := av_poryStmts_step ih }


/-! ### top level -/

/-- An optional (inline) script has well-formed leaves. -/
def AvScript (env : Env) (o : Option Script) : Prop := ∀ scr, o = some scr → AL env scr.body

theorem AvScript.none : AvScript env none := fun _ h => by cases h
theorem AvScript.some {scr : Script} (h : AL env scr.body) : AvScript env (some scr) :=
  fun _ hs => by cases hs; exact h

def AvMS (env : Env) (mss : List MapScript) (tables : List TableMapScript) : Prop :=
  (∀ m ∈ mss, AvScript env m.script) ∧ (∀ t ∈ tables, ∀ e ∈ t.entries, AvScript env e.script)

theorem AvMS.nil : AvMS env [] [] :=
  ⟨fun _ h => absurd h List.not_mem_nil, fun _ h => absurd h List.not_mem_nil⟩

/-- what the leaf invariant says about one top-level statement -/
def AvTop (env : Env) : Top → Prop
  | .script scr => AL env scr.body
  | .mapscripts m => AvMS env m.mapScripts m.tables
  | _ => True

theorem av_script_spec (env : Env) (fuel : Nat) (s : PState) :
    wp (parseScriptStatement env fuel) s (fun r _ => AL env r.1.body) := by
  unfold parseScriptStatement
  swp [(frame_parseScopeModifier _).wp_iff, wp_spec ((avAll fuel).block _ _ _ [] _ _ AL.nil)]
  vc

theorem av_tableEntries_spec (env : Env) (ms ty : String) : ∀ (n i : Nat) (acc : List TableEntry)
    (imp : ImpData) (s : PState), (∀ e ∈ acc, AvScript env e.script) →
    wp (parseTableEntries env ms ty n i acc imp) s (fun r _ => ∀ e ∈ r.1, AvScript env e.script) := by
  intro n
  induction n with
  | zero => intro i acc imp s _; rw [parseTableEntries]; swp
  | succ n ih =>
    intro i acc imp s hacc
    have hrec : ∀ (e : TableEntry) (s'' : PState) (i' : Nat) (imp' : ImpData), AvScript env e.script →
        wp (parseTableEntries env ms ty n i' (acc ++ [e]) imp') s''
          (fun r _ => ∀ e ∈ r.1, AvScript env e.script) := by
      intro e s'' i' imp' he
      apply ih
      intro x hx
      rcases List.mem_append.1 hx with hx | hx
      · exact hacc x hx
      · rw [List.mem_singleton] at hx; subst hx; exact he
    rw [parseTableEntries]
    swp [(frame_tableCollect _ _ _ _).wp_iff, wp_spec ((avAll n).block _ _ _ [] _ _ AL.nil)]
    repeat' (first | trivial | (intros; split))
    all_goals first
      | exact hacc
      | (intros; apply hrec; exact AvScript.none)
      | (intros; apply hrec; apply AvScript.some; assumption)

theorem av_mapScriptEntries_spec (env : Env) (ms : String) : ∀ (n : Nat) (mss : List MapScript)
    (tables : List TableMapScript) (imp : ImpData) (s : PState), AvMS env mss tables →
    wp (parseMapScriptEntries env ms n mss tables imp) s (fun r _ => AvMS env r.1 r.2.1) := by
  intro n
  induction n with
  | zero => intro mss tables imp s _; rw [parseMapScriptEntries]; swp
  | succ n ih =>
    intro mss tables imp s hacc
    have hrec1 : ∀ (m : MapScript) (s'' : PState) (imp' : ImpData), AvScript env m.script →
        wp (parseMapScriptEntries env ms n (mss ++ [m]) tables imp') s''
          (fun r _ => AvMS env r.1 r.2.1) := by
      intro m s'' imp' hm
      apply ih
      refine ⟨?_, hacc.2⟩
      intro x hx
      rcases List.mem_append.1 hx with hx | hx
      · exact hacc.1 x hx
      · rw [List.mem_singleton] at hx; subst hx; exact hm
    have hrec2 : ∀ (t : TableMapScript) (s'' : PState) (imp' : ImpData),
        (∀ e ∈ t.entries, AvScript env e.script) →
        wp (parseMapScriptEntries env ms n mss (tables ++ [t]) imp') s''
          (fun r _ => AvMS env r.1 r.2.1) := by
      intro t s'' imp' ht
      apply ih
      refine ⟨hacc.1, ?_⟩
      intro x hx e he
      rcases List.mem_append.1 hx with hx | hx
      · exact hacc.2 x hx e he
      · rw [List.mem_singleton] at hx; subst hx; exact ht e he
    rw [parseMapScriptEntries]
    swp [wp_spec ((avAll n).block _ _ _ [] _ _ AL.nil),
      wp_spec (av_tableEntries_spec _ _ _ _ _ [] _ _ (fun _ h => absurd h List.not_mem_nil))]
    repeat' (first | trivial | (intros; split))
    all_goals first
      | exact hacc
      | (intros; apply hrec1; exact AvScript.none)
      | (intros; apply hrec1; apply AvScript.some; assumption)
      | (intros; apply hrec2; assumption)

theorem av_mapscripts_spec (env : Env) (fuel : Nat) (s : PState) :
    wp (parseMapscriptsStatement env fuel) s (fun r _ => AvMS env r.1.mapScripts r.1.tables) := by
  unfold parseMapscriptsStatement
  swp [(frame_parseScopeModifier _).wp_iff, wp_spec (av_mapScriptEntries_spec _ _ _ [] [] _ _ AvMS.nil)]
  vc

theorem av_raw (env : Env) (s : PState) : wp parseRawStatement s (fun r _ => AvTop env r) := by
  unfold parseRawStatement
  swp
  vc
  all_goals (intros; trivial)

theorem av_text (env : Env) (n : Nat) (s : PState) :
    wp (parseTextStatement env n) s (fun r _ => AvTop env r) := by
  unfold parseTextStatement
  swp [(frame_parseScopeModifier _).wp_iff, (frame_parsePoryswitchTextStatement _ _).wp_iff,
    (frame_parseTextValue _ _).wp_iff, wp_modify]
  vc
  all_goals (intros; trivial)

theorem av_movement (env : Env) (n : Nat) (s : PState) :
    wp (parseMovementStatement env n) s (fun r _ => AvTop env r) := by
  unfold parseMovementStatement
  swp [(frame_parseScopeModifier _).wp_iff, (frame_parseListValue _ _ _ _ _).wp_iff]
  vc
  all_goals (intros; trivial)

theorem av_mart (env : Env) (n : Nat) (s : PState) :
    wp (parseMartStatement env n) s (fun r _ => AvTop env r) := by
  unfold parseMartStatement
  swp [(frame_parseScopeModifier _).wp_iff, (frame_parseListValue _ _ _ _ _).wp_iff,
    (frame_mapM_tryReplace _).wp_iff]
  vc
  all_goals (intros; trivial)

theorem av_topLevel_spec (env : Env) (fuel : Nat) (s : PState) :
    wp (parseTopLevelStatement env fuel) s (fun r _ => ∀ t, r = some t → AvTop env t) := by
  unfold parseTopLevelStatement
  swp
  split
  · -- script
    swp [wp_spec (av_script_spec _ _ _)]
    intro a s1 _ h
    refine wp_mono (wp_true _ _) ?_
    intro u s2 _
    try swp
    intro t ht; cases ht
    exact h
  · swp [wp_spec (av_raw env s)]
    intro a s' _ h t ht; cases ht; exact h
  · swp [wp_spec (av_text env fuel s)]
    intro a s' _ h t ht; cases ht; exact h
  · swp [wp_spec (av_movement env fuel s)]
    intro a s' _ h t ht; cases ht; exact h
  · swp [wp_spec (av_mart env fuel s)]
    intro a s' _ h t ht; cases ht; exact h
  · -- mapscripts
    swp [wp_spec (av_mapscripts_spec _ _ _)]
    intro a s1 _ h
    refine wp_mono (wp_true _ _) ?_
    intro u s2 _
    try swp
    intro t ht; cases ht
    exact h
  · swp
    intro a s1 _ t ht
    cases ht
  · swp

theorem av_topLoop_spec (env : Env) (fuel : Nat) : ∀ (n : Nat) (acc : List Top) (s : PState),
    (∀ t ∈ acc, AvTop env t) → wp (topLoop env fuel n acc) s (fun r _ => ∀ t ∈ r, AvTop env t) := by
  intro n
  induction n with
  | zero => intro acc s _; rw [topLoop]; swp
  | succ n ih =>
    intro acc s hacc
    rw [topLoop]
    swp [wp_spec (av_topLevel_spec _ _ _)]
    split
    · exact hacc
    · intro a s' _ h
      apply ih
      intro t ht
      cases a with
      | none => exact hacc t ht
      | some x =>
        rcases List.mem_append.1 ht with ht | ht
        · exact hacc t ht
        · rw [List.mem_singleton] at ht; subst ht
          exact h _ rfl

/-- `ParseProgram`: every condition leaf of every script of the result is well formed. -/
theorem av_program_spec (env : Env) (fuel : Nat) (s : PState) :
    wp (parseProgramM env fuel) s (fun r _ => ∀ t ∈ r.tops, AvTop env t) := by
  unfold parseProgramM
  swp [wp_spec (av_topLoop_spec _ _ _ [] _ (fun _ h => absurd h List.not_mem_nil))]
  intro tops s' _ hw
  have key : ∀ t ∈ tops ++ List.map Top.movement s'.inlineMovements, AvTop env t := by
    intro t ht
    rcases List.mem_append.1 ht with ht | ht
    · exact hw t ht
    · obtain ⟨m, _, rfl⟩ := List.mem_map.1 ht
      trivial
  repeat' (first | trivial | (intros; split))
  all_goals first | swp | skip
  all_goals first | exact key | skip

theorem av_program_leaves {env : Env} {toks : List Tok} {prog : Program}
    (h : parseTokens env toks = .ok prog) : ∀ t ∈ prog.tops, AvTop env t := by
  unfold parseTokens at h
  simp only [StateT.run'] at h
  generalize hr : (parseProgramM env (4 * toks.length + 50))
    { toks := toks, eof := toks.getLastD { type := .EOF } } = res at h
  cases res with
  | error e => simp [Functor.map, Except.map] at h
  | ok r =>
    obtain ⟨p, s'⟩ := r
    simp only [Functor.map, Except.map, Except.ok.injEq] at h
    subst h
    exact av_program_spec env _ _ p s' hr

#print axioms av_leaf_spec
#print axioms avAll
#print axioms av_program_leaves

end Pory.Parser
