import PoryProofs.ProgramParsePS
import PoryProofs.ProgramInsertMS
import PoryProofs.Properties.C09
/-
P2d, stage 3: the HAND-SELECTED plain file of a file of the completed grammar, and through it the pipeline /
independence theorems of P2b lifted to the completed grammar.

* `selTop env t : Option STopM` — the plain statement of the grammar of P2b that `t` denotes under `env`:
    movementP  ↦ `movement [(mod)] Name { s₁ … sₙ }`, the steps of the SELECTED cases written out (`step * N`
                 as N steps, commas dropped);
    martP      ↦ `mart [(mod)] Name { i₁ … iₙ }`, the selected items;
    textP      ↦ `text [(mod)] Name { TYPE "value" }`, the selected value (a `format()` value formatted), carried
                 by two fresh tokens `STRINGTYPE ty`, `STRING value-with-terminator`;
  `none` when the statement does not elaborate (located errors of a poryswitch / a multiplier / a font), and in
  ONE more case: a text poryswitch with no selected case in the LINT parser (`envErrors = false`) — its value
  `("", "")` has no terminator, and no plain text statement has that value.
* `elabTopsP_sel`   : `selTops env ts = some ms → elabTopsP env ts s = elabTopsM env ms s` (any state);
* `selTops_none_err`: with environment errors on, `selTops env ts = none` only if the file does not elaborate;
* `compileFileP` (the pipeline on the reference elaboration, as `P2.Sections`), `compileToks_printP`,
  `compileFileP_sel`: **the file compiles to what its hand-selected plain file compiles to**;
* `IndepP`, `indep_mainP`, `UnrelatedP`, `remove_statementP`: the independence theorems of P2b, with the side
  conditions read on the hand-selected files (the new forms hoist nothing and consume no ids, so nothing is added).
-/
namespace Pory.P2d
open Pory Pory.Parser Pory.C02P Pory.StmtG Pory.TopParse Pory.P2 Pory.P2b Pory.Emit
open Pory.C14b (Item Items)

/-! ### terminated values -/

/-- The value already carries the terminator of its string type. -/
def Term (v : String × String) : Prop := formatTextTerminator v.1 v.2 = v.1

instance (v : String × String) : Decidable (Term v) := by unfold Term; exact inferInstance

theorem elVal_term {env : Env} {v : TextValueParse.TVal} {r : String × String} (h : elVal env v = .ok r) :
    Term r := by
  unfold elVal at h
  cases hr : v.raw env with
  | error e => rw [hr] at h; cases h
  | ok raw =>
    rw [hr] at h
    cases h
    exact C09.terminator_idempotent raw v.strType

theorem elTCases_term (env : Env) : ∀ (cs : List TCaseV) (acc tbl : List (String × String × String)),
    (∀ p ∈ acc, Term p.2) → elTCases env cs acc = .ok tbl → ∀ p ∈ tbl, Term p.2
  | [], acc, tbl, ha, h => by
    simp only [elTCases, Except.ok.injEq] at h
    subst h
    exact ha
  | c :: r, acc, tbl, ha, h => by
    simp only [elTCases] at h
    cases hv : elVal env c.val with
    | error e => rw [hv] at h; cases h
    | ok v =>
      rw [hv] at h
      refine elTCases_term env r _ tbl ?_ h
      intro p hp
      rcases List.mem_cons.1 hp with rfl | hp
      · exact elVal_term hv
      · exact ha p hp

theorem lookup_mem {α : Type} : ∀ (l : List (String × α)) (k : String) (v : α), l.lookup k = some v → (k, v) ∈ l
  | [], _, _, h => by cases h
  | (a, b) :: r, k, v, h => by
    simp only [List.lookup] at h
    by_cases hk : k = a
    · subst hk
      simp at h
      subst h
      exact List.mem_cons_self ..
    · have : (k == a) = false := by simpa using hk
      rw [this] at h
      exact List.mem_cons_of_mem _ (lookup_mem r k v h)

/-- A text body elaborates to a terminated value — except the lint parser's `("", "")` for a poryswitch without
selected case. -/
theorem elBody_term {env : Env} {b : TBody} {v : String × String} (h : elBody env b = .ok v) :
    Term v ∨ (env.envErrors = false ∧ v = ("", "")) := by
  cases b with
  | val tv => exact .inl (elVal_term h)
  | sw psw lp x rp lb cases rb =>
    simp only [elBody] at h
    cases hh : headerErr env psw x with
    | some e => rw [hh] at h; cases h
    | none =>
      rw [hh] at h
      cases hc : elTCases env cases [] with
      | error e => rw [hc] at h; cases h
      | ok tbl =>
        rw [hc] at h
        have ht := elTCases_term env cases [] tbl (by intro p hp; cases hp) hc
        simp only [pick] at h
        cases h1 : tbl.lookup (C14b.swVal env x.lit) with
        | some v1 =>
          rw [h1] at h
          cases h
          exact .inl (ht _ (lookup_mem _ _ _ h1))
        | none =>
          rw [h1] at h
          cases h2 : tbl.lookup "_" with
          | some v2 =>
            rw [h2] at h
            cases h
            exact .inl (ht _ (lookup_mem _ _ _ h2))
          | none =>
            rw [h2] at h
            cases he : env.envErrors with
            | true => rw [he] at h; cases h
            | false => rw [he] at h; cases h; exact .inr ⟨rfl, rfl⟩

/-! ### the hand-selected plain statement -/

/-- The plain text value carrying an elaborated (value with terminator, string type). -/
def valTok (v : String × String) : TextVal := .typed (tk .STRINGTYPE v.2) (tk .STRING v.1)

def selTop (env : Env) : STopP → Option STopM
  | .base t => some t
  | .movementP kw md name lb items rb =>
      match elItems env items with
      | .ok out => some (.base (.movement kw md name lb (out.map Item.step) rb))
      | .error _ => none
  | .martP kw md name lb items rb =>
      match elItems env items with
      | .ok out => some (.base (.mart kw md name lb out rb))
      | .error _ => none
  | .textP kw md name lb b rb =>
      match elBody env b with
      | .ok v => if Term v then some (.base (.text kw md name lb (valTok v) rb)) else none
      | .error _ => none

/-- **The hand-selected plain file**: every statement replaced by the plain statement it denotes. -/
def selTops (env : Env) : List STopP → Option (List STopM)
  | [] => some []
  | t :: r =>
    match selTop env t, selTops env r with
    | some a, some b => some (a :: b)
    | _, _ => none

theorem selTops_embed (env : Env) (ts : List STopM) : selTops env (embedM ts) = some ts := by
  induction ts with
  | nil => rfl
  | cons t r ih =>
    simp only [embedM, List.map_cons, selTops, selTop] at ih ⊢
    rw [ih]

theorem selTops_append (env : Env) : ∀ (a b : List STopP),
    selTops env (a ++ b) =
      match selTops env a, selTops env b with
      | some x, some y => some (x ++ y)
      | _, _ => none
  | [], b => by
    simp only [List.nil_append, selTops]
    cases selTops env b <;> rfl
  | t :: r, b => by
    simp only [List.cons_append, selTops, selTops_append env r b]
    cases selTop env t <;> cases selTops env r <;> cases selTops env b <;> rfl

theorem selTops_cons_some {env : Env} {t : STopP} {r : List STopP} {ms : List STopM}
    (h : selTops env (t :: r) = some ms) :
    ∃ m mr, selTop env t = some m ∧ selTops env r = some mr ∧ ms = m :: mr := by
  simp only [selTops] at h
  cases h1 : selTop env t with
  | none => rw [h1] at h; cases h
  | some m =>
    cases h2 : selTops env r with
    | none => rw [h1, h2] at h; cases h
    | some mr =>
      rw [h1, h2] at h
      cases h
      exact ⟨m, mr, rfl, rfl, rfl⟩

theorem expand_map_step : ∀ (out : List Tok), C14b.expand (out.map Item.step) = some out
  | [] => rfl
  | t :: r => by
    simp only [List.map_cons, C14b.expand, Item.expand, expand_map_step r]
    rfl

/-- **One statement is its hand-selected plain statement**, in every parser state. -/
theorem stepTopP_sel (env : Env) (t : STopP) (m : STopM) (h : selTop env t = some m) (s : PState) :
    stepTopP env t s = stepTopM env m s := by
  cases t with
  | base t =>
    simp only [selTop, Option.some.injEq] at h
    subst h
    rfl
  | movementP kw md name lb items rb =>
    simp only [selTop] at h
    cases he : elItems env items with
    | error e => rw [he] at h; cases h
    | ok out =>
      rw [he] at h
      simp only [Option.some.injEq] at h
      subst h
      simp only [stepTopP, stepTopM, stepTop, he, expand_map_step, Option.getD_some]
  | martP kw md name lb items rb =>
    simp only [selTop] at h
    cases he : elItems env items with
    | error e => rw [he] at h; cases h
    | ok out =>
      rw [he] at h
      simp only [Option.some.injEq] at h
      subst h
      simp only [stepTopP, stepTopM, stepTop, he]
  | textP kw md name lb b rb =>
    simp only [selTop] at h
    cases he : elBody env b with
    | error e => rw [he] at h; cases h
    | ok v =>
      rw [he] at h
      dsimp only at h
      by_cases ht : Term v
      · rw [if_pos ht] at h
        simp only [Option.some.injEq] at h
        subst h
        have hv : (valTok v).value = v := by
          obtain ⟨a, b⟩ := v
          simp only [Term] at ht
          simp [valTok, TextVal.value, TextVal.str, TextVal.strType, ht]
        simp only [stepTopP, stepTopM, stepTop, he, hv]
      · rw [if_neg ht] at h
        cases h

/-- **The file elaborates exactly as its hand-selected plain file**, from every state: the same statements, the
same state, the same located error. -/
theorem elabTopsP_sel (env : Env) : ∀ (ts : List STopP) (ms : List STopM), selTops env ts = some ms →
    ∀ s, elabTopsP env ts s = elabTopsM env ms s
  | [], ms, h, s => by
    simp only [selTops, Option.some.injEq] at h
    subst h
    rfl
  | t :: r, ms, h, s => by
    obtain ⟨m, mr, h1, h2, rfl⟩ := selTops_cons_some h
    simp only [elabTopsP, elabTopsM, stepTopP_sel env t m h1 s]
    cases stepTopM env m s with
    | error e => rfl
    | ok q =>
      obtain ⟨o, s1⟩ := q
      simp only [elabTopsP_sel env r mr h2 s1]
      cases elabTopsM env mr s1 <;> rfl

/-- A statement without hand-selected form does not elaborate (environment errors on). -/
theorem selTop_none_err (env : Env) (henv : env.envErrors = true) (t : STopP) (h : selTop env t = none)
    (s : PState) : ∃ e, stepTopP env t s = .error e := by
  cases t with
  | base t => simp [selTop] at h
  | movementP kw md name lb items rb =>
    simp only [selTop] at h
    cases he : elItems env items with
    | error e => exact ⟨e, by simp [stepTopP, he]⟩
    | ok out => rw [he] at h; cases h
  | martP kw md name lb items rb =>
    simp only [selTop] at h
    cases he : elItems env items with
    | error e => exact ⟨e, by simp [stepTopP, he]⟩
    | ok out => rw [he] at h; cases h
  | textP kw md name lb b rb =>
    simp only [selTop] at h
    cases he : elBody env b with
    | error e => exact ⟨e, by simp [stepTopP, he]⟩
    | ok v =>
      rw [he] at h
      dsimp only at h
      rcases elBody_term he with ht | ⟨hf, _⟩
      · rw [if_pos ht] at h; cases h
      · rw [henv] at hf; cases hf

/-- A file without hand-selected form does not elaborate (environment errors on), whatever the state. -/
theorem selTops_none_err (env : Env) (henv : env.envErrors = true) : ∀ (ts : List STopP), selTops env ts = none →
    ∀ s, ∃ e, elabTopsP env ts s = .error e
  | [], h, _ => by cases h
  | t :: r, h, s => by
    simp only [elabTopsP]
    cases h1 : selTop env t with
    | none =>
      obtain ⟨e, he⟩ := selTop_none_err env henv t h1 s
      exact ⟨e, by rw [he]⟩
    | some m =>
      cases hs : stepTopP env t s with
      | error e => exact ⟨e, rfl⟩
      | ok q =>
        obtain ⟨o, s1⟩ := q
        have h2 : selTops env r = none := by
          simp only [selTops, h1] at h
          cases h2 : selTops env r with
          | none => rfl
          | some mr => rw [h2] at h; cases h
        obtain ⟨e, he⟩ := selTops_none_err env henv r h2 s1
        exact ⟨e, by simp only [he]⟩

/-- A file that elaborates has a hand-selected form (environment errors on). -/
theorem selTops_defined (env : Env) (henv : env.envErrors = true) (ts : List STopP) (s : PState)
    (r : List Top × PState) (h : elabTopsP env ts s = .ok r) : ∃ ms, selTops env ts = some ms := by
  cases hs : selTops env ts with
  | some ms => exact ⟨ms, rfl⟩
  | none =>
    obtain ⟨e, he⟩ := selTops_none_err env henv ts hs s
    rw [he] at h
    cases h

/-! ### the pipeline -/

/-- The pipeline on the reference elaboration of a file of the completed grammar (cf. `P2b.compileFileM`). -/
def compileFileP (env : Env) (o : Opts) (eofT : Tok) (ts : List STopP) : Except CErr Sections :=
  match elabTopsP env ts (initState eofT) with
  | .error e => .error (.parse e)
  | .ok (tops, s) =>
    match finish tops s with
    | .error e => .error (.parse e)
    | .ok _ =>
      match sectionsOf o tops s with
      | .error e => .error (.emit e)
      | .ok S => .ok S

theorem compileFileP_embed (env : Env) (o : Opts) (eofT : Tok) (ts : List STopM) :
    compileFileP env o eofT (embedM ts) = compileFileM env o eofT ts := by
  unfold compileFileP compileFileM
  rw [elabTopsP_embed]
  cases elabTopsM env ts (initState eofT) with
  | error e => rfl
  | ok q => rfl

/-- The model's pipeline (`parseTokens`, then `emitProgram`) on the printed tokens of a file is `compileFileP`. -/
theorem compileToks_printP (env : Env) (o : Opts) (eofT : Tok) (heof : eofT.type = .EOF) (ts : List STopP)
    (hwf : TWFP ts) :
    compileToks env o (printTopsP ts ++ [eofT]) =
      match compileFileP env o eofT ts with
      | .error e => .error e
      | .ok S => .ok S.lines := by
  unfold compileToks compileFileP
  rw [parseTokens_elabP env eofT heof ts hwf]
  unfold elabFileP
  cases elabTopsP env ts (initState eofT) with
  | error e => rfl
  | ok q =>
    obtain ⟨tops, s⟩ := q
    simp only
    cases hf : finish tops s with
    | error e => rfl
    | ok p =>
      simp only [emitProgram_sections o tops s p hf]
      cases sectionsOf o tops s <;> rfl

/-- **The file compiles to what its hand-selected plain file compiles to** (same sections, or the same error). -/
theorem compileFileP_sel (env : Env) (o : Opts) (eofT : Tok) (ts : List STopP) (ms : List STopM)
    (h : selTops env ts = some ms) : compileFileP env o eofT ts = compileFileM env o eofT ms := by
  unfold compileFileP compileFileM
  rw [elabTopsP_sel env ts ms h]
  cases elabTopsM env ms (initState eofT) with
  | error e => rfl
  | ok q => rfl

theorem compileFileP_none (env : Env) (henv : env.envErrors = true) (o : Opts) (eofT : Tok) (ts : List STopP)
    (h : selTops env ts = none) : ∃ e, compileFileP env o eofT ts = .error e := by
  obtain ⟨e, he⟩ := selTops_none_err env henv ts h (initState eofT)
  exact ⟨.parse e, by unfold compileFileP; rw [he]⟩

/-! ### independence -/

/-- The side condition of `P2b.tops_independent_ms`, read on the hand-selected files. -/
def IndepP (env : Env) (eofT : Tok) (ts1 ts2 : List STopP) : Prop :=
  match selTops env ts1, selTops env ts2 with
  | some a, some b => IndepM env eofT a b
  | _, _ => True

instance (env : Env) (eofT : Tok) (ts1 ts2 : List STopP) : Decidable (IndepP env eofT ts1 ts2) := by
  unfold IndepP
  cases selTops env ts1 <;> cases selTops env ts2 <;> exact inferInstance

/-- **Independence (C17), completed grammar.** -/
theorem indep_mainP (env : Env) (henv : env.envErrors = true) (o : Opts) (eofT : Tok) (ts1 ts2 : List STopP)
    (h : IndepP env eofT ts1 ts2) (S : Sections) :
    compileFileP env o eofT (ts1 ++ ts2) = .ok S ↔
      ∃ S1 S2, compileFileP env o eofT ts1 = .ok S1 ∧ compileFileP env o eofT ts2 = .ok S2 ∧
        S = S1.append S2 := by
  unfold IndepP at h
  cases h1 : selTops env ts1 with
  | none =>
    have h12 : selTops env (ts1 ++ ts2) = none := by rw [selTops_append, h1]
    obtain ⟨e1, he1⟩ := compileFileP_none env henv o eofT ts1 h1
    obtain ⟨e, he⟩ := compileFileP_none env henv o eofT _ h12
    rw [he, he1]
    constructor
    · intro hh; cases hh
    · rintro ⟨_, _, hh, _⟩; cases hh
  | some a =>
    cases h2 : selTops env ts2 with
    | none =>
      have h12 : selTops env (ts1 ++ ts2) = none := by rw [selTops_append, h1, h2]
      obtain ⟨e2, he2⟩ := compileFileP_none env henv o eofT ts2 h2
      obtain ⟨e, he⟩ := compileFileP_none env henv o eofT _ h12
      rw [he, he2]
      constructor
      · intro hh; cases hh
      · rintro ⟨_, _, _, hh, _⟩; cases hh
    | some b =>
      rw [h1, h2] at h
      have h12 : selTops env (ts1 ++ ts2) = some (a ++ b) := by rw [selTops_append, h1, h2]
      rw [compileFileP_sel env o eofT _ _ h12, compileFileP_sel env o eofT _ _ h1,
        compileFileP_sel env o eofT _ _ h2]
      exact indep_mainM env o eofT a b h S

/-- A parse error of the first part is the parse error of the file (no side condition). -/
theorem parse_error_leftP (env : Env) (s0 : PState) (ts1 ts2 : List STopP) (e : PFail)
    (h : elabTopsP env ts1 s0 = .error e) : elabTopsP env (ts1 ++ ts2) s0 = .error e := by
  rw [elabTopsP_append, h]

/-- A parse error of the second part (compiled alone) is the parse error of the file — for the hand-selected
files `a`, `b` of the two parts (when a part has none, it has a located poryswitch / multiplier / font error,
which does not depend on the parser state: `selTop_none_err`). -/
theorem parse_error_rightP (env : Env) (eofT : Tok) (ts1 ts2 : List STopP) (a b : List STopM)
    (ha : selTops env ts1 = some a) (hb : selTops env ts2 = some b) (h : IndepM env eofT a b)
    (tops1 : List Top) (s1 : PState) (h1 : elabTopsP env ts1 (initState eofT) = .ok (tops1, s1)) (e : PFail)
    (h2 : elabTopsP env ts2 (initState eofT) = .error e) :
    elabTopsP env (ts1 ++ ts2) (initState eofT) = .error e := by
  have h12 : selTops env (ts1 ++ ts2) = some (a ++ b) := by rw [selTops_append, ha, hb]
  rw [elabTopsP_sel env _ _ ha] at h1
  rw [elabTopsP_sel env _ _ hb] at h2
  rw [elabTopsP_sel env _ _ h12]
  unfold IndepM at h
  rw [h1] at h
  have := indep_parseM env eofT a b tops1 s1 h1 h.1
  rw [h2] at this
  exact this

/-- The side condition of `P2b.statement_independent_ms`, read on the hand-selected files. -/
def UnrelatedP (env : Env) (eofT : Tok) (pre : List STopP) (t : STopP) (post : List STopP) : Prop :=
  match selTops env pre, selTop env t, selTops env post with
  | some a, some m, some b => UnrelatedM env eofT a m b
  | _, _, _ => True

instance (env : Env) (eofT : Tok) (pre : List STopP) (t : STopP) (post : List STopP) :
    Decidable (UnrelatedP env eofT pre t post) := by
  unfold UnrelatedP
  cases selTops env pre <;> cases selTop env t <;> cases selTops env post <;> exact inferInstance

theorem selTops_mid (env : Env) (pre : List STopP) (t : STopP) (post : List STopP) :
    selTops env (pre ++ t :: post) =
      match selTops env pre, selTop env t, selTops env post with
      | some a, some m, some b => some (a ++ m :: b)
      | _, _, _ => none := by
  rw [selTops_append]
  simp only [selTops]
  cases selTops env pre <;> cases selTop env t <;> cases selTops env post <;> rfl

/-- **Removing an unrelated statement**, completed grammar. -/
theorem remove_statementP (env : Env) (henv : env.envErrors = true) (o : Opts) (eofT : Tok) (pre : List STopP)
    (t : STopP) (post : List STopP) (h : UnrelatedP env eofT pre t post) (S' : Sections)
    (hc : compileFileP env o eofT (pre ++ t :: post) = .ok S') :
    ∃ P T Q : Sections, S' = P.append (T.append Q) ∧ T.tops.length ≤ 1 ∧
      compileFileP env o eofT (pre ++ post) = .ok (P.append Q) := by
  cases hall : selTops env (pre ++ t :: post) with
  | none =>
    obtain ⟨e, he⟩ := compileFileP_none env henv o eofT _ hall
    rw [he] at hc
    cases hc
  | some ms =>
    rw [selTops_mid] at hall
    unfold UnrelatedP at h
    cases h1 : selTops env pre with
    | none => rw [h1] at hall; cases hall
    | some a =>
      cases h2 : selTop env t with
      | none => rw [h1, h2] at hall; cases hall
      | some m =>
        cases h3 : selTops env post with
        | none => rw [h1, h2, h3] at hall; cases hall
        | some b =>
          rw [h1, h2, h3] at h
          have hfull : selTops env (pre ++ t :: post) = some (a ++ m :: b) := by
            rw [selTops_mid, h1, h2, h3]
          have hpp : selTops env (pre ++ post) = some (a ++ b) := by rw [selTops_append, h1, h3]
          rw [compileFileP_sel env o eofT _ _ hfull] at hc
          rw [compileFileP_sel env o eofT _ _ hpp]
          exact remove_statementM env o eofT a m b h S' hc

/-! ### the hand-selected file is a file of the grammar of P2b again -/

theorem pick_mem {α : Type} {env : Env} {psw x : Tok} {cs : List (String × α)} {d v : α}
    (h : pick env psw x cs d = .ok v) : (∃ k, (k, v) ∈ cs) ∨ v = d := by
  simp only [pick] at h
  cases h1 : cs.lookup (C14b.swVal env x.lit) with
  | some v1 =>
    rw [h1] at h
    cases h
    exact .inl ⟨_, lookup_mem _ _ _ h1⟩
  | none =>
    rw [h1] at h
    cases h2 : cs.lookup "_" with
    | some v2 =>
      rw [h2] at h
      cases h
      exact .inl ⟨_, lookup_mem _ _ _ h2⟩
    | none =>
      rw [h2] at h
      cases he : env.envErrors with
      | true => rw [he] at h; cases h
      | false => rw [he] at h; cases h; exact .inr rfl

theorem plainEl_ident {m : Bool} {i : Item} {out : List Tok} (hwf : plainWF m i) (h : plainEl i = .ok out) :
    ∀ t ∈ out, t.type = .IDENT := by
  cases i with
  | step n =>
    simp only [plainEl, Except.ok.injEq] at h
    subst h
    intro t ht
    simp only [List.mem_singleton] at ht
    subst ht
    exact hwf
  | stepMul n st' x =>
    simp only [plainEl] at h
    cases hk : C14b.mulCheck x.lit with
    | error e => rw [hk] at h; cases h
    | ok k =>
      rw [hk] at h
      simp only [Except.ok.injEq] at h
      subst h
      intro t ht
      rw [(List.mem_replicate.mp ht).2]
      exact hwf.2.1
  | comma c =>
    simp only [plainEl, Except.ok.injEq] at h
    subst h
    intro t ht
    cases ht

mutual
theorem elItem_ident (env : Env) (m : Bool) : ∀ (i : C14b.ItemP) (out : List Tok), wfItem m i →
    elItem env i = .ok out → ∀ t ∈ out, t.type = .IDENT
  | .plain it, out, hwf, h => by
    simp only [wfItem] at hwf
    simp only [elItem] at h
    exact plainEl_ident hwf h
  | .sw psw lp x rp lb cases rb, out, hwf, h => by
    simp only [wfItem] at hwf
    simp only [elItem] at h
    cases hh : headerErr env psw x with
    | some e => rw [hh] at h; cases h
    | none =>
      rw [hh] at h
      cases hc : elCases env cases [] with
      | error e => rw [hc] at h; cases h
      | ok cs =>
        rw [hc] at h
        have ht := elCases_ident env m cases [] cs hwf.2.2.2.2.2.2 (by intro p hp; cases hp) hc
        rcases pick_mem h with ⟨k, hk⟩ | rfl
        · exact ht _ hk
        · intro t ht'; cases ht'
theorem elCases_ident (env : Env) (m : Bool) : ∀ (cs : C14b.Cases) (acc res : List (String × List Tok)),
    wfCases m cs → (∀ p ∈ acc, ∀ t ∈ p.2, t.type = .IDENT) → elCases env cs acc = .ok res →
    ∀ p ∈ res, ∀ t ∈ p.2, t.type = .IDENT
  | .nil, acc, res, _, ha, h => by
    simp only [elCases, Except.ok.injEq] at h
    subst h
    exact ha
  | .colon v c e rest, acc, res, hwf, ha, h => by
    simp only [wfCases] at hwf
    simp only [elCases] at h
    cases he : elItem env e with
    | error e' => rw [he] at h; cases h
    | ok l =>
      rw [he] at h
      refine elCases_ident env m rest _ res hwf.2.2.2 ?_ h
      intro p hp
      rcases List.mem_cons.1 hp with rfl | hp
      · exact elItem_ident env m e l hwf.2.2.1 he
      · exact ha p hp
  | .brace v lb items rb rest, acc, res, hwf, ha, h => by
    simp only [wfCases] at hwf
    simp only [elCases] at h
    cases he : elItems env items with
    | error e' => rw [he] at h; cases h
    | ok l =>
      rw [he] at h
      refine elCases_ident env m rest _ res hwf.2.2.2.2 ?_ h
      intro p hp
      rcases List.mem_cons.1 hp with rfl | hp
      · exact elItems_ident env m items l hwf.2.2.2.1 he
      · exact ha p hp
theorem elItems_ident (env : Env) (m : Bool) : ∀ (is : Items) (out : List Tok), wfItems m is →
    elItems env is = .ok out → ∀ t ∈ out, t.type = .IDENT
  | .nil, out, _, h => by
    simp only [elItems, Except.ok.injEq] at h
    subst h
    intro t ht
    cases ht
  | .cons i r, out, hwf, h => by
    simp only [wfItems] at hwf
    simp only [elItems] at h
    cases hi : elItem env i with
    | error e => rw [hi] at h; cases h
    | ok a =>
      rw [hi] at h
      cases hr : elItems env r with
      | error e => rw [hr] at h; cases h
      | ok b =>
        rw [hr] at h
        simp only [Except.ok.injEq] at h
        subst h
        intro t ht
        rcases List.mem_append.1 ht with ht | ht
        · exact elItem_ident env m i a hwf.1 hi t ht
        · exact elItems_ident env m r b hwf.2 hr t ht
end

theorem selTop_isConst {env : Env} {t : STopP} {m : STopM} (h : selTop env t = some m) : m.isConst = t.isConst := by
  cases t with
  | base t => simp only [selTop, Option.some.injEq] at h; subst h; rfl
  | movementP kw md name lb items rb =>
    simp only [selTop] at h
    cases he : elItems env items with
    | error e => rw [he] at h; cases h
    | ok out => rw [he] at h; cases h; rfl
  | martP kw md name lb items rb =>
    simp only [selTop] at h
    cases he : elItems env items with
    | error e => rw [he] at h; cases h
    | ok out => rw [he] at h; cases h; rfl
  | textP kw md name lb b rb =>
    simp only [selTop] at h
    cases he : elBody env b with
    | error e => rw [he] at h; cases h
    | ok v =>
      rw [he] at h
      dsimp only at h
      by_cases ht : Term v
      · rw [if_pos ht] at h; cases h; rfl
      · rw [if_neg ht] at h; cases h

theorem selTop_wf {env : Env} {t : STopP} {m : STopM} (h : selTop env t = some m) (hwf : TopWFP t) : TopWFM m := by
  cases t with
  | base t => simp only [selTop, Option.some.injEq] at h; subst h; exact hwf
  | movementP kw md name lb items rb =>
    simp only [selTop] at h
    obtain ⟨h1, h2, h3, h4, h5, h6⟩ := hwf
    cases he : elItems env items with
    | error e => rw [he] at h; cases h
    | ok out =>
      rw [he] at h
      cases h
      have hid := elItems_ident env false items out h5 he
      refine ⟨h1, h2, h3, h4, ?_, by rw [expand_map_step]; rfl, h6⟩
      intro i hi
      obtain ⟨t, ht, rfl⟩ := List.mem_map.1 hi
      exact hid t ht
  | martP kw md name lb items rb =>
    simp only [selTop] at h
    obtain ⟨h1, h2, h3, h4, h5, h6⟩ := hwf
    cases he : elItems env items with
    | error e => rw [he] at h; cases h
    | ok out =>
      rw [he] at h
      cases h
      exact ⟨h1, h2, h3, h4, elItems_ident env true items out h5 he, h6⟩
  | textP kw md name lb b rb =>
    simp only [selTop] at h
    obtain ⟨h1, h2, h3, h4, h5, h6⟩ := hwf
    cases he : elBody env b with
    | error e => rw [he] at h; cases h
    | ok v =>
      rw [he] at h
      dsimp only at h
      by_cases ht : Term v
      · rw [if_pos ht] at h
        cases h
        exact ⟨h1, h2, h3, h4, ⟨rfl, rfl⟩, h6⟩
      · rw [if_neg ht] at h; cases h

/-- **The hand-selected file of a well-formed file is a well-formed file of the grammar of P2b**. -/
theorem selTops_twf (env : Env) : ∀ (ts : List STopP) (ms : List STopM), selTops env ts = some ms → TWFP ts →
    TWFM ms
  | [], ms, h, _ => by
    simp only [selTops, Option.some.injEq] at h
    subst h
    trivial
  | t :: r, ms, h, hwf => by
    obtain ⟨m, mr, h1, h2, rfl⟩ := selTops_cons_some h
    obtain ⟨w1, w2, w3⟩ := hwf
    refine ⟨selTop_wf h1 w1, ?_, selTops_twf env r mr h2 w3⟩
    intro hc hn
    subst hn
    rw [selTop_isConst h1] at hc
    apply w2 hc
    cases r with
    | nil => rfl
    | cons x y =>
      obtain ⟨_, _, _, _, hh⟩ := selTops_cons_some h2
      cases hh

/-- **C12 for lists and texts, whole files, on tokens**: the model's pipeline on the printed tokens of the file
and on the printed tokens of its hand-selected plain file give the same result (lines or error). -/
theorem compileToks_sel (env : Env) (o : Opts) (eofT : Tok) (heof : eofT.type = .EOF) (ts : List STopP)
    (ms : List STopM) (h : selTops env ts = some ms) (hwf : TWFP ts) :
    compileToks env o (printTopsP ts ++ [eofT]) = compileToks env o (printTopsM ms ++ [eofT]) := by
  rw [compileToks_printP env o eofT heof ts hwf, compileToks_printM env o eofT heof ms (selTops_twf env ts ms h hwf),
    compileFileP_sel env o eofT ts ms h]
  cases compileFileM env o eofT ms <;> rfl

end Pory.P2d
