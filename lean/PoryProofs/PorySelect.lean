import PoryProofs.StmtGrammar
/-
C12c helpers (statement-position poryswitch), part 1: definitions.

* `selS / selL / selElifs / selElse / selCases / selPCases env` — the surface block with every statement-level
  poryswitch replaced (recursively) by the statements of the selected case.
* `clS / clL / …` — the "`continue` is directly followed by `}`" rule as a syntactic predicate (the flags of
  `elabS` / `elabL`).
* `Ren` (a correspondence of command ids and of scope ids), `Ren.Inv`, `Ren.Le`, the relations `RelS / RelL /
  RelElifs / RelOptL / RelCases` ("same statement up to the id correspondence"), `relImp`.
* `elabL_append`, `elabL_single`.
-/
namespace Pory.C12c
open Pory Pory.Parser Pory.C02P Pory.C10b Pory.SwitchParse Pory.StmtG
open Pory.C14b (swVal)
open Pory.C10c
open Pory.C11b (operandName badPosMsg Form printAuto autoLeafT leftSideMsg)

/-! ### selection on the surface syntax -/

mutual
/-- One statement becomes a list of statements (a poryswitch becomes the selected statements). -/
def selS (env : Env) : SStmt → Option (List SStmt)
  | .cmd name lp a0 more rp => some [.cmd name lp a0 more rp]
  | .cmdI name lp a0 more rp => some [.cmdI name lp a0 more rp]
  | .cmdE name lp rp => some [.cmdE name lp rp]
  | .cmd0 name => some [.cmd0 name]
  | .label name colon => some [.label name colon]
  | .labelS name lp sc rp colon => some [.labelS name lp sc rp colon]
  | .ite i lp c rp lb body rb elifs els =>
      match selL env body, selElifs env elifs, selElse env els with
      | some b, some es, some el => some [.ite i lp c rp lb b rb es el]
      | _, _, _ => none
  | .while_ w lp c rp lb body rb =>
      match selL env body with
      | some b => some [.while_ w lp c rp lb b rb]
      | none => none
  | .whileInf w lb body rb =>
      match selL env body with
      | some b => some [.whileInf w lb b rb]
      | none => none
  | .doWhile d lb body rb w lp c rp =>
      match selL env body with
      | some b => some [.doWhile d lb b rb w lp c rp]
      | none => none
  | .brk t => some [.brk t]
  | .cont t => some [.cont t]
  | .switch_ sw lp v lp2 ops rp2 rp lb cases rb =>
      match selCases env cases with
      | some cs => some [.switch_ sw lp v lp2 ops rp2 rp lb cs rb]
      | none => none
  | .switchA sw lp name lp2 a0 more rp2 rp lb cases rb =>
      match selCases env cases with
      | some cs => some [.switchA sw lp name lp2 a0 more rp2 rp lb cs rb]
      | none => none
  | .pory _ _ x _ _ cases _ =>
      if env.envErrors && env.switches.isEmpty then none
      else if env.envErrors && (env.switches.lookup x.lit).isNone then none
      else
        match selectCase env (selPCases env cases []) (swVal env x.lit) with
        | some r => r
        | none => if env.envErrors then none else some []
def selL (env : Env) : List SStmt → Option (List SStmt)
  | [] => some []
  | x :: r =>
      match selS env x, selL env r with
      | some a, some b => some (a ++ b)
      | _, _ => none
def selElifs (env : Env) : List SElif → Option (List SElif)
  | [] => some []
  | .mk e lp c rp lb body rb :: r =>
      match selL env body, selElifs env r with
      | some b, some es => some (.mk e lp c rp lb b rb :: es)
      | _, _ => none
def selElse (env : Env) : SElse → Option SElse
  | .none => some .none
  | .some e lb body rb =>
      match selL env body with
      | some b => some (.some e lb b rb)
      | none => none
def selCases (env : Env) : List SCase → Option (List SCase)
  | [] => some []
  | .case c vs colon body :: r =>
      match selL env body, selCases env r with
      | some b, some cs => some (.case c vs colon b :: cs)
      | _, _ => none
  | .dflt d colon body :: r =>
      match selL env body, selCases env r with
      | some b, some cs => some (.dflt d colon b :: cs)
      | _, _ => none
/-- The table of the selected forms of the cases (newest entry first, as the parser's table). -/
def selPCases (env : Env) : List SPCase → List (String × Option (List SStmt)) →
    List (String × Option (List SStmt))
  | [], acc => acc
  | .colon key _ x :: r, acc => selPCases env r ((key.lit, selS env x) :: acc)
  | .brace key _ body _ :: r, acc => selPCases env r ((key.lit, selL env body) :: acc)
end

/-- **`selectB`**: the block with every statement-level poryswitch replaced (recursively: also inside the
selected case and inside `if` / `while` / `do` / `switch` bodies) by the statements of the case selected by the
`-s` value (newest entry for the value, else newest `_`); `none` when some poryswitch has no selected case
(no `-s` at all / switch undefined / no matching case and no `_`, with environment errors on; with
environment errors off such a poryswitch is empty). -/
def selectB (env : Env) (b : List SStmt) : Option (List SStmt) := selL env b

/-! ### the "`continue` is directly followed by `}`" rule -/

mutual
def clS (nx : Bool) : SStmt → Bool
  | .cmd .. => true
  | .cmdI .. => true
  | .cmdE .. => true
  | .cmd0 _ => true
  | .label .. => true
  | .labelS .. => true
  | .ite _ _ _ _ _ body _ elifs els => clL true body && clElifs elifs && clElse els
  | .while_ _ _ _ _ _ body _ => clL true body
  | .whileInf _ _ body _ => clL true body
  | .doWhile _ _ body _ _ _ _ _ => clL true body
  | .brk _ => true
  | .cont _ => nx
  | .switch_ _ _ _ _ _ _ _ _ cases _ => clCases cases
  | .switchA _ _ _ _ _ _ _ _ _ cases _ => clCases cases
  | .pory _ _ _ _ _ cases _ => clPCases cases
def clL (last : Bool) : List SStmt → Bool
  | [] => true
  | x :: r => clS (r.isEmpty && last) x && clL last r
def clElifs : List SElif → Bool
  | [] => true
  | .mk _ _ _ _ _ body _ :: r => clL true body && clElifs r
def clElse : SElse → Bool
  | .none => true
  | .some _ _ body _ => clL true body
def clCases : List SCase → Bool
  | [] => true
  | .case _ _ _ body :: r => clL r.isEmpty body && clCases r
  | .dflt _ _ body :: r => clL r.isEmpty body && clCases r
def clPCases : List SPCase → Bool
  | [] => true
  | .colon _ _ x :: r => clS r.isEmpty x && clPCases r
  | .brace _ _ body _ :: r => clL true body && clPCases r
end

/-- Every `continue` of the block (closed by `}`) is directly followed by a `}`. -/
def ContLast (b : List SStmt) : Prop := clL true b = true
instance (b : List SStmt) : Decidable (ContLast b) := by unfold ContLast; exact inferInstance

theorem isEmpty_app {α : Type} (r b : List α) : (r ++ b).isEmpty = (r.isEmpty && b.isEmpty) := by
  cases r <;> simp

theorem clL_append (last : Bool) : ∀ (a b : List SStmt),
    clL last (a ++ b) = (clL (b.isEmpty && last) a && clL last b)
  | [], b => by simp [clL]
  | x :: r, b => by
    have ih := clL_append last r b
    simp only [List.cons_append, clL, ih, isEmpty_app, Bool.and_assoc]

/-! ### `elabL` on an append / a singleton -/

theorem imp_add_assoc (a b c : ImpData) : (a.add b).add c = a.add (b.add c) := by
  cases a; cases b; cases c; simp [ImpData.add]
theorem imp_nil_add (a : ImpData) : ({} : ImpData).add a = a := by
  cases a; simp [ImpData.add]
theorem imp_add_nil (a : ImpData) : a.add {} = a := by
  cases a; simp [ImpData.add]

theorem elabL_nil (env : Env) (sn : String) (σ : String → String) (B C : List Nat) (last : Bool)
    (sid cid : Nat) : elabL env sn σ B C last [] sid cid = .ok ([], {}, sid, cid) := by
  rw [elabL]

theorem elabL_cons (env : Env) (sn : String) (σ : String → String) (B C : List Nat) (last : Bool)
    (x : SStmt) (r : List SStmt) (sid cid : Nat) :
    elabL env sn σ B C last (x :: r) sid cid =
      match elabS env sn σ B C (r.isEmpty && last) x sid cid with
      | .error e => .error e
      | .ok (a, m1, sid1, cid1) =>
        match elabL env sn σ B C last r sid1 cid1 with
        | .error e => .error e
        | .ok (b, m2, sid2, cid2) => .ok (a ++ b, m1.add m2, sid2, cid2) := by
  rw [elabL]; rfl

theorem elabL_append (env : Env) (sn : String) (σ : String → String) (B C : List Nat) (last : Bool) :
    ∀ (a b : List SStmt) (sid cid : Nat),
    elabL env sn σ B C last (a ++ b) sid cid =
      match elabL env sn σ B C (b.isEmpty && last) a sid cid with
      | .error e => .error e
      | .ok (sa, ma, sid1, cid1) =>
        match elabL env sn σ B C last b sid1 cid1 with
        | .error e => .error e
        | .ok (sb, mb, sid2, cid2) => .ok (sa ++ sb, ma.add mb, sid2, cid2)
  | [], b, sid, cid => by
    simp only [List.nil_append, elabL_nil]
    cases elabL env sn σ B C last b sid cid with
    | error e => rfl
    | ok r => obtain ⟨sb, mb, s2, c2⟩ := r; simp [imp_nil_add]
  | x :: r, b, sid, cid => by
    simp only [List.cons_append, elabL_cons, isEmpty_app, Bool.and_assoc]
    cases elabS env sn σ B C (r.isEmpty && (b.isEmpty && last)) x sid cid with
    | error e => rfl
    | ok q =>
      obtain ⟨a1, m1, s1, c1⟩ := q
      simp only [elabL_append env sn σ B C last r b s1 c1]
      cases elabL env sn σ B C (b.isEmpty && last) r s1 c1 with
      | error e => rfl
      | ok q2 =>
        obtain ⟨a2, m2, s2, c2⟩ := q2
        simp only
        cases elabL env sn σ B C last b s2 c2 with
        | error e => rfl
        | ok q3 =>
          obtain ⟨a3, m3, s3, c3⟩ := q3
          simp [imp_add_assoc]

theorem elabL_single (env : Env) (sn : String) (σ : String → String) (B C : List Nat) (last : Bool)
    (x : SStmt) (sid cid : Nat) :
    elabL env sn σ B C last [x] sid cid = elabS env sn σ B C last x sid cid := by
  simp only [elabL_cons, elabL_nil, List.isEmpty_nil, Bool.true_and]
  cases elabS env sn σ B C last x sid cid with
  | error e => rfl
  | ok q => obtain ⟨a1, m1, s1, c1⟩ := q; simp [imp_add_nil]

/-! ### id correspondences -/

/-- A correspondence of command ids (`c new old`) and of scope ids (`s new old`). -/
structure Ren where
  c : Nat → Nat → Prop
  s : Nat → Nat → Prop

/-- Order preserving (hence a partial injective function in both directions). -/
def Mono (P : Nat → Nat → Prop) : Prop := ∀ n o n2 o2, P n o → P n2 o2 → (n < n2 ↔ o < o2)

theorem Mono.functional {P : Nat → Nat → Prop} (h : Mono P) {n o o2 : Nat} (h1 : P n o) (h2 : P n o2) :
    o = o2 := by
  have a := h n o n o2 h1 h2
  have b := h n o2 n o h2 h1
  omega

theorem Mono.injective {P : Nat → Nat → Prop} (h : Mono P) {n n2 o : Nat} (h1 : P n o) (h2 : P n2 o) :
    n = n2 := by
  have a := h n o n2 o h1 h2
  have b := h n2 o n o h2 h1
  omega

/-- The four counters: next scope id / next command id of the new run (`s'`, `c'`) and of the original run
(`s`, `c`). -/
structure Bd where
  s' : Nat
  c' : Nat
  s : Nat
  c : Nat

def Bd.le (a b : Bd) : Prop := a.s' ≤ b.s' ∧ a.c' ≤ b.c' ∧ a.s ≤ b.s ∧ a.c ≤ b.c

theorem Bd.le_refl (a : Bd) : a.le a := ⟨Nat.le_refl _, Nat.le_refl _, Nat.le_refl _, Nat.le_refl _⟩
theorem Bd.le_trans {a b c : Bd} (h1 : a.le b) (h2 : b.le c) : a.le c := by
  unfold Bd.le at *; omega

/-- Both correspondences preserve the order, relate only ids below the counters, and every id below the
counters of the new run has a partner. -/
structure Ren.Inv (R : Ren) (d : Bd) : Prop where
  cm : Mono R.c
  sm : Mono R.s
  cb : ∀ n o, R.c n o → n < d.c' ∧ o < d.c
  sb : ∀ n o, R.s n o → n < d.s' ∧ o < d.s
  ct : ∀ n, n < d.c' → ∃ o, R.c n o
  st : ∀ n, n < d.s' → ∃ o, R.s n o

/-- Later counters of the original run. -/
theorem Ren.Inv.mono {R : Ren} {s' c' s c s2 c2 : Nat} (h : R.Inv ⟨s', c', s, c⟩) (h1 : s ≤ s2) (h2 : c ≤ c2) :
    R.Inv ⟨s', c', s2, c2⟩ := by
  refine ⟨h.cm, h.sm, ?_, ?_, h.ct, h.st⟩
  · intro n o hn; have := h.cb n o hn; simp only at this ⊢; omega
  · intro n o hn; have := h.sb n o hn; simp only at this ⊢; omega

/-- `R` extends `R0` by pairs of ids at or above the counters `d0`; the counters advance from `d0` to `d1`,
those of the new run by at most as much as those of the original run. -/
structure Ren.Le (R0 R : Ren) (d0 d1 : Bd) : Prop where
  bd : d0.le d1
  gs : d1.s' + d0.s ≤ d1.s + d0.s'
  gc : d1.c' + d0.c ≤ d1.c + d0.c'
  csub : ∀ n o, R0.c n o → R.c n o
  ssub : ∀ n o, R0.s n o → R.s n o
  cnew : ∀ n o, R.c n o → R0.c n o ∨ (d0.c' ≤ n ∧ d0.c ≤ o)
  snew : ∀ n o, R.s n o → R0.s n o ∨ (d0.s' ≤ n ∧ d0.s ≤ o)

theorem Ren.Le.refl (R : Ren) (d : Bd) : R.Le R d d :=
  ⟨Bd.le_refl d, by omega, by omega, fun _ _ h => h, fun _ _ h => h, fun _ _ h => .inl h, fun _ _ h => .inl h⟩

theorem Ren.Le.trans {R0 R1 R2 : Ren} {d0 d1 d2 : Bd} (h1 : R0.Le R1 d0 d1) (h2 : R1.Le R2 d1 d2) :
    R0.Le R2 d0 d2 := by
  have hb := h1.bd
  obtain ⟨b1, b2, b3, b4⟩ := hb
  have g1 := h1.gs; have g2 := h1.gc; have g3 := h2.gs; have g4 := h2.gc
  refine ⟨Bd.le_trans h1.bd h2.bd, by omega, by omega, fun n o h => h2.csub n o (h1.csub n o h),
    fun n o h => h2.ssub n o (h1.ssub n o h), ?_, ?_⟩
  · intro n o h
    rcases h2.cnew n o h with h | h
    · exact h1.cnew n o h
    · right; omega
  · intro n o h
    rcases h2.snew n o h with h | h
    · exact h1.snew n o h
    · right; omega

/-- Weaken the counters of the original run: an earlier start, a later end. -/
theorem Ren.Le.weaken {R0 R : Ren} {s' c' s c s1' c1' s1 c1 sid cid sid1 cid1 : Nat}
    (h : R0.Le R ⟨s', c', s, c⟩ ⟨s1', c1', s1, c1⟩) (h1 : sid ≤ s) (h2 : cid ≤ c) (h3 : s1 ≤ sid1)
    (h4 : c1 ≤ cid1) : R0.Le R ⟨s', c', sid, cid⟩ ⟨s1', c1', sid1, cid1⟩ := by
  have hb := h.bd
  have g1 := h.gs; have g2 := h.gc
  simp only [Bd.le] at hb g1 g2
  refine ⟨by simp only [Bd.le]; omega, by simp only; omega, by simp only; omega, h.csub, h.ssub, ?_, ?_⟩
  · intro n o hn
    rcases h.cnew n o hn with h | h
    · exact .inl h
    · right; simp only at h ⊢; omega
  · intro n o hn
    rcases h.snew n o hn with h | h
    · exact .inl h
    · right; simp only at h ⊢; omega

/-- Add one pair of command ids. -/
def Ren.addC (R : Ren) (n' n : Nat) : Ren := { R with c := fun a b => R.c a b ∨ (a = n' ∧ b = n) }
/-- Add one pair of scope ids. -/
def Ren.addS (R : Ren) (n' n : Nat) : Ren := { R with s := fun a b => R.s a b ∨ (a = n' ∧ b = n) }

theorem Ren.Inv.addC {R : Ren} {s' c' s c : Nat} (h : R.Inv ⟨s', c', s, c⟩) :
    (R.addC c' c).Inv ⟨s', c' + 1, s, c + 1⟩ := by
  refine ⟨?_, h.sm, ?_, h.sb, ?_, h.st⟩
  rotate_left 2
  · intro n hn
    simp only at hn
    by_cases hlt : n < c'
    · obtain ⟨o, ho⟩ := h.ct n hlt; exact ⟨o, .inl ho⟩
    · exact ⟨c, .inr ⟨by omega, rfl⟩⟩
  · intro n o n2 o2 h1 h2
    rcases h1 with h1 | ⟨rfl, rfl⟩ <;> rcases h2 with h2 | ⟨rfl, rfl⟩
    · exact h.cm n o n2 o2 h1 h2
    · have := h.cb n o h1; simp only at this; omega
    · have := h.cb n2 o2 h2; simp only at this; omega
    · omega
  · intro n o h1
    rcases h1 with h1 | ⟨rfl, rfl⟩
    · have := h.cb n o h1; simp only at this ⊢; omega
    · simp only; omega

theorem Ren.Inv.addS {R : Ren} {s' c' s c : Nat} (h : R.Inv ⟨s', c', s, c⟩) :
    (R.addS s' s).Inv ⟨s' + 1, c', s + 1, c⟩ := by
  refine ⟨h.cm, ?_, h.cb, ?_, h.ct, ?_⟩
  rotate_left 2
  · intro n hn
    simp only at hn
    by_cases hlt : n < s'
    · obtain ⟨o, ho⟩ := h.st n hlt; exact ⟨o, .inl ho⟩
    · exact ⟨s, .inr ⟨by omega, rfl⟩⟩
  · intro n o n2 o2 h1 h2
    rcases h1 with h1 | ⟨rfl, rfl⟩ <;> rcases h2 with h2 | ⟨rfl, rfl⟩
    · exact h.sm n o n2 o2 h1 h2
    · have := h.sb n o h1; simp only at this; omega
    · have := h.sb n2 o2 h2; simp only at this; omega
    · omega
  · intro n o h1
    rcases h1 with h1 | ⟨rfl, rfl⟩
    · have := h.sb n o h1; simp only at this ⊢; omega
    · simp only; omega

theorem Ren.Le.addC (R : Ren) (s' c' s c : Nat) : R.Le (R.addC c' c) ⟨s', c', s, c⟩ ⟨s', c' + 1, s, c + 1⟩ := by
  refine ⟨by simp [Bd.le], by simp only; omega, by simp only; omega, fun n o h => .inl h, fun n o h => h, ?_, fun n o h => .inl h⟩
  intro n o h
  rcases h with h | ⟨rfl, rfl⟩
  · exact .inl h
  · right; simp

theorem Ren.Le.addS (R : Ren) (s' c' s c : Nat) : R.Le (R.addS s' s) ⟨s', c', s, c⟩ ⟨s' + 1, c', s + 1, c⟩ := by
  refine ⟨by simp [Bd.le], by simp only; omega, by simp only; omega, fun n o h => h, fun n o h => .inl h, fun n o h => .inl h, ?_⟩
  intro n o h
  rcases h with h | ⟨rfl, rfl⟩
  · exact .inl h
  · right; simp

theorem Ren.addC_c (R : Ren) (n' n : Nat) : (R.addC n' n).c n' n := .inr ⟨rfl, rfl⟩
theorem Ren.addS_s (R : Ren) (n' n : Nat) : (R.addS n' n).s n' n := .inr ⟨rfl, rfl⟩

/-- Pointwise inclusion. -/
def Ren.Sub (R Q : Ren) : Prop := (∀ n o, R.c n o → Q.c n o) ∧ (∀ n o, R.s n o → Q.s n o)

theorem Ren.Le.sub {R0 R : Ren} {d0 d1 : Bd} (h : R0.Le R d0 d1) : R0.Sub R := ⟨h.csub, h.ssub⟩
theorem Ren.Sub.refl (R : Ren) : R.Sub R := ⟨fun _ _ h => h, fun _ _ h => h⟩
theorem Ren.Sub.trans {R Q T : Ren} (h1 : R.Sub Q) (h2 : Q.Sub T) : R.Sub T :=
  ⟨fun n o h => h2.1 n o (h1.1 n o h), fun n o h => h2.2 n o (h1.2 n o h)⟩

/-! ### lists related elementwise -/

def All2 {α β : Type} (P : α → β → Prop) : List α → List β → Prop
  | [], [] => True
  | a :: l, b :: m => P a b ∧ All2 P l m
  | [], _ :: _ => False
  | _ :: _, [] => False

theorem All2.imp {α β : Type} {P Q : α → β → Prop} (h : ∀ a b, P a b → Q a b) :
    ∀ {l : List α} {m : List β}, All2 P l m → All2 Q l m
  | [], [], _ => trivial
  | a :: _, b :: _, h1 => ⟨h a b h1.1, All2.imp h h1.2⟩
  | [], _ :: _, h1 => h1.elim
  | _ :: _, [], h1 => h1.elim

theorem All2.append {α β : Type} {P : α → β → Prop} :
    ∀ {l l2 : List α} {m m2 : List β}, All2 P l m → All2 P l2 m2 → All2 P (l ++ l2) (m ++ m2)
  | [], _, [], _, _, h2 => h2
  | _ :: _, _, _ :: _, _, h1, h2 => ⟨h1.1, All2.append h1.2 h2⟩
  | [], _, _ :: _, _, h1, _ => h1.elim
  | _ :: _, _, [], _, h1, _ => h1.elim

/-! ### "the same up to the id correspondence" -/

def relCmd (R : Ren) (c' c : Cmd) : Prop :=
  R.c c'.id c.id ∧ c'.tok = c.tok ∧ c'.name = c.name ∧ c'.args = c.args

def relOptCmd (R : Ren) : Option Cmd → Option Cmd → Prop
  | none, none => True
  | some c', some c => relCmd R c' c
  | _, _ => False

def relOp (R : Ren) (e' e : OpExpr) : Prop :=
  e'.operand = e.operand ∧ e'.operator = e.operator ∧ e'.cmpValue = e.cmpValue ∧ e'.strict = e.strict ∧
    e'.type = e.type ∧ relOptCmd R e'.preamble e.preamble

def relB (R : Ren) : BoolExpr → BoolExpr → Prop
  | .leaf e', .leaf e => relOp R e' e
  | .bin l' op' r', .bin l op r => relB R l' l ∧ op' = op ∧ relB R r' r
  | _, _ => False

def relOptB (R : Ren) : Option BoolExpr → Option BoolExpr → Prop
  | none, none => True
  | some c', some c => relB R c' c
  | _, _ => False

mutual
inductive RelS (R : Ren) : Stmt → Stmt → Prop
  | cmd {c' c : Cmd} : relCmd R c' c → RelS R (.cmd c') (.cmd c)
  | label (t : Tok) (n : String) (g : Bool) : RelS R (.label t n g) (.label t n g)
  | ite (t : Tok) {c' c : BoolExpr} {b' b : List Stmt} {es' es : List (BoolExpr × List Stmt)}
      {el' el : Option (List Stmt)} :
      relB R c' c → RelL R b' b → RelElifs R es' es → RelOptL R el' el →
      RelS R (.ite t c' b' es' el') (.ite t c b es el)
  | while_ (t : Tok) {s' s : Nat} {c' c : Option BoolExpr} {b' b : List Stmt} :
      R.s s' s → relOptB R c' c → RelL R b' b → RelS R (.while_ t s' c' b') (.while_ t s c b)
  | doWhile (t : Tok) {s' s : Nat} {c' c : BoolExpr} {b' b : List Stmt} :
      R.s s' s → relB R c' c → RelL R b' b → RelS R (.doWhile t s' c' b') (.doWhile t s c b)
  | brk (t : Tok) {s' s : Nat} : R.s s' s → RelS R (.brk t s') (.brk t s)
  | cont (t : Tok) {s' s : Nat} : R.s s' s → RelS R (.cont t s') (.cont t s)
  | switch_ (t : Tok) {s' s : Nat} (o : Tok) {cs' cs : List SwitchCase} :
      R.s s' s → RelCases R cs' cs → RelS R (.switch_ t s' o cs') (.switch_ t s o cs)
inductive RelL (R : Ren) : List Stmt → List Stmt → Prop
  | nil : RelL R [] []
  | cons {x' x : Stmt} {r' r : List Stmt} : RelS R x' x → RelL R r' r → RelL R (x' :: r') (x :: r)
inductive RelElifs (R : Ren) : List (BoolExpr × List Stmt) → List (BoolExpr × List Stmt) → Prop
  | nil : RelElifs R [] []
  | cons {c' c : BoolExpr} {b' b : List Stmt} {r' r : List (BoolExpr × List Stmt)} :
      relB R c' c → RelL R b' b → RelElifs R r' r → RelElifs R ((c', b') :: r') ((c, b) :: r)
inductive RelOptL (R : Ren) : Option (List Stmt) → Option (List Stmt) → Prop
  | none : RelOptL R none none
  | some {b' b : List Stmt} : RelL R b' b → RelOptL R (some b') (some b)
inductive RelCases (R : Ren) : List SwitchCase → List SwitchCase → Prop
  | nil : RelCases R [] []
  | cons (t : Tok) (d : Bool) {b' b : List Stmt} {r' r : List SwitchCase} :
      RelL R b' b → RelCases R r' r → RelCases R ((t, d, b') :: r') ((t, d, b) :: r)
end

def relText (R : Ren) (t' t : ImpText) : Prop :=
  R.c t'.cmdId t.cmdId ∧ t'.argPos = t.argPos ∧ t'.text = t.text ∧ t'.stringType = t.stringType ∧
    t'.scriptName = t.scriptName

def relMove (R : Ren) (t' t : ImpMovement) : Prop :=
  R.c t'.cmdId t.cmdId ∧ t'.cmdTok = t.cmdTok ∧ t'.argPos = t.argPos ∧ t'.movements = t.movements ∧
    t'.scriptName = t.scriptName

def relImp (R : Ren) (m' m : ImpData) : Prop :=
  All2 (relText R) m'.texts m.texts ∧ All2 (relMove R) m'.movements m.movements

/-! ### monotonicity in the correspondence -/

theorem relCmd.mono {R Q : Ren} (h : R.Sub Q) {c' c : Cmd} (hc : relCmd R c' c) : relCmd Q c' c :=
  ⟨h.1 _ _ hc.1, hc.2⟩

theorem relOptCmd.mono {R Q : Ren} (h : R.Sub Q) : ∀ {c' c : Option Cmd}, relOptCmd R c' c → relOptCmd Q c' c
  | none, none, _ => trivial
  | some _, some _, hc => relCmd.mono h hc
  | none, some _, hc => hc.elim
  | some _, none, hc => hc.elim

theorem relB.mono {R Q : Ren} (h : R.Sub Q) : ∀ {c' c : BoolExpr}, relB R c' c → relB Q c' c
  | .leaf e', .leaf e, hc => by
    simp only [relB, relOp] at hc ⊢
    exact ⟨hc.1, hc.2.1, hc.2.2.1, hc.2.2.2.1, hc.2.2.2.2.1, relOptCmd.mono h hc.2.2.2.2.2⟩
  | .bin l' op' r', .bin l op r, hc => by
    simp only [relB] at hc ⊢
    exact ⟨relB.mono h hc.1, hc.2.1, relB.mono h hc.2.2⟩
  | .leaf _, .bin .., hc => by simp [relB] at hc
  | .bin .., .leaf _, hc => by simp [relB] at hc

theorem relOptB.mono {R Q : Ren} (h : R.Sub Q) : ∀ {c' c : Option BoolExpr}, relOptB R c' c → relOptB Q c' c
  | none, none, _ => trivial
  | some _, some _, hc => relB.mono h hc
  | none, some _, hc => hc.elim
  | some _, none, hc => hc.elim

mutual
theorem RelS.mono {R Q : Ren} (h : R.Sub Q) : ∀ {a' a : Stmt}, RelS R a' a → RelS Q a' a
  | _, _, .cmd hc => .cmd (relCmd.mono h hc)
  | _, _, .label t n g => .label t n g
  | _, _, .ite t hc hb hes hel => .ite t (relB.mono h hc) (RelL.mono h hb) (RelElifs.mono h hes) (RelOptL.mono h hel)
  | _, _, .while_ t hs hc hb => .while_ t (h.2 _ _ hs) (relOptB.mono h hc) (RelL.mono h hb)
  | _, _, .doWhile t hs hc hb => .doWhile t (h.2 _ _ hs) (relB.mono h hc) (RelL.mono h hb)
  | _, _, .brk t hs => .brk t (h.2 _ _ hs)
  | _, _, .cont t hs => .cont t (h.2 _ _ hs)
  | _, _, .switch_ t o hs hcs => .switch_ t o (h.2 _ _ hs) (RelCases.mono h hcs)
theorem RelL.mono {R Q : Ren} (h : R.Sub Q) : ∀ {a' a : List Stmt}, RelL R a' a → RelL Q a' a
  | _, _, .nil => .nil
  | _, _, .cons hx hr => .cons (RelS.mono h hx) (RelL.mono h hr)
theorem RelElifs.mono {R Q : Ren} (h : R.Sub Q) :
    ∀ {a' a : List (BoolExpr × List Stmt)}, RelElifs R a' a → RelElifs Q a' a
  | _, _, .nil => .nil
  | _, _, .cons hc hb hr => .cons (relB.mono h hc) (RelL.mono h hb) (RelElifs.mono h hr)
theorem RelOptL.mono {R Q : Ren} (h : R.Sub Q) : ∀ {a' a : Option (List Stmt)}, RelOptL R a' a → RelOptL Q a' a
  | _, _, .none => .none
  | _, _, .some hb => .some (RelL.mono h hb)
theorem RelCases.mono {R Q : Ren} (h : R.Sub Q) : ∀ {a' a : List SwitchCase}, RelCases R a' a → RelCases Q a' a
  | _, _, .nil => .nil
  | _, _, .cons t d hb hr => .cons t d (RelL.mono h hb) (RelCases.mono h hr)
end

theorem RelL.append {R : Ren} : ∀ {a' a b' b : List Stmt}, RelL R a' a → RelL R b' b → RelL R (a' ++ b') (a ++ b)
  | _, _, _, _, .nil, h2 => h2
  | _, _, _, _, .cons hx hr, h2 => .cons hx (RelL.append hr h2)

theorem relImp.mono {R Q : Ren} (h : R.Sub Q) {m' m : ImpData} (hm : relImp R m' m) : relImp Q m' m :=
  ⟨All2.imp (fun _ _ ht => ⟨h.1 _ _ ht.1, ht.2⟩) hm.1, All2.imp (fun _ _ ht => ⟨h.1 _ _ ht.1, ht.2⟩) hm.2⟩

theorem relImp.nil (R : Ren) : relImp R {} {} := ⟨trivial, trivial⟩

theorem relImp.add {R : Ren} {a' a b' b : ImpData} (h1 : relImp R a' a) (h2 : relImp R b' b) :
    relImp R (a'.add b') (a.add b) :=
  ⟨All2.append h1.1 h2.1, All2.append h1.2 h2.2⟩

theorem relImp_impOf (R : Ren) (sn : String) (cid' cid : Nat) (h : R.c cid' cid) (ct : Tok) (pos : Nat)
    (e : AElem) : relImp R (impOf sn cid' ct pos e) (impOf sn cid ct pos e) := by
  cases e <;> simp [impOf, relImp, All2, relText, relMove, h]

theorem relImp_impArg (R : Ren) (sn : String) (cid' cid : Nat) (h : R.c cid' cid) (ct : Tok) (pos : Nat) :
    ∀ (a : List AElem), relImp R (impArg sn cid' ct pos a) (impArg sn cid ct pos a)
  | [] => relImp.nil R
  | e :: r => relImp.add (relImp_impOf R sn cid' cid h ct pos e) (relImp_impArg R sn cid' cid h ct pos r)

theorem relImp_impArgs (R : Ren) (sn : String) (cid' cid : Nat) (h : R.c cid' cid) (ct : Tok) :
    ∀ (pos : Nat) (l : List (List AElem)), relImp R (impArgs sn cid' ct pos l) (impArgs sn cid ct pos l)
  | _, [] => relImp.nil R
  | pos, a :: r =>
    relImp.add (relImp_impArg R sn cid' cid h ct pos a) (relImp_impArgs R sn cid' cid h ct (pos + 1) r)

end Pory.C12c
