import PoryProofs.CmdParse
import PoryProofs.Properties.C14b
/-
Helpers for P1 (statement grammar), Stage 4: command statements whose arguments contain string literals,
typed string literals and `moves( … )` — the implicit data of a command.

Reference syntax: an argument is a non-empty list of *elements* (`AElem`):
  * `tok t`                 a plain token or a parenthesis (as in `PoryProofs/CmdParse.lean`),
  * `str t`                 a STRING token,
  * `tstr ty t`             a STRINGTYPE token followed by a STRING token,
  * `moves mv lp items rp`  `moves ( … )` with a movement list without poryswitch (`C14b.Item`) whose
                            multipliers are all valid,
with balanced parentheses (`ArgEOK`).  `printCmdE` writes the command.

What the parser must produce (`parse_command_imp`): the command as in C10b — an element that is not a
token contributes the EMPTY string to the argument (`partE`; the argument is patched later with the label of
the text / movement) — and the implicit data `impArgs …`: in source order one `ImpText` per string (command
id, argument position = number of commas before it, the text with the terminator of its string type, the
string type, the script name) and one `ImpMovement` per `moves()` (the expanded steps).

Not covered: `format( … )`.
-/
namespace Pory.C10c
open Pory Pory.Parser Pory.C02P Pory.C10b Pory.C14b

/-! ### reference syntax -/

inductive AElem where
  | tok (t : Tok)
  | str (t : Tok)
  | tstr (ty t : Tok)
  | moves (mv lp : Tok) (items : List Item) (rp : Tok)

def itemOk : Item → Bool
  | .step n => n.type == .IDENT
  | .stepMul n s m => n.type == .IDENT && s.type == .MUL && m.type == .INT
  | .comma t => t.type == .COMMA

theorem itemOk_wf {i : Item} (h : itemOk i = true) : i.WF := by
  cases i <;> simp only [itemOk, Bool.and_eq_true, beq_iff_eq] at h
  · exact h
  · exact ⟨h.1.1, h.1.2, h.2⟩
  · exact h

def AElem.toks : AElem → List Tok
  | .tok t => [t]
  | .str t => [t]
  | .tstr ty t => [ty, t]
  | .moves mv lp items rp => mv :: lp :: (printItems items ++ [rp])

def printArgE : List AElem → List Tok
  | [] => []
  | e :: r => e.toks ++ printArgE r

/-- Token types of an element. -/
def AElem.ok : AElem → Bool
  | .tok t => decide (ArgTok t)
  | .str t => t.type == .STRING
  | .tstr ty t => ty.type == .STRINGTYPE && t.type == .STRING
  | .moves mv lp items rp =>
      mv.type == .MOVES && lp.type == .LPAREN && rp.type == .RPAREN && items.all itemOk &&
        (expand items).isSome

/-- Parenthesis depth after the elements (only tokens count). -/
def depthE : Nat → List AElem → Option Nat
  | d, [] => some d
  | d, .tok t :: r =>
    if t.type = .LPAREN then depthE (d + 1) r
    else if t.type = .RPAREN then
      match d with
      | 0 => none
      | k + 1 => depthE k r
    else depthE d r
  | d, _ :: r => depthE d r

/-- A command argument: non-empty, well-typed elements, parentheses balanced. -/
def argEOK (a : List AElem) : Bool := !a.isEmpty && a.all AElem.ok && depthE 0 a == some 0

def printMoreE : List (Tok × List AElem) → List Tok
  | [] => []
  | p :: m => p.1 :: (printArgE p.2 ++ printMoreE m)

/-- `name ( a0 , a1 , … )` -/
def printCmdE (name lp : Tok) (a0 : List AElem) (more : List (Tok × List AElem)) (rp : Tok) : List Tok :=
  name :: lp :: (printArgE a0 ++ (printMoreE more ++ [rp]))

/-- What one element contributes to the argument string. -/
def partE (σ : String → String) : AElem → String
  | .tok t => argPart σ t
  | _ => ""

def renderArgE (σ : String → String) (a : List AElem) : String := joinSp (a.map (partE σ))

/-- The implicit data of one element of argument number `pos` of command `cid`. -/
def impOf (sn : String) (cid : Nat) (cmdTok : Tok) (pos : Nat) : AElem → ImpData
  | .tok _ => {}
  | .str t =>
      { texts := [{ cmdId := cid, argPos := pos, text := { t with lit := formatTextTerminator t.lit "" },
                    stringType := "", scriptName := sn }] }
  | .tstr ty t =>
      { texts := [{ cmdId := cid, argPos := pos, text := { t with lit := formatTextTerminator t.lit ty.lit },
                    stringType := ty.lit, scriptName := sn }] }
  | .moves _ _ items _ =>
      { movements := [{ cmdId := cid, cmdTok := cmdTok, argPos := pos, movements := (expand items).getD [],
                        scriptName := sn }] }

def impArg (sn : String) (cid : Nat) (cmdTok : Tok) (pos : Nat) : List AElem → ImpData
  | [] => {}
  | e :: r => (impOf sn cid cmdTok pos e).add (impArg sn cid cmdTok pos r)

/-- The implicit data of the arguments `pos, pos + 1, …`. -/
def impArgs (sn : String) (cid : Nat) (cmdTok : Tok) : Nat → List (List AElem) → ImpData
  | _, [] => {}
  | pos, a :: r => (impArg sn cid cmdTok pos a).add (impArgs sn cid cmdTok (pos + 1) r)

/-! ### `ImpData.add` -/
theorem add_assoc (a b c : ImpData) : (a.add b).add c = a.add (b.add c) := by
  cases a; cases b; cases c; simp [ImpData.add]
theorem nil_add (a : ImpData) : ({} : ImpData).add a = a := by
  cases a; simp [ImpData.add]
theorem add_nil (a : ImpData) : a.add {} = a := by
  cases a; simp [ImpData.add]

/-! ### one-step lemmas -/
section
variable (env : Env) (sn : String) (id : Nat) (ct : Tok) (f : Nat) (s : PState)
  (A P : List String) (d : Nat) (I : ImpData)

theorem cal_string (c : Tok) (tl : List Tok) (hc : c.type = .STRING) :
    (cmdArgsLoop env sn id ct (f + 1) ⟨A, P, d, I⟩).run (st s (c :: tl)) =
      (cmdArgsLoop env sn id ct f ⟨A, P ++ [""], d, I.add (impOf sn id ct A.length (.str c))⟩).run
        (st s tl) := by
  rw [cmdArgsLoop]
  simp [hc, impOf, ImpData.add]

theorem cal_tstring (ty c : Tok) (tl : List Tok) (hty : ty.type = .STRINGTYPE) (hc : c.type = .STRING) :
    (cmdArgsLoop env sn id ct (f + 1) ⟨A, P, d, I⟩).run (st s (ty :: c :: tl)) =
      (cmdArgsLoop env sn id ct f ⟨A, P ++ [""], d, I.add (impOf sn id ct A.length (.tstr ty c))⟩).run
        (st s tl) := by
  rw [cmdArgsLoop]
  simp [hty, hc, impOf, ImpData.add]

theorem cal_moves (mv lp : Tok) (items : List Item) (rp : Tok) (tl : List Tok) (hmv : mv.type = .MOVES)
    (hlp : lp.type = .LPAREN) (hrp : rp.type = .RPAREN) (hwf : ∀ i ∈ items, i.WF) (out : List Tok)
    (hex : expand items = some out) (hf : (printItems items).length + 1 ≤ f) :
    (cmdArgsLoop env sn id ct (f + 1) ⟨A, P, d, I⟩).run
        (st s (mv :: lp :: (printItems items ++ rp :: tl))) =
      (cmdArgsLoop env sn id ct f
        ⟨A, P ++ [""], d, I.add (impOf sn id ct A.length (.moves mv lp items rp))⟩).run (st s tl) := by
  rw [cmdArgsLoop]
  simp [hmv, parse_moves_operator env s mv lp items rp tl hlp hrp hwf out hex f hf, impOf, ImpData.add, hex]

end

/-! ### the loop over an argument -/

/-- Fuel the inner parser of an element needs (`moves(…)`: the list loop). -/
def AElem.need : AElem → Nat
  | .moves _ _ items _ => (printItems items).length + 1
  | _ => 0

def needArgE : List AElem → Nat
  | [] => 0
  | e :: r => e.need + needArgE r

def needMoreE : List (Tok × List AElem) → Nat
  | [] => 0
  | p :: m => needArgE p.2 + needMoreE m

/-- Number of loop iterations for the `, arg` groups. -/
def stepsMoreE : List (Tok × List AElem) → Nat
  | [] => 0
  | p :: m => 1 + p.2.length + stepsMoreE m

section
variable (env : Env) (sn : String) (id : Nat) (ct : Tok) (s : PState)

/-- The elements of one argument (balanced from depth `d` to depth `d'`): one iteration per element. -/
theorem cal_argE (ts : List AElem) (rest : List Tok) (A P : List String) (d : Nat) (I : ImpData)
    (hts : ts.all AElem.ok = true) (d' : Nat) (hd : depthE d ts = some d') (f : Nat)
    (hf : needArgE ts ≤ f) :
    (cmdArgsLoop env sn id ct (ts.length + f) ⟨A, P, d, I⟩).run (st s (printArgE ts ++ rest)) =
      (cmdArgsLoop env sn id ct f
        ⟨A, P ++ ts.map (partE (substC s.constants)), d', I.add (impArg sn id ct A.length ts)⟩).run
        (st s rest) := by
  induction ts generalizing P d I with
  | nil =>
    simp [depthE] at hd; subst hd
    simp [printArgE, impArg, add_nil]
  | cons e r ih =>
    simp only [List.all_cons, Bool.and_eq_true] at hts
    obtain ⟨he, hr⟩ := hts
    simp only [needArgE] at hf
    have hlen : (e :: r).length + f = (r.length + f) + 1 := by simp; omega
    rw [hlen]
    cases e with
    | tok t =>
      have ht : ArgTok t := by simpa [AElem.ok] using he
      simp only [printArgE, AElem.toks, List.cons_append, List.nil_append]
      rcases ht with hp | hl | hrp
      · have h2 := hp.2.1
        have h3 := hp.2.2.1
        simp only [depthE, h2, h3, if_false] at hd
        rw [cal_plain env sn id ct _ s A P d I t _ hp, ih _ _ _ hr hd (by omega)]
        simp [partE, argPart, h2, h3, impArg, impOf, nil_add]
      · simp only [depthE, hl, if_true] at hd
        rw [cal_lparen env sn id ct _ s A P d I t _ hl, ih _ _ _ hr hd (by omega)]
        simp [partE, argPart, hl, impArg, impOf, nil_add]
      · have h2 : t.type ≠ .LPAREN := by simp [hrp]
        simp only [depthE, hrp, if_true] at hd
        cases d with
        | zero => simp at hd
        | succ k =>
          rw [cal_rparen env sn id ct _ s A P k I t _ hrp, ih _ _ _ hr (by simpa [h2] using hd) (by omega)]
          simp [partE, argPart, hrp, impArg, impOf, nil_add]
    | str t =>
      have ht : t.type = .STRING := by simpa [AElem.ok] using he
      simp only [printArgE, AElem.toks, List.cons_append, List.nil_append]
      simp only [depthE] at hd
      rw [cal_string env sn id ct _ s A P d I t _ ht, ih _ _ _ hr hd (by omega)]
      simp [partE, impArg, add_assoc]
    | tstr ty t =>
      have ht : ty.type = .STRINGTYPE ∧ t.type = .STRING := by simpa [AElem.ok] using he
      simp only [printArgE, AElem.toks, List.cons_append, List.nil_append]
      simp only [depthE] at hd
      rw [cal_tstring env sn id ct _ s A P d I ty t _ ht.1 ht.2, ih _ _ _ hr hd (by omega)]
      simp [partE, impArg, add_assoc]
    | moves mv lp items rp =>
      simp only [AElem.ok, Bool.and_eq_true, beq_iff_eq, List.all_eq_true] at he
      obtain ⟨⟨⟨⟨h1, h2⟩, h3⟩, h4⟩, h5⟩ := he
      obtain ⟨out, hex⟩ := Option.isSome_iff_exists.mp h5
      simp only [printArgE, AElem.toks, List.cons_append, List.append_assoc, List.nil_append]
      simp only [depthE] at hd
      simp only [AElem.need] at hf
      rw [cal_moves env sn id ct _ s A P d I mv lp items rp _ h1 h2 h3 (fun i hi => itemOk_wf (h4 i hi)) out hex
        (by omega), ih _ _ _ hr hd (by omega)]
      simp [partE, impArg, add_assoc]

/-- Accumulator (`args`, `argParts`) after the `, arg` groups. -/
def accMoreE (σ : String → String) : List String → List String → List (Tok × List AElem) →
    List String × List String
  | A, P, [] => (A, P)
  | A, P, p :: m => accMoreE σ (A ++ [joinSp P]) (p.2.map (partE σ)) m

/-- Implicit data of the `, arg` groups when `k` arguments are complete. -/
def impMoreE (sn : String) (cid : Nat) (cmdTok : Tok) : Nat → List (Tok × List AElem) → ImpData
  | _, [] => {}
  | k, p :: m => (impArg sn cid cmdTok (k + 1) p.2).add (impMoreE sn cid cmdTok (k + 1) m)

theorem cal_moreE (more : List (Tok × List AElem)) (rest : List Tok) (A P : List String) (I : ImpData)
    (hm : ∀ p ∈ more, p.1.type = .COMMA ∧ p.2.all AElem.ok = true ∧ depthE 0 p.2 = some 0) (f : Nat)
    (hf : needMoreE more ≤ f) :
    (cmdArgsLoop env sn id ct (stepsMoreE more + f) ⟨A, P, 0, I⟩).run
        (st s (printMoreE more ++ rest)) =
      (cmdArgsLoop env sn id ct f
        ⟨(accMoreE (substC s.constants) A P more).1, (accMoreE (substC s.constants) A P more).2, 0,
          I.add (impMoreE sn id ct A.length more)⟩).run (st s rest) := by
  induction more generalizing A P I with
  | nil => simp [printMoreE, accMoreE, impMoreE, stepsMoreE, add_nil]
  | cons p m ih =>
    obtain ⟨hc, hts, hd⟩ := hm p (by simp)
    simp only [needMoreE] at hf
    have hlen : stepsMoreE (p :: m) + f = (p.2.length + (stepsMoreE m + f)) + 1 := by
      simp [stepsMoreE]; omega
    rw [hlen]
    simp only [printMoreE, List.cons_append, List.append_assoc]
    rw [cal_comma env sn id ct _ s A P 0 I p.1 _ hc,
      cal_argE env sn id ct s p.2 _ _ _ 0 I hts 0 hd _ (by omega),
      ih _ _ _ (fun q hq => hm q (by simp [hq])) (by omega)]
    simp [accMoreE, impMoreE, add_assoc]

end

theorem accMoreE_args (σ : String → String) (A P : List String) (more : List (Tok × List AElem)) :
    (accMoreE σ A P more).1 ++ [joinSp (accMoreE σ A P more).2] =
      A ++ joinSp P :: more.map (fun p => renderArgE σ p.2) := by
  induction more generalizing A P with
  | nil => simp [accMoreE]
  | cons p m ih => simp [accMoreE, ih, renderArgE]

theorem accMoreE_parts_ne (σ : String → String) (A P : List String) (more : List (Tok × List AElem))
    (hP : P ≠ []) (hne : ∀ p ∈ more, p.2 ≠ []) : (accMoreE σ A P more).2 ≠ [] := by
  induction more generalizing A P with
  | nil => simpa [accMoreE] using hP
  | cons p m ih =>
    simp only [accMoreE]
    exact ih _ _ (by simpa using hne p (by simp)) (fun q hq => hne q (by simp [hq]))

theorem impMoreE_eq (sn : String) (cid : Nat) (cmdTok : Tok) (k : Nat) (more : List (Tok × List AElem)) :
    impMoreE sn cid cmdTok k more = impArgs sn cid cmdTok (k + 1) (more.map (·.2)) := by
  induction more generalizing k with
  | nil => rfl
  | cons p m ih => simp [impMoreE, impArgs, ih]

theorem argEOK_iff (a : List AElem) :
    argEOK a = true ↔ a ≠ [] ∧ a.all AElem.ok = true ∧ depthE 0 a = some 0 := by
  unfold argEOK
  cases a with
  | nil => simp
  | cons e r => simp

/-- Sufficient fuel for the argument loop of `name ( a0 , … )`. -/
def needCmdE (a0 : List AElem) (more : List (Tok × List AElem)) : Nat :=
  a0.length + stepsMoreE more + needArgE a0 + needMoreE more + 1

/-- **Commands with implicit data.** -/
theorem parse_command_imp (env : Env) (sn : String) (s : PState) (name lp : Tok) (a0 : List AElem)
    (more : List (Tok × List AElem)) (rp : Tok) (rest : List Tok)
    (hlp : lp.type = .LPAREN) (hrp : rp.type = .RPAREN) (h0 : argEOK a0 = true)
    (hm : ∀ p ∈ more, p.1.type = .COMMA ∧ argEOK p.2 = true) (fuel : Nat)
    (hf : needCmdE a0 more ≤ fuel) :
    (parseCommandStatement env sn fuel).run (st s (printCmdE name lp a0 more rp ++ rest)) =
      .ok (({ id := s.nextCmdId, tok := name, name := name.lit,
              args := (a0 :: more.map (·.2)).map (renderArgE (substC s.constants)) },
            impArgs sn s.nextCmdId name 0 (a0 :: more.map (·.2))),
           st (bump s) (rp :: rest)) := by
  obtain ⟨h0n, h0t, h0d⟩ := (argEOK_iff a0).mp h0
  have hm' : ∀ p ∈ more, p.1.type = .COMMA ∧ p.2.all AElem.ok = true ∧ depthE 0 p.2 = some 0 :=
    fun p hp => ⟨(hm p hp).1, ((argEOK_iff p.2).mp (hm p hp).2).2.1, ((argEOK_iff p.2).mp (hm p hp).2).2.2⟩
  have hne : ∀ p ∈ more, p.2 ≠ [] := fun p hp => ((argEOK_iff p.2).mp (hm p hp).2).1
  unfold needCmdE at hf
  obtain ⟨f, rfl, hg⟩ : ∃ f, fuel = a0.length + (stepsMoreE more + (f + 1)) ∧
      needArgE a0 + needMoreE more ≤ f + 1 :=
    ⟨fuel - a0.length - stepsMoreE more - 1, by omega, by omega⟩
  have hp : printCmdE name lp a0 more rp ++ rest =
      name :: lp :: (printArgE a0 ++ (printMoreE more ++ rp :: rest)) := by simp [printCmdE]
  have e0 : ({} : CmdAcc) = ⟨[], [], 0, {}⟩ := rfl
  rw [hp, pcs_paren env sn _ s name lp _ hlp, e0,
    cal_argE env sn s.nextCmdId name (bump s) a0 _ [] [] 0 {} h0t 0 h0d _ (by omega), List.nil_append,
    cal_moreE env sn s.nextCmdId name (bump s) more _ _ _ _ hm' _ (by omega),
    cal_close env sn s.nextCmdId name _ (bump s) _ _ _ rp rest hrp]
  simp only [cmdOf, bump_constants]
  have hne' := accMoreE_parts_ne (substC s.constants) [] (a0.map (partE (substC s.constants))) more
    (by simpa using h0n) hne
  have hpos : (accMoreE (substC s.constants) [] (a0.map (partE (substC s.constants))) more).2.length > 0 :=
    Nat.pos_of_ne_zero (fun h => hne' (List.eq_nil_of_length_eq_zero h))
  simp only [hpos, if_true, accMoreE_args]
  simp [renderArgE, Function.comp_def, impArgs, impMoreE_eq, nil_add]

/-- The number of printed tokens (+ 1) is a sufficient amount of fuel. -/
theorem needArgE_le (a : List AElem) : a.length + needArgE a ≤ (printArgE a).length := by
  induction a with
  | nil => simp [needArgE, printArgE]
  | cons e r ih =>
    cases e <;> simp only [needArgE, AElem.need, printArgE, AElem.toks, List.length_cons, List.length_append,
      List.length_nil] <;> omega

theorem needMoreE_le (more : List (Tok × List AElem)) :
    stepsMoreE more + needMoreE more ≤ (printMoreE more).length := by
  induction more with
  | nil => simp [stepsMoreE, needMoreE, printMoreE]
  | cons p m ih =>
    have := needArgE_le p.2
    simp only [stepsMoreE, needMoreE, printMoreE, List.length_cons, List.length_append]; omega

theorem needCmdE_le (name lp : Tok) (a0 : List AElem) (more : List (Tok × List AElem)) (rp : Tok) :
    needCmdE a0 more + 2 ≤ (printCmdE name lp a0 more rp).length := by
  have := needArgE_le a0
  have := needMoreE_le more
  simp only [needCmdE, printCmdE, List.length_cons, List.length_append, List.length_nil]; omega

/-! ### example: `msgbox ( "Hi" , MSGBOX_DEFAULT )` and `applymovement ( 1 , moves ( walk_up * 2 face_down ) )` -/

example : ∃ r, (parseCommandStatement {} "Main" 10).run (st { (default : PState) with nextCmdId := 7 }
      (printCmdE (tk .IDENT "msgbox") (tk .LPAREN "(") [.str (tk .STRING "Hi")]
        [(tk .COMMA ",", [.tok (tk .IDENT "MSGBOX_DEFAULT")])] (tk .RPAREN ")") ++ [tk .RBRACE "}"])) =
      .ok (r, st { (default : PState) with nextCmdId := 8 } [tk .RPAREN ")", tk .RBRACE "}"]) ∧
    r.1.args = ["", "MSGBOX_DEFAULT"] ∧
    r.2.texts.map (fun t => (t.cmdId, t.argPos, t.text.lit, t.scriptName)) = [(7, 0, "Hi$", "Main")] :=
  ⟨_, parse_command_imp {} "Main" _ _ _ _ _ _ _ rfl rfl (by decide) (by decide) 10 (by decide),
    by decide, by decide⟩

end Pory.C10c
