import PoryProofs.StmtParse2
/-
P1b: the surface syntax of P1 (`Pory.StmtG`, PoryProofs/StmtGrammar.lean) is a fragment of the widened syntax
(`Pory.P1b`, PoryProofs/StmtGrammar2.lean).

`ofL : List StmtG.SStmt → List SStmt` (with `ofS`, `ofCond`, `ofElifs`, …) embeds the old syntax: the four command
constructors `cmd` / `cmdI` / `cmdE` / `cmd0` become `SStmt.cmd` of the matching `CmdF`, a `plain` condition
becomes the same expression over `CLeaf.plain` leaves, an `auto` condition the single leaf `CLeaf.auto`.
The embedding commutes with
  printing          `printL (ofL b) = StmtG.printL b`,
  well-formedness   `swfL (ofL b) = StmtG.swfL b`,
  elaboration       `elabL … (ofL b) … = StmtG.elabL … b …` (statements, implicit data, counters, errors),
so `P1.parse_block_elab` (in its `2 * tokens + 1 ≤ fuel` form) is the special case `ofL b` of
`P1b.parse_block_elab`: `p1_special_case`.
-/
namespace Pory.P1b
open Pory Pory.Parser Pory.C02P Pory.C10b Pory.BoolGen Pory.CmdGen Pory.TextValueParse
open Pory.C10c (add_assoc nil_add add_nil AElem printCmdE printArgE printMoreE argEOK renderArgE impArgs needCmdE)
open Pory.C11b (operandName Form autoLeafT)
open Pory.StmtG (notAutoVarErr badPosErr autoPosBad notLeafErr Ctx ctxOf cmdNode)

/-! ### commands -/

def tokMore (more : List (Tok × List Tok)) : List (Tok × List AElem) := more.map fun p => (p.1, tokE p.2)

/-- `name ( a0 , … )` with plain-token arguments. -/
def cmdOfT (name lp : Tok) (a0 : List Tok) (more : List (Tok × List Tok)) (rp : Tok) : CmdF :=
  .args name lp (ofE (tokE a0)) (ofEMore (tokMore more)) rp

/-- `name ( a0 , … )` with `AElem` arguments. -/
def cmdOfE (name lp : Tok) (a0 : List AElem) (more : List (Tok × List AElem)) (rp : Tok) : CmdF :=
  .args name lp (ofE a0) (ofEMore more) rp

theorem argsErr_ofE (env : Env) (args : List (List AElem)) : argsErr env (args.map ofE) = none := by
  induction args with
  | nil => rfl
  | cons a r ih => simp [argsErr, argErr_ofE, Option.orElse, ih]

theorem map_snd_ofEMore (more : List (Tok × List AElem)) :
    (ofEMore more).map (·.2) = (more.map (·.2)).map ofE := by
  simp [ofEMore, Function.comp_def]

theorem cmdOfE_print (name lp : Tok) (a0 : List AElem) (more : List (Tok × List AElem)) (rp : Tok) :
    (cmdOfE name lp a0 more rp).print = printCmdE name lp a0 more rp := printCmdI_ofE name lp a0 more rp

theorem cmdOfE_ok (name lp : Tok) (a0 : List AElem) (more : List (Tok × List AElem)) (rp : Tok) :
    (cmdOfE name lp a0 more rp).ok =
      (name.type == .IDENT && lp.type == .LPAREN && rp.type == .RPAREN && argEOK a0 &&
        more.all (fun p => p.1.type == .COMMA && argEOK p.2)) := by
  simp only [cmdOfE, CmdF.ok, argOk_ofE]
  congr 1
  simp [ofEMore, List.all_map, Function.comp_def, argOk_ofE]

theorem cmdOfE_elab (env : Env) (sn : String) (σ : String → String) (cid : Nat) (name lp : Tok)
    (a0 : List AElem) (more : List (Tok × List AElem)) (rp : Tok) :
    (cmdOfE name lp a0 more rp).elabC env sn σ cid =
      .ok ({ id := cid, tok := name, name := name.lit, args := (a0 :: more.map (·.2)).map (renderArgE σ) },
        impArgs sn cid name 0 (a0 :: more.map (·.2))) := by
  have hargs : (cmdOfE name lp a0 more rp).argList = (a0 :: more.map (·.2)).map ofE := by
    simp [cmdOfE, CmdF.argList, map_snd_ofEMore]
  simp only [CmdF.elabC, hargs, argsErr_ofE, CmdF.node, CmdF.rendered, CmdF.imp, impArgsI_ofE]
  congr 2
  simp [cmdOfE, CmdF.name, List.map_map, Function.comp_def, renderArgI_ofE]

theorem cmdOfE_need (name lp : Tok) (a0 : List AElem) (more : List (Tok × List AElem)) (rp : Tok) :
    (cmdOfE name lp a0 more rp).need = needCmdE a0 more := needCmdI_ofE a0 more

theorem printMoreE_tok (more : List (Tok × List Tok)) : printMoreE (tokMore more) = printMore more := by
  induction more with
  | nil => rfl
  | cons p m ih => simp only [tokMore, List.map_cons, printMoreE, printMore, printArgE_tokE] at ih ⊢; rw [ih]

theorem cmdOfT_print (name lp : Tok) (a0 : List Tok) (more : List (Tok × List Tok)) (rp : Tok) :
    (cmdOfT name lp a0 more rp).print = printCmd name lp a0 more rp := by
  show (cmdOfE name lp (tokE a0) (tokMore more) rp).print = _
  rw [cmdOfE_print]
  simp [printCmdE, printCmd, printArgE_tokE, printMoreE_tok]

theorem argEOK_tokE_decide (a : List Tok) : argEOK (tokE a) = decide (ArgOK a) := by
  rw [Bool.eq_iff_iff]
  simp [argEOK_tokE]

theorem cmdOfT_ok (name lp : Tok) (a0 : List Tok) (more : List (Tok × List Tok)) (rp : Tok) :
    (cmdOfT name lp a0 more rp).ok =
      (name.type == .IDENT && lp.type == .LPAREN && rp.type == .RPAREN && decide (ArgOK a0) &&
        more.all (fun p => p.1.type == .COMMA && decide (ArgOK p.2))) := by
  show (cmdOfE name lp (tokE a0) (tokMore more) rp).ok = _
  rw [cmdOfE_ok, argEOK_tokE_decide]
  congr 1
  simp [tokMore, List.all_map, Function.comp_def, argEOK_tokE_decide]

theorem map_snd_tokMore (more : List (Tok × List Tok)) :
    (tokMore more).map (·.2) = (more.map (·.2)).map tokE := by
  simp [tokMore, Function.comp_def]

theorem cmdOfT_elab (env : Env) (sn : String) (σ : String → String) (cid : Nat) (name lp : Tok)
    (a0 : List Tok) (more : List (Tok × List Tok)) (rp : Tok) :
    (cmdOfT name lp a0 more rp).elabC env sn σ cid =
      .ok ({ id := cid, tok := name, name := name.lit, args := (a0 :: more.map (·.2)).map (renderArg σ) },
        {}) := by
  show (cmdOfE name lp (tokE a0) (tokMore more) rp).elabC env sn σ cid = _
  rw [cmdOfE_elab]
  have h1 : (tokE a0 :: (tokMore more).map (·.2)) = (a0 :: more.map (·.2)).map tokE := by
    simp [map_snd_tokMore]
  rw [h1, impArgs_tokE]
  congr 2
  simp [List.map_map, Function.comp_def, renderArgE_tokE]

theorem cmdOfT_nargs (name lp : Tok) (a0 : List Tok) (more : List (Tok × List Tok)) (rp : Tok) :
    (cmdOfT name lp a0 more rp).nargs = more.length + 1 := by
  simp [cmdOfT, CmdF.nargs, CmdF.argList, ofEMore, tokMore]

theorem stepsMoreE_tok (more : List (Tok × List Tok)) :
    C10c.stepsMoreE (tokMore more) = (printMore more).length := by
  induction more with
  | nil => rfl
  | cons p m ih =>
    simp only [tokMore, List.map_cons, C10c.stepsMoreE, printMore, List.length_cons, List.length_append] at ih ⊢
    rw [ih]; simp [tokE]; omega

theorem needArgE_tokE (a : List Tok) : C10c.needArgE (tokE a) = 0 := by
  induction a with
  | nil => rfl
  | cons t r ih => simp only [tokE, List.map_cons, C10c.needArgE, C10c.AElem.need] at ih ⊢; omega

theorem needMoreE_tok (more : List (Tok × List Tok)) : C10c.needMoreE (tokMore more) = 0 := by
  induction more with
  | nil => rfl
  | cons p m ih => simp only [tokMore, List.map_cons, C10c.needMoreE, needArgE_tokE] at ih ⊢; omega

theorem cmdOfT_need (name lp : Tok) (a0 : List Tok) (more : List (Tok × List Tok)) (rp : Tok) :
    (cmdOfT name lp a0 more rp).need = a0.length + (printMore more).length + 1 := by
  show (cmdOfE name lp (tokE a0) (tokMore more) rp).need = _
  rw [cmdOfE_need]
  have h3 : (tokE a0).length = a0.length := by simp [tokE]
  simp only [needCmdE, stepsMoreE_tok, needArgE_tokE, needMoreE_tok, h3]

/-! ### conditions -/
mutual
def ofSOr : SOr → SCond
  | .one a => .one (ofSAnd a)
  | .more a p r => .more (ofSAnd a) p (ofSOr r)
def ofSAnd : SAnd → GAnd CLeaf
  | .one u => .one (ofSUn u)
  | .more u p r => .more (ofSUn u) p (ofSAnd r)
def ofSUn : SUn → GUn CLeaf
  | .leaf lf => .leaf (.plain lf)
  | .paren n pn pl pr e => .paren n pn pl pr (ofSOr e)
end

mutual
theorem ofS_or (g : SOr) :
    printOr CLeaf.print (ofSOr g) = C02P.printOr g ∧ wfOr CLeaf.wf (ofSOr g) = true := by
  cases g with
  | one a => simpa [ofSOr, BoolGen.printOr, C02P.printOr, wfOr] using ofS_and a
  | more a p r =>
    obtain ⟨a1, a2⟩ := ofS_and a
    obtain ⟨r1, r2⟩ := ofS_or r
    simp [ofSOr, BoolGen.printOr, C02P.printOr, wfOr, a1, a2, r1, r2]
theorem ofS_and (a : SAnd) :
    printAnd CLeaf.print (ofSAnd a) = C02P.printAnd a ∧ wfAnd CLeaf.wf (ofSAnd a) = true := by
  cases a with
  | one u => simpa [ofSAnd, BoolGen.printAnd, C02P.printAnd, wfAnd] using ofS_un u
  | more u p r =>
    obtain ⟨a1, a2⟩ := ofS_un u
    obtain ⟨r1, r2⟩ := ofS_and r
    simp [ofSAnd, BoolGen.printAnd, C02P.printAnd, wfAnd, a1, a2, r1, r2]
theorem ofS_un (u : SUn) :
    printUn CLeaf.print (ofSUn u) = C02P.printUn u ∧ wfUn CLeaf.wf (ofSUn u) = true := by
  cases u with
  | leaf lf => exact ⟨rfl, rfl⟩
  | paren n pn pl pr e =>
    obtain ⟨r1, r2⟩ := ofS_or e
    simp [ofSUn, BoolGen.printUn, C02P.printUn, wfUn, r1, r2]
end

section
variable (env : Env) (sn : String) (σ : String → String)

mutual
theorem ofS_elabOr (g : SOr) (neg : Bool) (id : Nat) :
    elabOr (CLeaf.res env sn) σ neg (ofSOr g) id = .ok (treeOr σ neg g, {}, id) := by
  cases g with
  | one a => simpa [ofSOr, elabOr, treeOr] using ofS_elabAnd a neg id
  | more a p r => simp [ofSOr, elabOr, treeOr, ofS_elabAnd a neg id, ofS_elabOr r neg id]
theorem ofS_elabAnd (a : SAnd) (neg : Bool) (id : Nat) :
    elabAnd (CLeaf.res env sn) σ neg (ofSAnd a) id = .ok (treeAnd σ neg a, {}, id) := by
  cases a with
  | one u => simpa [ofSAnd, elabAnd, treeAnd] using ofS_elabUn u neg id
  | more u p r => simp [ofSAnd, elabAnd, treeAnd, ofS_elabUn u neg id, ofS_elabAcc r neg id]
theorem ofS_elabAcc (r : SAnd) (neg : Bool) (id : Nat) (left : BoolExpr) :
    elabAcc (CLeaf.res env sn) σ neg left (ofSAnd r) id = .ok (treeAndAcc σ neg left r, {}, id) := by
  cases r with
  | one u => simp [ofSAnd, elabAcc, treeAndAcc, ofS_elabUn u neg id]
  | more u p r' => simp [ofSAnd, elabAcc, treeAndAcc, ofS_elabUn u neg id, ofS_elabAcc r' neg id]
theorem ofS_elabUn (u : SUn) (neg : Bool) (id : Nat) :
    elabUn (CLeaf.res env sn) σ neg (ofSUn u) id = .ok (treeUn σ neg u, {}, id) := by
  cases u with
  | leaf lf => simp [ofSUn, elabUn, treeUn, CLeaf.res]
  | paren n pn pl pr e => simpa [ofSUn, elabUn, treeUn] using ofS_elabOr e (neg != n) id
end

end

/-- A condition of P1. -/
def ofCond : StmtG.SCond → SCond
  | .plain g => ofSOr g
  | .auto fm name lp a0 more rp => .one (.one (.leaf (.auto fm (cmdOfT name lp a0 more rp))))

theorem ofCond_print (c : StmtG.SCond) : printCond (ofCond c) = StmtG.printCond c := by
  cases c with
  | plain g => exact (ofS_or g).1
  | auto fm name lp a0 more rp =>
    simp [ofCond, printCond, BoolGen.printOr, BoolGen.printAnd, BoolGen.printUn, CLeaf.print, cmdOfT_print,
      StmtG.printCond, C11b.printAuto]

theorem ofCond_swf (c : StmtG.SCond) : swfCond (ofCond c) = StmtG.swfCond c := by
  cases c with
  | plain g => exact (ofS_or g).2
  | auto fm name lp a0 more rp =>
    simp only [ofCond, swfCond, wfOr, wfAnd, wfUn, CLeaf.wf, cmdOfT_ok, StmtG.swfCond]

theorem ofCond_elab (env : Env) (sn : String) (σ : String → String) (c : StmtG.SCond) (cid : Nat) :
    elabCond env sn σ (ofCond c) cid =
      match StmtG.elabCond env σ c cid with
      | .error e => .error e
      | .ok (t, j) => .ok (t, {}, j) := by
  cases c with
  | plain g => simp [ofCond, elabCond, ofS_elabOr, StmtG.elabCond]
  | auto fm name lp a0 more rp =>
    simp only [ofCond, elabCond, elabOr, elabAnd, elabUn, CLeaf.res, StmtG.elabCond, cmdOfT_elab, cmdOfT_nargs]
    have hn : (cmdOfT name lp a0 more rp).name = name := rfl
    have hl : (cmdOfT name lp a0 more rp).last = rp := rfl
    rw [hn, hl]
    cases env.autoVars.lookup name.lit with
    | none => rfl
    | some av =>
      simp only
      cases autoPosBad av (more.length + 1) with
      | some pos => rfl
      | none => simp [negLeaf]

/-! ### statements -/
mutual
def ofS : StmtG.SStmt → SStmt
  | .cmd name lp a0 more rp => .cmd (cmdOfT name lp a0 more rp)
  | .cmdI name lp a0 more rp => .cmd (cmdOfE name lp a0 more rp)
  | .cmdE name lp rp => .cmd (.empty name lp rp)
  | .cmd0 name => .cmd (.bare name)
  | .label name colon => .label name colon
  | .labelS name lp sc rp colon => .labelS name lp sc rp colon
  | .ite ifTok lp c rp lb body rb elifs els =>
      .ite ifTok lp (ofCond c) rp lb (ofL body) rb (ofElifs elifs) (ofElse els)
  | .while_ w lp c rp lb body rb => .while_ w lp (ofCond c) rp lb (ofL body) rb
  | .whileInf w lb body rb => .whileInf w lb (ofL body) rb
  | .doWhile d lb body rb w lp c rp => .doWhile d lb (ofL body) rb w lp (ofCond c) rp
  | .brk t => .brk t
  | .cont t => .cont t
  | .switch_ sw lp v lp2 ops rp2 rp lb cases rb => .switch_ sw lp v lp2 ops rp2 rp lb (ofCases cases) rb
  | .switchA sw lp name lp2 a0 more rp2 rp lb cases rb =>
      .switchA sw lp (cmdOfT name lp2 a0 more rp2) rp lb (ofCases cases) rb
  | .pory ps lp x rp lb cases rb => .pory ps lp x rp lb (ofPCases cases) rb
def ofL : List StmtG.SStmt → List SStmt
  | [] => []
  | x :: r => ofS x :: ofL r
def ofElifs : List StmtG.SElif → List SElif
  | [] => []
  | .mk e lp c rp lb body rb :: r => .mk e lp (ofCond c) rp lb (ofL body) rb :: ofElifs r
def ofElse : StmtG.SElse → SElse
  | .none => .none
  | .some e lb body rb => .some e lb (ofL body) rb
def ofCases : List StmtG.SCase → List SCase
  | [] => []
  | .case c vs colon body :: r => .case c vs colon (ofL body) :: ofCases r
  | .dflt d colon body :: r => .dflt d colon (ofL body) :: ofCases r
def ofPCases : List StmtG.SPCase → List SPCase
  | [] => []
  | .colon key c x :: r => .colon key c (ofS x) :: ofPCases r
  | .brace key lb body rb :: r => .brace key lb (ofL body) rb :: ofPCases r
end

theorem ofL_isEmpty (r : List StmtG.SStmt) : (ofL r).isEmpty = r.isEmpty := by cases r <;> rfl
theorem ofCases_isEmpty (r : List StmtG.SCase) : (ofCases r).isEmpty = r.isEmpty := by
  cases r with
  | nil => rfl
  | cons k r => cases k <;> rfl
theorem ofPCases_isEmpty (r : List StmtG.SPCase) : (ofPCases r).isEmpty = r.isEmpty := by
  cases r with
  | nil => rfl
  | cons k r => cases k <;> rfl

/-! #### printing -/
mutual
theorem ofS_print : (x : StmtG.SStmt) → printS (ofS x) = StmtG.printS x
  | .cmd name lp a0 more rp => by simp [ofS, printS, StmtG.printS, cmdOfT_print]
  | .cmdI name lp a0 more rp => by simp [ofS, printS, StmtG.printS, cmdOfE_print]
  | .cmdE name lp rp => rfl
  | .cmd0 name => rfl
  | .label .. => rfl
  | .labelS .. => rfl
  | .ite ifTok lp c rp lb body rb elifs els => by
    simp [ofS, printS, StmtG.printS, ofCond_print, ofL_print body, ofElifs_print elifs, ofElse_print els]
  | .while_ w lp c rp lb body rb => by simp [ofS, printS, StmtG.printS, ofCond_print, ofL_print body]
  | .whileInf w lb body rb => by simp [ofS, printS, StmtG.printS, ofL_print body]
  | .doWhile d lb body rb w lp c rp => by simp [ofS, printS, StmtG.printS, ofCond_print, ofL_print body]
  | .brk _ => rfl
  | .cont _ => rfl
  | .switch_ sw lp v lp2 ops rp2 rp lb cases rb => by simp [ofS, printS, StmtG.printS, ofCases_print cases]
  | .switchA sw lp name lp2 a0 more rp2 rp lb cases rb => by
    simp [ofS, printS, StmtG.printS, ofCases_print cases, cmdOfT_print]
  | .pory ps lp x rp lb cases rb => by simp [ofS, printS, StmtG.printS, ofPCases_print cases]
theorem ofL_print : (b : List StmtG.SStmt) → printL (ofL b) = StmtG.printL b
  | [] => rfl
  | x :: r => by simp [ofL, printL, StmtG.printL, ofS_print x, ofL_print r]
theorem ofElifs_print : (es : List StmtG.SElif) → printElifs (ofElifs es) = StmtG.printElifs es
  | [] => rfl
  | .mk e lp c rp lb body rb :: r => by
    simp [ofElifs, printElifs, printElif, StmtG.printElifs, StmtG.printElif, ofCond_print, ofL_print body,
      ofElifs_print r]
theorem ofElse_print : (e : StmtG.SElse) → printElse (ofElse e) = StmtG.printElse e
  | .none => rfl
  | .some e lb body rb => by simp [ofElse, printElse, StmtG.printElse, ofL_print body]
theorem ofCases_print : (cs : List StmtG.SCase) → printCases (ofCases cs) = StmtG.printCases cs
  | [] => rfl
  | .case c vs colon body :: r => by
    simp [ofCases, printCases, printCase, StmtG.printCases, StmtG.printCase, ofL_print body, ofCases_print r]
  | .dflt d colon body :: r => by
    simp [ofCases, printCases, printCase, StmtG.printCases, StmtG.printCase, ofL_print body, ofCases_print r]
theorem ofPCases_print : (cs : List StmtG.SPCase) → printPCases (ofPCases cs) = StmtG.printPCases cs
  | [] => rfl
  | .colon key c x :: r => by
    simp [ofPCases, printPCases, printPCase, StmtG.printPCases, StmtG.printPCase, ofS_print x, ofPCases_print r]
  | .brace key lb body rb :: r => by
    simp [ofPCases, printPCases, printPCase, StmtG.printPCases, StmtG.printPCase, ofL_print body,
      ofPCases_print r]
end

/-! #### well-formedness -/
mutual
theorem ofS_swf : (x : StmtG.SStmt) → swfS (ofS x) = StmtG.swfS x
  | .cmd name lp a0 more rp => by simp only [ofS, swfS, StmtG.swfS, cmdOfT_ok]
  | .cmdI name lp a0 more rp => by simp only [ofS, swfS, StmtG.swfS, cmdOfE_ok]
  | .cmdE name lp rp => rfl
  | .cmd0 name => rfl
  | .label .. => rfl
  | .labelS .. => rfl
  | .ite ifTok lp c rp lb body rb elifs els => by
    simp only [ofS, swfS, StmtG.swfS, ofCond_swf, ofL_swf body, ofElifs_swf elifs, ofElse_swf els]
  | .while_ w lp c rp lb body rb => by simp only [ofS, swfS, StmtG.swfS, ofCond_swf, ofL_swf body]
  | .whileInf w lb body rb => by simp only [ofS, swfS, StmtG.swfS, ofL_swf body]
  | .doWhile d lb body rb w lp c rp => by simp only [ofS, swfS, StmtG.swfS, ofCond_swf, ofL_swf body]
  | .brk _ => rfl
  | .cont _ => rfl
  | .switch_ sw lp v lp2 ops rp2 rp lb cases rb => by simp only [ofS, swfS, StmtG.swfS, ofCases_swf cases]
  | .switchA sw lp name lp2 a0 more rp2 rp lb cases rb => by
    simp only [ofS, swfS, StmtG.swfS, ofCases_swf cases, cmdOfT_ok]
    cases sw.type == .SWITCH <;> cases lp.type == .LPAREN <;> cases name.type == .IDENT <;>
      cases lp2.type == .LPAREN <;> cases rp2.type == .RPAREN <;> cases decide (ArgOK a0) <;>
      cases more.all (fun p => p.1.type == .COMMA && decide (ArgOK p.2)) <;> simp
  | .pory ps lp x rp lb cases rb => by simp only [ofS, swfS, StmtG.swfS, ofPCases_swf cases]
theorem ofL_swf : (b : List StmtG.SStmt) → swfL (ofL b) = StmtG.swfL b
  | [] => rfl
  | x :: r => by simp only [ofL, swfL, StmtG.swfL, ofS_swf x, ofL_swf r]
theorem ofElifs_swf : (es : List StmtG.SElif) → swfElifs (ofElifs es) = StmtG.swfElifs es
  | [] => rfl
  | .mk e lp c rp lb body rb :: r => by
    simp only [ofElifs, swfElifs, swfElif, StmtG.swfElifs, StmtG.swfElif, ofCond_swf, ofL_swf body,
      ofElifs_swf r]
theorem ofElse_swf : (e : StmtG.SElse) → swfElse (ofElse e) = StmtG.swfElse e
  | .none => rfl
  | .some e lb body rb => by simp only [ofElse, swfElse, StmtG.swfElse, ofL_swf body]
theorem ofCases_swf : (cs : List StmtG.SCase) → swfCases (ofCases cs) = StmtG.swfCases cs
  | [] => rfl
  | .case c vs colon body :: r => by
    simp only [ofCases, swfCases, swfCase, StmtG.swfCases, StmtG.swfCase, ofL_swf body, ofCases_swf r]
  | .dflt d colon body :: r => by
    simp only [ofCases, swfCases, swfCase, StmtG.swfCases, StmtG.swfCase, ofL_swf body, ofCases_swf r]
theorem ofPCases_swf : (cs : List StmtG.SPCase) → swfPCases (ofPCases cs) = StmtG.swfPCases cs
  | [] => rfl
  | .colon key c x :: r => by
    simp only [ofPCases, swfPCases, swfPCase, StmtG.swfPCases, StmtG.swfPCase, ofS_swf x, ofPCases_swf r]
  | .brace key lb body rb :: r => by
    simp only [ofPCases, swfPCases, swfPCase, StmtG.swfPCases, StmtG.swfPCase, ofL_swf body, ofPCases_swf r]
end

/-! #### elaboration -/
section
variable (env : Env) (sn : String) (σ : String → String)

mutual
theorem ofS_elab : (x : StmtG.SStmt) → ∀ (B C : List Nat) (nx : Bool) (i j : Nat),
    elabS env sn σ B C nx (ofS x) i j = StmtG.elabS env sn σ B C nx x i j
  | .cmd name lp a0 more rp, B, C, nx, i, j => by
    simp only [ofS, elabS, StmtG.elabS, cmdOfT_elab, cmdNode]
  | .cmdI name lp a0 more rp, B, C, nx, i, j => by
    simp only [ofS, elabS, StmtG.elabS, cmdOfE_elab, cmdNode]
  | .cmdE name lp rp, B, C, nx, i, j => rfl
  | .cmd0 name, B, C, nx, i, j => rfl
  | .label .., B, C, nx, i, j => rfl
  | .labelS .., B, C, nx, i, j => rfl
  | .ite ifTok lp c rp lb body rb elifs els, B, C, nx, i, j => by
    simp only [ofS, elabS, StmtG.elabS, ofCond_elab]
    cases StmtG.elabCond env σ c j with
    | error e => rfl
    | ok v =>
      obtain ⟨t, j0⟩ := v
      simp only [ofL_elab body, ofElifs_elab elifs, ofElse_elab els, nil_add]
      rfl
  | .while_ w lp c rp lb body rb, B, C, nx, i, j => by
    simp only [ofS, elabS, StmtG.elabS, ofCond_elab]
    cases StmtG.elabCond env σ c j with
    | error e => rfl
    | ok v =>
      obtain ⟨t, j0⟩ := v
      simp only [ofL_elab body, nil_add]
      rfl
  | .whileInf w lb body rb, B, C, nx, i, j => by simp only [ofS, elabS, StmtG.elabS, ofL_elab body]; rfl
  | .doWhile d lb body rb w lp c rp, B, C, nx, i, j => by
    simp only [ofS, elabS, StmtG.elabS, ofL_elab body]
    cases StmtG.elabL env sn σ (i :: B) (i :: C) true body (i + 1) j with
    | error e => rfl
    | ok v =>
      obtain ⟨b, m1, i1, j1⟩ := v
      simp only [ofCond_elab]
      cases StmtG.elabCond env σ c j1 with
      | error e => rfl
      | ok u => obtain ⟨t, j2⟩ := u; simp only [add_nil]
  | .brk _, B, C, nx, i, j => by cases B <;> rfl
  | .cont _, B, C, nx, i, j => by cases C <;> rfl
  | .switch_ sw lp v lp2 ops rp2 rp lb cases rb, B, C, nx, i, j => by
    simp only [ofS, elabS, StmtG.elabS, ofCases_elab cases]
    rfl
  | .switchA sw lp name lp2 a0 more rp2 rp lb cases rb, B, C, nx, i, j => by
    simp only [ofS, elabS, StmtG.elabS, ofCases_elab cases, cmdOfT_elab, cmdOfT_nargs, cmdNode]
    have hn : (cmdOfT name lp2 a0 more rp2).name = name := rfl
    have hl : (cmdOfT name lp2 a0 more rp2).last = rp2 := rfl
    rw [hn, hl]
    cases env.autoVars.lookup name.lit with
    | none => rfl
    | some av =>
      simp only
      cases autoPosBad av (more.length + 1) with
      | some pos => rfl
      | none => simp only [nil_add]; rfl
  | .pory ps lp x rp lb cases rb, B, C, nx, i, j => by
    simp only [ofS, elabS, StmtG.elabS, ofPCases_elab cases]
    rfl
theorem ofL_elab : (b : List StmtG.SStmt) → ∀ (B C : List Nat) (last : Bool) (i j : Nat),
    elabL env sn σ B C last (ofL b) i j = StmtG.elabL env sn σ B C last b i j
  | [], B, C, last, i, j => rfl
  | x :: r, B, C, last, i, j => by
    simp only [ofL, elabL, StmtG.elabL, ofL_isEmpty, ofS_elab x]
    cases StmtG.elabS env sn σ B C (r.isEmpty && last) x i j with
    | error e => rfl
    | ok v => obtain ⟨a, m1, i1, j1⟩ := v; simp only [ofL_elab r]; rfl
theorem ofElifs_elab : (es : List StmtG.SElif) → ∀ (B C : List Nat) (i j : Nat),
    elabElifs env sn σ B C (ofElifs es) i j = StmtG.elabElifs env sn σ B C es i j
  | [], B, C, i, j => rfl
  | .mk e lp c rp lb body rb :: r, B, C, i, j => by
    simp only [ofElifs, elabElifs, StmtG.elabElifs, ofCond_elab]
    cases StmtG.elabCond env σ c j with
    | error e => rfl
    | ok v =>
      obtain ⟨t, j0⟩ := v
      simp only [ofL_elab body]
      cases StmtG.elabL env sn σ B C true body i j0 with
      | error e => rfl
      | ok w => obtain ⟨b, m1, i1, j1⟩ := w; simp only [ofElifs_elab r, nil_add]; rfl
theorem ofElse_elab : (e : StmtG.SElse) → ∀ (B C : List Nat) (i j : Nat),
    elabElse env sn σ B C (ofElse e) i j = StmtG.elabElse env sn σ B C e i j
  | .none, B, C, i, j => rfl
  | .some e lb body rb, B, C, i, j => by simp only [ofElse, elabElse, StmtG.elabElse, ofL_elab body]; rfl
theorem ofCases_elab : (cs : List StmtG.SCase) → ∀ (B C : List Nat) (seen : List String) (hd : Bool) (i j : Nat),
    elabCases env sn σ B C (ofCases cs) seen hd i j = StmtG.elabCases env sn σ B C cs seen hd i j
  | [], B, C, seen, hd, i, j => rfl
  | .case c vs colon body :: r, B, C, seen, hd, i, j => by
    simp only [ofCases, elabCases, StmtG.elabCases, ofCases_isEmpty, ofL_elab body]
    split
    · rfl
    · cases StmtG.elabL env sn σ B C r.isEmpty body i j with
      | error e => rfl
      | ok v => obtain ⟨b, m1, i1, j1⟩ := v; simp only [ofCases_elab r]; rfl
  | .dflt d colon body :: r, B, C, seen, hd, i, j => by
    simp only [ofCases, elabCases, StmtG.elabCases, ofCases_isEmpty, ofL_elab body]
    split
    · rfl
    · cases StmtG.elabL env sn σ B C r.isEmpty body i j with
      | error e => rfl
      | ok v => obtain ⟨b, m1, i1, j1⟩ := v; simp only [ofCases_elab r]; rfl
theorem ofPCases_elab : (cs : List StmtG.SPCase) → ∀ (B C : List Nat)
    (acc : List (String × List Stmt × ImpData)) (i j : Nat),
    elabPCases env sn σ B C (ofPCases cs) acc i j = StmtG.elabPCases env sn σ B C cs acc i j
  | [], B, C, acc, i, j => rfl
  | .colon key c x :: r, B, C, acc, i, j => by
    simp only [ofPCases, elabPCases, StmtG.elabPCases, ofPCases_isEmpty, ofS_elab x]
    cases StmtG.elabS env sn σ B C r.isEmpty x i j with
    | error e => rfl
    | ok v => obtain ⟨a, m1, i1, j1⟩ := v; simp only [ofPCases_elab r]
  | .brace key lb body rb :: r, B, C, acc, i, j => by
    simp only [ofPCases, elabPCases, StmtG.elabPCases, ofL_elab body]
    cases StmtG.elabL env sn σ B C true body i j with
    | error e => rfl
    | ok v => obtain ⟨a, m1, i1, j1⟩ := v; simp only [ofPCases_elab r]
end

end

theorem ofL_elabE (env : Env) (sn : String) (c : Ctx) (b : List StmtG.SStmt) :
    elabE env sn c (ofL b) = StmtG.elabE env sn c b := by
  simp only [elabE, StmtG.elabE, ofL_elab]
  rfl

/-- **P1 is the special case `ofL b` of P1b**: `StmtG.parse_block_elab` / `P1.parse_block_elab` with the fuel
bound in tokens, derived from `P1b.parse_block_elab` through the embedding (printing, well-formedness and
elaboration commute with it). -/
theorem p1_special_case (env : Env) (sn : String) (startTok : Tok) (b : List StmtG.SStmt) (rb : Tok)
    (rest : List Tok) (hwf : StmtG.SWF b) (hrb : rb.type = .RBRACE) (s : PState)
    (htoks : s.toks = StmtG.printStmts b ++ rb :: rest) (fuel : Nat)
    (hfuel : 2 * (StmtG.printStmts b).length + 1 ≤ fuel) :
    (parseBlockStatement env sn startTok fuel [] {}).run s =
      match StmtG.elabE env sn (ctxOf s) b with
      | .ok (stmts, imp, c') =>
        .ok ((stmts, imp), { s with toks := rb :: rest, nextSid := c'.nextSid, nextCmdId := c'.nextCmdId })
      | .error e => .error e := by
  have h := parse_block_elab env sn startTok (ofL b) rb rest (by unfold SWF; rw [ofL_swf]; exact hwf) hrb s
    (by rw [htoks]; show _ = printL (ofL b) ++ _; rw [ofL_print]) fuel
    (fuel_of_tokens (ofL b) fuel (by show 2 * (printL (ofL b)).length + 1 ≤ fuel; rw [ofL_print]; exact hfuel))
  rw [h, ofL_elabE]
  rfl

end Pory.P1b
