import PoryProofs.ProgramFrame
import PoryProofs.ProgramEmit
import PoryProofs.ProgramParse
import PoryProofs.Properties.C20
/-
P2 helpers: assembling the independence theorem (see PoryProofs/Properties/P2.lean).
-/
namespace Pory.P2
open Pory Pory.Parser Pory.C02P Pory.StmtG Pory.TopParse Pory.Emit
open Pory.C12c

/-! ### the file elaboration on a concatenation -/

theorem elabTops_append (env : Env) : ∀ (a b : List STop) (s : PState),
    elabTops env (a ++ b) s =
      match elabTops env a s with
      | .error e => .error e
      | .ok (ta, s1) =>
        match elabTops env b s1 with
        | .error e => .error e
        | .ok (tb, s2) => .ok (ta ++ tb, s2)
  | [], b, s => by
    simp only [List.nil_append, elabTops]
    cases elabTops env b s with
    | error e => rfl
    | ok q => rfl
  | t :: r, b, s => by
    simp only [List.cons_append, elabTops]
    cases stepTop env t s with
    | error e => rfl
    | ok q =>
      obtain ⟨o, s1⟩ := q
      simp only [elabTops_append env r b s1]
      cases elabTops env r s1 with
      | error e => rfl
      | ok q2 =>
        obtain ⟨ta, s2⟩ := q2
        simp only
        cases elabTops env b s2 with
        | error e => rfl
        | ok q3 => obtain ⟨tb, s3⟩ := q3; simp

/-! ### the trivial domain: a run compared with itself -/

def domAll : Dom := { lit := fun _ => True, kt := fun _ => True, km := fun _ => True, n := fun _ => True }

theorem uses_all (env : Env) : ∀ (ts : List STop) (s : PState), Uses env domAll ts s
  | [], _ => trivial
  | t :: r, s => by
    refine ⟨?_, ?_⟩
    · refine ⟨fun _ _ => trivial, ?_⟩
      cases t <;> simp only
      split
      · exact ⟨fun _ _ => ⟨trivial, trivial⟩, fun _ _ => ⟨trivial, trivial⟩⟩
      · trivial
    · cases stepTop env t s with
      | error e => trivial
      | ok q => exact uses_all env r q.2

theorem agree_self (s : PState) (hb : s.breakStack = []) (hc : s.continueStack = []) : Agree domAll 0 0 s s :=
  ⟨fun _ _ => rfl, hb, hc, hb, hc, rfl, rfl, ⟨fun _ _ => rfl, fun _ _ => rfl, fun _ _ => rfl, fun _ _ => rfl⟩⟩

theorem All2.mem_left {α β : Type} {P : α → β → Prop} : ∀ {l' : List α} {l : List β}, All2 P l' l →
    ∀ x' ∈ l', ∃ x ∈ l, P x' x
  | [], [], _, _, h => by cases h
  | a :: r', b :: r, h, x', hx => by
    rcases List.mem_cons.1 hx with rfl | hx
    · exact ⟨b, List.mem_cons_self .., h.1⟩
    · obtain ⟨x, hx1, hx2⟩ := All2.mem_left h.2 x' hx
      exact ⟨x, List.mem_cons_of_mem _ hx1, hx2⟩
  | [], _ :: _, h, _, _ => h.elim
  | _ :: _, [], h, _, _ => h.elim

theorem All2.mem_right {α β : Type} {P : α → β → Prop} : ∀ {l' : List α} {l : List β}, All2 P l' l →
    ∀ x ∈ l, ∃ x' ∈ l', P x' x
  | [], [], _, _, h => by cases h
  | a :: r', b :: r, h, x, hx => by
    rcases List.mem_cons.1 hx with rfl | hx
    · exact ⟨a, List.mem_cons_self .., h.1⟩
    · obtain ⟨x', hx1, hx2⟩ := All2.mem_right h.2 x hx
      exact ⟨x', List.mem_cons_of_mem _ hx1, hx2⟩
  | [], _ :: _, h, _, _ => h.elim
  | _ :: _, [], h, _, _ => h.elim

/-- What every run from a state with empty stacks and small patch ids guarantees. -/
theorem elabTops_self (env : Env) (ts : List STop) (s0 : PState) (hb : s0.breakStack = [])
    (hc : s0.continueStack = []) (tops : List Top) (s : PState) (h : elabTops env ts s0 = .ok (tops, s)) :
    s.breakStack = [] ∧ s.continueStack = [] ∧ s0.nextCmdId ≤ s.nextCmdId ∧
      All2 (RelTop (Rb 0 0 s0.nextCmdId s.nextCmdId)) tops tops ∧
      ∃ Δ, s.patches = s0.patches ++ Δ ∧ ∀ p ∈ Δ, s0.nextCmdId ≤ p.1.1 ∧ p.1.1 < s.nextCmdId := by
  have hf := elabTops_frame env domAll 0 0 ts (agree_self s0 hb hc) (uses_all env ts s0)
  rw [h] at hf
  obtain ⟨topsB, b1, hb1, hA, hle, hr, hd⟩ := hf
  simp only [Except.ok.injEq, Prod.mk.injEq] at hb1
  obtain ⟨rfl, rfl⟩ := hb1
  obtain ⟨Δ, Δ', hp, hp', hall⟩ := hd.patches
  have : Δ' = Δ := List.append_cancel_left (hp'.symm.trans hp)
  subst this
  refine ⟨hA.ba, hA.ca, hle, hr, Δ', hp, ?_⟩
  intro p hp
  obtain ⟨x, _, hx⟩ := All2.mem_right hall p hp
  exact ⟨hx.1.2.1, hx.1.2.2⟩

/-! ### names -/

def textNames (s : PState) : List String := (s.inlineTexts ++ s.textStatements).map (·.name)

/-- Names of the movement statements among `tops`. -/
def mvNames : List Top → List String
  | [] => []
  | .movement m :: r => m.name :: mvNames r
  | _ :: r => mvNames r

/-- Names of the movement statements and hoisted movements of a parsed file. -/
def allMvNames (tops : List Top) (s : PState) : List String := mvNames tops ++ s.inlineMovements.map (·.name)

/-- The label statements of the scripts among `tops` (as they sit in the chunk tables). -/
def labelNames : List Top → List String
  | [] => []
  | .script s :: r => C04c.userLabelsOf s ++ labelNames r
  | _ :: r => labelNames r

theorem mvNames_append : ∀ (a b : List Top), mvNames (a ++ b) = mvNames a ++ mvNames b
  | [], _ => rfl
  | t :: r, b => by cases t <;> simp [mvNames, mvNames_append r b]

theorem mvNames_movements : ∀ (ms : List MovementStmt), mvNames (ms.map Top.movement) = ms.map (·.name)
  | [] => rfl
  | m :: r => by simp [mvNames, mvNames_movements r]

theorem mvNames_rel {R : Ren} : ∀ {tops' tops : List Top}, All2 (RelTop R) tops' tops → mvNames tops' = mvNames tops
  | [], [], _ => rfl
  | x' :: _, x :: _, h => by
    have ih := mvNames_rel h.2
    have h1 := h.1
    cases h1 with
    | script => simp only [mvNames, ih]
    | same _ ht => cases x' <;> simp only [mvNames, ih]
  | [], _ :: _, h => h.elim
  | _ :: _, [], h => h.elim

theorem firstDuplicateMovement_none_iff : ∀ (tops : List Top) (seen : List (String × Tok)),
    firstDuplicateMovement tops seen = none ↔
      (mvNames tops).Nodup ∧ ∀ n ∈ mvNames tops, seen.lookup n = none
  | [], seen => by simp [firstDuplicateMovement, mvNames]
  | .movement m :: r, seen => by
    simp only [firstDuplicateMovement, mvNames, List.nodup_cons, List.mem_cons, forall_eq_or_imp]
    cases hl : seen.lookup m.name with
    | some t => simp
    | none =>
      simp only [firstDuplicateMovement_none_iff r, List.lookup_cons, true_and]
      constructor
      · rintro ⟨h1, h2⟩
        refine ⟨⟨?_, h1⟩, ?_⟩
        · intro hm
          have := h2 _ hm
          simp at this
        · intro n hn
          have := h2 n hn
          cases hb : n == m.name with
          | true => rw [hb] at this; cases this
          | false => rw [hb] at this; exact this
      · rintro ⟨⟨h1, h2⟩, h3⟩
        refine ⟨h2, ?_⟩
        intro n hn
        have hne : (n == m.name) = false := by
          cases hb : n == m.name with
          | false => rfl
          | true =>
            have : n = m.name := by simpa using hb
            subst this
            exact absurd hn h1
        rw [hne]
        exact h3 n hn
  | .script _ :: r, seen => by simp only [firstDuplicateMovement, mvNames, firstDuplicateMovement_none_iff r]
  | .raw .. :: r, seen => by simp only [firstDuplicateMovement, mvNames, firstDuplicateMovement_none_iff r]
  | .text _ :: r, seen => by simp only [firstDuplicateMovement, mvNames, firstDuplicateMovement_none_iff r]
  | .mart .. :: r, seen => by simp only [firstDuplicateMovement, mvNames, firstDuplicateMovement_none_iff r]
  | .mapscripts _ :: r, seen => by simp only [firstDuplicateMovement, mvNames, firstDuplicateMovement_none_iff r]

/-- `finish` succeeds iff the text names and the movement names are pairwise distinct. -/
theorem finish_ok_iff (tops : List Top) (s : PState) :
    (∃ p, finish tops s = .ok p) ↔ (textNames s).Nodup ∧ (allMvNames tops s).Nodup := by
  unfold finish textNames allMvNames
  cases h1 : firstDuplicateText (s.inlineTexts ++ s.textStatements) [] with
  | some t =>
    have : ¬ ((s.inlineTexts ++ s.textStatements).map (·.name)).Nodup := by
      intro hn
      have := (C20.firstDuplicateText_none_iff _ []).2 ⟨hn, by simp⟩
      rw [h1] at this; cases this
    constructor
    · rintro ⟨p, hp⟩; cases hp
    · rintro ⟨hn, _⟩; exact absurd hn this
  | none =>
    have hn := ((C20.firstDuplicateText_none_iff _ []).1 h1).1
    simp only [hn, true_and]
    cases h2 : firstDuplicateMovement (tops ++ s.inlineMovements.map Top.movement) [] with
    | some q =>
      have : ¬ (mvNames tops ++ s.inlineMovements.map (·.name)).Nodup := by
        intro hn
        have := (firstDuplicateMovement_none_iff (tops ++ s.inlineMovements.map Top.movement) []).2
          ⟨by rw [mvNames_append, mvNames_movements]; exact hn, by simp⟩
        rw [h2] at this; cases this
      obtain ⟨tok, name⟩ := q
      constructor
      · rintro ⟨p, hp⟩; cases hp
      · intro hn; exact absurd hn this
    | none =>
      have := ((firstDuplicateMovement_none_iff _ []).1 h2).1
      rw [mvNames_append, mvNames_movements] at this
      simp [this]

theorem finish_eq (tops : List Top) (s : PState) (p : Program) (h : finish tops s = .ok p) :
    p = { tops := tops ++ s.inlineMovements.map Top.movement, texts := s.inlineTexts ++ s.textStatements,
          patches := s.patches } := by
  unfold finish at h
  split at h
  · cases h
  · split at h
    · cases h
    · cases h; rfl

/-! ### the output in four sections -/

/-- The output of a compiled file as blocks, in four sections: the top-level statements (in order), the hoisted
movements, the hoisted texts, the text statements. The rendered file is all blocks joined by blank lines. -/
structure Sections where
  tops : List (List Line) := []
  moves : List (List Line) := []
  inl : List (List Line) := []
  stm : List (List Line) := []
  deriving DecidableEq, Repr

/-- Section-wise concatenation. -/
def Sections.append (a b : Sections) : Sections :=
  ⟨a.tops ++ b.tops, a.moves ++ b.moves, a.inl ++ b.inl, a.stm ++ b.stm⟩

def Sections.blocks (S : Sections) : List (List Line) := S.tops ++ S.moves ++ S.inl ++ S.stm

/-- The lines `emitProgram` returns. -/
def Sections.lines (S : Sections) : List Line := joinFrom 0 S.blocks

/-- The emitter on the result `(tops, s)` of the file elaboration. -/
def sectionsOf (o : Opts) (tops : List Top) (s : PState) : Except EFail Sections :=
  match topBlocks o s.patches (textNames s) tops with
  | .error e => .error e
  | .ok bs => .ok ⟨bs, s.inlineMovements.map (emitMovement o), s.inlineTexts.map (emitText o),
                  s.textStatements.map (emitText o)⟩

theorem emitProgram_sections (o : Opts) (tops : List Top) (s : PState) (p : Program)
    (h : finish tops s = .ok p) :
    emitProgram o p =
      match sectionsOf o tops s with
      | .error e => .error e
      | .ok S => .ok S.lines := by
  rw [finish_eq tops s p h, emitProgram_blocks]
  simp only [topBlocks_append, topBlocks_movements, sectionsOf]
  have : (s.inlineTexts ++ s.textStatements).map (·.name) = textNames s := rfl
  rw [this]
  cases topBlocks o s.patches (textNames s) tops with
  | error e => rfl
  | ok bs => simp [Sections.lines, Sections.blocks, List.map_append, List.append_assoc]

/-- Why a file does not compile: the parser (incl. its post-passes) or the emitter. -/
inductive CErr
  | parse (e : PFail)
  | emit (e : EFail)

/-- **Compilation of a file of the grammar**, on the reference elaboration: `elabTops`, the post-passes of
`ParseProgram`, the emitter (as sections). -/
def compileFile (env : Env) (o : Opts) (eofT : Tok) (ts : List STop) : Except CErr Sections :=
  match elabTops env ts (initState eofT) with
  | .error e => .error (.parse e)
  | .ok (tops, s) =>
    match finish tops s with
    | .error e => .error (.parse e)
    | .ok _ =>
      match sectionsOf o tops s with
      | .error e => .error (.emit e)
      | .ok S => .ok S

/-- The model's pipeline on tokens: `parseTokens`, then `emitProgram`. -/
def compileToks (env : Env) (o : Opts) (toks : List Tok) : Except CErr (List Line) :=
  match parseTokens env toks with
  | .error e => .error (.parse e)
  | .ok p =>
    match emitProgram o p with
    | .error e => .error (.emit e)
    | .ok ls => .ok ls

/-- The pipeline on the printed tokens of a file is `compileFile`. -/
theorem compileToks_print (env : Env) (o : Opts) (eofT : Tok) (heof : eofT.type = .EOF) (ts : List STop)
    (hwf : TWF ts) :
    compileToks env o (printTops ts ++ [eofT]) =
      match compileFile env o eofT ts with
      | .error e => .error e
      | .ok S => .ok S.lines := by
  unfold compileToks compileFile
  rw [parseTokens_elab env eofT heof ts hwf]
  unfold elabFile
  cases elabTops env ts (initState eofT) with
  | error e => rfl
  | ok q =>
    obtain ⟨tops, s⟩ := q
    simp only
    cases hf : finish tops s with
    | error e => rfl
    | ok p =>
      simp only [emitProgram_sections o tops s p hf]
      cases sectionsOf o tops s <;> rfl

/-! ### independence, parser side -/

/-- The domain on which the empty tables of the initial state agree with those of `s1`: the literals that are
not the name of a constant of `s1`, the text / movement keys `s1` has not hoisted, the script names without
hoisted texts and movements in `s1`. -/
def domOf (s1 : PState) : Dom :=
  { lit := fun v => s1.constants.lookup v = none
    kt := fun k => s1.inlineTextsSet.lookup k = none
    km := fun k => s1.inlineMovementsSet.lookup k = none
    n := fun n => lookupD s1.inlineTextCounts n = 0 ∧ lookupD s1.inlineMovementCounts n = 0 }

/-- **Independence, parser side.** If `ts1` elaborates to `(tops1, s1)`, no token of `ts2` is spelled like a
constant of `ts1`, and the scripts of `ts2` hoist only texts / movements `ts1` has not hoisted, under script
names `ts1` has not used for hoisting, then `ts1 ++ ts2` fails with the error of `ts2`, or elaborates to the statements of `ts1` followed by
those of `ts2` with the ids shifted by the counters of `s1`; hoisted texts, movements, text statements are
concatenated, the patches of `ts2` are appended with shifted command ids. -/
theorem indep_parse (env : Env) (eofT : Tok) (ts1 ts2 : List STop) (tops1 : List Top) (s1 : PState)
    (h1 : elabTops env ts1 (initState eofT) = .ok (tops1, s1))
    (hu : Uses env (domOf s1) ts2 (initState eofT)) :
    match elabTops env ts2 (initState eofT) with
    | .error e => elabTops env (ts1 ++ ts2) (initState eofT) = .error e
    | .ok (tops2, s2) =>
      ∃ tops2' s12 Δ', elabTops env (ts1 ++ ts2) (initState eofT) = .ok (tops1 ++ tops2', s12) ∧
        All2 (RelTop (Rb s1.nextCmdId s1.nextSid 0 s2.nextCmdId)) tops2' tops2 ∧
        s12.inlineTexts = s1.inlineTexts ++ s2.inlineTexts ∧
        s12.inlineMovements = s1.inlineMovements ++ s2.inlineMovements ∧
        s12.textStatements = s1.textStatements ++ s2.textStatements ∧
        s12.patches = s1.patches ++ Δ' ∧
        All2 (relPatch (Rb s1.nextCmdId s1.nextSid 0 s2.nextCmdId)) Δ' s2.patches := by
  obtain ⟨hb1, hc1, _, _, _⟩ := elabTops_self env ts1 (initState eofT) rfl rfl tops1 s1 h1
  have hA : Agree (domOf s1) s1.nextCmdId s1.nextSid (initState eofT) s1 :=
    ⟨fun _ hv => hv, rfl, rfl, hb1, hc1, (Nat.zero_add _).symm, (Nat.zero_add _).symm,
      ⟨fun _ hk => hk, fun _ hn => hn.1, fun _ hk => hk, fun _ hn => hn.2⟩⟩
  have hf := elabTops_frame env (domOf s1) s1.nextCmdId s1.nextSid ts2 hA hu
  rw [elabTops_append, h1]
  cases h2 : elabTops env ts2 (initState eofT) with
  | error e =>
    rw [h2] at hf
    simp only [hf]
  | ok q =>
    obtain ⟨tops2, s2⟩ := q
    rw [h2] at hf
    obtain ⟨tops2', s12, hb, _, _, hr, hd⟩ := hf
    obtain ⟨Δt, ht1, ht2⟩ := hd.texts
    obtain ⟨Δm, hm1, hm2⟩ := hd.moves
    obtain ⟨Δs, hs1, hs2⟩ := hd.stmts
    obtain ⟨Δ, Δ', hp1, hp2, hall⟩ := hd.patches
    have e1 : Δt = s2.inlineTexts := by rw [ht1]; rfl
    have e2 : Δm = s2.inlineMovements := by rw [hm1]; rfl
    have e3 : Δs = s2.textStatements := by rw [hs1]; rfl
    have e4 : Δ = s2.patches := by rw [hp1]; rfl
    subst e1 e2 e3 e4
    simp only [hb]
    exact ⟨tops2', s12, Δ', rfl, hr, ht2, hm2, hs2, hp2, hall⟩

/-! ### independence, emitter side -/

theorem contains_congr {l' l : List String} {n : String} (h : n ∈ l' ↔ n ∈ l) : l'.contains n = l.contains n := by
  rw [Bool.eq_iff_iff]
  simp only [List.contains_iff_mem, h]

theorem emitTopLines_frame (o : Opts) {R : Ren} (hs : Mono R.s) {ps' ps : List ((Nat × Nat) × String)}
    (hpa : ∀ c' c, relCmd R c' c → patchedArgs ps' c' = patchedArgs ps c) {tl' tl : List String}
    {t' t : Top} (h : RelTop R t' t)
    (hl : ∀ s, t = .script s → ∀ n ∈ C04c.userLabelsOf s, tl'.contains n = tl.contains n) :
    C17.emitTopLines o ps' tl' t' = C17.emitTopLines o ps tl t := by
  cases h with
  | @script s' s h1 h2 h3 h4 =>
    simp only [C17.emitTopLines]
    rw [emitScript_frame o hpa hs h2 h3 h4 (hl s rfl)]
  | same _ ht => cases t' <;> first | rfl | (simp [Top.plain] at ht)

theorem topBlocks_frame (o : Opts) {R : Ren} (hs : Mono R.s) {ps' ps : List ((Nat × Nat) × String)}
    (hpa : ∀ c' c, relCmd R c' c → patchedArgs ps' c' = patchedArgs ps c) {tl' tl : List String} :
    ∀ {tops' tops : List Top}, All2 (RelTop R) tops' tops →
      (∀ n ∈ labelNames tops, tl'.contains n = tl.contains n) →
      topBlocks o ps' tl' tops' = topBlocks o ps tl tops
  | [], [], _, _ => rfl
  | x' :: r', x :: r, h, hl => by
    have e1 : C17.emitTopLines o ps' tl' x' = C17.emitTopLines o ps tl x := by
      refine emitTopLines_frame o hs hpa h.1 ?_
      rintro s rfl n hn
      exact hl n (by simp [labelNames, hn])
    have e2 := topBlocks_frame o hs hpa h.2 (fun n hn => hl n (by
      cases x <;> simp [labelNames, hn]))
    simp only [topBlocks, e1, e2]
  | [], _ :: _, h, _ => h.elim
  | _ :: _, [], h, _ => h.elim

theorem relCmd_Rb0_eq {lo hi : Nat} {c' c : Cmd} (h : relCmd (Rb 0 0 lo hi) c' c) : c' = c ∧ c.id < hi := by
  obtain ⟨⟨h1, _, h3⟩, h4, h5, h6⟩ := h
  cases c'; cases c
  simp only [Nat.add_zero] at h1 h4 h5 h6
  subst h1 h4 h5 h6
  exact ⟨rfl, h3⟩

/-- **Independence, emitter side**: the blocks of the top-level statements of the combined file are those of
part 1 followed by those of part 2 (the first error, if any). -/
theorem indep_blocks (o : Opts) (tops1 tops2 tops2' : List Top) (s1 s2 s12 : PState)
    (Δ' : List ((Nat × Nat) × String)) (hi2 : Nat)
    (hr1 : All2 (RelTop (Rb 0 0 0 s1.nextCmdId)) tops1 tops1)
    (hp1 : ∀ p ∈ s1.patches, p.1.1 < s1.nextCmdId)
    (hr2 : All2 (RelTop (Rb s1.nextCmdId s1.nextSid 0 hi2)) tops2' tops2)
    (hpat : s12.patches = s1.patches ++ Δ')
    (hall : All2 (relPatch (Rb s1.nextCmdId s1.nextSid 0 hi2)) Δ' s2.patches)
    (hl1 : ∀ n ∈ labelNames tops1, (textNames s12).contains n = (textNames s1).contains n)
    (hl2 : ∀ n ∈ labelNames tops2, (textNames s12).contains n = (textNames s2).contains n) :
    topBlocks o s12.patches (textNames s12) (tops1 ++ tops2') =
      match topBlocks o s1.patches (textNames s1) tops1 with
      | .error e => .error e
      | .ok b1 =>
        match topBlocks o s2.patches (textNames s2) tops2 with
        | .error e => .error e
        | .ok b2 => .ok (b1 ++ b2) := by
  rw [topBlocks_append, hpat]
  have e1 : topBlocks o (s1.patches ++ Δ') (textNames s12) tops1 = topBlocks o s1.patches (textNames s1) tops1 := by
    refine topBlocks_frame o (Rb_mono_s 0 0 0 s1.nextCmdId) ?_ hr1 hl1
    intro c' c hc
    obtain ⟨rfl, hlt⟩ := relCmd_Rb0_eq hc
    apply patchedArgs_append_right
    intro p hp
    obtain ⟨x, _, hx⟩ := All2.mem_left hall p hp
    have := hx.1.1
    omega
  have e2 : topBlocks o (s1.patches ++ Δ') (textNames s12) tops2' = topBlocks o s2.patches (textNames s2) tops2 := by
    refine topBlocks_frame o (Rb_mono_s _ _ 0 hi2) ?_ hr2 hl2
    intro c' c hc
    rw [patchedArgs_append_left]
    · exact patchedArgs_rel (Rb_mono_c _ _ 0 hi2) hall hc
    · intro p hp
      have h1 := hp1 p hp
      have h2 := hc.1.1
      omega
  rw [e1, e2]
  cases topBlocks o s1.patches (textNames s1) tops1 with
  | error e => rfl
  | ok b1 => cases topBlocks o s2.patches (textNames s2) tops2 <;> rfl

/-! ### the independence theorem -/

/-- **The side condition of independence** of the two parts of a file `ts1 ++ ts2` (every clause is a finite
check on the elaborations of the two parts alone; vacuous when a part does not elaborate):
* no token of `ts2` is spelled like a constant defined in `ts1` (so `ts2` neither uses nor redefines a constant
  of `ts1`; both parts may define and use their own constants; what `ts2` defines cannot matter to `ts1`, which
  is parsed first), the scripts of `ts2` hoist only texts / movements that `ts1` has not hoisted, and — if they
  hoist something — are not named like a script of `ts1` that hoisted anything (all three: `Uses … (domOf s1)`);
* no text name (text statements and generated `…_Text_n`) of one part is a text name of the other;
* no movement name (movement statements and generated `…_Movement_n`) of one part is one of the other;
* no label statement inside a script of one part is a text name of the other part. -/
def Indep (env : Env) (eofT : Tok) (ts1 ts2 : List STop) : Prop :=
  match elabTops env ts1 (initState eofT) with
  | .error _ => True
  | .ok (tops1, s1) =>
    Uses env (domOf s1) ts2 (initState eofT) ∧
    match elabTops env ts2 (initState eofT) with
    | .error _ => True
    | .ok (tops2, s2) =>
      (∀ n ∈ textNames s1, n ∉ textNames s2) ∧ (∀ n ∈ allMvNames tops1 s1, n ∉ allMvNames tops2 s2) ∧
      (∀ n ∈ labelNames tops1, n ∉ textNames s2) ∧ (∀ n ∈ labelNames tops2, n ∉ textNames s1)

theorem compileFile_ok_iff (env : Env) (o : Opts) (eofT : Tok) (ts : List STop) (S : Sections) :
    compileFile env o eofT ts = .ok S ↔
      ∃ tops s, elabTops env ts (initState eofT) = .ok (tops, s) ∧ (textNames s).Nodup ∧
        (allMvNames tops s).Nodup ∧ sectionsOf o tops s = .ok S := by
  unfold compileFile
  cases h : elabTops env ts (initState eofT) with
  | error e => simp
  | ok q =>
    obtain ⟨tops, s⟩ := q
    simp only [Except.ok.injEq, Prod.mk.injEq]
    have hf := finish_ok_iff tops s
    cases hfin : finish tops s with
    | error e =>
      rw [hfin] at hf
      have : ¬ ((textNames s).Nodup ∧ (allMvNames tops s).Nodup) := fun hn => by
        obtain ⟨p, hp⟩ := hf.2 hn; cases hp
      constructor
      · intro hh; cases hh
      · rintro ⟨t, s', ⟨rfl, rfl⟩, h1, h2, _⟩; exact absurd ⟨h1, h2⟩ this
    | ok p =>
      rw [hfin] at hf
      obtain ⟨h1, h2⟩ := hf.1 ⟨p, rfl⟩
      simp only
      constructor
      · intro hh
        refine ⟨tops, s, ⟨rfl, rfl⟩, h1, h2, ?_⟩
        cases hs : sectionsOf o tops s with
        | error e => rw [hs] at hh; cases hh
        | ok S' => rw [hs] at hh; cases hh; rfl
      · rintro ⟨t, s', ⟨rfl, rfl⟩, _, _, hs⟩
        rw [hs]

theorem nodup_append_iff {α : Type} {a b : List α} :
    (a ++ b).Nodup ↔ a.Nodup ∧ b.Nodup ∧ ∀ x ∈ a, x ∉ b := by
  rw [List.nodup_append]
  constructor
  · rintro ⟨h1, h2, h3⟩; exact ⟨h1, h2, fun x hx hb => h3 x hx x hb rfl⟩
  · rintro ⟨h1, h2, h3⟩; exact ⟨h1, h2, fun x hx y hy he => h3 x hx (he ▸ hy)⟩

theorem perm_four {α : Type} (a b c d : List α) : List.Perm ((a ++ b) ++ (c ++ d)) ((a ++ c) ++ (b ++ d)) := by
  rw [List.append_assoc, List.append_assoc]
  exact List.Perm.append_left a (List.perm_append_comm_assoc b c d)

/-- **Independence (C17), main theorem.** For a file `ts1 ++ ts2` whose two parts are independent (`Indep`):
the file compiles iff both parts compile on their own, and then its output is the section-wise concatenation
of their outputs — every top-level statement, hoisted movement, hoisted text and text statement of either part
is rendered to exactly the lines it has when its part is compiled alone (the command ids and scope ids of
`ts2` are different in the combined file; they do not show in the output). -/
theorem indep_main (env : Env) (o : Opts) (eofT : Tok) (ts1 ts2 : List STop)
    (h : Indep env eofT ts1 ts2) (S : Sections) :
    compileFile env o eofT (ts1 ++ ts2) = .ok S ↔
      ∃ S1 S2, compileFile env o eofT ts1 = .ok S1 ∧ compileFile env o eofT ts2 = .ok S2 ∧
        S = S1.append S2 := by
  simp only [compileFile_ok_iff]
  unfold Indep at h
  cases h1 : elabTops env ts1 (initState eofT) with
  | error e =>
    constructor
    · rintro ⟨tops, s, he, _⟩
      rw [elabTops_append, h1] at he
      cases he
    · rintro ⟨S1, S2, ⟨tops, s, he, _⟩, _⟩
      cases he
  | ok q1 =>
    obtain ⟨tops1, s1⟩ := q1
    rw [h1] at h
    obtain ⟨hu, h⟩ := h
    have hp := indep_parse env eofT ts1 ts2 tops1 s1 h1 hu
    cases h2 : elabTops env ts2 (initState eofT) with
    | error e =>
      rw [h2] at hp
      constructor
      · rintro ⟨tops, s, he, _⟩
        rw [hp] at he
        cases he
      · rintro ⟨S1, S2, _, ⟨tops, s, he, _⟩, _⟩
        cases he
    | ok q2 =>
      obtain ⟨tops2, s2⟩ := q2
      rw [h2] at hp h
      obtain ⟨hn1, hn2, hn3, hn4⟩ := h
      obtain ⟨tops2', s12, Δ', he12, hr2, ht, hm, hs, hpat, hall⟩ := hp
      obtain ⟨_, _, _, hr1, Δ1, hΔ1, hb1⟩ := elabTops_self env ts1 (initState eofT) rfl rfl tops1 s1 h1
      have hp1 : ∀ p ∈ s1.patches, p.1.1 < s1.nextCmdId := by
        intro p hp
        rw [hΔ1] at hp
        exact (hb1 p (by simpa [initState] using hp)).2
      -- names of the combined file
      have hperm : (textNames s12).Perm (textNames s1 ++ textNames s2) := by
        unfold textNames
        rw [ht, hs, ← List.map_append]
        exact (perm_four _ _ _ _).map _
      have hmv : (allMvNames (tops1 ++ tops2') s12).Perm (allMvNames tops1 s1 ++ allMvNames tops2 s2) := by
        unfold allMvNames
        rw [mvNames_append, mvNames_rel hr2, hm, List.map_append]
        exact perm_four _ _ _ _
      have hmem : ∀ n, n ∈ textNames s12 ↔ n ∈ textNames s1 ∨ n ∈ textNames s2 := by
        intro n; rw [hperm.mem_iff, List.mem_append]
      -- the sections
      have hsec : sectionsOf o (tops1 ++ tops2') s12 =
          match sectionsOf o tops1 s1 with
          | .error e => .error e
          | .ok S1 =>
            match sectionsOf o tops2 s2 with
            | .error e => .error e
            | .ok S2 => .ok (S1.append S2) := by
        unfold sectionsOf
        rw [indep_blocks o tops1 tops2 tops2' s1 s2 s12 Δ' s2.nextCmdId hr1 hp1 hr2 hpat hall
          (fun n hn => contains_congr (by rw [hmem]; exact ⟨fun h => h.resolve_right (hn3 n hn), Or.inl⟩))
          (fun n hn => contains_congr (by rw [hmem]; exact ⟨fun h => h.resolve_left (hn4 n hn), Or.inr⟩))]
        cases topBlocks o s1.patches (textNames s1) tops1 with
        | error e => rfl
        | ok b1 =>
          cases topBlocks o s2.patches (textNames s2) tops2 with
          | error e => rfl
          | ok b2 => simp [Sections.append, ht, hm, hs]
      constructor
      · rintro ⟨tops, s, he, hnd1, hnd2, hsS⟩
        rw [he12] at he
        simp only [Except.ok.injEq, Prod.mk.injEq] at he
        obtain ⟨rfl, rfl⟩ := he
        rw [hperm.nodup_iff, nodup_append_iff] at hnd1
        rw [hmv.nodup_iff, nodup_append_iff] at hnd2
        rw [hsec] at hsS
        cases hs1 : sectionsOf o tops1 s1 with
        | error e => rw [hs1] at hsS; cases hsS
        | ok S1 =>
          rw [hs1] at hsS
          cases hs2 : sectionsOf o tops2 s2 with
          | error e => rw [hs2] at hsS; cases hsS
          | ok S2 =>
            rw [hs2] at hsS
            simp only [Except.ok.injEq] at hsS
            exact ⟨S1, S2, ⟨tops1, s1, rfl, hnd1.1, hnd2.1, hs1⟩, ⟨tops2, s2, rfl, hnd1.2.1, hnd2.2.1, hs2⟩,
              hsS.symm⟩
      · rintro ⟨S1, S2, ⟨t1, s1', he1, hd1, hd2, hs1⟩, ⟨t2, s2', he2, hd3, hd4, hs2⟩, rfl⟩
        simp only [Except.ok.injEq, Prod.mk.injEq] at he1 he2
        obtain ⟨rfl, rfl⟩ := he1
        obtain ⟨rfl, rfl⟩ := he2
        refine ⟨tops1 ++ tops2', s12, he12, ?_, ?_, ?_⟩
        · rw [hperm.nodup_iff, nodup_append_iff]; exact ⟨hd1, hd3, hn1⟩
        · rw [hmv.nodup_iff, nodup_append_iff]; exact ⟨hd2, hd4, hn2⟩
        · rw [hsec, hs1, hs2]

end Pory.P2
