import PoryProofs.ParserFuel5
/-
C18 (totality of the parser), part 7: the statement block, the top level, `parseTokens`.
-/
namespace Pory.Parser
open Pory

theorem wp_const {α} (m : PM α) (s : PState) (P : Prop) (h : P) : wp m s (fun _ _ => P) :=
  fun _ _ _ => h

/-- A statement only parses when the current token is a real token (its type is not `EOF`). -/
theorem parseStatement_nonempty (env : Env) (sn : String) (n : Nat) (s : PState) :
    wp (parseStatement env sn n) s (fun _ _ => s.eof.type = .EOF → 1 ≤ s.toks.length) := by
  cases n with
  | zero => rw [parseStatement]; wpsimp
  | succ n =>
    rw [parseStatement]
    wpsimp
    split
    all_goals first
      | (exact (wp_fail _ _ _).2 trivial)
      | (apply wp_const; intro he; lenfin)

/-- Rewrite rule for a call of `parseStatement`: `eof` kept, window not longer, and it was not empty. -/
theorem parseStatement_iff {n : Nat} (h : SDecAll n) (env : Env) (sn : String) (s : PState)
    (Q : List Stmt × ImpData → PState → Prop) :
    wp (parseStatement env sn n) s Q ↔ ∀ a s', (parseStatement env sn n).run s = .ok (a, withEof s' s.eof) →
      (s.eof.type = .EOF → s'.toks.length + 0 ≤ s.toks.length) → (s.eof.type = .EOF → 1 ≤ s.toks.length) →
      Q a (withEof s' s.eof) := by
  rw [(h.stmt env sn).wp_iff]
  constructor
  · intro hq a s' hr h1 _; exact hq a s' hr h1
  · intro hq a s' hr h1; exact hq a s' hr h1 (parseStatement_nonempty env sn n s a _ hr)

/-- No function of the statement block runs out of fuel, at fuel `n`. -/
structure NFAll (n : Nat) : Prop where
  block : ∀ env sn tok acc imp (s : PState), s.eof.type = .EOF → 4 * s.toks.length + 9 ≤ n →
    nf (parseBlockStatement env sn tok n acc imp) s
  swblock : ∀ env sn tok acc imp (s : PState), s.eof.type = .EOF → 4 * s.toks.length + 9 ≤ n →
    nf (parseSwitchBlockStatement env sn tok n acc imp) s
  stmt : ∀ env sn (s : PState), s.eof.type = .EOF → 4 * s.toks.length + 8 ≤ n →
    nf (parseStatement env sn n) s
  cond : ∀ env sn req (s : PState), s.eof.type = .EOF → 4 * s.toks.length + 6 ≤ n →
    nf (parseConditionExpression env sn req n) s
  elifs : ∀ env sn acc imp (s : PState), s.eof.type = .EOF → 4 * s.toks.length + 6 ≤ n →
    nf (parseElifs env sn n acc imp) s
  ifs : ∀ env sn (s : PState), s.eof.type = .EOF → 4 * s.toks.length + 7 ≤ n →
    nf (parseIfStatement env sn n) s
  whiles : ∀ env sn (s : PState), s.eof.type = .EOF → 4 * s.toks.length + 7 ≤ n →
    nf (parseWhileStatement env sn n) s
  doWhiles : ∀ env sn (s : PState), s.eof.type = .EOF → 4 * s.toks.length + 7 ≤ n →
    nf (parseDoWhileStatement env sn n) s
  cases : ∀ env sn tok cs vals hd imp (s : PState), s.eof.type = .EOF → 4 * s.toks.length + 6 ≤ n →
    nf (parseSwitchCases env sn tok n cs vals hd imp) s
  switch : ∀ env sn (s : PState), s.eof.type = .EOF → 4 * s.toks.length + 7 ≤ n →
    nf (parseSwitchStatement env sn n) s
  pory : ∀ env sn (s : PState), s.eof.type = .EOF → 4 * s.toks.length + 7 ≤ n →
    nf (parsePoryswitchStatement env sn n) s
  poryCases : ∀ env sn tok acc (s : PState), s.eof.type = .EOF → 4 * s.toks.length + 6 ≤ n →
    nf (parsePoryswitchStatementCases env sn tok n acc) s
  poryStmts : ∀ env sn am acc imp (s : PState), s.eof.type = .EOF → 4 * s.toks.length + 9 ≤ n →
    nf (parsePoryswitchStatements env sn am n acc imp) s

theorem nfAll_zero : NFAll 0 :=
  { block := by intros; omega
    swblock := by intros; omega
    stmt := by intros; omega
    cond := by intros; omega
    elifs := by intros; omega
    ifs := by intros; omega
    whiles := by intros; omega
    doWhiles := by intros; omega
    cases := by intros; omega
    switch := by intros; omega
    pory := by intros; omega
    poryCases := by intros; omega
    poryStmts := by intros; omega }

theorem nfAll_succ {n : Nat} (ih : NFAll n) : NFAll (n + 1) := by
  have sd := sdecAll n
  exact
  { block := by
      intro env sn tok acc imp s he hn
      rw [parseBlockStatement]
      sfin [(sd.stmt _ _).wp_iff, iff_true_intro he]
      all_goals first
        | (apply ih.stmt <;> nfside)
        | (apply ih.block <;> nfside)
    swblock := by
      intro env sn tok acc imp s he hn
      rw [parseSwitchBlockStatement]
      sfin [(sd.stmt _ _).wp_iff, iff_true_intro he]
      all_goals first
        | (apply ih.stmt <;> nfside)
        | (apply ih.swblock <;> nfside)
    stmt := by
      intro env sn s he hn
      rw [parseStatement]
      sfin [frame_tryParseLabelStatement.dec_iff dec_tryParseLabelStatement, nfree_tryParseLabelStatement.iff,
        iff_true_intro he]
      all_goals first
        | (apply ih.ifs <;> nfside)
        | (apply ih.whiles <;> nfside)
        | (apply ih.doWhiles <;> nfside)
        | (apply ih.switch <;> nfside)
        | (apply ih.pory <;> nfside)
        | (apply nf_parseCommandStatement <;> nfside)
    cond := by
      intro env sn req s he hn
      rw [parseConditionExpression]
      sfin [(frame_parseBooleanExpression _ _ _ _ _).dec_iff (dec_parseBooleanExpression _ _ _ _ _),
        iff_true_intro he]
      all_goals first
        | (apply ih.block <;> nfside)
        | (apply nf_parseBooleanExpression <;> nfside)
    elifs := by
      intro env sn acc imp s he hn
      rw [parseElifs]
      sfin [(sd.cond _ _ _).wp_iff, iff_true_intro he]
      all_goals first
        | (apply ih.cond <;> nfside)
        | (apply ih.elifs <;> nfside)
    ifs := by
      intro env sn s he hn
      rw [parseIfStatement]
      sfin [(sd.cond _ _ _).wp_iff, (sd.elifs _ _ _ _).wp_iff, iff_true_intro he]
      all_goals first
        | (apply ih.cond <;> nfside)
        | (apply ih.elifs <;> nfside)
        | (apply ih.block <;> nfside)
    whiles := by
      intro env sn s he hn
      rw [parseWhileStatement]
      sfin [(sd.cond _ _ _).wp_iff, iff_true_intro he]
      all_goals (apply ih.cond <;> nfside)
    doWhiles := by
      intro env sn s he hn
      rw [parseDoWhileStatement]
      sfin [(sd.block _ _ _ _ _).wp_iff, iff_true_intro he]
      all_goals first
        | (apply ih.block <;> nfside)
        | (apply nf_parseBooleanExpression <;> nfside)
    cases := by
      intro env sn tok cs vals hd imp s he hn
      rw [parseSwitchCases]
      sfin [(sd.swblock _ _ _ _ _).wp_iff, (frame_collectUntil _ _ _ _).dec_iff (dec_collectUntil _ _ _ _),
        iff_true_intro he]
      all_goals first
        | (apply ih.swblock <;> nfside)
        | (apply ih.cases <;> nfside)
        | (apply collectUntil_fuel_partial <;> nfside)
    switch := by
      intro env sn s he hn
      rw [parseSwitchStatement]
      sfin [(frame_expectPeekVarOrAutoVar _ _ _).dec_iff (dec_expectPeekVarOrAutoVar _ _ _),
        (frame_switchOperandLoop _ _ _).dec_iff (dec_switchOperandLoop _ _ _), (sd.cases _ _ _ _ _ _ _).wp_iff,
        iff_true_intro he]
      all_goals first
        | (apply ih.cases <;> nfside)
        | (apply nf_expectPeekVarOrAutoVar <;> nfside)
        | (apply switchOperandLoop_fuel_partial <;> nfside)
    pory := by
      intro env sn s he hn
      rw [parsePoryswitchStatement]
      sfin [(frame_parsePoryswitchHeader _).dec_iff (dec_parsePoryswitchHeader _),
        (nfree_parsePoryswitchHeader _).iff, (sd.poryCases _ _ _ _).wp_iff, iff_true_intro he]
      all_goals (apply ih.poryCases <;> nfside)
    poryCases := by
      intro env sn tok acc s he hn
      rw [parsePoryswitchStatementCases]
      sfin [(sd.poryStmts _ _ _ _ _).wp_iff, iff_true_intro he]
      all_goals first
        | (apply ih.poryStmts <;> nfside)
        | (apply ih.poryCases <;> nfside)
    poryStmts := by
      intro env sn am acc imp s he hn
      rw [parsePoryswitchStatements]
      sfin [parseStatement_iff sd, (sd.pory _ _).wp_iff, iff_true_intro he]
      all_goals first
        | (apply ih.stmt <;> nfside)
        | (apply ih.pory <;> nfside)
        | (apply ih.poryStmts <;> nfside) }

theorem nfAll : ∀ n : Nat, NFAll n
  | 0 => nfAll_zero
  | n + 1 => nfAll_succ (nfAll n)

/-! ### top level -/

theorem nf_parseBlockStatement (env : Env) (sn : String) (tok : Tok) (n : Nat) (acc : List Stmt)
    (imp : ImpData) (s : PState) (he : s.eof.type = .EOF) (hn : 4 * s.toks.length + 9 ≤ n) :
    nf (parseBlockStatement env sn tok n acc imp) s := (nfAll n).block env sn tok acc imp s he hn

theorem nf_parseScriptStatement (env : Env) (n : Nat) (s : PState) (he : s.eof.type = .EOF)
    (hn : 4 * s.toks.length + 9 ≤ n) : nf (parseScriptStatement env n) s := by
  unfold parseScriptStatement
  sfin [(frame_parseScopeModifier _).dec_iff (dec_parseScopeModifier _), (nfree_parseScopeModifier _).iff,
    iff_true_intro he]
  all_goals (apply nf_parseBlockStatement <;> nfside)

theorem nfree_parseRawStatement : NFree parseRawStatement := by
  intro s; unfold parseRawStatement; vcfin

theorem nf_parseTextStatement (env : Env) (n : Nat) (s : PState) (he : s.eof.type = .EOF)
    (hn : s.toks.length + 2 ≤ n) : nf (parseTextStatement env n) s := by
  unfold parseTextStatement
  sfin [(frame_parseScopeModifier _).dec_iff (dec_parseScopeModifier _), (nfree_parseScopeModifier _).iff,
    (frame_parsePoryswitchTextStatement _ _).dec_iff (dec_parsePoryswitchTextStatement _ _),
    (frame_parseTextValue _ _).dec_iff (dec_parseTextValue _ _), iff_true_intro he]
  all_goals first
    | (apply nf_parsePoryswitchTextStatement <;> nfside)
    | (apply nf_parseTextValue <;> nfside)

theorem nf_parseMovementStatement (env : Env) (n : Nat) (s : PState) (he : s.eof.type = .EOF)
    (hn : 4 * s.toks.length + 3 ≤ n) : nf (parseMovementStatement env n) s := by
  unfold parseMovementStatement
  sfin [(frame_parseScopeModifier _).dec_iff (dec_parseScopeModifier _), (nfree_parseScopeModifier _).iff,
    (frame_parseListValue _ _ _ _ _).dec_iff (dec_parseListValue _ _ _ _ _), iff_true_intro he]
  all_goals (apply nf_parseListValue <;> nfside)

theorem nfree_mapM_tryReplace : ∀ (l : List Tok), NFree (l.mapM fun t => tryReplaceWithConstant t.lit) := by
  intro l
  induction l with
  | nil => intro s; simp only [List.mapM_nil]; nfsimp
  | cons x r ih => intro s; simp only [List.mapM_cons]; nfsimp [(ih).iff]

theorem nf_parseMartStatement (env : Env) (n : Nat) (s : PState) (he : s.eof.type = .EOF)
    (hn : 4 * s.toks.length + 3 ≤ n) : nf (parseMartStatement env n) s := by
  unfold parseMartStatement
  sfin [(frame_parseScopeModifier _).dec_iff (dec_parseScopeModifier _), (nfree_parseScopeModifier _).iff,
    (frame_parseListValue _ _ _ _ _).dec_iff (dec_parseListValue _ _ _ _ _),
    (nfree_mapM_tryReplace _).iff, (frame_mapM_tryReplace _).dec_iff (dec_mapM_tryReplace _), iff_true_intro he]
  all_goals (apply nf_parseListValue <;> nfside)

/-- Rewrite rule for a call of `tableCollect`: frame, window not longer, stops at a `stop` token. -/
theorem tableCollect_iff (stop : Tok → Bool) (onEOF : PFail) (n : Nat) (acc : String) (s : PState)
    (Q : String → PState → Prop) :
    wp (tableCollect stop onEOF n acc) s Q ↔ ∀ a l c,
      (tableCollect stop onEOF n acc).run s = .ok (a, upd s l c) →
      (s.eof.type = .EOF → l.length + 0 ≤ s.toks.length) → stop (l.headD s.eof) = true → Q a (upd s l c) := by
  rw [(frame_tableCollect _ _ _ _).dec_iff (dec_tableCollect _ _ _ _)]
  constructor
  · intro hq a l c hr h1 _; exact hq a l c hr h1
  · intro hq a l c hr h1; exact hq a l c hr h1 (tableCollect_stop stop onEOF n acc s a _ hr)

theorem nf_parseTableEntries (env : Env) (ms ty : String) : ∀ (n i : Nat) (acc : List TableEntry)
    (imp : ImpData) (s : PState), s.eof.type = .EOF → 4 * s.toks.length + 10 ≤ n →
    nf (parseTableEntries env ms ty n i acc imp) s := by
  intro n
  induction n with
  | zero => intro i acc imp s _ h; omega
  | succ n ih =>
    intro i acc imp s he hn
    rw [parseTableEntries]
    sfin [tableCollect_iff, (sdec_parseBlockStatement _ _ _ _ _ _).wp_iff, iff_true_intro he]
    all_goals first
      | (apply ih <;> nfside)
      | (apply tableCollect_fuel_partial <;> nfside)
      | (apply nf_parseBlockStatement <;> nfside)

theorem nf_parseMapScriptEntries (env : Env) (ms : String) : ∀ (n : Nat) (mss : List MapScript)
    (tables : List TableMapScript) (imp : ImpData) (s : PState), s.eof.type = .EOF →
    4 * s.toks.length + 11 ≤ n → nf (parseMapScriptEntries env ms n mss tables imp) s := by
  intro n
  induction n with
  | zero => intro mss tables imp s _ h; omega
  | succ n ih =>
    intro mss tables imp s he hn
    rw [parseMapScriptEntries]
    sfin [(sdec_parseTableEntries _ _ _ _ _ _ _).wp_iff, (sdec_parseBlockStatement _ _ _ _ _ _).wp_iff,
      iff_true_intro he]
    all_goals first
      | (apply ih <;> nfside)
      | (apply nf_parseTableEntries <;> nfside)
      | (apply nf_parseBlockStatement <;> nfside)

theorem nf_parseMapscriptsStatement (env : Env) (n : Nat) (s : PState) (he : s.eof.type = .EOF)
    (hn : 4 * s.toks.length + 11 ≤ n) : nf (parseMapscriptsStatement env n) s := by
  unfold parseMapscriptsStatement
  sfin [(frame_parseScopeModifier _).dec_iff (dec_parseScopeModifier _), (nfree_parseScopeModifier _).iff,
    iff_true_intro he]
  all_goals (apply nf_parseMapScriptEntries <;> nfside)

theorem nf_parseConstant (n : Nat) (s : PState) (he : s.eof.type = .EOF) (hn : s.toks.length + 1 ≤ n) :
    nf (parseConstant n) s := by
  unfold parseConstant
  sfin [(frame_constLoop _ _).dec_iff (dec_constLoop _ _), iff_true_intro he]
  all_goals (apply constLoop_fuel_partial <;> nfside)

theorem nfree_addImplicitData (d : ImpData) : NFree (addImplicitData d) := by
  intro s
  unfold addImplicitData addImplicitTexts addImplicitMovements
  nfsimp

theorem nf_parseTopLevelStatement (env : Env) (n : Nat) (s : PState) (he : s.eof.type = .EOF)
    (hn : 4 * s.toks.length + 11 ≤ n) : nf (parseTopLevelStatement env n) s := by
  unfold parseTopLevelStatement
  sfin [(sdec_parseScriptStatement _ _).wp_iff, (nfree_addImplicitData _).iff, (nfree_parseRawStatement).iff,
    (sdec_parseMapscriptsStatement _ _).wp_iff, (sdec_parseConstant _).wp_iff, iff_true_intro he]
  all_goals first
    | (with_reducible apply nf_parseScriptStatement <;> nfside)
    | (with_reducible apply nf_parseTextStatement <;> nfside)
    | (with_reducible apply nf_parseMovementStatement <;> nfside)
    | (with_reducible apply nf_parseMartStatement <;> nfside)
    | (with_reducible apply nf_parseMapscriptsStatement <;> nfside)
    | (with_reducible apply nf_parseConstant <;> nfside)

theorem nf_topLoop (env : Env) (fuel : Nat) : ∀ (n : Nat) (acc : List Top) (s : PState),
    s.eof.type = .EOF → s.toks.length + 1 ≤ n → 4 * s.toks.length + 11 ≤ fuel →
    nf (topLoop env fuel n acc) s := by
  intro n
  induction n with
  | zero => intro acc s _ h; omega
  | succ n ih =>
    intro acc s he hn hf
    rw [topLoop]
    sfin [(sdec_parseTopLevelStatement _ _).wp_iff, iff_true_intro he]
    all_goals first
      | (apply ih <;> nfside)
      | (apply nf_parseTopLevelStatement <;> nfside)

theorem nf_parseProgramM (env : Env) (fuel : Nat) (s : PState) (he : s.eof.type = .EOF)
    (hn : 4 * s.toks.length + 11 ≤ fuel) : nf (parseProgramM env fuel) s := by
  unfold parseProgramM
  sfin [iff_true_intro he, wp_unfold (topLoop _ _ _ _)]
  all_goals (apply nf_topLoop <;> nfside)

/-- **The parser never runs out of fuel** on a token list whose last token is an `EOF` token
(this is `parser_total_full` of `ParserFuel.lean`). -/
theorem parser_total : parser_total_full := by
  intro env toks he
  unfold parseTokens
  simp only [StateT.run']
  intro h
  generalize hr : (parseProgramM env (4 * toks.length + 50))
    { toks := toks, eof := toks.getLastD { type := .EOF } } = res at h
  cases res with
  | error e =>
    simp only [Functor.map, Except.map, Except.error.injEq] at h
    subst h
    exact nf_parseProgramM env _ { toks := toks, eof := toks.getLastD { type := .EOF } } he
      (by simp only; omega) hr
  | ok r => simp [Functor.map, Except.map] at h

/-- The same with the hypothesis spelled out on the last token. -/
theorem parser_never_out_of_fuel (env : Env) (toks : List Tok)
    (h : toks ≠ [] → (toks.getLast?).map (·.type) = some .EOF) :
    parseTokens env toks ≠ .error .outOfFuel := by
  apply parser_total
  cases hl : toks.getLast? with
  | none =>
    have : toks = [] := List.getLast?_eq_none_iff.1 hl
    subst this; rfl
  | some x =>
    have hne : toks ≠ [] := by intro h0; subst h0; simp at hl
    have := h hne
    rw [hl] at this
    simp only [Option.map_some, Option.some.injEq] at this
    rw [List.getLastD_eq_getLast?, hl]
    exact this

end Pory.Parser
