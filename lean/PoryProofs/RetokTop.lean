import PoryProofs.RetokStmt
import PoryProofs.ProgramGrammar
/-
L2 helpers, stage 3: **re-decoration of the file grammar** `P2.STop` (scripts, raw, const, movement, mart,
text).

* `eTop` — position erasure of a top-level statement (`eMod`, `eTextVal` for modifiers and text values);
  `SameShape ts' ts := ts'.map eTop = ts.map eTop`.
* `retokTops`: for a file `ts` and a token list `l` with the text of `printTops ts` there is a file `ts'`
  with `printTops ts' = l` and the same shape.
* `twf_of_shape`: `TWF` reads token types and (for movement multipliers) literals only, so it is preserved.
-/
namespace Pory.L2
open Pory Pory.Parser Pory.C02P Pory.C10b Pory.C10c Pory.StmtG Pory.TopParse Pory.P2
open Pory.C14b (Item printItems expand)

def eMod : Mod → Mod
  | .absent => .absent
  | .written lp m rp => .written (erase lp) (erase m) (erase rp)

def eTextVal : TextVal → TextVal
  | .plain s => .plain (erase s)
  | .typed ty s => .typed (erase ty) (erase s)

/-- Position erasure of a top-level statement. -/
def eTop : STop → STop
  | .script kw md name lb body rb => .script (erase kw) (eMod md) (erase name) (erase lb) (eL body) (erase rb)
  | .raw kw v => .raw (erase kw) (erase v)
  | .const kw name eq vs => .const (erase kw) (erase name) (erase eq) (vs.map erase)
  | .movement kw md name lb items rb =>
      .movement (erase kw) (eMod md) (erase name) (erase lb) (items.map eItem) (erase rb)
  | .mart kw md name lb items rb => .mart (erase kw) (eMod md) (erase name) (erase lb) (items.map erase) (erase rb)
  | .text kw md name lb v rb => .text (erase kw) (eMod md) (erase name) (erase lb) (eTextVal v) (erase rb)

/-- Two files have the same shape: the same statements, the same token types and literals everywhere —
they differ only in the positions of their token records. -/
def SameShape (ts' ts : List STop) : Prop := ts'.map eTop = ts.map eTop

theorem mod_retok (md : Mod) (l : List Tok) (h : l.map erase = md.toks.map erase) :
    ∃ md', md'.toks = l ∧ eMod md' = eMod md := by
  cases md with
  | absent =>
    have hl : l = [] := st_nil (by simpa [Mod.toks] using h)
    subst hl
    exact ⟨.absent, rfl, rfl⟩
  | written lp m rp =>
    simp only [Mod.toks] at h
    obtain ⟨a1, l1, rfl, e1, k1⟩ := st_cons h
    obtain ⟨a2, l2, rfl, e2, k2⟩ := st_cons k1
    obtain ⟨a3, rfl, e3⟩ := st_single k2
    exact ⟨.written a1 a2 a3, rfl, by simp only [eMod, e1, e2, e3]⟩

theorem textVal_retok (v : TextVal) (l : List Tok) (h : l.map erase = v.toks.map erase) :
    ∃ v', v'.toks = l ∧ eTextVal v' = eTextVal v := by
  cases v with
  | plain s =>
    simp only [TextVal.toks] at h
    obtain ⟨a1, rfl, e1⟩ := st_single h
    exact ⟨.plain a1, rfl, by simp only [eTextVal, e1]⟩
  | typed ty s =>
    simp only [TextVal.toks] at h
    obtain ⟨a1, l1, rfl, e1, k1⟩ := st_cons h
    obtain ⟨a2, rfl, e2⟩ := st_single k1
    exact ⟨.typed a1 a2, rfl, by simp only [eTextVal, e1, e2]⟩

theorem retokTop (t : STop) (l : List Tok) (h : l.map erase = (printTop t).map erase) :
    ∃ t', printTop t' = l ∧ eTop t' = eTop t := by
  cases t with
  | script kw md name lb body rb =>
    simp only [printTop] at h
    obtain ⟨kw', l1, rfl, e1, k1⟩ := st_cons h
    obtain ⟨l2, l3, rfl, k2, k3⟩ := st_append k1
    obtain ⟨md', rfl, e2⟩ := mod_retok md l2 k2
    obtain ⟨name', l4, rfl, e3, k4⟩ := st_cons k3
    obtain ⟨lb', l5, rfl, e4, k5⟩ := st_cons k4
    obtain ⟨l6, l7, rfl, k6, k7⟩ := st_append k5
    obtain ⟨body', rfl, e5⟩ := retokL body l6 k6
    obtain ⟨rb', rfl, e6⟩ := st_single k7
    exact ⟨.script kw' md' name' lb' body' rb', rfl, by simp only [eTop, e1, e2, e3, e4, e5, e6]⟩
  | raw kw v =>
    simp only [printTop] at h
    obtain ⟨a1, l1, rfl, e1, k1⟩ := st_cons h
    obtain ⟨a2, rfl, e2⟩ := st_single k1
    exact ⟨.raw a1 a2, rfl, by simp only [eTop, e1, e2]⟩
  | const kw name eq vs =>
    simp only [printTop] at h
    obtain ⟨a1, l1, rfl, e1, k1⟩ := st_cons h
    obtain ⟨a2, l2, rfl, e2, k2⟩ := st_cons k1
    obtain ⟨a3, l3, rfl, e3, k3⟩ := st_cons k2
    exact ⟨.const a1 a2 a3 l3, rfl, by simp only [eTop, e1, e2, e3, k3]⟩
  | movement kw md name lb items rb =>
    simp only [printTop] at h
    obtain ⟨kw', l1, rfl, e1, k1⟩ := st_cons h
    obtain ⟨l2, l3, rfl, k2, k3⟩ := st_append k1
    obtain ⟨md', rfl, e2⟩ := mod_retok md l2 k2
    obtain ⟨name', l4, rfl, e3, k4⟩ := st_cons k3
    obtain ⟨lb', l5, rfl, e4, k5⟩ := st_cons k4
    obtain ⟨l6, l7, rfl, k6, k7⟩ := st_append k5
    obtain ⟨items', rfl, e5⟩ := items_retok items l6 k6
    obtain ⟨rb', rfl, e6⟩ := st_single k7
    exact ⟨.movement kw' md' name' lb' items' rb', rfl, by simp only [eTop, e1, e2, e3, e4, e5, e6]⟩
  | mart kw md name lb items rb =>
    simp only [printTop] at h
    obtain ⟨kw', l1, rfl, e1, k1⟩ := st_cons h
    obtain ⟨l2, l3, rfl, k2, k3⟩ := st_append k1
    obtain ⟨md', rfl, e2⟩ := mod_retok md l2 k2
    obtain ⟨name', l4, rfl, e3, k4⟩ := st_cons k3
    obtain ⟨lb', l5, rfl, e4, k5⟩ := st_cons k4
    obtain ⟨items', l7, rfl, e5, k7⟩ := st_append k5
    obtain ⟨rb', rfl, e6⟩ := st_single k7
    exact ⟨.mart kw' md' name' lb' items' rb', rfl, by simp only [eTop, e1, e2, e3, e4, e5, e6]⟩
  | text kw md name lb v rb =>
    simp only [printTop] at h
    obtain ⟨kw', l1, rfl, e1, k1⟩ := st_cons h
    obtain ⟨l2, l3, rfl, k2, k3⟩ := st_append k1
    obtain ⟨md', rfl, e2⟩ := mod_retok md l2 k2
    obtain ⟨name', l4, rfl, e3, k4⟩ := st_cons k3
    obtain ⟨lb', l5, rfl, e4, k5⟩ := st_cons k4
    obtain ⟨l6, l7, rfl, k6, k7⟩ := st_append k5
    obtain ⟨v', rfl, e5⟩ := textVal_retok v l6 k6
    obtain ⟨rb', rfl, e6⟩ := st_single k7
    exact ⟨.text kw' md' name' lb' v' rb', rfl, by simp only [eTop, e1, e2, e3, e4, e5, e6]⟩

theorem retokTops : ∀ (ts : List STop) (l : List Tok), l.map erase = (printTops ts).map erase →
    ∃ ts', printTops ts' = l ∧ SameShape ts' ts
  | [], l, h => by
    have hl : l = [] := st_nil (by simpa [printTops] using h)
    subst hl
    exact ⟨[], rfl, rfl⟩
  | t :: r, l, h => by
    simp only [printTops] at h
    obtain ⟨l1, l2, rfl, k1, k2⟩ := st_append h
    obtain ⟨t', rfl, e1⟩ := retokTop t l1 k1
    obtain ⟨r', rfl, e2⟩ := retokTops r l2 k2
    exact ⟨t' :: r', rfl, by unfold SameShape at e2 ⊢; simp only [List.map_cons, e1, e2]⟩

/-! ### well-formedness -/

theorem modWF_eMod (md : Mod) : (eMod md).WF ↔ md.WF := by
  cases md <;> exact Iff.rfl

theorem textValWF_e (v : TextVal) : (eTextVal v).WF ↔ v.WF := by
  cases v <;> exact Iff.rfl

theorem itemWF_eItem (i : Item) : (eItem i).WF ↔ i.WF := by
  cases i <;> exact Iff.rfl

theorem forall_mem_map {α : Type} (f : α → α) (P : α → Prop) (hP : ∀ a, P (f a) ↔ P a) (l : List α) :
    (∀ a ∈ l.map f, P a) ↔ ∀ a ∈ l, P a := by
  simp only [List.mem_map, forall_exists_index, and_imp, forall_apply_eq_imp_iff₂, hP]

theorem topWF_eTop (t : STop) : TopWF (eTop t) ↔ TopWF t := by
  cases t with
  | script kw md name lb body rb =>
    simp only [eTop, TopWF, erase_type', modWF_eMod, SWF, swfL_eL]
  | raw kw v => exact Iff.rfl
  | const kw name eq vs =>
    simp only [eTop, TopWF, erase_type', forall_mem_map erase ValTok (fun _ => Iff.rfl)]
  | movement kw md name lb items rb =>
    simp only [eTop, TopWF, erase_type', modWF_eMod, forall_mem_map eItem Item.WF itemWF_eItem, expand_eItem,
      Option.isSome_map]
  | mart kw md name lb items rb =>
    simp only [eTop, TopWF, erase_type', modWF_eMod,
      forall_mem_map erase (fun t => t.type = .IDENT) (fun _ => Iff.rfl)]
  | text kw md name lb v rb =>
    simp only [eTop, TopWF, erase_type', modWF_eMod, textValWF_e]

theorem isConst_eTop (t : STop) : (eTop t).isConst = t.isConst := by
  cases t <;> rfl

theorem twf_map_eTop : ∀ (ts : List STop), TWF (ts.map eTop) ↔ TWF ts
  | [] => Iff.rfl
  | t :: r => by
    simp only [List.map_cons, TWF, topWF_eTop, isConst_eTop, twf_map_eTop r, ne_eq, List.map_eq_nil_iff]

/-- **Well-formedness of files is preserved by re-decoration.** -/
theorem twf_of_shape {ts ts' : List STop} (h : SameShape ts' ts) (hwf : TWF ts) : TWF ts' := by
  rw [← twf_map_eTop, h, twf_map_eTop]
  exact hwf

/-- **retok for the file grammar.** -/
theorem retok_tops (ts : List STop) (l : List Tok) (h : SameText l (printTops ts)) :
    ∃ ts', printTops ts' = l ∧ SameShape ts' ts ∧ (TWF ts → TWF ts') := by
  obtain ⟨ts', h1, h2⟩ := retokTops ts l h
  exact ⟨ts', h1, h2, twf_of_shape h2⟩

end Pory.L2
