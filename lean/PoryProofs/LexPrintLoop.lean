import PoryProofs.LexPrint
/-
Helpers for L1 (`PoryProofs/Properties/L1.lean`), part 2: rendering a token list as text and lexing
the text back.

* `renderL sep ts`: the spellings (`text`) of `ts` joined by the separator `sep` — except after a
  `STRINGTYPE` token, which is written directly in front of the string literal that follows it
  (`ascii"…"`; with whitespace in between the lexer reads an identifier and a string);
* `adjOK` / `AdjOK ts` (decidable): the two adjacency conditions a rendering needs —
  a `STRINGTYPE` token is directly followed by a `STRING` token, and no `STRING` token is directly
  followed by another `STRING` token (the lexer fuses `"a" "b"` into ONE literal `a⏎b`);
* `SepOK sep`: a non-empty run of whitespace characters (`' '`, `'\t'`, `'\n'`, `'\r'`);
* `lexLoopE_render` / `lexAllE_render`: the counter-free lexer on `renderL sep ts` yields the types
  and literals of `ts`, then `EOF`.
-/
namespace Pory.L1
open Pory Pory.Lexer Pory.LexPos Pory.LexLayout Pory.LexString Pory.C19b

/-- what is written between a token and its successor -/
def glue (sep : List Char) (t : Tok) : List Char := if t.type = .STRINGTYPE then [] else sep

/-- the text of a token list with separator `sep` -/
def renderL (sep : List Char) : List Tok → List Char
  | [] => []
  | [t] => text t
  | t :: u :: r => text t ++ (glue sep t ++ renderL sep (u :: r))

/-- adjacency conditions (Boolean) -/
def adjOK : List Tok → Bool
  | [] => true
  | [t] => t.type != .STRINGTYPE
  | t :: u :: r =>
    (if t.type == .STRINGTYPE then u.type == .STRING
      else !(t.type == .STRING && u.type == .STRING)) && adjOK (u :: r)

/-- **AdjOK**: every `STRINGTYPE` token is directly followed by a `STRING` token, and no `STRING`
token is directly followed by a `STRING` token. -/
def AdjOK (ts : List Tok) : Prop := adjOK ts = true

instance (ts : List Tok) : Decidable (AdjOK ts) := inferInstanceAs (Decidable (adjOK ts = true))

/-- a separator: non-empty whitespace -/
def SepOK (sep : List Char) : Prop := sep ≠ [] ∧ ∀ c ∈ sep, isWs c = true

theorem sepOK_space : SepOK [' '] := by
  refine ⟨by simp, ?_⟩
  intro c hc
  simp only [List.mem_singleton] at hc
  subst hc
  decide

theorem sepOK_newline : SepOK ['\n'] := by
  refine ⟨by simp, ?_⟩
  intro c hc
  simp only [List.mem_singleton] at hc
  subst hc
  decide

/-- what follows the spelling of a token that is not a string type -/
def after (sep : List Char) : List Tok → List Char
  | [] => []
  | u :: r => sep ++ renderL sep (u :: r)

theorem renderL_cons_plain (sep : List Char) (t : Tok) (r : List Tok) (h : t.type ≠ .STRINGTYPE) :
    renderL sep (t :: r) = text t ++ after sep r := by
  cases r with
  | nil => simp [renderL, after]
  | cons u r => simp [renderL, after, glue, h]

theorem renderL_cons_typed (sep : List Char) (t u : Tok) (r : List Tok) (h : t.type = .STRINGTYPE)
    (hu : u.type ≠ .STRINGTYPE) :
    renderL sep (t :: u :: r) = (text t ++ text u) ++ after sep r := by
  rw [renderL, renderL_cons_plain sep u r hu]
  simp [glue, h]

theorem text_head {t : Tok} (h : TokOK t) :
    ∃ c r, text t = c :: r ∧ isWs c = false ∧ (c = '"' → t.type = .STRING) := h.cls.head

theorem renderL_head (sep : List Char) (u : Tok) (r : List Tok) (h : TokOK u) :
    ∃ c rest, renderL sep (u :: r) = c :: rest ∧ isWs c = false ∧ (c = '"' → u.type = .STRING) := by
  obtain ⟨c, r', h1, h2, h3⟩ := text_head h
  cases r with
  | nil => exact ⟨c, r', by rw [renderL, h1], h2, h3⟩
  | cons v r => exact ⟨c, r' ++ (glue sep u ++ renderL sep (v :: r)), by rw [renderL, h1]; rfl, h2, h3⟩

theorem ws_skips (sep x : List Char) (h : ∀ c ∈ sep, isWs c = true) : Skips (sep ++ x) x := by
  induction sep with
  | nil => exact .done _
  | cons c sep ih =>
    exact .ws c _ _ (h c (List.mem_cons_self ..)) (ih fun d hd => h d (List.mem_cons_of_mem _ hd))

theorem after_skips (sep : List Char) (hsep : SepOK sep) (r : List Tok) :
    Skips (after sep r) (renderL sep r) := by
  cases r with
  | nil => exact .done _
  | cons u r => exact ws_skips _ _ hsep.2

theorem after_tailOK (sep : List Char) (hsep : SepOK sep) (ty : TT) (r : List Tok)
    (hok : ∀ x ∈ r, TokOK x) (hq : ty = .STRING → ∀ u ∈ r.head?, u.type ≠ .STRING) :
    TailOK ty (after sep r) := by
  cases r with
  | nil => exact ⟨by simp [after], fun _ => by simp [after, okStr, ch, NUL]⟩
  | cons u r =>
    obtain ⟨hne, hws⟩ := hsep
    constructor
    · cases sep with
      | nil => exact absurd rfl hne
      | cons a sep =>
        intro d hd
        simp only [after, List.cons_append, List.head?_cons, Option.mem_def, Option.some.injEq] at hd
        subst hd
        exact hws _ (List.mem_cons_self ..)
    · intro hty
      obtain ⟨c, rest, h1, h2, h3⟩ := renderL_head sep u r (hok u (List.mem_cons_self ..))
      have hd : (sep ++ renderL sep (u :: r)).dropWhile isWs = c :: rest := by
        rw [h1]
        exact dropWhile_append_stop isWs sep (c :: rest) hws (by intro x hx; simp at hx; subst hx; exact h2)
      show ch ((sep ++ renderL sep (u :: r)).dropWhile isWs) ≠ '"'
      rw [hd]
      intro e
      exact hq hty u (by simp) (h3 e)

theorem erase_eq (t : Tok) : erase t = (t.type, String.ofList t.lit.toList) := by
  rw [String.ofList_toList]; rfl

/-- One call on a rendering whose first token is not a string type: that token, and the call stops
where (up to whitespace) the rendering of the remaining tokens starts. -/
theorem step_plain (sep : List Char) (hsep : SepOK sep) (t : Tok) (r : List Tok)
    (ht : TokOK t) (hst : t.type ≠ .STRINGTYPE) (hok : ∀ x ∈ r, TokOK x)
    (hq : t.type = .STRING → ∀ u ∈ r.head?, u.type ≠ .STRING) :
    ∃ tail', nextE (renderL sep (t :: r)) = ([erase t], tail', false) ∧
      skipAllE tail' = skipAllE (renderL sep r) := by
  obtain ⟨tail', h1, h2⟩ := ht.cls.reads hst _ (after_tailOK sep hsep t.type r hok hq)
  refine ⟨tail', ?_, (skipAllE_of_skips h2).symm.trans (skipAllE_of_skips (after_skips sep hsep r))⟩
  rw [renderL_cons_plain sep t r hst, erase_eq]
  exact h1

/-- One call on a rendering that starts with a string type and its literal: both tokens. -/
theorem step_typed (sep : List Char) (hsep : SepOK sep) (t u : Tok) (r : List Tok)
    (ht : TokOK t) (hst : t.type = .STRINGTYPE) (hu : TokOK u) (hsu : u.type = .STRING)
    (hok : ∀ x ∈ r, TokOK x) (hq : ∀ v ∈ r.head?, v.type ≠ .STRING) :
    ∃ tail', nextE (renderL sep (t :: u :: r)) = ([erase t, erase u], tail', false) ∧
      skipAllE tail' = skipAllE (renderL sep r) := by
  have c1 := ht.cls
  have c2 := hu.cls
  rw [hst] at c1
  rw [hsu] at c2
  obtain ⟨tail', h1, h2⟩ := reads_typed c1 c2 _ (after_tailOK sep hsep .STRING r hok fun _ => hq)
  refine ⟨tail', ?_, (skipAllE_of_skips h2).symm.trans (skipAllE_of_skips (after_skips sep hsep r))⟩
  rw [renderL_cons_typed sep t u r hst (by rw [hsu]; decide), erase_eq, erase_eq, hst, hsu]
  simp only [text, hst, hsu]
  exact h1

theorem adjOK_tail {t : Tok} {r : List Tok} (h : AdjOK (t :: r)) : AdjOK r := by
  cases r with
  | nil => rfl
  | cons u r =>
    unfold AdjOK adjOK at h
    simp only [Bool.and_eq_true] at h
    exact h.2

theorem adjOK_typed {t : Tok} {r : List Tok} (h : AdjOK (t :: r)) (hst : t.type = .STRINGTYPE) :
    ∃ u r', r = u :: r' ∧ u.type = .STRING := by
  cases r with
  | nil =>
    unfold AdjOK adjOK at h
    simp [hst] at h
  | cons u r =>
    unfold AdjOK adjOK at h
    simp only [hst, beq_self_eq_true, if_true, Bool.and_eq_true, beq_iff_eq] at h
    exact ⟨u, r, rfl, h.1⟩

theorem adjOK_string {t : Tok} {r : List Tok} (h : AdjOK (t :: r)) (hs : t.type = .STRING) :
    ∀ u ∈ r.head?, u.type ≠ .STRING := by
  cases r with
  | nil => simp
  | cons u r =>
    unfold AdjOK adjOK at h
    have hne : (TT.STRING == TT.STRINGTYPE) = false := by decide
    simp only [hs, hne, Bool.false_eq_true, if_false, Bool.and_eq_true, beq_self_eq_true,
      Bool.true_and, Bool.not_eq_true', beq_eq_false_iff_ne, ne_eq] at h
    intro v hv
    simp only [List.head?_cons, Option.mem_def, Option.some.injEq] at hv
    subst hv
    exact h.1

theorem lexLoopE_eof (n : Nat) (inp : List Char) (h : skipAllE inp = skipAllE []) :
    lexLoopE (n + 1) inp = [(.EOF, "")] := by
  have h' : nextE inp = ([(.EOF, "")], [], true) := by rw [nextE, h]; rfl
  simp [lexLoopE, h']

/-- The counter-free lexer loop on (anything that skips to) a rendering. -/
theorem lexLoopE_render (sep : List Char) (hsep : SepOK sep) (k : Nat) :
    ∀ (ts : List Tok), ts.length ≤ k → (∀ t ∈ ts, TokOK t) → AdjOK ts → ∀ n, ts.length < n →
      ∀ inp, skipAllE inp = skipAllE (renderL sep ts) →
        lexLoopE n inp = ts.map erase ++ [(.EOF, "")] := by
  induction k with
  | zero =>
    intro ts hk _ _ n hn inp hinp
    have : ts = [] := List.eq_nil_of_length_eq_zero (by omega)
    subst this
    cases n with
    | zero => exact absurd hn (Nat.not_lt_zero _)
    | succ n => exact lexLoopE_eof n inp hinp
  | succ k ih =>
    intro ts hk hok hadj n hn inp hinp
    cases n with
    | zero => exact absurd hn (Nat.not_lt_zero _)
    | succ n =>
      cases ts with
      | nil => exact lexLoopE_eof n inp hinp
      | cons t r =>
        have ht := hok t (List.mem_cons_self ..)
        have hr : ∀ x ∈ r, TokOK x := fun x hx => hok x (List.mem_cons_of_mem _ hx)
        by_cases hst : t.type = .STRINGTYPE
        · obtain ⟨u, r', rfl, hsu⟩ := adjOK_typed hadj hst
          have hu := hr u (List.mem_cons_self ..)
          have hr' : ∀ x ∈ r', TokOK x := fun x hx => hr x (List.mem_cons_of_mem _ hx)
          have hadj' : AdjOK (u :: r') := adjOK_tail hadj
          obtain ⟨tail', h1, h2⟩ := step_typed sep hsep t u r' ht hst hu hsu hr' (adjOK_string hadj' hsu)
          have h : nextE inp = ([erase t, erase u], tail', false) := by
            rw [nextE_congr hinp]; exact h1
          simp only [List.length_cons] at hk hn
          have := ih r' (by omega) hr' (adjOK_tail hadj') n (by omega) tail' h2
          simp only [lexLoopE, h, Bool.false_eq_true, if_false, this, List.map_cons]
          rfl
        · have hq : t.type = .STRING → ∀ u ∈ r.head?, u.type ≠ .STRING := adjOK_string hadj
          obtain ⟨tail', h1, h2⟩ := step_plain sep hsep t r ht hst hr hq
          have h : nextE inp = ([erase t], tail', false) := by
            rw [nextE_congr hinp]; exact h1
          simp only [List.length_cons] at hk hn
          have := ih r (by omega) hr (adjOK_tail hadj) n (by omega) tail' h2
          simp only [lexLoopE, h, Bool.false_eq_true, if_false, this, List.map_cons]
          rfl

theorem text_length {t : Tok} (h : TokOK t) : 0 < (text t).length := by
  obtain ⟨c, r, h1, -⟩ := text_head h
  rw [h1]; simp

theorem renderL_length (sep : List Char) (ts : List Tok) (hok : ∀ t ∈ ts, TokOK t) :
    ts.length ≤ (renderL sep ts).length := by
  induction ts with
  | nil => simp
  | cons t r ih =>
    have ht := text_length (hok t (List.mem_cons_self ..))
    have ihr := ih fun x hx => hok x (List.mem_cons_of_mem _ hx)
    cases r with
    | nil =>
      simp only [renderL, List.length_cons, List.length_nil]
      omega
    | cons u r =>
      simp only [renderL, List.length_append, List.length_cons] at ihr ⊢
      omega

/-- **`lexAllE` of a rendering**: types and literals come back, followed by `EOF`. -/
theorem lexAllE_render (sep : List Char) (hsep : SepOK sep) (ts : List Tok)
    (hok : ∀ t ∈ ts, TokOK t) (hadj : AdjOK ts) :
    lexAllE (renderL sep ts) = ts.map erase ++ [(.EOF, "")] := by
  have := renderL_length sep ts hok
  exact lexLoopE_render sep hsep ts.length ts (Nat.le_refl _) hok hadj _ (by omega) _ rfl

end Pory.L1
