import PoryProofs.CensusWeights
import PoryProofs.EmitLemmas
/-
Label census (helper module of PoryProofs/Properties/C15d.lean).

* the label statements written in a script body: `blockLbls body` — every `Stmt.label` at any depth (bodies of
  `if` / `elif` / `else`, `while`, `do … while`, `switch` cases), in source order, as `(name, (global) flag)`;
  nothing is left out for dead code: the worklist keeps ALL statements after `break` / `continue`
  (`keepStatementsAfterJump`, see C10d §2), and a label statement is never the block-final `end` / `return`
  that `scanSimple` absorbs;
* the label statements held by a chunk table: `tableLbls G = G.flatMap (stmtLabels ·.statements)`;
* the worklist accounting: for every `(n, g)`, the number of occurrences in the final table of
  `scriptChunks body` is the number of occurrences in `blockLbls body` (`scriptChunks_lbl_count`), hence
  `scriptChunks_lbl_perm : tableLbls G ~ blockLbls body`.

Proof: `Weights.scriptChunks_total` (CensusWeights.lean) for the weights `lblWeights a` = occurrences of `a`;
conditions and branch behaviours weigh nothing.
-/
namespace Pory.C15d
open Pory Pory.Emit Pory.C10d

/-! ## 1. the label statements of a body -/

mutual
def stmtLbls : Stmt → List (String × Bool)
  | .cmd _ => []
  | .label _ n g => [(n, g)]
  | .ite _ _ b es e =>
    blockLbls b ++ elifsLbls es ++ (match e with | some l => blockLbls l | none => [])
  | .while_ _ _ _ b => blockLbls b
  | .doWhile _ _ _ b => blockLbls b
  | .brk .. => []
  | .cont .. => []
  | .switch_ _ _ _ cs => casesLbls cs
/-- the label statements of a block (script body, body of `if` / `elif` / `else` / loop / case), in source
order, at any depth -/
def blockLbls : List Stmt → List (String × Bool)
  | [] => []
  | s :: r => stmtLbls s ++ blockLbls r
def elifsLbls : List (BoolExpr × List Stmt) → List (String × Bool)
  | [] => []
  | (_, b) :: r => blockLbls b ++ elifsLbls r
def casesLbls : List SwitchCase → List (String × Bool)
  | [] => []
  | (_, _, b) :: r => blockLbls b ++ casesLbls r
end

/-! unfolding lemmas -/
theorem stmtLbls_cmd (c : Cmd) : stmtLbls (.cmd c) = [] := by rw [stmtLbls]
theorem stmtLbls_label (t : Tok) (n : String) (g : Bool) : stmtLbls (.label t n g) = [(n, g)] := by
  rw [stmtLbls]
theorem stmtLbls_ite (t : Tok) (c : BoolExpr) (b : List Stmt) (es : List (BoolExpr × List Stmt))
    (e : Option (List Stmt)) : stmtLbls (.ite t c b es e) =
      blockLbls b ++ elifsLbls es ++ (match e with | some l => blockLbls l | none => []) := by
  cases e <;> rw [stmtLbls]
theorem stmtLbls_while (t : Tok) (sid : Nat) (c : Option BoolExpr) (b : List Stmt) :
    stmtLbls (.while_ t sid c b) = blockLbls b := by rw [stmtLbls]
theorem stmtLbls_doWhile (t : Tok) (sid : Nat) (c : BoolExpr) (b : List Stmt) :
    stmtLbls (.doWhile t sid c b) = blockLbls b := by rw [stmtLbls]
theorem stmtLbls_brk (t : Tok) (sid : Nat) : stmtLbls (.brk t sid) = [] := by rw [stmtLbls]
theorem stmtLbls_cont (t : Tok) (sid : Nat) : stmtLbls (.cont t sid) = [] := by rw [stmtLbls]
theorem stmtLbls_switch (t : Tok) (sid : Nat) (o : Tok) (cs : List SwitchCase) :
    stmtLbls (.switch_ t sid o cs) = casesLbls cs := by rw [stmtLbls]
theorem blockLbls_nil : blockLbls [] = [] := by rw [blockLbls]
theorem blockLbls_cons (s : Stmt) (r : List Stmt) : blockLbls (s :: r) = stmtLbls s ++ blockLbls r := by
  rw [blockLbls]
theorem elifsLbls_nil : elifsLbls [] = [] := by rw [elifsLbls]
theorem elifsLbls_cons (c : BoolExpr) (b : List Stmt) (r : List (BoolExpr × List Stmt)) :
    elifsLbls ((c, b) :: r) = blockLbls b ++ elifsLbls r := by rw [elifsLbls]
theorem casesLbls_nil : casesLbls [] = [] := by rw [casesLbls]
theorem casesLbls_cons (v : Tok) (d : Bool) (b : List Stmt) (r : List SwitchCase) :
    casesLbls ((v, d, b) :: r) = blockLbls b ++ casesLbls r := by rw [casesLbls]

theorem blockLbls_append (a b : List Stmt) : blockLbls (a ++ b) = blockLbls a ++ blockLbls b := by
  induction a with
  | nil => simp [blockLbls_nil]
  | cons s r ih => simp [blockLbls_cons, ih]

/-- On a straight-line stretch (commands and labels only) `blockLbls` is `stmtLabels` (EmitLemmas.lean). -/
theorem blockLbls_simple : ∀ (pre : List Stmt), (∀ x ∈ pre, IsSimple x) → blockLbls pre = stmtLabels pre := by
  intro pre
  induction pre with
  | nil => intro _; rw [blockLbls_nil]; rfl
  | cons s r ih =>
    intro h
    have hr := ih (fun x hx => h x (by simp [hx]))
    cases s with
    | cmd c => rw [blockLbls_cons, stmtLbls_cmd, hr]; rfl
    | label t n g => rw [blockLbls_cons, stmtLbls_label, hr]; rfl
    | ite => exact (h _ (List.mem_cons_self ..)).elim
    | while_ => exact (h _ (List.mem_cons_self ..)).elim
    | doWhile => exact (h _ (List.mem_cons_self ..)).elim
    | brk => exact (h _ (List.mem_cons_self ..)).elim
    | cont => exact (h _ (List.mem_cons_self ..)).elim
    | switch_ => exact (h _ (List.mem_cons_self ..)).elim

/-- What the scanning loop of `processChunk` does to the label statements of a block: the finalised chunk
holds those of the prefix, the rest holds the others; a block-final `end` / `return` holds none. -/
theorem scan_lbls (ss : List Stmt) (i : Nat) (fin : Option Bool)
    (h : scanSimple ss 0 ss.length = (i, fin)) :
    blockLbls ss = stmtLabels (ss.take i) ++ blockLbls (ss.drop i) ∧
      (∀ e, fin = some e → blockLbls (ss.drop i) = []) := by
  obtain ⟨pre, rest, e1, e2, e3, e4⟩ := scanSimple_spec ss 0 _ (by simp) i fin h
  simp only [Nat.zero_add] at e3
  subst e3
  have ht : ss.take pre.length = pre := by rw [e1]; simp
  have hd : ss.drop pre.length = rest := by rw [e1]; simp
  rw [ht, hd]
  refine ⟨by rw [e1, blockLbls_append, blockLbls_simple pre e2], ?_⟩
  intro e he
  rcases e4 with ⟨h2, _⟩ | ⟨c, _, hr, _⟩
  · rw [h2] at he; cases he
  · rw [hr, blockLbls_cons, stmtLbls_cmd, blockLbls_nil]; rfl

/-! ## 2. the weights "occurrences of the label statement `a`" -/

/-- The label statements of a chunk table, in table order. -/
def tableLbls (G : List Chunk) : List (String × Bool) := G.flatMap fun c => stmtLabels c.statements

def lblWeights (a : String × Bool) : Weights where
  K _ := 0
  S _ s := (stmtLbls s).count a
  B ss := (blockLbls ss).count a
  E es := (elifsLbls es).count a
  C cs := (casesLbls cs).count a
  Br _ := 0
  F c := (stmtLabels c.statements).count a
  B_nil := by simp [blockLbls_nil]
  B_cons := by intro x r _; simp [blockLbls_cons]
  S_ite := by
    intro l t c b es e
    rw [stmtLbls_ite]
    cases e <;> simp only [List.count_append, List.count_nil] <;> omega
  S_while := by
    intro l t sid c b
    rw [stmtLbls_while]
    cases c <;> simp
  S_doWhile := by intro l t sid c b; rw [stmtLbls_doWhile]; simp
  S_brk := by intro l t sid; simp [stmtLbls_brk]
  S_cont := by intro l t sid; simp [stmtLbls_cont]
  S_switch := by intro l t sid o cs; rw [stmtLbls_switch]
  E_nil := by simp [elifsLbls_nil]
  E_cons := by intro c b r; simp only [elifsLbls_cons, List.count_append]; omega
  C_nil := by simp [casesLbls_nil]
  C_cons := by intro v d b r; simp [casesLbls_cons, List.count_append]
  K_bin := by intro l op r; rfl
  Br_none := rfl
  Br_jump := fun _ => rfl
  Br_breakCtx := fun _ => rfl
  Br_switch := fun _ _ _ _ => rfl
  Br_leaf := fun _ _ _ => rfl
  F_helper := by intro id ret br; simp [stmtLabels]
  F_none := by
    intro ss i h id ret br _
    obtain ⟨e, _⟩ := scan_lbls ss i none h
    rw [e]
    simp only [List.count_append]
  F_some := by
    intro ss i e h id
    obtain ⟨e1, e2⟩ := scan_lbls ss i (some e) h
    rw [e1, e2 e rfl]
    simp

theorem fcnt_lblWeights (a : String × Bool) (G : List Chunk) :
    fcnt (lblWeights a) G = (tableLbls G).count a := by
  induction G with
  | nil => rfl
  | cons c r ih =>
    rw [fcnt_cons, ih]
    simp [tableLbls, lblWeights, List.count_append]

/-- **The label census of the chunk table**: every label statement `(name, flag)` occurs in the table of
`scriptChunks body` as often as in `blockLbls body`. -/
theorem scriptChunks_lbl_count (body : List Stmt) (chunks : List Chunk) (h : scriptChunks body = .ok chunks)
    (a : String × Bool) : (tableLbls chunks).count a = (blockLbls body).count a := by
  rw [← fcnt_lblWeights, (lblWeights a).scriptChunks_total body chunks h]
  rfl

theorem scriptChunks_lbl_perm (body : List Stmt) (chunks : List Chunk) (h : scriptChunks body = .ok chunks) :
    (tableLbls chunks).Perm (blockLbls body) :=
  List.perm_iff_count.2 (scriptChunks_lbl_count body chunks h)

end Pory.C15d
