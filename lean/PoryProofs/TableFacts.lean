import PoryProofs.Worklist
import PoryProofs.WorklistTotal
import PoryProofs.SwitchNotLast
/-
Facts about the chunk table built by the emitter's worklist (`scriptChunks`) that discharge the
hypotheses of `RenderSim.render_sim`:

* `scriptChunks_closed`      : `RenderSim.Closed chunks`     (no dangling chunk ids, none is 0);
* `scriptChunks_switch_facts`: the two table facts about `switch_ … none none` chunks, hence
  `scriptChunks_switchNotLast` : `SwitchNotLast chunks order` for both chunk orders;
* `scriptChunks_preambleOK`  : `RenderSim.PreambleOK chunks` under `PreamblesPlain body`
  (a CONFIGURATION hypothesis: no AutoVar command of a condition leaf is named `end` / `return` /
  `goto`); an instance of
* `scriptChunks_leaves`      : every leaf test of the table is a leaf of a condition of the source
  (for any predicate `L` on leaves: `LeavesL L body → … → L e`; also used with
  `Spec.WellFormedLeaf` to discharge `RenderSim.Compat` for the induced world).

No side condition beyond the success of `scriptChunks` is needed for the first two (in particular
no `ScopesWellFormed` / `ScopeIdsDistinct`: a failing `break` / `continue` lookup makes
`scriptChunks` fail, and distinctness of ids is not used).

Method: an invariant `TInv` of the worklist state, proved directly by induction on `runWorklist`
(independent of `Inv` of `Worklist.lean`; no distinctness of ids is needed):
* `dense`: every id `1 … counter` is the id of a chunk in `final ∪ queue` (every allocated id is
  queued in the step that allocates it);
* `bnd`  : every id mentioned by a chunk of `final ∪ queue` (return id, branch targets, `case`
  destinations) and by `brk` / `cont` lies in `1 … counter`;
* `sw`   : for a chunk `c` with branch `switch_ … none none`, the id `c.id + 1` is the id of a chunk
  (its first case body) and is mentioned by no chunk outside `case` lists (`ncm`, the "non-case
  mentions", which contain every `tailId`), nor by `brk` / `cont`.
One worklist step is abstracted by `StepC` (`process_tf`), each chunk builder by `BuildOut`
(`createSwitch` by `SwitchOut`).  The leaf facts additionally use `process_spec` / `StepOut.nw_stmts`
of `Worklist.lean` (the new chunks of a step are identified by cancelling the common queue prefix).
-/
namespace Pory.Emit
open Pory Pory.Sem

/-! ### ids a chunk mentions -/

/-- targets of a branch other than `case` destinations -/
def brT : Branch → List Nat
  | .none => []
  | .jump d => [d]
  | .breakCtx d => d.toList
  | .leaf t _ f => t :: f.toList
  | .switch_ _ _ dflt dest => dflt.toList ++ dest.toList

/-- non-case mentions of a chunk: its return id and the non-case targets of its branch -/
def ncm (c : Chunk) : List Nat := c.returnID.toList ++ brT c.branch

/-- `case` destinations of a chunk -/
def caseDests (c : Chunk) : List Nat :=
  match c.branch with
  | .switch_ _ cs _ _ => cs.map (·.dest)
  | _ => []

def isSw : Branch → Bool
  | .switch_ .. => true
  | _ => false

theorem caseDests_of_not_sw {c : Chunk} (h : isSw c.branch = false) : caseDests c = [] := by
  unfold caseDests; cases hb : c.branch <;> simp_all [isSw]

theorem targets_sub (c : Chunk) : ∀ d ∈ RenderSim.targets c, d ∈ ncm c ∨ d ∈ caseDests c := by
  intro d hd
  unfold RenderSim.targets at hd
  unfold ncm caseDests brT
  cases hb : c.branch with
  | none => rw [hb] at hd; simp at hd ⊢; exact hd
  | jump x => rw [hb] at hd; simp at hd ⊢; exact .inr hd
  | breakCtx x => rw [hb] at hd; simp at hd ⊢; exact .inr hd
  | leaf t e f => rw [hb] at hd; simp at hd ⊢; rcases hd with h | h <;> simp [h]
  | switch_ op cs df de =>
    rw [hb] at hd
    simp only [List.mem_append, List.mem_map, Option.mem_toList] at hd ⊢
    rcases hd with (h | h) | h
    · exact .inr (by simpa using h)
    · exact .inl (.inr (.inl h))
    · exact .inl (.inr (.inr h))

theorem tailId_mem_ncm {c : Chunk} {d : Nat} (h : tailId c = some d) : d ∈ ncm c := by
  unfold tailId at h
  unfold ncm brT
  split at h <;> simp_all

/-- leaves of a condition -/
def leavesOf : BoolExpr → List OpExpr
  | .leaf e => [e]
  | .bin l _ r => leavesOf l ++ leavesOf r

/-! ### builders: bookkeeping -/

def Fresh (lo hi d : Nat) : Prop := lo < d ∧ d ≤ hi

theorem Fresh.mono {lo hi lo' hi' d : Nat} (h : Fresh lo hi d) (h1 : lo' ≤ lo) (h2 : hi ≤ hi') :
    Fresh lo' hi' d := ⟨by have := h.1; omega, by have := h.2; omega⟩

/-- every id in `(lo, hi]` is the id of a chunk of `nw` -/
def Cover (lo hi : Nat) (nw : List Chunk) : Prop := ∀ d, lo < d → d ≤ hi → d ∈ nw.map (·.id)

theorem Cover.nil (lo : Nat) : Cover lo lo [] := fun d h1 h2 => by omega

theorem Cover.append {a b c : Nat} {x y : List Chunk} (h1 : Cover a b x) (h2 : Cover b c y) :
    Cover a c (x ++ y) := by
  intro d hd1 hd2
  rw [List.map_append, List.mem_append]
  by_cases h : d ≤ b
  · exact .inl (h1 d hd1 h)
  · exact .inr (h2 d (by omega) hd2)

theorem Cover.single {a : Nat} (c : Chunk) (hc : c.id = a + 1) : Cover a (a + 1) [c] := by
  intro d h1 h2
  have : d = a + 1 := by omega
  simp [this, hc]

/-- `a + 1` was reserved before the chunks `x` were created and is queued afterwards -/
theorem Cover.reserved {a b : Nat} {x : List Chunk} (h : Cover (a + 1) b x) (c : Chunk)
    (hc : c.id = a + 1) : Cover a b (x ++ [c]) := by
  intro d h1 h2
  rw [List.map_append, List.mem_append]
  by_cases hd : d = a + 1
  · right; simp [hd, hc]
  · left; exact h d (by omega) h2

theorem Cover.mono {a b : Nat} {x y : List Chunk} (h : Cover a b x) (hs : ∀ q ∈ x, q ∈ y) :
    Cover a b y := by
  intro d h1 h2
  obtain ⟨q, hq, e⟩ := List.mem_map.1 (h d h1 h2)
  exact List.mem_map.2 ⟨q, hs q hq, e⟩

/-- `Grows` without the distinctness of the new ids -/
structure Built (s s' : WS) (nw : List Chunk) : Prop where
  counter_le : s.counter ≤ s'.counter
  queue_eq : s'.queue = s.queue ++ nw
  final_eq : s'.final = s.final
  brk_eq : s'.brk = s.brk
  cont_eq : s'.cont = s.cont
  ids : ∀ q ∈ nw, Fresh s.counter s'.counter q.id

theorem Built.refl (s : WS) : Built s s [] := ⟨Nat.le_refl _, by simp, rfl, rfl, rfl, by simp⟩

theorem Built.trans {a b c : WS} {x y : List Chunk} (h1 : Built a b x) (h2 : Built b c y) :
    Built a c (x ++ y) := by
  refine ⟨Nat.le_trans h1.counter_le h2.counter_le, by rw [h2.queue_eq, h1.queue_eq, List.append_assoc],
    h2.final_eq.trans h1.final_eq, h2.brk_eq.trans h1.brk_eq, h2.cont_eq.trans h1.cont_eq, ?_⟩
  intro q hq
  have := h1.counter_le; have := h2.counter_le
  rcases List.mem_append.1 hq with hq | hq
  · exact (h1.ids q hq).mono (Nat.le_refl _) h2.counter_le
  · exact (h2.ids q hq).mono h1.counter_le (Nat.le_refl _)

theorem Built.reserve (s : WS) : Built s { s with counter := s.counter + 1 } [] :=
  ⟨by simp, by simp, rfl, rfl, rfl, by simp⟩

theorem Built.allocPush (s : WS) (c : Chunk) (hc : c.id = s.counter + 1) :
    Built s { s with counter := s.counter + 1, queue := s.queue ++ [c] } [c] :=
  ⟨by simp, rfl, rfl, rfl, rfl, by simp [hc, Fresh]⟩

/-- queue chunks whose ids were allocated between `s` and `s'` -/
theorem Built.push {s s' s'' : WS} {nw : List Chunk} (h : Built s s' nw) (cs : List Chunk)
    (hq : s''.queue = s'.queue ++ cs) (hc : s''.counter = s'.counter) (hf : s''.final = s'.final)
    (hb : s''.brk = s'.brk) (hcn : s''.cont = s'.cont)
    (hids : ∀ q ∈ cs, Fresh s.counter s'.counter q.id) : Built s s'' (nw ++ cs) := by
  refine ⟨hc ▸ h.counter_le, by rw [hq, h.queue_eq, List.append_assoc], hf.trans h.final_eq,
    hb.trans h.brk_eq, hcn.trans h.cont_eq, ?_⟩
  intro q hq'
  rw [hc]
  rcases List.mem_append.1 hq' with hq' | hq'
  · exact h.ids q hq'
  · exact hids q hq'

/-- What a chunk builder without `switch` chunks produces: the new chunks `nw` cover the ids it
allocated; their mentions are `old` ids (given to the builder) or fresh ones; their leaf tests are
leaves of the conditions `conds`. -/
structure BuildOut (s s' : WS) (nw : List Chunk) (old : List Nat) (conds : List BoolExpr) : Prop where
  built : Built s s' nw
  cover : Cover s.counter s'.counter nw
  ncm : ∀ q ∈ nw, ∀ d ∈ ncm q, d ∈ old ∨ Fresh s.counter s'.counter d
  nosw : ∀ q ∈ nw, isSw q.branch = false
  leaf : ∀ q ∈ nw, ∀ t e f, q.branch = .leaf t e f → ∃ c ∈ conds, e ∈ leavesOf c

theorem BuildOut.refl (s : WS) (old : List Nat) (conds : List BoolExpr) : BuildOut s s [] old conds :=
  ⟨Built.refl s, Cover.nil _, by simp, by simp, by simp⟩

theorem BuildOut.trans' {a b c : WS} {x y : List Chunk} {old1 old2 old : List Nat}
    {conds1 conds2 conds : List BoolExpr}
    (h1 : BuildOut a b x old1 conds1) (h2 : BuildOut b c y old2 conds2)
    (ho1 : ∀ d ∈ old1, d ∈ old ∨ Fresh a.counter c.counter d)
    (ho2 : ∀ d ∈ old2, d ∈ old ∨ Fresh a.counter c.counter d)
    (hc1 : ∀ e ∈ conds1, e ∈ conds) (hc2 : ∀ e ∈ conds2, e ∈ conds) :
    BuildOut a c (x ++ y) old conds := by
  have l1 := h1.built.counter_le
  have l2 := h2.built.counter_le
  refine ⟨h1.built.trans h2.built, h1.cover.append h2.cover, ?_, ?_, ?_⟩
  · intro q hq d hd
    rcases List.mem_append.1 hq with hq | hq
    · rcases h1.ncm q hq d hd with h | h
      · exact ho1 d h
      · exact .inr (h.mono (Nat.le_refl _) l2)
    · rcases h2.ncm q hq d hd with h | h
      · exact ho2 d h
      · exact .inr (h.mono l1 (Nat.le_refl _))
  · intro q hq
    rcases List.mem_append.1 hq with hq | hq
    · exact h1.nosw q hq
    · exact h2.nosw q hq
  · intro q hq t e f hb
    rcases List.mem_append.1 hq with hq | hq
    · obtain ⟨c', hc, he⟩ := h1.leaf q hq t e f hb
      exact ⟨c', hc1 c' hc, he⟩
    · obtain ⟨c', hc, he⟩ := h2.leaf q hq t e f hb
      exact ⟨c', hc2 c' hc, he⟩

theorem BuildOut.trans {a b c : WS} {x y : List Chunk} {old : List Nat} {conds : List BoolExpr}
    (h1 : BuildOut a b x old conds) (h2 : BuildOut b c y old conds) : BuildOut a c (x ++ y) old conds :=
  h1.trans' h2 (fun _ h => .inl h) (fun _ h => .inl h) (fun _ h => h) (fun _ h => h)

theorem BuildOut.mono {a b : WS} {x : List Chunk} {old old' : List Nat} {conds conds' : List BoolExpr}
    (h : BuildOut a b x old conds) (ho : ∀ d ∈ old, d ∈ old' ∨ Fresh a.counter b.counter d)
    (hc : ∀ c ∈ conds, c ∈ conds') : BuildOut a b x old' conds' := by
  refine ⟨h.built, h.cover, ?_, h.nosw, ?_⟩
  · intro q hq d hd
    rcases h.ncm q hq d hd with h' | h'
    · exact ho d h'
    · exact .inr h'
  · intro q hq t e f hb
    obtain ⟨c, hc1, hc2⟩ := h.leaf q hq t e f hb
    exact ⟨c, hc c hc1, hc2⟩

/-- allocate the next id and queue a code chunk (`branch = none`) returning to `ret` -/
theorem BuildOut.pushCode (s : WS) (ret : Option Nat) (st : List Stmt) (old : List Nat)
    (conds : List BoolExpr) (hret : ∀ d, ret = some d → d ∈ old) :
    BuildOut s (pushNew s ret st) [{ id := s.counter + 1, returnID := ret, statements := st }] old conds := by
  refine ⟨Built.allocPush s _ rfl, Cover.single _ rfl, ?_, by simp [isSw], by simp⟩
  intro q hq d hd
  simp only [List.mem_singleton] at hq; subst hq
  simp only [Emit.ncm, brT, List.append_nil, Option.mem_toList] at hd
  exact .inl (hret d hd)

/-! ### `splitChunkForBranch`, `splitBool`, `splitElifs` -/

theorem splitChunkForBranch_tf (c : Chunk) (i : Nat) (s : WS) (conds : List BoolExpr) :
    ∃ nw, BuildOut s (splitChunkForBranch c i s).1 nw c.returnID.toList conds ∧
      (∀ d, (splitChunkForBranch c i s).2 = some d →
        c.returnID = some d ∨ Fresh s.counter (splitChunkForBranch c i s).1.counter d) ∧
      ((splitChunkForBranch c i s).2 = none → nw = [] ∧ c.returnID = none) := by
  unfold splitChunkForBranch
  split
  · exact ⟨[], BuildOut.refl _ _ _, fun d h => .inl h, fun h => ⟨rfl, h⟩⟩
  · refine ⟨_, BuildOut.pushCode s c.returnID _ _ _ (fun d h => by simp [h]), ?_, ?_⟩
    · intro d h
      simp only [Option.some.injEq] at h
      subst h
      exact .inr ⟨by simp, by simp⟩
    · intro h; simp at h

theorem splitBool_tf (e : BoolExpr) : ∀ (succ : Nat) (fail : Option Nat) (s s' : WS) (entry : Nat),
    splitBool e succ fail s = .ok (s', entry) →
    ∃ nw, BuildOut s s' nw (succ :: fail.toList) [e] ∧ Fresh s.counter s'.counter entry := by
  induction e with
  | leaf x =>
    intro succ fail s s' entry h
    simp only [splitBool, Except.ok.injEq, Prod.mk.injEq] at h
    obtain ⟨rfl, rfl⟩ := h
    refine ⟨[{ id := s.counter + 1, branch := .leaf succ x fail }],
      ⟨Built.allocPush s _ rfl, Cover.single _ rfl, ?_, by simp [isSw], ?_⟩, by simp [Fresh]⟩
    · intro q hq d hd
      simp only [List.mem_singleton] at hq; subst hq
      simp only [ncm, brT, Option.toList, List.nil_append] at hd
      exact .inl hd
    · intro q hq t e f hb
      simp only [List.mem_singleton] at hq; subst hq
      simp only [Branch.leaf.injEq] at hb
      exact ⟨.leaf x, by simp, by simp [leavesOf, hb.2.1]⟩
  | bin l op r ihl ihr =>
    intro succ fail s s' entry h
    rw [splitBool] at h
    have main : ∀ (fl : Option Nat) (sl : Nat) (s2 s3 : WS) (le re : Nat),
        (sl :: fl.toList = (s.counter + 1) :: fail.toList ∨ sl :: fl.toList = succ :: [s.counter + 1]) →
        splitBool l sl fl { s with counter := s.counter + 1 } = .ok (s2, le) →
        splitBool r succ fail s2 = .ok (s3, re) →
        ∃ nw, BuildOut s { s3 with queue := s3.queue ++ [{ id := s.counter + 1, branch := .jump re }] } nw
            (succ :: fail.toList) [.bin l op r] ∧ Fresh s.counter s3.counter le := by
      intro fl sl s2 s3 le re hold hl hr
      obtain ⟨nl, bl, fle⟩ := ihl _ _ _ _ _ hl
      obtain ⟨nr, br, fre⟩ := ihr _ _ _ _ _ hr
      have c1 := bl.built.counter_le
      have c2 := br.built.counter_le
      simp only at c1
      have hfle : Fresh s.counter s3.counter le := ⟨by have := fle.1; simp only at this; omega, by have := fle.2; omega⟩
      refine ⟨(nl ++ nr) ++ [{ id := s.counter + 1, branch := .jump re }], ⟨?_, ?_, ?_, ?_, ?_⟩, hfle⟩
      · have b3 : Built s s3 (nl ++ nr) := by
          have := ((Built.reserve s).trans bl.built).trans br.built
          simpa using this
        exact b3.push _ rfl rfl rfl rfl rfl (by
          intro q hq; simp only [List.mem_singleton] at hq; subst hq
          exact ⟨by simp, by simp only; omega⟩)
      · exact (bl.cover.append br.cover).reserved _ rfl
      · intro q hq d hd
        simp only [List.mem_append, List.mem_singleton] at hq
        rcases hq with (hq | hq) | hq
        · rcases bl.ncm q hq d hd with h' | h'
          · rcases hold with ho | ho
            · rw [ho] at h'
              simp only [List.mem_cons] at h'
              rcases h' with h' | h'
              · exact .inr ⟨by omega, by simp only; omega⟩
              · exact .inl (by simp [h'])
            · rw [ho] at h'
              simp only [List.mem_cons, List.mem_nil_iff, or_false] at h'
              rcases h' with h' | h'
              · exact .inl (by simp [h'])
              · exact .inr ⟨by omega, by simp only; omega⟩
          · exact .inr ⟨by have := h'.1; simp only at this; omega, by have := h'.2; simp only; omega⟩
        · rcases br.ncm q hq d hd with h' | h'
          · exact .inl h'
          · exact .inr ⟨by have := h'.1; omega, by have := h'.2; simp only; omega⟩
        · subst hq
          simp only [ncm, brT, Option.toList, List.nil_append, List.mem_singleton] at hd
          subst hd
          exact .inr ⟨by have := fre.1; omega, fre.2⟩
      · intro q hq
        simp only [List.mem_append, List.mem_singleton] at hq
        rcases hq with (hq | hq) | hq
        · exact bl.nosw q hq
        · exact br.nosw q hq
        · subst hq; rfl
      · intro q hq t e f hb
        simp only [List.mem_append, List.mem_singleton] at hq
        rcases hq with (hq | hq) | hq
        · obtain ⟨c, hc1, hc2⟩ := bl.leaf q hq t e f hb
          simp only [List.mem_singleton] at hc1; rw [hc1] at hc2
          exact ⟨.bin l op r, by simp, by simp [leavesOf, hc2]⟩
        · obtain ⟨c, hc1, hc2⟩ := br.leaf q hq t e f hb
          simp only [List.mem_singleton] at hc1; rw [hc1] at hc2
          exact ⟨.bin l op r, by simp, by simp [leavesOf, hc2]⟩
        · subst hq; simp at hb
    split at h
    · simp only at h
      split at h
      · cases h
      · rename_i s2 le hl
        split at h
        · cases h
        · rename_i s3 re hr
          simp only [Except.ok.injEq, Prod.mk.injEq] at h
          obtain ⟨rfl, rfl⟩ := h
          exact main _ _ _ _ _ _ (.inl rfl) hl hr
    · split at h
      · simp only at h
        split at h
        · cases h
        · rename_i s2 le hl
          split at h
          · cases h
          · rename_i s3 re hr
            simp only [Except.ok.injEq, Prod.mk.injEq] at h
            obtain ⟨rfl, rfl⟩ := h
            exact main _ _ _ _ _ _ (.inr rfl) hl hr
      · cases h

theorem splitElifs_tf (lastFail : Option Nat) :
    ∀ (elifs : List (BoolExpr × List Stmt)) (ids : List Nat) (s s' : WS) (r : Option Nat),
    splitElifs elifs ids lastFail s = .ok (s', r) →
    ∃ nw, BuildOut s s' nw (ids ++ lastFail.toList) (elifs.map (·.1)) ∧
      ∀ e, r = some e → lastFail = some e ∨ Fresh s.counter s'.counter e := by
  intro elifs
  induction elifs with
  | nil =>
    intro ids s s' r h
    simp only [splitElifs, Except.ok.injEq, Prod.mk.injEq] at h
    obtain ⟨rfl, rfl⟩ := h
    exact ⟨[], BuildOut.refl _ _ _, fun e h => .inl h⟩
  | cons a restE ih =>
    intro ids s s' r h
    obtain ⟨c, b0⟩ := a
    cases ids with
    | nil =>
      simp only [splitElifs, Except.ok.injEq, Prod.mk.injEq] at h
      obtain ⟨rfl, rfl⟩ := h
      exact ⟨[], BuildOut.refl _ _ _, fun e h => .inl h⟩
    | cons id restI =>
      rw [splitElifs] at h
      split at h
      · cases h
      · rename_i s1 nextEntry h1
        split at h
        · cases h
        · rename_i s2 entry h2
          simp only [Except.ok.injEq, Prod.mk.injEq] at h
          obtain ⟨rfl, rfl⟩ := h
          obtain ⟨nw1, b1, r1⟩ := ih restI s s1 nextEntry h1
          obtain ⟨nw2, b2, f2⟩ := splitBool_tf c id nextEntry s1 s2 entry h2
          have l1 := b1.built.counter_le
          have l2 := b2.built.counter_le
          refine ⟨nw1 ++ nw2, b1.trans' b2 ?_ ?_ ?_ ?_, ?_⟩
          · intro d hd; exact .inl (by simp only [List.cons_append, List.mem_cons]; exact .inr hd)
          · intro d hd
            simp only [List.mem_cons, Option.mem_toList] at hd
            rcases hd with rfl | hd
            · exact .inl (by simp)
            · rcases r1 d hd with h' | h'
              · exact .inl (by simp [h'])
              · exact .inr (h'.mono (Nat.le_refl _) l2)
          · intro e he; simp only [List.map_cons, List.mem_cons]; exact .inr he
          · intro e he; simp only [List.mem_singleton] at he; simp [he]
          · intro e he
            simp only [Option.some.injEq] at he; subst he
            exact .inr (f2.mono l1 (Nat.le_refl _))

/-! ### `createIf` -/

theorem armChunks_tf (ret : Option Nat) (old : List Nat) (conds : List BoolExpr)
    (hret : ∀ d, ret = some d → d ∈ old) :
    ∀ (arms : List (BoolExpr × List Stmt)) (s : WS),
    BuildOut s { s with counter := s.counter + arms.length, queue := s.queue ++ armChunks ret s.counter arms }
      (armChunks ret s.counter arms) old conds := by
  intro arms
  induction arms with
  | nil =>
    intro s
    have : ({ s with
          counter := s.counter + ([] : List (BoolExpr × List Stmt)).length,
          queue := s.queue ++ armChunks ret s.counter [] } : WS) = s := by
      cases s; simp [armChunks]
    rw [this]
    exact BuildOut.refl _ _ _
  | cons e r ih =>
    intro s
    have h := (BuildOut.pushCode s ret e.2 old conds hret).trans (ih (pushNew s ret e.2))
    have he : ({ (pushNew s ret e.2) with
          counter := (pushNew s ret e.2).counter + r.length,
          queue := (pushNew s ret e.2).queue ++ armChunks ret (pushNew s ret e.2).counter r } : WS) =
        { s with
          counter := s.counter + (e :: r).length,
          queue := s.queue ++ armChunks ret s.counter (e :: r) } := by
      simp only [pushNew, armChunks, List.length_cons, List.append_assoc, List.cons_append,
        List.nil_append, WS.mk.injEq, and_true]
      omega
    rw [he] at h
    exact h

theorem elseStep_tf (post : Option Nat) (a : WS) (els : Option (List Stmt)) (old : List Nat)
    (conds : List BoolExpr) (hret : ∀ d, post = some d → d ∈ old) :
    ∃ nw, BuildOut a (elseStep post a els).1 nw old conds ∧
      ∀ id, (elseStep post a els).2 = some id → Fresh a.counter (elseStep post a els).1.counter id := by
  cases els with
  | none => exact ⟨[], BuildOut.refl _ _ _, fun id h => by simp [elseStep] at h⟩
  | some st =>
    refine ⟨_, BuildOut.pushCode a post st old conds hret, ?_⟩
    intro id h
    simp only [elseStep, Option.some.injEq] at h
    subst h
    exact ⟨by simp, by simp [elseStep, pushNew]⟩

theorem ifTail_tf (cond : BoolExpr) (elifs : List (BoolExpr × List Stmt)) (ids : List Nat) (consId : Nat)
    (post : Option Nat) (e : WS × Option Nat) (s' : WS) (br : Branch) (ret : Option Nat)
    (h : ifTail cond elifs ids consId post e = .ok (s', br, ret)) :
    ∃ nw, BuildOut e.1 s' nw (consId :: ids ++ e.2.toList ++ post.toList) (cond :: elifs.map (·.1)) ∧
      (∃ entry, br = .jump entry ∧ Fresh e.1.counter s'.counter entry) ∧ ret = post := by
  unfold ifTail at h
  split at h
  · cases h
  · rename_i s1 afterCons h1
    split at h
    · cases h
    · rename_i s2 entry h2
      simp only [Except.ok.injEq, Prod.mk.injEq] at h
      obtain ⟨rfl, rfl, rfl⟩ := h
      obtain ⟨nw1, b1, r1⟩ := splitElifs_tf _ _ _ _ _ _ h1
      obtain ⟨nw2, b2, f2⟩ := splitBool_tf _ _ _ _ _ _ h2
      have l1 := b1.built.counter_le
      have l2 := b2.built.counter_le
      refine ⟨nw1 ++ nw2, b1.trans' b2 ?_ ?_ ?_ ?_, ⟨entry, rfl, f2.mono l1 (Nat.le_refl _)⟩, rfl⟩
      · intro d hd
        left
        simp only [List.mem_append, Option.mem_toList] at hd
        simp only [List.cons_append, List.mem_cons, List.mem_append, Option.mem_toList]
        rcases hd with hd | hd
        · exact .inr (.inl (.inl hd))
        · cases he : e.2 with
          | none => rw [he] at hd; exact .inr (.inr hd)
          | some x => rw [he] at hd; simp only [Option.some.injEq] at hd; exact .inr (.inl (.inr (by rw [hd])))
      · intro d hd
        simp only [List.mem_cons, Option.mem_toList] at hd
        simp only [List.cons_append, List.mem_cons, List.mem_append, Option.mem_toList]
        rcases hd with rfl | hd
        · exact .inl (.inl rfl)
        · rcases r1 d hd with h' | h'
          · cases he : e.2 with
            | none => rw [he] at h'; exact .inl (.inr (.inr h'))
            | some x => rw [he] at h'; simp only [Option.some.injEq] at h'; exact .inl (.inr (.inl (.inr (by rw [h']))))
          · exact .inr (h'.mono (Nat.le_refl _) l2)
      · intro c hc; simp only [List.mem_cons]; exact .inr hc
      · intro c hc; simp only [List.mem_singleton] at hc; simp [hc]

theorem createIf_tf (cond : BoolExpr) (body : List Stmt) (elifs : List (BoolExpr × List Stmt))
    (els : Option (List Stmt)) (c : Chunk) (i : Nat) (s s' : WS) (br : Branch) (ret : Option Nat)
    (h : createIf cond body elifs els c i s = .ok (s', br, ret)) :
    ∃ nw, BuildOut s s' nw c.returnID.toList (cond :: elifs.map (·.1)) ∧
      (∃ entry, br = .jump entry ∧ Fresh s.counter s'.counter entry) ∧
      (∀ d, ret = some d → c.returnID = some d ∨ Fresh s.counter s'.counter d) := by
  rw [createIf_eq] at h
  obtain ⟨nsp, bsp, hpost, _⟩ := splitChunkForBranch_tf c i s (cond :: elifs.map (·.1))
  generalize splitChunkForBranch c i s = sp at h bsp hpost
  obtain ⟨s0, post⟩ := sp
  simp only at h bsp hpost
  rw [foldl_armStep] at h
  simp only [List.nil_append] at h
  have l0 := bsp.built.counter_le
  -- `post` is old or fresh, relative to any later counter
  have hpost' : ∀ hi, s0.counter ≤ hi → ∀ d ∈ post.toList, d ∈ c.returnID.toList ∨ Fresh s.counter hi d := by
    intro hi hhi d hd
    simp only [Option.mem_toList] at hd
    rcases hpost d hd with h' | h'
    · exact .inl (by simp [h'])
    · exact .inr (h'.mono (Nat.le_refl _) hhi)
  have bcons := BuildOut.pushCode s0 post body post.toList (cond :: elifs.map (·.1)) (fun d hd => by simp [hd])
  have barms := armChunks_tf post post.toList (cond :: elifs.map (·.1)) (fun d hd => by simp [hd]) elifs
    (pushNew s0 post body)
  have b1 := bcons.trans barms
  generalize ha : ({ (pushNew s0 post body) with
        counter := (pushNew s0 post body).counter + elifs.length,
        queue := (pushNew s0 post body).queue ++ armChunks post (pushNew s0 post body).counter elifs } : WS) = a
    at h b1
  have la : s0.counter + 1 ≤ a.counter := by rw [← ha]; simp [pushNew]
  obtain ⟨nel, bel, hel⟩ := elseStep_tf post a els post.toList (cond :: elifs.map (·.1)) (fun d hd => by simp [hd])
  have b2 := b1.trans bel
  have l2 := bel.built.counter_le
  obtain ⟨nh, bh, ⟨entry, hbr, hentry⟩, hret⟩ := ifTail_tf _ _ _ _ _ _ _ _ _ h
  have l3 := bh.built.counter_le
  have b3 := b2.trans' bh (old := post.toList) (conds := cond :: elifs.map (·.1))
    (fun d hd => .inl hd) ?_ (fun e he => he) (fun e he => he)
  · have b4 := bsp.trans' b3 (old := c.returnID.toList) (conds := cond :: elifs.map (·.1))
      (fun d hd => .inl hd) (hpost' _ (by omega)) (fun e he => he) (fun e he => he)
    refine ⟨_, b4, ⟨entry, hbr, hentry.mono (by omega) (Nat.le_refl _)⟩, ?_⟩
    intro d hd
    rw [hret] at hd
    rcases hpost d hd with h' | h'
    · exact .inl h'
    · exact .inr (h'.mono (Nat.le_refl _) (by omega))
  · intro d hd
    simp only [List.cons_append, List.mem_cons, List.mem_append, Option.mem_toList, List.mem_map] at hd
    rcases hd with rfl | (⟨q, hq, rfl⟩ | hd) | hd
    · exact .inr ⟨by simp, by omega⟩
    · have := armChunks_mem post elifs _ q hq
      simp only [pushNew] at this
      refine .inr ⟨by omega, ?_⟩
      have : q.id ≤ a.counter := by rw [← ha]; simp only [pushNew]; omega
      omega
    · have := hel d hd
      exact .inr ⟨by have := this.1; omega, by have := this.2; omega⟩
    · exact .inl (by simp [hd])

/-! ### loops -/

theorem loop_tf (s0 s3 s' : WS) (nh : List Chunk) (post : Option Nat) (body : List Stmt) (tgt : Nat)
    (conds : List BoolExpr)
    (b : BuildOut { s0 with counter := s0.counter + 1 + 1 } s3 nh ((s0.counter + 1 + 1) :: post.toList) conds)
    (htgt : Fresh s0.counter s3.counter tgt)
    (hq : s'.queue = s3.queue ++
      [{ id := s0.counter + 1 + 1, returnID := some (s0.counter + 1), statements := body },
       { id := s0.counter + 1, returnID := post, branch := .jump tgt }])
    (hc : s'.counter = s3.counter) (hf : s'.final = s3.final) (hb : s'.brk = s3.brk)
    (hcn : s'.cont = s3.cont) :
    BuildOut s0 s' (nh ++
      [{ id := s0.counter + 1 + 1, returnID := some (s0.counter + 1), statements := body },
       { id := s0.counter + 1, returnID := post, branch := .jump tgt }]) post.toList conds := by
  have l := b.built.counter_le
  simp only at l
  have g0 : Built s0 s3 nh := by
    have := ((Built.reserve s0).trans (Built.reserve _)).trans b.built
    simpa using this
  refine ⟨g0.push _ hq hc hf hb hcn ?_, ?_, ?_, ?_, ?_⟩
  · intro q hq'
    simp only [List.mem_cons, List.mem_nil_iff, or_false] at hq'
    rcases hq' with rfl | rfl
    · exact ⟨by simp only; omega, by simp only; omega⟩
    · exact ⟨by simp only; omega, by simp only; omega⟩
  · rw [hc]
    have c1 : Cover (s0.counter + 1 + 1) s3.counter nh := b.cover
    have := (c1.reserved { id := s0.counter + 1 + 1, returnID := some (s0.counter + 1), statements := body } rfl).reserved
      { id := s0.counter + 1, returnID := post, branch := .jump tgt } rfl
    simpa using this
  · intro q hq' d hd
    rw [hc]
    simp only [List.mem_append, List.mem_cons, List.mem_nil_iff, or_false] at hq'
    rcases hq' with hq' | rfl | rfl
    · rcases b.ncm q hq' d hd with h' | h'
      · simp only [List.mem_cons] at h'
        rcases h' with rfl | h'
        · exact .inr ⟨by omega, by omega⟩
        · exact .inl h'
      · exact .inr ⟨by have := h'.1; simp only at this; omega, h'.2⟩
    · simp only [ncm, brT, Option.toList, List.append_nil, List.mem_singleton] at hd
      subst hd
      exact .inr ⟨by omega, by omega⟩
    · simp only [ncm, brT, List.mem_append, List.mem_singleton] at hd
      rcases hd with hd | rfl
      · exact .inl hd
      · exact .inr htgt
  · intro q hq'
    simp only [List.mem_append, List.mem_cons, List.mem_nil_iff, or_false] at hq'
    rcases hq' with hq' | rfl | rfl
    · exact b.nosw q hq'
    · rfl
    · rfl
  · intro q hq' t e f hbr
    simp only [List.mem_append, List.mem_cons, List.mem_nil_iff, or_false] at hq'
    rcases hq' with hq' | rfl | rfl
    · exact b.leaf q hq' t e f hbr
    · simp at hbr
    · simp at hbr

theorem createWhile_tf (cond : Option BoolExpr) (body : List Stmt) (c : Chunk) (i : Nat) (s s' : WS)
    (br : Branch) (ret : Option Nat) (contId : Nat)
    (h : createWhile cond body c i s = .ok (s', br, ret, contId)) :
    ∃ nw, BuildOut s s' nw c.returnID.toList cond.toList ∧
      (∃ t, br = .jump t ∧ Fresh s.counter s'.counter t) ∧
      (∀ d, ret = some d → c.returnID = some d ∨ Fresh s.counter s'.counter d) ∧
      Fresh s.counter s'.counter contId := by
  unfold createWhile at h
  simp only [alloc] at h
  obtain ⟨nsp, bsp, hpost, _⟩ := splitChunkForBranch_tf c i s cond.toList
  generalize splitChunkForBranch c i s = sp at h bsp hpost
  obtain ⟨s0, post⟩ := sp
  simp only at h bsp hpost
  have l0 := bsp.built.counter_le
  have fin : ∀ (s3 : WS) (nl : List Chunk), s'.counter = s3.counter → s0.counter + 1 + 1 ≤ s3.counter →
      BuildOut s0 s' nl post.toList cond.toList →
      ∃ nw, BuildOut s s' nw c.returnID.toList cond.toList ∧
        (∃ t, (Branch.jump (s0.counter + 1)) = .jump t ∧ Fresh s.counter s'.counter t) ∧
        (∀ d, post = some d → c.returnID = some d ∨ Fresh s.counter s'.counter d) ∧
        Fresh s.counter s'.counter (s0.counter + 1) := by
    intro s3 nl hc hl bl
    have hpost' : ∀ d ∈ post.toList, d ∈ c.returnID.toList ∨ Fresh s.counter s'.counter d := by
      intro d hd
      simp only [Option.mem_toList] at hd
      rcases hpost d hd with h' | h'
      · exact .inl (by simp [h'])
      · exact .inr (h'.mono (Nat.le_refl _) (by omega))
    refine ⟨nsp ++ nl, bsp.trans' bl (fun d hd => .inl hd) hpost' (fun e he => he) (fun e he => he),
      ⟨_, rfl, ⟨by omega, by omega⟩⟩, ?_, ⟨by omega, by omega⟩⟩
    intro d hd
    rcases hpost' d (by simp [hd]) with h' | h'
    · exact .inl (by simpa using h')
    · exact .inr h'
  cases cond with
  | none =>
    simp only [Except.ok.injEq, Prod.mk.injEq] at h
    obtain ⟨hs, rfl, rfl, rfl⟩ := h
    have bl := loop_tf s0 { s0 with counter := s0.counter + 1 + 1 } s' [] post body (s0.counter + 1 + 1) []
      (BuildOut.refl _ _ _) ⟨by omega, by simp⟩ (by rw [← hs]) (by rw [← hs]) (by rw [← hs])
      (by rw [← hs]) (by rw [← hs])
    exact fin { s0 with counter := s0.counter + 1 + 1 } _ (by rw [← hs]) (by simp) bl
  | some e =>
    simp only at h
    split at h
    · cases h
    · rename_i s3 entry h3
      simp only [Except.ok.injEq, Prod.mk.injEq] at h
      obtain ⟨hs, rfl, rfl, rfl⟩ := h
      obtain ⟨nh, bh, fentry⟩ := splitBool_tf _ _ _ _ _ _ h3
      have l3 := bh.built.counter_le
      simp only at l3 fentry
      have bl := loop_tf s0 s3 s' nh post body entry [e] bh ⟨by have := fentry.1; omega, fentry.2⟩
        (by rw [← hs]) (by rw [← hs]) (by rw [← hs]) (by rw [← hs]) (by rw [← hs])
      exact fin s3 _ (by rw [← hs]) l3 bl

theorem createDoWhile_tf (cond : BoolExpr) (body : List Stmt) (c : Chunk) (i : Nat) (s s' : WS)
    (br : Branch) (ret : Option Nat) (contId : Nat)
    (h : createDoWhile cond body c i s = .ok (s', br, ret, contId)) :
    ∃ nw, BuildOut s s' nw c.returnID.toList [cond] ∧
      (∃ t, br = .jump t ∧ Fresh s.counter s'.counter t) ∧
      (∀ d, ret = some d → c.returnID = some d ∨ Fresh s.counter s'.counter d) ∧
      Fresh s.counter s'.counter contId := by
  unfold createDoWhile at h
  simp only [alloc] at h
  obtain ⟨nsp, bsp, hpost, _⟩ := splitChunkForBranch_tf c i s [cond]
  generalize splitChunkForBranch c i s = sp at h bsp hpost
  obtain ⟨s0, post⟩ := sp
  simp only at h bsp hpost
  have l0 := bsp.built.counter_le
  split at h
  · cases h
  · rename_i s3 entry h3
    simp only [Except.ok.injEq, Prod.mk.injEq] at h
    obtain ⟨hs, rfl, rfl, rfl⟩ := h
    obtain ⟨nh, bh, fentry⟩ := splitBool_tf _ _ _ _ _ _ h3
    have l3 := bh.built.counter_le
    simp only at l3 fentry
    have bl := loop_tf s0 s3 s' nh post body entry [cond] bh ⟨by have := fentry.1; omega, fentry.2⟩
      (by rw [← hs]) (by rw [← hs]) (by rw [← hs]) (by rw [← hs]) (by rw [← hs])
    have hc : s'.counter = s3.counter := by rw [← hs]
    have hpost' : ∀ d ∈ post.toList, d ∈ c.returnID.toList ∨ Fresh s.counter s'.counter d := by
      intro d hd
      simp only [Option.mem_toList] at hd
      rcases hpost d hd with h' | h'
      · exact .inl (by simp [h'])
      · exact .inr (h'.mono (Nat.le_refl _) (by omega))
    refine ⟨nsp ++ _, bsp.trans' bl (fun d hd => .inl hd) hpost' (fun e he => he) (fun e he => he),
      ⟨_, rfl, ⟨by omega, by omega⟩⟩, ?_, ⟨by omega, by omega⟩⟩
    intro d hd
    rcases hpost' d (by simp [hd]) with h' | h'
    · exact .inl (by simpa using h')
    · exact .inr h'

/-! ### `switch` -/

theorem propagateBack_mem : ∀ (l : List (Option Nat)) (d : Nat), some d ∈ propagateBack l → some d ∈ l := by
  intro l
  induction l with
  | nil => intro d h; simp [propagateBack] at h
  | cons x rest ih =>
    intro d h
    cases x with
    | some i =>
      simp only [propagateBack, List.mem_cons] at h
      rcases h with h | h
      · simp [h]
      · exact List.mem_cons_of_mem _ (ih d h)
    | none =>
      simp only [propagateBack, List.mem_cons] at h
      refine List.mem_cons_of_mem _ (ih d ?_)
      rcases h with h | h
      · cases hr : propagateBack rest with
        | nil => rw [hr] at h; simp at h
        | cons y ys => rw [hr] at h; simp at h; simp [h]
      · exact h

theorem foldl_default_mem (l : List (SwitchCase × Option Nat)) : ∀ (acc : Option Nat) (d : Nat),
    l.foldl (fun acc (cb : SwitchCase × Option Nat) =>
      if cb.1.2.1 then (match cb.2 with | some d => some d | none => acc) else acc) acc = some d →
    acc = some d ∨ some d ∈ l.map (·.2) := by
  induction l with
  | nil => intro acc d h; exact .inl h
  | cons a r ih =>
    intro acc d h
    rw [List.foldl_cons] at h
    rcases ih _ d h with h' | h'
    · split at h'
      · split at h'
        · rename_i x hx
          right; simp [hx, ← h']
        · exact .inl h'
      · exact .inl h'
    · right; simp only [List.map_cons, List.mem_cons]; exact .inr h'

theorem mem_zip_snd {α β} {l1 : List α} {l2 : List β} {b : β} (h : b ∈ (l1.zip l2).map (·.2)) : b ∈ l2 := by
  obtain ⟨x, hx, rfl⟩ := List.mem_map.1 h
  exact (List.of_mem_zip hx).2

theorem switchDefaultDest_mem (cases : List SwitchCase) (ids : List (Option Nat)) (d : Nat)
    (h : switchDefaultDest cases ids = some d) : some d ∈ ids := by
  unfold switchDefaultDest at h
  rcases foldl_default_mem _ _ _ h with h' | h'
  · cases h'
  · exact mem_zip_snd h'

theorem switchBranchCases_mem (cases : List SwitchCase) (ids : List (Option Nat)) (sc : SwitchCaseBranch)
    (h : sc ∈ switchBranchCases cases ids) : some sc.dest ∈ ids := by
  unfold switchBranchCases at h
  obtain ⟨cb, hcb, he⟩ := List.mem_filterMap.1 h
  split at he
  · cases he
  · cases h2 : cb.2 with
    | none => rw [h2] at he; cases he
    | some x =>
      rw [h2] at he
      simp only [Option.map_some, Option.some.injEq] at he
      subst he
      simp only
      rw [← h2]
      exact mem_zip_snd (List.mem_map.2 ⟨cb, hcb, rfl⟩)

theorem switchBranchOf_facts (operand : Tok) (cases : List SwitchCase) (bodyIds : List (Option Nat))
    (eid : Nat) (post : Option Nat) :
    ∃ bcs dflt dest, switchBranchOf operand cases bodyIds eid post = .switch_ operand bcs dflt dest ∧
      (∀ d, dflt = some d → some d ∈ bodyIds) ∧ (dest = post ∨ dest = none) ∧
      (dflt = none → dest = post) ∧
      (∀ sc ∈ bcs, some sc.dest ∈ bodyIds ∨ (switchNeedsEmpty cases bodyIds = true ∧ sc.dest = eid)) := by
  refine ⟨_, _, _, rfl, fun d hd => switchDefaultDest_mem _ _ _ hd, ?_, ?_, ?_⟩
  · cases switchDefaultDest cases bodyIds <;> simp
  · intro h; simp [h]
  · intro sc hsc
    split at hsc
    · rename_i hne
      rcases List.mem_append.1 hsc with h | h
      · exact .inl (switchBranchCases_mem _ _ _ h)
      · obtain ⟨x, _, rfl⟩ := List.mem_map.1 h
        exact .inr ⟨hne, rfl⟩
    · exact .inl (switchBranchCases_mem _ _ _ hsc)

theorem switchBodies_tf (ret : Option Nat) (old : List Nat) (conds : List BoolExpr)
    (hret : ∀ d, ret = some d → d ∈ old) : ∀ (cases : List SwitchCase) (s : WS),
    ∃ nw, BuildOut s (switchBodies ret cases s).1 nw old conds ∧
      (∀ d, some d ∈ (switchBodies ret cases s).2 →
        Fresh s.counter (switchBodies ret cases s).1.counter d) ∧
      ((switchBodies ret cases s).2.all (·.isNone) = false → s.counter + 1 ∈ nw.map (·.id)) ∧
      (∀ q ∈ nw, ncm q = ret.toList) := by
  intro cases
  induction cases with
  | nil =>
    intro s
    exact ⟨[], BuildOut.refl _ _ _, by simp [switchBodies], by simp [switchBodies], by simp⟩
  | cons c r ih =>
    intro s
    obtain ⟨v, d, body⟩ := c
    by_cases hb : body.length > 0
    · rw [switchBodies_cons_pos ret v d body r s hb]
      obtain ⟨nw, b, hids, _, hn⟩ := ih (pushNew s ret body)
      have l := b.built.counter_le
      refine ⟨_ :: nw, (BuildOut.pushCode s ret body old conds hret).trans b, ?_, by simp, ?_⟩
      · intro x hx
        simp only [List.mem_cons, Option.some.injEq] at hx
        rcases hx with rfl | hx
        · exact ⟨by simp, by simp only [pushNew] at l ⊢; omega⟩
        · exact (hids x hx).mono (by simp [pushNew]) (Nat.le_refl _)
      · intro q hq
        simp only [List.mem_cons] at hq
        rcases hq with rfl | hq
        · simp [ncm, brT]
        · exact hn q hq
    · rw [switchBodies_cons_neg ret v d body r s hb]
      obtain ⟨nw, b, hids, hfirst, hn⟩ := ih s
      refine ⟨nw, b, ?_, ?_, hn⟩
      · intro x hx
        simp only [List.mem_cons] at hx
        rcases hx with hx | hx
        · cases hx
        · exact hids x hx
      · intro h
        apply hfirst
        simpa using h

theorem emptyStep_tf (post : Option Nat) (need : Bool) (s : WS) (old : List Nat) (conds : List BoolExpr)
    (hret : ∀ d, post = some d → d ∈ old) :
    ∃ ne, BuildOut s (emptyStep post need s).1 ne old conds ∧
      (need = true → Fresh s.counter (emptyStep post need s).1.counter (emptyStep post need s).2) ∧
      (∀ q ∈ ne, ncm q = post.toList) := by
  unfold emptyStep
  cases need with
  | false => exact ⟨[], BuildOut.refl _ _ _, by simp, by simp⟩
  | true =>
    refine ⟨_, BuildOut.pushCode s post [] old conds hret, fun _ => ⟨by simp, by simp⟩, ?_⟩
    intro q hq
    simp only [List.mem_singleton] at hq; subst hq
    simp [ncm, brT]

/-- What `createSwitch` produces.  The last clause is the heart of `SwitchNotLast`: a switch chunk
without default and without return chunk is followed (id + 1) by its first case body, and in that
case no new chunk has any non-case mention at all. -/
structure SwitchOut (c : Chunk) (s s' : WS) (nw : List Chunk) (ret : Option Nat) (swId : Nat) : Prop where
  built : Built s s' nw
  cover : Cover s.counter s'.counter nw
  ncm : ∀ q ∈ nw, ∀ d ∈ ncm q, d ∈ c.returnID.toList ∨ Fresh s.counter s'.counter d
  cases_ : ∀ q ∈ nw, ∀ d ∈ caseDests q, Fresh s.counter s'.counter d
  noleaf : ∀ q ∈ nw, ∀ t e f, q.branch ≠ .leaf t e f
  swId_fresh : Fresh s.counter s'.counter swId
  ret_old : ∀ d, ret = some d → c.returnID = some d ∨ Fresh s.counter s'.counter d
  sw : ∀ q ∈ nw, ∀ op cs, q.branch = .switch_ op cs none none →
    q.id = swId ∧ ret = none ∧ (∀ q' ∈ nw, Emit.ncm q' = []) ∧ swId + 1 ∈ nw.map (·.id)

theorem SwitchOut.of_buildOut {c : Chunk} {s s' : WS} {nw : List Chunk} {ret : Option Nat} {swId : Nat}
    (b : BuildOut s s' nw c.returnID.toList []) (h1 : Fresh s.counter s'.counter swId)
    (h2 : ∀ d, ret = some d → c.returnID = some d ∨ Fresh s.counter s'.counter d) :
    SwitchOut c s s' nw ret swId := by
  refine ⟨b.built, b.cover, b.ncm, ?_, ?_, h1, h2, ?_⟩
  · intro q hq d hd
    rw [caseDests_of_not_sw (b.nosw q hq)] at hd
    cases hd
  · intro q hq t e f hb
    obtain ⟨x, hx, _⟩ := b.leaf q hq t e f hb
    cases hx
  · intro q hq op cs hb
    have := b.nosw q hq
    rw [hb] at this
    cases this

theorem createSwitch_tf (operand : Tok) (cases : List SwitchCase) (c : Chunk) (i : Nat) (s s' : WS)
    (br : Branch) (ret : Option Nat) (swId : Nat)
    (h : createSwitch operand cases c i s = (s', br, ret, swId)) :
    br = .jump swId ∧ ∃ nw, SwitchOut c s s' nw ret swId := by
  rw [createSwitch_eq] at h
  obtain ⟨nsp, bsp, hpost, hnone⟩ := splitChunkForBranch_tf c i s []
  generalize splitChunkForBranch c i s = sp at h bsp hpost hnone
  obtain ⟨s0, post⟩ := sp
  simp only at h bsp hpost hnone
  have l0 := bsp.built.counter_le
  have hpo : ∀ d, post = some d → d ∈ post.toList := fun d hd => by simp [hd]
  have bsw : BuildOut s0 (pushEmpty s0 post) [{ id := s0.counter + 1, returnID := post }] post.toList [] :=
    BuildOut.pushCode s0 post [] post.toList [] hpo
  obtain ⟨nb, bb, hids, hfirst, hnb⟩ := switchBodies_tf post post.toList [] hpo cases (pushEmpty s0 post)
  generalize switchBodies post cases (pushEmpty s0 post) = sb at h bb hids hfirst
  obtain ⟨s1, ids0⟩ := sb
  simp only at h bb hids hfirst
  have l1 : s0.counter + 1 ≤ s1.counter := bb.built.counter_le
  have hpe : (pushEmpty s0 post).counter = s0.counter + 1 := rfl
  rw [hpe] at hids hfirst
  have hpost' : ∀ hi, s0.counter ≤ hi → ∀ d ∈ post.toList, d ∈ c.returnID.toList ∨ Fresh s.counter hi d := by
    intro hi hhi d hd
    simp only [Option.mem_toList] at hd
    rcases hpost d hd with h' | h'
    · exact .inl (by simp [h'])
    · exact .inr (h'.mono (Nat.le_refl _) hhi)
  unfold switchTail at h
  by_cases hall : ids0.all (·.isNone) = true
  · rw [if_pos hall] at h
    simp only [Prod.mk.injEq] at h
    obtain ⟨rfl, rfl, rfl, rfl⟩ := h
    refine ⟨rfl, _, SwitchOut.of_buildOut
      (bsp.trans' (bsw.trans bb) (fun d hd => .inl hd) (hpost' _ (by omega)) (fun e he => he) (fun e he => he))
      ⟨by omega, by omega⟩ ?_⟩
    intro d hd
    rcases hpost d hd with h' | h'
    · exact .inl h'
    · exact .inr (h'.mono (Nat.le_refl _) (by omega))
  · rw [if_neg hall] at h
    simp only [Prod.mk.injEq] at h
    obtain ⟨hs', rfl, rfl, rfl⟩ := h
    have hall' : ids0.all (·.isNone) = false := by simpa using hall
    obtain ⟨ne, be, heid, hne⟩ := emptyStep_tf post (switchNeedsEmpty cases (propagateBack ids0)) s1 post.toList [] hpo
    generalize emptyStep post (switchNeedsEmpty cases (propagateBack ids0)) s1 = es at hs' be heid
    obtain ⟨s2, eid⟩ := es
    simp only at hs' be heid
    have l2 : s1.counter ≤ s2.counter := be.built.counter_le
    have hc' : s'.counter = s2.counter := by rw [← hs']
    obtain ⟨bcs, dflt, dest, hbr, hdflt, hdest, hdn, hbcs⟩ :=
      switchBranchOf_facts operand cases (propagateBack ids0) eid post
    rw [hbr] at hs'
    -- the table before the switch chunk's branch is filled in
    have b2 : BuildOut s s2 (nsp ++ ({ id := s0.counter + 1, returnID := post } :: (nb ++ ne)))
        c.returnID.toList [] := by
      have := bsp.trans' ((bsw.trans bb).trans be) (fun d hd => .inl hd) (hpost' _ (by omega))
        (fun e he => he) (fun e he => he)
      simpa [List.append_assoc] using this
    have hq0 : s0.queue = s.queue ++ nsp := bsp.built.queue_eq
    have hq' : s'.queue = s.queue ++ (nsp ++ (({ id := s0.counter + 1, returnID := post, branch := .switch_ operand bcs dflt dest } : Chunk) :: (nb ++ ne))) := by
      rw [← hs']
      simp only
      rw [b2.built.queue_eq, hq0, ← List.append_assoc, modify_append_cons, List.append_assoc]
    have hfresh_id : ∀ d, some d ∈ propagateBack ids0 → Fresh s.counter s'.counter d := by
      intro d hd
      have := hids d (propagateBack_mem _ _ hd)
      exact ⟨by have := this.1; omega, by have := this.2; omega⟩
    refine ⟨rfl, nsp ++ (({ id := s0.counter + 1, returnID := post, branch := .switch_ operand bcs dflt dest } : Chunk) :: (nb ++ ne)), ⟨?_, ?_, ?_, ?_, ?_, ⟨by omega, by omega⟩, ?_, ?_⟩⟩
    · -- Built
      refine ⟨by rw [hc']; exact b2.built.counter_le, hq', by rw [← hs']; exact b2.built.final_eq,
        by rw [← hs']; exact b2.built.brk_eq, by rw [← hs']; exact b2.built.cont_eq, ?_⟩
      intro q hq
      rw [hc']
      simp only [List.mem_append, List.mem_cons] at hq
      rcases hq with hq | rfl | hq | hq
      · exact b2.built.ids q (by simp [hq])
      · exact b2.built.ids { id := s0.counter + 1, returnID := post } (by simp)
      · exact b2.built.ids q (by simp [hq])
      · exact b2.built.ids q (by simp [hq])
    · rw [hc']
      have := b2.cover
      intro d h1 h2
      have := this d h1 h2
      simpa using this
    · intro q hq d hd
      rw [hc']
      simp only [List.mem_append, List.mem_cons] at hq
      rcases hq with hq | rfl | hq | hq
      · exact b2.ncm q (by simp [hq]) d hd
      · simp only [ncm, brT, List.mem_append, Option.mem_toList] at hd
        rcases hd with hd | hd | hd
        · exact b2.ncm { id := s0.counter + 1, returnID := post } (by simp) d (by simp [ncm, brT, hd])
        · rw [← hc']; exact .inr (hfresh_id d (hdflt d hd))
        · rcases hdest with hde | hde
          · rw [hde] at hd
            exact b2.ncm { id := s0.counter + 1, returnID := post } (by simp) d (by simp [ncm, brT, hd])
          · rw [hde] at hd; cases hd
      · exact b2.ncm q (by simp [hq]) d hd
      · exact b2.ncm q (by simp [hq]) d hd
    · intro q hq d hd
      simp only [List.mem_append, List.mem_cons] at hq
      rcases hq with hq | rfl | hq | hq
      · rw [caseDests_of_not_sw (b2.nosw q (by simp [hq]))] at hd; cases hd
      · simp only [caseDests, List.mem_map] at hd
        obtain ⟨sc, hsc, rfl⟩ := hd
        rcases hbcs sc hsc with h' | ⟨h1, h2⟩
        · exact hfresh_id _ h'
        · rw [h2, hc']
          have := heid h1
          exact ⟨by have := this.1; omega, this.2⟩
      · rw [caseDests_of_not_sw (b2.nosw q (by simp [hq]))] at hd; cases hd
      · rw [caseDests_of_not_sw (b2.nosw q (by simp [hq]))] at hd; cases hd
    · intro q hq t e f hb
      simp only [List.mem_append, List.mem_cons] at hq
      rcases hq with hq | rfl | hq | hq
      · obtain ⟨x, hx, _⟩ := b2.leaf q (by simp [hq]) t e f hb; cases hx
      · cases hb
      · obtain ⟨x, hx, _⟩ := b2.leaf q (by simp [hq]) t e f hb; cases hx
      · obtain ⟨x, hx, _⟩ := b2.leaf q (by simp [hq]) t e f hb; cases hx
    · intro d hd
      rcases hpost d hd with h' | h'
      · exact .inl h'
      · exact .inr (h'.mono (Nat.le_refl _) (by omega))
    · intro q hq op cs hb
      simp only [List.mem_append, List.mem_cons] at hq
      have hnot : ∀ q' : Chunk, isSw q'.branch = false → q'.branch ≠ .switch_ op cs none none := by
        intro q' h1 h2; rw [h2] at h1; cases h1
      rcases hq with hq | rfl | hq | hq
      · exact absurd hb (hnot q (b2.nosw q (by simp [hq])))
      · simp only [Branch.switch_.injEq] at hb
        obtain ⟨_, _, rfl, rfl⟩ := hb
        have hp : post = none := (hdn rfl).symm
        obtain ⟨rfl, _⟩ := hnone hp
        subst hp
        refine ⟨rfl, rfl, ?_, ?_⟩
        · intro q' hq'
          simp only [List.nil_append, List.mem_cons, List.mem_append] at hq'
          rcases hq' with rfl | hq' | hq'
          · simp [ncm, brT]
          · rw [hnb q' hq']; rfl
          · rw [hne q' hq']; rfl
        · have := hfirst hall'
          simp only [List.nil_append, List.map_cons, List.map_append, List.mem_cons, List.mem_append]
          exact .inr (.inl this)
      · exact absurd hb (hnot q (b2.nosw q (by simp [hq])))
      · exact absurd hb (hnot q (b2.nosw q (by simp [hq])))

/-! ### one worklist step -/

theorem lookup_mem {α} {k : Nat} {v : α} : ∀ {l : List (Nat × α)}, l.lookup k = some v → (k, v) ∈ l := by
  intro l
  induction l with
  | nil => intro h; simp [List.lookup] at h
  | cons a r ih =>
    intro h
    obtain ⟨k', v'⟩ := a
    by_cases hk : k = k'
    · subst hk
      rw [lookup_cons_self] at h
      injection h with h; subst h
      simp
    · rw [lookup_cons_ne _ _ _ _ hk] at h
      exact List.mem_cons_of_mem _ (ih h)

/-- where an id mentioned after a step comes from: the processed chunk, the scope tables, or it is
fresh -/
def Orig (p : Chunk) (st0 : WS) (hi : Nat) (d : Nat) : Prop :=
  d ∈ ncm p ∨ (∃ k, (k, some d) ∈ st0.brk) ∨ (∃ k, (k, d) ∈ st0.cont) ∨ Fresh st0.counter hi d

structure StepC (p : Chunk) (st0 st1 : WS) (nw : List Chunk) (ch : Chunk) : Prop where
  ch_id : ch.id = p.id
  counter_le : st0.counter ≤ st1.counter
  queue_eq : st1.queue = st0.queue ++ nw
  final_eq : st1.final = ch :: st0.final.filter (·.id != p.id)
  nw_ids : ∀ q ∈ nw, Fresh st0.counter st1.counter q.id
  cover : Cover st0.counter st1.counter nw
  ncm : ∀ q ∈ ch :: nw, ∀ d ∈ ncm q, Orig p st0 st1.counter d
  brk : ∀ k d, (k, some d) ∈ st1.brk → Orig p st0 st1.counter d
  cont : ∀ k d, (k, d) ∈ st1.cont → Orig p st0 st1.counter d
  cases_ : ∀ q ∈ ch :: nw, ∀ d ∈ caseDests q, d ∈ caseDests p ∨ Fresh st0.counter st1.counter d
  sw : ∀ q ∈ ch :: nw, ∀ op cs, q.branch = .switch_ op cs none none →
      (q.id = p.id ∧ q.branch = p.branch) ∨
      (st0.counter < q.id ∧ q.id + 1 ∈ nw.map (·.id) ∧ (∀ q' ∈ ch :: nw, q.id + 1 ∉ Emit.ncm q') ∧
        (∀ k, (k, some (q.id + 1)) ∈ st1.brk → (k, some (q.id + 1)) ∈ st0.brk) ∧
        (∀ k, (k, q.id + 1) ∈ st1.cont → (k, q.id + 1) ∈ st0.cont))
  leaf : ∀ q ∈ ch :: nw, ∀ t e f, q.branch = .leaf t e f →
      q.branch = p.branch ∨ ∃ pre x r c, p.statements = pre ++ x :: r ∧ c ∈ condsOf x ∧ e ∈ leavesOf c

/-- a step that queues nothing: the chunk is finalised with (at most) its own mentions -/
theorem StepC.simple (p : Chunk) (st0 : WS) (ch : Chunk) (hid : ch.id = p.id)
    (hn : ∀ d ∈ Emit.ncm ch, d ∈ Emit.ncm p) (hb : ch.branch = p.branch ∨ ch.branch = .none) :
    StepC p st0 (st0.setFinal ch) [] ch := by
  refine ⟨hid, Nat.le_refl _, by simp [WS.setFinal], by simp [WS.setFinal, hid], by simp, Cover.nil _,
    ?_, ?_, ?_, ?_, ?_, ?_⟩
  · intro q hq d hd
    simp only [List.mem_singleton] at hq; subst hq
    exact .inl (hn d hd)
  · intro k d h; exact .inr (.inl ⟨k, h⟩)
  · intro k d h; exact .inr (.inr (.inl ⟨k, h⟩))
  · intro q hq d hd
    simp only [List.mem_singleton] at hq; subst hq
    rcases hb with hb | hb
    · left; unfold caseDests at hd ⊢; rw [← hb]; exact hd
    · unfold caseDests at hd; rw [hb] at hd; cases hd
  · intro q hq op cs hbr
    simp only [List.mem_singleton] at hq; subst hq
    rcases hb with hb | hb
    · exact .inl ⟨hid, hb⟩
    · rw [hb] at hbr; cases hbr
  · intro q hq t e f hbr
    simp only [List.mem_singleton] at hq; subst hq
    rcases hb with hb | hb
    · exact .inl hb
    · rw [hb] at hbr; cases hbr

theorem StepC.of_buildOut {p : Chunk} {st0 s1 st1 : WS} {nw : List Chunk} {conds : List BoolExpr}
    {pre r : List Stmt} {x : Stmt} {ch : Chunk}
    (b : BuildOut st0 s1 nw p.returnID.toList conds)
    (hst : p.statements = pre ++ x :: r) (hconds : ∀ c ∈ conds, c ∈ condsOf x)
    (hid : ch.id = p.id) (hchs : isSw ch.branch = false) (hchl : ∀ t e f, ch.branch ≠ .leaf t e f)
    (hchn : ∀ d ∈ Emit.ncm ch, Orig p st0 s1.counter d)
    (hc : st1.counter = s1.counter) (hq : st1.queue = s1.queue)
    (hf : st1.final = ch :: s1.final.filter (·.id != p.id))
    (hbrk : ∀ k d, (k, some d) ∈ st1.brk → (k, some d) ∈ s1.brk ∨ Orig p st0 s1.counter d)
    (hcont : ∀ k d, (k, d) ∈ st1.cont → (k, d) ∈ s1.cont ∨ Orig p st0 s1.counter d) :
    StepC p st0 st1 nw ch := by
  refine ⟨hid, hc ▸ b.built.counter_le, hq.trans b.built.queue_eq, by rw [hf, b.built.final_eq],
    hc ▸ b.built.ids, hc ▸ b.cover, ?_, ?_, ?_, ?_, ?_, ?_⟩
  · intro q hq' d hd
    rw [hc]
    simp only [List.mem_cons] at hq'
    rcases hq' with rfl | hq'
    · exact hchn d hd
    · rcases b.ncm q hq' d hd with h | h
      · exact .inl (by unfold Emit.ncm; exact List.mem_append_left _ h)
      · exact .inr (.inr (.inr h))
  · intro k d h
    rw [hc]
    rcases hbrk k d h with h' | h'
    · exact .inr (.inl ⟨k, b.built.brk_eq ▸ h'⟩)
    · exact h'
  · intro k d h
    rw [hc]
    rcases hcont k d h with h' | h'
    · exact .inr (.inr (.inl ⟨k, b.built.cont_eq ▸ h'⟩))
    · exact h'
  · intro q hq' d hd
    simp only [List.mem_cons] at hq'
    rcases hq' with rfl | hq'
    · rw [caseDests_of_not_sw hchs] at hd; cases hd
    · rw [caseDests_of_not_sw (b.nosw q hq')] at hd; cases hd
  · intro q hq' op cs hbr
    simp only [List.mem_cons] at hq'
    rcases hq' with rfl | hq'
    · rw [hbr] at hchs; cases hchs
    · have := b.nosw q hq'; rw [hbr] at this; cases this
  · intro q hq' t e f hbr
    simp only [List.mem_cons] at hq'
    rcases hq' with rfl | hq'
    · exact absurd hbr (hchl t e f)
    · obtain ⟨c, hc1, hc2⟩ := b.leaf q hq' t e f hbr
      exact .inr ⟨pre, x, r, c, hst, hconds c hc1, hc2⟩

theorem ncm_mk_jump (id : Nat) (ret : Option Nat) (st : List Stmt) (t : Nat) :
    Emit.ncm { id := id, returnID := ret, statements := st, branch := .jump t } = ret.toList ++ [t] := rfl

/-- **every successful `processChunk` is a `StepC`** (no assumption on the processed chunk) -/
theorem process_tf (p : Chunk) (st0 st1 : WS) (hp : processChunk p st0 = .ok st1) :
    ∃ nw ch, StepC p st0 st1 nw ch := by
  unfold processChunk at hp
  generalize hscan : scanSimple p.statements 0 p.statements.length = scn at hp
  obtain ⟨i, fin⟩ := scn
  obtain ⟨pre, rest, hst, hsim, hi, hcase⟩ := scan_facts p i fin hscan
  subst hi
  simp only at hp
  rcases hcase with ⟨rfl, hrest⟩ | ⟨c, rfl, rfl, hname⟩
  · simp only at hp
    rcases hrest with rfl | ⟨x, r, rfl, hx⟩
    · have hlen : pre.length = p.statements.length := by rw [hst]; simp
      rw [if_pos (by simp [hlen])] at hp
      injection hp with hp; subst hp
      exact ⟨[], p, StepC.simple p st0 p rfl (fun d h => h) (.inl rfl)⟩
    · have hilt : pre.length < p.statements.length := by rw [hst]; simp
      have hne : ¬ ((pre.length == p.statements.length) = true) := by simp; omega
      have hget : p.statements[pre.length]? = some x := by rw [hst]; simp
      rw [if_neg hne] at hp
      simp only [hget] at hp
      -- mentions of the finalised chunk `{ id := p.id, returnID := ret, …, branch := .jump t }`
      have chn : ∀ (hi : Nat) (ret : Option Nat) (t : Nat),
          (∀ d, ret = some d → p.returnID = some d ∨ Fresh st0.counter hi d) → Fresh st0.counter hi t →
          ∀ d ∈ ret.toList ++ [t], Orig p st0 hi d := by
        intro hi ret t hret ht d hd
        simp only [List.mem_append, Option.mem_toList, List.mem_singleton] at hd
        rcases hd with hd | rfl
        · rcases hret d hd with h | h
          · exact .inl (by unfold Emit.ncm; simp [h])
          · exact .inr (.inr (.inr h))
        · exact .inr (.inr (.inr ht))
      cases x with
      | cmd c => exact absurd trivial hx
      | label t n g => exact absurd trivial hx
      | ite tok cond body elifs els =>
        simp only at hp
        split at hp
        · cases hp
        · rename_i s1 br ret hc
          injection hp with hp; subst hp
          obtain ⟨nw, b, ⟨entry, rfl, hentry⟩, hret⟩ := createIf_tf _ _ _ _ _ _ _ _ _ _ hc
          refine ⟨nw, _, StepC.of_buildOut
            (ch := { id := p.id, returnID := ret, statements := p.statements.take pre.length, branch := .jump entry })
            b hst (by simp [condsOf]) rfl rfl (by simp) ?_ rfl rfl rfl
            (fun k d h => .inl h) (fun k d h => .inl h)⟩
          rw [ncm_mk_jump]
          exact chn _ _ _ hret hentry
      | while_ tok sid cond body =>
        simp only at hp
        split at hp
        · cases hp
        · rename_i s1 br ret contId hc
          injection hp with hp; subst hp
          obtain ⟨nw, b, ⟨t, rfl, ht⟩, hret, hcont⟩ := createWhile_tf _ _ _ _ _ _ _ _ _ hc
          refine ⟨nw, _, StepC.of_buildOut
            (ch := { id := p.id, returnID := ret, statements := p.statements.take pre.length, branch := .jump t })
            b hst (by cases cond <;> simp [condsOf]) rfl rfl (by simp) ?_ rfl rfl rfl ?_ ?_⟩
          · rw [ncm_mk_jump]
            exact chn _ _ _ hret ht
          · intro k d h
            simp only [WS.setFinal, List.mem_cons, Prod.mk.injEq] at h
            rcases h with ⟨_, h⟩ | h
            · exact .inr (chn _ _ _ hret ht d (by simp [← h]))
            · exact .inl h
          · intro k d h
            simp only [WS.setFinal, List.mem_cons, Prod.mk.injEq] at h
            rcases h with ⟨_, rfl⟩ | h
            · exact .inr (.inr (.inr (.inr hcont)))
            · exact .inl h
      | doWhile tok sid cond body =>
        simp only at hp
        split at hp
        · cases hp
        · rename_i s1 br ret contId hc
          injection hp with hp; subst hp
          obtain ⟨nw, b, ⟨t, rfl, ht⟩, hret, hcont⟩ := createDoWhile_tf _ _ _ _ _ _ _ _ _ hc
          refine ⟨nw, _, StepC.of_buildOut
            (ch := { id := p.id, returnID := ret, statements := p.statements.take pre.length, branch := .jump t })
            b hst (by simp [condsOf]) rfl rfl (by simp) ?_ rfl rfl rfl ?_ ?_⟩
          · rw [ncm_mk_jump]
            exact chn _ _ _ hret ht
          · intro k d h
            simp only [WS.setFinal, List.mem_cons, Prod.mk.injEq] at h
            rcases h with ⟨_, h⟩ | h
            · exact .inr (chn _ _ _ hret ht d (by simp [← h]))
            · exact .inl h
          · intro k d h
            simp only [WS.setFinal, List.mem_cons, Prod.mk.injEq] at h
            rcases h with ⟨_, rfl⟩ | h
            · exact .inr (.inr (.inr (.inr hcont)))
            · exact .inl h
      | brk tok sid =>
        simp only at hp
        split at hp
        · cases hp
        · rename_i dest hl
          injection hp with hp; subst hp
          rw [keepStatementsAfterJump_eq]
          obtain ⟨nw, b, _, _⟩ := splitChunkForBranch_tf p pre.length st0 []
          refine ⟨nw, _, StepC.of_buildOut (x := .brk tok sid)
            (ch := { id := p.id, returnID := p.returnID, statements := p.statements.take pre.length, branch := .breakCtx dest })
            b hst (by simp) rfl rfl (by simp) ?_ rfl rfl rfl
            (fun k d h => .inl h) (fun k d h => .inl h)⟩
          intro d hd
          simp only [Emit.ncm, brT, List.mem_append, Option.mem_toList] at hd
          rcases hd with hd | hd
          · exact .inl (by unfold Emit.ncm; simp [hd])
          · exact .inr (.inl ⟨sid, hd ▸ lookup_mem hl⟩)
      | cont tok sid =>
        simp only at hp
        split at hp
        · cases hp
        · rename_i dest hl
          injection hp with hp; subst hp
          rw [keepStatementsAfterJump_eq]
          obtain ⟨nw, b, _, _⟩ := splitChunkForBranch_tf p pre.length st0 []
          refine ⟨nw, _, StepC.of_buildOut (x := .cont tok sid)
            (ch := { id := p.id, returnID := p.returnID, statements := p.statements.take pre.length, branch := .breakCtx (some dest) })
            b hst (by simp) rfl rfl (by simp) ?_ rfl rfl rfl
            (fun k d h => .inl h) (fun k d h => .inl h)⟩
          intro d hd
          simp only [Emit.ncm, brT, List.mem_append, Option.mem_toList, Option.some.injEq] at hd
          rcases hd with hd | hd
          · exact .inl (by unfold Emit.ncm; simp [hd])
          · exact .inr (.inr (.inl ⟨sid, hd ▸ lookup_mem hl⟩))
      | switch_ tok sid operand cases =>
        simp only at hp
        generalize hc : createSwitch operand cases p pre.length st0 = cs at hp
        obtain ⟨s1, br, ret, swId⟩ := cs
        simp only at hp
        injection hp with hp; subst hp
        obtain ⟨rfl, nw, so⟩ := createSwitch_tf _ _ _ _ _ _ _ _ _ hc
        have hchn := chn s1.counter ret swId so.ret_old so.swId_fresh
        refine ⟨nw, { id := p.id, returnID := ret, statements := p.statements.take pre.length, branch := .jump swId },
          ⟨rfl, so.built.counter_le, so.built.queue_eq, by simp [WS.setFinal, so.built.final_eq], so.built.ids,
           so.cover, ?_, ?_, ?_, ?_, ?_, ?_⟩⟩
        · intro q hq d hd
          simp only [List.mem_cons] at hq
          rcases hq with rfl | hq
          · rw [ncm_mk_jump] at hd; exact hchn d hd
          · rcases so.ncm q hq d hd with h | h
            · exact .inl (by unfold Emit.ncm; exact List.mem_append_left _ h)
            · exact .inr (.inr (.inr h))
        · intro k d h
          simp only [WS.setFinal, List.mem_cons, Prod.mk.injEq] at h
          rcases h with ⟨_, h⟩ | h
          · exact hchn d (by simp [← h])
          · exact .inr (.inl ⟨k, so.built.brk_eq ▸ h⟩)
        · intro k d h
          simp only [WS.setFinal, List.mem_cons, Prod.mk.injEq] at h
          rcases h with ⟨_, rfl⟩ | h
          · exact .inr (.inr (.inr so.swId_fresh))
          · exact .inr (.inr (.inl ⟨k, so.built.cont_eq ▸ h⟩))
        · intro q hq d hd
          simp only [List.mem_cons] at hq
          rcases hq with rfl | hq
          · simp [caseDests] at hd
          · exact .inr (so.cases_ q hq d hd)
        · intro q hq op cs hbr
          simp only [List.mem_cons] at hq
          rcases hq with rfl | hq
          · cases hbr
          · obtain ⟨h1, h2, h3, h4⟩ := so.sw q hq op cs hbr
            subst h2
            refine .inr ⟨by rw [h1]; exact so.swId_fresh.1, by rw [h1]; exact h4, ?_, ?_, ?_⟩
            · intro q' hq' hm
              simp only [List.mem_cons] at hq'
              rcases hq' with rfl | hq'
              · rw [ncm_mk_jump, h1] at hm
                simp at hm
              · rw [h3 q' hq'] at hm; cases hm
            · intro k h
              simp only [WS.setFinal, List.mem_cons, Prod.mk.injEq] at h
              rcases h with ⟨_, h⟩ | h
              · cases h
              · exact so.built.brk_eq ▸ h
            · intro k h
              simp only [WS.setFinal, List.mem_cons, Prod.mk.injEq] at h
              rcases h with ⟨_, h⟩ | h
              · rw [h1] at h; omega
              · exact so.built.cont_eq ▸ h
        · intro q hq t e f hbr
          simp only [List.mem_cons] at hq
          rcases hq with rfl | hq
          · cases hbr
          · exact absurd hbr (so.noleaf q hq t e f)
  · simp only at hp
    injection hp with hp; subst hp
    exact ⟨[], _, StepC.simple p st0 _ rfl (by simp [Emit.ncm, brT]) (.inr rfl)⟩

/-! ### the invariant of the run -/

def allC (st : WS) : List Chunk := st.final ++ st.queue

theorem ids_eq_map (st : WS) : ids st = (allC st).map (·.id) := by simp [ids, allC]

structure TInv (st : WS) : Prop where
  dense : ∀ d, 1 ≤ d → d ≤ st.counter → d ∈ ids st
  idle : ∀ c ∈ allC st, c.id ≤ st.counter
  bnd : ∀ c ∈ allC st, ∀ d ∈ ncm c ++ caseDests c, 1 ≤ d ∧ d ≤ st.counter
  brkB : ∀ k d, (k, some d) ∈ st.brk → 1 ≤ d ∧ d ≤ st.counter
  contB : ∀ k d, (k, d) ∈ st.cont → 1 ≤ d ∧ d ≤ st.counter
  sw : ∀ c ∈ allC st, ∀ op cs, c.branch = .switch_ op cs none none →
      c.id + 1 ∈ ids st ∧ (∀ c' ∈ allC st, c.id + 1 ∉ ncm c') ∧
      (∀ k, (k, some (c.id + 1)) ∉ st.brk) ∧ (∀ k, (k, c.id + 1) ∉ st.cont)

section step
variable {st st1 : WS} {p : Chunk} {q : List Chunk} {nw : List Chunk} {ch : Chunk}

theorem mem_all_step (hq : st.queue = p :: q) (so : StepC p { st with queue := q } st1 nw ch)
    {c : Chunk} (hc : c ∈ allC st1) : c ∈ ch :: nw ∨ c ∈ allC st := by
  unfold allC at hc ⊢
  rw [so.final_eq, so.queue_eq] at hc
  simp only [List.mem_append, List.mem_cons, List.mem_filter] at hc ⊢
  rw [hq]
  rcases hc with (rfl | ⟨h, _⟩) | h | h
  · exact .inl (.inl rfl)
  · exact .inr (.inl h)
  · exact .inr (.inr (List.mem_cons_of_mem _ h))
  · exact .inl (.inr h)

theorem ids_step (hq : st.queue = p :: q) (so : StepC p { st with queue := q } st1 nw ch)
    {i : Nat} (hi : i ∈ ids st ∨ i ∈ nw.map (·.id)) : i ∈ ids st1 := by
  unfold ids at hi ⊢
  rw [so.final_eq, so.queue_eq]
  simp only [List.map_cons, List.map_append, List.mem_append, List.mem_cons]
  rw [hq] at hi
  simp only [List.map_cons, List.mem_append, List.mem_cons] at hi
  by_cases hip : i = p.id
  · exact .inl (.inl (by rw [so.ch_id]; exact hip))
  · rcases hi with (h | h | h) | h
    · obtain ⟨c, hc, rfl⟩ := List.mem_map.1 h
      exact .inl (.inr (List.mem_map.2 ⟨c, List.mem_filter.2 ⟨hc, by simpa using hip⟩, rfl⟩))
    · exact absurd h hip
    · exact .inr (.inl h)
    · exact .inr (.inr h)

theorem step_tinv (hinv : TInv st) (hq : st.queue = p :: q)
    (so : StepC p { st with queue := q } st1 nw ch) : TInv st1 := by
  have hp : p ∈ allC st := by unfold allC; rw [hq]; simp
  have hcl : st.counter ≤ st1.counter := so.counter_le
  -- an id with a known origin is bounded
  have orig_bnd : ∀ d, Orig p { st with queue := q } st1.counter d → 1 ≤ d ∧ d ≤ st1.counter := by
    intro d hd
    rcases hd with h | ⟨k, h⟩ | ⟨k, h⟩ | h
    · have := hinv.bnd p hp d (List.mem_append_left _ h); omega
    · have := hinv.brkB k d h; omega
    · have := hinv.contB k d h; omega
    · have := h.1; have := h.2; simp only at *; omega
  have ids_le : ∀ i ∈ ids st, i ≤ st.counter := by
    intro i hi
    rw [ids_eq_map] at hi
    obtain ⟨c, hc, rfl⟩ := List.mem_map.1 hi
    exact hinv.idle c hc
  -- the `switch` facts for an id whose successor is protected in `st`
  have oldcase : ∀ i, (i + 1 ∈ ids st ∧ (∀ c' ∈ allC st, i + 1 ∉ ncm c') ∧
      (∀ k, (k, some (i + 1)) ∉ st.brk) ∧ (∀ k, (k, i + 1) ∉ st.cont)) →
      (i + 1 ∈ ids st1 ∧ (∀ c' ∈ allC st1, i + 1 ∉ ncm c') ∧
      (∀ k, (k, some (i + 1)) ∉ st1.brk) ∧ (∀ k, (k, i + 1) ∉ st1.cont)) := by
    intro i ⟨h1, h2, h3, h4⟩
    have no_orig : ¬ Orig p { st with queue := q } st1.counter (i + 1) := by
      intro ho
      rcases ho with h | ⟨k, h⟩ | ⟨k, h⟩ | h
      · exact h2 p hp h
      · exact h3 k h
      · exact h4 k h
      · have := ids_le _ h1; have := h.1; simp only at *; omega
    refine ⟨ids_step hq so (.inl h1), ?_, ?_, ?_⟩
    · intro c' hc' hm
      rcases mem_all_step hq so hc' with h | h
      · exact no_orig (so.ncm c' h _ hm)
      · exact h2 c' h hm
    · intro k h; exact no_orig (so.brk k _ h)
    · intro k h; exact no_orig (so.cont k _ h)
  refine ⟨?_, ?_, ?_, ?_, ?_, ?_⟩
  · intro d h1 h2
    by_cases hd : d ≤ st.counter
    · exact ids_step hq so (.inl (hinv.dense d h1 hd))
    · exact ids_step hq so (.inr (so.cover d (by simp only; omega) h2))
  · intro c hc
    rcases mem_all_step hq so hc with h | h
    · simp only [List.mem_cons] at h
      rcases h with rfl | h
      · rw [so.ch_id]; have := hinv.idle p hp; omega
      · exact (so.nw_ids c h).2
    · have := hinv.idle c h; omega
  · intro c hc d hd
    rcases mem_all_step hq so hc with h | h
    · rcases List.mem_append.1 hd with hd | hd
      · exact orig_bnd d (so.ncm c h d hd)
      · rcases so.cases_ c h d hd with h' | h'
        · have := hinv.bnd p hp d (List.mem_append_right _ h'); omega
        · have := h'.1; have := h'.2; simp only at *; omega
    · have := hinv.bnd c h d hd; omega
  · intro k d h; exact orig_bnd d (so.brk k d h)
  · intro k d h; exact orig_bnd d (so.cont k d h)
  · intro c hc op cs hb
    rcases mem_all_step hq so hc with h | h
    · rcases so.sw c h op cs hb with ⟨e1, e2⟩ | ⟨f1, f2, f3, f4, f5⟩
      · rw [e1]
        exact oldcase p.id (hinv.sw p hp op cs (e2 ▸ hb))
      · simp only at f1
        refine ⟨ids_step hq so (.inr f2), ?_, ?_, ?_⟩
        · intro c' hc' hm
          rcases mem_all_step hq so hc' with h' | h'
          · exact f3 c' h' hm
          · have := hinv.bnd c' h' _ (List.mem_append_left _ hm); omega
        · intro k hk
          have := hinv.brkB k _ (f4 k hk); omega
        · intro k hk
          have := hinv.contB k _ (f5 k hk); omega
    · exact oldcase c.id (hinv.sw c h op cs hb)
end step

theorem tinv_init (body : List Stmt) : TInv (initWS body) := by
  refine ⟨?_, ?_, ?_, ?_, ?_, ?_⟩
  · intro d h1 h2; simp [initWS] at h2; omega
  · intro c hc; simp [allC, initWS] at hc; subst hc; simp
  · intro c hc d hd; simp [allC, initWS] at hc; subst hc; simp [ncm, brT, caseDests] at hd
  · intro k d h; simp [initWS] at h
  · intro k d h; simp [initWS] at h
  · intro c hc op cs hb; simp [allC, initWS] at hc; subst hc; simp at hb

theorem run_tinv : ∀ (f : Nat) (st st' : WS), runWorklist f st = .ok st' → TInv st →
    TInv st' ∧ st'.queue = [] := by
  intro f
  induction f with
  | zero => intro st st' h; simp [runWorklist] at h
  | succ f ih =>
    intro st st' h hinv
    rw [runWorklist_succ] at h
    cases hq : st.queue with
    | nil =>
      simp only [hq] at h
      injection h with h; subst h
      exact ⟨hinv, hq⟩
    | cons p q =>
      simp only [hq] at h
      cases hp : processChunk p { st with queue := q } with
      | error e => simp [hp] at h
      | ok st1 =>
        simp only [hp] at h
        obtain ⟨nw, ch, so⟩ := process_tf p _ st1 hp
        exact ih st1 st' h (step_tinv hinv hq so)

theorem scriptChunks_tinv (body : List Stmt) (chunks : List Chunk) (h : scriptChunks body = .ok chunks) :
    ∃ st, TInv st ∧ st.queue = [] ∧ st.final = chunks := by
  unfold scriptChunks at h
  split at h
  · cases h
  · rename_i st hrun
    injection h with h
    obtain ⟨h1, h2⟩ := run_tinv _ (initWS body) st hrun (tinv_init body)
    exact ⟨st, h1, h2, h⟩

/-- **The chunk table of a script is closed**: every id a chunk can transfer control to is the id
of a chunk of the table and is not 0.  No side condition beyond the success of `scriptChunks`. -/
theorem scriptChunks_closed (body : List Stmt) (chunks : List Chunk) (h : scriptChunks body = .ok chunks) :
    RenderSim.Closed chunks := by
  obtain ⟨st, hinv, hq, rfl⟩ := scriptChunks_tinv body chunks h
  intro c hc d hd
  have hc' : c ∈ allC st := by simp [allC, hq, hc]
  have hb := hinv.bnd c hc' d (by
    rcases targets_sub c d hd with h | h
    · exact List.mem_append_left _ h
    · exact List.mem_append_right _ h)
  refine ⟨by omega, ?_⟩
  have := hinv.dense d hb.1 hb.2
  simpa [ids, hq] using this

/-- **The two table facts behind `SwitchNotLast`**: a `switch` chunk without default and without
return chunk has a successor id (its first case body) in the table that is nobody's `tailId`. -/
theorem scriptChunks_switch_facts (body : List Stmt) (chunks : List Chunk)
    (h : scriptChunks body = .ok chunks) :
    ∀ c ∈ chunks, ∀ op cases, c.branch = .switch_ op cases none none →
      ∃ d ∈ chunks.map (·.id), c.id < d ∧ ∀ c' ∈ chunks, tailId c' ≠ some d := by
  obtain ⟨st, hinv, hq, rfl⟩ := scriptChunks_tinv body chunks h
  intro c hc op cases hb
  have hall : ∀ x, x ∈ st.final → x ∈ allC st := fun x hx => by simp [allC, hq, hx]
  obtain ⟨h1, h2, _, _⟩ := hinv.sw c (hall c hc) op cases hb
  refine ⟨c.id + 1, by simpa [ids, hq] using h1, by omega, ?_⟩
  intro c' hc' ht
  exact h2 c' (hall c' hc') (tailId_mem_ncm ht)

/-- **`SwitchNotLast` holds for emitter-built tables, for both chunk orders.** -/
theorem scriptChunks_switchNotLast (o : Opts) (body : List Stmt) (chunks : List Chunk) (order : List Nat)
    (h : scriptChunks body = .ok chunks) (ho : C05.chunkOrder o chunks = .ok order) :
    RenderSim.SwitchNotLast chunks order := by
  have hf := scriptChunks_switch_facts body chunks h
  obtain ⟨hnd, h0⟩ := C05.scriptChunks_ids body chunks h
  unfold C05.chunkOrder at ho
  split at ho
  · exact RenderSim.switchNotLast_optimized chunks order hnd h0 ho hf
  · injection ho with ho
    subst ho
    refine RenderSim.switchNotLast_sorted chunks ?_
    intro c hc op cases hb
    obtain ⟨d, hd, hlt, _⟩ := hf c hc op cases hb
    exact ⟨d, hd, hlt⟩

/-! ### `PreambleOK` -/

/-- the AutoVar command of a leaf (if any) is an ordinary command -/
def PlainLeaf (e : OpExpr) : Prop := ∀ p, e.preamble = some p → specialCmd p = none

/-- all leaves of a condition satisfy `L` -/
def CondLeaves (L : OpExpr → Prop) (c : BoolExpr) : Prop := ∀ e ∈ leavesOf c, L e

mutual
/-- every condition leaf below a statement satisfies `L` -/
def LeavesS (L : OpExpr → Prop) : Stmt → Prop
  | .cmd _ => True
  | .label .. => True
  | .ite _ c b es e =>
    CondLeaves L c ∧ LeavesL L b ∧ LeavesE L es ∧ (match e with | some l => LeavesL L l | none => True)
  | .while_ _ _ c b => (match c with | some c => CondLeaves L c | none => True) ∧ LeavesL L b
  | .doWhile _ _ c b => CondLeaves L c ∧ LeavesL L b
  | .brk .. => True
  | .cont .. => True
  | .switch_ _ _ _ cs => LeavesC L cs
def LeavesL (L : OpExpr → Prop) : List Stmt → Prop
  | [] => True
  | s :: r => LeavesS L s ∧ LeavesL L r
def LeavesE (L : OpExpr → Prop) : List (BoolExpr × List Stmt) → Prop
  | [] => True
  | (c, b) :: r => CondLeaves L c ∧ LeavesL L b ∧ LeavesE L r
def LeavesC (L : OpExpr → Prop) : List SwitchCase → Prop
  | [] => True
  | (_, _, b) :: r => LeavesL L b ∧ LeavesC L r
end

/-- **Configuration hypothesis**: no AutoVar command attached to a condition leaf anywhere in the
script is named `end`, `return` or `goto` (the AutoVar commands come from the command
configuration, not from the script text). -/
def PreamblesPlain (body : List Stmt) : Prop := LeavesL PlainLeaf body

section leaves
variable {L : OpExpr → Prop}

theorem leavesS_ite (tok : Tok) (c : BoolExpr) (b : List Stmt) (es : List (BoolExpr × List Stmt))
    (e : Option (List Stmt)) : LeavesS L (.ite tok c b es e) ↔
      (CondLeaves L c ∧ LeavesL L b ∧ LeavesE L es ∧ (match e with | some l => LeavesL L l | none => True)) := by
  cases e <;> exact Iff.rfl
theorem leavesS_while (tok : Tok) (sid : Nat) (c : Option BoolExpr) (b : List Stmt) :
    LeavesS L (.while_ tok sid c b) ↔ ((match c with | some c => CondLeaves L c | none => True) ∧ LeavesL L b) := by
  cases c <;> exact Iff.rfl
theorem leavesL_cons (s : Stmt) (r : List Stmt) : LeavesL L (s :: r) ↔ (LeavesS L s ∧ LeavesL L r) := Iff.rfl
theorem leavesE_cons (c : BoolExpr) (b : List Stmt) (r : List (BoolExpr × List Stmt)) :
    LeavesE L ((c, b) :: r) ↔ (CondLeaves L c ∧ LeavesL L b ∧ LeavesE L r) := Iff.rfl
theorem leavesC_cons (v : Tok) (d : Bool) (b : List Stmt) (r : List SwitchCase) :
    LeavesC L ((v, d, b) :: r) ↔ (LeavesL L b ∧ LeavesC L r) := Iff.rfl

theorem LeavesL_append (a b : List Stmt) : LeavesL L (a ++ b) ↔ LeavesL L a ∧ LeavesL L b := by
  induction a with
  | nil => simp [LeavesL]
  | cons s r ih => simp [leavesL_cons, ih, and_assoc]

theorem LeavesE_mem : ∀ (es : List (BoolExpr × List Stmt)), LeavesE L es →
    (∀ e ∈ es, CondLeaves L e.1) ∧ ∀ b ∈ es.map (·.2), LeavesL L b := by
  intro es
  induction es with
  | nil => intro _; exact ⟨by simp, by simp⟩
  | cons e r ih =>
    obtain ⟨c, b0⟩ := e
    intro h
    rw [leavesE_cons] at h
    obtain ⟨i1, i2⟩ := ih h.2.2
    refine ⟨?_, ?_⟩
    · intro e he
      simp only [List.mem_cons] at he
      rcases he with rfl | he
      · exact h.1
      · exact i1 e he
    · intro b hb
      simp only [List.map_cons, List.mem_cons] at hb
      rcases hb with rfl | hb
      · exact h.2.1
      · exact i2 b hb

theorem LeavesC_mem : ∀ (cs : List SwitchCase), LeavesC L cs → ∀ b ∈ cs.map (·.2.2), LeavesL L b := by
  intro cs
  induction cs with
  | nil => intro _ b hb; simp at hb
  | cons e r ih =>
    obtain ⟨v, d, b0⟩ := e
    intro h b hb
    rw [leavesC_cons] at h
    simp only [List.map_cons, List.mem_cons] at hb
    rcases hb with rfl | hb
    · exact h.1
    · exact ih h.2 b hb

theorem LeavesS_sub (x : Stmt) (h : LeavesS L x) : ∀ b ∈ subBlocks x, LeavesL L b := by
  intro b hb
  cases x with
  | cmd c => simp [subBlocks] at hb
  | label t n g => simp [subBlocks] at hb
  | brk t s => simp [subBlocks] at hb
  | cont t s => simp [subBlocks] at hb
  | ite tok c b0 es e =>
    rw [leavesS_ite] at h
    simp only [subBlocks, List.mem_cons, List.mem_append] at hb
    rcases hb with rfl | hb | hb
    · exact h.2.1
    · exact (LeavesE_mem es h.2.2.1).2 b hb
    · cases e with
      | none => simp at hb
      | some l => simp only [List.mem_singleton] at hb; subst hb; exact h.2.2.2
  | while_ tok sid c b0 =>
    rw [leavesS_while] at h
    simp only [subBlocks, List.mem_singleton] at hb; subst hb; exact h.2
  | doWhile tok sid c b0 =>
    simp only [subBlocks, List.mem_singleton] at hb; subst hb; exact h.2
  | switch_ tok sid o cs =>
    simp only [subBlocks] at hb
    exact LeavesC_mem cs h b hb

theorem LeavesS_conds (x : Stmt) (h : LeavesS L x) : ∀ c ∈ condsOf x, CondLeaves L c := by
  intro c hc
  cases x with
  | cmd c => simp [condsOf] at hc
  | label t n g => simp [condsOf] at hc
  | brk t s => simp [condsOf] at hc
  | cont t s => simp [condsOf] at hc
  | switch_ tok sid o cs => simp [condsOf] at hc
  | ite tok c0 b0 es e =>
    rw [leavesS_ite] at h
    simp only [condsOf, List.mem_cons, List.mem_map] at hc
    rcases hc with rfl | ⟨a, ha, rfl⟩
    · exact h.1
    · exact (LeavesE_mem es h.2.2.1).1 a ha
  | while_ tok sid c0 b0 =>
    rw [leavesS_while] at h
    cases c0 with
    | none => simp [condsOf] at hc
    | some c1 => simp only [condsOf, List.mem_singleton] at hc; subst hc; exact h.1
  | doWhile tok sid c0 b0 =>
    simp only [condsOf, List.mem_singleton] at hc; subst hc; exact h.1

theorem hereditary_leaves : Hereditary (LeavesL L) := by
  refine ⟨trivial, ?_, ?_⟩
  · intro pre x r h
    rw [LeavesL_append, leavesL_cons] at h; exact h.2.2
  · intro pre x r b h hb
    rw [LeavesL_append, leavesL_cons] at h; exact LeavesS_sub x h.2.1 b hb

/-- invariant for `PreambleOK`: queued chunks are well formed and carry plain conditions; every
leaf chunk created so far has a plain preamble -/
structure PInv (L : OpExpr → Prop) (st : WS) : Prop where
  queue : ∀ p ∈ st.queue, QOK p ∧ LeavesL L p.statements
  leaf : ∀ c ∈ allC st, ∀ t e f, c.branch = .leaf t e f → L e

theorem run_pinv : ∀ (f : Nat) (st st' : WS), runWorklist f st = .ok st' → PInv L st → PInv L st' := by
  intro f
  induction f with
  | zero => intro st st' h; simp [runWorklist] at h
  | succ f ih =>
    intro st st' h hinv
    rw [runWorklist_succ] at h
    cases hq : st.queue with
    | nil =>
      simp only [hq] at h
      injection h with h; subst h
      exact hinv
    | cons p q =>
      simp only [hq] at h
      cases hp : processChunk p { st with queue := q } with
      | error e => simp [hp] at h
      | ok st1 =>
        simp only [hp] at h
        obtain ⟨hpq, hpl⟩ := hinv.queue p (by simp [hq])
        have hpa : p ∈ allC st := by unfold allC; rw [hq]; simp
        obtain ⟨nw, ch, so⟩ := process_tf p _ st1 hp
        obtain ⟨nw', ch', sc, so'⟩ := process_spec p _ st1 hpq hp
        have hnw : nw' = nw := by
          have := so'.queue_eq.symm.trans so.queue_eq
          exact List.append_cancel_left this
        subst hnw
        refine ih st1 st' h ⟨?_, ?_⟩
        · intro x hx
          rw [so.queue_eq] at hx
          simp only [List.mem_append] at hx
          rcases hx with hx | hx
          · exact hinv.queue x (by simp [hq, hx])
          · refine ⟨so'.nw_qok x hx, ?_⟩
            rcases so'.nw_stmts x hx with he | ⟨pre, y, r, hst, hr⟩
            · rw [he]; exact hereditary_leaves.nil
            · rw [hst] at hpl
              rcases hr with hr | ⟨hr, _⟩
              · rw [hr]; exact hereditary_leaves.tail pre y r hpl
              · exact hereditary_leaves.sub pre y r _ hpl hr
        · intro c hc t e f hb
          rcases mem_all_step hq so hc with h' | h'
          · rcases so.leaf c h' t e f hb with h1 | ⟨pre, x, r, cd, hst, hcd, he⟩
            · exact hinv.leaf p hpa t e f (h1 ▸ hb)
            · rw [hst, LeavesL_append, leavesL_cons] at hpl
              exact LeavesS_conds x hpl.2.1 cd hcd e he
          · exact hinv.leaf c h' t e f hb

/-- every leaf test of the table is a leaf of a condition of the source -/
theorem scriptChunks_leaves (body : List Stmt) (chunks : List Chunk) (hpl : LeavesL L body)
    (h : scriptChunks body = .ok chunks) : ∀ c ∈ chunks, ∀ t e f, c.branch = .leaf t e f → L e := by
  unfold scriptChunks at h
  split at h
  · cases h
  · rename_i st hrun
    injection h with h; subst h
    have hinit : PInv L (initWS body) := by
      refine ⟨?_, ?_⟩
      · intro p hp
        simp only [initWS, List.mem_singleton] at hp; subst hp
        exact ⟨IsCode.qok ⟨rfl, rfl⟩, hpl⟩
      · intro c hc t e f hb
        simp [allC, initWS] at hc; subst hc; simp at hb
    have := run_pinv _ (initWS body) st hrun hinit
    intro c hc t e f hb
    exact this.leaf c (by simp [allC, hc]) t e f hb

end leaves

/-- **`PreambleOK` for emitter-built tables**, under the configuration hypothesis
`PreamblesPlain body`. -/
theorem scriptChunks_preambleOK (body : List Stmt) (chunks : List Chunk) (hpl : PreamblesPlain body)
    (h : scriptChunks body = .ok chunks) : RenderSim.PreambleOK chunks := by
  intro c hc t e f p hb hpre
  exact scriptChunks_leaves body chunks hpl h c hc t e f hb p hpre

/-! ### non-vacuity -/

def flagF : OpExpr := { type := .FLAG, operator := .EQ, cmpValue := "TRUE", operand := { lit := "F" } }

/-- a command, an `if` on a flag, and — as the last statement — a `switch` without `default`
(so its chunk has neither default nor return chunk), whose second case ends in `break` -/
def e2eBody : List Stmt :=
  [ cmdS "lock",
    .ite {} (.leaf flagF) [cmdS "msgbox"] [] none,
    .switch_ {} 1 { lit := "VAR_X" } [({ lit := "1" }, false, [cmdS "b"]),
                      ({ lit := "2" }, false, [cmdS "c", .brk {} 1])] ]

def e2eTable : List Chunk :=
  [ { id := 6, statements := [cmdS "c"], branch := .breakCtx none },
    { id := 5, statements := [cmdS "b"] },
    { id := 4, branch := .switch_ { lit := "VAR_X" }
        [{ value := { lit := "1" }, dest := 5 }, { value := { lit := "2" }, dest := 6 }] none none },
    { id := 3, branch := .leaf 2 flagF (some 1) },
    { id := 2, returnID := some 1, statements := [cmdS "msgbox"] },
    { id := 1, branch := .jump 4 },
    { id := 0, returnID := some 1, statements := [cmdS "lock"], branch := .jump 3 } ]

theorem e2eTable_ok : scriptChunks e2eBody = .ok e2eTable := rfl

theorem e2e_plain : PreamblesPlain e2eBody := by
  unfold PreamblesPlain e2eBody
  simp [LeavesL, LeavesS, LeavesE, LeavesC, CondLeaves, leavesOf, PlainLeaf, flagF, cmdS]

example : RenderSim.Closed e2eTable := scriptChunks_closed _ _ e2eTable_ok
example : RenderSim.PreambleOK e2eTable := scriptChunks_preambleOK _ _ e2e_plain e2eTable_ok

/-- the table really contains a `switch` chunk without default and return chunk (id 4); the
successor id 5 is its first case body and nobody's tail -/
example : ∃ c ∈ e2eTable, ∃ op cases, c.branch = .switch_ op cases none none ∧ c.id = 4 ∧
    ∃ d ∈ e2eTable.map (·.id), c.id < d ∧ ∀ c' ∈ e2eTable, tailId c' ≠ some d := by
  refine ⟨{ id := 4, branch := .switch_ { lit := "VAR_X" } [{ value := { lit := "1" }, dest := 5 }, { value := { lit := "2" }, dest := 6 }] none none },
    by simp [e2eTable], _, _, rfl, rfl, ?_⟩
  exact scriptChunks_switch_facts _ _ e2eTable_ok _ (by simp [e2eTable]) _ _ rfl

#print axioms scriptChunks_closed
#print axioms scriptChunks_switch_facts
#print axioms scriptChunks_switchNotLast
#print axioms scriptChunks_preambleOK

end Pory.Emit
