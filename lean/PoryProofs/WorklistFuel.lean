import PoryProofs.WorklistBuild
/-
The fuel given to the worklist loop in `scriptChunks` is always sufficient.

Measure: every queued chunk `c` weighs `stmtsSize c.statements + 1`, and `qmeasure q` is the total
weight of the queue.  One iteration of `runWorklist` pops the head chunk `p` (weight
`stmtsSize p.statements + 1`) and `processChunk` queues new chunks whose total weight is at most
`stmtsSize p.statements` (`processChunk_measure`), so `qmeasure` of the queue strictly decreases
with every iteration; a fuel greater than the measure therefore never runs out
(`runWorklist_fuel`).  `scriptChunks` starts with measure `stmtsSize body + 1` and fuel
`2 * stmtsSize body + 4` (`scriptChunks_fuel`).

The per-builder accounting (weights of the chunks queued by a builder):
* `splitChunkForBranch` / `keepStatementsAfterJump`: at most `stmtsSize rest + 1`;
* `splitBool e`: exactly `condSize e` (helper chunks have no statements, so weigh 1 each);
* `splitElifs`: at most the sum of `condSize` of the elif conditions;
* `createIf`, `createWhile`, `createDoWhile`, `createSwitch`: at most
  `stmtSize x + stmtsSize rest` where `x` is the statement (in fact at most one less).
Besides, no builder ever reports `.outOfFuel` itself (`processChunk_nofuel`).
-/
namespace Pory.Emit
open Pory

/-! ### the measure -/

/-- total weight of a queue: `stmtsSize c.statements + 1` per chunk -/
def qmeasure : List Chunk → Nat
  | [] => 0
  | c :: r => (stmtsSize c.statements + 1) + qmeasure r

theorem qmeasure_nil : qmeasure [] = 0 := rfl

theorem qmeasure_cons (c : Chunk) (r : List Chunk) :
    qmeasure (c :: r) = (stmtsSize c.statements + 1) + qmeasure r := rfl

theorem qmeasure_append (a b : List Chunk) : qmeasure (a ++ b) = qmeasure a + qmeasure b := by
  induction a with
  | nil => simp [qmeasure]
  | cons c r ih => simp only [List.cons_append, qmeasure_cons, ih]; omega

theorem qmeasure_eq_sum (q : List Chunk) :
    qmeasure q = (q.map (fun c => stmtsSize c.statements + 1)).sum := by
  induction q with
  | nil => rfl
  | cons c r ih => simp [qmeasure_cons, ih]

theorem qmeasure_modify (f : Chunk → Chunk) (hf : ∀ c, (f c).statements = c.statements) :
    ∀ (q : List Chunk) (n : Nat), qmeasure (q.modify n f) = qmeasure q := by
  intro q
  induction q with
  | nil => intro n; simp
  | cons c r ih =>
    intro n
    cases n with
    | zero => simp [qmeasure_cons, hf]
    | succ n => simp [qmeasure_cons, ih]

/-- setting the `branch` of a queued chunk does not change the measure -/
theorem qmeasure_modify_branch (br : Branch) (q : List Chunk) (n : Nat) :
    qmeasure (q.modify n fun ch => { ch with branch := br }) = qmeasure q :=
  qmeasure_modify (fun ch => { ch with branch := br }) (fun _ => rfl) q n

/-! ### unfolding lemmas for the size functions -/

theorem stmtsSize_nil : stmtsSize [] = 0 := rfl
theorem stmtsSize_cons (s : Stmt) (r : List Stmt) : stmtsSize (s :: r) = stmtSize s + stmtsSize r := rfl
theorem stmtSize_ite (t : Tok) (c : BoolExpr) (b : List Stmt) (es : List (BoolExpr × List Stmt))
    (e : Option (List Stmt)) : stmtSize (.ite t c b es e) =
      3 + condSize c + stmtsSize b + elifsSize es + (match e with | some l => stmtsSize l + 1 | none => 0) := by
  cases e <;> rfl
theorem stmtSize_while (t : Tok) (sid : Nat) (c : Option BoolExpr) (b : List Stmt) :
    stmtSize (.while_ t sid c b) = 4 + (match c with | some e => condSize e | none => 0) + stmtsSize b := by
  cases c <;> rfl
theorem stmtSize_doWhile (t : Tok) (sid : Nat) (c : BoolExpr) (b : List Stmt) :
    stmtSize (.doWhile t sid c b) = 4 + condSize c + stmtsSize b := rfl
theorem stmtSize_brk (t : Tok) (sid : Nat) : stmtSize (.brk t sid) = 2 := rfl
theorem stmtSize_cont (t : Tok) (sid : Nat) : stmtSize (.cont t sid) = 2 := rfl
theorem stmtSize_switch (t : Tok) (sid : Nat) (o : Tok) (cs : List SwitchCase) :
    stmtSize (.switch_ t sid o cs) = 4 + casesSize cs := rfl
theorem elifsSize_nil : elifsSize [] = 0 := rfl
theorem elifsSize_cons (c : BoolExpr) (b : List Stmt) (r : List (BoolExpr × List Stmt)) :
    elifsSize ((c, b) :: r) = 2 + condSize c + stmtsSize b + elifsSize r := rfl
theorem casesSize_nil : casesSize [] = 0 := rfl
theorem casesSize_cons (v : Tok) (d : Bool) (b : List Stmt) (r : List SwitchCase) :
    casesSize ((v, d, b) :: r) = 2 + stmtsSize b + casesSize r := rfl

theorem stmtsSize_append (a b : List Stmt) : stmtsSize (a ++ b) = stmtsSize a + stmtsSize b := by
  induction a with
  | nil => simp [stmtsSize_nil]
  | cons s r ih => simp only [List.cons_append, stmtsSize_cons, ih]; omega

/-! ### `splitChunkForBranch`, `keepStatementsAfterJump` -/

theorem splitChunk_measure (c : Chunk) (i : Nat) (s : WS) :
    qmeasure (splitChunkForBranch c i s).1.queue ≤
      qmeasure s.queue + stmtsSize (c.statements.drop (i + 1)) + 1 := by
  unfold splitChunkForBranch
  split
  · simp only; omega
  · simp only [qmeasure_append, qmeasure_cons, qmeasure_nil]; omega

theorem keepStatementsAfterJump_measure (c : Chunk) (i : Nat) (s : WS) :
    qmeasure (keepStatementsAfterJump c i s).queue ≤
      qmeasure s.queue + stmtsSize (c.statements.drop (i + 1)) + 1 := by
  rw [keepStatementsAfterJump_eq]; exact splitChunk_measure c i s

/-! ### `splitBool` -/

theorem splitBool_measure (e : BoolExpr) : ∀ (succ : Nat) (fail : Option Nat) (s s' : WS) (entry : Nat),
    splitBool e succ fail s = .ok (s', entry) → qmeasure s'.queue = qmeasure s.queue + condSize e := by
  induction e with
  | leaf x =>
    intro succ fail s s' entry h
    simp only [splitBool, Except.ok.injEq, Prod.mk.injEq] at h
    obtain ⟨rfl, _⟩ := h
    simp only [qmeasure_append, qmeasure_cons, qmeasure_nil, stmtsSize_nil, condSize]
  | bin l op r ihl ihr =>
    intro succ fail s s' entry h
    rw [splitBool] at h
    have main : ∀ (fl : Option Nat) (sl : Nat) (s2 s3 : WS) (le re : Nat) (jc : Chunk),
        jc.statements = [] →
        splitBool l sl fl { s with counter := s.counter + 1 } = .ok (s2, le) →
        splitBool r succ fail s2 = .ok (s3, re) →
        qmeasure (s3.queue ++ [jc]) = qmeasure s.queue + condSize (.bin l op r) := by
      intro fl sl s2 s3 le re jc hjc hl hr
      have h1 := ihl _ _ _ _ _ hl
      have h2 := ihr _ _ _ _ _ hr
      simp only at h1
      simp only [qmeasure_append, qmeasure_cons, qmeasure_nil, hjc, stmtsSize_nil, condSize, h1, h2]
      omega
    split at h
    · simp only at h
      split at h
      · cases h
      · rename_i s2 le hl
        split at h
        · cases h
        · rename_i s3 re hr
          simp only [Except.ok.injEq, Prod.mk.injEq] at h
          obtain ⟨rfl, _⟩ := h
          exact main _ _ _ _ _ _ _ rfl hl hr
    · split at h
      · simp only at h
        split at h
        · cases h
        · rename_i s2 le hl
          split at h
          · cases h
          · rename_i s3 re hr
            simp only [Except.ok.injEq, Prod.mk.injEq] at h
            obtain ⟨rfl, _⟩ := h
            exact main _ _ _ _ _ _ _ rfl hl hr
      · cases h

theorem splitBool_nofuel (e : BoolExpr) : ∀ (succ : Nat) (fail : Option Nat) (s : WS),
    splitBool e succ fail s ≠ .error .outOfFuel := by
  induction e with
  | leaf x => intro succ fail s h; simp [splitBool] at h
  | bin l op r ihl ihr =>
    intro succ fail s h
    rw [splitBool] at h
    split at h
    · simp only at h
      split at h
      · rename_i e he
        injection h with h; subst h
        exact ihl _ _ _ he
      · split at h
        · rename_i e he
          injection h with h; subst h
          exact ihr _ _ _ he
        · cases h
    · split at h
      · simp only at h
        split at h
        · rename_i e he
          injection h with h; subst h
          exact ihl _ _ _ he
        · split at h
          · rename_i e he
            injection h with h; subst h
            exact ihr _ _ _ he
          · cases h
      · cases h

/-! ### `splitElifs` -/

/-- sum of the `condSize` of the elif conditions -/
def elifCondSize : List (BoolExpr × List Stmt) → Nat
  | [] => 0
  | e :: r => condSize e.1 + elifCondSize r

/-- total weight of the body chunks of the elif arms -/
def armBodySize : List (BoolExpr × List Stmt) → Nat
  | [] => 0
  | e :: r => (stmtsSize e.2 + 1) + armBodySize r

theorem elifsSize_split : ∀ (es : List (BoolExpr × List Stmt)),
    elifCondSize es + armBodySize es ≤ elifsSize es := by
  intro es
  induction es with
  | nil => simp [elifCondSize, armBodySize]
  | cons e r ih =>
    obtain ⟨c, b⟩ := e
    simp only [elifCondSize, armBodySize, elifsSize_cons]; omega

theorem splitElifs_measure (lastFail : Option Nat) :
    ∀ (elifs : List (BoolExpr × List Stmt)) (ids : List Nat) (s s' : WS) (r : Option Nat),
    splitElifs elifs ids lastFail s = .ok (s', r) →
    qmeasure s'.queue ≤ qmeasure s.queue + elifCondSize elifs := by
  intro elifs
  induction elifs with
  | nil =>
    intro ids s s' r h
    simp only [splitElifs, Except.ok.injEq, Prod.mk.injEq] at h
    obtain ⟨rfl, _⟩ := h
    omega
  | cons a restE ih =>
    intro ids s s' r h
    obtain ⟨c, b0⟩ := a
    cases ids with
    | nil =>
      simp only [splitElifs, Except.ok.injEq, Prod.mk.injEq] at h
      obtain ⟨rfl, _⟩ := h
      omega
    | cons id restI =>
      rw [splitElifs] at h
      split at h
      · cases h
      · rename_i s1 nextEntry h1
        split at h
        · cases h
        · rename_i s2 entry h2
          simp only [Except.ok.injEq, Prod.mk.injEq] at h
          obtain ⟨rfl, _⟩ := h
          have e1 := ih restI s s1 nextEntry h1
          have e2 := splitBool_measure c id nextEntry s1 s2 entry h2
          simp only [elifCondSize]; omega

theorem splitElifs_nofuel (lastFail : Option Nat) :
    ∀ (elifs : List (BoolExpr × List Stmt)) (ids : List Nat) (s : WS),
    splitElifs elifs ids lastFail s ≠ .error .outOfFuel := by
  intro elifs
  induction elifs with
  | nil => intro ids s h; simp [splitElifs] at h
  | cons a restE ih =>
    intro ids s h
    obtain ⟨c, b0⟩ := a
    cases ids with
    | nil => simp [splitElifs] at h
    | cons id restI =>
      rw [splitElifs] at h
      split at h
      · rename_i e he
        injection h with h; subst h
        exact ih _ _ he
      · split at h
        · rename_i e he
          injection h with h; subst h
          exact splitBool_nofuel _ _ _ _ he
        · cases h

/-! ### `createIf` -/

theorem armChunks_measure (ret : Option Nat) : ∀ (arms : List (BoolExpr × List Stmt)) (n : Nat),
    qmeasure (armChunks ret n arms) = armBodySize arms := by
  intro arms
  induction arms with
  | nil => intro n; rfl
  | cons e r ih => intro n; simp only [armChunks, qmeasure_cons, armBodySize, ih]

theorem pushNew_measure (s : WS) (ret : Option Nat) (st : List Stmt) :
    qmeasure (pushNew s ret st).queue = qmeasure s.queue + (stmtsSize st + 1) := by
  simp only [pushNew, qmeasure_append, qmeasure_cons, qmeasure_nil, Nat.add_zero]

theorem elseStep_measure (post : Option Nat) (a : WS) (els : Option (List Stmt)) :
    qmeasure (elseStep post a els).1.queue =
      qmeasure a.queue + (match els with | some l => stmtsSize l + 1 | none => 0) := by
  cases els with
  | none => simp only [elseStep]; omega
  | some st => simp only [elseStep, pushNew_measure]

theorem ifTail_measure (cond : BoolExpr) (elifs : List (BoolExpr × List Stmt)) (ids : List Nat)
    (consId : Nat) (post : Option Nat) (e : WS × Option Nat) (s' : WS) (br : Branch) (ret : Option Nat)
    (h : ifTail cond elifs ids consId post e = .ok (s', br, ret)) :
    qmeasure s'.queue ≤ qmeasure e.1.queue + elifCondSize elifs + condSize cond := by
  unfold ifTail at h
  split at h
  · cases h
  · rename_i s1 afterCons h1
    split at h
    · cases h
    · rename_i s2 entry h2
      simp only [Except.ok.injEq, Prod.mk.injEq] at h
      obtain ⟨rfl, _⟩ := h
      have e1 := splitElifs_measure _ _ _ _ _ _ h1
      have e2 := splitBool_measure _ _ _ _ _ _ h2
      omega

theorem ifTail_nofuel (cond : BoolExpr) (elifs : List (BoolExpr × List Stmt)) (ids : List Nat)
    (consId : Nat) (post : Option Nat) (e : WS × Option Nat) :
    ifTail cond elifs ids consId post e ≠ .error .outOfFuel := by
  intro h
  unfold ifTail at h
  split at h
  · rename_i err he
    injection h with h; subst h
    exact splitElifs_nofuel _ _ _ _ he
  · split at h
    · rename_i err he
      injection h with h; subst h
      exact splitBool_nofuel _ _ _ _ he
    · cases h

theorem createIf_measure (tok : Tok) (cond : BoolExpr) (body : List Stmt)
    (elifs : List (BoolExpr × List Stmt)) (els : Option (List Stmt)) (c : Chunk) (i : Nat) (s s' : WS)
    (br : Branch) (ret : Option Nat) (h : createIf cond body elifs els c i s = .ok (s', br, ret)) :
    qmeasure s'.queue + 1 ≤
      qmeasure s.queue + stmtSize (.ite tok cond body elifs els) + stmtsSize (c.statements.drop (i + 1)) := by
  rw [createIf_eq] at h
  have hsp := splitChunk_measure c i s
  generalize splitChunkForBranch c i s = sp at h hsp
  obtain ⟨s0, post⟩ := sp
  simp only at h hsp
  rw [foldl_armStep] at h
  simp only [List.nil_append] at h
  have h1 := ifTail_measure _ _ _ _ _ _ _ _ _ h
  rw [elseStep_measure] at h1
  simp only [qmeasure_append, armChunks_measure, pushNew_measure] at h1
  have h2 := elifsSize_split elifs
  rw [stmtSize_ite]
  omega

theorem createIf_nofuel (cond : BoolExpr) (body : List Stmt) (elifs : List (BoolExpr × List Stmt))
    (els : Option (List Stmt)) (c : Chunk) (i : Nat) (s : WS) :
    createIf cond body elifs els c i s ≠ .error .outOfFuel := by
  rw [createIf_eq]; exact ifTail_nofuel _ _ _ _ _ _

/-! ### loops -/

theorem createWhile_measure (tok : Tok) (sid : Nat) (cond : Option BoolExpr) (body : List Stmt) (c : Chunk)
    (i : Nat) (s s' : WS) (br : Branch) (ret : Option Nat) (contId : Nat)
    (h : createWhile cond body c i s = .ok (s', br, ret, contId)) :
    qmeasure s'.queue + 1 ≤
      qmeasure s.queue + stmtSize (.while_ tok sid cond body) + stmtsSize (c.statements.drop (i + 1)) := by
  unfold createWhile at h
  simp only [alloc] at h
  have hsp := splitChunk_measure c i s
  generalize splitChunkForBranch c i s = sp at h hsp
  obtain ⟨s0, post⟩ := sp
  simp only at h hsp
  rw [stmtSize_while]
  cases cond with
  | none =>
    simp only [Except.ok.injEq, Prod.mk.injEq] at h
    obtain ⟨rfl, _⟩ := h
    simp only [qmeasure_append, qmeasure_cons, qmeasure_nil, stmtsSize_nil]
    omega
  | some e =>
    simp only at h
    split at h
    · cases h
    · rename_i s3 entry h3
      simp only [Except.ok.injEq, Prod.mk.injEq] at h
      obtain ⟨rfl, _⟩ := h
      have e3 := splitBool_measure _ _ _ _ _ _ h3
      simp only at e3
      simp only [qmeasure_append, qmeasure_cons, qmeasure_nil, stmtsSize_nil]
      omega

theorem createWhile_nofuel (cond : Option BoolExpr) (body : List Stmt) (c : Chunk) (i : Nat) (s : WS) :
    createWhile cond body c i s ≠ .error .outOfFuel := by
  intro h
  unfold createWhile at h
  simp only [alloc] at h
  generalize splitChunkForBranch c i s = sp at h
  obtain ⟨s0, post⟩ := sp
  simp only at h
  cases cond with
  | none => cases h
  | some e =>
    simp only at h
    split at h
    · rename_i err he
      injection h with h; subst h
      exact splitBool_nofuel _ _ _ _ he
    · cases h

theorem createDoWhile_measure (tok : Tok) (sid : Nat) (cond : BoolExpr) (body : List Stmt) (c : Chunk)
    (i : Nat) (s s' : WS) (br : Branch) (ret : Option Nat) (contId : Nat)
    (h : createDoWhile cond body c i s = .ok (s', br, ret, contId)) :
    qmeasure s'.queue + 1 ≤
      qmeasure s.queue + stmtSize (.doWhile tok sid cond body) + stmtsSize (c.statements.drop (i + 1)) := by
  unfold createDoWhile at h
  simp only [alloc] at h
  have hsp := splitChunk_measure c i s
  generalize splitChunkForBranch c i s = sp at h hsp
  obtain ⟨s0, post⟩ := sp
  simp only at h hsp
  rw [stmtSize_doWhile]
  split at h
  · cases h
  · rename_i s3 entry h3
    simp only [Except.ok.injEq, Prod.mk.injEq] at h
    obtain ⟨rfl, _⟩ := h
    have e3 := splitBool_measure _ _ _ _ _ _ h3
    simp only at e3
    simp only [qmeasure_append, qmeasure_cons, qmeasure_nil, stmtsSize_nil]
    omega

theorem createDoWhile_nofuel (cond : BoolExpr) (body : List Stmt) (c : Chunk) (i : Nat) (s : WS) :
    createDoWhile cond body c i s ≠ .error .outOfFuel := by
  intro h
  unfold createDoWhile at h
  simp only [alloc] at h
  generalize splitChunkForBranch c i s = sp at h
  obtain ⟨s0, post⟩ := sp
  simp only at h
  split at h
  · rename_i err he
    injection h with h; subst h
    exact splitBool_nofuel _ _ _ _ he
  · cases h

/-! ### `switch` -/

theorem switchBodies_measure (ret : Option Nat) : ∀ (cases : List SwitchCase) (s : WS),
    qmeasure (switchBodies ret cases s).1.queue ≤ qmeasure s.queue + casesSize cases := by
  intro cases
  induction cases with
  | nil => intro s; simp only [switchBodies]; omega
  | cons c r ih =>
    intro s
    obtain ⟨v, d, body⟩ := c
    rw [casesSize_cons]
    by_cases hb : body.length > 0
    · rw [switchBodies_cons_pos ret v d body r s hb]
      have := ih (pushNew s ret body)
      rw [pushNew_measure] at this
      simp only; omega
    · rw [switchBodies_cons_neg ret v d body r s hb]
      have := ih s
      simp only; omega

theorem pushEmpty_measure (s : WS) (post : Option Nat) :
    qmeasure (pushEmpty s post).queue = qmeasure s.queue + 1 := by
  simp only [pushEmpty, qmeasure_append, qmeasure_cons, qmeasure_nil, stmtsSize_nil]

theorem emptyStep_measure (post : Option Nat) (need : Bool) (s : WS) :
    qmeasure (emptyStep post need s).1.queue ≤ qmeasure s.queue + 1 := by
  unfold emptyStep
  cases need with
  | false => simp
  | true => simp only [if_true, qmeasure_append, qmeasure_cons, qmeasure_nil, stmtsSize_nil]; omega

theorem switchTail_measure (operand : Tok) (cases : List SwitchCase) (post : Option Nat) (qlen swId : Nat)
    (sb : WS × List (Option Nat)) :
    qmeasure (switchTail operand cases post qlen swId sb).1.queue ≤ qmeasure sb.1.queue + 1 := by
  unfold switchTail
  split
  · simp only; omega
  · simp only
    rw [qmeasure_modify_branch]
    exact emptyStep_measure _ _ _

theorem createSwitch_measure (tok : Tok) (sid : Nat) (operand : Tok) (cases : List SwitchCase) (c : Chunk)
    (i : Nat) (s : WS) :
    qmeasure (createSwitch operand cases c i s).1.queue + 1 ≤
      qmeasure s.queue + stmtSize (.switch_ tok sid operand cases) + stmtsSize (c.statements.drop (i + 1)) := by
  rw [createSwitch_eq]
  have hsp := splitChunk_measure c i s
  generalize splitChunkForBranch c i s = sp at hsp
  obtain ⟨s0, post⟩ := sp
  simp only at hsp ⊢
  have h1 := switchTail_measure operand cases post s0.queue.length (s0.counter + 1)
    (switchBodies post cases (pushEmpty s0 post))
  have h2 := switchBodies_measure post cases (pushEmpty s0 post)
  rw [pushEmpty_measure] at h2
  rw [stmtSize_switch]
  omega

/-! ### one step of the worklist -/

theorem setFinal_queue (s : WS) (c : Chunk) : (s.setFinal c).queue = s.queue := rfl

theorem scan_facts' (p : Chunk) (i : Nat) (fin : Option Bool)
    (h : scanSimple p.statements 0 p.statements.length = (i, fin)) :
    ∃ pre rest, p.statements = pre ++ rest ∧ i = pre.length ∧
      ((fin = none ∧ (rest = [] ∨ ∃ x r, rest = x :: r)) ∨ (∃ b, fin = some b)) := by
  obtain ⟨pre, rest, e1, _, e3, e4⟩ := scanSimple_spec p.statements 0 _ (by simp) i fin h
  refine ⟨pre, rest, e1, by simpa using e3, ?_⟩
  rcases e4 with ⟨hf, hr⟩ | ⟨c, hf, _⟩
  · refine .inl ⟨hf, ?_⟩
    rcases hr with hr | ⟨x, r, hr, _⟩
    · exact .inl hr
    · exact .inr ⟨x, r, hr⟩
  · exact .inr ⟨_, hf⟩

/-- **one worklist step**: the chunks queued while processing `p` weigh at most
`stmtsSize p.statements`, i.e. strictly less than `p` itself (`stmtsSize p.statements + 1`) -/
theorem processChunk_measure (p : Chunk) (st0 st1 : WS) (h : processChunk p st0 = .ok st1) :
    qmeasure st1.queue ≤ qmeasure st0.queue + stmtsSize p.statements := by
  unfold processChunk at h
  generalize hscan : scanSimple p.statements 0 p.statements.length = scn at h
  obtain ⟨i, fin⟩ := scn
  obtain ⟨pre, rest, hst, hi, hcase⟩ := scan_facts' p i fin hscan
  subst hi
  simp only at h
  rcases hcase with ⟨rfl, hrest⟩ | ⟨b, rfl⟩
  · simp only at h
    rcases hrest with rfl | ⟨x, r, rfl⟩
    · have hlen : pre.length = p.statements.length := by rw [hst]; simp
      rw [if_pos (by simp [hlen])] at h
      injection h with h; subst h
      rw [setFinal_queue]; omega
    · have hne : ¬ ((pre.length == p.statements.length) = true) := by rw [hst]; simp
      have hget : p.statements[pre.length]? = some x := by rw [hst]; simp
      have hdrop : p.statements.drop (pre.length + 1) = r := by rw [hst]; simp
      have hsize : stmtsSize p.statements = stmtsSize pre + stmtSize x + stmtsSize r := by
        rw [hst, stmtsSize_append, stmtsSize_cons]; omega
      rw [if_neg hne] at h
      simp only [hget] at h
      cases x with
      | cmd c =>
        simp only at h
        injection h with h; subst h
        rw [setFinal_queue]; omega
      | label t n g =>
        simp only at h
        injection h with h; subst h
        rw [setFinal_queue]; omega
      | ite tok cond body elifs els =>
        simp only at h
        split at h
        · cases h
        · rename_i s1 br ret hc
          injection h with h; subst h
          have := createIf_measure tok cond body elifs els p pre.length st0 s1 br ret hc
          rw [hdrop] at this
          rw [setFinal_queue]; omega
      | while_ tok sid cond body =>
        simp only at h
        split at h
        · cases h
        · rename_i s1 br ret contId hc
          injection h with h; subst h
          have := createWhile_measure tok sid cond body p pre.length st0 s1 br ret contId hc
          rw [hdrop] at this
          simp only [setFinal_queue]; omega
      | doWhile tok sid cond body =>
        simp only at h
        split at h
        · cases h
        · rename_i s1 br ret contId hc
          injection h with h; subst h
          have := createDoWhile_measure tok sid cond body p pre.length st0 s1 br ret contId hc
          rw [hdrop] at this
          simp only [setFinal_queue]; omega
      | brk tok sid =>
        simp only at h
        split at h
        · cases h
        · rename_i dest hl
          injection h with h; subst h
          have := keepStatementsAfterJump_measure p pre.length st0
          rw [hdrop] at this
          rw [setFinal_queue, hsize, stmtSize_brk]; omega
      | cont tok sid =>
        simp only at h
        split at h
        · cases h
        · rename_i dest hl
          injection h with h; subst h
          have := keepStatementsAfterJump_measure p pre.length st0
          rw [hdrop] at this
          rw [setFinal_queue, hsize, stmtSize_cont]; omega
      | switch_ tok sid operand cases =>
        simp only at h
        have := createSwitch_measure tok sid operand cases p pre.length st0
        rw [hdrop] at this
        generalize createSwitch operand cases p pre.length st0 = cs at h this
        obtain ⟨s1, br, ret, swId⟩ := cs
        simp only at h this
        injection h with h; subst h
        simp only [setFinal_queue]; omega
  · simp only at h
    injection h with h; subst h
    rw [setFinal_queue]; omega

/-- `processChunk` never reports `.outOfFuel` itself -/
theorem processChunk_nofuel (p : Chunk) (s : WS) : processChunk p s ≠ .error .outOfFuel := by
  intro h
  unfold processChunk at h
  generalize scanSimple p.statements 0 p.statements.length = scn at h
  obtain ⟨i, fin⟩ := scn
  simp only at h
  split at h
  · cases h
  · split at h
    · cases h
    · split at h
      · split at h
        · rename_i err he
          injection h with h; subst h
          exact createIf_nofuel _ _ _ _ _ _ _ he
        · cases h
      · split at h
        · rename_i err he
          injection h with h; subst h
          exact createWhile_nofuel _ _ _ _ _ he
        · cases h
      · split at h
        · rename_i err he
          injection h with h; subst h
          exact createDoWhile_nofuel _ _ _ _ _ he
        · cases h
      · split at h
        · cases h
        · cases h
      · split at h
        · cases h
        · cases h
      · generalize createSwitch _ _ _ _ _ = cs at h
        obtain ⟨s1, br, ret, swId⟩ := cs
        cases h
      · cases h

/-! ### the whole run -/

theorem runWorklist_succ' (n : Nat) (s : WS) : runWorklist (n + 1) s =
    (match s.queue with
     | [] => .ok s
     | cur :: rest =>
       match processChunk cur { s with queue := rest } with
       | .error e => .error e
       | .ok s' => runWorklist n s') := rfl

/-- **a fuel greater than the measure of the queue never runs out** -/
theorem runWorklist_fuel : ∀ (f : Nat) (st : WS), qmeasure st.queue < f →
    runWorklist f st ≠ .error .outOfFuel := by
  intro f
  induction f with
  | zero => intro st h; omega
  | succ f ih =>
    intro st hlt
    rw [runWorklist_succ']
    cases hq : st.queue with
    | nil => simp
    | cons p q =>
      simp only
      cases hp : processChunk p { st with queue := q } with
      | error e =>
        simp only
        intro he
        injection he with he; subst he
        exact processChunk_nofuel _ _ hp
      | ok st1 =>
        simp only
        apply ih
        have := processChunk_measure p _ st1 hp
        rw [hq, qmeasure_cons] at hlt
        simp only at this
        omega

/-- **the fuel of `scriptChunks` is sufficient** -/
theorem scriptChunks_fuel (body : List Stmt) : scriptChunks body ≠ .error .outOfFuel := by
  intro h
  unfold scriptChunks at h
  split at h
  · rename_i e he
    injection h with h; subst h
    refine runWorklist_fuel _ _ ?_ he
    simp only [qmeasure_cons, qmeasure_nil]
    omega
  · cases h

/-- the initial measure and the fuel, on a concrete non-trivial body -/
example : qmeasure ({ queue := [{ id := 0, statements := [.brk default 0, .cont default 0] }] } : WS).queue = 5 := by
  decide

/-- `runWorklist_fuel` with its hypothesis discharged on a concrete queue (measure 5, fuel 6) -/
example : runWorklist 6 { queue := [{ id := 0, statements := [.brk default 0, .cont default 0] }] } ≠
    .error .outOfFuel :=
  runWorklist_fuel _ _ (by decide)

#print axioms processChunk_measure
#print axioms runWorklist_fuel
#print axioms scriptChunks_fuel

end Pory.Emit
