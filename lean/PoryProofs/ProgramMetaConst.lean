import PoryProofs.ProgramMetaSel
import PoryProofs.ProgramMetaErase
import PoryProofs.Properties.C13c
/-
P2c helpers, part 3 (C13 for whole files): a file with `const` statements and the hand-expanded file without.

* `expandTopsFrom wt` / `expandTops` — the `const` statements dropped; in every LATER statement every use site
  replaced by the tokens of the (fully expanded) value: script bodies by C13c's `expandB wt` (command arguments,
  condition operands / comparison values, switch operands, case values), mart items by `expandToks wt`; `wt` =
  the word table of the constants defined so far (`C13b.newWords`: values are stored fully expanded). Movement
  steps, names, raw / text statements are not sites (the model does not substitute there: `stepTop`).
* `ConstsOKFrom wt` — the side condition: const names are new, values are non-empty lists of tokens with
  non-empty literals (then no `const` statement fails and the stored value is the single-space join of its
  words), and a mart item that names a constant names one whose value is ONE word (see `P2c.lean`: a
  multi-word value is ONE `.2byte` line, its expansion several).
* `ExpInv wt a b` — the original run (state `a`, constants `render wt`) and the run on the expanded file (state
  `b`, no constants) agree on everything else.
* `elabTops_exp` — the file elaboration: the same error, or statements that agree up to `EraseTop` (script
  bodies up to C13c's `eraseL`; mart token lists up to their line numbers).
* `post_exp` — the post-passes and the emitter give the same result (`emitScript_erase`).
-/
namespace Pory.P2c
open Pory Pory.Parser Pory.C02P Pory.StmtG Pory.TopParse Pory.Emit Pory.P2
open Pory.C12c Pory.C13b Pory.C13c

/-! ### the hand-expanded file -/

def expandTopsFrom : WTable → List STop → List STop
  | _, [] => []
  | wt, .const _ name _ vs :: r => expandTopsFrom ((name.lit, newWords wt vs) :: wt) r
  | wt, .script kw md name lb body rb :: r => .script kw md name lb (expandB wt body) rb :: expandTopsFrom wt r
  | wt, .mart kw md name lb items rb :: r => .mart kw md name lb (expandToks wt items) rb :: expandTopsFrom wt r
  | wt, .raw kw v :: r => .raw kw v :: expandTopsFrom wt r
  | wt, .movement kw md name lb items rb :: r => .movement kw md name lb items rb :: expandTopsFrom wt r
  | wt, .text kw md name lb v rb :: r => .text kw md name lb v rb :: expandTopsFrom wt r

/-- **The hand-expanded file**: no `const` statements, every later use replaced by the value's tokens. -/
def expandTops (ts : List STop) : List STop := expandTopsFrom [] ts

/-- The side condition on the `const` statements and on the mart items of a file. -/
def ConstsOKFrom : WTable → List STop → Prop
  | _, [] => True
  | wt, .const _ name _ vs :: r =>
      wt.lookup name.lit = none ∧ vs ≠ [] ∧ (∀ v ∈ vs, v.lit ≠ "") ∧
        ConstsOKFrom ((name.lit, newWords wt vs) :: wt) r
  | wt, .mart _ _ _ _ items _ :: r => (∀ t ∈ items, (wordsOf wt t.lit).length = 1) ∧ ConstsOKFrom wt r
  | wt, .script .. :: r => ConstsOKFrom wt r
  | wt, .raw .. :: r => ConstsOKFrom wt r
  | wt, .movement .. :: r => ConstsOKFrom wt r
  | wt, .text .. :: r => ConstsOKFrom wt r

def decConstsOKFrom : (wt : WTable) → (ts : List STop) → Decidable (ConstsOKFrom wt ts)
  | _, [] => isTrue trivial
  | wt, .const _ name _ vs :: r =>
    have := decConstsOKFrom ((name.lit, newWords wt vs) :: wt) r
    by unfold ConstsOKFrom; exact inferInstance
  | wt, .mart _ _ _ _ items _ :: r =>
    have := decConstsOKFrom wt r
    by unfold ConstsOKFrom; exact inferInstance
  | wt, .script .. :: r => by unfold ConstsOKFrom; exact decConstsOKFrom wt r
  | wt, .raw .. :: r => by unfold ConstsOKFrom; exact decConstsOKFrom wt r
  | wt, .movement .. :: r => by unfold ConstsOKFrom; exact decConstsOKFrom wt r
  | wt, .text .. :: r => by unfold ConstsOKFrom; exact decConstsOKFrom wt r
instance (wt : WTable) (ts : List STop) : Decidable (ConstsOKFrom wt ts) := decConstsOKFrom wt ts

/-- … for a whole file. -/
def ConstsOK (ts : List STop) : Prop := ConstsOKFrom [] ts
instance (ts : List STop) : Decidable (ConstsOK ts) := by unfold ConstsOK; exact inferInstance

/-! ### the invariant -/

structure ExpInv (wt : WTable) (a b : PState) : Prop where
  ca : a.constants = render wt
  cb : b.constants = []
  ok : WordsOK wt
  bs : b.breakStack = a.breakStack
  cs : b.continueStack = a.continueStack
  sid : b.nextSid = a.nextSid
  cid : b.nextCmdId = a.nextCmdId
  hoist : Hoist domAll a b
  texts : b.inlineTexts = a.inlineTexts
  moves : b.inlineMovements = a.inlineMovements
  stmts : b.textStatements = a.textStatements
  patches : b.patches = a.patches

theorem expInv_init (eofT : Tok) : ExpInv [] (initState eofT) (initState eofT) :=
  ⟨rfl, rfl, (fun _ h => nomatch h), rfl, rfl, rfl, rfl,
    ⟨fun _ _ => rfl, fun _ _ => rfl, fun _ _ => rfl, fun _ _ => rfl⟩, rfl, rfl, rfl, rfl⟩

/-- The identity correspondence. -/
def renEq : Ren := { c := Eq, s := Eq }

theorem all2_refl {α : Type} {P : α → α → Prop} (h : ∀ a, P a a) : ∀ (l : List α), All2 P l l
  | [] => trivial
  | x :: r => ⟨h x, all2_refl h r⟩

theorem relImp_renEq (m : ImpData) : relImp renEq m m :=
  ⟨all2_refl (fun _ => ⟨rfl, rfl, rfl, rfl, rfl⟩) _, all2_refl (fun _ => ⟨rfl, rfl, rfl, rfl, rfl⟩) _⟩

theorem all2_relPatch_eq : ∀ {l' l : List ((Nat × Nat) × String)}, All2 (relPatch renEq) l' l → l' = l
  | [], [], _ => rfl
  | p' :: r', p :: r, h => by
    obtain ⟨⟨h1, h2, h3⟩, hr⟩ := h
    have : p' = p := by
      obtain ⟨⟨a', b'⟩, c'⟩ := p'
      obtain ⟨⟨a, b⟩, c⟩ := p
      simp only [renEq] at h1 h2 h3
      subst h1 h2 h3
      rfl
    rw [this, all2_relPatch_eq hr]
  | [], _ :: _, h => h.elim
  | _ :: _, [], h => h.elim

/-! ### the statements agree up to erased token types -/

inductive EraseTop : Top → Top → Prop
  | script {s' s : Script} : s'.tok = s.tok → s'.name = s.name → s'.scope = s.scope →
      eraseL s'.body = eraseL s.body → EraseTop (.script s') (.script s)
  | mart (kw : Tok) (name : String) {items' items : List Tok} (strs : List String) (scope : TT) :
      items'.map (·.line) = items.map (·.line) →
      EraseTop (.mart kw name items' strs scope) (.mart kw name items strs scope)
  | same (t : Top) : Top.plain t = true → EraseTop t t

/-! ### one `const` statement -/

theorem const_step (wt : WTable) (hok : WordsOK wt) (vs : List Tok) (hne : vs ≠ [])
    (hlit : ∀ v ∈ vs, v.lit ≠ "") :
    constAcc (render wt) vs "" = joinSp (newWords wt vs) ∧ constAcc (render wt) vs "" ≠ "" ∧
      ∀ n, WordsOK ((n, newWords wt vs) :: wt) := by
  have hw : ∀ v ∈ vs, wordsOf wt v.lit ≠ [] ∧ ∀ x ∈ wordsOf wt v.lit, x ≠ "" :=
    fun v hv => wordsOf_ok wt hok v.lit (hlit v hv)
  have hlit' : ∀ v ∈ vs, substC (render wt) v.lit ≠ "" := by
    intro v hv
    rw [substC_render]
    exact joinSp_ne_empty _ (hw v hv).1 (hw v hv).2
  have hacc : constAcc (render wt) vs "" = joinSp (vs.map fun v => substC (render wt) v.lit) :=
    foldl_sbAdd _ (by simpa using hlit')
  refine ⟨by rw [hacc, value_eq_words wt hok vs hlit], ?_, ?_⟩
  · rw [hacc]
    exact joinSp_ne_empty _ (by simpa using hne) (by simpa using hlit')
  · intro n e he
    rcases List.mem_cons.mp he with rfl | he
    · constructor
      · obtain ⟨v, l, rfl⟩ := List.exists_cons_of_ne_nil hne
        simp only [newWords, List.flatMap_cons]
        have := (hw v (by simp)).1
        simp [this]
      · intro w hwm
        simp only [newWords, List.mem_flatMap] at hwm
        obtain ⟨v, hv, hx⟩ := hwm
        exact (hw v hv).2 w hx
    · exact hok e he

/-! ### mart items -/

theorem expandTok_single (wt : WTable) (t : Tok) (h : (wordsOf wt t.lit).length = 1) :
    ∃ x, expandTok wt t = [x] ∧ x.line = t.line ∧ x.lit = substC (render wt) t.lit := by
  rw [substC_render]
  unfold expandTok
  unfold wordsOf at h ⊢
  cases hl : wt.lookup t.lit with
  | none => exact ⟨t, rfl, rfl, by simp [joinSp_one]⟩
  | some ws =>
    rw [hl] at h
    simp only [Option.getD_some] at h ⊢
    match ws, h with
    | [w], _ => exact ⟨wordTok t w, rfl, rfl, by simp [joinSp_one, wordTok]⟩

theorem mart_items (wt : WTable) : ∀ (items : List Tok), (∀ t ∈ items, (wordsOf wt t.lit).length = 1) →
    (expandToks wt items).map (fun t => substC [] t.lit) = items.map (fun t => substC (render wt) t.lit) ∧
      (expandToks wt items).map (·.line) = items.map (·.line)
  | [], _ => ⟨rfl, rfl⟩
  | t :: r, h => by
    obtain ⟨x, hx, hline, hlit⟩ := expandTok_single wt t (h t (List.mem_cons_self ..))
    obtain ⟨ih1, ih2⟩ := mart_items wt r (fun y hy => h y (List.mem_cons_of_mem _ hy))
    unfold expandToks at ih1 ih2 ⊢
    simp only [List.flatMap_cons, hx, List.singleton_append, List.map_cons, ih1, ih2, hline, ← hlit]
    first | trivial | exact ⟨rfl, rfl⟩

/-! ### a whole file -/

theorem ctxOf_exp {wt : WTable} {a b : PState} (h : ExpInv wt a b) :
    ctxOf a = { ctxOf a with consts := render wt } ∧ ctxOf b = { ctxOf a with consts := [] } := by
  constructor
  · simp only [ctxOf, h.ca]
  · simp only [ctxOf, h.cb, h.sid, h.cid, h.bs, h.cs]

theorem elabTops_exp (env : Env) : ∀ (ts : List STop) {wt : WTable} {a b : PState}, ExpInv wt a b →
    ConstsOKFrom wt ts →
    match elabTops env ts a with
    | .error e => elabTops env (expandTopsFrom wt ts) b = .error e
    | .ok (tops, a1) =>
      ∃ tops' b1 wt1, elabTops env (expandTopsFrom wt ts) b = .ok (tops', b1) ∧ ExpInv wt1 a1 b1 ∧
        All2 EraseTop tops' tops
  | [], wt, a, b, h, _ => ⟨[], b, wt, rfl, h, trivial⟩
  | .const kw name eq vs :: r, wt, a, b, h, hok => by
    obtain ⟨hnew, hne, hlit, hok'⟩ := hok
    obtain ⟨hacc, hval, hw⟩ := const_step wt h.ok vs hne hlit
    have hdup : ((render wt).lookup name.lit).isSome = false := by
      rw [render_lookup, hnew]; rfl
    simp only [elabTops, stepTop, h.ca, hdup, hval, Bool.false_eq_true, if_false]
    have h1 : ExpInv ((name.lit, newWords wt vs) :: wt)
        { a with constants := (name.lit, constAcc (render wt) vs "") :: render wt } b :=
      ⟨by simp only [hacc]; rfl, h.cb, hw _, h.bs, h.cs, h.sid, h.cid,
        ⟨h.hoist.ts, h.hoist.tc, h.hoist.ms, h.hoist.mc⟩, h.texts, h.moves, h.stmts, h.patches⟩
    have ih := elabTops_exp env r h1 hok'
    simp only [expandTopsFrom]
    cases he : elabTops env r { a with constants := (name.lit, constAcc (render wt) vs "") :: render wt } with
    | error e => rw [he] at ih; simpa using ih
    | ok q =>
      rw [he] at ih
      obtain ⟨tops', b1, wt1, e1, inv1, rel1⟩ := ih
      exact ⟨tops', b1, wt1, e1, inv1, by simpa [optTop] using rel1⟩
  | .script kw md name lb body rb :: r, wt, a, b, h, hok => by
    obtain ⟨hca, hcb⟩ := ctxOf_exp h
    simp only [expandTopsFrom, elabTops, stepTop]
    rw [hcb]
    cases he : elabE env name.lit (ctxOf a) body with
    | error e =>
      rw [hca] at he
      rw [elab_const_expand_error env name.lit wt h.ok (ctxOf a) body e he]
    | ok q =>
      obtain ⟨stmts, imp, c'⟩ := q
      rw [hca] at he
      obtain ⟨stmts', he', hst⟩ := elab_const_expand_ok env name.lit wt h.ok (ctxOf a) body stmts imp c' he
      rw [he']
      simp only
      have hH0 : Hoist domAll { a with nextSid := c'.nextSid, nextCmdId := c'.nextCmdId }
          { b with nextSid := c'.nextSid, nextCmdId := c'.nextCmdId } :=
        ⟨h.hoist.ts, h.hoist.tc, h.hoist.ms, h.hoist.mc⟩
      obtain ⟨hH1, hD1⟩ := addImp_frame (R := renEq) hH0 (relImp_renEq imp) (impUses_all imp)
      obtain ⟨⟨Δt, ta, tb⟩, ⟨Δm, ma, mb⟩, ⟨Δs, sa, sb⟩, ⟨Δ, Δ', pa, pb, pr⟩⟩ := hD1
      simp only at ta tb ma mb sa sb pa pb
      have h1 : ExpInv wt (afterScript a imp c') (afterScript b imp { c' with consts := [] }) := by
        unfold afterScript
        simp only
        refine ⟨?_, ?_, h.ok, ?_, ?_, ?_, ?_, hH1, ?_, ?_, ?_, ?_⟩
        · rw [addImp_constants]; exact h.ca
        · rw [addImp_constants]; exact h.cb
        · rw [addImp_breakStack, addImp_breakStack]; exact h.bs
        · rw [addImp_continueStack, addImp_continueStack]; exact h.cs
        · rw [addImp_nextSid, addImp_nextSid]
        · rw [addImp_nextCmdId, addImp_nextCmdId]
        · rw [ta, tb, h.texts]
        · rw [ma, mb, h.moves]
        · rw [sa, sb, h.stmts]
        · rw [pa, pb, h.patches, all2_relPatch_eq pr]
      have ih := elabTops_exp env r h1 hok
      cases he2 : elabTops env r (afterScript a imp c') with
      | error e => rw [he2] at ih; simp only [ih]
      | ok q2 =>
        rw [he2] at ih
        obtain ⟨tops', b1, wt1, e1, inv1, rel1⟩ := ih
        simp only [e1]
        exact ⟨_, b1, wt1, rfl, inv1, ⟨.script rfl rfl rfl hst, rel1⟩⟩
  | .mart kw md name lb items rb :: r, wt, a, b, h, hok => by
    obtain ⟨hit, hok'⟩ := hok
    obtain ⟨hs, hl⟩ := mart_items wt items hit
    simp only [expandTopsFrom, elabTops, stepTop, h.ca, h.cb, hs]
    have ih := elabTops_exp env r h hok'
    cases he2 : elabTops env r a with
    | error e => rw [he2] at ih; simp only [ih]
    | ok q2 =>
      rw [he2] at ih
      obtain ⟨tops', b1, wt1, e1, inv1, rel1⟩ := ih
      simp only [e1]
      exact ⟨_, b1, wt1, rfl, inv1, ⟨.mart _ _ _ _ hl, rel1⟩⟩
  | .raw kw v :: r, wt, a, b, h, hok => by
    simp only [expandTopsFrom, elabTops, stepTop]
    have ih := elabTops_exp env r h hok
    cases he2 : elabTops env r a with
    | error e => rw [he2] at ih; simp only [ih]
    | ok q2 =>
      rw [he2] at ih
      obtain ⟨tops', b1, wt1, e1, inv1, rel1⟩ := ih
      simp only [e1]
      exact ⟨_, b1, wt1, rfl, inv1, ⟨.same _ rfl, rel1⟩⟩
  | .movement kw md name lb items rb :: r, wt, a, b, h, hok => by
    simp only [expandTopsFrom, elabTops, stepTop]
    have ih := elabTops_exp env r h hok
    cases he2 : elabTops env r a with
    | error e => rw [he2] at ih; simp only [ih]
    | ok q2 =>
      rw [he2] at ih
      obtain ⟨tops', b1, wt1, e1, inv1, rel1⟩ := ih
      simp only [e1]
      exact ⟨_, b1, wt1, rfl, inv1, ⟨.same _ rfl, rel1⟩⟩
  | .text kw md name lb v rb :: r, wt, a, b, h, hok => by
    simp only [expandTopsFrom, elabTops, stepTop]
    have h1 : ExpInv wt
        { a with textStatements := a.textStatements ++
          [C15b.mkText kw name (md.scope (defaultScopeOf "parseTextStatement")) v.value] }
        { b with textStatements := b.textStatements ++
          [C15b.mkText kw name (md.scope (defaultScopeOf "parseTextStatement")) v.value] } :=
      ⟨h.ca, h.cb, h.ok, h.bs, h.cs, h.sid, h.cid, ⟨h.hoist.ts, h.hoist.tc, h.hoist.ms, h.hoist.mc⟩,
        h.texts, h.moves, by simp only [h.stmts], h.patches⟩
    have ih := elabTops_exp env r h1 hok
    cases he2 : elabTops env r { a with textStatements := a.textStatements ++
        [C15b.mkText kw name (md.scope (defaultScopeOf "parseTextStatement")) v.value] } with
    | error e => rw [he2] at ih; simp only [ih]
    | ok q2 =>
      rw [he2] at ih
      obtain ⟨tops', b1, wt1, e1, inv1, rel1⟩ := ih
      simp only [e1]
      exact ⟨_, b1, wt1, rfl, inv1, ⟨.same _ rfl, rel1⟩⟩

/-! ### post-passes and emitter -/

theorem firstDuplicateMovement_erase (x : List Top) : ∀ {tops' tops : List Top},
    All2 EraseTop tops' tops → ∀ seen,
    firstDuplicateMovement (tops' ++ x) seen = firstDuplicateMovement (tops ++ x) seen
  | [], [], _, _ => rfl
  | t' :: r', t :: r, h, seen => by
    have ih := firstDuplicateMovement_erase x h.2
    have h1 := h.1
    cases h1 with
    | script => simp only [List.cons_append, firstDuplicateMovement, ih]
    | mart => simp only [List.cons_append, firstDuplicateMovement, ih]
    | same _ ht =>
      cases t' with
      | movement m =>
        simp only [List.cons_append, firstDuplicateMovement]
        cases seen.lookup m.name with
        | some tk => rfl
        | none => exact ih _
      | script s => simp [Top.plain] at ht
      | mapscripts s => simp [Top.plain] at ht
      | raw => simp only [List.cons_append, firstDuplicateMovement, ih]
      | mart => simp only [List.cons_append, firstDuplicateMovement, ih]
      | text => simp only [List.cons_append, firstDuplicateMovement, ih]
  | [], _ :: _, h, _ => h.elim
  | _ :: _, [], h, _ => h.elim

theorem emitMart_go_lines (o : Opts) : ∀ (strs : List String) (ts' ts : List Tok),
    ts'.map (·.line) = ts.map (·.line) → emitMart.go o ts' strs = emitMart.go o ts strs
  | [], _, _, _ => by rw [emitMart.go, emitMart.go]
  | item :: r, ts', ts, h => by
    rw [emitMart.go, emitMart.go]
    have hh : marker o (ts'.headD {}) = marker o (ts.headD {}) := by
      unfold marker
      cases ts' <;> cases ts <;> simp_all
    have ht : ts'.tail.map (·.line) = ts.tail.map (·.line) := by
      cases ts' <;> cases ts <;> simp_all
    rw [hh, emitMart_go_lines o r _ _ ht]

theorem emitTopLines_erase (o : Opts) (ps : List ((Nat × Nat) × String)) (tl : List String) {t' t : Top}
    (h : EraseTop t' t) : C17.emitTopLines o ps tl t' = C17.emitTopLines o ps tl t := by
  cases h with
  | script h1 h2 h3 h4 =>
    simp only [C17.emitTopLines]
    rw [emitScript_erase o ps tl h1 h2 h3 h4]
  | mart kw name strs scope hl =>
    simp only [C17.emitTopLines, emitMart, emitMart_go_lines o strs _ _ hl]
  | same => rfl

/-- The post-passes and the emitter do not see the difference. -/
theorem post_exp (o : Opts) {wt : WTable} {a b : PState} (h : ExpInv wt a b) {tops' tops : List Top}
    (hr : All2 EraseTop tops' tops) : post o tops' b = post o tops a := by
  have hsec : sectionsOf o tops' b = sectionsOf o tops a := by
    unfold sectionsOf
    have htn : textNames b = textNames a := by unfold textNames; rw [h.texts, h.stmts]
    rw [topBlocks_congr o (ps' := b.patches) (ps := a.patches) (tl' := textNames b) (tl := textNames a)
      (All2.imp (fun _ _ ht => by rw [h.patches, htn]; exact emitTopLines_erase o _ _ ht) hr),
      h.texts, h.moves, h.stmts]
  unfold post finish
  rw [hsec, h.texts, h.stmts, h.moves, firstDuplicateMovement_erase _ hr]
  cases firstDuplicateText (a.inlineTexts ++ a.textStatements) [] with
  | some t => rfl
  | none =>
    simp only
    cases firstDuplicateMovement (tops ++ a.inlineMovements.map Top.movement) [] with
    | some q => rfl
    | none => rfl

/-! ### the hand-expanded file is a file of the grammar -/

/-- The values are plain tokens where they are used in script bodies (C13c's `PlainValues`: F24 shows it is
necessary), and the expansion of a mart item is a list of IDENT tokens. -/
def PlainOKFrom : WTable → List STop → Prop
  | _, [] => True
  | wt, .const _ name _ vs :: r => PlainOKFrom ((name.lit, newWords wt vs) :: wt) r
  | wt, .script .. :: r => PlainValues wt ∧ PlainOKFrom wt r
  | wt, .mart _ _ _ _ items _ :: r => (∀ x ∈ expandToks wt items, x.type = .IDENT) ∧ PlainOKFrom wt r
  | wt, .raw .. :: r => PlainOKFrom wt r
  | wt, .movement .. :: r => PlainOKFrom wt r
  | wt, .text .. :: r => PlainOKFrom wt r

def decPlainOKFrom : (wt : WTable) → (ts : List STop) → Decidable (PlainOKFrom wt ts)
  | _, [] => isTrue trivial
  | wt, .const _ name _ vs :: r => by unfold PlainOKFrom; exact decPlainOKFrom ((name.lit, newWords wt vs) :: wt) r
  | wt, .script .. :: r =>
    have := decPlainOKFrom wt r
    by unfold PlainOKFrom; exact inferInstance
  | wt, .mart _ _ _ _ items _ :: r =>
    have := decPlainOKFrom wt r
    by unfold PlainOKFrom; exact inferInstance
  | wt, .raw .. :: r => by unfold PlainOKFrom; exact decPlainOKFrom wt r
  | wt, .movement .. :: r => by unfold PlainOKFrom; exact decPlainOKFrom wt r
  | wt, .text .. :: r => by unfold PlainOKFrom; exact decPlainOKFrom wt r
instance (wt : WTable) (ts : List STop) : Decidable (PlainOKFrom wt ts) := decPlainOKFrom wt ts

def PlainOK (ts : List STop) : Prop := PlainOKFrom [] ts
instance (ts : List STop) : Decidable (PlainOK ts) := by unfold PlainOK; exact inferInstance

theorem expandTopsFrom_noConst : ∀ (ts : List STop) (wt : WTable), ∀ t ∈ expandTopsFrom wt ts, t.isConst = false
  | [], _, _, h => nomatch h
  | .const _ name _ vs :: r, wt, t, h => expandTopsFrom_noConst r _ t h
  | .script .. :: r, wt, t, h => by
    rcases List.mem_cons.1 h with rfl | h
    · rfl
    · exact expandTopsFrom_noConst r wt t h
  | .mart .. :: r, wt, t, h => by
    rcases List.mem_cons.1 h with rfl | h
    · rfl
    · exact expandTopsFrom_noConst r wt t h
  | .raw .. :: r, wt, t, h => by
    rcases List.mem_cons.1 h with rfl | h
    · rfl
    · exact expandTopsFrom_noConst r wt t h
  | .movement .. :: r, wt, t, h => by
    rcases List.mem_cons.1 h with rfl | h
    · rfl
    · exact expandTopsFrom_noConst r wt t h
  | .text .. :: r, wt, t, h => by
    rcases List.mem_cons.1 h with rfl | h
    · rfl
    · exact expandTopsFrom_noConst r wt t h

theorem twf_of_noConst : ∀ (ts : List STop), (∀ t ∈ ts, TopWF t) → (∀ t ∈ ts, t.isConst = false) → TWF ts
  | [], _, _ => trivial
  | t :: r, h1, h2 =>
    ⟨h1 t (List.mem_cons_self ..), (fun hc => by rw [h2 t (List.mem_cons_self ..)] at hc; cases hc),
      twf_of_noConst r (fun x hx => h1 x (List.mem_cons_of_mem _ hx)) (fun x hx => h2 x (List.mem_cons_of_mem _ hx))⟩

theorem expandTopsFrom_wf : ∀ (ts : List STop) (wt : WTable), TWF ts → WordsOK wt → ConstsOKFrom wt ts →
    PlainOKFrom wt ts → ∀ t ∈ expandTopsFrom wt ts, TopWF t
  | [], _, _, _, _, _, _, h => nomatch h
  | .const _ name _ vs :: r, wt, hwf, hok, hc, hp, t, h => by
    obtain ⟨_, hne, hlit, hc'⟩ := hc
    exact expandTopsFrom_wf r _ hwf.2.2 ((const_step wt hok vs hne hlit).2.2 _) hc' hp t h
  | .script kw md name lb body rb :: r, wt, hwf, hok, hc, hp, t, h => by
    rcases List.mem_cons.1 h with rfl | h
    · have h1 := hwf.1
      simp only [TopWF] at h1 ⊢
      exact ⟨h1.1, h1.2.1, h1.2.2.1, h1.2.2.2.1, swf_expand wt hok hp.1 body h1.2.2.2.2.1, h1.2.2.2.2.2⟩
    · exact expandTopsFrom_wf r wt hwf.2.2 hok hc hp.2 t h
  | .mart kw md name lb items rb :: r, wt, hwf, hok, hc, hp, t, h => by
    rcases List.mem_cons.1 h with rfl | h
    · have h1 := hwf.1
      simp only [TopWF] at h1 ⊢
      exact ⟨h1.1, h1.2.1, h1.2.2.1, h1.2.2.2.1, hp.1, h1.2.2.2.2.2⟩
    · exact expandTopsFrom_wf r wt hwf.2.2 hok hc.2 hp.2 t h
  | .raw kw v :: r, wt, hwf, hok, hc, hp, t, h => by
    rcases List.mem_cons.1 h with rfl | h
    · exact hwf.1
    · exact expandTopsFrom_wf r wt hwf.2.2 hok hc hp t h
  | .movement kw md name lb items rb :: r, wt, hwf, hok, hc, hp, t, h => by
    rcases List.mem_cons.1 h with rfl | h
    · exact hwf.1
    · exact expandTopsFrom_wf r wt hwf.2.2 hok hc hp t h
  | .text kw md name lb v rb :: r, wt, hwf, hok, hc, hp, t, h => by
    rcases List.mem_cons.1 h with rfl | h
    · exact hwf.1
    · exact expandTopsFrom_wf r wt hwf.2.2 hok hc hp t h

/-- **The hand-expanded file is a file of the grammar** (when the values are plain tokens). -/
theorem expandTops_twf (ts : List STop) (hwf : TWF ts) (hc : ConstsOK ts) (hp : PlainOK ts) :
    TWF (expandTops ts) :=
  twf_of_noConst _ (expandTopsFrom_wf ts [] hwf (fun _ h => nomatch h) hc hp) (expandTopsFrom_noConst ts [])

end Pory.P2c
