import PoryProofs.CmdGen
import PoryProofs.ListSwitchErr
/-
Helpers for P1c: command statements whose `moves( … )` arguments may contain (nested) `poryswitch` elements.

Reference syntax: `MElem` = the argument elements of P1b (`TextValueParse.IElem`: plain tokens, parentheses,
string literals, typed strings, `moves( step [* N] … )` without poryswitch, inline `format( … )`) PLUS
    `movesS mv lp items rp`     `moves ( items )`, `items : C14b.Items` — the list grammar of
                                 `PoryProofs/ListSwitch.lean` / `ListSwitchErr.lean`: `step`, `step * N`, `,`
                                 and `poryswitch ( X ) { key : item | key { items } … }` nested to any depth.
`CmdM` = the three written forms of a command over such arguments (`name ( a0 , … )`, `name ( )`, `name`), with
the same interface as `CmdGen.CmdF` (`print`, `name`, `last`, `ok`, `nargs`, `need`, `node`, `imp`, `elabC`).

Reference elaboration `CmdM.elabC env sn σ cid c : Except PFail (Cmd × ImpData)`: as `CmdF.elabC`; a
`movesS` element contributes the EMPTY string to its argument and one `ImpMovement` (command id, command token,
argument position, the steps `P2d.elItems env items` — the selected case of every poryswitch spliced in,
multipliers expanded —, script name).  Errors: the FIRST element in source order that fails — an inline
`format( … )` that cannot be formatted (C07b), or a `moves( … )` whose list elaboration fails
(`P2d.elItems env items = .error e`: poryswitch without `-s` / undefined switch / no matching case with
environment errors on; a bad multiplier — also inside a case that is not selected).

* `cmdM_run` : `parseCommandStatement` on `c.print ++ rest` = `c.elabC` (window left on `c.last`, command id
  counter advanced) — every outcome;
* `args_not_labelM` : a printed command is never read as a scoped label;
* `CmdM.need_le` : fuel need + 1 ≤ number of tokens;
* the commands of P1b (`CmdF`) are the special case without `movesS`: `ofF` in `PoryProofs/CmdEmbedMS.lean`
  (print / ok / elabC / need commute).
-/
namespace Pory.P1c
open Pory Pory.Parser Pory.C02P Pory.C07b Pory.C10b Pory.C10c Pory.TextValueParse Pory.CmdGen
open Pory.C14b (Items ItemP Cases Item)
open Pory.P2d (wfItems elItems parse_list_ps good_movement_rparen)

/-! ### `moves ( … )` with poryswitch elements -/

/-- `parseMovesOperator` on `moves ( items )`: every outcome. Stops on the `)`. -/
theorem moves_operator_sw (env : Env) (s : PState) (mv lp : Tok) (items : Items) (rp : Tok) (rest : List Tok)
    (hlp : lp.type = .LPAREN) (hrp : rp.type = .RPAREN) (hwf : wfItems false items) (fuel : Nat)
    (hf : items.toks.length + 1 ≤ fuel) :
    (parseMovesOperator env fuel).run (st s (mv :: lp :: (items.toks ++ rp :: rest))) =
      match elItems env items with
      | .error e => .error e
      | .ok out => .ok (out, st s (rp :: rest)) := by
  have := parse_list_ps env (.movement .RPAREN) good_movement_rparen s items rp rest hwf hrp [] fuel hf
  unfold parseMovesOperator
  simp [hlp, this]
  cases elItems env items <;> rfl

/-- The steps of a list (`[]` when its elaboration fails). -/
def stepsD (env : Env) (items : Items) : List Tok :=
  match elItems env items with
  | .ok l => l
  | .error _ => []

/-- The implicit movement of a `moves( … )` argument. -/
def movImp (env : Env) (sn : String) (cid : Nat) (cmdTok : Tok) (pos : Nat) (items : Items) : ImpData :=
  { movements := [{ cmdId := cid, cmdTok := cmdTok, argPos := pos, movements := stepsD env items,
                    scriptName := sn }] }

section
variable (env : Env) (sn : String) (id : Nat) (ct : Tok) (f : Nat) (s : PState)
  (A P : List String) (d : Nat) (I : ImpData)

theorem cal_movesS (mv lp : Tok) (items : Items) (rp : Tok) (tl : List Tok) (hmv : mv.type = .MOVES)
    (hlp : lp.type = .LPAREN) (hrp : rp.type = .RPAREN) (hwf : wfItems false items)
    (hf : items.toks.length + 1 ≤ f) :
    (cmdArgsLoop env sn id ct (f + 1) ⟨A, P, d, I⟩).run (st s (mv :: lp :: (items.toks ++ rp :: tl))) =
      match elItems env items with
      | .error e => .error e
      | .ok _ =>
        (cmdArgsLoop env sn id ct f ⟨A, P ++ [""], d, I.add (movImp env sn id ct A.length items)⟩).run
          (st s tl) := by
  rw [cmdArgsLoop]
  have h := moves_operator_sw env s mv lp items rp tl hlp hrp hwf f hf
  cases hel : elItems env items with
  | error e =>
    rw [hel] at h
    simp [hmv, h]
  | ok out =>
    rw [hel] at h
    simp [hmv, h, movImp, stepsD, hel, ImpData.add]

end

/-! ### elements and arguments -/

inductive MElem where
  /-- an element of P1b: token, parenthesis, string, typed string, `moves( … )` without poryswitch, `format( … )` -/
  | base (e : IElem)
  /-- `moves ( items )` whose list may contain (nested) poryswitch elements -/
  | movesS (mv lp : Tok) (items : Items) (rp : Tok)

def MElem.toks : MElem → List Tok
  | .base e => e.toks
  | .movesS mv lp items rp => mv :: lp :: (items.toks ++ [rp])

/-- For the argument STRING a `moves( … )` contributes the empty part and does not change the parenthesis depth
(its own parentheses are consumed by `parseMovesOperator`). -/
def MElem.skel : MElem → AElem
  | .base e => e.skel
  | .movesS mv lp _ rp => .moves mv lp [] rp

/-- Token types of an element (`movesS`: `P2d.wfItems false`). -/
def melemOk : MElem → Bool
  | .base e => elemOk e
  | .movesS mv lp items rp =>
      mv.type == .MOVES && lp.type == .LPAREN && rp.type == .RPAREN && decide (wfItems false items)

/-- The located error of an element: an inline `format( … )` that cannot be formatted, a `moves( … )` whose
list elaboration fails. -/
def melemErr (env : Env) : MElem → Option PFail
  | .base e => elemErr env e
  | .movesS _ _ items _ =>
    match elItems env items with
    | .ok _ => none
    | .error e => some e

/-- The first error of an argument, in source order. -/
def argErrM (env : Env) : List MElem → Option PFail
  | [] => none
  | e :: r => (melemErr env e).orElse fun _ => argErrM env r

def argsErrM (env : Env) : List (List MElem) → Option PFail
  | [] => none
  | a :: r => (argErrM env a).orElse fun _ => argsErrM env r

def printArgM : List MElem → List Tok
  | [] => []
  | e :: r => e.toks ++ printArgM r

/-- Fuel the inner parser of an element needs. -/
def MElem.need : MElem → Nat
  | .base e => e.need
  | .movesS _ _ items _ => items.toks.length + 1

def needArgM : List MElem → Nat
  | [] => 0
  | e :: r => e.need + needArgM r

/-- The implicit data of one element. -/
def impOfM (env : Env) (sn : String) (cid : Nat) (cmdTok : Tok) (pos : Nat) : MElem → ImpData
  | .base e => impOfI env sn cid cmdTok pos e
  | .movesS _ _ items _ => movImp env sn cid cmdTok pos items

def impArgM (env : Env) (sn : String) (cid : Nat) (cmdTok : Tok) (pos : Nat) : List MElem → ImpData
  | [] => {}
  | e :: r => (impOfM env sn cid cmdTok pos e).add (impArgM env sn cid cmdTok pos r)

def impArgsM (env : Env) (sn : String) (cid : Nat) (cmdTok : Tok) : Nat → List (List MElem) → ImpData
  | _, [] => {}
  | pos, a :: r => (impArgM env sn cid cmdTok pos a).add (impArgsM env sn cid cmdTok (pos + 1) r)

/-- A command argument: non-empty, well-typed elements, parentheses balanced. -/
def argOkM (a : List MElem) : Bool := !a.isEmpty && a.all melemOk && depthE 0 (a.map MElem.skel) == some 0

theorem argOkM_iff (a : List MElem) :
    argOkM a = true ↔ a ≠ [] ∧ a.all melemOk = true ∧ depthE 0 (a.map MElem.skel) = some 0 := by
  unfold argOkM
  cases a with
  | nil => simp
  | cons e r => simp

def printMoreM : List (Tok × List MElem) → List Tok
  | [] => []
  | p :: m => p.1 :: (printArgM p.2 ++ printMoreM m)

def needMoreM : List (Tok × List MElem) → Nat
  | [] => 0
  | p :: m => needArgM p.2 + needMoreM m

def stepsMoreM : List (Tok × List MElem) → Nat
  | [] => 0
  | p :: m => 1 + p.2.length + stepsMoreM m

def skelMoreM (more : List (Tok × List MElem)) : List (Tok × List AElem) :=
  more.map fun p => (p.1, p.2.map MElem.skel)

def impMoreM (env : Env) (sn : String) (cid : Nat) (cmdTok : Tok) : Nat → List (Tok × List MElem) → ImpData
  | _, [] => {}
  | k, p :: m => (impArgM env sn cid cmdTok (k + 1) p.2).add (impMoreM env sn cid cmdTok (k + 1) m)

theorem impMoreM_eq (env : Env) (sn : String) (cid : Nat) (cmdTok : Tok) (k : Nat)
    (more : List (Tok × List MElem)) :
    impMoreM env sn cid cmdTok k more = impArgsM env sn cid cmdTok (k + 1) (more.map (·.2)) := by
  induction more generalizing k with
  | nil => rfl
  | cons p m ih => simp [impMoreM, impArgsM, ih]

/-- `name ( a0 , a1 , … )` -/
def printCmdM (name lp : Tok) (a0 : List MElem) (more : List (Tok × List MElem)) (rp : Tok) : List Tok :=
  name :: lp :: (printArgM a0 ++ (printMoreM more ++ [rp]))

def renderArgM (σ : String → String) (a : List MElem) : String := renderArgE σ (a.map MElem.skel)

def needCmdM (a0 : List MElem) (more : List (Tok × List MElem)) : Nat :=
  a0.length + stepsMoreM more + needArgM a0 + needMoreM more + 1

/-! ### the argument loop, every outcome -/
section
variable (env : Env) (sn : String) (id : Nat) (ct : Tok) (s : PState)

/-- The elements of one argument: one iteration per element; the first failing element stops the run. -/
theorem cal_argM (ts : List MElem) (rest : List Tok) (A Q : List String) (d : Nat) (I : ImpData)
    (hts : ts.all melemOk = true) (d' : Nat) (hd : depthE d (ts.map MElem.skel) = some d') (f : Nat)
    (hf : needArgM ts ≤ f) :
    (cmdArgsLoop env sn id ct (ts.length + f) ⟨A, Q, d, I⟩).run (st s (printArgM ts ++ rest)) =
      match argErrM env ts with
      | some e => .error e
      | none =>
        (cmdArgsLoop env sn id ct f
          ⟨A, Q ++ ts.map (fun e => partE (substC s.constants) e.skel), d',
            I.add (impArgM env sn id ct A.length ts)⟩).run (st s rest) := by
  induction ts generalizing Q d I with
  | nil =>
    simp [depthE] at hd; subst hd
    simp [printArgM, impArgM, add_nil, argErrM]
  | cons e r ih =>
    simp only [List.all_cons, Bool.and_eq_true] at hts
    obtain ⟨he, hr⟩ := hts
    simp only [needArgM] at hf
    cases e with
    | base e =>
      have hlen : (MElem.base e :: r).length + f = [e].length + (r.length + f) := by simp; omega
      rw [hlen]
      simp only [List.map_cons, MElem.skel] at hd
      obtain ⟨d'', hd1, hd2⟩ := depthE_cons_some e.skel _ d d' hd
      have h1 := cal_argI_g env sn id ct s [e] (printArgM r ++ rest) A Q d I
        (by simpa [melemOk] using he) d'' (by simpa using hd1) (r.length + f)
        (by simp [needArgI, MElem.need] at hf ⊢; omega)
      simp only [printArgI, List.append_nil] at h1
      simp only [printArgM, MElem.toks, List.append_assoc]
      rw [h1]
      simp only [argErrM, melemErr, CmdGen.argErr, Option.orElse]
      cases elemErr env e with
      | some x => rfl
      | none =>
        simp only
        rw [ih _ _ _ hr hd2 (by omega)]
        cases argErrM env r with
        | some x => rfl
        | none => simp [impArgI, impArgM, impOfM, add_nil, add_assoc, MElem.skel]
    | movesS mv lp items rp =>
      have hlen : (MElem.movesS mv lp items rp :: r).length + f = (r.length + f) + 1 := by simp; omega
      rw [hlen]
      simp only [melemOk, Bool.and_eq_true, beq_iff_eq, decide_eq_true_eq] at he
      obtain ⟨⟨⟨h1, h2⟩, h3⟩, h4⟩ := he
      simp only [List.map_cons, MElem.skel, depthE] at hd
      simp only [MElem.need] at hf
      simp only [printArgM, MElem.toks, List.cons_append, List.append_assoc, List.nil_append]
      rw [cal_movesS env sn id ct _ s A Q d I mv lp items rp _ h1 h2 h3 h4 (by omega)]
      simp only [argErrM, melemErr]
      cases elItems env items with
      | error x => rfl
      | ok out =>
        simp only [Option.orElse]
        rw [ih _ _ _ hr hd (by omega)]
        cases argErrM env r with
        | some x => rfl
        | none => simp [impArgM, impOfM, add_assoc, MElem.skel, partE]

theorem cal_moreM (more : List (Tok × List MElem)) (rest : List Tok) (A Q : List String) (I : ImpData)
    (hm : ∀ p ∈ more, p.1.type = .COMMA ∧ p.2.all melemOk = true ∧
      depthE 0 (p.2.map MElem.skel) = some 0) (f : Nat)
    (hf : needMoreM more ≤ f) :
    (cmdArgsLoop env sn id ct (stepsMoreM more + f) ⟨A, Q, 0, I⟩).run
        (st s (printMoreM more ++ rest)) =
      match argsErrM env (more.map (·.2)) with
      | some e => .error e
      | none =>
        (cmdArgsLoop env sn id ct f
          ⟨(accMoreE (substC s.constants) A Q (skelMoreM more)).1,
            (accMoreE (substC s.constants) A Q (skelMoreM more)).2, 0,
            I.add (impMoreM env sn id ct A.length more)⟩).run (st s rest) := by
  induction more generalizing A Q I with
  | nil => simp [printMoreM, accMoreE, impMoreM, stepsMoreM, add_nil, skelMoreM, argsErrM]
  | cons p m ih =>
    obtain ⟨hc, hts, hd⟩ := hm p (by simp)
    simp only [needMoreM] at hf
    have hlen : stepsMoreM (p :: m) + f = (p.2.length + (stepsMoreM m + f)) + 1 := by
      simp [stepsMoreM]; omega
    rw [hlen]
    simp only [printMoreM, List.cons_append, List.append_assoc]
    rw [cal_comma env sn id ct _ s A Q 0 I p.1 _ hc,
      cal_argM env sn id ct s p.2 _ _ _ 0 I hts 0 hd _ (by omega)]
    simp only [List.map_cons, argsErrM, Option.orElse]
    cases argErrM env p.2 with
    | some x => rfl
    | none =>
      simp only
      rw [ih _ _ _ (fun q hq => hm q (by simp [hq])) (by omega)]
      cases argsErrM env (m.map (·.2)) with
      | some x => rfl
      | none => simp [accMoreE, impMoreM, add_assoc, skelMoreM, Function.comp_def]

end

/-- **`name ( a0 , … )` with `moves( … poryswitch … )` arguments, every outcome**: the first failing element
in source order makes the command fail with its located error. -/
theorem parse_command_M (env : Env) (sn : String) (s : PState) (name lp : Tok) (a0 : List MElem)
    (more : List (Tok × List MElem)) (rp : Tok) (rest : List Tok)
    (hlp : lp.type = .LPAREN) (hrp : rp.type = .RPAREN) (h0 : argOkM a0 = true)
    (hm : ∀ p ∈ more, p.1.type = .COMMA ∧ argOkM p.2 = true) (fuel : Nat)
    (hf : needCmdM a0 more ≤ fuel) :
    (parseCommandStatement env sn fuel).run (st s (printCmdM name lp a0 more rp ++ rest)) =
      match argsErrM env (a0 :: more.map (·.2)) with
      | some e => .error e
      | none =>
        .ok (({ id := s.nextCmdId, tok := name, name := name.lit,
                args := (a0 :: more.map (·.2)).map (renderArgM (substC s.constants)) },
              impArgsM env sn s.nextCmdId name 0 (a0 :: more.map (·.2))),
             st (bump s) (rp :: rest)) := by
  obtain ⟨h0n, h0t, h0d⟩ := (argOkM_iff a0).mp h0
  have hm' : ∀ p ∈ more, p.1.type = .COMMA ∧ p.2.all melemOk = true ∧
      depthE 0 (p.2.map MElem.skel) = some 0 :=
    fun p hp => ⟨(hm p hp).1, ((argOkM_iff p.2).mp (hm p hp).2).2.1, ((argOkM_iff p.2).mp (hm p hp).2).2.2⟩
  have hne : ∀ p ∈ skelMoreM more, p.2 ≠ [] := by
    intro p hp
    simp only [skelMoreM, List.mem_map] at hp
    obtain ⟨q, hq, rfl⟩ := hp
    simpa using ((argOkM_iff q.2).mp (hm q hq).2).1
  unfold needCmdM at hf
  obtain ⟨f, rfl, hg⟩ : ∃ f, fuel = a0.length + (stepsMoreM more + (f + 1)) ∧
      needArgM a0 + needMoreM more ≤ f + 1 :=
    ⟨fuel - a0.length - stepsMoreM more - 1, by omega, by omega⟩
  have hp : printCmdM name lp a0 more rp ++ rest =
      name :: lp :: (printArgM a0 ++ (printMoreM more ++ rp :: rest)) := by simp [printCmdM]
  have e0 : ({} : CmdAcc) = ⟨[], [], 0, {}⟩ := rfl
  rw [hp, pcs_paren env sn _ s name lp _ hlp, e0,
    cal_argM env sn s.nextCmdId name (bump s) a0 _ [] [] 0 {} h0t 0 h0d _ (by omega)]
  simp only [argsErrM, Option.orElse]
  cases argErrM env a0 with
  | some x => rfl
  | none =>
    simp only [List.nil_append]
    rw [cal_moreM env sn s.nextCmdId name (bump s) more _ _ _ _ hm' _ (by omega)]
    cases argsErrM env (more.map (·.2)) with
    | some x => rfl
    | none =>
      simp only
      rw [cal_close env sn s.nextCmdId name _ (bump s) _ _ _ rp rest hrp]
      simp only [cmdOf, bump_constants]
      have hne' := accMoreE_parts_ne (substC s.constants) []
        (a0.map (fun e => partE (substC s.constants) e.skel)) (skelMoreM more) (by simpa using h0n) hne
      have hpos : (accMoreE (substC s.constants) []
          (a0.map (fun e => partE (substC s.constants) e.skel)) (skelMoreM more)).2.length > 0 :=
        Nat.pos_of_ne_zero (fun h => hne' (List.eq_nil_of_length_eq_zero h))
      simp only [hpos, if_true, accMoreE_args]
      simp [renderArgM, renderArgE, Function.comp_def, impArgsM, impMoreM_eq, nil_add, skelMoreM]

/-! ### the written forms of a command -/

inductive CmdM where
  /-- `name ( a0 , a1 , … )` -/
  | args (name lp : Tok) (a0 : List MElem) (more : List (Tok × List MElem)) (rp : Tok)
  /-- `name ( )` -/
  | empty (name lp rp : Tok)
  /-- `name` -/
  | bare (name : Tok)

namespace CmdM

def print : CmdM → List Tok
  | .args name lp a0 more rp => printCmdM name lp a0 more rp
  | .empty name lp rp => [name, lp, rp]
  | .bare name => [name]

def name : CmdM → Tok
  | .args name .. => name
  | .empty name .. => name
  | .bare name => name

/-- The token the command parser stops on. -/
def last : CmdM → Tok
  | .args _ _ _ _ rp => rp
  | .empty _ _ rp => rp
  | .bare name => name

/-- Token types. -/
def ok : CmdM → Bool
  | .args name lp a0 more rp =>
      name.type == .IDENT && lp.type == .LPAREN && rp.type == .RPAREN && argOkM a0 &&
        more.all (fun p => p.1.type == .COMMA && argOkM p.2)
  | .empty name lp rp => name.type == .IDENT && lp.type == .LPAREN && rp.type == .RPAREN
  | .bare name => name.type == .IDENT

/-- The written arguments. -/
def argList : CmdM → List (List MElem)
  | .args _ _ a0 more _ => a0 :: more.map (·.2)
  | _ => []

def nargs (c : CmdM) : Nat := c.argList.length

/-- The rendered arguments: inline texts / movements contribute the EMPTY string. -/
def rendered (σ : String → String) (c : CmdM) : List String := c.argList.map (renderArgM σ)

def need : CmdM → Nat
  | .args _ _ a0 more _ => needCmdM a0 more
  | .empty .. => 1
  | .bare _ => 0

/-- The command node. -/
def node (σ : String → String) (cid : Nat) (c : CmdM) : Cmd :=
  { id := cid, tok := c.name, name := c.name.lit, args := c.rendered σ }

/-- The implicit data, in source order. -/
def imp (env : Env) (sn : String) (cid : Nat) (c : CmdM) : ImpData :=
  impArgsM env sn cid c.name 0 c.argList

/-- The reference elaboration of a command: node and implicit data, or the located error of the first element
that fails (inline `format( … )` that cannot be formatted, `moves( … )` whose list elaboration fails). -/
def elabC (env : Env) (sn : String) (σ : String → String) (cid : Nat) (c : CmdM) : Except PFail (Cmd × ImpData) :=
  match argsErrM env c.argList with
  | some e => .error e
  | none => .ok (c.node σ cid, c.imp env sn cid)

theorem name_ident {c : CmdM} (h : c.ok = true) : c.name.type = .IDENT := by
  cases c <;> simp only [ok, Bool.and_eq_true, beq_iff_eq] at h
  · exact h.1.1.1.1
  · exact h.1.1
  · exact h

theorem print_head (c : CmdM) : ∃ tl, c.print = c.name :: tl := by
  cases c
  · exact ⟨_, rfl⟩
  · exact ⟨_, rfl⟩
  · exact ⟨_, rfl⟩

end CmdM

/-- **`parseCommandStatement` on every written form of a command.** `rest` = the tokens after the command; for
the bare form the next token must not be `(`. -/
theorem cmdM_run (env : Env) (sn : String) (s : PState) (c : CmdM) (rest : List Tok) (hc : c.ok = true)
    (hrest : ∀ n, c = .bare n → (rest.headD s.eof).type ≠ .LPAREN) (fuel : Nat) (hf : c.need ≤ fuel) :
    (parseCommandStatement env sn fuel).run (st s (c.print ++ rest)) =
      match c.elabC env sn (substC s.constants) s.nextCmdId with
      | .error e => .error e
      | .ok r => .ok (r, st (bump s) (c.last :: rest)) := by
  cases c with
  | args name lp a0 more rp =>
    simp only [CmdM.ok, Bool.and_eq_true, beq_iff_eq, List.all_eq_true] at hc
    obtain ⟨⟨⟨⟨h1, h2⟩, h3⟩, h4⟩, h5⟩ := hc
    simp only [CmdM.print, CmdM.elabC, CmdM.argList, CmdM.last]
    rw [parse_command_M env sn s name lp a0 more rp rest h2 h3 h4 h5 fuel hf]
    cases argsErrM env (a0 :: more.map (·.2)) with
    | some e => rfl
    | none => rfl
  | empty name lp rp =>
    simp only [CmdM.ok, Bool.and_eq_true, beq_iff_eq] at hc
    simp only [CmdM.print, List.cons_append, List.nil_append]
    rw [parse_command_empty_parens env sn s name lp rp rest hc.1.2 hc.2 fuel hf]
    rfl
  | bare name =>
    simp only [CmdM.print, List.cons_append, List.nil_append]
    rw [parse_command_bare env sn fuel _ (by
      have := hrest name rfl
      cases rest with
      | nil => simpa using this
      | cons a b => simpa using this)]
    rfl

/-! ### a printed command is not a scoped label -/

theorem melem_head (e : MElem) (h : melemOk e = true) :
    (∃ t, e = .base (.base (.tok t))) ∨
      ∃ x tl, e.toks = x :: tl ∧ (x.type = .STRING ∨ x.type = .STRINGTYPE ∨ x.type = .MOVES ∨ x.type = .FORMAT) := by
  cases e with
  | base e =>
    rcases elem_head e (by simpa [melemOk] using h) with ⟨t, rfl⟩ | ⟨x, tl, hx, hty⟩
    · exact .inl ⟨t, rfl⟩
    · exact .inr ⟨x, tl, hx, hty⟩
  | movesS mv lp items rp =>
    refine .inr ⟨mv, _, rfl, .inr (.inr (.inl ?_))⟩
    simp only [melemOk, Bool.and_eq_true, beq_iff_eq] at h
    exact h.1.1.1

/-- `name ( a0 , … )` is never read as a scoped label `name ( global ) :`. -/
theorem args_not_labelM (a0 : List MElem) (more : List (Tok × List MElem)) (rp t : Tok) (tl : List Tok)
    (d : Tok) (h0 : argOkM a0 = true) (hm : ∀ p ∈ more, p.1.type = .COMMA ∧ argOkM p.2 = true)
    (ht : t.type ≠ .COLON) :
    ¬ ((((printArgM a0 ++ (printMoreM more ++ rp :: t :: tl)).getD 0 d).type = .GLOBAL ∨
        ((printArgM a0 ++ (printMoreM more ++ rp :: t :: tl)).getD 0 d).type = .LOCAL) ∧
      ((printArgM a0 ++ (printMoreM more ++ rp :: t :: tl)).getD 1 d).type = .RPAREN ∧
      ((printArgM a0 ++ (printMoreM more ++ rp :: t :: tl)).getD 2 d).type = .COLON) := by
  obtain ⟨hne, htoks, hbal⟩ := (argOkM_iff a0).mp h0
  cases a0 with
  | nil => exact absurd rfl hne
  | cons e a0' =>
    simp only [List.all_cons, Bool.and_eq_true] at htoks
    rcases melem_head e htoks.1 with ⟨g, rfl⟩ | ⟨x, xtl, hx, hty⟩
    · cases a0' with
      | nil =>
        cases more with
        | nil =>
          simp only [printArgM, MElem.toks, IElem.toks, AElem.toks, printMoreM, List.nil_append, List.cons_append,
            List.getD_cons_succ, List.getD_cons_zero, List.append_nil]
          intro h; exact ht h.2.2
        | cons p m =>
          have := (hm p (by simp)).1
          simp only [printArgM, MElem.toks, IElem.toks, AElem.toks, printMoreM, List.nil_append, List.cons_append,
            List.getD_cons_succ, List.getD_cons_zero, List.append_nil]
          intro h; rw [this] at h; exact absurd h.2.1 (by decide)
      | cons e2 a0'' =>
        simp only [List.all_cons, Bool.and_eq_true] at htoks
        rcases melem_head e2 htoks.2.1 with ⟨x, rfl⟩ | ⟨x, xtl, hx, hty⟩
        · simp only [printArgM, MElem.toks, IElem.toks, AElem.toks, List.cons_append, List.nil_append,
            List.getD_cons_succ, List.getD_cons_zero]
          intro h
          have hg1 : g.type ≠ .LPAREN := by rcases h.1 with h | h <;> rw [h] <;> decide
          have hg2 : g.type ≠ .RPAREN := by rcases h.1 with h | h <;> rw [h] <;> decide
          simp [MElem.skel, IElem.skel, depthE, hg1, hg2, h.2.1] at hbal
        · simp only [printArgM]
          rw [hx]
          simp only [MElem.toks, IElem.toks, AElem.toks, List.cons_append, List.nil_append,
            List.getD_cons_succ, List.getD_cons_zero]
          intro h
          rcases hty with hty | hty | hty | hty <;> rw [hty] at h <;> exact absurd h.2.1 (by decide)
    · simp only [printArgM]
      rw [hx]
      simp only [List.cons_append, List.getD_cons_zero]
      intro h
      rcases hty with hty | hty | hty | hty <;> rw [hty] at h <;> rcases h.1 with h | h <;>
        exact absurd h (by decide)

/-! ### fuel -/

theorem needArgM_le (a : List MElem) : a.length + needArgM a ≤ (printArgM a).length := by
  induction a with
  | nil => simp [needArgM, printArgM]
  | cons e r ih =>
    cases e with
    | base e =>
      have := needArgI_le [e]
      simp only [needArgI, printArgI, List.length_cons, List.length_nil, List.append_nil] at this
      simp only [needArgM, MElem.need, printArgM, MElem.toks, List.length_cons, List.length_append]
      omega
    | movesS mv lp items rp =>
      simp only [needArgM, MElem.need, printArgM, MElem.toks, List.length_cons, List.length_append,
        List.length_nil]
      omega

theorem needMoreM_le (more : List (Tok × List MElem)) :
    stepsMoreM more + needMoreM more ≤ (printMoreM more).length := by
  induction more with
  | nil => simp [stepsMoreM, needMoreM, printMoreM]
  | cons p m ih =>
    have := needArgM_le p.2
    simp only [stepsMoreM, needMoreM, printMoreM, List.length_cons, List.length_append]; omega

theorem needCmdM_le (name lp : Tok) (a0 : List MElem) (more : List (Tok × List MElem)) (rp : Tok) :
    needCmdM a0 more + 2 ≤ (printCmdM name lp a0 more rp).length := by
  have := needArgM_le a0
  have := needMoreM_le more
  simp only [needCmdM, printCmdM, List.length_cons, List.length_append, List.length_nil]; omega

theorem CmdM.need_le (c : CmdM) : c.need + 1 ≤ c.print.length := by
  cases c with
  | args name lp a0 more rp => have := needCmdM_le name lp a0 more rp; simp only [CmdM.need, CmdM.print]; omega
  | empty name lp rp => simp [CmdM.need, CmdM.print]
  | bare name => simp [CmdM.need, CmdM.print]

end Pory.P1c
