import PoryProofs.ProgramShift
/-
P2 helpers: the reference elaboration of a script body reads the constant substitution only at the literals of
the tokens of the body.

`elabL_congr`: if `σ` and `σ'` agree on the literal of every printed token of `b`, the elaborations with `σ`
and with `σ'` coincide (same statements, implicit data, counters, or the same error).
-/
namespace Pory.P2
open Pory Pory.Parser Pory.C02P Pory.C10b Pory.SwitchParse Pory.StmtG
open Pory.C14b (swVal)
open Pory.C10c
open Pory.C11b (operandName badPosMsg Form printAuto autoLeafT leftSideMsg)
open Pory.C12c

/-- `σ` and `σ'` agree on the literals of the tokens `l`. -/
def AgreeOn (σ σ' : String → String) (l : List Tok) : Prop := ∀ t ∈ l, σ t.lit = σ' t.lit

theorem AgreeOn.mono {σ σ' : String → String} {l' l : List Tok} (h : AgreeOn σ σ' l)
    (hs : ∀ t ∈ l', t ∈ l) : AgreeOn σ σ' l' := fun t ht => h t (hs t ht)

section
variable {σ σ' : String → String}

theorem argPart_congr {t : Tok} (h : σ t.lit = σ' t.lit) : argPart σ t = argPart σ' t := by
  unfold argPart; rw [h]

theorem renderArg_congr {a : List Tok} (h : AgreeOn σ σ' a) : renderArg σ a = renderArg σ' a := by
  unfold renderArg
  congr 1
  exact List.map_congr_left (fun t ht => argPart_congr (h t ht))

theorem renderArgs_congr {l : List (List Tok)} (h : ∀ a ∈ l, AgreeOn σ σ' a) :
    l.map (renderArg σ) = l.map (renderArg σ') :=
  List.map_congr_left (fun a ha => renderArg_congr (h a ha))

theorem mem_printMore {t : Tok} : ∀ {more : List (Tok × List Tok)} {p : Tok × List Tok}, p ∈ more → t ∈ p.2 →
    t ∈ printMore more
  | q :: r, p, hp, ht => by
    simp only [printMore, List.mem_cons, List.mem_append]
    rcases List.mem_cons.1 hp with rfl | hp
    · exact .inr (.inl ht)
    · exact .inr (.inr (mem_printMore hp ht))

theorem args_congr {a0 : List Tok} {more : List (Tok × List Tok)} (h0 : AgreeOn σ σ' a0)
    (hm : AgreeOn σ σ' (printMore more)) :
    (a0 :: more.map (·.2)).map (renderArg σ) = (a0 :: more.map (·.2)).map (renderArg σ') := by
  apply renderArgs_congr
  intro a ha
  rcases List.mem_cons.1 ha with rfl | ha
  · exact h0
  · obtain ⟨p, hp, rfl⟩ := List.mem_map.1 ha
    exact fun t ht => hm t (mem_printMore hp ht)

theorem partE_congr {e : AElem} (h : AgreeOn σ σ' e.toks) : partE σ e = partE σ' e := by
  cases e with
  | tok t => exact argPart_congr (h t (by simp [AElem.toks]))
  | _ => rfl

theorem mem_printArgE {t : Tok} {a : List AElem} {e : AElem} (he : e ∈ a) (ht : t ∈ e.toks) :
    t ∈ printArgE a := by
  induction a with
  | nil => cases he
  | cons x r ih =>
    simp only [printArgE, List.mem_append]
    rcases List.mem_cons.1 he with rfl | he
    · exact .inl ht
    · exact .inr (ih he)

theorem renderArgE_congr {a : List AElem} (h : AgreeOn σ σ' (printArgE a)) : renderArgE σ a = renderArgE σ' a := by
  unfold renderArgE
  congr 1
  exact List.map_congr_left (fun e he => partE_congr (fun t ht => h t (mem_printArgE he ht)))

theorem mem_printMoreE {t : Tok} {more : List (Tok × List AElem)} {p : Tok × List AElem} (hp : p ∈ more)
    (ht : t ∈ printArgE p.2) : t ∈ printMoreE more := by
  induction more with
  | nil => cases hp
  | cons q r ih =>
    simp only [printMoreE, List.mem_cons, List.mem_append]
    rcases List.mem_cons.1 hp with rfl | hp
    · exact .inr (.inl ht)
    · exact .inr (.inr (ih hp))

theorem argsE_congr {a0 : List AElem} {more : List (Tok × List AElem)} (h0 : AgreeOn σ σ' (printArgE a0))
    (hm : AgreeOn σ σ' (printMoreE more)) :
    (a0 :: more.map (·.2)).map (renderArgE σ) = (a0 :: more.map (·.2)).map (renderArgE σ') := by
  apply List.map_congr_left
  intro a ha
  rcases List.mem_cons.1 ha with rfl | ha
  · exact renderArgE_congr h0
  · obtain ⟨p, hp, rfl⟩ := List.mem_map.1 ha
    exact renderArgE_congr (fun t ht => hm t (mem_printMoreE hp ht))

/-! ### conditions -/

theorem leafT_congr {lf : Leaf} (h : AgreeOn σ σ' (printLeaf lf)) : leafT σ lf = leafT σ' lf := by
  cases lf with
  | flagBare ps d x =>
    have := h (tkp (ps 2) .IDENT x) (by simp [printLeaf, operandToks])
    simp only [tkp_lit] at this
    simp only [leafT, this]
  | flagNot ps d x =>
    have := h (tkp (ps 3) .IDENT x) (by simp [printLeaf, operandToks])
    simp only [tkp_lit] at this
    simp only [leafT, this]
  | flagCmp ps d x eqv tv =>
    have := h (tkp (ps 2) .IDENT x) (by simp [printLeaf, operandToks])
    simp only [tkp_lit] at this
    simp only [leafT, this]
  | varBare ps x =>
    have := h (tkp (ps 2) .IDENT x) (by simp [printLeaf, operandToks])
    simp only [tkp_lit] at this
    simp only [leafT, this]
  | varNot ps x =>
    have := h (tkp (ps 3) .IDENT x) (by simp [printLeaf, operandToks])
    simp only [tkp_lit] at this
    simp only [leafT, this]
  | varCmp ps x op n =>
    have h1 := h (tkp (ps 2) .IDENT x) (by simp [printLeaf, operandToks])
    have h2 := h (n.tok (ps 5)) (by simp [printLeaf, operandToks])
    simp only [tkp_lit, Val.tok] at h1 h2
    simp only [leafT, h1, h2]

mutual
theorem treeOr_congr : ∀ (neg : Bool) (g : SOr), AgreeOn σ σ' (printOr g) → treeOr σ neg g = treeOr σ' neg g
  | neg, .one a, h => by
    rw [treeOr, treeOr]
    exact treeAnd_congr neg a (h.mono (fun t ht => by simpa [printOr] using ht))
  | neg, .more a p r, h => by
    rw [treeOr, treeOr, treeAnd_congr neg a (h.mono (fun t ht => by simp [printOr, ht])),
      treeOr_congr neg r (h.mono (fun t ht => by simp [printOr, ht]))]
theorem treeAnd_congr : ∀ (neg : Bool) (g : SAnd), AgreeOn σ σ' (printAnd g) → treeAnd σ neg g = treeAnd σ' neg g
  | neg, .one u, h => by
    rw [treeAnd, treeAnd]
    exact treeUn_congr neg u (h.mono (fun t ht => by simpa [printAnd] using ht))
  | neg, .more u p r, h => by
    rw [treeAnd, treeAnd, treeUn_congr neg u (h.mono (fun t ht => by simp [printAnd, ht]))]
    exact treeAndAcc_congr neg _ r (h.mono (fun t ht => by simp [printAnd, ht]))
theorem treeAndAcc_congr : ∀ (neg : Bool) (left : BoolExpr) (g : SAnd), AgreeOn σ σ' (printAnd g) →
    treeAndAcc σ neg left g = treeAndAcc σ' neg left g
  | neg, left, .one u, h => by
    rw [treeAndAcc, treeAndAcc, treeUn_congr neg u (h.mono (fun t ht => by simpa [printAnd] using ht))]
  | neg, left, .more u p r, h => by
    rw [treeAndAcc, treeAndAcc, treeUn_congr neg u (h.mono (fun t ht => by simp [printAnd, ht]))]
    exact treeAndAcc_congr neg _ r (h.mono (fun t ht => by simp [printAnd, ht]))
theorem treeUn_congr : ∀ (neg : Bool) (g : SUn), AgreeOn σ σ' (printUn g) → treeUn σ neg g = treeUn σ' neg g
  | neg, .leaf lf, h => by
    rw [treeUn, treeUn, leafT_congr (h.mono (fun t ht => by simpa [printUn] using ht))]
  | neg, .paren n pn pl pr e, h => by
    rw [treeUn, treeUn]
    exact treeOr_congr (neg != n) e (h.mono (fun t ht => by simp [printUn, ht]))
end

theorem elabCond_congr (env : Env) (c : SCond) (cid : Nat) (h : AgreeOn σ σ' (printCond c)) :
    elabCond env σ c cid = elabCond env σ' c cid := by
  cases c with
  | plain g => simp only [elabCond, treeOr_congr false g h]
  | auto fm name lp a0 more rp =>
    have hargs : (a0 :: more.map (·.2)).map (renderArg σ) = (a0 :: more.map (·.2)).map (renderArg σ') :=
      args_congr (h.mono (fun t ht => by simp [printCond, printAuto, printCmd, ht]))
        (h.mono (fun t ht => by simp [printCond, printAuto, printCmd, ht]))
    have hcmp : fm.cmpValue σ = fm.cmpValue σ' := by
      cases fm with
      | cmp p1 p2 l1 op v =>
        have := h (v.tok p2) (by simp [printCond, printAuto, Form.post])
        simpa [Form.cmpValue, Val.tok] using this
      | bare => rfl
      | neg => rfl
    simp only [elabCond, hargs, autoLeafT, hcmp]

theorem caseValue_congr {vs : List Tok} (h : AgreeOn σ σ' vs) : caseValue σ vs = caseValue σ' vs := by
  unfold caseValue
  congr 1
  exact List.map_congr_left (fun v hv => h v hv)

theorem operandOf_congr {ops : List Tok} (rp2 : Tok) (h : AgreeOn σ σ' ops) :
    operandOf σ ops rp2 = operandOf σ' ops rp2 := by
  unfold operandOf
  have : ops.map (fun o => σ o.lit) = ops.map (fun o => σ' o.lit) := List.map_congr_left (fun v hv => h v hv)
  rw [this]

/-! ### statements -/

variable (env : Env) (sn : String)

mutual
theorem elabS_congr : ∀ (x : SStmt), AgreeOn σ σ' (printS x) → ∀ (B C : List Nat) (nx : Bool) (sid cid : Nat),
    elabS env sn σ B C nx x sid cid = elabS env sn σ' B C nx x sid cid
  | .cmd name lp a0 more rp, h, _, _, _, _, _ => by
    rw [elabS, elabS, args_congr (h.mono (fun t ht => by simp [printS, printCmd, ht]))
      (h.mono (fun t ht => by simp [printS, printCmd, ht]))]
  | .cmdI name lp a0 more rp, h, _, _, _, _, _ => by
    rw [elabS, elabS, argsE_congr (h.mono (fun t ht => by simp [printS, printCmdE, ht]))
      (h.mono (fun t ht => by simp [printS, printCmdE, ht]))]
  | .cmdE .., _, _, _, _, _, _ => by rw [elabS, elabS]
  | .cmd0 _, _, _, _, _, _, _ => by rw [elabS, elabS]
  | .label .., _, _, _, _, _, _ => by rw [elabS, elabS]
  | .labelS .., _, _, _, _, _, _ => by rw [elabS, elabS]
  | .brk t, _, B, _, _, _, _ => by cases B <;> rw [elabS, elabS]
  | .cont t, _, _, C, nx, _, _ => by
    cases C with
    | nil => rw [elabS, elabS]
    | cons c Ct => cases nx <;> rw [elabS, elabS]
  | .ite i lp c rp lb body rb elifs els, h, B, C, nx, sid, cid => by
    have h0 : ∀ cid, elabCond env σ c cid = elabCond env σ' c cid :=
      fun cid => elabCond_congr env c cid (h.mono (fun t ht => by simp [printS, ht]))
    have h1 := elabL_congr body (h.mono (fun t ht => by simp [printS, ht]))
    have h2 := elabElifs_congr elifs (h.mono (fun t ht => by simp [printS, ht]))
    have h3 := elabElse_congr els (h.mono (fun t ht => by simp [printS, ht]))
    rw [elabS, elabS]
    simp only [h0, h1, h2, h3]
  | .while_ w lp c rp lb body rb, h, B, C, nx, sid, cid => by
    have h0 : ∀ cid, elabCond env σ c cid = elabCond env σ' c cid :=
      fun cid => elabCond_congr env c cid (h.mono (fun t ht => by simp [printS, ht]))
    have h1 := elabL_congr body (h.mono (fun t ht => by simp [printS, ht]))
    rw [elabS, elabS]
    simp only [h0, h1]
  | .whileInf w lb body rb, h, B, C, nx, sid, cid => by
    have h1 := elabL_congr body (h.mono (fun t ht => by simp [printS, ht]))
    rw [elabS, elabS]
    simp only [h1]
  | .doWhile d lb body rb w lp c rp, h, B, C, nx, sid, cid => by
    have h0 : ∀ cid, elabCond env σ c cid = elabCond env σ' c cid :=
      fun cid => elabCond_congr env c cid (h.mono (fun t ht => by simp [printS, ht]))
    have h1 := elabL_congr body (h.mono (fun t ht => by simp [printS, ht]))
    rw [elabS, elabS]
    simp only [h0, h1]
  | .switch_ sw lp v lp2 ops rp2 rp lb cases rb, h, B, C, nx, sid, cid => by
    have h1 := elabCases_congr cases (h.mono (fun t ht => by simp [printS, ht]))
    have h2 := operandOf_congr rp2 (h.mono (σ := σ) (σ' := σ') (l' := ops) (fun t ht => by simp [printS, ht]))
    rw [elabS, elabS]
    simp only [h1, h2]
  | .switchA sw lp name lp2 a0 more rp2 rp lb cases rb, h, B, C, nx, sid, cid => by
    have h1 := elabCases_congr cases (h.mono (fun t ht => by simp [printS, ht]))
    have h2 := args_congr (a0 := a0) (more := more) (h.mono (fun t ht => by simp [printS, printCmd, ht]))
      (h.mono (fun t ht => by simp [printS, printCmd, ht]))
    rw [elabS, elabS]
    simp only [h1, h2]
  | .pory ps lp x rp lb cases rb, h, B, C, nx, sid, cid => by
    have h1 := elabPCases_congr cases (h.mono (fun t ht => by simp [printS, ht]))
    rw [elabS, elabS]
    simp only [h1]
theorem elabL_congr : ∀ (b : List SStmt), AgreeOn σ σ' (printL b) → ∀ (B C : List Nat) (last : Bool)
    (sid cid : Nat), elabL env sn σ B C last b sid cid = elabL env sn σ' B C last b sid cid
  | [], _, _, _, _, _, _ => by rw [elabL_nil, elabL_nil]
  | x :: rest, h, B, C, last, sid, cid => by
    have h1 := elabS_congr x (h.mono (fun t ht => by simp [printL, ht]))
    have h2 := elabL_congr rest (h.mono (fun t ht => by simp [printL, ht]))
    rw [elabL_cons, elabL_cons]
    simp only [h1, h2]
theorem elabElifs_congr : ∀ (es : List SElif), AgreeOn σ σ' (printElifs es) → ∀ (B C : List Nat) (sid cid : Nat),
    elabElifs env sn σ B C es sid cid = elabElifs env sn σ' B C es sid cid
  | [], _, _, _, _, _ => by rw [elabElifs, elabElifs]
  | .mk e lp c rp lb body rb :: rest, h, B, C, sid, cid => by
    have h0 : ∀ cid, elabCond env σ c cid = elabCond env σ' c cid :=
      fun cid => elabCond_congr env c cid (h.mono (fun t ht => by simp [printElifs, printElif, ht]))
    have h1 := elabL_congr body (h.mono (fun t ht => by simp [printElifs, printElif, ht]))
    have h2 := elabElifs_congr rest (h.mono (fun t ht => by simp [printElifs, ht]))
    rw [elabElifs, elabElifs]
    simp only [h0, h1, h2]
theorem elabElse_congr : ∀ (el : SElse), AgreeOn σ σ' (printElse el) → ∀ (B C : List Nat) (sid cid : Nat),
    elabElse env sn σ B C el sid cid = elabElse env sn σ' B C el sid cid
  | .none, _, _, _, _, _ => by rw [elabElse, elabElse]
  | .some e lb body rb, h, B, C, sid, cid => by
    have h1 := elabL_congr body (h.mono (fun t ht => by simp [printElse, ht]))
    rw [elabElse, elabElse]
    simp only [h1]
theorem elabCases_congr : ∀ (cases : List SCase), AgreeOn σ σ' (printCases cases) → ∀ (B C : List Nat)
    (seen : List String) (hd : Bool) (sid cid : Nat),
    elabCases env sn σ B C cases seen hd sid cid = elabCases env sn σ' B C cases seen hd sid cid
  | [], _, _, _, _, _, _, _ => by rw [elabCases, elabCases]
  | .case ct vs colon body :: rest, h, B, C, seen, hd, sid, cid => by
    have h0 : caseValue σ vs = caseValue σ' vs :=
      caseValue_congr (h.mono (fun t ht => by simp [printCases, printCase, ht]))
    have h1 := elabL_congr body (h.mono (fun t ht => by simp [printCases, printCase, ht]))
    have h2 := elabCases_congr rest (h.mono (fun t ht => by simp [printCases, ht]))
    rw [elabCases, elabCases]
    simp only [caseTok, h0, h1, h2]
  | .dflt d colon body :: rest, h, B, C, seen, hd, sid, cid => by
    have h1 := elabL_congr body (h.mono (fun t ht => by simp [printCases, printCase, ht]))
    have h2 := elabCases_congr rest (h.mono (fun t ht => by simp [printCases, ht]))
    rw [elabCases, elabCases]
    simp only [h1, h2]
theorem elabPCases_congr : ∀ (cases : List SPCase), AgreeOn σ σ' (printPCases cases) → ∀ (B C : List Nat)
    (acc : List (String × List Stmt × ImpData)) (sid cid : Nat),
    elabPCases env sn σ B C cases acc sid cid = elabPCases env sn σ' B C cases acc sid cid
  | [], _, _, _, _, _, _ => by rw [elabPCases, elabPCases]
  | .colon key ct x :: rest, h, B, C, acc, sid, cid => by
    have h1 := elabS_congr x (h.mono (fun t ht => by simp [printPCases, printPCase, ht]))
    have h2 := elabPCases_congr rest (h.mono (fun t ht => by simp [printPCases, ht]))
    rw [elabPCases, elabPCases]
    simp only [h1, h2]
  | .brace key lbt body rbt :: rest, h, B, C, acc, sid, cid => by
    have h1 := elabL_congr body (h.mono (fun t ht => by simp [printPCases, printPCase, ht]))
    have h2 := elabPCases_congr rest (h.mono (fun t ht => by simp [printPCases, ht]))
    rw [elabPCases, elabPCases]
    simp only [h1, h2]
end

end
end Pory.P2
