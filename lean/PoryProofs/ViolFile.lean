import PoryProofs.ViolStmt
import PoryProofs.Properties.P2b
/-
C20c helper, stage 2: the parser-stage violations of a WHOLE FILE of the P2b grammar (`STopM`) as a decidable,
id-free checker, and its agreement with the reference elaboration of files (`P2b.elabTopsM`).

* `PViol` — a violation the parser proper reports (before its post-passes): a violation of a script body /
  inline body (`stmt v`, `v : SViol`), a redefined constant, a constant without value, a table row whose
  collected condition / value is empty.  `PViol.err`, `PViol.tok`.
* `violTops env K ts` — the first of them in source order; `K` = the constants defined so far (a `const`
  statement extends it: `constsAfter`), script bodies / inline bodies are checked outside every loop and switch
  (`violBody`).
* `elabTopsM_viol` : from a state with empty stacks, `elabTopsM env ts s` fails exactly with the located error
  of `violTops env s.constants ts`, and succeeds iff there is none.
-/
namespace Pory.C20c
open Pory Pory.Parser Pory.C02P Pory.StmtG Pory.TopParse Pory.P2 Pory.P2b
open Pory.MapScriptsParse (collVal rowName entryName)

inductive PViol where
  | stmt (v : SViol)
  /-- the name token of the second definition -/
  | constRedefined (name : Tok)
  | constNoValue (kw eq name : Tok)
  | emptyCond (t : Tok)
  | emptyCmp (a d : Tok)
  deriving DecidableEq, Repr

def PViol.err : PViol → PFail
  | .stmt v => v.err
  | .constRedefined name => dupConstErr name
  | .constNoValue kw eq name => emptyConstErr kw eq name
  | .emptyCond t => emptyCondErr t
  | .emptyCmp a d => emptyCmpErr a d

/-- The offending token: where the reported range starts. -/
def PViol.tok : PViol → Tok
  | .stmt v => v.tok
  | .constRedefined name => name
  | .constNoValue kw _ _ => kw
  | .emptyCond t => t
  | .emptyCmp a _ => a

/-- The first violation of a script body / inline body (outside every loop and switch, closed by `}`). -/
def violBody (env : Env) (K : List (String × String)) (b : List SStmt) : Option PViol :=
  (violL env (substC K) false false true b).map PViol.stmt

def violRows (env : Env) (K : List (String × String)) : List SRow → Option PViol
  | [] => none
  | .plain cs comma vs colon _ :: rs =>
      if collVal K cs = "" then some (.emptyCond (cs.headD comma))
      else if collVal K vs = "" then some (.emptyCmp (cs.headD comma) colon)
      else violRows env K rs
  | .inline cs comma vs lb body _ :: rs =>
      if collVal K cs = "" then some (.emptyCond (cs.headD comma))
      else if collVal K vs = "" then some (.emptyCmp (cs.headD comma) lb)
      else orV (violBody env K body) (violRows env K rs)

def violEntries (env : Env) (K : List (String × String)) : List SEntry → Option PViol
  | [] => none
  | .plain .. :: es => violEntries env K es
  | .inline _ _ body _ :: es => orV (violBody env K body) (violEntries env K es)
  | .table _ _ rows _ :: es => orV (violRows env K rows) (violEntries env K es)

/-- The first violation of one top-level statement, `K` = the constants defined before it. -/
def violTop (env : Env) (K : List (String × String)) : STopM → Option PViol
  | .base (.script _ _ _ _ body _) => violBody env K body
  | .base (.const kw name eq vs) =>
      if (K.lookup name.lit).isSome then some (.constRedefined name)
      else if constAcc K vs "" = "" then some (.constNoValue kw eq name)
      else none
  | .base _ => none
  | .mapscripts _ _ _ _ es _ => violEntries env K es

/-- The constants after a statement. -/
def constsAfter (K : List (String × String)) : STopM → List (String × String)
  | .base (.const _ name _ vs) => (name.lit, constAcc K vs "") :: K
  | _ => K

/-- **The first parser-stage violation of a file**, in source order. -/
def violTops (env : Env) : List (String × String) → List STopM → Option PViol
  | _, [] => none
  | K, t :: r => orV (violTop env K t) (violTops env (constsAfter K t) r)

/-! ### agreement with the reference elaboration -/

theorem orV_errG {α : Type} {f : α → PFail} {a b : Option α} {e : PFail} (h : some e = a.map f) :
    some e = (orV a b).map f := by
  cases a with
  | none => cases h
  | some v => exact h

theorem orV_okG {α : Type} {f : α → PFail} {a b : Option α} (h : none = a.map f) : orV a b = b := by
  cases a with
  | none => rfl
  | some v => cases h

/-- A block under a context with empty stacks. -/
theorem elabE_viol (env : Env) (sn : String) (c : Ctx) (b : List SStmt) (hB : c.breakStack = [])
    (hC : c.continueStack = []) :
    perrOf (elabE env sn c b) = (violBody env c.consts b).map PViol.err := by
  have h := elabL_viol env sn b (substC c.consts) c.breakStack c.continueStack true c.nextSid c.nextCmdId
  rw [hB, hC] at h
  simp only [List.isEmpty_nil, Bool.not_true] at h
  unfold elabE violBody
  rw [hB, hC, Option.map_map]
  split
  · rename_i e he; rw [he] at h; exact h
  · rename_i stmts imp sid cid he; rw [he] at h; exact h

theorem elabE_ctx {env : Env} {sn : String} {c c' : Ctx} {b : List SStmt} {stmts : List Stmt} {imp : ImpData}
    (h : elabE env sn c b = .ok (stmts, imp, c')) (hB : c.breakStack = []) (hC : c.continueStack = []) :
    c'.breakStack = [] ∧ c'.continueStack = [] ∧ c'.consts = c.consts := by
  obtain ⟨h1, h2, h3⟩ := elabE_stacks h
  exact ⟨h1.trans hB, h2.trans hC, h3⟩

theorem elabRows_viol (env : Env) (ms ty : String) : ∀ (rows : List SRow) (i : Nat) (c : Ctx),
    c.breakStack = [] → c.continueStack = [] →
    perrOf (elabRows env ms ty rows i c) = (violRows env c.consts rows).map PViol.err ∧
    ∀ es imp c', elabRows env ms ty rows i c = .ok (es, imp, c') →
      c'.breakStack = [] ∧ c'.continueStack = [] ∧ c'.consts = c.consts
  | [], i, c, hB, hC => by
    refine ⟨rfl, ?_⟩
    intro es imp c' h
    simp only [elabRows] at h
    cases h
    exact ⟨hB, hC, rfl⟩
  | .plain cs comma vs colon name :: rs, i, c, hB, hC => by
    have ih := elabRows_viol env ms ty rs (i + 1) c hB hC
    simp only [elabRows, violRows]
    split
    · exact ⟨rfl, fun _ _ _ h => by cases h⟩
    · split
      · exact ⟨rfl, fun _ _ _ h => by cases h⟩
      · split
        · rename_i e he
          rw [he] at ih
          exact ⟨ih.1, fun _ _ _ h => by cases h⟩
        · rename_i es imp c1 he
          rw [he] at ih
          refine ⟨ih.1, ?_⟩
          intro es' imp' c' h
          cases h
          exact ih.2 _ _ _ rfl
  | .inline cs comma vs lb body rb :: rs, i, c, hB, hC => by
    simp only [elabRows, violRows]
    split
    · exact ⟨rfl, fun _ _ _ h => by cases h⟩
    · split
      · exact ⟨rfl, fun _ _ _ h => by cases h⟩
      · have h0 := elabE_viol env (rowName ms ty i) c body hB hC
        split
        · rename_i e he
          rw [he] at h0
          exact ⟨orV_errG h0, fun _ _ _ h => by cases h⟩
        · rename_i stmts bimp c1 he
          rw [he] at h0
          rw [orV_okG h0]
          obtain ⟨hB1, hC1, hK1⟩ := elabE_ctx he hB hC
          have ih := elabRows_viol env ms ty rs (i + 1) c1 hB1 hC1
          rw [hK1] at ih
          split
          · rename_i e he2
            rw [he2] at ih
            exact ⟨ih.1, fun _ _ _ h => by cases h⟩
          · rename_i es imp c2 he2
            rw [he2] at ih
            refine ⟨ih.1, ?_⟩
            intro es' imp' c' h
            cases h
            exact ih.2 _ _ _ rfl

theorem elabEntries_viol (env : Env) (ms : String) : ∀ (es : List SEntry) (c : Ctx),
    c.breakStack = [] → c.continueStack = [] →
    perrOf (elabEntries env ms es c) = (violEntries env c.consts es).map PViol.err ∧
    ∀ mss tbs imp c', elabEntries env ms es c = .ok (mss, tbs, imp, c') →
      c'.breakStack = [] ∧ c'.continueStack = [] ∧ c'.consts = c.consts
  | [], c, hB, hC => by
    refine ⟨rfl, ?_⟩
    intro mss tbs imp c' h
    simp only [elabEntries] at h
    cases h
    exact ⟨hB, hC, rfl⟩
  | .plain ty colon name :: es, c, hB, hC => by
    have ih := elabEntries_viol env ms es c hB hC
    simp only [elabEntries, violEntries]
    split
    · rename_i e he
      rw [he] at ih
      exact ⟨ih.1, fun _ _ _ _ h => by cases h⟩
    · rename_i mss tbs imp c1 he
      rw [he] at ih
      refine ⟨ih.1, ?_⟩
      intro mss' tbs' imp' c' h
      cases h
      exact ih.2 _ _ _ _ rfl
  | .inline ty lb body rb :: es, c, hB, hC => by
    simp only [elabEntries, violEntries]
    have h0 := elabE_viol env (entryName ms ty.lit) c body hB hC
    split
    · rename_i e he
      rw [he] at h0
      exact ⟨orV_errG h0, fun _ _ _ _ h => by cases h⟩
    · rename_i stmts bimp c1 he
      rw [he] at h0
      rw [orV_okG h0]
      obtain ⟨hB1, hC1, hK1⟩ := elabE_ctx he hB hC
      have ih := elabEntries_viol env ms es c1 hB1 hC1
      rw [hK1] at ih
      split
      · rename_i e he2
        rw [he2] at ih
        exact ⟨ih.1, fun _ _ _ _ h => by cases h⟩
      · rename_i mss tbs imp c2 he2
        rw [he2] at ih
        refine ⟨ih.1, ?_⟩
        intro mss' tbs' imp' c' h
        cases h
        exact ih.2 _ _ _ _ rfl
  | .table ty lbr rows rbr :: es, c, hB, hC => by
    simp only [elabEntries, violEntries]
    have h0 := elabRows_viol env ms ty.lit rows 0 c hB hC
    split
    · rename_i e he
      rw [he] at h0
      exact ⟨orV_errG h0.1, fun _ _ _ _ h => by cases h⟩
    · rename_i entries rimp c1 he
      rw [he] at h0
      rw [orV_okG h0.1]
      obtain ⟨hB1, hC1, hK1⟩ := h0.2 _ _ _ rfl
      have ih := elabEntries_viol env ms es c1 hB1 hC1
      rw [hK1] at ih
      split
      · rename_i e he2
        rw [he2] at ih
        exact ⟨ih.1, fun _ _ _ _ h => by cases h⟩
      · rename_i mss tbs imp c2 he2
        rw [he2] at ih
        refine ⟨ih.1, ?_⟩
        intro mss' tbs' imp' c' h
        cases h
        exact ih.2 _ _ _ _ rfl

/-- The invariant of the file elaboration that matters for violations. -/
def Clean (s : PState) : Prop := s.breakStack = [] ∧ s.continueStack = []

theorem afterScript_clean {s : PState} (h : Clean s) (imp : ImpData) (c' : Ctx) :
    Clean (afterScript s imp c') ∧ (afterScript s imp c').constants = s.constants := by
  unfold afterScript Clean
  rw [addImp_breakStack, addImp_continueStack, addImp_constants]
  exact ⟨h, rfl⟩

/-- **One statement**: the located error of its first violation, or a clean state with the constants of
`constsAfter`. -/
theorem stepTopM_viol (env : Env) (t : STopM) (s : PState) (hs : Clean s) :
    perrOf (stepTopM env t s) = (violTop env s.constants t).map PViol.err ∧
    ∀ o s1, stepTopM env t s = .ok (o, s1) → Clean s1 ∧ s1.constants = constsAfter s.constants t := by
  cases t with
  | base t =>
    cases t with
    | script kw md name lb body rb =>
      simp only [stepTopM, stepTop, violTop, constsAfter]
      have h0 := elabE_viol env name.lit (ctxOf s) body hs.1 hs.2
      split
      · rename_i e he
        rw [he] at h0
        exact ⟨h0, fun _ _ h => by cases h⟩
      · rename_i stmts imp c' he
        rw [he] at h0
        refine ⟨h0, ?_⟩
        intro o s1 h
        cases h
        exact afterScript_clean hs imp c'
    | raw kw v =>
      refine ⟨rfl, ?_⟩
      intro o s1 h
      simp only [stepTopM, stepTop] at h
      cases h
      exact ⟨hs, rfl⟩
    | const kw name eq vs =>
      simp only [stepTopM, stepTop, violTop, constsAfter]
      split
      · exact ⟨rfl, fun _ _ h => by cases h⟩
      · split
        · exact ⟨rfl, fun _ _ h => by cases h⟩
        · refine ⟨rfl, ?_⟩
          intro o s1 h
          cases h
          exact ⟨hs, rfl⟩
    | movement kw md name lb items rb =>
      refine ⟨rfl, ?_⟩
      intro o s1 h
      simp only [stepTopM, stepTop] at h
      cases h
      exact ⟨hs, rfl⟩
    | mart kw md name lb items rb =>
      refine ⟨rfl, ?_⟩
      intro o s1 h
      simp only [stepTopM, stepTop] at h
      cases h
      exact ⟨hs, rfl⟩
    | text kw md name lb v rb =>
      refine ⟨rfl, ?_⟩
      intro o s1 h
      simp only [stepTopM, stepTop] at h
      cases h
      exact ⟨hs, rfl⟩
  | mapscripts kw md name lb es rb =>
    simp only [stepTopM, violTop, constsAfter]
    have h0 := elabEntries_viol env name.lit es (ctxOf s) hs.1 hs.2
    split
    · rename_i e he
      rw [he] at h0
      exact ⟨h0.1, fun _ _ h => by cases h⟩
    · rename_i mss tbs imp c' he
      rw [he] at h0
      refine ⟨h0.1, ?_⟩
      intro o s1 h
      cases h
      exact afterScript_clean hs imp c'

/-- **Whole files**: the file elaboration fails exactly with the located error of the first violation. -/
theorem elabTopsM_viol (env : Env) : ∀ (ts : List STopM) (s : PState), Clean s →
    perrOf (elabTopsM env ts s) = (violTops env s.constants ts).map PViol.err
  | [], _, _ => rfl
  | t :: r, s, hs => by
    simp only [elabTopsM, violTops]
    have h0 := stepTopM_viol env t s hs
    split
    · rename_i e he
      rw [he] at h0
      exact orV_errG h0.1
    · rename_i o s1 he
      rw [he] at h0
      rw [orV_okG h0.1]
      obtain ⟨hc, hk⟩ := h0.2 _ _ rfl
      have ih := elabTopsM_viol env r s1 hc
      rw [hk] at ih
      split
      · rename_i e he2; rw [he2] at ih; exact ih
      · rename_i tops s2 he2; rw [he2] at ih; exact ih

theorem clean_init (eofT : Tok) : Clean (initState eofT) := ⟨rfl, rfl⟩

end Pory.C20c
